/-
C09, round 7 — the code AROUND the forwarding decision (htlcswitch/link.go, switch.go):

* `channelLink.processRemoteAdds`: how the `htlcPacket` handed to the switch is built from the
  `update_add_htlc` received on the incoming link and the onion payload (`hop.ForwardingInfo`), and
  which link's `InboundFee` travels with it;
* `Switch.UpdateForwardingPolicies` / `channelLink.UpdateForwardingPolicy`: which link gets which
  policy;
* `Switch.SendHTLC` → `getLocalLink` for locally sourced HTLCs;
* `Switch.checkCircularForward` and the two places `handlePacketAdd` calls it;
* `Switch.failAliasUpdate` (both directions) and `createFailureWithUpdate` on top of it: which
  channel_update a failure embeds and how it is re-labelled;
* the aux-traffic-shaper branches of `validateHtlcAmount` / `canSendHtlc`.

Core Lean only.  Tied to the code by drv_c09 (lines `e2e`, `snd`, `circ`, `fau`, `afwd`).
-/
import LndModel.C09.Model

namespace LndModel.C09

/-! ## Packet construction (processRemoteAdds) and policy installation -/

/-- The fields of a received `lnwire.UpdateAddHTLC` the forwarding path reads. -/
structure AddMsg where
  id : Nat := 0
  amount : Nat
  expiry : Nat
  deriving Repr, DecidableEq

/-- `hop.ForwardingInfo` decoded from the onion payload of this hop. -/
structure FwdInfo where
  nextHop : Nat            -- NextHopChannel()
  amountToForward : Nat
  outgoingCltv : Nat
  deriving Repr, DecidableEq

/-- The fields of `htlcPacket` read by `Switch.handlePacketAdd`. -/
structure Packet where
  incomingChanID : Nat
  incomingHTLCID : Nat
  outgoingChanID : Nat
  incomingAmount : Nat
  amount : Nat
  incomingTimeout : Nat
  outgoingTimeout : Nat
  inBase : Int
  inRate : Int
  deriving Repr, DecidableEq

/-- A link registered in the switch with its whole `cfg.FwrdingPolicy` (the `InboundFee` of the
    policy is what the link charges when it is the INCOMING link). -/
structure SwLink where
  cand : Cand
  chanPoint : Nat
  inBase : Int
  inRate : Int
  deriving Repr, DecidableEq

/-- `models.ForwardingPolicy` with its inbound fee. -/
structure FullPolicy where
  p : Policy
  inBase : Int
  inRate : Int
  deriving Repr, DecidableEq

namespace Gen

/-- `channelLink.UpdateForwardingPolicy`: the whole policy is replaced. -/
def updateForwardingPolicy (l : SwLink) (np : FullPolicy) : SwLink :=
  { l with cand := { l.cand with p := np.p }, inBase := np.inBase, inRate := np.inRate }

/-- `Switch.UpdateForwardingPolicies(chanPolicies)`: every registered link whose channel point is a
    key of the map gets that policy, all others keep theirs. -/
def updateForwardingPolicies (upd : Nat → Option FullPolicy) (links : List SwLink) : List SwLink :=
  links.map fun l => match upd l.chanPoint with
    | some np => updateForwardingPolicy l np
    | none => l

/-- `processRemoteAdds`, non-exit hop: the packet built for the switch.  `inLink` is the link the
    add arrived on. -/
def mkPacket (inLink : SwLink) (add : AddMsg) (fwd : FwdInfo) : Packet :=
  { incomingChanID := inLink.cand.scid
    incomingHTLCID := add.id
    outgoingChanID := fwd.nextHop
    incomingAmount := add.amount
    amount := fwd.amountToForward
    incomingTimeout := add.expiry
    outgoingTimeout := fwd.outgoingCltv
    inBase := inLink.inBase
    inRate := inLink.inRate }

end Gen

/-- The arguments `handlePacketAdd` passes to every candidate's `CheckHtlcForward`. -/
def Packet.inputs (k : Packet) (height : Nat) : Inputs :=
  ⟨k.incomingAmount, k.amount, k.incomingTimeout, k.outgoingTimeout, height, k.inBase, k.inRate⟩

namespace Gen

/-- The forwarding path of one received add: `processRemoteAdds` → `ForwardPackets` →
    `handlePacketAdd` (channel-addressed next hop). -/
def forwardAdd (rejectHTLC isAlias : Bool) (base : Option Nat) (links : List SwLink)
    (inLink : SwLink) (add : AddMsg) (fwd : FwdInfo) (height r : Nat) : SwOutcome :=
  let k := mkPacket inLink add fwd
  handlePacketAddFull rejectHTLC false 0 isAlias base k.outgoingChanID (links.map (·.cand)) r
    (k.inputs height)

/-- `Switch.SendHTLC(firstHop, _, htlc)`: `getLocalLink` decides. -/
def sendHTLC (base : Option Nat) (links : List SwLink) (firstHop amount expiry height : Nat) :
    SwOutcome :=
  getLocalLinkMapped base firstHop (links.map (·.cand)) amount expiry height

end Gen

/-! ## Which channel_update a failure embeds: `Switch.failAliasUpdate`, `createFailureWithUpdate` -/

/-- The switch state `failAliasUpdate` reads.  `aliases b` = `forwardingIndex[b].getAliases()`
    (`none`: no link under that key), `fetch k` = `cfg.FetchLastChannelUpdate(k)` (`none`: error),
    `signOk` = `cfg.SignAliasUpdate` succeeds. -/
structure AliasView where
  isAlias : Nat → Bool
  aliasToReal : Nat → Option Nat
  baseIndex : Nat → Option Nat
  aliases : Nat → Option (List Nat)
  fetch : Nat → Option Upd
  signOk : Bool

namespace Gen

/-- re-label and re-sign (`update.ShortChannelID = scid; SignAliasUpdate(update)`). -/
def relabel (v : AliasView) (u : Upd) (scid : Nat) : Option Upd :=
  if v.signOk then some { u with scid := scid } else none

/-- `Switch.failAliasUpdate(scid, incoming)`. -/
def failAliasUpdate (v : AliasView) (scid : Nat) (incoming : Bool) : Option Upd :=
  if v.isAlias scid then
    match v.aliasToReal scid with
    | none =>
      match v.baseIndex scid with
      | none => none
      | some b =>
        match v.fetch b with
        | none => none
        | some u => relabel v u scid
    | some real =>
      match v.fetch real with
      | none => none
      | some u => relabel v u scid
  else
    match v.baseIndex scid with
    | none => none
    | some b =>
      match v.aliases b with
      | none => none
      | some [] => none
      | some (a :: _) =>
        match v.fetch scid with
        | none => none
        | some u => if incoming then relabel v u a else some u

/-- The key `failAliasUpdate` asks `FetchLastChannelUpdate` for (`none`: no lookup). -/
def failAliasFetchKey (v : AliasView) (scid : Nat) : Option Nat :=
  if v.isAlias scid then
    match v.aliasToReal scid with
    | none => v.baseIndex scid
    | some real => some real
  else
    match v.baseIndex scid with
    | none => none
    | some b =>
      match v.aliases b with
      | none => none
      | some [] => none
      | some (_ :: _) => some scid

/-- `channelLink.createFailureWithUpdate(incoming, outgoingScid, cb)` with the production wiring
    `cfg.FailAliasUpdate = Switch.failAliasUpdate`; `self` = `l.ShortChanID()`. -/
def embeddedUpdate (v : AliasView) (self : Nat) (incoming : Bool) (outgoingScid : Nat) : Option Upd :=
  match failAliasUpdate v (if incoming then self else outgoingScid) incoming with
  | some u => some u
  | none => v.fetch self

end Gen

/-! ## The aux-traffic-shaper branches of `validateHtlcAmount` / `canSendHtlc`

`cfg.AuxTrafficShaper` is `None` in the default build (then everything below reduces to the
plain decision, `PropsR7.aux_absent`).  When it is set: an HTLC the shaper calls custom skips the
min/max HTLC check; after the two expiry checks the shaper is asked whether it handles the
channel and, if so, for the bandwidth to use instead of the link's; any error of the shaper ends
the decision with `FailTemporaryNodeFailure`. -/

/-- What the shaper answers during one decision. -/
structure Aux where
  isCustom : Bool          -- IsCustomHTLC(customRecords)
  handle : Option Bool     -- ShouldHandleTraffic (`none`: error)
  bandwidth : Option Nat   -- PaymentBandwidth (`none`: error)
  deriving Repr, DecidableEq

/-- Outcome of the decision with a shaper: a verdict, or the shaper's error. -/
inductive AVerdict
  | v (x : Verdict)
  | auxError               -- NewLinkError(&lnwire.FailTemporaryNodeFailure{})
  deriving Repr, DecidableEq

namespace Gen

/-- `validateHtlcAmount` with `cfg.AuxTrafficShaper = aux`. -/
def validateHtlcAmountAux (aux : Option Aux) (p : Policy) (amt : Nat) : Verdict :=
  match aux with
  | some a => if a.isCustom then .accept else validateHtlcAmount p amt
  | none => validateHtlcAmount p amt

/-- The bandwidth `canSendHtlc` compares the amount with (`none`: `externalErr != nil`). -/
def auxBandwidth (aux : Option Aux) (linkBw : Nat) : Option Nat :=
  match aux with
  | none => some linkBw
  | some a =>
    match a.handle with
    | none => none
    | some false => some linkBw
    | some true => a.bandwidth

/-- `canSendHtlc` with `cfg.AuxTrafficShaper = aux`. -/
def canSendHtlcAux (aux : Option Aux) (p : Policy) (c : Cfg) (amt timeout height : Nat) : AVerdict :=
  match validateHtlcAmountAux aux p amt with
  | .accept =>
    if timeout ≤ (height + c.rejectDelta) % 4294967296 then .v .expiryTooSoon
    else if timeout > (c.maxCltv + height) % 4294967296 then .v .expiryTooFar
    else
      match auxBandwidth aux c.bandwidth with
      | none => .auxError
      | some bw => if amt > bw then .v .insufficientBandwidth else .v .accept
  | x => .v x

/-- `CheckHtlcTransit` with a shaper. -/
def checkHtlcTransitAux (aux : Option Aux) (p : Policy) (c : Cfg) (amt timeout height : Nat) : AVerdict :=
  canSendHtlcAux aux p c amt timeout height

/-- `CheckHtlcForward` with a shaper. -/
def checkHtlcForwardAux (aux : Option Aux) (p : Policy) (c : Cfg) (i : Inputs) : AVerdict :=
  if i.incoming < i.outgoing ∨ actualFee i < expectedTotal p i then .v .feeInsufficient
  else match canSendHtlcAux aux p c i.outgoing i.expOut i.height with
    | .v .accept =>
      let incomingDelta := if i.expIn ≥ i.expOut then i.expIn - i.expOut else 0
      if i.expIn < i.expOut ∨ incomingDelta < p.timeLockDelta then .v .incorrectCltvExpiry
      else if incomingDelta > c.maxCltv then .v .deltaTooFar
      else .v .accept
    | x => x

end Gen

/-- The `*LinkError` an outcome stands for. -/
def AVerdict.toLinkError (i : Inputs) (alias fetched : Option Upd) : AVerdict → Option LinkError
  | .v x => x.toLinkError i alias fetched
  | .auxError => some ⟨⟨codeTemporaryNodeFailure, -1, none⟩, .none⟩

/-- The policy / cfg the plain decision has to be run with to get the decision under a shaper
    that answered without error: a custom HTLC has no min/max HTLC, the bandwidth is the one the
    shaper reported. -/
def effPolicy' (aux : Option Aux) (p : Policy) : Policy :=
  match aux with
  | some a => if a.isCustom then { p with minHtlc := 0, maxHtlc := 0 } else p
  | none => p

end LndModel.C09
