/-
C09, round 7 — `Switch.checkCircularForward` and the two places `Switch.handlePacketAdd` calls it
(htlcswitch/switch.go).  Core Lean only; tied to the code by drv_c09 (`circ` lines: the real
function called directly on the level-2 switch for ids of every kind).
-/
import LndModel.C09.Model

namespace LndModel.C09

/-- Outcome of `handlePacketAdd` including the circular-route refusal
    (`FailTemporaryChannelFailure` without update + `OutgoingFailureCircularRoute`). -/
inductive AddOutcome
  | circular
  | out (o : SwOutcome)
  deriving Repr, DecidableEq

namespace Gen

/-- `checkCircularForward(incoming, outgoing, allowCircular, _)`: `true` = refused.  Two ids name
    the same channel when they are equal or both have the same entry in `baseIndex`. -/
def checkCircularForward (baseIndex : Nat → Option Nat) (incoming outgoing : Nat) (allow : Bool) :
    Bool :=
  if incoming = outgoing then !allow
  else
    match baseIndex incoming with
    | none => false
    | some a =>
      match baseIndex outgoing with
      | none => false
      | some b => if a ≠ b then false else !allow

/-- `handlePacketAdd` from the top with the circular-route checks: channel-addressed next hop —
    the REQUESTED id is checked before the lookup; node-addressed next hop — every candidate that
    would be circular is dropped before the scan (none left: `unknown_next_peer`). -/
def handlePacketAddCirc (rejectHTLC nodeMode : Bool) (peerKey : Nat) (isAlias : Bool)
    (baseIndex : Nat → Option Nat) (allow : Bool) (incoming chanID : Nat) (allLinks : List Cand)
    (r : Nat) (i : Inputs) : AddOutcome :=
  if rejectHTLC then .out (.fail .forwardsDisabled)
  else if nodeMode then
    match (allLinks.filter (fun l => l.peer = peerKey)).filter
        (fun l => !checkCircularForward baseIndex incoming l.scid allow) with
    | [] => .out (.fail .unknownNextPeer)
    | ls => .out (handlePacketAdd true 0 ls r i)
  else if checkCircularForward baseIndex incoming chanID allow then .circular
  else .out (handlePacketAddFull false false 0 isAlias (baseIndex chanID) chanID allLinks r i)

end Gen

end LndModel.C09
