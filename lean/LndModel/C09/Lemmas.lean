/-
C09 — helper lemmas: the Go fixed-width arithmetic is exact inside the domain.
-/
import LndModel.C09.Model

namespace LndModel.C09

theorem wrapI64_id {x : Int} (h1 : -9223372036854775808 ≤ x) (h2 : x < 9223372036854775808) :
    wrapI64 x = x := by
  unfold wrapI64; omega

theorem toI64_id {n : Nat} (h : n < 9223372036854775808) : toI64 n = (n : Int) := by
  unfold toI64; exact wrapI64_id (by omega) (by omega)

theorem clampRate_bounds (r : Int) : -10000000 ≤ clampRate r ∧ clampRate r ≤ 10000000 := by
  unfold clampRate; split <;> (try split) <;> omega

theorem clampRate_id {r : Int} (h1 : -10000000 ≤ r) (h2 : r ≤ 10000000) : clampRate r = r := by
  unfold clampRate; split <;> (try split) <;> omega

/-- truncating division by 10^6 shrinks the absolute value by 10^6 -/
theorem natAbs_tdiv_million (a : Int) : (a.tdiv 1000000).natAbs = a.natAbs / 1000000 := by
  rw [Int.natAbs_tdiv]; rfl

/-- `ExpectedFee` is exact for amounts ≤ 10^13 msat, rates ≤ 100 %, base fees < 2^32. -/
theorem expectedFee_exact {base rate amt : Nat} (ha : amt ≤ 10000000000000)
    (hr : rate ≤ 1000000) (hb : base < 4294967296) :
    Gen.expectedFee base rate amt = base + amt * rate / 1000000 := by
  have hm : amt * rate ≤ 10000000000000 * 1000000 := Nat.mul_le_mul ha hr
  unfold Gen.expectedFee
  generalize amt * rate = m at *
  omega

/-- bound of the exact outbound fee inside the domain -/
theorem spec_outFee_le {p : Policy} {out : Nat} (ha : out ≤ 10000000000000)
    (hr : p.feeRate ≤ 1000000) (hb : p.baseFee < 4294967296) :
    Spec.outFee p out < 4294967296 + 10000000000000 := by
  have hm : out * p.feeRate ≤ 10000000000000 * 1000000 := Nat.mul_le_mul ha hr
  unfold Spec.outFee
  generalize out * p.feeRate = m at *
  omega

/-- `InboundFee.CalcFee` is exact when the `int64` product does not wrap. -/
theorem calcFee_exact {ib ir : Int} {amt : Nat} (hib : IsI32 ib)
    (hamt : amt < 9223372036854775808)
    (hw : (clampRate ir).natAbs * amt < 9223372036854775808) :
    Gen.calcFee ib ir amt = Spec.inFee ib ir amt := by
  unfold Gen.calcFee Spec.inFee
  rw [toI64_id hamt]
  have hP : (clampRate ir * (amt : Int)).natAbs < 9223372036854775808 := by
    rw [Int.natAbs_mul]; simpa using hw
  have h1 : wrapI64 (clampRate ir * (amt : Int)) = clampRate ir * (amt : Int) :=
    wrapI64_id (by omega) (by omega)
  rw [h1]
  have hq := natAbs_tdiv_million (clampRate ir * (amt : Int))
  unfold IsI32 at hib
  apply wrapI64_id <;> omega

/-- size of the exact inbound fee when the product does not wrap -/
theorem spec_inFee_bounds {ib ir : Int} {x : Nat} (hib : IsI32 ib)
    (hw : (clampRate ir).natAbs * x < 9223372036854775808) :
    -9225519520502 ≤ Spec.inFee ib ir x ∧ Spec.inFee ib ir x ≤ 9225519520502 := by
  unfold Spec.inFee
  have hP : (clampRate ir * (x : Int)).natAbs < 9223372036854775808 := by
    rw [Int.natAbs_mul]; simpa using hw
  have hq := natAbs_tdiv_million (clampRate ir * (x : Int))
  unfold IsI32 at hib
  omega


/-- Inside `Dom` the code's fee test is exactly the negation of the exact fee rule. -/
theorem gen_feeCond_iff {p : Policy} {c : Cfg} {i : Inputs} (h : Dom p c i) :
    (i.incoming < i.outgoing ∨ Gen.actualFee i < Gen.expectedTotal p i) ↔ ¬ Spec.FeeOk p i := by
  obtain ⟨⟨hin, hout, hb, hr, hib, hir, -⟩, hw⟩ := h
  have hof : Gen.outFee p i = Spec.outFee p i.outgoing := by
    unfold Gen.outFee Spec.outFee; exact expectedFee_exact hout hr hb
  have hofle := spec_outFee_le hout hr hb
  unfold InboundNoWrap at hw
  have hx : (i.outgoing + Spec.outFee p i.outgoing) % 18446744073709551616
      = i.outgoing + Spec.outFee p i.outgoing := by omega
  have hinf : Gen.inFee p i
      = Spec.inFee i.inBase i.inRate (i.outgoing + Spec.outFee p i.outgoing) := by
    unfold Gen.inFee; rw [hof, hx]; exact calcFee_exact hib (by omega) hw
  have hbd := spec_inFee_bounds hib hw
  have hexp : Gen.expectedTotal p i = Spec.requiredFee p i := by
    unfold Gen.expectedTotal Spec.requiredFee
    rw [hinf, hof, toI64_id (by omega)]
    apply wrapI64_id <;> omega
  have hact : Gen.actualFee i = (i.incoming : Int) - (i.outgoing : Int) := by
    unfold Gen.actualFee
    rw [toI64_id (by omega), toI64_id (by omega)]
    apply wrapI64_id <;> omega
  rw [hexp, hact]; unfold Spec.FeeOk
  clear hw hbd hx hinf hof hofle hexp hact hin hout hb hr hib hir
  omega

/-- Inside `DomTransit` `canSendHtlc` is the exact decision. -/
theorem gen_canSend_eq {p : Policy} {c : Cfg} {amt t h : Nat} (hd : DomTransit c t h) :
    Gen.canSendHtlc p c amt t h = Spec.checkHtlcTransit p c amt t h := by
  obtain ⟨hh, ht, hr, hm⟩ := hd
  have e1 : (h + c.rejectDelta) % 4294967296 = h + c.rejectDelta := by omega
  have e2 : (c.maxCltv + h) % 4294967296 = h + c.maxCltv := by omega
  unfold Gen.canSendHtlc Gen.validateHtlcAmount Spec.checkHtlcTransit Spec.MinOk Spec.MaxOk
    Spec.NotTooSoon Spec.NotTooFar Spec.BwOk
  rw [e1, e2]
  by_cases h1 : amt < p.minHtlc
  · have : ¬ p.minHtlc ≤ amt := by omega
    simp [h1, this]
  · have h1' : p.minHtlc ≤ amt := by omega
    by_cases h2 : p.maxHtlc ≠ 0 ∧ amt > p.maxHtlc
    · have : ¬ (p.maxHtlc = 0 ∨ amt ≤ p.maxHtlc) := by omega
      simp [h1, h1', h2]
    · have h2' : (p.maxHtlc = 0 ∨ amt ≤ p.maxHtlc) := by omega
      simp only [h1, h2, h1', h2', if_false, not_true]
      by_cases h3 : t ≤ h + c.rejectDelta
      · have : ¬ h + c.rejectDelta < t := by omega
        simp [h3, this]
      · have h3' : h + c.rejectDelta < t := by omega
        by_cases h4 : t > h + c.maxCltv
        · have : ¬ t ≤ h + c.maxCltv := by omega
          simp [h3, h3', h4, this]
        · have h4' : t ≤ h + c.maxCltv := by omega
          by_cases h5 : amt > c.bandwidth
          · have : ¬ amt ≤ c.bandwidth := by omega
            simp [h3, h3', h4, h4', h5, this]
          · have h5' : amt ≤ c.bandwidth := by omega
            simp [h3, h3', h4, h4', h5, h5']

/-- The time-lock-delta tail of `CheckHtlcForward` (uint32 subtraction guarded by `>=`) is the exact
    integer rule; no domain restriction needed. -/
theorem gen_delta_eq (p : Policy) (c : Cfg) (i : Inputs) :
    (let incomingDelta := if i.expIn ≥ i.expOut then i.expIn - i.expOut else 0
     if i.expIn < i.expOut ∨ incomingDelta < p.timeLockDelta then Verdict.incorrectCltvExpiry
     else if incomingDelta > c.maxCltv then Verdict.deltaTooFar
     else Verdict.accept)
    = (if ¬ Spec.DeltaOk p i then Verdict.incorrectCltvExpiry
       else if ¬ Spec.DeltaMaxOk c i then Verdict.deltaTooFar
       else Verdict.accept) := by
  unfold Spec.DeltaOk Spec.DeltaMaxOk
  simp only []
  by_cases h1 : i.expIn ≥ i.expOut
  · simp only [h1, if_true]
    by_cases h2 : i.expIn - i.expOut < p.timeLockDelta
    · have a : i.expIn < i.expOut ∨ i.expIn - i.expOut < p.timeLockDelta := Or.inr h2
      have b : ¬ ((p.timeLockDelta : Int) ≤ (i.expIn : Int) - (i.expOut : Int)) := by omega
      simp only [a, b, if_true, not_false_eq_true]
    · have a : ¬ (i.expIn < i.expOut ∨ i.expIn - i.expOut < p.timeLockDelta) := by omega
      have b : ((p.timeLockDelta : Int) ≤ (i.expIn : Int) - (i.expOut : Int)) := by omega
      simp only [a, b, if_false, not_true]
      by_cases h3 : i.expIn - i.expOut > c.maxCltv
      · have d : ¬ ((i.expIn : Int) - (i.expOut : Int) ≤ (c.maxCltv : Int)) := by omega
        simp only [h3, d, if_true, not_false_eq_true]
      · have d : ((i.expIn : Int) - (i.expOut : Int) ≤ (c.maxCltv : Int)) := by omega
        simp only [h3, d, if_false, not_true]
  · have a : i.expIn < i.expOut ∨ (if i.expIn ≥ i.expOut then i.expIn - i.expOut else 0) < p.timeLockDelta :=
      Or.inl (by omega)
    have b : ¬ ((p.timeLockDelta : Int) ≤ (i.expIn : Int) - (i.expOut : Int)) := by omega
    simp only [a, b, if_true, not_false_eq_true]

/-- `canSendHtlc` accepting implies the amount rules (no wrapping arithmetic involved). -/
theorem gen_canSend_accept {p : Policy} {c : Cfg} {amt t h : Nat}
    (hcs : Gen.canSendHtlc p c amt t h = .accept) :
    Spec.MinOk p amt ∧ Spec.MaxOk p amt ∧ Spec.BwOk c amt := by
  unfold Gen.canSendHtlc Gen.validateHtlcAmount at hcs
  unfold Spec.MinOk Spec.MaxOk Spec.BwOk
  by_cases a1 : amt < p.minHtlc
  · simp [a1] at hcs
  · by_cases a2 : p.maxHtlc ≠ 0 ∧ amt > p.maxHtlc
    · simp [a1, a2] at hcs
    · simp only [a1, a2, if_false] at hcs
      by_cases a3 : t ≤ (h + c.rejectDelta) % 4294967296
      · simp [a3] at hcs
      · by_cases a4 : t > (c.maxCltv + h) % 4294967296
        · simp [a3, a4] at hcs
        · by_cases a5 : amt > c.bandwidth
          · simp [a3, a4, a5] at hcs
          · omega

/-- The possible results of `canSendHtlc`, with the exact rule violated where no wrapping
    arithmetic is involved. -/
theorem gen_canSend_cases {p : Policy} {c : Cfg} {amt t h : Nat} :
    Gen.canSendHtlc p c amt t h = .accept ∨
    (Gen.canSendHtlc p c amt t h = .amountBelowMinimum ∧ ¬ Spec.MinOk p amt) ∨
    (Gen.canSendHtlc p c amt t h = .htlcExceedsMax ∧ ¬ Spec.MaxOk p amt) ∨
    Gen.canSendHtlc p c amt t h = .expiryTooSoon ∨
    Gen.canSendHtlc p c amt t h = .expiryTooFar ∨
    (Gen.canSendHtlc p c amt t h = .insufficientBandwidth ∧ ¬ Spec.BwOk c amt) := by
  unfold Gen.canSendHtlc Gen.validateHtlcAmount Spec.MinOk Spec.MaxOk Spec.BwOk
  by_cases a1 : amt < p.minHtlc
  · simp [a1]
  · by_cases a2 : p.maxHtlc ≠ 0 ∧ amt > p.maxHtlc
    · simp [a1, a2]
    · simp only [a1, a2, if_false]
      by_cases a3 : t ≤ (h + c.rejectDelta) % 4294967296
      · simp [a3]
      · by_cases a4 : t > (c.maxCltv + h) % 4294967296
        · simp [a3, a4]
        · by_cases a5 : amt > c.bandwidth
          · simp [a3, a4, a5]
          · simp [a3, a4, a5]

/-! ### the switch's scan loop -/

theorem linkFailure_none_iff (l : Cand) (i : Inputs) :
    Gen.linkFailure l i = none ↔ l.eligible = true ∧ Gen.checkHtlcForward l.p l.c i = .accept := by
  unfold Gen.linkFailure
  cases he : l.eligible <;> simp
  cases hv : Gen.checkHtlcForward l.p l.c i <;> simp

theorem scan_foldl_dests (i : Inputs) (links : List Cand) (st : Gen.Scan) :
    (links.foldl (Gen.scanStep i) st).dests
      = st.dests ++ links.filter (fun l => (Gen.linkFailure l i).isNone) := by
  induction links generalizing st with
  | nil => simp
  | cons x xs ih =>
    rw [List.foldl_cons, ih]
    unfold Gen.scanStep
    cases h : Gen.linkFailure x i <;> simp [h]

theorem scan_foldl_errs_other (i : Inputs) (links : List Cand) (st : Gen.Scan) (k : Nat)
    (h : ∀ y ∈ links, y.scid ≠ k) : (links.foldl (Gen.scanStep i) st).errs k = st.errs k := by
  induction links generalizing st with
  | nil => rfl
  | cons x xs ih =>
    rw [List.foldl_cons, ih _ (fun y hy => h y (List.mem_cons_of_mem _ hy))]
    unfold Gen.scanStep
    have hx : x.scid ≠ k := h x (List.mem_cons_self ..)
    cases hf : Gen.linkFailure x i <;> simp
    intro hk; exact absurd hk.symm hx

theorem scan_foldl_errs (i : Inputs) (links : List Cand) (st : Gen.Scan) (l : Cand) (f : SwFailure)
    (hl : l ∈ links) (hnd : (links.map (·.scid)).Nodup) (hf : Gen.linkFailure l i = some f) :
    (links.foldl (Gen.scanStep i) st).errs l.scid = some f := by
  induction links generalizing st with
  | nil => cases hl
  | cons x xs ih =>
    rw [List.map_cons, List.nodup_cons] at hnd
    rw [List.foldl_cons]
    rcases List.mem_cons.mp hl with rfl | hmem
    · rw [scan_foldl_errs_other]
      · unfold Gen.scanStep; simp [hf]
      · intro y hy hk
        exact hnd.1 (List.mem_map.mpr ⟨y, hy, hk⟩)
    · exact ih _ hmem hnd.2

theorem linkFailure_some_link (l : Cand) (i : Inputs) (v : Verdict) (he : l.eligible = true)
    (hv : Gen.checkHtlcForward l.p l.c i = v) (hne : v ≠ .accept) :
    Gen.linkFailure l i = some (.link v) := by
  unfold Gen.linkFailure
  rw [hv]
  cases v <;> simp_all

theorem scan_dests (links : List Cand) (i : Inputs) :
    (Gen.scanLinks links i).dests = links.filter (fun l => (Gen.linkFailure l i).isNone) := by
  unfold Gen.scanLinks; rw [scan_foldl_dests]; simp

/-! ### the sharp domain -/

/-- truncating division by 10^6 in terms of `/` (which `omega` understands) -/
theorem tdiv_million (a : Int) :
    a.tdiv 1000000 = if 0 ≤ a then a / 1000000 else -((-a) / 1000000) := by
  split
  · next h => exact Int.tdiv_eq_ediv_of_nonneg h
  · next h =>
    have h' : 0 ≤ -a := by omega
    have := Int.tdiv_eq_ediv_of_nonneg (a := -a) (b := 1000000) h'
    rw [Int.neg_tdiv] at this
    omega

/-- `InboundFee.CalcFee` is exact when the `int64` product stays inside `[-2^63, 2^63)`. -/
theorem calcFee_exact_int {ib ir : Int} {amt : Nat} (hib : IsI32 ib)
    (hamt : amt < 9223372036854775808)
    (h1 : -9223372036854775808 ≤ clampRate ir * (amt : Int))
    (h2 : clampRate ir * (amt : Int) < 9223372036854775808) :
    Gen.calcFee ib ir amt = Spec.inFee ib ir amt := by
  unfold Gen.calcFee Spec.inFee
  rw [toI64_id hamt, wrapI64_id h1 h2, tdiv_million]
  unfold IsI32 at hib
  generalize clampRate ir * (amt : Int) = P at *
  apply wrapI64_id <;> split <;> omega

/-- … and ONLY then: if the product leaves `[-2^63, 2^63)` the result differs from the exact fee. -/
theorem calcFee_wrong_of_wrap {ib ir : Int} {amt : Nat} (hib : IsI32 ib)
    (hamt : amt < 9223372036854775808)
    (hw : clampRate ir * (amt : Int) < -9223372036854775808 ∨
          9223372036854775808 ≤ clampRate ir * (amt : Int)) :
    Gen.calcFee ib ir amt ≠ Spec.inFee ib ir amt := by
  unfold Gen.calcFee Spec.inFee
  rw [toI64_id hamt, tdiv_million, tdiv_million]
  unfold IsI32 at hib
  generalize clampRate ir * (amt : Int) = P at *
  have hP' : wrapI64 P = (P + 9223372036854775808) % 18446744073709551616 - 9223372036854775808 := rfl
  generalize wrapI64 P = P' at *
  have hin : wrapI64 (ib + if 0 ≤ P' then P' / 1000000 else -(-P' / 1000000))
      = ib + if 0 ≤ P' then P' / 1000000 else -(-P' / 1000000) := by
    apply wrapI64_id <;> split <;> omega
  rw [hin]
  split <;> split <;> omega

/-- size of the exact inbound fee when the product stays inside `[-2^63, 2^63)` -/
theorem spec_inFee_bounds_int {ib ir : Int} {x : Nat} (hib : IsI32 ib)
    (h1 : -9223372036854775808 ≤ clampRate ir * (x : Int))
    (h2 : clampRate ir * (x : Int) < 9223372036854775808) :
    -9225519520503 ≤ Spec.inFee ib ir x ∧ Spec.inFee ib ir x ≤ 9225519520502 := by
  unfold Spec.inFee
  rw [tdiv_million]
  unfold IsI32 at hib
  generalize clampRate ir * (x : Int) = P at *
  split <;> omega

/-- `CalcFee` with a rate that clamps to zero is the base fee, whatever the amount. -/
theorem calcFee_rate_zero {ib ir : Int} (amt : Nat) (hib : IsI32 ib) (h0 : clampRate ir = 0) :
    Gen.calcFee ib ir amt = ib ∧ Spec.inFee ib ir amt = ib := by
  unfold Gen.calcFee Spec.inFee
  rw [h0]
  unfold IsI32 at hib
  constructor
  · rw [Int.zero_mul]
    have : wrapI64 0 = 0 := by decide
    rw [this]
    have : Int.tdiv 0 1000000 = 0 := by decide
    rw [this, Int.add_zero]
    apply wrapI64_id <;> omega
  · rw [Int.zero_mul]
    have : Int.tdiv 0 1000000 = 0 := by decide
    rw [this]; omega

/-- Inside `DomWide`, when no money is lost, the code's fee test is exactly the negation of the
    exact fee rule. -/
theorem gen_feeCond_iff_wide {p : Policy} {c : Cfg} {i : Inputs} (h : DomWide p c i)
    (hle : i.outgoing ≤ i.incoming) :
    (i.incoming < i.outgoing ∨ Gen.actualFee i < Gen.expectedTotal p i) ↔ ¬ Spec.FeeOk p i := by
  obtain ⟨hin, hmul, hib, hlo, hhi, htot, -, -⟩ := h
  unfold WIn at hin; unfold WRateMul at hmul; unfold WInBase at hib
  unfold WInMulLo at hlo; unfold WInMulHi at hhi; unfold WTotal at htot
  have hbd := spec_inFee_bounds_int (ib := i.inBase) hib (Int.le_of_lt hlo) hhi
  -- the exact outbound fee fits uint64 (it is bounded through the total)
  have hofb : Spec.outFee p i.outgoing < 9232597556375278311 := by
    unfold Spec.requiredFee at htot; omega
  have hof : Gen.outFee p i = Spec.outFee p i.outgoing := by
    unfold Gen.outFee Gen.expectedFee
    unfold Spec.outFee at hofb ⊢
    rw [Nat.mod_eq_of_lt hmul]
    generalize i.outgoing * p.feeRate = m at *
    omega
  have hinf : Gen.inFee p i
      = Spec.inFee i.inBase i.inRate (i.outgoing + Spec.outFee p i.outgoing) := by
    unfold Gen.inFee; rw [hof]
    by_cases h0 : clampRate i.inRate = 0
    · rw [(calcFee_rate_zero _ hib h0).1, (calcFee_rate_zero _ hib h0).2]
    · -- a non-zero rate: the bounded product bounds the amount
      have hx63 : i.outgoing + Spec.outFee p i.outgoing < 9223372036854775808 := by
        have hna : (clampRate i.inRate * ((i.outgoing + Spec.outFee p i.outgoing : Nat) : Int)).natAbs
            < 9223372036854775808 := by omega
        rw [Int.natAbs_mul, Int.natAbs_natCast] at hna
        have hr1 : 1 ≤ (clampRate i.inRate).natAbs := by omega
        have := Nat.mul_le_mul_right (i.outgoing + Spec.outFee p i.outgoing) hr1
        omega
      have hx : (i.outgoing + Spec.outFee p i.outgoing) % 18446744073709551616
          = i.outgoing + Spec.outFee p i.outgoing := by omega
      rw [hx]
      exact calcFee_exact_int hib hx63 (Int.le_of_lt hlo) hhi
  have hexp : Gen.expectedTotal p i = Spec.requiredFee p i := by
    unfold Gen.expectedTotal
    unfold Spec.requiredFee at htot ⊢
    rw [hinf, hof]
    unfold toI64 wrapI64
    omega
  have hact : Gen.actualFee i = (i.incoming : Int) - (i.outgoing : Int) := by
    unfold Gen.actualFee
    rw [toI64_id hin, toI64_id (by omega)]
    apply wrapI64_id <;> omega
  rw [hexp, hact]; unfold Spec.FeeOk
  clear hbd hinf hof hexp hact hin hmul hib hlo hhi htot hofb
  omega

/-- `canSendHtlc` is the exact decision as soon as the two uint32 sums do not wrap. -/
theorem gen_canSend_eq_wide {p : Policy} {c : Cfg} {amt t h : Nat}
    (hs : h + c.rejectDelta < 4294967296) (hf : h + c.maxCltv < 4294967296) :
    Gen.canSendHtlc p c amt t h = Spec.checkHtlcTransit p c amt t h := by
  have e1 : (h + c.rejectDelta) % 4294967296 = h + c.rejectDelta := by omega
  have e2 : (c.maxCltv + h) % 4294967296 = h + c.maxCltv := by omega
  unfold Gen.canSendHtlc Gen.validateHtlcAmount Spec.checkHtlcTransit Spec.MinOk Spec.MaxOk
    Spec.NotTooSoon Spec.NotTooFar Spec.BwOk
  rw [e1, e2]
  by_cases h1 : amt < p.minHtlc
  · have : ¬ p.minHtlc ≤ amt := by omega
    simp [h1, this]
  · have h1' : p.minHtlc ≤ amt := by omega
    by_cases h2 : p.maxHtlc ≠ 0 ∧ amt > p.maxHtlc
    · have : ¬ (p.maxHtlc = 0 ∨ amt ≤ p.maxHtlc) := by omega
      simp [h1, h1', h2]
    · have h2' : (p.maxHtlc = 0 ∨ amt ≤ p.maxHtlc) := by omega
      simp only [h1, h2, h1', h2', if_false, not_true]
      by_cases h3 : t ≤ h + c.rejectDelta
      · have : ¬ h + c.rejectDelta < t := by omega
        simp [h3, this]
      · have h3' : h + c.rejectDelta < t := by omega
        by_cases h4 : t > h + c.maxCltv
        · have : ¬ t ≤ h + c.maxCltv := by omega
          simp [h3, h3', h4, this]
        · have h4' : t ≤ h + c.maxCltv := by omega
          by_cases h5 : amt > c.bandwidth
          · have : ¬ amt ≤ c.bandwidth := by omega
            simp [h3, h3', h4, h4', h5, this]
          · have h5' : amt ≤ c.bandwidth := by omega
            simp [h3, h3', h4, h4', h5, h5']

/-! ### the wire level agrees with the verdict level -/

/-- The update a failure built by `createFailureWithUpdate` embeds. -/
def pickUpd (alias fetched : Option Upd) : Option Upd :=
  match alias with
  | some u => some u
  | none => fetched

theorem createFailure_some {a f : Option Upd} {u : Upd} (h : pickUpd a f = some u)
    (cb : Upd → WireFailure) : Gen.createFailureWithUpdate a f cb = cb u := by
  unfold Gen.createFailureWithUpdate
  cases a with
  | some x => simp [pickUpd] at h; simp [h]
  | none =>
    cases f with
    | some y => simp [pickUpd] at h; simp [h]
    | none => simp [pickUpd] at h

theorem createFailure_none {a f : Option Upd} (h : pickUpd a f = none)
    (cb : Upd → WireFailure) :
    Gen.createFailureWithUpdate a f cb = ⟨codeTemporaryNodeFailure, -1, none⟩ := by
  unfold Gen.createFailureWithUpdate
  cases a with
  | some x => simp [pickUpd] at h
  | none =>
    cases f with
    | some y => simp [pickUpd] at h
    | none => rfl

theorem canSendHtlcLE_eq (p : Policy) (c : Cfg) (i : Inputs) (a f : Option Upd) :
    Gen.canSendHtlcLE p c i.outgoing i.expOut i.height a f
      = (Gen.canSendHtlc p c i.outgoing i.expOut i.height).toLinkError i a f := by
  unfold Gen.canSendHtlcLE Gen.validateHtlcAmountLE Gen.canSendHtlc Gen.validateHtlcAmount
  by_cases a1 : i.outgoing < p.minHtlc
  · simp [a1, Verdict.toLinkError, Verdict.carriesUpdate, Verdict.code, Verdict.detail,
      Verdict.payload, Gen.newLinkError]
  · by_cases a2 : p.maxHtlc ≠ 0 ∧ i.outgoing > p.maxHtlc
    · simp [a1, a2, Verdict.toLinkError, Verdict.carriesUpdate, Verdict.code, Verdict.detail,
        Verdict.payload, Gen.newDetailedLinkError]
    · simp only [a1, a2, if_false]
      by_cases a3 : i.expOut ≤ (i.height + c.rejectDelta) % 4294967296
      · simp [a3, Verdict.toLinkError, Verdict.carriesUpdate, Verdict.code, Verdict.detail,
          Verdict.payload, Gen.newLinkError]
      · by_cases a4 : i.expOut > (c.maxCltv + i.height) % 4294967296
        · simp [a3, a4, Verdict.toLinkError, Verdict.carriesUpdate, Verdict.code, Gen.newLinkError]
        · by_cases a5 : i.outgoing > c.bandwidth
          · simp [a3, a4, a5, Verdict.toLinkError, Verdict.carriesUpdate, Verdict.code,
              Verdict.detail, Verdict.payload, Gen.newDetailedLinkError]
          · simp [a3, a4, a5, Verdict.toLinkError]

/-- The `*LinkError`-level model of `CheckHtlcForward` (written after the Go text) is the
    verdict-level model followed by the fixed translation verdict ↦ failure message. -/
theorem checkHtlcForwardLE_eq (p : Policy) (c : Cfg) (i : Inputs) (a f : Option Upd) :
    Gen.checkHtlcForwardLE p c i a f = (Gen.checkHtlcForward p c i).toLinkError i a f := by
  unfold Gen.checkHtlcForwardLE Gen.checkHtlcForward
  by_cases hfee : i.incoming < i.outgoing ∨ Gen.actualFee i < Gen.expectedTotal p i
  · simp [hfee, Verdict.toLinkError, Verdict.carriesUpdate, Verdict.code, Verdict.detail,
      Verdict.payload, Gen.newLinkError]
  · simp only [hfee, if_false]
    rw [canSendHtlcLE_eq]
    cases hcs : Gen.canSendHtlc p c i.outgoing i.expOut i.height <;>
      try (simp [Verdict.toLinkError, Verdict.carriesUpdate, Verdict.code, Verdict.detail,
        Verdict.payload]; done)
    simp only [Verdict.toLinkError]
    by_cases h1 : i.expIn < i.expOut ∨
        (if i.expIn ≥ i.expOut then i.expIn - i.expOut else 0) < p.timeLockDelta
    · simp [h1, Verdict.carriesUpdate, Verdict.code, Verdict.detail,
        Verdict.payload, Gen.newLinkError]
    · by_cases h2 : (if i.expIn ≥ i.expOut then i.expIn - i.expOut else 0) > c.maxCltv
      · simp [h1, h2, Verdict.carriesUpdate, Verdict.code, Gen.newLinkError]
      · simp [h1, h2]

theorem checkHtlcTransitLE_eq (p : Policy) (c : Cfg) (i : Inputs) (a f : Option Upd) :
    Gen.checkHtlcTransitLE p c i.outgoing i.expOut i.height a f
      = (Gen.checkHtlcTransit p c i.outgoing i.expOut i.height).toLinkError i a f :=
  canSendHtlcLE_eq p c i a f

/-- code / embedded update of the failure a verdict stands for -/
theorem toLinkError_final {i : Inputs} {a f : Option Upd} {v : Verdict} {e : LinkError}
    (h : v.toLinkError i a f = some e) :
    v ≠ .accept ∧
    (Gen.finalWire e).code
      = (if v.carriesUpdate = true ∧ pickUpd a f = none then codeTemporaryNodeFailure else v.code) ∧
    (Gen.finalWire e).upd = (if v.carriesUpdate = true then pickUpd a f else none) := by
  cases hp : pickUpd a f with
  | none =>
    cases v <;>
      simp [Verdict.toLinkError, Verdict.carriesUpdate, createFailure_none hp] at h <;>
      subst h <;> simp [Gen.finalWire, Gen.wireMessage, Verdict.carriesUpdate, Verdict.code]
  | some u =>
    cases v <;>
      simp [Verdict.toLinkError, Verdict.carriesUpdate, createFailure_some hp] at h <;>
      subst h <;> simp [Gen.finalWire, Gen.wireMessage, Verdict.carriesUpdate, Verdict.code]

/-- verdict-level `Violated` implies code-level `CodeViolated` -/
theorem codeViolated_of_violated {p : Policy} {c : Cfg} {i : Inputs} {v : Verdict} (b : Bool)
    (h : Spec.Violated p c i v) : Spec.CodeViolated p c i b v.code := by
  cases v <;> simp [Spec.Violated, Spec.TransitViolated] at h <;>
    simp [Spec.CodeViolated, Verdict.code, h, codeFeeInsufficient, codeAmountBelowMinimum,
      codeTemporaryChannelFailure, codeExpiryTooSoon, codeExpiryTooFar, codeIncorrectCltvExpiry]

theorem scan_foldl_errs_cases (i : Inputs) (links : List Cand) (st : Gen.Scan) (k : Nat)
    (f : SwFailure) (h : (links.foldl (Gen.scanStep i) st).errs k = some f) :
    st.errs k = some f ∨ ∃ l ∈ links, l.scid = k ∧ Gen.linkFailure l i = some f := by
  induction links generalizing st with
  | nil => exact Or.inl h
  | cons x xs ih =>
    rw [List.foldl_cons] at h
    rcases ih _ h with h1 | ⟨l, hl, hk, hf⟩
    · unfold Gen.scanStep at h1
      cases hx : Gen.linkFailure x i with
      | none => simp [hx] at h1; exact Or.inl h1
      | some g =>
        simp only [hx] at h1
        by_cases hk : k = x.scid
        · simp [hk] at h1
          exact Or.inr ⟨x, List.mem_cons_self .., hk.symm, by rw [hx, h1]⟩
        · simp [hk] at h1; exact Or.inl h1
    · exact Or.inr ⟨l, List.mem_cons_of_mem _ hl, hk, hf⟩

/-- what `linkFailure` can return -/
theorem linkFailure_cases (l : Cand) (i : Inputs) (f : SwFailure)
    (h : Gen.linkFailure l i = some f) :
    (f = .notEligible ∧ l.eligible = false) ∨
      (l.eligible = true ∧ f = .link (Gen.checkHtlcForward l.p l.c i) ∧
        Gen.checkHtlcForward l.p l.c i ≠ .accept) := by
  unfold Gen.linkFailure at h
  cases he : l.eligible with
  | false => simp [he] at h; exact Or.inl ⟨h.symm, rfl⟩
  | true =>
    right
    simp only [he, Bool.true_eq_false, if_false] at h
    cases hv : Gen.checkHtlcForward l.p l.c i <;> simp [hv] at h <;> simp [← h]

theorem find?_scid {links : List Cand} {k : Nat} {l : Cand}
    (h : links.find? (fun l => l.scid = k) = some l) : l ∈ links ∧ l.scid = k := by
  refine ⟨List.mem_of_find?_eq_some h, ?_⟩
  have := List.find?_some h
  simpa using this

end LndModel.C09
