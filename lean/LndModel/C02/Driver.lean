/-
C02 driver (also the release-rule half of C06): replays a harness trace of two real
`LightningChannel`s with restarts on the model (correspondence, `MISMATCH`) and evaluates the
property monitor on the implementation's own answers (`MONITOR`).

Monitor clauses (computed from the implementation's dumps / operation history only):
  reload-error        NewLightningChannel on the re-fetched channel fails or panics
  restore-chains      restored commitments ≠ durable part of the pre-crash chains (local tail; whole
                      remote chain incl. the pending commitment), field by field incl. the real tx
  restore-counters    restored log/htlc counters ≠ indices covered by the last signature sent /
                      the last commitment acknowledged
  restore-logs        restored update logs ≠ signed projection of the pre-crash logs (entries never
                      covered by a signature dropped, everything else present, heights equivalent)
  restore-modified    "HTLC already has a settle/fail" marks differ from the projection
  fee-order           the newest FeeUpdate of a restored log is not the last one in list order
                      (the commitment fee rate is taken from the last one)
  revocation-state    stored revocation points / store / revocation log do not match the remote height
  fwd-pkgs            forwarding packages lost, duplicated or changed
  fwdpkg-reload       a reloaded package is not the pre-crash package: adds / settle-fails, count or
                      content of the ack / settle-fail / forwarding filter (a package seen for the
                      first time must be what NewFwdPkg builds; afterwards exactly the indices
                      acknowledged by the node's link are contained, the forwarding filter is the
                      first decision persisted, else an empty filter over the adds)
  fwdpkg-isfull       IsFull() of a loaded filter ≠ "Contains(i) for every i < count"
  fwdpkg-state        state ≠ lockedIn / processed / completed as implied by the history
  fwdpkg-ack-without-commitdiff  CRASH IMAGE after a committed write transaction (not only after a
                      call): an add / settle-fail is marked acknowledged in a forwarding package
                      although neither an earlier durable write nor a commit diff present in that
                      image carries the response
  crash-image-torn    the durable state after an intermediate write transaction of a call is
                      neither the state before the call nor the state after it
  (+ reload-error on every crash image; correspondence: `write-tx-count` — the code committed a
   different number of write transactions in a call than the model's single atomic write)
  fwdpkg-op-failed    SetFwdFilter / AckAddHtlcs / AckSettleFails with valid references failed
                      (stream `fwdpkg`, FwdDriver.lean: the same clauses on two channels in one
                      channeldb with reload after every transaction, package removal, acks through
                      AppendRemoteCommitChain, plus pkgfilter-contains / -isfull / -roundtrip)
  sig-stored          stored commitment / HTLC signatures differ from the ones received / sent
  release-before-durable  a revoke_and_ack left the node while the durable local commitment height
                      was not above the height of the released secret
  secret-chain        released secret / next point not (durable height − 1, durable height + 1);
                      RevokeCurrentCommitment repeated or went back
  stale-write         a status write through a stale handle changed durable commitments / updates
  borked-write        an operation whose durable write failed still handed out a message
  sync-error          channel_reestablish after a restart fails
  + all C01 clauses on the continued run (conservation, sig-verifies, delivery-rejected,
    internal-error, mirror-signed, mirror-idle, balance-moves, commit-stable, tx-outputs, capacity)
-/
import LndModel.Prelude.Lines
import LndModel.C01.Model
import LndModel.C02.Model
import LndModel.C02.Spec
import LndModel.C02.Total
import LndModel.C02.Lemmas
import LndModel.C02.FwdDriver
import LndModel.C02.CodecDriver
import LndModel.C02.TxAtomic

open LndModel LndModel.Lines LndModel.C01 LndModel.C02

namespace LndModel.C02.Driver

/-! ### parsed dumps (format of the C01 harness) -/

structure RawOut where
  value : Nat
  cls : String
  cltv : Nat
  hid : Nat
  script : String
deriving Repr, BEq, Inhabited

structure CDump where
  chain : Chain
  pos : Nat
  cm : Commit
  raw : List RawOut
deriving Repr, Inhabited

structure NDump where
  ll : Nat := 0
  lc : Nat := 0
  rl : Nat := 0
  rc : Nat := 0
  owe : Bool := false
  need : Bool := false
  pend : List Nat := []
  lmod : List Nat := []
  rmod : List Nat := []
  logL : List Entry := []
  logR : List Entry := []
  commits : List CDump := []
  seen : Bool := false
deriving Repr, Inhabited

def NDump.chainOf (d : NDump) (c : Chain) : List CDump := d.commits.filter (fun x => x.chain == c)

def natD (s : String) : Nat := s.toNat?.getD 0

def parseSet (s : String) : List Nat :=
  if s == "-" then [] else (s.splitOn ";").map natD

def parseIds (s : String) : List Nat :=
  if s == "-" then [] else (s.splitOn ",").map natD

def tyOf : String → Option ETy
  | "add" => some .add | "settle" => some .settle | "fail" => some .fail
  | "malformed" => some .malformed | "fee" => some .feeUpd | _ => none

def parseEntry (tok : String) : Option Entry :=
  match tok.splitOn ":" with
  | ["E", ty, li, ref, amt, exp, hid, aL, aR, rL, rR] =>
    (tyOf ty).map fun t =>
      let isAdd := t == .add
      { ty := t, amt := natD amt, logIndex := natD li,
        htlcIndex := if isAdd then natD ref else 0,
        parent := if isAdd then 0 else natD ref,
        expiry := natD exp, hash := natD hid,
        addL := natD aL, addR := natD aR, rmvL := natD rL, rmvR := natD rR }
  | _ => none

def parseHtlc (tok : String) : Option Htlc :=
  match tok.splitOn ":" with
  | ["H", dir, idx, amt, exp, hid, dust] =>
    some { incoming := dir == "i", idx := natD idx, amt := natD amt, expiry := natD exp,
           hash := natD hid, dust := dust == "1" }
  | _ => none

/-- disk HTLC: `H:dir:idx:amt:exp:hid:dust:logIndex`. -/
def parseDiskHtlc (tok : String) : Option (Htlc × Nat) :=
  match tok.splitOn ":" with
  | ["H", dir, idx, amt, exp, hid, dust, li] =>
    some ({ incoming := dir == "i", idx := natD idx, amt := natD amt, expiry := natD exp,
            hash := natD hid, dust := dust == "1" }, natD li)
  | _ => none

def parseRawOut (tok : String) : Option RawOut :=
  match tok.splitOn ":" with
  | ["O", v, cls, cltv, hid, script] => some ⟨natD v, cls, natD cltv, natD hid, script⟩
  | _ => none

def kindOf : String → Option OKind
  | "tl" => some .toLocal | "tr" => some .toRemote | "al" => some .anchorLocal
  | "ar" => some .anchorRemote | "ho" => some .offered | "hr" => some .received | _ => none

def kindRank : OKind → Nat
  | .toLocal => 0 | .toRemote => 1 | .anchorLocal => 2 | .anchorRemote => 3 | .offered => 4 | .received => 5

def outLe (a b : Out) : Bool :=
  let ka := (a.value, kindRank a.kind, a.cltv, a.hash)
  let kb := (b.value, kindRank b.kind, b.cltv, b.hash)
  ka.1 < kb.1 || (ka.1 == kb.1 && (ka.2.1 < kb.2.1 || (ka.2.1 == kb.2.1 &&
    (ka.2.2.1 < kb.2.2.1 || (ka.2.2.1 == kb.2.2.1 && ka.2.2.2 ≤ kb.2.2.2)))))

def sortOuts (os : List Out) : List Out := os.mergeSort outLe

def pairNat (s : String) : Nat × Nat :=
  match s.splitOn "," with
  | [a, b] => (natD a, natD b)
  | _ => (0, 0)

def commitOfHdr (hdr : List String) (htlcs : List Htlc) (outs : List Out) : Commit :=
  let mi := pairNat ((kv? hdr "mi").getD "")
  let hi := pairNat ((kv? hdr "hi").getD "")
  { height := (kvNat? hdr "h").getD 0, our := (kvNat? hdr "our").getD 0,
    their := (kvNat? hdr "their").getD 0, fee := (kvNat? hdr "fee").getD 0,
    feePerKw := (kvNat? hdr "fpk").getD 0, ourMsg := mi.1, theirMsg := mi.2,
    ourHtlc := hi.1, theirHtlc := hi.2, htlcs := htlcs, outs := outs }

/-- `C X L pos h= our= … | H… | O…` -/
def parseCommit (ws : List String) : Option CDump :=
  match ws with
  | "C" :: _ :: side :: pos :: rest =>
    let hdr := rest.takeWhile (· ≠ "|")
    let r1 := (rest.dropWhile (· ≠ "|")).drop 1
    let hs := r1.takeWhile (· ≠ "|")
    let os := (r1.dropWhile (· ≠ "|")).drop 1
    let raw := os.filterMap parseRawOut
    let outs := raw.filterMap fun o => (kindOf o.cls).map fun k =>
      ({ value := o.value, kind := k, cltv := o.cltv, hash := o.hid } : Out)
    some { chain := if side == "L" then .loc else .rem, pos := natD pos, raw := raw,
           cm := commitOfHdr hdr (hs.filterMap parseHtlc) outs }
  | _ => none

/-! ### durable-state dump (K lines) -/

structure KDump where
  seen : Bool := false
  lh : Nat := 0
  rh : Nat := 0
  ph : String := "-"
  lwr : Bool := false
  ua : String := "0"
  rul : String := "0"
  rcur : Int := 0
  rnext : Int := 0
  store : Int := 0
  prev : Nat := 1
  curlog : Nat := 0
  storeAll : Bool := true
  lsig : String := ""
  lhs : String := ""
  dsig : String := "-"
  lc : DCommit := default
  rc : DCommit := default
  pc : Option DCommit := none
  diff : List Entry := []
  uaL : List Entry := []
  rulL : List Entry := []
  fwd : List FwdPkg := []
  fwdD : List Fwd.Driver.LPkg := []       -- the same packages in full (state, filters)
  fwdErr : Bool := false
  raw : List String := []
deriving Repr, Inhabited

def parseUpd (tok : String) : Option Entry :=
  match tok.splitOn ":" with
  | ["U", ty, li, id, amt, exp, hid] =>
    (tyOf ty).map fun t =>
      match t with
      | .add => { ty := .add, amt := natD amt, logIndex := natD li, htlcIndex := natD id,
                  expiry := natD exp, hash := natD hid }
      | .feeUpd => { ty := .feeUpd, amt := natD amt, logIndex := natD li }
      | t => { ty := t, amt := 0, logIndex := natD li, parent := natD id }
  | _ => none

def parseFwd (tok : String) : Option FwdPkg :=
  match tok.splitOn ":" with
  | ["F", h, a, r] => some ⟨natD h, parseIds a, parseIds r⟩
  | ["F", h, a, r, _, _, _, _] => some ⟨natD h, parseIds a, parseIds r⟩
  | _ => none

def updOfId (i : Nat) : Fwd.Upd := ⟨0, 0, i, 0⟩

/-- `F:height:adds:settlefails:state:fwd:ack:sf` with each filter as `enc/full/bits`. -/
def parseFwdD (tok : String) : Option Fwd.Driver.LPkg :=
  match tok.splitOn ":" with
  | ["F", h, a, r, st, f1, f2, f3] =>
    some { height := natD h, state := (st.toNat?).getD 9, adds := (parseIds a).map updOfId,
           sfs := (parseIds r).map updOfId, fwd := Fwd.Driver.parseFDump f1, ack := Fwd.Driver.parseFDump f2,
           sf := Fwd.Driver.parseFDump f3 }
  | _ => none

def parseDiskCommit (rest : List String) : DCommit :=
  let hdr := rest.takeWhile (· ≠ "|")
  let r1 := (rest.dropWhile (· ≠ "|")).drop 1
  let hs := (r1.takeWhile (· ≠ "|")).filterMap parseDiskHtlc
  { cm := commitOfHdr hdr (hs.map Prod.fst) [], lidx := hs.map Prod.snd }

/-! ### driver state -/

inductive Res where
  | settled | failed
deriving BEq, Repr

structure RevSeen where
  src : String
  s : Int
deriving Repr, Inhabited

/-- the durable state right after one committed write transaction of a call in progress. -/
structure MidImg where
  tx : Nat
  res : String
  raw : List String := []
  fwdD : List Fwd.Driver.LPkg := []
  hasPend : Bool := false
deriving Repr, Inhabited

structure St where
  caseId : String := "0"
  lines : Nat := 0
  cases : Nat := 0
  ops : Nat := 0
  mismatches : Nat := 0
  monitorFails : Nat := 0
  caseMismatch : Nat := 0
  caseMonitor : Nat := 0
  -- model
  inited : Bool := false
  modelOk : Bool := true
  cap : Nat := 0
  anchors : Bool := false
  cfgA : Cfg := default
  sA : C02.St := default
  sB : C02.St := default
  qab : List Msg := []
  qba : List Msg := []
  vA : Nat := 0     -- released revocations of the model trace already matched with V lines
  vB : Nat := 0
  -- implementation view
  dA : NDump := {}
  dB : NDump := {}
  pD : NDump := {}                 -- probe dump being read
  probing : Option String := none
  probeRes : String := "ok"
  kA : KDump := {}
  kB : KDump := {}
  kPrevA : Option (List String) := none   -- durable state that must not change (stale-handle write)
  kPrevB : Option (List String) := none
  kPrevClause : String := "stale-write"
  bogus : Nat := 0
  bogusEven : Nat := 0
  reloaded : List (String × NDump) := []  -- pre-reload live dumps awaiting the post-reload dump
  xA : List String := []                  -- last X line (live extras)
  xB : List String := []
  sentA : String := "-"
  sentB : String := "-"
  revsA : List RevSeen := []
  revsB : List RevSeen := []
  fwdA : List FwdPkg := []                -- forwarding packages seen so far
  fwdB : List FwdPkg := []
  fhA : List Fwd.Hist := []               -- history of every package (created with / acknowledged / decision)
  fhB : List Fwd.Hist := []
  mids : List MidImg := []                -- crash images of the call in progress (several write txs)
  midNode : String := ""
  midN : Nat := 0
  earlyA : List (Bool × Nat × Nat) := []   -- acks (settle-fail?, height, index) of packages not yet dumped
  earlyB : List (Bool × Nat × Nat) := []
  kFreshA : Bool := false                 -- the last K dump of the node is its current durable state
  kFreshB : Bool := false
  wtChecked : Nat := 0
  wtWriting : Nat := 0
  midChecked : Nat := 0
  linkOps : Nat := 0
  pkgDetailChecks : Nat := 0
  pkgPartial : Nat := 0
  borked : Bool := false
  taint : Option String := none   -- a known defect was observed at a real restart of this case
  dirty : List String := []
  qlenAB : Nat := 0
  qlenBA : Nat := 0
  dead : Bool := false
  resolved : List ((String × Nat) × Res) := []
  hist : List ((String × Chain × Nat) × Commit) := []
  -- statistics
  signs : Nat := 0
  sigsVerified : Nat := 0
  idleChecks : Nat := 0
  mirrorSigned : Nat := 0
  commitsChecked : Nat := 0
  balanceMoves : Nat := 0
  probes : Nat := 0
  probesNontrivial : Nat := 0
  reloads : Nat := 0
  syncs : Nat := 0
  revsChecked : Nat := 0
  droppedEntries : Nat := 0
  keptEntries : Nat := 0
  pendAtProbe : Nat := 0
  uaAtProbe : Nat := 0
  rulAtProbe : Nat := 0
  maxHeight : Nat := 0
  staleWrites : Nat := 0
  hypChecks : Nat := 0
  syncSignRefused : Nat := 0
  borkedOps : Nat := 0
  errKinds : List (String × Nat) := []
  samples : Nat := 0

def bump (l : List (String × Nat)) (k : String) : List (String × Nat) :=
  match l.find? (·.1 == k) with
  | some _ => l.map fun (a, n) => if a == k then (a, n + 1) else (a, n)
  | none => l ++ [(k, 1)]

def mismatch (s : St) (detail : String) : IO St := do
  if s.caseMismatch < 3 then
    IO.println s!"MISMATCH case={s.caseId} line={s.lines} {detail}"
  return { s with mismatches := s.mismatches + 1, caseMismatch := s.caseMismatch + 1, modelOk := false }

def monitor (s : St) (clause detail : String) : IO St := do
  if s.caseMonitor < 6 then
    IO.println s!"MONITOR case={s.caseId} clause={clause} line={s.lines} {detail}"
  return { s with monitorFails := s.monitorFails + 1, caseMonitor := s.caseMonitor + 1 }

def resOf (ws : List String) : String :=
  match ws.dropWhile (· ≠ "=>") with
  | _ :: r :: _ => r
  | _ => "?"

def afterArrow (ws : List String) : List String := (ws.dropWhile (· ≠ "=>")).drop 1

def St.model (s : St) (node : String) : C02.St := if node == "A" then s.sA else s.sB
def St.cfgOf (s : St) (node : String) : Cfg := if node == "A" then s.cfgA else s.cfgA.mirror
def St.dump (s : St) (node : String) : NDump := if node == "A" then s.dA else s.dB
def St.kdump (s : St) (node : String) : KDump := if node == "A" then s.kA else s.kB

def setModel (s : St) (node : String) (m : C02.St) : St :=
  if node == "A" then { s with sA := m } else { s with sB := m }

/-! ### model ↔ dump comparison (as in the C01 driver) -/

def oweRemote (n : Node) : Bool :=
  n.logR.logIndex != n.chainL.tip.theirMsg || n.chainR.tip.ourMsg != n.chainL.tip.ourMsg

def entryEq (m d : Entry) : Bool :=
  m.ty == d.ty && m.amt == d.amt && m.logIndex == d.logIndex && m.htlcIndex == d.htlcIndex &&
  m.parent == d.parent && m.addL == d.addL && m.addR == d.addR && m.rmvL == d.rmvL && m.rmvR == d.rmvR &&
  (m.ty != .add || (m.expiry == d.expiry && m.hash == d.hash))

def listEqBy {α : Type} (f : α → α → Bool) : List α → List α → Bool
  | [], [] => true
  | a :: as, b :: bs => f a b && listEqBy f as bs
  | _, _ => false

def sortNat (l : List Nat) : List Nat := l.mergeSort (· ≤ ·)

def commitDiff (m : Commit) (d : CDump) : Option String :=
  let c := d.cm
  if m.height != c.height then some s!"height {m.height}/{c.height}"
  else if m.our != c.our || m.their != c.their then some s!"h={c.height} balances model={m.our},{m.their} impl={c.our},{c.their}"
  else if m.fee != c.fee || m.feePerKw != c.feePerKw then some s!"h={c.height} fee model={m.fee}@{m.feePerKw} impl={c.fee}@{c.feePerKw}"
  else if m.ourMsg != c.ourMsg || m.theirMsg != c.theirMsg || m.ourHtlc != c.ourHtlc || m.theirHtlc != c.theirHtlc then
    some s!"h={c.height} indices model={m.ourMsg},{m.theirMsg},{m.ourHtlc},{m.theirHtlc} impl={c.ourMsg},{c.theirMsg},{c.ourHtlc},{c.theirHtlc}"
  else if m.htlcs != c.htlcs then some s!"h={c.height} htlcs model={repr m.htlcs} impl={repr c.htlcs}"
  else if c.height != 0 && sortOuts m.outs != sortOuts c.outs then
    some s!"h={c.height} outputs model={repr (sortOuts m.outs)} impl={repr (sortOuts c.outs)}"
  else none

def chainDiff (name : String) (m : CChain) (ds : List CDump) : Option String :=
  if m.all.length != ds.length then some s!"{name}: chain length model={m.all.length} impl={ds.length}"
  else (m.all.zip ds).findSome? fun (a, b) => (commitDiff a b).map (s!"{name}: " ++ ·)

def nodeDiff (m : Node) (d : NDump) : Option String :=
  if m.logL.logIndex != d.ll || m.logL.htlcCounter != d.lc || m.logR.logIndex != d.rl || m.logR.htlcCounter != d.rc then
    some s!"counters model={m.logL.logIndex},{m.logL.htlcCounter},{m.logR.logIndex},{m.logR.htlcCounter} impl={d.ll},{d.lc},{d.rl},{d.rc}"
  else if sortNat m.logL.modified.eraseDups != d.lmod || sortNat m.logR.modified.eraseDups != d.rmod then
    some s!"modified sets model={sortNat m.logL.modified.eraseDups}/{sortNat m.logR.modified.eraseDups} impl={d.lmod}/{d.rmod}"
  else if !listEqBy entryEq m.logL.entries d.logL then
    some s!"local log model={repr m.logL.entries} impl={repr d.logL}"
  else if !listEqBy entryEq m.logR.entries d.logR then
    some s!"remote log model={repr m.logR.entries} impl={repr d.logR}"
  else if oweLocal m != d.owe || oweRemote m != d.need then
    some s!"owe/need model={oweLocal m},{oweRemote m} impl={d.owe},{d.need}"
  else if d.pend != [m.logL.logIndex - m.chainL.tip.ourMsg, m.logL.logIndex - m.chainR.tip.ourMsg,
                     m.logR.logIndex - m.chainL.tip.theirMsg, m.logR.logIndex - m.chainR.tip.theirMsg] then
    some s!"NumPendingUpdates impl={d.pend}"
  else (chainDiff "local" m.chainL (d.chainOf .loc)).orElse fun _ => chainDiff "remote" m.chainR (d.chainOf .rem)

def chainOfDump (ds : List CDump) : CChain :=
  match ds.map (·.cm) with
  | [] => default
  | c :: rest => { tail := c, pend := rest }

def nodeOfDump (cfg : Cfg) (d : NDump) : Node :=
  { cfg := cfg
    logL := { entries := d.logL, logIndex := d.ll, htlcCounter := d.lc, modified := d.lmod }
    logR := { entries := d.logR, logIndex := d.rl, htlcCounter := d.rc, modified := d.rmod }
    chainL := chainOfDump (d.chainOf .loc), chainR := chainOfDump (d.chainOf .rem) }

/-- model disk vs the real database content. -/
def dcDiff (nm : String) (m k : DCommit) : Option String :=
  let a := m.cm
  let b := k.cm
  if a.height != b.height || a.our != b.our || a.their != b.their || a.fee != b.fee || a.feePerKw != b.feePerKw then
    some s!"disk {nm}: model h={a.height} {a.our},{a.their} fee={a.fee}@{a.feePerKw} impl h={b.height} {b.our},{b.their} fee={b.fee}@{b.feePerKw}"
  else if a.ourMsg != b.ourMsg || a.theirMsg != b.theirMsg || a.ourHtlc != b.ourHtlc || a.theirHtlc != b.theirHtlc then
    some s!"disk {nm}: indices model={a.ourMsg},{a.theirMsg},{a.ourHtlc},{a.theirHtlc} impl={b.ourMsg},{b.theirMsg},{b.ourHtlc},{b.theirHtlc}"
  else if a.htlcs != b.htlcs then some s!"disk {nm}: htlcs model={repr a.htlcs} impl={repr b.htlcs}"
  else if m.lidx != k.lidx then some s!"disk {nm}: htlc log indices model={m.lidx} impl={k.lidx}"
  else none

def secIdx : Sec → Int
  | .ofHeight h => h
  | .junk _ => -1

def secOf (i : Int) (j : Nat) : Sec := if i ≥ 0 then .ofHeight i.toNat else .junk j

def diskDiff (m : Disk) (k : KDump) : Option String :=
  (dcDiff "local" m.lc k.lc).orElse fun _ =>
  (dcDiff "remote" m.rc k.rc).orElse fun _ =>
  (match m.pend, k.pc with
   | none, none => none
   | some p, some q => (dcDiff "pending" p.1 q).orElse fun _ =>
       if p.2 != k.diff then some s!"disk commit-diff updates model={repr p.2} impl={repr k.diff}" else none
   | some _, none => some "disk: model has a pending commit diff, impl has none"
   | none, some _ => some "disk: impl has a pending commit diff, model has none").orElse fun _ =>
  if m.ua.getD [] != k.uaL then some s!"disk unsignedAcked model={repr (m.ua.getD [])} impl={repr k.uaL}"
  else if m.rul.getD [] != k.rulL then some s!"disk remoteUnsignedLocal model={repr (m.rul.getD [])} impl={repr k.rulL}"
  else if m.lwr != k.lwr then some s!"disk lastWasRevoke model={m.lwr} impl={k.lwr}"
  else if (m.stored : Int) != k.store then some s!"disk revocation store model={m.stored} impl={k.store}"
  else if secIdx m.rcur != k.rcur || secIdx m.rnext != k.rnext then
    some s!"disk remote commitment points model={secIdx m.rcur},{secIdx m.rnext} impl={k.rcur},{k.rnext}"
  else if m.fwd != k.fwd then some s!"disk fwd packages model={repr m.fwd} impl={repr k.fwd}"
  else none

/-! ### C01 monitors on the implementation's dumps -/

def htlcKey (h : Htlc) : Bool × Nat := (h.incoming, h.idx)

def rawSorted : List RawOut → Bool
  | a :: b :: rest =>
    (a.value < b.value || (a.value == b.value &&
      (a.script < b.script || (a.script == b.script && a.cltv ≤ b.cltv)))) && rawSorted (b :: rest)
  | _ => true

def checkCommit (s : St) (node : String) (d : CDump) : IO St := do
  let c := d.cm
  let tag := s!"node={node} chain={if d.chain == .loc then "local" else "remote"} h={c.height}"
  let mut s := { s with commitsChecked := s.commitsChecked + 1, maxHeight := max s.maxHeight c.height }
  let htlcSum := sumBy Htlc.amt c.htlcs
  let anch := if s.anchors then 660000 else 0
  if c.our + c.their + htlcSum + 1000 * c.fee + anch != 1000 * s.cap then
    s ← monitor s "conservation" s!"{tag} our={c.our} their={c.their} htlcs={htlcSum} fee={c.fee} anchors_msat={anch} capacity_msat={1000 * s.cap}"
  if c.height != 0 then
    let total := sumBy RawOut.value d.raw
    if total + c.fee > s.cap then
      s ← monitor s "capacity" s!"{tag} outputs={total} fee={c.fee} capacity={s.cap}"
    let nd := c.htlcs.filter (fun h => !h.dust)
    let ownerBal := if d.chain == .loc then c.our else c.their
    let otherBal := if d.chain == .loc then c.their else c.our
    let bad := d.raw.find? fun o =>
      match o.cls with
      | "tl" => o.value != ownerBal / 1000
      | "tr" => o.value != otherBal / 1000
      | "al" | "ar" => o.value != 330 || !s.anchors
      | "ho" | "hr" => false
      | _ => true
    if let some o := bad then
      s ← monitor s "tx-outputs" s!"{tag} unexpected output value={o.value} class={o.cls}"
    let hv := sortNat ((d.raw.filter fun o => o.cls == "ho" || o.cls == "hr").map (·.value))
    if hv != sortNat (nd.map (·.amt / 1000)) then
      s ← monitor s "tx-outputs" s!"{tag} htlc outputs {hv} vs non-dust htlcs {sortNat (nd.map (·.amt / 1000))}"
    if !rawSorted d.raw then
      s ← monitor s "tx-outputs" s!"{tag} outputs not in BIP69+CLTV order"
  return s

def checkMoves (s : St) (node : String) (initiator : Bool) (chain : Chain) (old new : Commit) : IO St := do
  let peer := if node == "A" then "B" else "A"
  let added := new.htlcs.filter fun h => !(old.htlcs.map htlcKey).contains (htlcKey h)
  let removed := old.htlcs.filter fun h => !(new.htlcs.map htlcKey).contains (htlcKey h)
  let resOfH (h : Htlc) : Option Res :=
    (s.resolved.find? (·.1 == (if h.incoming then peer else node, h.idx))).map (·.2)
  let sumIf (p : Htlc → Bool) (l : List Htlc) : Nat := sumBy Htlc.amt (l.filter p)
  let unk := removed.find? fun h => (resOfH h).isNone
  let tag := s!"node={node} chain={if chain == .loc then "local" else "remote"} h={old.height}->{new.height}"
  if let some h := unk then
    return (← monitor s "balance-moves" s!"{tag} htlc idx={h.idx} incoming={h.incoming} disappeared without a settle/fail")
  let feeOld := if initiator then 1000 * old.fee else 0
  let feeNew := if initiator then 1000 * new.fee else 0
  let feeOld' := if initiator then 0 else 1000 * old.fee
  let feeNew' := if initiator then 0 else 1000 * new.fee
  let ourExp := old.our + feeOld + sumIf (fun h => !h.incoming && resOfH h == some .failed) removed
                  + sumIf (fun h => h.incoming && resOfH h == some .settled) removed
  let ourGot := new.our + feeNew + sumIf (fun h => !h.incoming) added
  let theirExp := old.their + feeOld' + sumIf (fun h => h.incoming && resOfH h == some .failed) removed
                  + sumIf (fun h => !h.incoming && resOfH h == some .settled) removed
  let theirGot := new.their + feeNew' + sumIf (fun h => h.incoming) added
  let s := { s with balanceMoves := s.balanceMoves + 1 }
  if ourExp != ourGot || theirExp != theirGot then
    monitor s "balance-moves" s!"{tag} our: {old.our}->{new.our} their: {old.their}->{new.their} fee: {old.fee}->{new.fee}"
  else pure s

def mirrorHtlc (h : Htlc) : Htlc := { h with incoming := !h.incoming }

def htlcLe (a b : Htlc) : Bool :=
  (a.incoming, a.idx) == (b.incoming, b.idx) || (!a.incoming && b.incoming) || (a.incoming == b.incoming && a.idx ≤ b.idx)

def mirrorDiff (x y : CDump) (bytes : Bool) : Option String :=
  let a := x.cm
  let b := y.cm
  if a.height != b.height then some s!"height {a.height}/{b.height}"
  else if a.our != b.their || a.their != b.our then some s!"balances {a.our},{a.their} vs {b.our},{b.their}"
  else if a.fee != b.fee || a.feePerKw != b.feePerKw then some s!"fee {a.fee}@{a.feePerKw} vs {b.fee}@{b.feePerKw}"
  else if a.htlcs.mergeSort htlcLe != (b.htlcs.map mirrorHtlc).mergeSort htlcLe then
    some s!"htlc sets differ {repr a.htlcs} vs {repr b.htlcs}"
  else if a.ourMsg != b.theirMsg || a.theirMsg != b.ourMsg || a.ourHtlc != b.theirHtlc || a.theirHtlc != b.ourHtlc then
    some s!"log indices {a.ourMsg},{a.theirMsg},{a.ourHtlc},{a.theirHtlc} vs {b.ourMsg},{b.theirMsg},{b.ourHtlc},{b.theirHtlc}"
  else if a.height != 0 && bytes && x.raw != y.raw then some s!"transactions differ at height {a.height}"
  else none

def nodeIdle (d : NDump) : Bool :=
  !d.owe && !d.need && d.pend.all (· == 0) && (d.chainOf .loc).length == 1 && (d.chainOf .rem).length == 1

def systemMonitors (s : St) : IO St := do
  let mut s := s
  if !(s.dA.seen && s.dB.seen) || s.dead || s.borked then return s
  for (x, y, nm) in [(s.dA.chainOf .rem, s.dB.chainOf .loc, "A.remote/B.local"),
                     (s.dB.chainOf .rem, s.dA.chainOf .loc, "B.remote/A.local")] do
    for cx in x do
      for cy in y do
        if cx.cm.height == cy.cm.height then
          s := { s with mirrorSigned := s.mirrorSigned + 1 }
          if let some d := mirrorDiff cx cy true then
            s ← monitor s "mirror-signed" s!"{nm} {d}"
  if s.qlenAB == 0 && s.qlenBA == 0 && nodeIdle s.dA && nodeIdle s.dB then
    s := { s with idleChecks := s.idleChecks + 1 }
    match s.dA.chainOf .loc, s.dA.chainOf .rem, s.dB.chainOf .loc, s.dB.chainOf .rem with
    | [al], [ar], [bl], [br] =>
      if let some d := mirrorDiff al br true then
        s ← monitor s "mirror-idle" s!"A.local vs B.remote: {d}"
      if let some d := mirrorDiff bl ar true then
        s ← monitor s "mirror-idle" s!"B.local vs A.remote: {d}"
    | _, _, _, _ => pure ()
  return s

/-! ### the signed projection (computed from the implementation's pre-crash dump only) -/

structure Proj where
  ll : Nat
  lc : Nat
  rl : Nat
  rc : Nat
  logL : List Entry
  logR : List Entry
  lmod : List Nat
  rmod : List Nat
  lt : Nat
  rt : Nat
  dropped : Nat
  node : Node
deriving Repr

/-- the signed projection (`LndModel.C02.signedProj`) of a dumped node. -/
def projOf (cfg : Cfg) (d : NDump) : Option Proj :=
  if (d.chainOf .loc).isEmpty || (d.chainOf .rem).isEmpty then none else
  let p := signedProj (nodeOfDump cfg d)
  some { ll := p.logL.logIndex, lc := p.logL.htlcCounter, rl := p.logR.logIndex, rc := p.logR.htlcCounter,
         logL := p.logL.entries, logR := p.logR.entries, lmod := sortNat p.logL.modified.eraseDups,
         rmod := sortNat p.logR.modified.eraseDups, lt := p.chainL.tail.height, rt := p.chainR.tail.height,
         dropped := (d.logL.length + d.logR.length) - (p.logL.entries.length + p.logR.entries.length),
         node := p }

def entryStr (e : Entry) : String :=
  let t := match e.ty with | .add => "add" | .settle => "settle" | .fail => "fail" | .malformed => "malformed" | .feeUpd => "fee"
  s!"[{t} logIndex={e.logIndex} htlc={e.htlcIndex} parent={e.parent} amt={e.amt} addHeights={e.addL},{e.addR} removeHeights={e.rmvL},{e.rmvR}]"

/-- order-insensitive comparison of a projected log with a restored log. -/
def logProjDiff (nm : String) (lt rt : Nat) (exp got : List Entry) : Option String :=
  match exp.find? (fun x => !(got.any (fun p => entryKey p == entryKey x && eEquiv lt rt x p))) with
  | some x =>
    -- the node has never revoked (no unsigned-acked key yet): AdvanceCommitChainTail returns early
    let tag := if nm == "local log" && lt == 0 && !x.isAdd && !(got.any (fun p => entryKey p == entryKey x)) then " tag=first-advance" else ""
    some s!"{nm}: signed update lost or changed by the restart: {entryStr x} restored as {(got.filter (fun p => entryKey p == entryKey x)).map entryStr} (local/remote tail heights {lt},{rt}){tag}"
  | none =>
    match got.find? (fun p => !(exp.any (fun x => entryKey p == entryKey x))) with
    | some p => some s!"{nm}: restart produced an update that was not part of the signed state: {entryStr p}"
    | none => if exp.length != got.length then some s!"{nm}: {exp.length} signed updates, {got.length} restored" else none

/-- the commitment fee rate is taken from the LAST FeeUpdate in list order. -/
def feeOrderBad (l : List Entry) : Option String :=
  let fees := l.filter Entry.isFee
  match fees.getLast? with
  | none => none
  | some last =>
    match fees.find? (fun e => e.logIndex > last.logIndex) with
    | some e => some s!"last FeeUpdate in list order has log index {last.logIndex} (rate {last.amt / 1000}), a newer one (log index {e.logIndex}, rate {e.amt / 1000}) precedes it"
    | none => none

def cdumpEq (a b : CDump) : Bool :=
  a.cm == b.cm && a.raw == b.raw

/-- the monitor of `restore_is_signed_projection`: `pre` = live dump before, `post` = restored. -/
def projectionMonitor (s : St) (node : String) (pre post : NDump) (real : Bool := false) : IO St := do
  let mut s := s
  let before := s.monitorFails
  match projOf (s.cfgOf node) pre with
  | none => return s
  | some p =>
    s := { s with droppedEntries := s.droppedEntries + p.dropped, keptEntries := s.keptEntries + p.logL.length + p.logR.length }
    -- chains
    let preL := (pre.chainOf .loc).take 1
    let preR := pre.chainOf .rem
    let postL := post.chainOf .loc
    let postR := post.chainOf .rem
    if !(listEqBy cdumpEq preL postL) then
      s ← monitor s "restore-chains" s!"node={node} local chain after restart {repr (postL.map (·.cm.height))} ≠ durable local tail {repr (preL.map (·.cm))} got {repr (postL.map (·.cm))}"
    if !(listEqBy cdumpEq preR postR) then
      s ← monitor s "restore-chains" s!"node={node} remote chain after restart differs: before={repr (preR.map (·.cm))} after={repr (postR.map (·.cm))}"
    if (post.ll, post.lc, post.rl, post.rc) != (p.ll, p.lc, p.rl, p.rc) then
      s ← monitor s "restore-counters" s!"node={node} counters after restart {post.ll},{post.lc},{post.rl},{post.rc} expected {p.ll},{p.lc},{p.rl},{p.rc}"
    if let some d := logProjDiff "local log" p.lt p.rt p.logL post.logL then
      s ← monitor s "restore-logs" s!"node={node} {d.take 700}"
      if real && (d.splitOn "tag=first-advance").length > 1 && s.taint.isNone then s := { s with taint := some "first-advance" }
    if let some d := logProjDiff "remote log" p.lt p.rt p.logR post.logR then
      s ← monitor s "restore-logs" s!"node={node} {d.take 700}"
    if post.lmod != p.lmod || post.rmod != p.rmod then
      s ← monitor s "restore-modified" s!"node={node} modified sets after restart {post.lmod}/{post.rmod} expected {p.lmod}/{p.rmod}"
    if let some d := feeOrderBad post.logL then
      s ← monitor s "fee-order" s!"node={node} local log: {d}"
      if real && s.taint.isNone then s := { s with taint := some "fee-order" }
    if let some d := feeOrderBad post.logR then
      s ← monitor s "fee-order" s!"node={node} remote log: {d}"
    -- the formal relation itself (every finer clause above is a consequence of it)
    if s.monitorFails == before && !nodeEquiv p.node (nodeOfDump (s.cfgOf node) post) then
      s ← monitor s "restore-projection" s!"node={node} restored state is not ≈ to the signed projection of the pre-crash state"
    return s

/-! ### flush: finish the dumps read since the last operation -/

def liveChecks (s : St) (node : String) : IO St := do
  let mut s := s
  let d := s.dump node
  let m := (s.model node).mem
  if s.modelOk && !s.borked then
    if let some diff := nodeDiff m d then
      s ← mismatch s s!"node={node} {diff.take 600}"
  for c in d.commits do
    let key := (node, c.chain, c.cm.height)
    match s.hist.find? (·.1 == key) with
    | some (_, old) =>
      if old != c.cm then
        s ← monitor s "commit-stable" s!"node={node} commitment at height {c.cm.height} changed after it was created"
    | none =>
      s ← checkCommit s node c
      if c.cm.height > 0 then
        if let some (_, prev) := s.hist.find? (·.1 == (node, c.chain, c.cm.height - 1)) then
          s ← checkMoves s node (s.cfgOf node).initiator c.chain prev c.cm
      s := { s with hist := (key, c.cm) :: s.hist }
  return s

def intOf (s : String) : Int := s.toInt?.getD (-99)

/-- the real database content as a model `Disk`. -/
def diskOfK (k : KDump) : Disk :=
  { lc := k.lc, rc := k.rc, pend := k.pc.map (fun c => (c, k.diff)), ua := some k.uaL, rul := some k.rulL, lwr := k.lwr }

def probeChecks (s : St) (node : String) : IO St := do
  let mut s := { s with probes := s.probes + 1 }
  let k := s.kdump node
  let pre := s.dump node
  let post := s.pD
  -- the commitment a restart would broadcast must be newer than every secret that left the node
  let released := if node == "A" then s.revsA else s.revsB
  if let some p := released.find? (fun p => p.s ≥ (k.lh : Int)) then
    s ← monitor s "release-before-durable" s!"node={node} durable local commitment height is {k.lh} but the secret of height {p.s} has been released ({p.src})"
  if s.probeRes != "ok" then
    s ← monitor s "reload-error" s!"node={node} NewLightningChannel on the re-fetched channel => {s.probeRes}"
    return s
  -- (X) model restore vs the real restart; model disk vs the real database
  if s.modelOk && !s.borked then
    let ms := s.model node
    if let some d := diskDiff ms.disk k then
      s ← mismatch s s!"node={node} {d.take 600}"
    else
      match restore ms.mem.cfg ms.disk with
      | .error e => s ← mismatch s s!"node={node} model restore fails ({e.toString}), implementation restarts fine"
      | .ok n =>
        if let some d := nodeDiff n post then
          s ← mismatch s s!"node={node} restored state: {d.take 600}"
  -- hypotheses of restore_total_partial / continue_after_restore_partial on the REAL states
  if !s.borked then
    s := { s with hypChecks := s.hypChecks + 2 }
    if !diskWF (diskOfK k) then
      s ← mismatch s s!"node={node} hypothesis diskWF of restore_total_partial does not hold on the real database content"
      s := { s with modelOk := true }
    if !invCheck (nodeOfDump (s.cfgOf node) post) then
      s ← mismatch s s!"node={node} hypothesis invCheck of continue_after_restore_partial does not hold on the real restored state"
      s := { s with modelOk := true }
  -- (S) signed projection
  s ← projectionMonitor s node pre post
  if k.pc.isSome then s := { s with pendAtProbe := s.pendAtProbe + 1 }
  if !k.uaL.isEmpty then s := { s with uaAtProbe := s.uaAtProbe + 1 }
  if !k.rulL.isEmpty then s := { s with rulAtProbe := s.rulAtProbe + 1 }
  if k.pc.isSome || !k.uaL.isEmpty || !k.rulL.isEmpty || k.lh > 0 then s := { s with probesNontrivial := s.probesNontrivial + 1 }
  -- durable commitments = live durable part
  let liveLt := ((pre.chainOf .loc).head?.map (·.cm.height)).getD k.lh
  let liveRt := ((pre.chainOf .rem).head?.map (·.cm.height)).getD k.rh
  if k.lh != liveLt || k.rh != liveRt then
    s ← monitor s "restore-chains" s!"node={node} durable heights local={k.lh} remote={k.rh}, live tails {liveLt},{liveRt}"
  -- revocation bookkeeping of the peer's chain
  if k.rcur != (k.rh : Int) || k.rnext != (k.rh : Int) + 1 || k.store != (k.rh : Int) ||
     (k.rh > 0 && k.prev != 1) || k.curlog != 0 || !k.storeAll then
    s ← monitor s "revocation-state" s!"node={node} remote height {k.rh}: current point idx={k.rcur} next point idx={k.rnext} store={k.store} revlog(prev)={k.prev} revlog(cur)={k.curlog} store reproduces all earlier secrets={k.storeAll}"
  -- forwarding packages: one per revoked remote height, never changed, no HTLC twice
  let seen := if node == "A" then s.fwdA else s.fwdB
  if k.fwdErr || k.fwd.map (·.height) != (List.range k.rh).map (· + 1) then
    s ← monitor s "fwd-pkgs" s!"node={node} package heights {k.fwd.map (·.height)} for remote height {k.rh}"
  else if !(listEqBy (· == ·) (k.fwd.take seen.length) seen) then
    s ← monitor s "fwd-pkgs" s!"node={node} an existing forwarding package changed: {repr seen} -> {repr k.fwd}"
  else
    let allAdds := k.fwd.flatMap (·.adds)
    if allAdds.eraseDups.length != allAdds.length then
      s ← monitor s "fwd-pkgs" s!"node={node} an HTLC was put into two forwarding packages: {repr k.fwd}"
    -- every incoming HTLC locked in on both durable commitments has been handed to the switch
    match (pre.chainOf .loc).head?, (pre.chainOf .rem).head? with
    | some lt, some rt =>
      let both := (lt.cm.htlcs.filter (·.incoming)).filter fun h => rt.cm.htlcs.any (fun g => g.incoming && g.idx == h.idx)
      if let some h := both.find? (fun h => !allAdds.contains h.idx) then
        s ← monitor s "fwd-pkgs" s!"node={node} incoming HTLC {h.idx} is locked in on both commitments but in no forwarding package"
    | _, _ => pure ()
  s := if node == "A" then { s with fwdA := k.fwd } else { s with fwdB := k.fwd }
  -- every package in full against its history: a package seen for the first time must be exactly
  -- what NewFwdPkg builds (locked in, three empty filters of the right counts); afterwards state and
  -- filters must be what the acknowledgements / the forwarding decision written since imply
  let mut fh := if node == "A" then s.fhA else s.fhB
  for p in k.fwdD do
    let early := if node == "A" then s.earlyA else s.earlyB
    let h : Fwd.Hist := match fh.find? (·.height == p.height) with
      | some h => h
      | none => { height := p.height, adds := p.adds, sfs := p.sfs,
                  acked := (early.filter (fun e => !e.1 && e.2.1 == p.height)).map (·.2.2),
                  sfAcked := (early.filter (fun e => e.1 && e.2.1 == p.height)).map (·.2.2) }
    if !fh.any (·.height == p.height) then fh := fh ++ [h]
    s := { s with pkgDetailChecks := s.pkgDetailChecks + 1 }
    if !h.acked.isEmpty || !h.sfAcked.isEmpty || h.fwd.isSome then s := { s with pkgPartial := s.pkgPartial + 1 }
    for (cl, det) in Fwd.Driver.pkgViolations s!"node={node} package {p.height}" p h do
      s ← monitor s cl det
  s := if node == "A" then { s with fhA := fh } else { s with fhB := fh }
  -- signatures
  let x := if node == "A" then s.xA else s.xB
  if !s.borked then
    if let some ls := kv? x "lsig" then
      if ls != k.lsig then
        s ← monitor s "sig-stored" s!"node={node} stored local commitment signature differs from the one held in memory"
    if let some lh := kv? x "lhs" then
      if lh != "-" && lh != k.lhs then
        s ← monitor s "sig-stored" s!"node={node} stored HTLC signatures of the local commitment differ from the ones received"
    let sent := if node == "A" then s.sentA else s.sentB
    if k.pc.isSome && sent != "-" && k.dsig != sent then
      s ← monitor s "sig-stored" s!"node={node} stored commit_sig of the pending commitment differs from the one handed out"
  -- stale-handle write must not change anything durable
  let prevK := if node == "A" then s.kPrevA else s.kPrevB
  if let some old := prevK then
    s := { s with staleWrites := s.staleWrites + 1 }
    if old != k.raw then
      let d := (old.zip k.raw).find? (fun (a, b) => a != b)
      s ← monitor s s.kPrevClause s!"node={node} durable state changed by a status write / failed operation / rejected message: {(d.map (fun (a, b) => s!"{a.take 200}  ->  {b.take 200}")).getD "line count"}"
    s := if node == "A" then { s with kPrevA := none } else { s with kPrevB := none }
  return s

def flush (s : St) : IO St := do
  let mut s := s
  -- a probe dump
  if let some node := s.probing then
    s := { s with probing := none }
    s ← probeChecks s node
    return s
  if s.dirty.isEmpty then return s
  if !s.inited then
    if s.dA.seen && s.dB.seen then
      s := { s with inited := true, sA := C02.St.init (nodeOfDump s.cfgA s.dA),
                    sB := C02.St.init (nodeOfDump s.cfgA.mirror s.dB) }
    else return s
  for node in s.dirty.eraseDups do
    -- a real reload: projection of the pre-reload dump vs the new live dump
    if let some (_, pre) := s.reloaded.find? (·.1 == node) then
      s ← projectionMonitor s node pre (s.dump node) true
      s := { s with reloaded := s.reloaded.filter (·.1 != node) }
    s ← liveChecks s node
  s ← systemMonitors s
  return { s with dirty := [] }

/-! ### operations -/

def constraintErr (r : String) : Bool :=
  ["ok", "belowReserve", "invalidAmt", "belowMin", "maxPending", "maxHtlcs", "feeFloor", "noWindow",
   "feeUnaffordable", "notInitiator", "feeAsInitiator"].contains r

def internalErr (r : String) : Bool :=
  r == "overCapacity" || r == "lowEffFee" || r == "panic" || r == "txSanity" || r.startsWith "other"

def pushMsg (s : St) (node : String) (m : Msg) : St :=
  if node == "A" then { s with qab := s.qab ++ [m] } else { s with qba := s.qba ++ [m] }

def readQ (s : St) (ws : List String) : St :=
  match (kv? ws "q").map pairNat with
  | some (a, b) => { s with qlenAB := a, qlenBA := b }
  | none => s

def opLine (s : St) (node : String) (ws : List String) : IO St := do
  let mut s ← flush s
  s := readQ { s with ops := s.ops + 1, dirty := [node] } ws
  let impl := resOf ws
  s := { s with errKinds := bump s.errKinds impl }
  let op := ws[1]?.getD ""
  let ms := s.model node
  let n := ms.mem
  if internalErr impl then
    s ← monitor s "internal-error" s!"node={node} {op} => {impl}"
  if op == "sign" && impl == "parent" then
    s ← monitor s "internal-error" s!"node={node} sign => {impl} (resolution of an HTLC that is locked in)"
  if impl == "ok" then
    let idx := (kvNat? ws "idx").getD 0
    let peer := if node == "A" then "B" else "A"
    if op == "settle" then s := { s with resolved := ((peer, idx), .settled) :: s.resolved }
    if op == "fail" || op == "malformed" then s := { s with resolved := ((peer, idx), .failed) :: s.resolved }
    if op == "sign" then s := { s with signs := s.signs + 1 }
  if !s.modelOk then return s
  let chk (s : St) (e : Err) (ms' : C02.St) (msg : Option Msg) : IO St := do
    if e.toString != impl then
      mismatch s s!"node={node} {op}: model={e.toString} impl={impl}"
    else
      let s := setModel s node ms'
      match msg with
      | some m => if e == .ok then pure (pushMsg s node m) else pure s
      | none => pure s
  let memOp (o : Op) : Err × C02.St := let r := n.step o; (r.1, { ms with mem := r.2 })
  match op with
  | "add" =>
    let a := (kvNat? ws "amt").getD 0
    let x := (kvNat? ws "exp").getD 0
    let h := (kvNat? ws "hash").getD 0
    let (e, ms') := memOp (.addHTLC a x h)
    let s2 ← chk s e ms' (some (.add n.logL.htlcCounter a x h))
    if e == .ok && impl == "ok" && (kvNat? (afterArrow ws) "idx") != some n.logL.htlcCounter then
      mismatch s2 s!"add: htlc index model={n.logL.htlcCounter}"
    else pure s2
  | "rawrecv" =>
    let (e, ms') := memOp (.receiveHTLC ((kvNat? ws "id").getD 0) ((kvNat? ws "amt").getD 0) ((kvNat? ws "exp").getD 0) ((kvNat? ws "hash").getD 0))
    chk s e ms' none
  | "settle" =>
    let i := (kvNat? ws "idx").getD 0
    let (e, ms') := memOp (.settle i true)
    chk s e ms' (some (.settle i))
  | "settlebad" =>
    let i := (kvNat? ws "idx").getD 0
    let (e, ms') := memOp (.settle i false)
    chk s e ms' (some (.settle i))
  | "fail" =>
    let i := (kvNat? ws "idx").getD 0
    let (e, ms') := memOp (.fail i)
    chk s e ms' (some (.fail i))
  | "malformed" =>
    let i := (kvNat? ws "idx").getD 0
    let (e, ms') := memOp (.malformedFail i)
    chk s e ms' (some (.fail i))
  | "fee" =>
    let f := (kvNat? ws "fpk").getD 0
    let (e, ms') := memOp (.updateFee f)
    chk s e ms' (some (.fee f))
  | "sign" =>
    let (e, ms', sv) := ms.sign
    chk s e ms' (sv.map Msg.commitSig)
  | "revoke" =>
    let (e, ms') := ms.revokeWrite
    chk s e ms'.emit (some .revoke)
  | _ => mismatch s s!"unknown op {op}"

def msgKind : Msg → String
  | .add .. => "add" | .settle _ => "settle" | .fail _ => "fail" | .fee _ => "fee"
  | .commitSig _ => "commitsig" | .revoke => "revoke"

def deliverLine (s : St) (ws : List String) : IO St := do
  let mut s ← flush s
  let dir := ws[1]?.getD ""
  let kind := ws[2]?.getD ""
  -- every way of saying "the commitment I built is not the one you signed"
  let impl := if (resOf ws).startsWith "other:invalid_partial_sig" || resOf ws == "other:not_enough_HTLC_signatures"
              then "invalidSig" else resOf ws
  let recv := if dir == "AB" then "B" else "A"
  s := readQ { s with ops := s.ops + 1, dirty := [recv] } ws
  s := { s with errKinds := bump s.errKinds ("recv_" ++ impl) }
  if kind == "commitsig" then
    if impl == "invalidSig" then
      s ← monitor s "sig-verifies" s!"{dir}: commitment signature of an honest peer rejected"
    else if impl == "ok" then s := { s with sigsVerified := s.sigsVerified + 1 }
  if internalErr impl then
    s ← monitor s "internal-error" s!"{dir} {kind} => {impl}"
  else if impl != "invalidSig" && !constraintErr impl then
    s ← monitor s "delivery-rejected" s!"{dir} {kind} => {impl}"
  if impl != "ok" then s := { s with dead := true }
  if !s.modelOk then return s
  let q := if dir == "AB" then s.qab else s.qba
  match q with
  | [] => mismatch s s!"deliver {dir}: model queue empty, impl delivered {kind}"
  | m :: rest =>
    if msgKind m != kind then
      mismatch s s!"deliver {dir}: model queue head {msgKind m}, impl delivered {kind}"
    else
      let ms := s.model recv
      let (e, ms') : Err × C02.St := match m with
        | .revoke => ms.receiveRevocation
        | m => let r := ms.mem.deliver m; (r.1, { ms with mem := r.2 })
      let s2 := if dir == "AB" then { s with qab := rest } else { s with qba := rest }
      if e.toString != impl then
        mismatch s2 s!"deliver {dir} {kind}: model={e.toString} impl={impl}"
      else if impl != "ok" then
        -- the link fails the channel here; a rejected call may leave commit heights behind
        pure { s2 with modelOk := false }
      else pure (setModel s2 recv ms')

/-- `R X mode=… => res` -/
def reloadLine (s : St) (ws : List String) : IO St := do
  let mut s ← flush s
  let node := ws[1]?.getD ""
  let impl := resOf ws
  let mode := (kv? ws "mode").getD ""
  s := readQ { s with ops := s.ops + 1, reloads := s.reloads + 1, dirty := [node] } ws
  s := { s with errKinds := bump s.errKinds ("reload_" ++ mode ++ "_" ++ impl) }
  if impl != "ok" then
    s ← monitor s "reload-error" s!"node={node} restart ({mode}) => {impl}"
    return { s with dead := true, dirty := [] }
  s := { s with reloaded := (node, s.dump node) :: s.reloaded.filter (·.1 != node) }
  if mode == "m2" then s := { s with qab := [], qba := [] }
  if !s.modelOk then return s
  match (s.model node).crash with
  | .error e => mismatch s s!"node={node} model restore fails ({e.toString}), implementation restarts fine"
  | .ok ms' => pure (setModel s node ms')

/-- `Y X next= tail= => res msgs=…` -/
def syncLine (s : St) (ws : List String) : IO St := do
  let mut s ← flush s
  let node := ws[1]?.getD ""
  let impl := resOf ws
  s := readQ { s with ops := s.ops + 1, syncs := s.syncs + 1, dirty := [node] } ws
  s := { s with errKinds := bump s.errKinds ("sync_" ++ impl) }
  let kinds := match (kv? (afterArrow ws) "msgs").getD "-" with
    | "-" => []
    | k => k.splitOn ","
  -- ProcessChanSyncMsg re-signs when the node owes a commitment.  If that SignNextCommitment is
  -- refused for a channel-constraint reason (reserve, fee floor, limits) the very same call is
  -- refused without any restart as well: not a consequence of the reload, the schedule just ends.
  let signRefused := impl.startsWith "err:" && constraintErr (impl.drop 4).toString && impl != "err:ok" && impl != "err:noWindow"
  let (e, ms', msgs) := (s.model node).processSync ((kvNat? ws "next").getD 0) ((kvNat? ws "tail").getD 0)
  if impl != "ok" then
    if signRefused && (!s.modelOk || e.toString == impl) then
      s := { s with syncSignRefused := s.syncSignRefused + 1 }
    else
      s ← monitor s "sync-error" s!"node={node} ProcessChanSyncMsg after a restart of both peers => {impl}"
    s := { s with dead := true }
  if !s.modelOk then return s
  if e.toString != impl then
    mismatch s s!"node={node} chan sync: model={e.toString} impl={impl}"
  else if msgs.map msgKind != kinds then
    mismatch s s!"node={node} chan sync retransmission: model={msgs.map msgKind} impl={kinds}"
  else
    let s2 := setModel s node ms'
    pure (msgs.foldl (fun acc m => pushMsg acc node m) s2)

/-- `V X src= s= np= dur=`: one revoke_and_ack left node X. -/
def revLine (s : St) (ws : List String) : IO St := do
  let mut s := { s with revsChecked := s.revsChecked + 1 }
  let node := ws[1]?.getD ""
  let src := (kv? ws "src").getD ""
  let sec := intOf ((kv? ws "s").getD "")
  let np := intOf ((kv? ws "np").getD "")
  let dur := intOf ((kv? ws "dur").getD "")
  let seen := if node == "A" then s.revsA else s.revsB
  -- release rule
  if sec < 0 then
    s ← monitor s "secret-chain" s!"node={node} released revocation is not a secret of the node's own chain (src={src})"
  else if !(sec < dur) then
    s ← monitor s "release-before-durable" s!"node={node} secret of height {sec} released (src={src}) while the durable local commitment height is {dur}"
  else
    if sec + 1 != dur then
      s ← monitor s "secret-chain" s!"node={node} released secret {sec} (src={src}) is not the one of the last revoked height {dur - 1}"
    if np != sec + 2 then
      s ← monitor s "secret-chain" s!"node={node} revoke_and_ack for height {sec} carries the commitment point of height {np}, expected {sec + 2}"
    if src == "revoke" then
      if let some p := seen.find? (fun p => p.s ≥ sec) then
        s ← monitor s "secret-chain" s!"node={node} RevokeCurrentCommitment released secret {sec} after secret {p.s} ({p.src})"
    else if let some p := seen.find? (fun p => p.s > sec) then
      s ← monitor s "secret-chain" s!"node={node} chan-sync retransmitted secret {sec} although {p.s} was already released"
  s := if node == "A" then { s with revsA := ⟨src, sec⟩ :: seen } else { s with revsB := ⟨src, sec⟩ :: seen }
  -- (X) the model's history variable
  if s.modelOk && !s.borked then
    let tr := (s.model node).trace.filter (fun m => m.src != .lost)
    let i := if node == "A" then s.vA else s.vB
    s := if node == "A" then { s with vA := i + 1 } else { s with vB := i + 1 }
    match tr[i]? with
    | none => s ← mismatch s s!"node={node} released a revocation (secret {sec}) the model did not produce"
    | some m =>
      let msrc := if m.src == .sync then "sync" else "revoke"
      if (m.secret : Int) != sec || (m.nextPoint : Int) != np || msrc != src then
        s ← mismatch s s!"node={node} revocation model=({msrc},{m.secret},{m.nextPoint}) impl=({src},{sec},{np})"
  return s

def b01 (ws : List String) (k : String) : Bool := (kvNat? ws k).getD 0 == 1

def dropStatus (line : String) : String :=
  String.intercalate " " ((words line).filter (fun w => !(w.startsWith "st=")))

def updK (s : St) (node : String) (f : KDump → KDump) : St :=
  if node == "A" then { s with kA := f s.kA } else { s with kB := f s.kB }

/-- evaluate the crash images of the call that just ended.  `addAcks` / `sfAcks`: the
    acknowledgements the commit diff of THIS call carries (a sign call), else empty. -/
def evalMids (s : St) (addAcks sfAcks : List (Nat × Nat)) : IO St := do
  if s.mids.isEmpty then return s
  let node := s.midNode
  let imgs := s.mids
  let mut s := { s with mids := [] }
  let fh := if node == "A" then s.fhA else s.fhB
  let post := imgs.getLast?
  let pre := s.kdump node
  let preFresh := if node == "A" then s.kFreshA else s.kFreshB
  for im in imgs do
    s := { s with midChecked := s.midChecked + 1 }
    if im.res != "ok" then
      s ← monitor s "reload-error" s!"node={node} crash after write transaction {im.tx} of {s.midN} of one call: NewLightningChannel on the reloaded channel => {im.res}"
    -- acknowledgements need a durable carrier
    for p in im.fwdD do
      let h := fh.find? (·.height == p.height)
      let early := if node == "A" then s.earlyA else s.earlyB
      let known (sel : Bool) (i : Nat) : Bool :=
        (match h with | some h => (if sel then h.sfAcked else h.acked).contains i | none => false) ||
        early.contains (sel, p.height, i) ||
        (im.hasPend && (if sel then sfAcks else addAcks).contains (p.height, i))
      for (sel, d, nm) in [(false, p.ack, "add"), (true, p.sf, "settle/fail")] do
        let bad := (List.range d.bits.length).filter (fun i => d.bits.getD i false && !known sel i)
        if !bad.isEmpty then
          s ← monitor s "fwdpkg-ack-without-commitdiff" s!"node={node} crash after write transaction {im.tx} of {s.midN} of one call: forwarding package {p.height} has {nm} indices {bad} marked acknowledged, but no earlier durable write acknowledged them and the reloaded channel has {if im.hasPend then "a pending commit diff that does not carry them" else "NO pending commit diff"}"
    -- an intermediate image must be the state before or the state after the call
    if im.tx < s.midN then
      let eqPost := match post with | some q => q.raw == im.raw | none => false
      if !eqPost && preFresh && pre.seen && pre.raw != im.raw then
        let d := (im.raw.zip pre.raw).find? (fun (a, b) => a != b)
        s ← monitor s "crash-image-torn" s!"node={node} the durable state after write transaction {im.tx} of {s.midN} of one call is neither the state before the call nor the state after it; first difference to the state before: {(d.map (fun q => (q.1.take 160).toString)).getD "(number of lines)"}"
  s := if node == "A" then { s with kFreshA := false } else { s with kFreshB := false }
  return s

def midLine (s : St) (ws : List String) (text : String) : IO St := do
  match ws with
  | "P" :: node :: rest =>
    let im : MidImg := { tx := (kvNat? rest "tx").getD 0, res := resOf ws }
    return { s with mids := s.mids ++ [im], midNode := node }
  | _ =>
    let upd (f : MidImg → MidImg) : St :=
      match s.mids.reverse with
      | last :: r => { s with mids := (f last :: r).reverse }
      | [] => s
    match ws with
    | "K" :: _ => return upd fun im => { im with raw := im.raw ++ [dropStatus text] }
    | "KC" :: _ :: which :: _ =>
      return upd fun im => { im with raw := im.raw ++ [text], hasPend := im.hasPend || which == "P" }
    | "KU" :: _ => return upd fun im => { im with raw := im.raw ++ [text] }
    | "KF" :: _ :: toks => return upd fun im => { im with raw := im.raw ++ [text], fwdD := toks.filterMap parseFwdD }
    | _ => mismatch s s!"unparsed crash-image line: {text.take 60}"

/-- `WT node op= res= n=`: write transactions the code committed during one call vs the model's. -/
def wtLine (s : St) (node : String) (rest : List String) : IO St := do
  let op := (kv? rest "op").getD "?"
  let res := (kv? rest "res").getD "?"
  let n := (kvNat? rest "n").getD 0
  let e : Err := if res == "ok" then .ok else .noPending
  let want : Nat :=
    if op.startsWith "link_" then (if res == "ok" then 1 else 0)
    else match op with
      | "sign" => opWriteTxs .sign e
      | "revoke" => opWriteTxs .revoke e
      | "recv_revoke" => opWriteTxs .receiveRevocation e
      | _ => opWriteTxs (.updateFee 0) e
  let mut s := { s with wtChecked := s.wtChecked + 1, wtWriting := s.wtWriting + (if n > 0 then 1 else 0), midN := n, midNode := node }
  -- the last K dump stops being the current durable state (for n ≥ 2 only after the images of
  -- this call have been compared with it)
  if n == 1 then
    s := if node == "A" then { s with kFreshA := false } else { s with kFreshB := false }
  if n != want && !s.borked then
    s ← mismatch s s!"write-tx-count node={node} {op} => {res}: the model performs {want} atomic durable write(s), the code committed {n} write transactions"
    s := { s with modelOk := true }
  return s

def step (s : St) (line : String) : IO St := do
  let s := { s with lines := s.lines + 1 }
  let ws := words line
  -- the crash images of a call are complete when anything but an image / LS line follows
  let s ← (if !s.mids.isEmpty && ws.head? != some "M" && ws.head? != some "LS" then evalMids s [] [] else pure s)
  match ws with
  | "M" :: rest => midLine s rest ((line.drop 2).toString)
  | "WT" :: node :: rest => wtLine s node rest
  | "LS" :: node :: rest =>
    -- acknowledgements carried by the commit diff of the sign call that just ended
    let adds := Fwd.Driver.parseRefs ((kv? rest "addacks").getD "-")
    let sfs := (Fwd.Driver.parseRefs ((kv? rest "sfacks").getD "-"))
    let s ← evalMids s adds sfs
    if (kv? rest "res") == some "ok" then
      let fh := if node == "A" then s.fhA else s.fhB
      let fh' := Fwd.histStep (Fwd.histStep fh (.ack false adds)) (.ack true sfs)
      -- packages the driver has not seen dumped yet (sparse probing): remembered until first seen
      let unk := (adds.filter (fun r => !fh.any (·.height == r.1))).map (fun r => (false, r.1, r.2)) ++
                 (sfs.filter (fun r => !fh.any (·.height == r.1))).map (fun r => (true, r.1, r.2))
      return if node == "A" then { s with fhA := fh', earlyA := s.earlyA ++ unk } else { s with fhB := fh', earlyB := s.earlyB ++ unk }
    return s
  | "FACT" :: rest =>
    let chk (s : St) (key : String) (v : Nat) : IO St :=
      if kvNat? rest key == some v then pure s
      else mismatch s s!"fact {key}: model={v} impl={(kv? rest key).getD "?"}"
    let s ← chk s "commitWeight" commitWeightLegacy
    let s ← chk s "anchorCommitWeight" commitWeightAnchor
    let s ← chk s "taprootCommitWeight" commitWeightTaproot
    let s ← chk s "htlcWeight" htlcWeight
    let s ← chk s "htlcTimeoutWeight" htlcTimeoutWeight
    let s ← chk s "htlcSuccessWeight" htlcSuccessWeight
    let s ← chk s "htlcTimeoutWeightConf" htlcTimeoutWeightConf
    let s ← chk s "htlcSuccessWeightConf" htlcSuccessWeightConf
    let s ← chk s "anchorSize" anchorSize
    chk s "feeFloor" feePerKwFloor
  | "CASE" :: id :: rest =>
    let openerA := b01 rest "openerA"
    let g (k : String) : Nat := (kvNat? rest k).getD 0
    let cfgA : Cfg :=
      { capacity := g "cap", initiator := openerA, anchors := b01 rest "anchors", zeroFee := b01 rest "zerofee",
        taproot := b01 rest "taproot", dustL := g "dustA", dustR := g "dustB", resL := g "resA", resR := g "resB",
        minL := g "minA", minR := g "minB", maxPendL := g "mpA", maxPendR := g "mpB",
        maxAccL := g "maA", maxAccR := g "maB" }
    let s := { s with caseId := id, cases := s.cases + 1, inited := false, modelOk := true, caseMismatch := 0,
                      caseMonitor := 0, cap := cfgA.capacity, anchors := cfgA.anchors, cfgA := cfgA,
                      qab := [], qba := [], dA := {}, dB := {}, pD := {}, probing := none, kA := {}, kB := {},
                      kPrevA := none, kPrevB := none, reloaded := [], xA := [], xB := [], sentA := "-", sentB := "-",
                      revsA := [], revsB := [], fwdA := [], fwdB := [], fhA := [], fhB := [], mids := [], earlyA := [], earlyB := [], kFreshA := false, kFreshB := false, borked := false, taint := none, vA := 0, vB := 0,
                      dirty := [], qlenAB := 0, qlenBA := 0, dead := false, resolved := [], hist := [] }
    if s.samples < 4 then
      IO.println s!"SAMPLE {line}"
      return { s with samples := s.samples + 1 }
    return s
  | ["END"] => flush s
  | "N" :: node :: rest =>
    let pend := ((kv? rest "pend").getD "").splitOn "," |>.map natD
    let d : NDump :=
      { ll := (kvNat? rest "ll").getD 0, lc := (kvNat? rest "lc").getD 0, rl := (kvNat? rest "rl").getD 0,
        rc := (kvNat? rest "rc").getD 0, owe := b01 rest "owe", need := b01 rest "need", pend := pend,
        lmod := parseSet ((kv? rest "lmod").getD "-"), rmod := parseSet ((kv? rest "rmod").getD "-"),
        seen := true }
    if s.probing == some node then return { s with pD := d }
    let s := if node == "A" then { s with dA := d } else { s with dB := d }
    return { s with dirty := if s.dirty.contains node then s.dirty else s.dirty ++ [node] }
  | "G" :: node :: side :: toks =>
    let es := toks.filterMap parseEntry
    let upd (d : NDump) : NDump := if side == "L" then { d with logL := es } else { d with logR := es }
    if s.probing == some node then return { s with pD := upd s.pD }
    return if node == "A" then { s with dA := upd s.dA } else { s with dB := upd s.dB }
  | "C" :: node :: _ =>
    match parseCommit ws with
    | some c =>
      let upd (d : NDump) : NDump := { d with commits := d.commits ++ [c] }
      if s.probing == some node then return { s with pD := upd s.pD }
      return if node == "A" then { s with dA := upd s.dA } else { s with dB := upd s.dB }
    | none => mismatch s s!"unparsed commitment line"
  | "X" :: node :: rest =>
    let s ← flush s
    let s := if node == "A" then { s with xA := rest } else { s with xB := rest }
    if s.modelOk && !s.borked && s.inited then
      let mc := (s.model node).cur
      if kvNat? rest "cur" != some mc then
        return (← mismatch s s!"node={node} currentHeight model={mc} impl={(kv? rest "cur").getD "?"}")
    return s
  | "P" :: node :: _ =>
    let s ← flush s
    return { s with probing := some node, pD := {}, probeRes := resOf ws }
  | "K" :: node :: rest =>
    let k : KDump :=
      { seen := true, lh := (kvNat? rest "lh").getD 0, rh := (kvNat? rest "rh").getD 0, ph := (kv? rest "ph").getD "-",
        lwr := b01 rest "lwr", ua := (kv? rest "ua").getD "?", rul := (kv? rest "rul").getD "?",
        rcur := intOf ((kv? rest "rcur").getD ""), rnext := intOf ((kv? rest "rnext").getD ""),
        store := intOf ((kv? rest "store").getD ""), prev := (kvNat? rest "prev").getD 0,
        curlog := (kvNat? rest "curlog").getD 0, storeAll := (kvNat? rest "storeall").getD 1 == 1, lsig := (kv? rest "lsig").getD "", lhs := (kv? rest "lhs").getD "",
        dsig := (kv? rest "dsig").getD "-", raw := [dropStatus line] }
    let s := if node == "A" then { s with kFreshA := true } else { s with kFreshB := true }
    return updK s node (fun _ => k)
  | "KC" :: node :: which :: rest =>
    let dc := parseDiskCommit rest
    return updK s node fun k =>
      let k := { k with raw := k.raw ++ [line] }
      match which with
      | "L" => { k with lc := dc }
      | "R" => { k with rc := dc }
      | _ => { k with pc := some dc }
  | "KU" :: node :: which :: toks =>
    let us := toks.filterMap parseUpd
    return updK s node fun k =>
      let k := { k with raw := k.raw ++ [line] }
      match which with
      | "D" => { k with diff := us }
      | "U" => { k with uaL := us }
      | _ => { k with rulL := us }
  | "KF" :: node :: toks =>
    return updK s node fun k =>
      { k with raw := k.raw ++ [line], fwd := toks.filterMap parseFwd, fwdD := toks.filterMap parseFwdD,
               fwdErr := toks.contains "err" }
  | "S" :: node :: rest =>
    let h := (kv? rest "sent").getD "-"
    return if node == "A" then { s with sentA := h } else { s with sentB := h }
  | "V" :: _ =>
    let s ← flush s
    revLine s ws
  | "W" :: dir :: rest =>
    -- a dishonest revoke_and_ack handed to ReceiveRevocation
    let s ← flush s
    let recv := if dir == "AB" then "B" else "A"
    let impl := resOf ws
    let h := (kvNat? rest "h").getD 0
    let si := intOf ((kv? rest "s").getD "")
    let npi := intOf ((kv? rest "npi").getD "")
    let mut s := { s with ops := s.ops + 1, bogus := s.bogus + 1, bogusEven := s.bogusEven + (if h % 2 == 0 then 1 else 0),
                          dirty := [recv], kPrevClause := "bogus-revocation-persisted" }
    s := { s with errKinds := bump s.errKinds ("bogus_" ++ impl) }
    let k := s.kdump recv
    s := if recv == "A" then { s with kPrevA := some k.raw } else { s with kPrevB := some k.raw }
    if si != (h : Int) && impl == "ok" then
      s ← monitor s "bogus-revocation-accepted" s!"node={recv} ReceiveRevocation accepted a revoke_and_ack for remote height {h} whose secret is not the peer's secret of that height ({(kv? rest "kind").getD "?"}, secret index {si}, next point index {npi})"
    if s.modelOk && !s.borked then
      let ms := s.model recv
      if ms.disk.rc.cm.height != h then
        s ← mismatch s s!"node={recv} bogus revocation: remote height model={ms.disk.rc.cm.height} impl={h}"
      else
        let storeAcc := si == (h : Int) || h % 2 == 0
        let (r, ms') := ms.receiveRevocationMsg storeAcc ⟨secOf si 0, secOf npi 1⟩
        if r.toString != impl then
          s ← mismatch s s!"node={recv} bogus revocation ({(kv? rest "kind").getD "?"} h={h}): model={r.toString} impl={impl}"
        else s := setModel s recv ms'
    return s
  | "L" :: node :: rest =>
    -- what the node's link does to its forwarding packages (one database transaction)
    let s ← flush s
    let impl := resOf ws
    let fh := if node == "A" then s.fhA else s.fhB
    let op := (kv? rest "op").getD "?"
    let mut s := { s with ops := s.ops + 1, linkOps := s.linkOps + 1, errKinds := bump s.errKinds ("link_" ++ op ++ "_" ++ impl) }
    s := if node == "A" then { s with kFreshA := false } else { s with kFreshB := false }
    let known (h : Nat) : Bool := fh.any (·.height == h)
    let fop : Option Fwd.FOp := match op with
      | "setfwd" =>
        let passed := Fwd.Driver.parseFDump ((kv? (afterArrow ws) "passed").getD "")
        (Fwd.Filter.decode passed.enc).map fun f => Fwd.FOp.setFwd ((kvNat? rest "h").getD 0) f
      | "ackadd" => some (.ack false (Fwd.Driver.parseRefs ((kv? rest "refs").getD "-")))
      | "acksf" => some (.ack true (Fwd.Driver.parseRefs ((kv? rest "refs").getD "-")))
      | _ => none
    match fop with
    | none =>
      if op == "setfwd" then
        s ← monitor s "fwdpkg-reload" s!"node={node} package {(kvNat? rest "h").getD 0}: recording the forwarding decision on the reloaded package's FwdFilter => {impl} ({(kv? (afterArrow ws) "passed").getD "?"})"
      else s ← mismatch s s!"unparsed link operation"
    | some o =>
      if impl == "ok" then
        -- the filter a restarted link passes is the reloaded FwdFilter with its decision set
        if let .setFwd h f := o then
          if let some p := fh.find? (·.height == h) then
            let want := (Fwd.Driver.parseNats ((kv? rest "idx").getD "-")).foldl Fwd.Filter.set (p.fwd.getD (Fwd.Filter.new p.adds.length))
            if want != f then
              s ← monitor s "fwdpkg-reload" s!"node={node} package {h}: FwdFilter of the reloaded package with its decision set is {Fwd.Driver.showFilter f}, expected {Fwd.Driver.showFilter want}"
        let fh' := Fwd.histStep fh o
        s := if node == "A" then { s with fhA := fh' } else { s with fhB := fh' }
      else if Fwd.opOK fh o && (match o with | .setFwd h _ => known h | _ => true) then
        s ← monitor s "fwdpkg-op-failed" s!"node={node} link operation {op} with valid references => {impl}"
    return s
  | "R" :: _ => reloadLine s ws
  | "Y" :: _ => syncLine s ws
  | "T" :: node :: rest =>
    let s ← flush s
    let k := s.kdump node
    let s := { s with kPrevClause := "stale-write" }
    let s := if node == "A" then { s with kPrevA := some k.raw } else { s with kPrevB := some k.raw }
    let s := if (kv? rest "status") == some "borked" then { s with borked := true } else s
    if resOf ws != "ok" then
      return (← monitor s "stale-write" s!"node={node} status write through the stale handle => {resOf ws}")
    return s
  | "Z" :: node :: op :: _ =>
    let s ← flush s
    let mut s := { s with borkedOps := s.borkedOps + 1, kPrevClause := "stale-write" }
    let k := s.kdump node
    s := if node == "A" then { s with kPrevA := some k.raw } else { s with kPrevB := some k.raw }
    if op == "revoke" || op == "sign" then
      let out := (kvNat? (afterArrow ws) "out").getD 0
      if out != 0 then
        s ← monitor s "borked-write" s!"node={node} {op}: the durable write failed ({resOf ws}) but a message was handed out"
      if resOf ws == "ok" then
        s ← monitor s "borked-write" s!"node={node} {op} succeeded on a channel whose durable write must fail"
    return s
  | "D" :: _ => deliverLine s ws
  | "A" :: _ => opLine s "A" ws
  | "B" :: _ => opLine s "B" ws
  | "HSTAT" :: kvs =>
    for w in kvs do IO.println s!"STAT h_{w}"
    return s
  | [] => return s
  | _ => mismatch s s!"unparsed line: {line.take 60}"

end LndModel.C02.Driver

open LndModel.C02.Driver in
def main (args : List String) : IO Unit := do
  -- stream `fwdpkg` (package channeldb): the forwarding-package store, see FwdDriver.lean
  if args.getLast? == some "fwdpkg" then
    LndModel.C02.Fwd.Driver.main
    return
  -- stream `codec` (package channeldb): the persisted structures at the byte level, see CodecDriver.lean
  if args.getLast? == some "codec" then
    LndModel.C02.Codec.Driver.main
    return
  let s ← LndModel.Lines.foldStdin step {}
  let s ← flush s
  IO.println s!"STAT lines={s.lines}"
  IO.println s!"STAT cases={s.cases}"
  IO.println s!"STAT evaluations={s.ops + s.probes}"
  IO.println s!"STAT nontrivial={s.probesNontrivial + s.reloads + s.revsChecked}"
  IO.println s!"STAT operations={s.ops}"
  IO.println s!"STAT probes={s.probes}"
  IO.println s!"STAT probes_with_signed_state={s.probesNontrivial}"
  IO.println s!"STAT probes_with_pending_commit_diff={s.pendAtProbe}"
  IO.println s!"STAT probes_with_unsigned_acked_updates={s.uaAtProbe}"
  IO.println s!"STAT probes_with_remote_unsigned_local_updates={s.rulAtProbe}"
  IO.println s!"STAT real_reloads={s.reloads}"
  IO.println s!"STAT chan_syncs={s.syncs}"
  IO.println s!"STAT revocations_checked={s.revsChecked}"
  IO.println s!"STAT stale_handle_writes_checked={s.staleWrites}"
  IO.println s!"STAT failed_write_operations={s.borkedOps}"
  IO.println s!"STAT chan_sync_resign_refused_by_channel_constraints={s.syncSignRefused}"
  IO.println s!"STAT calls_with_write_tx_count_checked={s.wtChecked}"
  IO.println s!"STAT calls_that_committed_a_write_tx={s.wtWriting}"
  IO.println s!"STAT crash_images_inside_calls_checked={s.midChecked}"
  IO.println s!"STAT link_operations_on_forwarding_packages={s.linkOps}"
  IO.println s!"STAT forwarding_packages_checked_in_full={s.pkgDetailChecks}"
  IO.println s!"STAT forwarding_packages_checked_with_acks_or_decision={s.pkgPartial}"
  IO.println s!"STAT dishonest_revocations={s.bogus}"
  IO.println s!"STAT dishonest_revocations_at_even_heights={s.bogusEven}"
  IO.println s!"STAT theorem_hypotheses_evaluated_on_real_states={s.hypChecks}"
  IO.println s!"STAT log_entries_kept_by_projection={s.keptEntries}"
  IO.println s!"STAT log_entries_dropped_by_projection={s.droppedEntries}"
  IO.println s!"STAT max_commit_height={s.maxHeight}"
  IO.println s!"STAT commitments_checked={s.commitsChecked}"
  IO.println s!"STAT balance_moves_checked={s.balanceMoves}"
  IO.println s!"STAT signatures_made={s.signs}"
  IO.println s!"STAT signatures_verified={s.sigsVerified}"
  IO.println s!"STAT mirror_signed_checks={s.mirrorSigned}"
  IO.println s!"STAT idle_mirror_checks={s.idleChecks}"
  for (k, v) in s.errKinds do
    IO.println s!"STAT result_{k}={v}"
  IO.println s!"STAT mismatches={s.mismatches}"
  IO.println s!"STAT monitor_failures={s.monitorFails}"
