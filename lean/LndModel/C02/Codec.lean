/-
C02 — byte-level model of the persisted channel structures (`channeldb/channel.go`,
`channeldb/codec.go`): what `putChanCommitment` / `serializeCommitDiff` /
`serializeLogUpdates` / `serializeLogUpdate` write under the chanBucket keys and what
`fetchChanCommitment` / `deserializeCommitDiff` / `deserializeLogUpdates` read back.

Layers (what the code does, byte for byte):
* `be` / `le`            fixed-width integers (`binary.Write(w, byteOrder=BigEndian, …)`, btcd's little endian),
* `cs`                   Bitcoin CompactSize (`wire.WriteVarInt`; canonical-only decode),
* `varBytes`             `wire.WriteVarBytes` / `wire.ReadVarBytes(r, 0, 66000, …)`,
* `bigSize`, `tlv`       lnd's TLV stream (`tlv.Stream.Encode` / `decode` incl. canonical order, p2p record cap),
* `Tx`                   `wire.MsgTx.Serialize` / `Deserialize` (witness marker/flag, superfluous-witness error),
* `Htlc`                 `SerializeHtlcs` / `DeserializeHtlcs` (onion ‖ extra-data blob, blinding point + custom records),
* `Commit`               `serializeChanCommit` (+ the aux TLV stream `commitTlvData` that `putChanCommitment` appends),
* `WMsg`                 `lnwire.WriteMessage` / `ReadMessage` of the five update messages and `commit_sig`,
                         behind `WriteElement(lnwire.Message)`'s uint16 length prefix,
* `LogUpd`, `CommitDiff` `serializeLogUpdate(s)`, `serializeCommitDiff` / `deserializeCommitDiff`.

Integers are `Nat`; every narrowing conversion of the Go code is explicit (`% 2^16` of the HTLC /
update / circuit-key counts and of the message length).  Decoders have the shape
`Bytes → Option (α × Bytes)` (value, unread rest).  Public keys are opaque 33-byte strings (curve
membership is outside the model).  Core Lean only (used by the driver).
-/

namespace LndModel.C02.Codec

abbrev Bytes := List Nat
abbrev Dec (α : Type) := Bytes → Option (α × Bytes)

/-! ## fixed-width integers -/

/-- big-endian, `n` bytes. -/
def be : Nat → Nat → Bytes
  | 0, _ => []
  | n + 1, v => (v / 256 ^ n % 256) :: be n v

def fromBE (bs : Bytes) : Nat := bs.foldl (fun a b => a * 256 + b) 0

/-- little-endian, `n` bytes. -/
def le : Nat → Nat → Bytes
  | 0, _ => []
  | n + 1, v => (v % 256) :: le n (v / 256)

def fromLE : Bytes → Nat
  | [] => 0
  | b :: bs => b + 256 * fromLE bs

/-- `io.ReadFull` of `n` bytes. -/
def rdFixed (n : Nat) : Dec Bytes := fun bs =>
  if bs.length < n then none else some (bs.take n, bs.drop n)

def rdBE (n : Nat) : Dec Nat := fun bs =>
  match rdFixed n bs with
  | some (b, r) => some (fromBE b, r)
  | none => none

def rdLE (n : Nat) : Dec Nat := fun bs =>
  match rdFixed n bs with
  | some (b, r) => some (fromLE b, r)
  | none => none

/-- `binary.Write(bool)` / `binary.Read(bool)`. -/
def encBool (b : Bool) : Bytes := [if b then 1 else 0]
def rdBool : Dec Bool := fun bs =>
  match bs with
  | b :: r => some (b != 0, r)
  | [] => none

/-- int32 in two's complement (`HTLC.OutputIndex`). -/
def encI32 (v : Int) : Bytes := be 4 (v % 4294967296).toNat
def rdI32 : Dec Int := fun bs =>
  match rdBE 4 bs with
  | some (x, r) => some (if x < 2147483648 then (x : Int) else (x : Int) - 4294967296, r)
  | none => none

/-! ## Bitcoin CompactSize and var-bytes -/

def cs (v : Nat) : Bytes :=
  if v < 253 then [v]
  else if v ≤ 65535 then 253 :: le 2 v
  else if v ≤ 4294967295 then 254 :: le 4 v
  else 255 :: le 8 v

/-- `wire.ReadVarInt`: non-canonical encodings are refused. -/
def rdCS : Dec Nat := fun bs =>
  match bs with
  | [] => none
  | d :: r =>
    if d == 255 then
      match rdLE 8 r with
      | some (v, r') => if v < 4294967296 then none else some (v, r')
      | none => none
    else if d == 254 then
      match rdLE 4 r with
      | some (v, r') => if v < 65536 then none else some (v, r')
      | none => none
    else if d == 253 then
      match rdLE 2 r with
      | some (v, r') => if v < 253 then none else some (v, r')
      | none => none
    else some (d, r)

def varBytes (b : Bytes) : Bytes := cs b.length ++ b

/-- `wire.ReadVarBytes(r, 0, maxAllowed, …)`. -/
def rdVarBytes (maxAllowed : Nat) : Dec Bytes := fun bs =>
  match rdCS bs with
  | some (n, r) => if n > maxAllowed then none else rdFixed n r
  | none => none

/-- the bound `ReadElement(*[]byte)` passes. -/
def maxVarBytes : Nat := 66000

/-! ## counted lists -/

def decN {α : Type} (d : Dec α) : Nat → Dec (List α)
  | 0, bs => some ([], bs)
  | n + 1, bs =>
    match d bs with
    | some (a, r) =>
      match decN d n r with
      | some (as, r') => some (a :: as, r')
      | none => none
    | none => none

def encList {α : Type} (e : α → Bytes) (l : List α) : Bytes := l.flatMap e

/-! ## lnd TLV streams -/

def bigSize (v : Nat) : Bytes :=
  if v < 253 then [v]
  else if v ≤ 65535 then 253 :: be 2 v
  else if v ≤ 4294967295 then 254 :: be 4 v
  else 255 :: be 8 v

/-- `tlv.ReadVarInt`. -/
def rdBigSize : Dec Nat := fun bs =>
  match bs with
  | [] => none
  | d :: r =>
    if d < 253 then some (d, r)
    else if d == 253 then
      match rdBE 2 r with
      | some (v, r') => if v < 253 then none else some (v, r')
      | none => none
    else if d == 254 then
      match rdBE 4 r with
      | some (v, r') => if v ≤ 65535 then none else some (v, r')
      | none => none
    else
      match rdBE 8 r with
      | some (v, r') => if v ≤ 4294967295 then none else some (v, r')
      | none => none

/-- one record: type, value. -/
abbrev Rec := Nat × Bytes

def encRec (r : Rec) : Bytes := bigSize r.1 ++ bigSize r.2.length ++ r.2

/-- `Stream.Encode` of records already sorted by type. -/
def encTlv (rs : List Rec) : Bytes := encList encRec rs

/-- the p2p record-size cap (`length > MaxRecordSize`). -/
def overCap (cap : Option Nat) (len : Nat) : Bool :=
  match cap with
  | some c => decide (len > c)
  | none => false

/-- `Stream.decode`: reads records up to the end of the input; types strictly increasing
    (`min` = lowest admissible next type, `none` after type 2^64-1); `cap` = the p2p record cap. -/
def decTlvAux (cap : Option Nat) : Nat → Option Nat → Bytes → Option (List Rec)
  | 0, _, _ => none
  | fuel + 1, min, bs =>
    match bs with
    | [] => some []
    | _ :: _ =>
      match rdBigSize bs with
      | none => none
      | some (t, r1) =>
        match min with
        | none => none
        | some m =>
          if t < m then none else
          match rdBigSize r1 with
          | none => none
          | some (len, r2) =>
            if overCap cap len then none else
            match rdFixed len r2 with
            | none => none
            | some (v, r3) =>
              match decTlvAux cap fuel (if t == 18446744073709551615 then none else some (t + 1)) r3 with
              | some rest => some ((t, v) :: rest)
              | none => none

def decTlv (cap : Option Nat) (bs : Bytes) : Option (List Rec) := decTlvAux cap (bs.length + 1) (some 0) bs

def maxRecordSize : Nat := 65535

/-! ## wire.MsgTx -/

structure TxIn where
  hash : Bytes          -- 32 bytes
  index : Nat
  script : Bytes
  seq : Nat
  witness : List Bytes
deriving DecidableEq, Repr, Inhabited

structure TxOut where
  value : Nat           -- int64 as its unsigned 64-bit pattern
  pk : Bytes
deriving DecidableEq, Repr, Inhabited

structure Tx where
  version : Nat         -- int32 as its unsigned 32-bit pattern
  ins : List TxIn
  outs : List TxOut
  lock : Nat
deriving DecidableEq, Repr, Inhabited

def Tx.hasWitness (t : Tx) : Bool := t.ins.any (fun i => !i.witness.isEmpty)

def encTxIn (i : TxIn) : Bytes := i.hash ++ le 4 i.index ++ varBytes i.script ++ le 4 i.seq
def encTxOut (o : TxOut) : Bytes := le 8 o.value ++ varBytes o.pk
def encWitness (w : List Bytes) : Bytes := cs w.length ++ encList varBytes w

/-- `MsgTx.Serialize` (= `BtcEncode(w, 0, WitnessEncoding)`). -/
def encTx (t : Tx) : Bytes :=
  le 4 t.version ++ (if t.hasWitness then [0, 1] else []) ++
  cs t.ins.length ++ encList encTxIn t.ins ++
  cs t.outs.length ++ encList encTxOut t.outs ++
  (if t.hasWitness then encList (fun i => encWitness i.witness) t.ins else []) ++
  le 4 t.lock

/-- btcd's `MaxMessagePayload` bound on a script. -/
def maxScript : Nat := 33554432
def maxTxIn : Nat := 33554432 / 41 + 1
def maxTxOut : Nat := 33554432 / 9 + 1
def maxWitnessItems : Nat := 4000000

def rdTxIn : Dec TxIn := fun bs =>
  match rdFixed 32 bs with
  | none => none
  | some (h, r1) =>
    match rdLE 4 r1 with
    | none => none
    | some (ix, r2) =>
      match rdVarBytes maxScript r2 with
      | none => none
      | some (sc, r3) =>
        match rdLE 4 r3 with
        | none => none
        | some (sq, r4) => some ({ hash := h, index := ix, script := sc, seq := sq, witness := [] }, r4)

def rdTxOut : Dec TxOut := fun bs =>
  match rdLE 8 bs with
  | none => none
  | some (v, r1) =>
    match rdVarBytes maxScript r1 with
    | none => none
    | some (pk, r2) => some ({ value := v, pk := pk }, r2)

def rdWitness : Dec (List Bytes) := fun bs =>
  match rdCS bs with
  | none => none
  | some (n, r) => if n > maxWitnessItems then none else decN (rdVarBytes maxScript) n r

/-- reads one witness stack per input, in order. -/
def rdWitnesses : List TxIn → Dec (List TxIn)
  | [], bs => some ([], bs)
  | i :: is, bs =>
    match rdWitness bs with
    | none => none
    | some (w, r) =>
      match rdWitnesses is r with
      | none => none
      | some (is', r') => some ({ i with witness := w } :: is', r')

/-- `MsgTx.Deserialize` (= `BtcDecode(r, 0, WitnessEncoding)`). -/
def rdTx : Dec Tx := fun bs =>
  match rdLE 4 bs with
  | none => none
  | some (ver, r0) =>
    match rdCS r0 with
    | none => none
    | some (c0, r1) =>
      -- a zero count is the segwit marker
      let hdr : Option (Bool × Nat × Bytes) :=
        if c0 == 0 then
          match r1 with
          | f :: r1' => if f != 1 then none else
            match rdCS r1' with
            | some (c, r) => some (true, c, r)
            | none => none
          | [] => none
        else some (false, c0, r1)
      match hdr with
      | none => none
      | some (flag, nIn, r2) =>
        if nIn > maxTxIn then none else
        match decN rdTxIn nIn r2 with
        | none => none
        | some (ins, r3) =>
          match rdCS r3 with
          | none => none
          | some (nOut, r4) =>
            if nOut > maxTxOut then none else
            match decN rdTxOut nOut r4 with
            | none => none
            | some (outs, r5) =>
              let wit : Option (List TxIn × Bytes) :=
                if flag then
                  match rdWitnesses ins r5 with
                  | some (ins', r) => if ins'.any (fun i => !i.witness.isEmpty) then some (ins', r) else none
                  | none => none
                else some (ins, r5)
              match wit with
              | none => none
              | some (ins', r6) =>
                match rdLE 4 r6 with
                | none => none
                | some (lk, r7) => some ({ version := ver, ins := ins', outs := outs, lock := lk }, r7)

/-! ## channeldb.HTLC -/

def onionSize : Nat := 1366
def minCustomType : Nat := 65536

structure Htlc where
  sig : Bytes
  rhash : Bytes            -- 32 bytes
  amt : Nat
  refundTimeout : Nat
  outputIndex : Int
  incoming : Bool
  onion : Bytes            -- 1366 bytes
  blinding : Option Bytes  -- 33-byte compressed point (TLV type 0)
  custom : List Rec        -- custom records, sorted by type, types ≥ 65536
  htlcIndex : Nat
  logIndex : Nat
deriving DecidableEq, Repr, Inhabited

/-- `serializeHtlcExtraData`: the TLV stream that overwrites `ExtraData`. -/
def htlcRecs (blinding : Option Bytes) (custom : List Rec) : List Rec :=
  (match blinding with | some p => [(0, p)] | none => []) ++ custom

def encHtlc (h : Htlc) : Bytes :=
  varBytes h.sig ++ h.rhash ++ be 8 h.amt ++ be 4 h.refundTimeout ++ encI32 h.outputIndex ++
  encBool h.incoming ++ varBytes (h.onion ++ encTlv (htlcRecs h.blinding h.custom)) ++
  be 8 h.htlcIndex ++ be 8 h.logIndex

/-- `SerializeHtlcs`: the count is `uint16(len(htlcs))`. -/
def encHtlcs (hs : List Htlc) : Bytes := be 2 (hs.length % 65536) ++ encList encHtlc hs

/-- `deserializeHtlcExtraData`: known record blinding point (33 bytes), everything else must be a
    custom record. -/
def splitHtlcRecs (rs : List Rec) : Option (Option Bytes × List Rec) :=
  let (bl, rest) : Option Bytes × List Rec :=
    match rs with
    | (0, v) :: rest => (some v, rest)
    | _ => (none, rs)
  if (match bl with | some v => v.length != 33 | none => false) then none
  else if rest.any (fun r => r.1 < minCustomType) then none
  else some (bl, rest)

def rdHtlc : Dec Htlc := fun bs =>
  match rdVarBytes maxVarBytes bs with
  | none => none
  | some (sig, r1) =>
  match rdFixed 32 r1 with
  | none => none
  | some (rh, r2) =>
  match rdBE 8 r2 with
  | none => none
  | some (amt, r3) =>
  match rdBE 4 r3 with
  | none => none
  | some (rt, r4) =>
  match rdI32 r4 with
  | none => none
  | some (oi, r5) =>
  match rdBool r5 with
  | none => none
  | some (inc, r6) =>
  match rdVarBytes maxVarBytes r6 with
  | none => none
  | some (blob, r7) =>
  match rdBE 8 r7 with
  | none => none
  | some (hi, r8) =>
  match rdBE 8 r8 with
  | none => none
  | some (li, r9) =>
    if blob.length < onionSize then none else
    match decTlv (some maxRecordSize) (blob.drop onionSize) with
    | none => none
    | some rs =>
      match splitHtlcRecs rs with
      | none => none
      | some (bl, cu) =>
        some ({ sig := sig, rhash := rh, amt := amt, refundTimeout := rt, outputIndex := oi, incoming := inc,
                onion := blob.take onionSize, blinding := bl, custom := cu, htlcIndex := hi, logIndex := li }, r9)

def rdHtlcs : Dec (List Htlc) := fun bs =>
  match rdBE 2 bs with
  | none => none
  | some (n, r) => decN rdHtlc n r

/-! ## channeldb.ChannelCommitment -/

structure Commit where
  height : Nat
  localLogIndex : Nat
  localHtlcIndex : Nat
  remoteLogIndex : Nat
  remoteHtlcIndex : Nat
  localBalance : Nat
  remoteBalance : Nat
  commitFee : Nat
  feePerKw : Nat
  tx : Tx
  sig : Bytes
  htlcs : List Htlc
  customBlob : Option Bytes    -- aux TLV stream, type 1
deriving DecidableEq, Repr, Inhabited

/-- `serializeChanCommit`. -/
def encCommitCore (c : Commit) : Bytes :=
  be 8 c.height ++ be 8 c.localLogIndex ++ be 8 c.localHtlcIndex ++ be 8 c.remoteLogIndex ++
  be 8 c.remoteHtlcIndex ++ be 8 c.localBalance ++ be 8 c.remoteBalance ++ be 8 c.commitFee ++
  be 8 c.feePerKw ++ encTx c.tx ++ varBytes c.sig ++ encHtlcs c.htlcs

/-- `commitTlvData.encode`. -/
def encAux (blob : Option Bytes) : Bytes :=
  encTlv (match blob with | some b => [(1, b)] | none => [])

/-- value stored by `putChanCommitment`. -/
def encCommit (c : Commit) : Bytes := encCommitCore c ++ encAux c.customBlob

/-- `deserializeChanCommit` (the aux blob is filled in by the caller). -/
def rdCommitCore : Dec Commit := fun bs =>
  match rdBE 8 bs with
  | none => none
  | some (h, r1) =>
  match rdBE 8 r1 with
  | none => none
  | some (lli, r2) =>
  match rdBE 8 r2 with
  | none => none
  | some (lhi, r3) =>
  match rdBE 8 r3 with
  | none => none
  | some (rli, r4) =>
  match rdBE 8 r4 with
  | none => none
  | some (rhi, r5) =>
  match rdBE 8 r5 with
  | none => none
  | some (lb, r6) =>
  match rdBE 8 r6 with
  | none => none
  | some (rb, r7) =>
  match rdBE 8 r7 with
  | none => none
  | some (cf, r8) =>
  match rdBE 8 r8 with
  | none => none
  | some (fk, r9) =>
  match rdTx r9 with
  | none => none
  | some (tx, r10) =>
  match rdVarBytes maxVarBytes r10 with
  | none => none
  | some (sig, r11) =>
  match rdHtlcs r11 with
  | none => none
  | some (hs, r12) =>
    some ({ height := h, localLogIndex := lli, localHtlcIndex := lhi, remoteLogIndex := rli,
            remoteHtlcIndex := rhi, localBalance := lb, remoteBalance := rb, commitFee := cf, feePerKw := fk,
            tx := tx, sig := sig, htlcs := hs, customBlob := none }, r12)

/-- `commitTlvData.decode` + `amendCommitTlvData`: reads to the end of the value; only type 1 is kept. -/
def decAux (bs : Bytes) : Option (Option Bytes) :=
  match decTlv none bs with
  | none => none
  | some rs => some ((rs.find? (fun r => r.1 == 1)).map Prod.snd)

/-- `fetchChanCommitment`. -/
def decCommit (bs : Bytes) : Option Commit :=
  match rdCommitCore bs with
  | none => none
  | some (c, r) =>
    match decAux r with
    | none => none
    | some blob => some { c with customBlob := blob }

/-! ## lnwire messages kept in the database -/

inductive WMsg where
  /-- update_add_htlc (128); `extra` = blinding point, custom records and other extra records merged. -/
  | add (chan : Bytes) (id amt : Nat) (hash : Bytes) (expiry : Nat) (onion : Bytes) (extra : List Rec)
  /-- update_fulfill_htlc (130). -/
  | fulfill (chan : Bytes) (id : Nat) (preimage : Bytes) (extra : List Rec)
  /-- update_fail_htlc (131); `extra` opaque. -/
  | fail (chan : Bytes) (id : Nat) (reason : Bytes) (extra : Bytes)
  /-- update_fail_malformed_htlc (135). -/
  | malformed (chan : Bytes) (id : Nat) (sha : Bytes) (code : Nat) (extra : Bytes)
  /-- update_fee (134). -/
  | fee (chan : Bytes) (feePerKw : Nat) (extra : Bytes)
  /-- commit_sig (132); `extra` = partial signature with nonce (type 2), custom records, … merged. -/
  | commitSig (chan : Bytes) (sig : Bytes) (htlcSigs : List Bytes) (extra : List Rec)
deriving DecidableEq, Repr, Inhabited

def WMsg.type : WMsg → Nat
  | .add .. => 128 | .fulfill .. => 130 | .fail .. => 131 | .commitSig .. => 132
  | .fee .. => 134 | .malformed .. => 135

/-- `Message.Encode` (payload after the 2-byte type). -/
def WMsg.payload : WMsg → Bytes
  | .add chan id amt hash expiry onion extra =>
    chan ++ be 8 id ++ be 8 amt ++ hash ++ be 4 expiry ++ onion ++ encTlv extra
  | .fulfill chan id pre extra => chan ++ be 8 id ++ pre ++ encTlv extra
  | .fail chan id reason extra => chan ++ be 8 id ++ be 2 (reason.length % 65536) ++ reason ++ extra
  | .malformed chan id sha code extra => chan ++ be 8 id ++ sha ++ be 2 code ++ extra
  | .fee chan f extra => chan ++ be 4 f ++ extra
  | .commitSig chan sig hs extra =>
    chan ++ sig ++ be 2 (hs.length % 65536) ++ encList id hs ++ encTlv extra

/-- `lnwire.WriteMessage`. -/
def encWire (m : WMsg) : Bytes := be 2 m.type ++ m.payload

/-- `WriteElement(lnwire.Message)`: `uint16(len)` then the message. -/
def encMsg (m : WMsg) : Bytes := be 2 ((encWire m).length % 65536) ++ encWire m

/-- known records of the parsed extra data must have their fixed size. -/
def knownOK (known : List (Nat × Nat)) (rs : List Rec) : Bool :=
  rs.all (fun r => known.all (fun k => k.1 != r.1 || k.2 == r.2.length))

/-- `lnwire.ReadMessage` on exactly the bytes of one message (the `io.LimitReader`). -/
def decWire (bs : Bytes) : Option WMsg :=
  match rdBE 2 bs with
  | none => none
  | some (ty, p) =>
    if ty == 128 then
      match rdFixed 32 p with
      | none => none
      | some (chan, r1) =>
      match rdBE 8 r1 with
      | none => none
      | some (id, r2) =>
      match rdBE 8 r2 with
      | none => none
      | some (amt, r3) =>
      match rdFixed 32 r3 with
      | none => none
      | some (hash, r4) =>
      match rdBE 4 r4 with
      | none => none
      | some (exp, r5) =>
      match rdFixed onionSize r5 with
      | none => none
      | some (onion, r6) =>
        match decTlv (some maxRecordSize) r6 with
        | none => none
        | some rs => if knownOK [(0, 33)] rs then some (.add chan id amt hash exp onion rs) else none
    else if ty == 130 then
      match rdFixed 32 p with
      | none => none
      | some (chan, r1) =>
      match rdBE 8 r1 with
      | none => none
      | some (id, r2) =>
      match rdFixed 32 r2 with
      | none => none
      | some (pre, r3) =>
        match decTlv (some maxRecordSize) r3 with
        | none => none
        | some rs => some (.fulfill chan id pre rs)
    else if ty == 131 then
      match rdFixed 32 p with
      | none => none
      | some (chan, r1) =>
      match rdBE 8 r1 with
      | none => none
      | some (id, r2) =>
      match rdBE 2 r2 with
      | none => none
      | some (n, r3) =>
      match rdFixed n r3 with
      | none => none
      | some (reason, r4) => some (.fail chan id reason r4)
    else if ty == 135 then
      match rdFixed 32 p with
      | none => none
      | some (chan, r1) =>
      match rdBE 8 r1 with
      | none => none
      | some (id, r2) =>
      match rdFixed 32 r2 with
      | none => none
      | some (sha, r3) =>
      match rdBE 2 r3 with
      | none => none
      | some (code, r4) => some (.malformed chan id sha code r4)
    else if ty == 134 then
      match rdFixed 32 p with
      | none => none
      | some (chan, r1) =>
      match rdBE 4 r1 with
      | none => none
      | some (f, r2) => some (.fee chan f r2)
    else if ty == 132 then
      match rdFixed 32 p with
      | none => none
      | some (chan, r1) =>
      match rdFixed 64 r1 with
      | none => none
      | some (sig, r2) =>
      match rdBE 2 r2 with
      | none => none
      | some (n, r3) =>
      match decN (rdFixed 64) n r3 with
      | none => none
      | some (hs, r4) =>
        match decTlv (some maxRecordSize) r4 with
        | none => none
        | some rs => if knownOK [(2, 98)] rs then some (.commitSig chan sig hs rs) else none
    else none

/-- `ReadElement(*lnwire.Message)`. -/
def rdMsg : Dec WMsg := fun bs =>
  match rdBE 2 bs with
  | none => none
  | some (n, r) =>
    -- the LimitReader hands ReadMessage at most n bytes; on a short stream the message decoder
    -- sees what is there (a trailing opaque extra-data field then simply comes out shorter)
    match decWire (r.take n) with
    | none => none
    | some m => some (m, r.drop n)

/-! ## LogUpdate, CommitDiff -/

structure LogUpd where
  logIndex : Nat
  msg : WMsg
deriving DecidableEq, Repr, Inhabited

/-- `serializeLogUpdate` (forwarding-package buckets). -/
def encLogUpd (u : LogUpd) : Bytes := be 8 u.logIndex ++ encMsg u.msg

def rdLogUpd : Dec LogUpd := fun bs =>
  match rdBE 8 bs with
  | none => none
  | some (li, r) =>
    match rdMsg r with
    | none => none
    | some (m, r') => some (⟨li, m⟩, r')

/-- `serializeLogUpdates` (unsignedAckedUpdatesKey, remoteUnsignedLocalUpdatesKey, inside the diff). -/
def encLogUpds (us : List LogUpd) : Bytes := be 2 (us.length % 65536) ++ encList encLogUpd us

def rdLogUpds : Dec (List LogUpd) := fun bs =>
  match rdBE 2 bs with
  | none => none
  | some (n, r) => decN rdLogUpd n r

/-- a circuit key: short channel id, HTLC id. -/
abbrev CKey := Nat × Nat

def encCKey (k : CKey) : Bytes := be 8 k.1 ++ be 8 k.2
def rdCKey : Dec CKey := fun bs =>
  match rdBE 8 bs with
  | none => none
  | some (a, r) =>
    match rdBE 8 r with
    | none => none
    | some (b, r') => some ((a, b), r')

def encCKeys (ks : List CKey) : Bytes := be 2 (ks.length % 65536) ++ encList encCKey ks
def rdCKeys : Dec (List CKey) := fun bs =>
  match rdBE 2 bs with
  | none => none
  | some (n, r) => decN rdCKey n r

structure CommitDiff where
  commit : Commit
  commitSig : WMsg
  updates : List LogUpd
  opened : List CKey
  closed : List CKey
deriving DecidableEq, Repr, Inhabited

/-- `serializeCommitDiff` (value of commitDiffKey). -/
def encDiff (d : CommitDiff) : Bytes :=
  encCommitCore d.commit ++ encMsg d.commitSig ++ encLogUpds d.updates ++
  encCKeys d.opened ++ encCKeys d.closed ++ encAux d.commit.customBlob

/-- `deserializeCommitDiff`. -/
def decDiff (bs : Bytes) : Option CommitDiff :=
  match rdCommitCore bs with
  | none => none
  | some (c, r1) =>
  match rdMsg r1 with
  | none => none
  | some (m, r2) =>
    match m with
    | .commitSig .. =>
      match rdLogUpds r2 with
      | none => none
      | some (us, r3) =>
      match rdCKeys r3 with
      | none => none
      | some (op, r4) =>
      match rdCKeys r4 with
      | none => none
      | some (cl, r5) =>
        match decAux r5 with
        | none => none
        | some blob => some { commit := { c with customBlob := blob }, commitSig := m, updates := us, opened := op, closed := cl }
    | _ => none

/-- `fetch…Updates`: a stored update list must be consumed by `deserializeLogUpdates` (trailing bytes are ignored by the Go code). -/
def decLogUpds (bs : Bytes) : Option (List LogUpd) := (rdLogUpds bs).map Prod.fst

def decLogUpd (bs : Bytes) : Option LogUpd := (rdLogUpd bs).map Prod.fst

/-! ## revocationStateKey -/

/-- value of `revocationStateKey`: the peer's current commitment point, the root of our shachain
    producer, the shachain store of the peer's secrets (`lenBuckets`, per bucket index + hash, the
    store's own index) and — once channel_ready was exchanged — the peer's next commitment point. -/
structure RevState where
  cur : Bytes                       -- 33 bytes
  root : Bytes                      -- 32 bytes
  buckets : List (Nat × Bytes)      -- (index, 32-byte hash)
  storeIndex : Nat
  next : Option Bytes               -- 33 bytes
deriving DecidableEq, Repr, Inhabited

/-- the store keeps `[48]element`. -/
def maxBuckets : Nat := 48

def encBucket (b : Nat × Bytes) : Bytes := be 8 b.1 ++ b.2

/-- `putChanRevocationState`. -/
def encRevState (s : RevState) : Bytes :=
  s.cur ++ s.root ++ be 1 (s.buckets.length % 256) ++ encList encBucket s.buckets ++ be 8 s.storeIndex ++
  (match s.next with | some p => p | none => [])

def rdBucket : Dec (Nat × Bytes) := fun bs =>
  match rdBE 8 bs with
  | none => none
  | some (i, r) =>
    match rdFixed 32 r with
    | none => none
    | some (h, r') => some ((i, h), r')

/-- `fetchChanRevocationState`: the next point is read only if bytes are left; a bucket count above
    48 indexes past the store's array (Go panics; treated as a refusal here). -/
def decRevState (bs : Bytes) : Option RevState :=
  match rdFixed 33 bs with
  | none => none
  | some (cur, r1) =>
  match rdFixed 32 r1 with
  | none => none
  | some (root, r2) =>
  match rdBE 1 r2 with
  | none => none
  | some (n, r3) =>
    if n > maxBuckets then none else
    match decN rdBucket n r3 with
    | none => none
    | some (bk, r4) =>
    match rdBE 8 r4 with
    | none => none
    | some (si, r5) =>
      match r5 with
      | [] => some { cur := cur, root := root, buckets := bk, storeIndex := si, next := none }
      | _ :: _ =>
        match rdFixed 33 r5 with
        | none => none
        | some (nx, _) => some { cur := cur, root := root, buckets := bk, storeIndex := si, next := some nx }

end LndModel.C02.Codec
