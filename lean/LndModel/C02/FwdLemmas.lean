/-
C02 — lemmas about the forwarding-package store model (`FwdModel.lean`): byte-level facts about
`PkgFilter`, and the refinement between the durable store (encoded filters) and the per-package
histories of acknowledgements.
-/
import LndModel.C02.FwdModel
set_option linter.unusedSimpArgs false
set_option linter.unusedVariables false

namespace LndModel.C02.Fwd

theorem mask_eq (i : Nat) : mask i = 2 ^ (7 - i % 8) := by simp [mask, Nat.one_shiftLeft]

theorem and_two_pow_ne (b k : Nat) : ((b &&& 2 ^ k) != 0) = b.testBit k := by
  cases h : b.testBit k
  · have : b &&& 2 ^ k = 0 := by
      apply Nat.eq_of_testBit_eq
      intro j
      rw [Nat.testBit_and, Nat.testBit_two_pow, Nat.zero_testBit]
      by_cases hj : k = j
      · subst hj; simp [h]
      · simp [hj]
    simp [this]
  · have : b &&& 2 ^ k = 2 ^ k := by
      apply Nat.eq_of_testBit_eq
      intro j
      rw [Nat.testBit_and, Nat.testBit_two_pow]
      by_cases hj : k = j
      · subst hj; simp [h]
      · simp [hj]
    rw [this]
    have : 2 ^ k ≠ 0 := Nat.pos_iff_ne_zero.mp (Nat.two_pow_pos k)
    simp

theorem byte_full (b : Nat) (hb : b < 256) : (b == 255) = (List.range 8).all (fun k => b.testBit k) := by
  have h255 : (255 : Nat) = 2 ^ 8 - 1 := by decide
  cases hall : (List.range 8).all (fun k => b.testBit k)
  · cases hb255 : b == 255
    · rfl
    · have : b = 255 := by simpa using hb255
      subst this
      revert hall; decide
  · have : b = 255 := by
      apply Nat.eq_of_testBit_eq
      intro j
      rw [h255, Nat.testBit_two_pow_sub_one]
      by_cases hj : j < 8
      · simp only [List.all_eq_true, List.mem_range] at hall
        simp [hj, hall j hj]
      · have : b < 2 ^ j := Nat.lt_of_lt_of_le (show b < 2 ^ 8 from hb) (Nat.pow_le_pow_right (by decide) (by omega : 8 ≤ j))
        simp [hj, Nat.testBit_lt_two_pow this]
    simp [this]

theorem mask_lt (i : Nat) : mask i < 256 := by
  rw [mask_eq]
  have : 7 - i % 8 ≤ 7 := by omega
  calc 2 ^ (7 - i % 8) ≤ 2 ^ 7 := Nat.pow_le_pow_right (by decide) this
    _ < 256 := by decide

/-- `Contains(i)` reads bit `7 - i%8` of byte `i/8`. -/
theorem contains_eq (f : Filter) (i : Nat) : f.contains i = (f.bytes.getD (i / 8) 0).testBit (7 - i % 8) := by
  unfold Filter.contains
  rw [mask_eq, and_two_pow_ne]

theorem getD_set (l : List Nat) (i j a d : Nat) :
    (l.set i a).getD j d = if i = j ∧ i < l.length then a else l.getD j d := by
  simp only [List.getD_eq_getElem?_getD, List.getElem?_set]
  by_cases h : i = j
  · subst h
    by_cases h2 : i < l.length
    · simp [h2]
    · simp [h2]
  · simp [h]

theorem contains_set (f : Filter) (i j : Nat) (hi : f.inRange i = true) :
    (f.set i).contains j = (decide (j = i) || f.contains j) := by
  have hi' : i / 8 < f.bytes.length := by simpa [Filter.inRange] using hi
  rw [contains_eq, contains_eq]
  simp only [Filter.set, getD_set]
  by_cases hq : i / 8 = j / 8
  · simp only [hq, true_and]
    rw [if_pos (by omega)]
    rw [mask_eq, Nat.testBit_or, Nat.testBit_two_pow, ← hq]
    have : (7 - i % 8 = 7 - j % 8) ↔ j = i := by omega
    simp only [this]
    rw [Bool.or_comm]
  · have : j ≠ i := by intro h; subst h; exact hq rfl
    simp [hq, this]

theorem contains_new (n j : Nat) : (Filter.new n).contains j = false := by
  rw [contains_eq]
  simp only [Filter.new, List.getD_eq_getElem?_getD, List.getElem?_replicate]
  split <;> simp


/-- **IsFull ↔ every index below count is set** (any count, incl. counts that are not a multiple
    of 8; bits beyond `count` in the last byte are irrelevant). -/
theorem isFull_iff (f : Filter) (hb : ∀ b ∈ f.bytes, b < 256) :
    f.isFull = true ↔ ∀ i, i < f.count → f.contains i = true := by
  have hget : ∀ q, f.bytes.getD q 0 < 256 := by
    intro q
    rw [List.getD_eq_getElem?_getD]
    cases h : f.bytes[q]? with
    | none => simp
    | some v => simpa using hb v (List.mem_of_getElem? h)
  unfold Filter.isFull
  simp only [Bool.and_eq_true, List.all_eq_true, List.mem_range]
  constructor
  · rintro ⟨hA, hB⟩ i hi
    by_cases hq : i / 8 < f.count / 8
    · have h1 := hA (i / 8) hq
      rw [byte_full _ (hget _)] at h1
      simp only [List.all_eq_true, List.mem_range] at h1
      rw [contains_eq]
      exact h1 (7 - i % 8) (by omega)
    · have h1 := hB (i % 8) (by omega)
      have : f.count - f.count % 8 + i % 8 = i := by omega
      rwa [this] at h1
  · intro h
    constructor
    · intro q hq
      rw [byte_full _ (hget _)]
      simp only [List.all_eq_true, List.mem_range]
      intro k hk
      have h1 := h (8 * q + (7 - k)) (by omega)
      rw [contains_eq] at h1
      have e1 : (8 * q + (7 - k)) / 8 = q := by omega
      have e2 : 7 - (8 * q + (7 - k)) % 8 = k := by omega
      rwa [e1, e2] at h1
    · intro k hk
      exact h _ (by omega)

theorem set_count (f : Filter) (i : Nat) : (f.set i).count = f.count := rfl
theorem set_length (f : Filter) (i : Nat) : (f.set i).bytes.length = f.bytes.length := by simp [Filter.set]

theorem set_bytes_lt (f : Filter) (i : Nat) (hb : ∀ b ∈ f.bytes, b < 256) : ∀ b ∈ (f.set i).bytes, b < 256 := by
  intro b hbm
  simp only [Filter.set] at hbm
  rcases List.mem_or_eq_of_mem_set hbm with h | h
  · exact hb b h
  · subst h
    have h1 : f.bytes.getD (i / 8) 0 < 2 ^ 8 := by
      rw [List.getD_eq_getElem?_getD]
      cases h : f.bytes[i / 8]? with
      | none => simp
      | some v => simpa using hb v (List.mem_of_getElem? h)
    exact Nat.or_lt_two_pow h1 (show mask i < 2 ^ 8 from mask_lt i)

theorem wf_set (f : Filter) (i : Nat) (h : f.wf = true) : (f.set i).wf = true := by
  simp only [Filter.wf, Bool.and_eq_true, decide_eq_true_eq, beq_iff_eq, List.all_eq_true] at h ⊢
  refine ⟨⟨h.1.1, ?_⟩, ?_⟩
  · rw [set_length, set_count]; exact h.1.2
  · exact set_bytes_lt f i h.2

theorem wf_new (n : Nat) (h : n < 65529) : (Filter.new n).wf = true := by
  simp only [Filter.wf, Filter.new, Bool.and_eq_true, decide_eq_true_eq, beq_iff_eq, List.all_eq_true,
    List.length_replicate, List.mem_replicate]
  exact ⟨⟨decide_eq_true h, trivial⟩, fun b hb => by omega⟩

/-- **Set is idempotent** (byte level). -/
theorem set_idem (f : Filter) (i : Nat) : (f.set i).set i = f.set i := by
  simp only [Filter.set, Filter.mk.injEq, true_and]
  rw [getD_set, List.set_set]
  by_cases h : i / 8 < f.bytes.length
  · simp only [h, and_self, if_true]
    rw [Nat.or_assoc, Nat.or_self]
  · simp only [h, and_false, if_false]

/-- **Set is commutative** (byte level): the order in which indices are acknowledged is irrelevant. -/
theorem set_comm (f : Filter) (i j : Nat) : (f.set i).set j = (f.set j).set i := by
  simp only [Filter.set, Filter.mk.injEq, true_and]
  rw [getD_set, getD_set]
  by_cases hq : i / 8 = j / 8
  · rw [hq]
    simp only [true_and, List.set_set]
    by_cases h : j / 8 < f.bytes.length
    · simp only [h, if_true]
      rw [Nat.or_assoc, Nat.or_assoc, Nat.or_comm (mask i)]
    · simp only [h, if_false]
      rw [List.set_eq_of_length_le (by omega), List.set_eq_of_length_le (by omega)]
  · have hq' : ¬ j / 8 = i / 8 := fun h => hq h.symm
    simp only [hq, hq', false_and, if_false]
    exact List.set_comm _ _ hq

/-- acknowledging a list of indices in any order, with repetitions: the filter contains exactly them. -/
theorem contains_foldl_set (is : List Nat) (f : Filter) (hr : ∀ i ∈ is, f.inRange i = true) (j : Nat) :
    (is.foldl Filter.set f).contains j = (is.contains j || f.contains j) := by
  induction is generalizing f with
  | nil => simp
  | cons i r ih =>
    simp only [List.foldl_cons]
    rw [ih (f.set i) (by
      intro k hk
      have := hr k (List.mem_cons_of_mem _ hk)
      simpa [Filter.inRange, set_length] using this)]
    rw [contains_set f i j (hr i List.mem_cons_self)]
    simp only [List.contains_cons]
    by_cases h1 : j = i
    · subst h1; simp
    · have : (j == i) = false := by simpa using h1
      simp [h1, this]

/-- **encode/decode round trip for every count** (`count` fits a uint16, the byte slice has the
    length `NewPkgFilter` / `Decode` give it). -/
theorem decode_encode (f : Filter) (hc : f.count < 65536) (hl : f.bytes.length = filterLen f.count) :
    Filter.decode f.encode = some f := by
  unfold Filter.encode Filter.decode
  simp only [List.cons_append, List.nil_append]
  have e : f.count / 256 % 256 * 256 + f.count % 256 = f.count := by omega
  simp only [e, hl, Nat.lt_irrefl, if_false]
  rw [← hl, List.take_length]

theorem decode_encode_wf (f : Filter) (h : f.wf = true) : Filter.decode f.encode = some f := by
  simp only [Filter.wf, Bool.and_eq_true, decide_eq_true_eq, beq_iff_eq] at h
  exact decode_encode f (by omega) h.1.2

/-- in-range: every index below the count has its byte. -/
theorem inRange_of_lt (f : Filter) (h : f.wf = true) (i : Nat) (hi : i < f.count) : f.inRange i = true := by
  simp only [Filter.wf, Bool.and_eq_true, decide_eq_true_eq, beq_iff_eq] at h
  simp only [Filter.inRange, decide_eq_true_eq, h.1.2, filterLen]
  omega


/-! ## the store refines the histories -/

/-- two lists related element by element. -/
inductive All2 {α β : Type} (R : α → β → Prop) : List α → List β → Prop
  | nil : All2 R [] []
  | cons {a : α} {b : β} {l : List α} {m : List β} : R a b → All2 R l m → All2 R (a :: l) (b :: m)


/-- an encoded filter represents "count `n`, exactly the indices `acked` set". -/
def RepF (enc : List Nat) (n : Nat) (acked : List Nat) : Prop :=
  ∃ f : Filter, enc = f.encode ∧ f.wf = true ∧ f.count = n ∧ ∀ j, f.contains j = acked.contains j

structure Rep (p : Pkg) (h : Hist) : Prop where
  height : p.height = h.height
  adds : p.adds = h.adds
  sfs : p.sfs = h.sfs
  ack : RepF p.ack h.adds.length h.acked
  sf : RepF p.sf h.sfs.length h.sfAcked
  fwd : p.fwd = h.fwd.map Filter.encode
  fwdWf : ∀ f, h.fwd = some f → f.wf = true

theorem repF_new (n : Nat) (hn : n < 65529) : RepF (Filter.new n).encode n [] :=
  ⟨Filter.new n, rfl, wf_new n hn, rfl, fun j => by simp [contains_new]⟩

theorem repF_ack {enc : List Nat} {n : Nat} {acked : List Nat} (h : RepF enc n acked) (i : Nat) (hi : i < n) :
    ∃ enc', ackOne enc i = .ok enc' ∧ RepF enc' n (acked ++ [i]) := by
  obtain ⟨f, rfl, hwf, hc, hb⟩ := h
  have hr := inRange_of_lt f hwf i (by omega)
  refine ⟨(f.set i).encode, ?_, f.set i, rfl, wf_set f i hwf, hc, ?_⟩
  · unfold ackOne
    rw [decode_encode_wf f hwf]
    simp [hr]
  · intro j
    rw [contains_set f i j hr, hb j]
    simp only [List.contains_eq_mem, List.mem_append, List.mem_singleton]
    by_cases h1 : j = i <;> by_cases h2 : j ∈ acked <;> simp [h1, h2]

theorem ack_forall2 (sel : Bool) (k i : Nat) {l : List Pkg} {a : List Hist} (h : All2 Rep l a)
    (hi : ∀ p ∈ a, p.height = k → i < (if sel then p.sfs.length else p.adds.length)) :
    ∃ l', l.mapM (ackPkg sel k i) = .ok l' ∧ All2 Rep l' (mapHist k (Hist.ack sel i) a) := by
  induction h with
  | nil => exact ⟨[], rfl, All2.nil⟩
  | @cons p q l a hpq _ ih =>
    obtain ⟨l', hl', hf⟩ := ih (fun p hp => hi p (List.mem_cons_of_mem _ hp))
    by_cases hk : p.height = k
    · have hqk : q.height = k := by rw [← hpq.height]; exact hk
      have hi' := hi q List.mem_cons_self hqk
      cases sel with
      | false =>
        obtain ⟨enc', he, hr⟩ := repF_ack hpq.ack i (by simpa using hi')
        refine ⟨{ p with ack := enc' } :: l', ?_, ?_⟩
        · simp only [List.mapM_cons, ackPkg, hk, beq_self_eq_true, if_true, Bool.false_eq_true, if_false, he, hl']
          rfl
        · simp only [mapHist, List.map_cons, hqk, beq_self_eq_true, if_true, Hist.ack, Bool.false_eq_true, if_false]
          refine All2.cons ?_ hf
          exact ⟨hk, hpq.adds, hpq.sfs, hr, hpq.sf, hpq.fwd, hpq.fwdWf⟩
      | true =>
        obtain ⟨enc', he, hr⟩ := repF_ack hpq.sf i (by simpa using hi')
        refine ⟨{ p with sf := enc' } :: l', ?_, ?_⟩
        · simp only [List.mapM_cons, ackPkg, hk, beq_self_eq_true, if_true, he, hl']
          rfl
        · simp only [mapHist, List.map_cons, hqk, beq_self_eq_true, if_true, Hist.ack]
          refine All2.cons ?_ hf
          exact ⟨hk, hpq.adds, hpq.sfs, hpq.ack, hr, hpq.fwd, hpq.fwdWf⟩
    · have hqk : ¬ q.height = k := by rw [← hpq.height]; exact hk
      refine ⟨p :: l', ?_, ?_⟩
      · have : (p.height == k) = false := by simpa using hk
        simp only [List.mapM_cons, ackPkg, this, Bool.false_eq_true, if_false, hl']
        rfl
      · have : (q.height == k) = false := by simpa using hqk
        simp only [mapHist, List.map_cons, this, Bool.false_eq_true, if_false]
        exact All2.cons hpq hf


theorem all2_any {l : List Pkg} {a : List Hist} (h : All2 Rep l a) (k : Nat) :
    l.any (fun p => p.height == k) = a.any (fun p => p.height == k) := by
  induction h with
  | nil => rfl
  | cons hpq _ ih => simp only [List.any_cons, ih, hpq.height]

theorem all2_filter {l : List Pkg} {a : List Hist} (h : All2 Rep l a) (k : Nat) :
    All2 Rep (l.filter (fun p => p.height != k)) (a.filter (fun p => p.height != k)) := by
  induction h with
  | nil => exact All2.nil
  | @cons p q l a hpq _ ih =>
    simp only [List.filter_cons, hpq.height]
    split
    · exact All2.cons hpq ih
    · exact ih

/-- sizes (what `opOK` looks at) are not changed by acknowledgements. -/
theorem histAck_size (sel : Bool) (i : Nat) (p : Hist) :
    (Hist.ack sel i p).height = p.height ∧ (Hist.ack sel i p).adds = p.adds ∧ (Hist.ack sel i p).sfs = p.sfs := by
  cases sel <;> exact ⟨rfl, rfl, rfl⟩

theorem acks_all2 (sel : Bool) (refs : List (Nat × Nat)) {l : List Pkg} {a : List Hist} (h : All2 Rep l a)
    (hi : ∀ r ∈ refs, ∀ p ∈ a, p.height = r.1 → r.2 < (if sel then p.sfs.length else p.adds.length)) :
    ∃ l', refs.foldl (ackRef sel) (.ok l) = .ok l' ∧
      All2 Rep l' (refs.foldl (fun a r => mapHist r.1 (Hist.ack sel r.2) a) a) := by
  induction refs generalizing l a with
  | nil => exact ⟨l, rfl, h⟩
  | cons r rs ih =>
    obtain ⟨l1, h1, hf1⟩ := ack_forall2 sel r.1 r.2 h (hi r List.mem_cons_self)
    simp only [List.foldl_cons, ackRef, h1]
    apply ih hf1
    intro r' hr' p hp hk
    simp only [mapHist, List.mem_map] at hp
    obtain ⟨q, hq, rfl⟩ := hp
    have hsz := histAck_size sel r.2 q
    by_cases hc : (q.height == r.1) = true
    · simp only [hc, if_true] at hk ⊢
      rw [hsz.2.1, hsz.2.2]
      exact hi r' (List.mem_cons_of_mem _ hr') q hq (by rw [← hsz.1]; exact hk)
    · simp only [hc] at hk ⊢
      exact hi r' (List.mem_cons_of_mem _ hr') q hq hk

theorem insert_all2 {p : Pkg} {q : Hist} (hpq : Rep p q) {l : List Pkg} {a : List Hist} (h : All2 Rep l a) :
    All2 Rep (insertPkg p l) (insertHist q a) := by
  induction h with
  | nil => exact All2.cons hpq All2.nil
  | @cons p' q' l a hpq' hla ih =>
    simp only [insertPkg, insertHist, hpq.height, hpq'.height]
    split
    · exact All2.cons hpq (All2.cons hpq' hla)
    · split
      · exact All2.cons hpq hla
      · exact All2.cons hpq' ih

theorem setFwd_all2 (k : Nat) (f : Filter) (hf : f.wf = true) {l : List Pkg} {a : List Hist} (h : All2 Rep l a) :
    All2 Rep (mapPkg k (Pkg.setFwd f) l) (mapHist k (Hist.setFwd f) a) := by
  induction h with
  | nil => exact All2.nil
  | @cons p q l a hpq _ ih =>
    simp only [mapPkg, mapHist, List.map_cons, hpq.height] at ih ⊢
    refine All2.cons ?_ ih
    split
    · unfold Pkg.setFwd Hist.setFwd
      have hfw := hpq.fwd
      cases hq : q.fwd with
      | some g =>
        rw [hq] at hfw
        simp only [Option.map_some] at hfw
        simp only [hfw]
        exact hpq
      | none =>
        rw [hq] at hfw
        simp only [Option.map_none] at hfw
        simp only [hfw]
        exact ⟨hpq.height, hpq.adds, hpq.sfs, hpq.ack, hpq.sf, rfl, fun g hg => by cases hg; exact hf⟩
    · exact hpq

theorem removeFold_none {β : Type} (ht : β → Nat) (r : List Nat) :
    List.foldl (removeStep ht) none r = none := by
  induction r with
  | nil => rfl
  | cons x xs ihx => simpa [removeStep] using ihx

theorem remove_all2 (hs : List Nat) {l : List Pkg} {a : List Hist} (h : All2 Rep l a) :
    (removeFold Pkg.height hs l = none ∧ removeFold Hist.height hs a = none) ∨
    ∃ l' a', removeFold Pkg.height hs l = some l' ∧ removeFold Hist.height hs a = some a' ∧ All2 Rep l' a' := by
  unfold removeFold
  induction hs generalizing l a with
  | nil => exact Or.inr ⟨l, a, rfl, rfl, h⟩
  | cons k r ih =>
    simp only [List.foldl_cons, removeStep, all2_any h k]
    split
    · exact ih (all2_filter h k)
    · left
      exact ⟨removeFold_none _ _, removeFold_none _ _⟩


/-! ## what a restarted link loads -/

/-- a loaded package agrees with the history of its height. -/
structure Matches (ld : Loaded) (h : Hist) : Prop where
  height : ld.height = h.height
  adds : ld.adds = h.adds
  sfs : ld.sfs = h.sfs
  state : ld.state = h.state
  fwd : ld.fwd = h.fwd.getD (Filter.new h.adds.length)
  ackCount : ld.ack.count = h.adds.length
  ackBits : ∀ j, ld.ack.contains j = h.acked.contains j
  ackFull : ld.ack.isFull = allBelow h.adds.length h.acked
  sfCount : ld.sf.count = h.sfs.length
  sfBits : ∀ j, ld.sf.contains j = h.sfAcked.contains j
  sfFull : ld.sf.isFull = allBelow h.sfs.length h.sfAcked

theorem isFull_eq_allBelow (f : Filter) (n : Nat) (acked : List Nat) (hwf : f.wf = true) (hc : f.count = n)
    (hb : ∀ j, f.contains j = acked.contains j) : f.isFull = allBelow n acked := by
  have hbytes : ∀ b ∈ f.bytes, b < 256 := by
    simp only [Filter.wf, Bool.and_eq_true, List.all_eq_true, decide_eq_true_eq] at hwf
    exact hwf.2
  rw [Bool.eq_iff_iff, isFull_iff f hbytes, hc]
  simp only [allBelow, List.all_eq_true, List.mem_range]
  constructor
  · intro h i hi; rw [← hb i]; exact h i hi
  · intro h i hi; rw [hb i]; exact h i hi

theorem load_of_rep {p : Pkg} {h : Hist} (hr : Rep p h) : ∃ ld, p.load = some ld ∧ Matches ld h := by
  obtain ⟨fa, hea, hwa, hca, hba⟩ := hr.ack
  obtain ⟨fs, hes, hws, hcs, hbs⟩ := hr.sf
  have hfa := isFull_eq_allBelow fa _ _ hwa hca hba
  have hfs := isFull_eq_allBelow fs _ _ hws hcs hbs
  unfold Pkg.load
  rw [hea, hes, decode_encode_wf fa hwa, decode_encode_wf fs hws]
  have hfw := hr.fwd
  cases hq : h.fwd with
  | none =>
    rw [hq] at hfw
    simp only [Option.map_none] at hfw
    simp only [hfw]
    refine ⟨_, rfl, ⟨hr.height, hr.adds, hr.sfs, ?_, ?_, hca, hba, hfa, hcs, hbs, hfs⟩⟩
    · simp [Hist.state, hq]
    · simp [hq, hr.adds]
  | some g =>
    rw [hq] at hfw
    simp only [Option.map_some] at hfw
    simp only [hfw, decode_encode_wf g (hr.fwdWf g hq)]
    refine ⟨_, rfl, ⟨hr.height, hr.adds, hr.sfs, ?_, ?_, hca, hba, hfa, hcs, hbs, hfs⟩⟩
    · simp [Hist.state, hq, hfa, hfs]
    · simp [hq]

theorem loadAll_of_all2 {l : List Pkg} {a : List Hist} (h : All2 Rep l a) :
    ∃ lds, l.mapM Pkg.load = some lds ∧ All2 Matches lds a := by
  induction h with
  | nil => exact ⟨[], rfl, All2.nil⟩
  | cons hpq _ ih =>
    obtain ⟨lds, h1, h2⟩ := ih
    obtain ⟨ld, h3, h4⟩ := load_of_rep hpq
    exact ⟨ld :: lds, by simp [List.mapM_cons, h3, h1], All2.cons h4 h2⟩

/-! ## runs -/

/-- the store and the histories after the same well-indexed operations (each operation is one
    transaction; a crash can fall between any two of them, `loadAll` is what the restart reads). -/
inductive Reach : Store → List Hist → Prop
  | init : Reach {} []
  | step {s : Store} {a : List Hist} (op : FOp) : Reach s a → opOK a op = true → Reach (s.step op).2 (histStep a op)

structure SInv (s : Store) (a : List Hist) : Prop where
  rep : All2 Rep s.pkgs a
  src : s.src = false → s.pkgs = [] ∧ a = []


theorem step_src (s : Store) (op : FOp) (h : s.src = true) : (s.step op).2.src = true := by
  cases op with
  | add k ad sf => rfl
  | setFwd k f => simp only [Store.step, Store.setFwd, h]; split <;> (try split) <;> simp [h]
  | ack sel refs => simp only [Store.step, Store.ack, h]; split <;> (try split) <;> (try split) <;> simp [h]
  | remove hs => simp only [Store.step, Store.remove, h]; split <;> (try split) <;> simp [h]

theorem step_nosrc (s : Store) (op : FOp) (h : s.src = false) (hop : ∀ k ad sf, op ≠ .add k ad sf) :
    (s.step op).2 = s := by
  cases op with
  | add k ad sf => exact absurd rfl (hop k ad sf)
  | setFwd k f => simp [Store.step, Store.setFwd, h]
  | ack sel refs =>
    simp only [Store.step, Store.ack, h, Bool.not_false, if_true]
    split
    · rfl
    · cases sel <;> rfl
  | remove hs => simp [Store.step, Store.remove, h]

theorem histStep_nil (op : FOp) (hop : ∀ k ad sf, op ≠ .add k ad sf) : histStep [] op = [] := by
  cases op with
  | add k ad sf => exact absurd rfl (hop k ad sf)
  | setFwd k f => rfl
  | ack sel refs =>
    simp only [histStep]
    induction refs with
    | nil => rfl
    | cons r rs ih => simpa [mapHist] using ih
  | remove hs =>
    simp only [histStep, removeFold]
    cases hs with
    | nil => rfl
    | cons k r =>
      simp only [List.foldl_cons, removeStep, List.any_nil, Bool.false_eq_true, if_false]
      rw [removeFold_none Hist.height r]; rfl

theorem sinv_step {s : Store} {a : List Hist} (h : SInv s a) (op : FOp) (hok : opOK a op = true) :
    SInv (s.step op).2 (histStep a op) := by
  by_cases hadd : ∃ k ad sf, op = .add k ad sf
  · obtain ⟨k, ad, sf, rfl⟩ := hadd
    simp only [opOK, Bool.and_eq_true, decide_eq_true_eq] at hok
    refine ⟨?_, fun hs => by simp [Store.step, Store.addPkg] at hs⟩
    simp only [Store.step, Store.addPkg, histStep]
    apply insert_all2 _ h.rep
    exact ⟨rfl, rfl, rfl, repF_new _ hok.1.1, repF_new _ hok.1.2, rfl, fun f hf => by cases hf⟩
  · have hop : ∀ k ad sf, op ≠ .add k ad sf := fun k ad sf he => hadd ⟨k, ad, sf, he⟩
    by_cases hs : s.src = true
    · refine ⟨?_, fun h' => by rw [step_src s op hs] at h'; cases h'⟩
      cases op with
      | add k ad sf => exact absurd rfl (hop k ad sf)
      | setFwd k f =>
        simp only [opOK, Bool.and_eq_true] at hok
        simp only [Store.step, Store.setFwd, histStep, hs, Bool.not_true, Bool.false_eq_true, if_false]
        split
        · rename_i hany
          have hany' : a.any (fun p => p.height == k) = false := by
            rw [← all2_any h.rep k]; simpa using hany
          have : mapHist k (Hist.setFwd f) a = a := by
            simp only [mapHist]
            conv => rhs; rw [← List.map_id a]
            apply List.map_congr_left
            intro p hp
            have : (p.height == k) = false := by
              simp only [List.any_eq_false, beq_iff_eq] at hany'
              simpa using hany' p hp
            simp [this]
          rw [this]; exact h.rep
        · exact setFwd_all2 k f hok.1 h.rep
      | ack sel refs =>
        simp only [opOK, List.all_eq_true, Bool.or_eq_true, bne_iff_ne, ne_eq, decide_eq_true_eq] at hok
        have hi : ∀ r ∈ refs, ∀ p ∈ a, p.height = r.1 → r.2 < (if sel then p.sfs.length else p.adds.length) := by
          intro r hr p hp hk
          rcases hok r hr p hp with h1 | h1
          · exact absurd hk h1
          · exact h1
        obtain ⟨l', hl', hf⟩ := acks_all2 sel refs h.rep hi
        simp only [Store.step, Store.ack, histStep, hs, Bool.not_true, Bool.false_eq_true, if_false, hl']
        split
        · rename_i he
          have : refs = [] := by simpa using he
          subst this
          exact h.rep
        · exact hf
      | remove ks =>
        simp only [Store.step, Store.remove, histStep, hs, Bool.not_true, Bool.false_eq_true, if_false]
        rcases remove_all2 ks h.rep with ⟨h1, h2⟩ | ⟨l', a', h1, h2, h3⟩
        · simp only [h1, h2, Option.getD_none]; exact h.rep
        · simp only [h1, h2, Option.getD_some]; exact h3
    · have hs' : s.src = false := by simpa using hs
      obtain ⟨h1, h2⟩ := h.src hs'
      subst h2
      rw [step_nosrc s op hs' hop, histStep_nil op hop]
      exact h


theorem sinv_of_reach {s : Store} {a : List Hist} (h : Reach s a) : SInv s a := by
  induction h with
  | init => exact ⟨All2.nil, fun _ => ⟨rfl, rfl⟩⟩
  | step op _ hok ih => exact sinv_step ih op hok

end LndModel.C02.Fwd
