/-
C02 driver, stream `codec` (harness `harness/overlay/channeldb/zz_c02_codec_verif_test.go`).

(X) correspondence: every value the production code serialised is encoded by `Codec.lean` and
    compared byte for byte with the RAW value read from the real bucket / buffer; every byte string
    handed to a production decoder (round trips, every truncation, corruptions, raw values of the
    chanBucket keys and of the forwarding-package update buckets after real writes) is decoded by the
    model and compared (error vs. value, and the value field by field).
(S) monitor, independent of the model (textual comparison of the implementation's own answers):
    `codec-roundtrip`  what the production decoder returns for the bytes the production encoder
                       wrote is exactly the value that was written;
    `codec-reload`     what a fresh fetch of the channel returns for a key is exactly the in-memory
                       value the write was given;
    `codec-encode-failed` a well-formed value could not be serialised.
-/
import LndModel.Prelude.Lines
import LndModel.C02.Codec

namespace LndModel.C02.Codec.Driver
open LndModel.Lines LndModel.C02.Codec

/-! ## parsing the canonical text -/

def pHex (s : String) : Option Bytes := if s == "" || s == "-" then some [] else hexBytes? s

def pOnion (s : String) : Option Bytes :=
  if s.startsWith "r" && s.length == 3 then (hexNat? (s.drop 1).toString).map (fun b => List.replicate onionSize b)
  else pHex s

def pRecs (s : String) : Option (List Rec) :=
  if s == "-" then some [] else
  (s.splitOn "+").mapM fun p =>
    match p.splitOn ":" with
    | [t, v] => do some ((← t.toNat?), (← pHex v))
    | _ => none

def pWitness (s : String) : Option (List Bytes) :=
  if s == "-" then some [] else (s.splitOn "_").mapM (fun it => pHex (it.drop 1).toString)

def pTxIn (s : String) : Option TxIn :=
  match s.splitOn "." with
  | [h, ix, sc, sq, w] => do
    some { hash := (← pHex h), index := (← ix.toNat?), script := (← pHex sc), seq := (← sq.toNat?), witness := (← pWitness w) }
  | _ => none

def pTxOut (s : String) : Option TxOut :=
  match s.splitOn "." with
  | [v, pk] => do some { value := (← v.toNat?), pk := (← pHex pk) }
  | _ => none

def pList {α : Type} (sep : String) (f : String → Option α) (s : String) : Option (List α) :=
  if s == "-" then some [] else (s.splitOn sep).mapM f

def pTx (s : String) : Option Tx :=
  match s.splitOn "~" with
  | [v, lk, ins, outs] => do
    some { version := (← v.toNat?), lock := (← lk.toNat?), ins := (← pList "|" pTxIn ins), outs := (← pList "|" pTxOut outs) }
  | _ => none

def pHtlc (s : String) : Option Htlc :=
  match s.splitOn "/" with
  | [sig, rh, amt, rt, oi, inc, on, bl, cu, hi, li] => do
    some { sig := (← pHex sig), rhash := (← pHex rh), amt := (← amt.toNat?), refundTimeout := (← rt.toNat?),
           outputIndex := (← oi.toInt?), incoming := inc == "1", onion := (← pOnion on),
           blinding := (← if bl == "none" then some none else (pHex bl).map some), custom := (← pRecs cu),
           htlcIndex := (← hi.toNat?), logIndex := (← li.toNat?) }
  | _ => none

def pCommit (s : String) : Option Commit :=
  match s.splitOn "," with
  | [h, lli, lhi, rli, rhi, lb, rb, cf, fk, tx, sig, blob, hs] => do
    some { height := (← h.toNat?), localLogIndex := (← lli.toNat?), localHtlcIndex := (← lhi.toNat?),
           remoteLogIndex := (← rli.toNat?), remoteHtlcIndex := (← rhi.toNat?), localBalance := (← lb.toNat?),
           remoteBalance := (← rb.toNat?), commitFee := (← cf.toNat?), feePerKw := (← fk.toNat?), tx := (← pTx tx),
           sig := (← pHex sig), customBlob := (← if blob == "none" then some none else (pHex blob).map some),
           htlcs := (← pList ";" pHtlc hs) }
  | _ => none

def pMsg (s : String) : Option WMsg :=
  match s.splitOn "/" with
  | ["add", ch, id, amt, hash, exp, on, rs] => do
    some (.add (← pHex ch) (← id.toNat?) (← amt.toNat?) (← pHex hash) (← exp.toNat?) (← pOnion on) (← pRecs rs))
  | ["ful", ch, id, pre, rs] => do some (.fulfill (← pHex ch) (← id.toNat?) (← pHex pre) (← pRecs rs))
  | ["fail", ch, id, reason, ex] => do some (.fail (← pHex ch) (← id.toNat?) (← pHex reason) (← pHex ex))
  | ["mal", ch, id, sha, code, ex] => do some (.malformed (← pHex ch) (← id.toNat?) (← pHex sha) (← code.toNat?) (← pHex ex))
  | ["fee", ch, f, ex] => do some (.fee (← pHex ch) (← f.toNat?) (← pHex ex))
  | ["cs", ch, sig, hs, rs] => do some (.commitSig (← pHex ch) (← pHex sig) (← pList "_" pHex hs) (← pRecs rs))
  | _ => none

def pUpd (s : String) : Option LogUpd :=
  match s.splitOn "@" with
  | [li, m] => do some ⟨(← li.toNat?), (← pMsg m)⟩
  | _ => none

def pKey (s : String) : Option CKey :=
  match s.splitOn ":" with
  | [a, b] => do some ((← a.toNat?), (← b.toNat?))
  | _ => none

def pDiff (ws : List String) : Option CommitDiff := do
  some { commit := (← pCommit (← kv? ws "c")), commitSig := (← pMsg (← kv? ws "m")),
         updates := (← pList ";" pUpd (← kv? ws "u")), opened := (← pList ";" pKey (← kv? ws "o")),
         closed := (← pList ";" pKey (← kv? ws "x")) }

def pBucket (s : String) : Option (Nat × Bytes) :=
  match s.splitOn "." with
  | [i, h] => do some ((← i.toNat?), (← pHex h))
  | _ => none

def pRev (s : String) : Option RevState :=
  match s.splitOn "," with
  | [cur, root, bk, si, nx] => do
    some { cur := (← pHex cur), root := (← pHex root), buckets := (← pList ";" pBucket bk), storeIndex := (← si.toNat?),
           next := (← if nx == "none" then some none else (pHex nx).map some) }
  | _ => none

/-- any of the persisted structures. -/
inductive Val where
  | commit (c : Commit)
  | diff (d : CommitDiff)
  | upds (us : List LogUpd)
  | upd (u : LogUpd)
  | rev (r : RevState)
deriving DecidableEq, Repr

def pVal (what : String) (ws : List String) : Option Val :=
  match what with
  | "commit" => (kv? ws "v").bind pCommit |>.map .commit
  | "diff" => (pDiff ws).map .diff
  | "upds" => (kv? ws "v").bind (pList ";" pUpd) |>.map .upds
  | "upd" => (kv? ws "v").bind pUpd |>.map .upd
  | "revstate" => (kv? ws "v").bind pRev |>.map .rev
  | _ => none

def Val.encode : Val → Bytes
  | .commit c => encCommit c
  | .diff d => encDiff d
  | .upds us => encLogUpds us
  | .upd u => encLogUpd u
  | .rev r => encRevState r

def decodeVal (what : String) (raw : Bytes) : Option Val :=
  match what with
  | "commit" => (decCommit raw).map .commit
  | "diff" => (decDiff raw).map .diff
  | "upds" => (decLogUpds raw).map .upds
  | "upd" => (decLogUpd raw).map .upd
  | "revstate" => (decRevState raw).map .rev
  | _ => none

/-- the value words of a line (everything except control words), for the textual monitors. -/
def valText (ws : List String) : String :=
  " ".intercalate (ws.filter fun w => w.startsWith "v=" || w.startsWith "c=" || w.startsWith "m=" || w.startsWith "u=" ||
    w.startsWith "o=" || w.startsWith "x=")

/-! ## state -/

structure St where
  caseId : String := "0"
  kind : String := ""
  lines : Nat := 0
  cases : Nat := 0
  mismatches : Nat := 0
  monitorFails : Nat := 0
  caseMismatch : Nat := 0
  caseMonitor : Nat := 0
  lastEnc : String := ""          -- value text of the last E line
  -- the S / SM / SF triple in progress
  sKey : String := ""
  sWhat : String := ""
  sOp : String := ""
  sRaw : Option Bytes := none
  sMem : String := ""
  encChecked : Nat := 0
  decChecked : Nat := 0
  decOk : Nat := 0
  decErr : Nat := 0
  decSkipped : Nat := 0
  roundTrips : Nat := 0
  storeKeys : Nat := 0
  bytesCompared : Nat := 0
  samples : Nat := 0
deriving Inhabited

def mismatch (s : St) (detail : String) : IO St := do
  if s.caseMismatch < 3 then
    IO.println s!"MISMATCH case={s.caseId} line={s.lines} {detail}"
  return { s with mismatches := s.mismatches + 1, caseMismatch := s.caseMismatch + 1 }

def monitor (s : St) (clause detail : String) : IO St := do
  if s.caseMonitor < 6 then
    IO.println s!"MONITOR case={s.caseId} clause={clause} line={s.lines} {detail}"
  return { s with monitorFails := s.monitorFails + 1, caseMonitor := s.caseMonitor + 1 }

def afterArrow (ws : List String) : List String := (ws.dropWhile (· ≠ "=>")).drop 1
def beforeArrow (ws : List String) : List String := ws.takeWhile (· ≠ "=>")

/-- first position at which two byte strings differ. -/
def firstDiff (a b : Bytes) : Nat := ((a.zip b).takeWhile (fun p => p.1 == p.2)).length

def short (s : String) : String := if s.length > 160 then String.ofList (s.toList.take 160) ++ "…" else s

/-- first differing character region of two texts. -/
def textDiff (a b : String) : String :=
  let n := ((a.toList.zip b.toList).takeWhile (fun p => p.1 == p.2)).length
  let from_ := n - min n 30
  s!"at char {n}: written …{String.ofList ((a.toList.drop from_).take 90)}… read …{String.ofList ((b.toList.drop from_).take 90)}…"

def step (s : St) (line : String) : IO St := do
  let s := { s with lines := s.lines + 1 }
  let ws := words line
  match ws with
  | "FACT" :: rest =>
    if kvNat? rest "onion" == some onionSize && kvNat? rest "maxvarbytes" == some maxVarBytes &&
       kvNat? rest "mincustom" == some minCustomType && kvNat? rest "add" == some 128 && kvNat? rest "fulfill" == some 130 &&
       kvNat? rest "fail" == some 131 && kvNat? rest "commitsig" == some 132 && kvNat? rest "fee" == some 134 &&
       kvNat? rest "malformed" == some 135 then return s
    mismatch s "codec constants differ from the model's"
  | "CASE" :: id :: rest =>
    let s := { s with caseId := id, kind := (kv? rest "kind").getD "", cases := s.cases + 1, caseMismatch := 0,
                      caseMonitor := 0, lastEnc := "", sRaw := none }
    if s.samples < 4 && s.cases % 45 == 1 then
      IO.println s!"SAMPLE {short line}"
      return { s with samples := s.samples + 1 }
    return s
  | ["END"] => return s
  | "E" :: rest =>
    let what := (kv? rest "what").getD ""
    let pre := beforeArrow rest
    let post := afterArrow rest
    let txt := valText pre
    let s := { s with lastEnc := txt, encChecked := s.encChecked + 1 }
    if post.head? != some "ok" then
      monitor s "codec-encode-failed" s!"{what}: the production serialiser refused a well-formed value: {short txt}"
    else
      match pVal what pre, (kv? post "raw").bind pHex with
      | some v, some raw =>
        let m := v.encode
        let s := { s with bytesCompared := s.bytesCompared + raw.length }
        if m == raw then return s
        else mismatch s s!"encode {what}: model writes {m.length} bytes, implementation {raw.length}; first difference at byte {firstDiff m raw}"
      | _, _ => mismatch s s!"unparsed E line: {short line}"
  | "D" :: rest =>
    let what := (kv? rest "what").getD ""
    let rt := (kvNat? rest "rt").getD 0
    let post := afterArrow rest
    let res := post.head?.getD "?"
    let txt := valText post
    let mut s := { s with decChecked := s.decChecked + 1 }
    -- (S) round trip, on the implementation's own answers
    if rt == 1 then
      s := { s with roundTrips := s.roundTrips + 1 }
      if res != "ok" then
        s ← monitor s "codec-roundtrip" s!"{what}: the bytes the production serialiser wrote are refused by the production deserialiser ({res}); value {short s.lastEnc}"
      else if txt != s.lastEnc then
        s ← monitor s "codec-roundtrip" s!"{what}: value read back differs from the value written, {textDiff s.lastEnc txt}"
    -- (X) model decoder
    if res == "other" || res == "errkey" then return { s with decSkipped := s.decSkipped + 1 }
    match (kv? (beforeArrow rest) "raw").bind pHex with
    | none => mismatch s s!"unparsed D line: {short line}"
    | some raw =>
      let m := decodeVal what raw
      if res == "ok" then
        s := { s with decOk := s.decOk + 1 }
        match pVal what post, m with
        | some v, some mv =>
          if v == mv then return s
          else mismatch s s!"decode {what} ({raw.length} bytes): model and implementation decode different values"
        | some _, none => mismatch s s!"decode {what} ({raw.length} bytes): implementation accepts, model refuses"
        | none, _ => mismatch s s!"unparsed D value: {short line}"
      else
        s := { s with decErr := s.decErr + 1 }
        if m.isNone then return s
        else mismatch s s!"decode {what} ({raw.length} bytes): implementation refuses ({res}), model accepts"
  | "S" :: rest =>
    if afterArrow rest == ["fetcherr"] then
      monitor s "codec-reload" s!"the channel cannot be fetched after {(kv? rest "op").getD "?"}"
    else
      return { s with sKey := (kv? rest "key").getD "", sWhat := (kv? rest "what").getD "", sOp := (kv? rest "op").getD "",
                      sRaw := (kv? rest "raw").bind pHex, sMem := "" }
  | "SM" :: rest =>
    let txt := valText rest
    let s := { s with sMem := txt }
    match s.sRaw, pVal s.sWhat rest with
    | some raw, some v =>
      let m := v.encode
      let s := { s with encChecked := s.encChecked + 1, bytesCompared := s.bytesCompared + raw.length }
      if m == raw then return s
      else mismatch s s!"store key {s.sKey} after {s.sOp}: model encoding of the written value ({m.length} bytes) differs from the bucket value ({raw.length} bytes), first difference at byte {firstDiff m raw}"
    | _, _ => mismatch s s!"unparsed SM line / missing raw value for key {s.sKey}: {short line}"
  | "SF" :: rest =>
    let txt := valText rest
    let mut s := { s with storeKeys := s.storeKeys + 1 }
    -- (S) reload = what was written
    if rest.contains "err" || rest.contains "missing" then
      s ← monitor s "codec-reload" s!"key {s.sKey} after {s.sOp}: the reloaded channel does not return the stored value"
      return s
    if txt != s.sMem then
      s ← monitor s "codec-reload" s!"key {s.sKey} after {s.sOp}: reloaded value differs from the value written, {textDiff s.sMem txt}"
    match s.sRaw, pVal s.sWhat rest with
    | some raw, some v =>
      s := { s with decChecked := s.decChecked + 1, decOk := s.decOk + 1 }
      match decodeVal s.sWhat raw with
      | some mv => if mv == v then return s else mismatch s s!"store key {s.sKey} after {s.sOp}: model decodes the bucket value differently from the implementation"
      | none => mismatch s s!"store key {s.sKey} after {s.sOp}: model refuses the bucket value"
    | _, _ => mismatch s s!"unparsed SF line: {short line}"
  | "O" :: _ =>
    return s
  | "P" :: rest =>
    if kvNat? rest "n" != kvNat? rest "mem" || kvNat? rest "loaded" != kvNat? rest "mem" then
      monitor s "codec-reload" s!"forwarding package {(kv? rest "h").getD "?"} bucket {(kv? rest "bucket").getD "?"}: {(kv? rest "mem").getD "?"} updates written, {(kv? rest "n").getD "?"} stored, {(kv? rest "loaded").getD "?"} loaded"
    else return s
  | "HSTAT" :: kvs =>
    for w in kvs do IO.println s!"STAT h_{w}"
    return s
  | [] => return s
  | _ => mismatch s s!"unparsed line: {short line}"

def main : IO Unit := do
  let s ← LndModel.Lines.foldStdin step {}
  IO.println s!"STAT lines={s.lines}"
  IO.println s!"STAT cases={s.cases}"
  IO.println s!"STAT evaluations={s.encChecked + s.decChecked}"
  IO.println s!"STAT nontrivial={s.decOk + s.encChecked}"
  IO.println s!"STAT codec_encodings_compared_byte_for_byte={s.encChecked}"
  IO.println s!"STAT codec_bytes_compared={s.bytesCompared}"
  IO.println s!"STAT codec_decodes_compared={s.decChecked}"
  IO.println s!"STAT codec_decodes_accepted={s.decOk}"
  IO.println s!"STAT codec_decodes_refused={s.decErr}"
  IO.println s!"STAT codec_decodes_outside_model={s.decSkipped}"
  IO.println s!"STAT codec_round_trips_monitored={s.roundTrips}"
  IO.println s!"STAT codec_store_keys_monitored={s.storeKeys}"
  IO.println s!"STAT mismatches={s.mismatches}"
  IO.println s!"STAT monitor_failures={s.monitorFails}"

end LndModel.C02.Codec.Driver
