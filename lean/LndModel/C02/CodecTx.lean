/-
C02 — round trip of `wire.MsgTx.Serialize` / `Deserialize` as modelled in `Codec.lean`
(with and without witness data), and the generalised counted-list lemma.
-/
import LndModel.C02.CodecLemmas

namespace LndModel.C02.Codec

theorem decN_encList_map {α : Type} (d : Dec α) (e : α → Bytes) (f : α → α) (l : List α) (r : Bytes)
    (h : ∀ a ∈ l, ∀ r', d (e a ++ r') = some (f a, r')) :
    decN d l.length (encList e l ++ r) = some (l.map f, r) := by
  induction l with
  | nil => simp [decN, encList]
  | cons a as ih =>
    have ha := h a (by simp)
    have ih' := ih (fun x hx => h x (by simp [hx]))
    simp only [encList, List.flatMap_cons, List.length_cons, decN, List.append_assoc, List.map_cons] at *
    rw [ha]; simp only; rw [ih']

/-! ## well-formedness -/

structure TxInOK (i : TxIn) : Prop where
  hash : i.hash.length = 32
  index : i.index < 2 ^ 32
  script : i.script.length ≤ maxScript
  seq : i.seq < 2 ^ 32
  nWit : i.witness.length ≤ maxWitnessItems
  wit : ∀ w ∈ i.witness, w.length ≤ maxScript

structure TxOutOK (o : TxOut) : Prop where
  value : o.value < 2 ^ 64
  pk : o.pk.length ≤ maxScript

/-- what `Serialize` / `Deserialize` can carry faithfully: at least one input (a zero input count
    is read as the segwit marker), 32-bit / 64-bit fields, scripts within btcd's message bound. -/
structure TxOK (t : Tx) : Prop where
  version : t.version < 2 ^ 32
  lock : t.lock < 2 ^ 32
  hasIn : 0 < t.ins.length
  nIn : t.ins.length ≤ maxTxIn
  nOut : t.outs.length ≤ maxTxOut
  ins : ∀ i ∈ t.ins, TxInOK i
  outs : ∀ o ∈ t.outs, TxOutOK o

def clearW (i : TxIn) : TxIn := { i with witness := [] }

theorem maxScript_lt : maxScript < 2 ^ 64 := by decide

theorem rdTxIn_enc (i : TxIn) (r : Bytes) (h : TxInOK i) : rdTxIn (encTxIn i ++ r) = some (clearW i, r) := by
  have h1 : ∀ r', rdFixed 32 (i.hash ++ r') = some (i.hash, r') := fun r' => rdFixed_append _ _ _ h.hash
  have h2 : ∀ r', rdLE 4 (le 4 i.index ++ r') = some (i.index, r') := fun r' => rdLE_le 4 _ _ (by have := h.index; simpa using this)
  have h3 : ∀ r', rdVarBytes maxScript (varBytes i.script ++ r') = some (i.script, r') :=
    fun r' => rdVarBytes_enc _ _ _ h.script (by have := h.script; have := maxScript_lt; omega)
  have h4 : ∀ r', rdLE 4 (le 4 i.seq ++ r') = some (i.seq, r') := fun r' => rdLE_le 4 _ _ (by have := h.seq; simpa using this)
  simp only [rdTxIn, encTxIn, List.append_assoc, h1, h2, h3, h4, clearW]

theorem rdTxOut_enc (o : TxOut) (r : Bytes) (h : TxOutOK o) : rdTxOut (encTxOut o ++ r) = some (o, r) := by
  have h1 : ∀ r', rdLE 8 (le 8 o.value ++ r') = some (o.value, r') := fun r' => rdLE_le 8 _ _ (by have := h.value; simpa using this)
  have h2 : ∀ r', rdVarBytes maxScript (varBytes o.pk ++ r') = some (o.pk, r') :=
    fun r' => rdVarBytes_enc _ _ _ h.pk (by have := h.pk; have := maxScript_lt; omega)
  simp only [rdTxOut, encTxOut, List.append_assoc, h1, h2]

theorem rdWitness_enc (w : List Bytes) (r : Bytes) (hn : w.length ≤ maxWitnessItems)
    (hw : ∀ x ∈ w, x.length ≤ maxScript) : rdWitness (encWitness w ++ r) = some (w, r) := by
  unfold rdWitness encWitness
  have hm : maxWitnessItems < 2 ^ 64 := by decide
  rw [List.append_assoc, rdCS_cs _ _ (by omega)]
  simp only
  rw [if_neg (by omega)]
  exact decN_encList _ _ _ _ (fun a ha r' => rdVarBytes_enc _ _ _ (hw a ha) (by have := hw a ha; have := maxScript_lt; omega))

theorem restoreW (i : TxIn) : { clearW i with witness := i.witness } = i := by
  cases i; rfl

theorem rdWitnesses_enc : ∀ (ins : List TxIn) (r : Bytes), (∀ i ∈ ins, TxInOK i) →
    rdWitnesses (ins.map clearW) (encList (fun i => encWitness i.witness) ins ++ r) = some (ins, r) := by
  intro ins
  induction ins with
  | nil => intro r _; simp [rdWitnesses, encList]
  | cons i is ih =>
    intro r h
    have hi := h i (by simp)
    simp only [List.map_cons, rdWitnesses, encList, List.flatMap_cons, List.append_assoc]
    rw [rdWitness_enc _ _ hi.nWit hi.wit]
    simp only
    have := ih r (fun x hx => h x (by simp [hx]))
    simp only [encList] at this
    rw [this, restoreW]

theorem clearW_id (ins : List TxIn) (h : ins.any (fun i => !i.witness.isEmpty) = false) : ins.map clearW = ins := by
  induction ins with
  | nil => rfl
  | cons i is ih =>
    simp only [List.any_cons, Bool.or_eq_false_iff] at h
    have hw : i.witness = [] := by
      have := h.1
      cases hw : i.witness with
      | nil => rfl
      | cons a b => simp [hw] at this
    simp only [List.map_cons, ih h.2]
    congr 1
    cases i; simp_all [clearW]

theorem rdCS_zero (r : Bytes) : rdCS (0 :: r) = some (0, r) := by simp [rdCS]

theorem tx_roundtrip_rest (t : Tx) (r : Bytes) (h : TxOK t) : rdTx (encTx t ++ r) = some (t, r) := by
  have hv : ∀ r', rdLE 4 (le 4 t.version ++ r') = some (t.version, r') := fun r' => rdLE_le 4 _ _ (by have := h.version; simpa using this)
  have hl : ∀ r', rdLE 4 (le 4 t.lock ++ r') = some (t.lock, r') := fun r' => rdLE_le 4 _ _ (by have := h.lock; simpa using this)
  have hmi : maxTxIn < 2 ^ 64 := by decide
  have hmo : maxTxOut < 2 ^ 64 := by decide
  have hci : ∀ r', rdCS (cs t.ins.length ++ r') = some (t.ins.length, r') := fun r' => rdCS_cs _ _ (by have := h.nIn; omega)
  have hco : ∀ r', rdCS (cs t.outs.length ++ r') = some (t.outs.length, r') := fun r' => rdCS_cs _ _ (by have := h.nOut; omega)
  have hins : ∀ r', decN rdTxIn t.ins.length (encList encTxIn t.ins ++ r') = some (t.ins.map clearW, r') :=
    fun r' => decN_encList_map _ _ clearW _ _ (fun a ha r'' => rdTxIn_enc a r'' (h.ins a ha))
  have houts : ∀ r', decN rdTxOut t.outs.length (encList encTxOut t.outs ++ r') = some (t.outs, r') :=
    fun r' => decN_encList _ _ _ _ (fun a ha r'' => rdTxOut_enc a r'' (h.outs a ha))
  have hn0 : (t.ins.length == 0) = false := by have := h.hasIn; exact beq_false_of_ne (by omega)
  have hni : ¬ t.ins.length > maxTxIn := by have := h.nIn; omega
  have hno : ¬ t.outs.length > maxTxOut := by have := h.nOut; omega
  cases hw : t.hasWitness with
  | false =>
    have hid := clearW_id t.ins (by simpa [Tx.hasWitness] using hw)
    simp only [rdTx, encTx, hw, List.append_assoc, List.nil_append, hv, hci, hn0, hni, hno, hins, houts, hco, hl,
      Bool.false_eq_true, if_false, hid]
  | true =>
    have hwits := fun r' => rdWitnesses_enc t.ins r' h.ins
    have hany : t.ins.any (fun i => !i.witness.isEmpty) = true := by simpa [Tx.hasWitness] using hw
    simp only [rdTx, encTx, hw, List.append_assoc, List.cons_append, List.nil_append, hv, rdCS_zero, hci, hni, hno,
      hins, houts, hco, hl, hwits, hany, if_true, if_false, beq_self_eq_true, bne_self_eq_false, Bool.false_eq_true]

end LndModel.C02.Codec
