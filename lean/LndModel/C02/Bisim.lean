/-
C02 — the entry / log level of `restore_bisimulation`: two update-log entries related by `eEquiv`
(same update, `hEquiv`-related commit heights) answer identically in every test the state machine
makes on an entry, and the log mutations of the four core calls keep two `logEquiv`-related logs
related:
* `SignNextCommitment` / `ReceiveNewCommitment` set the commit heights of the covered updates to the
  NEW height of that chain (`commitLog`);
* `RevokeCurrentCommitment` / `ReceiveRevocation` advance a chain tail (the relation is monotone in
  both tails); the compaction and forwarding-package tests of `ReceiveRevocation` are decided
  identically on related entries.
Missing for the full bisimulation: `computeView` (balances, HTLC list, fee) gives equal results on
`logEquiv`-related logs, and `compactLogs` as a whole (filtering both logs) keeps them related.
-/
import LndModel.C02.Lemmas
set_option linter.unusedSimpArgs false
set_option linter.unusedVariables false

namespace LndModel.C02
open LndModel.C01

structure EEq (lt rt : Nat) (x p : Entry) : Prop where
  ty : x.ty = p.ty
  amt : x.amt = p.amt
  logIndex : x.logIndex = p.logIndex
  htlcIndex : x.htlcIndex = p.htlcIndex
  parent : x.parent = p.parent
  addData : x.ty = .add → x.expiry = p.expiry ∧ x.hash = p.hash
  addL : hEquiv lt x.addL p.addL = true
  rmvL : hEquiv lt x.rmvL p.rmvL = true
  addR : hEquiv rt x.addR p.addR = true
  rmvR : hEquiv rt x.rmvR p.rmvR = true

theorem eEquiv_iff (lt rt : Nat) (x p : Entry) : eEquiv lt rt x p = true ↔ EEq lt rt x p := by
  unfold eEquiv
  simp only [Bool.and_eq_true, Bool.or_eq_true, beq_iff_eq, bne_iff_ne, ne_eq]
  constructor
  · rintro ⟨⟨⟨⟨⟨⟨⟨⟨⟨h1, h2⟩, h3⟩, h4⟩, h5⟩, h6⟩, h7⟩, h8⟩, h9⟩, h10⟩
    refine ⟨h1, h2, h3, h4, h5, ?_, h7, h8, h9, h10⟩
    intro ha
    rcases h6 with h6 | h6
    · exact absurd ha h6
    · exact h6
  · intro h
    refine ⟨⟨⟨⟨⟨⟨⟨⟨⟨h.ty, h.amt⟩, h.logIndex⟩, h.htlcIndex⟩, h.parent⟩, ?_⟩, h.addL⟩, h.rmvL⟩, h.addR⟩, h.rmvR⟩
    by_cases ha : x.ty = .add
    · exact Or.inr (h.addData ha)
    · exact Or.inl ha

theorem hEquiv_mono {t t' a b : Nat} (ht : t ≤ t') (h : hEquiv t a b = true) : hEquiv t' a b = true := by
  rw [hEquiv_iff] at h ⊢
  obtain ⟨h1, h2, h3⟩ := h
  refine ⟨h1, ?_, ?_⟩
  · rcases h3 with h3 | h3
    · have := h2.mp h3; constructor <;> intro <;> omega
    · rw [h3]
  · rcases h3 with h3 | h3
    · left; omega
    · right; exact h3

theorem hEquiv_refl (t a : Nat) : hEquiv t a a = true := by
  rw [hEquiv_iff]; exact ⟨Iff.rfl, Iff.rfl, by omega⟩

theorem hEquiv_zero {t a b : Nat} (h : hEquiv t a b = true) : a = 0 ↔ b = 0 := ((hEquiv_iff t a b).mp h).1

def tailOf (lt rt : Nat) : Chain → Nat
  | .loc => lt
  | .rem => rt

theorem EEq.addH {lt rt : Nat} {x p : Entry} (h : EEq lt rt x p) (c : Chain) :
    hEquiv (tailOf lt rt c) (x.addH c) (p.addH c) = true := by
  cases c
  · exact h.addL
  · exact h.addR

theorem EEq.rmvH {lt rt : Nat} {x p : Entry} (h : EEq lt rt x p) (c : Chain) :
    hEquiv (tailOf lt rt c) (x.rmvH c) (p.rmvH c) = true := by
  cases c
  · exact h.rmvL
  · exact h.rmvR

theorem EEq.isAdd {lt rt : Nat} {x p : Entry} (h : EEq lt rt x p) : x.isAdd = p.isAdd := by
  simp [Entry.isAdd, h.ty]
theorem EEq.isRes {lt rt : Nat} {x p : Entry} (h : EEq lt rt x p) : x.isRes = p.isRes := by
  simp [Entry.isRes, h.ty]
theorem EEq.isFee {lt rt : Nat} {x p : Entry} (h : EEq lt rt x p) : x.isFee = p.isFee := by
  simp [Entry.isFee, h.ty]

/-- related entries stay related when either tail advances. -/
theorem EEq.mono {lt rt lt' rt' : Nat} {x p : Entry} (h : EEq lt rt x p) (hl : lt ≤ lt') (hr : rt ≤ rt') :
    EEq lt' rt' x p :=
  ⟨h.ty, h.amt, h.logIndex, h.htlcIndex, h.parent, h.addData, hEquiv_mono hl h.addL, hEquiv_mono hl h.rmvL,
   hEquiv_mono hr h.addR, hEquiv_mono hr h.rmvR⟩

/-- `isUncommitted` + `setCommitHeight` at a height above the tail of that chain keeps entries related. -/
theorem EEq.commitAt {lt rt : Nat} {x p : Entry} (h : EEq lt rt x p) (c : Chain) (k : Nat) :
    EEq lt rt (x.commitAt c k) (p.commitAt c k) := by
  have ha := hEquiv_zero (h.addH c)
  have hr := hEquiv_zero (h.rmvH c)
  unfold Entry.commitAt
  rw [← h.ty]
  cases hty : x.ty
  · -- add
    simp only
    by_cases h0 : x.addH c = 0
    · have h0' := ha.mp h0
      simp only [h0, h0', if_true]
      cases c
      · exact ⟨h.ty, h.amt, h.logIndex, h.htlcIndex, h.parent, h.addData, hEquiv_refl _ _, h.rmvL, h.addR, h.rmvR⟩
      · exact ⟨h.ty, h.amt, h.logIndex, h.htlcIndex, h.parent, h.addData, h.addL, h.rmvL, hEquiv_refl _ _, h.rmvR⟩
    · have h0' : ¬ p.addH c = 0 := fun e => h0 (ha.mpr e)
      simp only [h0, h0', if_false]
      exact h
  all_goals
    simp only
    first
    | -- settle / fail / malformed
      (by_cases h0 : x.rmvH c = 0
       · have h0' := hr.mp h0
         simp only [h0, h0', if_true]
         cases c
         · exact ⟨h.ty, h.amt, h.logIndex, h.htlcIndex, h.parent, h.addData, h.addL, hEquiv_refl _ _, h.addR, h.rmvR⟩
         · exact ⟨h.ty, h.amt, h.logIndex, h.htlcIndex, h.parent, h.addData, h.addL, h.rmvL, h.addR, hEquiv_refl _ _⟩
       · have h0' : ¬ p.rmvH c = 0 := fun e => h0 (hr.mpr e)
         simp only [h0, h0', if_false]
         exact h)
    | -- fee update
      (by_cases h0 : x.addH c = 0
       · have h0' := ha.mp h0
         simp only [h0, h0', if_true]
         cases c
         · exact ⟨h.ty, h.amt, h.logIndex, h.htlcIndex, h.parent, h.addData, hEquiv_refl _ _, hEquiv_refl _ _, h.addR, h.rmvR⟩
         · exact ⟨h.ty, h.amt, h.logIndex, h.htlcIndex, h.parent, h.addData, h.addL, h.rmvL, hEquiv_refl _ _, hEquiv_refl _ _⟩
       · have h0' : ¬ p.addH c = 0 := fun e => h0 (ha.mpr e)
         simp only [h0, h0', if_false]
         exact h)


theorem hEquiv_le {t t' a b : Nat} (ht : t ≤ t') (h : hEquiv t a b = true) : a ≤ t' ↔ b ≤ t' := by
  rw [hEquiv_iff] at h
  obtain ⟨_, h2, h3⟩ := h
  rcases h3 with h3 | h3
  · have := h2.mp h3; constructor <;> intro <;> omega
  · rw [h3]

theorem hEquiv_eq {t k a b : Nat} (hk : t < k) (h : hEquiv t a b = true) : a = k ↔ b = k := by
  rw [hEquiv_iff] at h
  obtain ⟨_, h2, h3⟩ := h
  rcases h3 with h3 | h3
  · have := h2.mp h3; constructor <;> intro <;> omega
  · rw [h3]

/-- the two membership tests of `ReceiveRevocation`'s forwarding package. -/
def fwdAddTest (localTail remoteTail : Nat) (e : Entry) : Bool :=
  e.isAdd && e.addR != 0 && e.addL != 0 && e.addR == remoteTail && decide (e.addL ≤ localTail)
def fwdResTest (localTail remoteTail : Nat) (e : Entry) : Bool :=
  e.isRes && e.rmvR != 0 && e.rmvL != 0 && e.rmvR == remoteTail && decide (e.rmvL ≤ localTail)

theorem fwdPkgOf_eq (n : Node) :
    fwdPkgOf n = { height := n.chainR.tail.height + 1,
                   adds := (n.logR.entries.filter (fwdAddTest n.chainL.tail.height (n.chainR.tail.height + 1))).map Entry.htlcIndex,
                   resolves := (n.logR.entries.filter (fwdResTest n.chainL.tail.height (n.chainR.tail.height + 1))).map Entry.parent } := rfl

theorem bool_eq_of_iff {a b : Bool} (h : a = true ↔ b = true) : a = b := by
  cases a <;> cases b <;> simp at h ⊢

/-- **related entries are indistinguishable**: every test the state machine makes on an update-log
    entry gives the same answer on two `≈`-related entries, now and after any advance of the tails:
    "not yet on this chain" (`= 0`), the compaction test of `compactLogs` for all later tails, and
    the forwarding-package membership tests for the next remote height. -/
theorem EEq.tests {lt rt : Nat} {x p : Entry} (h : EEq lt rt x p) :
    (∀ c, x.addH c = 0 ↔ p.addH c = 0) ∧ (∀ c, x.rmvH c = 0 ↔ p.rmvH c = 0) ∧
    (∀ lt' rt', lt ≤ lt' → rt ≤ rt' → removable lt' rt' x = removable lt' rt' p) ∧
    (∀ lt' rt', lt ≤ lt' → rt < rt' → fwdAddTest lt' rt' x = fwdAddTest lt' rt' p) ∧
    (∀ lt' rt', lt ≤ lt' → rt < rt' → fwdResTest lt' rt' x = fwdResTest lt' rt' p) := by
  refine ⟨fun c => hEquiv_zero (h.addH c), fun c => hEquiv_zero (h.rmvH c), ?_, ?_, ?_⟩
  · intro lt' rt' hl hr
    apply bool_eq_of_iff
    unfold removable
    simp only [Bool.and_eq_true, Bool.not_eq_true', bne_iff_ne, ne_eq, decide_eq_true_eq, h.isAdd, ge_iff_le]
    have z1 := hEquiv_zero h.rmvR
    have z2 := hEquiv_zero h.rmvL
    have l1 := hEquiv_le hr h.rmvR
    have l2 := hEquiv_le hl h.rmvL
    constructor
    · rintro ⟨⟨⟨⟨a, b⟩, c⟩, d⟩, e⟩
      exact ⟨⟨⟨⟨a, fun q => b (z1.mpr q)⟩, fun q => c (z2.mpr q)⟩, l1.mp d⟩, l2.mp e⟩
    · rintro ⟨⟨⟨⟨a, b⟩, c⟩, d⟩, e⟩
      exact ⟨⟨⟨⟨a, fun q => b (z1.mp q)⟩, fun q => c (z2.mp q)⟩, l1.mpr d⟩, l2.mpr e⟩
  · intro lt' rt' hl hr
    apply bool_eq_of_iff
    unfold fwdAddTest
    simp only [Bool.and_eq_true, bne_iff_ne, ne_eq, beq_iff_eq, decide_eq_true_eq, h.isAdd]
    have z1 := hEquiv_zero h.addR
    have z2 := hEquiv_zero h.addL
    have e1 := hEquiv_eq hr h.addR
    have l2 := hEquiv_le hl h.addL
    constructor
    · rintro ⟨⟨⟨⟨a, b⟩, c⟩, d⟩, e⟩
      exact ⟨⟨⟨⟨a, fun q => b (z1.mpr q)⟩, fun q => c (z2.mpr q)⟩, e1.mp d⟩, l2.mp e⟩
    · rintro ⟨⟨⟨⟨a, b⟩, c⟩, d⟩, e⟩
      exact ⟨⟨⟨⟨a, fun q => b (z1.mp q)⟩, fun q => c (z2.mp q)⟩, e1.mpr d⟩, l2.mpr e⟩
  · intro lt' rt' hl hr
    apply bool_eq_of_iff
    unfold fwdResTest
    simp only [Bool.and_eq_true, bne_iff_ne, ne_eq, beq_iff_eq, decide_eq_true_eq, h.isRes]
    have z1 := hEquiv_zero h.rmvR
    have z2 := hEquiv_zero h.rmvL
    have e1 := hEquiv_eq hr h.rmvR
    have l2 := hEquiv_le hl h.rmvL
    constructor
    · rintro ⟨⟨⟨⟨a, b⟩, c⟩, d⟩, e⟩
      exact ⟨⟨⟨⟨a, fun q => b (z1.mpr q)⟩, fun q => c (z2.mpr q)⟩, e1.mp d⟩, l2.mp e⟩
    · rintro ⟨⟨⟨⟨a, b⟩, c⟩, d⟩, e⟩
      exact ⟨⟨⟨⟨a, fun q => b (z1.mp q)⟩, fun q => c (z2.mp q)⟩, e1.mpr d⟩, l2.mpr e⟩

/-! ### logs -/

structure LEq (lt rt : Nat) (a b : List Entry) : Prop where
  len : a.length = b.length
  fwd : ∀ x ∈ a, ∃ p ∈ b, entryKey p = entryKey x ∧ EEq lt rt x p
  bwd : ∀ p ∈ b, ∃ x ∈ a, entryKey p = entryKey x

theorem logEquiv_iff (lt rt : Nat) (a b : List Entry) : logEquiv lt rt a b = true ↔ LEq lt rt a b := by
  unfold logEquiv
  simp only [Bool.and_eq_true, beq_iff_eq, List.all_eq_true, List.any_eq_true, eEquiv_iff]
  constructor
  · rintro ⟨⟨h1, h2⟩, h3⟩
    exact ⟨h1, h2, h3⟩
  · intro h
    exact ⟨⟨h.len, h.fwd⟩, h.bwd⟩

theorem entryKey_commitAt (c : Chain) (k : Nat) (e : Entry) : entryKey (e.commitAt c k) = entryKey e := by
  unfold Entry.commitAt
  cases hty : e.ty <;> simp only <;> (try split) <;> cases c <;>
    simp [entryKey, Entry.isAdd, Entry.setAdd, Entry.setRmv, hty]

/-- the log mutation of one commitment-creating call: every covered update not yet on chain `c`
    gets the new height. -/
def commitStep (c : Chain) (k idx : Nat) (e : Entry) : Entry := if e.logIndex < idx then e.commitAt c k else e

theorem commitLog_eq (c : Chain) (k idx : Nat) (es : List Entry) : commitLog c k idx es = es.map (commitStep c k idx) := rfl

/-- **Sign / ReceiveNewCommitment keep the logs related**: setting the commit heights of all
    covered, not yet committed updates (`commitLog`, the log half of `fetchCommitmentView`) maps
    `≈`-related logs to `≈`-related logs. -/
theorem LEq.commitLog {lt rt : Nat} {a b : List Entry} (h : LEq lt rt a b) (c : Chain) (k idx : Nat) :
    LEq lt rt (commitLog c k idx a) (commitLog c k idx b) := by
  rw [commitLog_eq, commitLog_eq]
  have hstep : ∀ x p, EEq lt rt x p → EEq lt rt (commitStep c k idx x) (commitStep c k idx p) := by
    intro x p hxp
    unfold commitStep
    rw [hxp.logIndex]
    split
    · exact hxp.commitAt c k
    · exact hxp
  have hkey : ∀ e, entryKey (commitStep c k idx e) = entryKey e := by
    intro e; unfold commitStep; split
    · exact entryKey_commitAt c k e
    · rfl
  refine ⟨by simp [h.len], ?_, ?_⟩
  · intro x' hx'
    obtain ⟨x, hx, rfl⟩ := List.mem_map.mp hx'
    obtain ⟨p, hp, hk, he⟩ := h.fwd x hx
    exact ⟨_, List.mem_map.mpr ⟨p, hp, rfl⟩, by rw [hkey, hkey, hk], hstep x p he⟩
  · intro p' hp'
    obtain ⟨p, hp, rfl⟩ := List.mem_map.mp hp'
    obtain ⟨x, hx, hk⟩ := h.bwd p hp
    exact ⟨_, List.mem_map.mpr ⟨x, hx, rfl⟩, by rw [hkey, hkey, hk]⟩

/-- **Revoke / ReceiveRevocation keep the logs related**: advancing either chain tail. -/
theorem LEq.mono {lt rt lt' rt' : Nat} {a b : List Entry} (h : LEq lt rt a b) (hl : lt ≤ lt') (hr : rt ≤ rt') :
    LEq lt' rt' a b :=
  ⟨h.len, fun x hx => by
      obtain ⟨p, hp, hk, he⟩ := h.fwd x hx
      exact ⟨p, hp, hk, he.mono hl hr⟩, h.bwd⟩

end LndModel.C02
