/-
C02 — round-trip theorems for the persisted channel structures (`Codec.lean`):
what `fetchChanCommitment` / `deserializeCommitDiff` / `deserializeLogUpdates` /
`deserializeLogUpdate` read from the bytes that `putChanCommitment` / `serializeCommitDiff` /
`serializeLogUpdates` / `serializeLogUpdate` wrote is exactly the value that was written — for
EVERY value within the explicit representation bounds (`…OK`: field widths, the uint16 counts and
message length, the 66000-byte var-bytes limit of the reader, sorted TLV records).  The bounds are
necessary: the examples at the end show values just outside them that do not survive the disk.
-/
import LndModel.C02.CodecTx

namespace LndModel.C02.Codec

/-! ## HTLCs -/

structure HtlcOK (h : Htlc) : Prop where
  sig : h.sig.length ≤ maxVarBytes
  rhash : h.rhash.length = 32
  amt : h.amt < 2 ^ 64
  refund : h.refundTimeout < 2 ^ 32
  outLo : -2147483648 ≤ h.outputIndex
  outHi : h.outputIndex < 2147483648
  onion : h.onion.length = onionSize
  blob : onionSize + (encTlv (htlcRecs h.blinding h.custom)).length ≤ maxVarBytes
  blinding : ∀ p, h.blinding = some p → p.length = 33
  custom : ∀ r ∈ h.custom, minCustomType ≤ r.1
  recs : RecsOK (some maxRecordSize) 0 (htlcRecs h.blinding h.custom)
  htlcIndex : h.htlcIndex < 2 ^ 64
  logIndex : h.logIndex < 2 ^ 64

theorem splitHtlcRecs_enc (bl : Option Bytes) (cu : List Rec) (hb : ∀ p, bl = some p → p.length = 33)
    (hc : ∀ r ∈ cu, minCustomType ≤ r.1) : splitHtlcRecs (htlcRecs bl cu) = some (bl, cu) := by
  have hany : cu.any (fun r => decide (r.1 < minCustomType)) = false := by
    rw [List.any_eq_false]
    intro r hr
    have := hc r hr
    simp; omega
  cases bl with
  | some p =>
    have hp := hb p rfl
    simp [splitHtlcRecs, htlcRecs, hp, hany]
  | none =>
    cases cu with
    | nil => simp [splitHtlcRecs, htlcRecs]
    | cons r rs =>
      obtain ⟨t, v⟩ := r
      cases t with
      | zero => have := hc (0, v) (by simp); simp [minCustomType] at this
      | succ t' =>
        simp only [htlcRecs, List.nil_append, splitHtlcRecs]
        simp only [Bool.false_eq_true, if_false]
        rw [hany]
        simp

theorem maxVarBytes_lt : maxVarBytes < 2 ^ 64 := by decide

theorem rdHtlc_enc (h : Htlc) (r : Bytes) (ok : HtlcOK h) : rdHtlc (encHtlc h ++ r) = some (h, r) := by
  have h1 : ∀ r', rdVarBytes maxVarBytes (varBytes h.sig ++ r') = some (h.sig, r') :=
    fun r' => rdVarBytes_enc _ _ _ ok.sig (by have := ok.sig; have := maxVarBytes_lt; omega)
  have h2 : ∀ r', rdFixed 32 (h.rhash ++ r') = some (h.rhash, r') := fun r' => rdFixed_append _ _ _ ok.rhash
  have h3 : ∀ r', rdBE 8 (be 8 h.amt ++ r') = some (h.amt, r') := fun r' => rdBE_be 8 _ _ (by have := ok.amt; simpa using this)
  have h4 : ∀ r', rdBE 4 (be 4 h.refundTimeout ++ r') = some (h.refundTimeout, r') :=
    fun r' => rdBE_be 4 _ _ (by have := ok.refund; simpa using this)
  have h5 : ∀ r', rdI32 (encI32 h.outputIndex ++ r') = some (h.outputIndex, r') := fun r' => rdI32_enc _ _ ok.outLo ok.outHi
  have h6 : ∀ r', rdBool (encBool h.incoming ++ r') = some (h.incoming, r') := fun r' => rdBool_enc _ _
  have hlen : (h.onion ++ encTlv (htlcRecs h.blinding h.custom)).length ≤ maxVarBytes := by
    rw [List.length_append, ok.onion]; exact ok.blob
  have h7 : ∀ r', rdVarBytes maxVarBytes (varBytes (h.onion ++ encTlv (htlcRecs h.blinding h.custom)) ++ r') =
      some (h.onion ++ encTlv (htlcRecs h.blinding h.custom), r') :=
    fun r' => rdVarBytes_enc _ _ _ hlen (by have := maxVarBytes_lt; omega)
  have h8 : ∀ r', rdBE 8 (be 8 h.htlcIndex ++ r') = some (h.htlcIndex, r') := fun r' => rdBE_be 8 _ _ (by have := ok.htlcIndex; simpa using this)
  have h9 : ∀ r', rdBE 8 (be 8 h.logIndex ++ r') = some (h.logIndex, r') := fun r' => rdBE_be 8 _ _ (by have := ok.logIndex; simpa using this)
  have hnl : ¬ (h.onion ++ encTlv (htlcRecs h.blinding h.custom)).length < onionSize := by
    rw [List.length_append, ok.onion]; omega
  have hdrop : (h.onion ++ encTlv (htlcRecs h.blinding h.custom)).drop onionSize = encTlv (htlcRecs h.blinding h.custom) :=
    List.drop_left' ok.onion
  have htake : (h.onion ++ encTlv (htlcRecs h.blinding h.custom)).take onionSize = h.onion := List.take_left' ok.onion
  have hdec := decTlv_enc (some maxRecordSize) _ ok.recs
  have hsplit := splitHtlcRecs_enc h.blinding h.custom ok.blinding ok.custom
  simp only [rdHtlc, encHtlc, List.append_assoc, h1, h2, h3, h4, h5, h6]
  rw [h7]
  simp only [h8, h9, hnl, if_false, hdrop, htake, hdec, hsplit]

theorem rdHtlcs_enc (hs : List Htlc) (r : Bytes) (hn : hs.length < 65536) (ok : ∀ h ∈ hs, HtlcOK h) :
    rdHtlcs (encHtlcs hs ++ r) = some (hs, r) := by
  unfold rdHtlcs encHtlcs
  rw [Nat.mod_eq_of_lt hn, List.append_assoc, rdBE_be 2 _ _ (by simpa using hn)]
  exact decN_encList _ _ _ _ (fun a ha r' => rdHtlc_enc a r' (ok a ha))

/-! ## ChannelCommitment -/

structure CommitOK (c : Commit) : Prop where
  height : c.height < 2 ^ 64
  lli : c.localLogIndex < 2 ^ 64
  lhi : c.localHtlcIndex < 2 ^ 64
  rli : c.remoteLogIndex < 2 ^ 64
  rhi : c.remoteHtlcIndex < 2 ^ 64
  lb : c.localBalance < 2 ^ 64
  rb : c.remoteBalance < 2 ^ 64
  fee : c.commitFee < 2 ^ 64
  feePerKw : c.feePerKw < 2 ^ 64
  tx : TxOK c.tx
  sig : c.sig.length ≤ maxVarBytes
  nHtlcs : c.htlcs.length < 65536
  htlcs : ∀ h ∈ c.htlcs, HtlcOK h
  blob : ∀ b, c.customBlob = some b → b.length < 2 ^ 64

theorem u64 {v : Nat} (h : v < 2 ^ 64) : v < 256 ^ 8 := by simpa using h

theorem rdCommitCore_enc (c : Commit) (r : Bytes) (ok : CommitOK c) :
    rdCommitCore (encCommitCore c ++ r) = some ({ c with customBlob := none }, r) := by
  have b := fun (v : Nat) (hv : v < 2 ^ 64) (r' : Bytes) => rdBE_be 8 v r' (u64 hv)
  have htx : ∀ r', rdTx (encTx c.tx ++ r') = some (c.tx, r') := fun r' => tx_roundtrip_rest _ _ ok.tx
  have hsig : ∀ r', rdVarBytes maxVarBytes (varBytes c.sig ++ r') = some (c.sig, r') :=
    fun r' => rdVarBytes_enc _ _ _ ok.sig (by have := ok.sig; have := maxVarBytes_lt; omega)
  have hh : ∀ r', rdHtlcs (encHtlcs c.htlcs ++ r') = some (c.htlcs, r') := fun r' => rdHtlcs_enc _ _ ok.nHtlcs ok.htlcs
  simp only [rdCommitCore, encCommitCore, List.append_assoc, b _ ok.height, b _ ok.lli, b _ ok.lhi, b _ ok.rli,
    b _ ok.rhi, b _ ok.lb, b _ ok.rb, b _ ok.fee, b _ ok.feePerKw, htx, hsig, hh]

theorem decAux_enc (blob : Option Bytes) (h : ∀ b, blob = some b → b.length < 2 ^ 64) :
    decAux (encAux blob) = some blob := by
  cases blob with
  | none => simp [decAux, encAux, encTlv, encList, decTlv, decTlvAux]
  | some b =>
    have hok : RecsOK none 0 [(1, b)] := ⟨by omega, by show (1 : Nat) < 2 ^ 64; decide, h b rfl, rfl, trivial⟩
    simp [decAux, encAux, decTlv_enc none _ hok]

/-- **`fetchChanCommitment ∘ putChanCommitment = id`** on every representable commitment. -/
theorem commit_roundtrip (c : Commit) (ok : CommitOK c) : decCommit (encCommit c) = some c := by
  unfold decCommit encCommit
  rw [rdCommitCore_enc c _ ok]
  simp only [decAux_enc c.customBlob ok.blob]

/-! ## wire messages -/

def MsgOK : WMsg → Prop
  | .add chan id amt hash expiry onion extra =>
    chan.length = 32 ∧ id < 2 ^ 64 ∧ amt < 2 ^ 64 ∧ hash.length = 32 ∧ expiry < 2 ^ 32 ∧ onion.length = onionSize ∧
    RecsOK (some maxRecordSize) 0 extra ∧ knownOK [(0, 33)] extra = true
  | .fulfill chan id pre extra =>
    chan.length = 32 ∧ id < 2 ^ 64 ∧ pre.length = 32 ∧ RecsOK (some maxRecordSize) 0 extra
  | .fail chan id reason _ => chan.length = 32 ∧ id < 2 ^ 64 ∧ reason.length < 65536
  | .malformed chan id sha code _ => chan.length = 32 ∧ id < 2 ^ 64 ∧ sha.length = 32 ∧ code < 65536
  | .fee chan f _ => chan.length = 32 ∧ f < 2 ^ 32
  | .commitSig chan sig hs extra =>
    chan.length = 32 ∧ sig.length = 64 ∧ hs.length < 65536 ∧ (∀ s ∈ hs, s.length = 64) ∧
    RecsOK (some maxRecordSize) 0 extra ∧ knownOK [(2, 98)] extra = true

theorem decWire_enc (m : WMsg) (ok : MsgOK m) : decWire (encWire m) = some m := by
  have ty : ∀ (t : Nat) (r' : Bytes), t < 65536 → rdBE 2 (be 2 t ++ r') = some (t, r') :=
    fun t r' ht => rdBE_be 2 t r' (by simpa using ht)
  have fx : ∀ (n : Nat) (b r' : Bytes), b.length = n → rdFixed n (b ++ r') = some (b, r') :=
    fun n b r' hb => rdFixed_append n b r' hb
  have b8 : ∀ (v : Nat) (r' : Bytes), v < 2 ^ 64 → rdBE 8 (be 8 v ++ r') = some (v, r') := fun v r' hv => rdBE_be 8 v r' (u64 hv)
  have b4 : ∀ (v : Nat) (r' : Bytes), v < 2 ^ 32 → rdBE 4 (be 4 v ++ r') = some (v, r') :=
    fun v r' hv => rdBE_be 4 v r' (by simpa using hv)
  cases m with
  | add chan id amt hash expiry onion extra =>
    obtain ⟨h1, h2, h3, h4, h5, h6, h7, h8⟩ := ok
    simp only [encWire, WMsg.type, WMsg.payload, decWire, List.append_assoc, ty 128 _ (by decide), fx 32 chan _ h1,
      b8 id _ h2, b8 amt _ h3, fx 32 hash _ h4, b4 expiry _ h5, fx onionSize onion _ h6, decTlv_enc _ _ h7, h8,
      beq_self_eq_true, if_true]
  | fulfill chan id pre extra =>
    obtain ⟨h1, h2, h3, h4⟩ := ok
    simp only [encWire, WMsg.type, WMsg.payload, decWire, List.append_assoc, ty 130 _ (by decide), fx 32 chan _ h1,
      b8 id _ h2, fx 32 pre _ h3, decTlv_enc _ _ h4, beq_self_eq_true, if_true]
    simp
  | fail chan id reason extra =>
    obtain ⟨h1, h2, h3⟩ := ok
    simp only [encWire, WMsg.type, WMsg.payload, decWire, List.append_assoc, ty 131 _ (by decide), fx 32 chan _ h1,
      b8 id _ h2, Nat.mod_eq_of_lt h3, ty reason.length _ h3, fx reason.length reason _ rfl]
    simp
  | malformed chan id sha code extra =>
    obtain ⟨h1, h2, h3, h4⟩ := ok
    simp only [encWire, WMsg.type, WMsg.payload, decWire, List.append_assoc, ty 135 _ (by decide), fx 32 chan _ h1,
      b8 id _ h2, fx 32 sha _ h3, ty code _ h4]
    simp
  | fee chan f extra =>
    obtain ⟨h1, h2⟩ := ok
    simp only [encWire, WMsg.type, WMsg.payload, decWire, List.append_assoc, ty 134 _ (by decide), fx 32 chan _ h1,
      b4 f _ h2]
    simp
  | commitSig chan sig hs extra =>
    obtain ⟨h1, h2, h3, h4, h5, h6⟩ := ok
    have hsigs : ∀ r', decN (rdFixed 64) hs.length (encList id hs ++ r') = some (hs, r') :=
      fun r' => decN_encList _ _ _ _ (fun a ha r'' => by simpa using fx 64 a r'' (h4 a ha))
    simp only [encWire, WMsg.type, WMsg.payload, decWire, List.append_assoc, ty 132 _ (by decide), fx 32 chan _ h1,
      fx 64 sig _ h2, Nat.mod_eq_of_lt h3, ty hs.length _ h3, hsigs, decTlv_enc _ _ h5, h6]
    simp

/-- a message the database can hold: well-formed and at most 65535 bytes on the wire (the length
    prefix is `uint16(len)`). -/
def StoredMsgOK (m : WMsg) : Prop := MsgOK m ∧ (encWire m).length < 65536

theorem rdMsg_enc (m : WMsg) (r : Bytes) (ok : StoredMsgOK m) : rdMsg (encMsg m ++ r) = some (m, r) := by
  unfold rdMsg encMsg
  rw [Nat.mod_eq_of_lt ok.2, List.append_assoc, rdBE_be 2 _ _ (by simpa using ok.2)]
  simp only [List.take_left' rfl, List.drop_left' rfl, decWire_enc m ok.1]

/-! ## LogUpdate(s), circuit keys, CommitDiff -/

structure LogUpdOK (u : LogUpd) : Prop where
  logIndex : u.logIndex < 2 ^ 64
  msg : StoredMsgOK u.msg

theorem rdLogUpd_enc (u : LogUpd) (r : Bytes) (ok : LogUpdOK u) : rdLogUpd (encLogUpd u ++ r) = some (u, r) := by
  unfold rdLogUpd encLogUpd
  rw [List.append_assoc, rdBE_be 8 _ _ (u64 ok.logIndex)]
  simp only [rdMsg_enc u.msg r ok.msg]

theorem rdLogUpds_enc (us : List LogUpd) (r : Bytes) (hn : us.length < 65536) (ok : ∀ u ∈ us, LogUpdOK u) :
    rdLogUpds (encLogUpds us ++ r) = some (us, r) := by
  unfold rdLogUpds encLogUpds
  rw [Nat.mod_eq_of_lt hn, List.append_assoc, rdBE_be 2 _ _ (by simpa using hn)]
  exact decN_encList _ _ _ _ (fun a ha r' => rdLogUpd_enc a r' (ok a ha))

/-- **forwarding-package buckets**: a stored update is read back unchanged. -/
theorem logupdate_roundtrip (u : LogUpd) (ok : LogUpdOK u) : decLogUpd (encLogUpd u) = some u := by
  have := rdLogUpd_enc u [] ok
  simp only [List.append_nil] at this
  simp [decLogUpd, this]

/-- **unsignedAckedUpdatesKey / remoteUnsignedLocalUpdatesKey**: the list is read back unchanged
    (same updates, same order, same log indices). -/
theorem logupdates_roundtrip (us : List LogUpd) (hn : us.length < 65536) (ok : ∀ u ∈ us, LogUpdOK u) :
    decLogUpds (encLogUpds us) = some us := by
  have := rdLogUpds_enc us [] hn ok
  simp only [List.append_nil] at this
  simp [decLogUpds, this]

theorem rdCKeys_enc (ks : List CKey) (r : Bytes) (hn : ks.length < 65536) (ok : ∀ k ∈ ks, k.1 < 2 ^ 64 ∧ k.2 < 2 ^ 64) :
    rdCKeys (encCKeys ks ++ r) = some (ks, r) := by
  unfold rdCKeys encCKeys
  rw [Nat.mod_eq_of_lt hn, List.append_assoc, rdBE_be 2 _ _ (by simpa using hn)]
  refine decN_encList _ _ _ _ (fun a ha r' => ?_)
  have h := ok a ha
  simp only [rdCKey, encCKey, List.append_assoc, rdBE_be 8 _ _ (u64 h.1), rdBE_be 8 _ _ (u64 h.2)]

structure DiffOK (d : CommitDiff) : Prop where
  commit : CommitOK d.commit
  isSig : d.commitSig.type = 132
  sig : StoredMsgOK d.commitSig
  nUpd : d.updates.length < 65536
  updates : ∀ u ∈ d.updates, LogUpdOK u
  nOpened : d.opened.length < 65536
  opened : ∀ k ∈ d.opened, k.1 < 2 ^ 64 ∧ k.2 < 2 ^ 64
  nClosed : d.closed.length < 65536
  closed : ∀ k ∈ d.closed, k.1 < 2 ^ 64 ∧ k.2 < 2 ^ 64

theorem restoreBlob (c : Commit) : { ({ c with customBlob := none } : Commit) with customBlob := c.customBlob } = c := by
  cases c; rfl

/-- **`deserializeCommitDiff ∘ serializeCommitDiff = id`**: the pending remote commitment with its
    signature message, the log updates it covers (in order), both circuit-key lists and the aux blob. -/
theorem commitdiff_roundtrip (d : CommitDiff) (ok : DiffOK d) : decDiff (encDiff d) = some d := by
  obtain ⟨c, m, us, op, cl⟩ := d
  have hc := fun r' => rdCommitCore_enc c r' ok.commit
  have hm := fun r' => rdMsg_enc m r' ok.sig
  have hu := fun r' => rdLogUpds_enc us r' ok.nUpd ok.updates
  have ho := fun r' => rdCKeys_enc op r' ok.nOpened ok.opened
  have hx := fun r' => rdCKeys_enc cl r' ok.nClosed ok.closed
  have ha := decAux_enc c.customBlob ok.commit.blob
  have ht := ok.isSig
  cases m with
  | commitSig chan sig hs extra =>
    simp only [decDiff, encDiff, List.append_assoc, hc, hm, hu, ho, hx, ha]
  | add => simp [WMsg.type] at ht
  | fulfill => simp [WMsg.type] at ht
  | fail => simp [WMsg.type] at ht
  | malformed => simp [WMsg.type] at ht
  | fee => simp [WMsg.type] at ht

/-- the whole transaction of a commitment survives the disk. -/
theorem tx_roundtrip (t : Tx) (ok : TxOK t) : (rdTx (encTx t)).map Prod.fst = some t := by
  have := tx_roundtrip_rest t [] ok
  simp only [List.append_nil] at this
  simp [this]

/-! ## the hypotheses are satisfiable; the bounds are needed -/

def sampleTx : Tx :=
  { version := 2, lock := 543210,
    ins := [{ hash := List.replicate 32 7, index := 1, script := [], seq := 2147483648, witness := [] }],
    outs := [{ value := 330, pk := List.replicate 34 1 }, { value := 99000, pk := List.replicate 22 2 }] }

def sampleHtlc : Htlc :=
  { sig := List.replicate 71 48, rhash := List.replicate 32 9, amt := 1500000, refundTimeout := 800144,
    outputIndex := -1, incoming := true, onion := List.replicate onionSize 0,
    blinding := some (2 :: List.replicate 32 5), custom := [(65537, [1, 2, 3])], htlcIndex := 4, logIndex := 6 }

def sampleCommit : Commit :=
  { height := 7, localLogIndex := 9, localHtlcIndex := 5, remoteLogIndex := 8, remoteHtlcIndex := 4,
    localBalance := 4000000000, remoteBalance := 5998500000, commitFee := 9050, feePerKw := 2500,
    tx := sampleTx, sig := List.replicate 71 48, htlcs := [sampleHtlc], customBlob := some [4, 5, 6] }

theorem sampleTx_ok : TxOK sampleTx := by
  refine ⟨by decide, by decide, by decide, by decide, by decide, ?_, ?_⟩
  · intro i hi
    simp only [sampleTx, List.mem_singleton] at hi
    subst hi
    exact ⟨by simp, by decide, by decide, by decide, by decide, by simp⟩
  · intro o ho
    simp only [sampleTx, List.mem_cons, List.not_mem_nil, or_false] at ho
    rcases ho with rfl | rfl
    · exact ⟨by decide, by simp [maxScript]⟩
    · exact ⟨by decide, by simp [maxScript]⟩

theorem sampleHtlc_ok : HtlcOK sampleHtlc := by
  refine ⟨by decide, by decide, by decide, by decide, by decide, by decide, by simp [sampleHtlc], ?_, ?_, ?_, ?_,
    by decide, by decide⟩
  · show onionSize + (encTlv [(0, 2 :: List.replicate 32 5), (65537, [1, 2, 3])]).length ≤ maxVarBytes
    decide
  · intro p hp
    simp only [sampleHtlc, Option.some.injEq] at hp
    subst hp
    simp
  · intro r hr
    simp only [sampleHtlc, List.mem_singleton] at hr
    subst hr
    decide
  · show RecsOK (some maxRecordSize) 0 [(0, 2 :: List.replicate 32 5), (65537, [1, 2, 3])]
    exact ⟨by decide, by decide, by simp, by simp [overCap, maxRecordSize], by decide, by decide, by decide,
      by simp [overCap, maxRecordSize], trivial⟩

theorem sampleCommit_ok : CommitOK sampleCommit := by
  refine ⟨by decide, by decide, by decide, by decide, by decide, by decide, by decide, by decide, by decide,
    sampleTx_ok, by decide, by decide, ?_, ?_⟩
  · intro h hh
    simp only [sampleCommit, List.mem_singleton] at hh
    subst hh
    exact sampleHtlc_ok
  · intro b hb
    simp only [sampleCommit, Option.some.injEq] at hb
    subst hb
    decide

/-- non-vacuity: a commitment with a blinded HTLC carrying a custom record and an aux blob. -/
example : decCommit (encCommit sampleCommit) = some sampleCommit := commit_roundtrip _ sampleCommit_ok

def sampleDiff : CommitDiff :=
  { commit := sampleCommit,
    commitSig := .commitSig (List.replicate 32 3) (List.replicate 64 4) [List.replicate 64 5] [],
    updates := [⟨6, .fee (List.replicate 32 3) 2500 []⟩, ⟨7, .fulfill (List.replicate 32 3) 4 (List.replicate 32 8) []⟩],
    opened := [(123456, 4)], closed := [] }

set_option maxRecDepth 8192 in
theorem sampleDiff_ok : DiffOK sampleDiff := by
  refine ⟨sampleCommit_ok, rfl, ⟨⟨by simp, by simp, by decide, ?_, trivial, rfl⟩, by decide⟩,
    by decide, ?_, by decide, ?_, by decide, ?_⟩
  · intro s hs
    simp only [List.mem_singleton] at hs
    subst hs
    simp
  · intro u hu
    simp only [sampleDiff, List.mem_cons, List.not_mem_nil, or_false] at hu
    rcases hu with rfl | rfl
    · exact ⟨by decide, ⟨by simp, by decide⟩, by decide⟩
    · exact ⟨by decide, ⟨by simp, by decide, by simp, trivial⟩, by decide⟩
  · intro k hk
    simp only [sampleDiff, List.mem_singleton] at hk
    subst hk
    exact ⟨by decide, by decide⟩
  · intro k hk
    simp [sampleDiff] at hk

example : decDiff (encDiff sampleDiff) = some sampleDiff := commitdiff_roundtrip _ sampleDiff_ok

/-- a transaction without inputs does not survive `Serialize` / `Deserialize` (its zero input
    count is read as the segwit marker): `TxOK.hasIn` is needed. -/
example : rdTx (encTx { version := 2, ins := [], outs := [], lock := 0 }) = none := by
  simp [rdTx, encTx, Tx.hasWitness, encList, le, cs, rdLE, rdFixed, fromLE, rdCS]

/-- the counts are written as `uint16(len)`: a list of 65536 entries is stored with count 0 —
    the `< 65536` bounds are needed. -/
example : be 2 ((List.replicate 65536 (1 : Nat)).length % 65536) = be 2 0 := by rw [List.length_replicate]

/-! ## revocation state -/

structure RevStateOK (s : RevState) : Prop where
  cur : s.cur.length = 33
  root : s.root.length = 32
  nBuckets : s.buckets.length ≤ maxBuckets
  buckets : ∀ b ∈ s.buckets, b.1 < 2 ^ 64 ∧ b.2.length = 32
  storeIndex : s.storeIndex < 2 ^ 64
  next : ∀ p, s.next = some p → p.length = 33

/-- **`fetchChanRevocationState ∘ putChanRevocationState = id`**: the peer's current and next
    commitment points, our producer root and the whole store of received secrets survive the disk;
    "no next point yet" stays "no next point". -/
theorem revstate_roundtrip (s : RevState) (ok : RevStateOK s) : decRevState (encRevState s) = some s := by
  obtain ⟨cur, root, bk, si, nx⟩ := s
  have h1 : ∀ r', rdFixed 33 (cur ++ r') = some (cur, r') := fun r' => rdFixed_append _ _ _ ok.cur
  have h2 : ∀ r', rdFixed 32 (root ++ r') = some (root, r') := fun r' => rdFixed_append _ _ _ ok.root
  have hn : bk.length < 256 := by have := ok.nBuckets; simp only [maxBuckets] at this; omega
  have h3 : ∀ r', rdBE 1 (be 1 bk.length ++ r') = some (bk.length, r') := fun r' => rdBE_be 1 _ _ (by simpa using hn)
  have h4 : ∀ r', decN rdBucket bk.length (encList encBucket bk ++ r') = some (bk, r') := by
    intro r'
    refine decN_encList _ _ _ _ (fun b hb r'' => ?_)
    have hb' := ok.buckets b hb
    simp only [rdBucket, encBucket, List.append_assoc, rdBE_be 8 _ _ (u64 hb'.1), rdFixed_append 32 _ _ hb'.2]
  have h5 : ∀ r', rdBE 8 (be 8 si ++ r') = some (si, r') := fun r' => rdBE_be 8 _ _ (u64 ok.storeIndex)
  have hle : ¬ bk.length > maxBuckets := by have := ok.nBuckets; simp only at this; omega
  cases nx with
  | none =>
    have h5' : rdBE 8 (be 8 si) = some (si, []) := by simpa using h5 []
    simp only [decRevState, encRevState, Nat.mod_eq_of_lt hn, List.append_assoc, h1, h2, h3, h4, h5', hle, if_false,
      List.append_nil]
  | some p =>
    have hp := ok.next p rfl
    cases hpc : p with
    | nil => rw [hpc] at hp; simp at hp
    | cons x xs =>
      have h6 : rdFixed 33 (x :: xs) = some (x :: xs, []) := by
        have := rdFixed_append 33 (x :: xs) [] (by rw [← hpc]; exact hp)
        simpa using this
      simp only [decRevState, encRevState, Nat.mod_eq_of_lt hn, List.append_assoc, h1, h2, h3, h4, h5, hle, if_false,
        List.append_nil, h6]

def sampleRev : RevState :=
  { cur := List.replicate 33 2, root := List.replicate 32 1, buckets := [(281474976710655, List.replicate 32 9)],
    storeIndex := 281474976710654, next := none }

example : RevStateOK sampleRev :=
  ⟨by simp [sampleRev], by simp [sampleRev], by decide,
   by intro b hb; simp only [sampleRev, List.mem_singleton] at hb; subst hb; exact ⟨by decide, by simp⟩,
   by decide, by intro p hp; simp [sampleRev] at hp⟩

/-! ## the on-disk format is unambiguous -/

/-- two different representable commitments never share a stored value. -/
theorem commit_encoding_injective (a b : Commit) (ha : CommitOK a) (hb : CommitOK b) (h : encCommit a = encCommit b) :
    a = b := by
  have h1 := commit_roundtrip a ha
  rw [h, commit_roundtrip b hb] at h1
  exact (Option.some.inj h1).symm

theorem commitdiff_encoding_injective (a b : CommitDiff) (ha : DiffOK a) (hb : DiffOK b) (h : encDiff a = encDiff b) :
    a = b := by
  have h1 := commitdiff_roundtrip a ha
  rw [h, commitdiff_roundtrip b hb] at h1
  exact (Option.some.inj h1).symm

theorem logupdates_encoding_injective (a b : List LogUpd) (na : a.length < 65536) (nb : b.length < 65536)
    (ha : ∀ u ∈ a, LogUpdOK u) (hb : ∀ u ∈ b, LogUpdOK u) (h : encLogUpds a = encLogUpds b) : a = b := by
  have h1 := logupdates_roundtrip a na ha
  rw [h, logupdates_roundtrip b nb hb] at h1
  exact (Option.some.inj h1).symm

theorem revstate_encoding_injective (a b : RevState) (ha : RevStateOK a) (hb : RevStateOK b)
    (h : encRevState a = encRevState b) : a = b := by
  have h1 := revstate_roundtrip a ha
  rw [h, revstate_roundtrip b hb] at h1
  exact (Option.some.inj h1).symm

end LndModel.C02.Codec
