/-
C02 — which failures of `restore` (NewLightningChannel) are reachable at all.

`DiskUp` is an inductive invariant of the durable state alone (a crash does not change the
database): the remote-unsigned-local updates never contain an add, and every unsigned-acked update
lies below the remote log index of the durable local commitment.  Hence over ALL runs — crashes,
restarts, arbitrary peer revocations included — `restore` can never fail with "unknown message
type" (`restorePeerLocalUpdates`) nor with "attempted to restore an unsigned remote update"
(`restorePendingRemoteUpdates`).
-/
import LndModel.C02.Model
set_option linter.unusedSimpArgs false
set_option linter.unusedVariables false

namespace LndModel.C02
open LndModel.C01

structure DiskUp (d : Disk) : Prop where
  rulNoAdd : ∀ u ∈ d.rul.getD [], u.ty ≠ .add
  uaBelow : ∀ u ∈ d.ua.getD [], u.logIndex < d.lc.cm.theirMsg

theorem toUpd_ty (e : Entry) : (toUpd e).ty = e.ty := by
  unfold toUpd; cases h : e.ty <;> simp [h]

theorem toUpd_logIndex (e : Entry) : (toUpd e).logIndex = e.logIndex := by
  unfold toUpd; cases h : e.ty <;> simp [h]

theorem diskUp_sign {s : St} (h : DiskUp s.disk) : DiskUp s.sign.2.1.disk := by
  unfold St.sign
  simp only
  split
  · exact ⟨h.rulNoAdd, h.uaBelow⟩
  · exact h

theorem diskUp_revokeWrite {s : St} (h : DiskUp s.disk) : DiskUp s.revokeWrite.2.disk := by
  unfold St.revokeWrite
  split
  · exact h
  · refine ⟨?_, ?_⟩
    · intro u hu
      simp only at hu
      cases hr : s.disk.rul with
      | none => simp [hr] at hu
      | some l =>
        simp only [hr, Option.map_some, Option.getD_some, List.mem_filter] at hu
        exact h.rulNoAdd u (by simp [hr, hu.1])
    · intro u hu
      simp only [Option.getD_some, unsignedAcked, List.mem_map, List.mem_filter, Bool.and_eq_true,
        decide_eq_true_eq] at hu
      obtain ⟨e, ⟨_, _, h3⟩, rfl⟩ := hu
      rw [toUpd_logIndex]
      exact h3

theorem diskUp_advance {s : St} (h : DiskUp s.disk) (nx : Sec) : DiskUp (s.advance nx).2.disk := by
  unfold St.advance
  split
  · exact h
  · refine ⟨?_, ?_⟩
    · intro u hu
      simp only [Option.getD_some, unsignedLocal, List.mem_map, List.mem_filter, Bool.and_eq_true,
        Bool.not_eq_true'] at hu
      obtain ⟨e, ⟨_, ⟨hna, _⟩, _⟩, rfl⟩ := hu
      rw [toUpd_ty]
      intro ht
      simp [Entry.isAdd, ht] at hna
    · intro u hu
      simp only at hu
      cases hr : s.disk.ua with
      | none => simp [hr] at hu
      | some l =>
        simp only [hr, Option.map_some, Option.getD_some, List.mem_filter] at hu
        exact h.uaBelow u (by simp [hr, hu.1])

theorem diskUp_apiStep {s : St} (h : DiskUp s.disk) (o : Op) : DiskUp (s.apiStep o).2.disk := by
  unfold St.apiStep
  split
  · exact h
  · split
    · exact diskUp_sign h
    · exact diskUp_revokeWrite h
    · exact diskUp_advance h _
    · exact h

theorem diskUp_step {s : St} (h : DiskUp s.disk) (ev : Ev) : DiskUp (s.step ev).disk := by
  cases ev with
  | op o => exact diskUp_apiStep h o
  | emit => simp only [St.step, St.emit]; split <;> exact h
  | crash =>
    simp only [St.step]
    split
    · rename_i s' hc
      unfold St.crash at hc
      split at hc
      · cases hc
      · simp only [Except.ok.injEq] at hc; subst hc; exact h
    · exact h
  | syncRevoke =>
    simp only [St.step, St.syncRevoke]
    split
    · exact h
    · split <;> exact h
  | recvRevMsg a m =>
    simp only [St.step]
    split
    · exact h
    · unfold St.receiveRevocationMsg
      split
      · exact h
      · split
        · exact h
        · exact diskUp_advance h _

theorem diskUp_run {s : St} (h : DiskUp s.disk) (evs : List Ev) : DiskUp (s.run evs).disk := by
  induction evs generalizing s with
  | nil => exact h
  | cons e r ih => exact ih (diskUp_step h e)

theorem diskUp_init (n : Node) : DiskUp (St.init n).disk :=
  ⟨fun u hu => by simp [St.init] at hu, fun u hu => by simp [St.init] at hu⟩

/-! ### the failure kinds of the three replay loops -/

/-- an accumulator that is fine so far or failed with one of the three structural panics. -/
def Benign (k : Nat) (acc : Except RErr (Log × Log)) : Prop :=
  acc = .error .noParent ∨ acc = .error .logIndexMismatch ∨ acc = .error .htlcIndexMismatch ∨
  ∃ lL lR, acc = .ok (lL, lR) ∧ lR.logIndex = k

theorem benign_rulStep (k rh : Nat) {acc : Except RErr (Log × Log)} (h : Benign k acc) (u : Entry) (hu : u.ty ≠ .add) :
    Benign k (restoreRulStep rh acc u) := by
  rcases h with h | h | h | ⟨lL, lR, h, hk⟩ <;> subst h
  · exact Or.inl rfl
  · exact Or.inr (Or.inl rfl)
  · exact Or.inr (Or.inr (Or.inl rfl))
  · unfold restoreRulStep rulPd
    have h1 : (u.ty == ETy.add) = false := by simpa using hu
    simp only [h1, Bool.false_eq_true, if_false]
    split
    · rename_i e he
      split at he
      · cases he
      · split at he
        · cases he; exact Or.inl rfl
        · cases he
    · rename_i pd hpd
      split
      · exact Or.inr (Or.inr (Or.inr ⟨_, _, rfl, hk⟩))
      · exact Or.inr (Or.inr (Or.inr ⟨_, _, rfl, by simpa [Log.markModified] using hk⟩))

theorem benign_rulFold (k rh : Nat) (us : List Entry) {acc : Except RErr (Log × Log)} (h : Benign k acc)
    (hu : ∀ u ∈ us, u.ty ≠ .add) : Benign k (us.foldl (restoreRulStep rh) acc) := by
  induction us generalizing acc with
  | nil => exact h
  | cons u r ih =>
    exact ih (benign_rulStep k rh h u (hu u List.mem_cons_self)) (fun v hv => hu v (List.mem_cons_of_mem _ hv))

theorem benign_pendStep (k ph : Nat) {acc : Except RErr (Log × Log)} (h : Benign k acc) (u : Entry) :
    Benign k (restorePendStep ph acc u) := by
  rcases h with h | h | h | ⟨lL, lR, h, hk⟩ <;> subst h
  · exact Or.inl rfl
  · exact Or.inr (Or.inl rfl)
  · exact Or.inr (Or.inr (Or.inl rfl))
  · unfold restorePendStep
    simp only
    split
    · rename_i e he
      unfold pendPd at he
      split at he
      · cases he
      · split at he
        · cases he
        · split at he
          · cases he; exact Or.inl rfl
          · cases he
    · rename_i pd hpd
      unfold pendAppend
      split
      · exact Or.inr (Or.inl rfl)
      · split
        · split
          · exact Or.inr (Or.inr (Or.inl rfl))
          · exact Or.inr (Or.inr (Or.inr ⟨_, _, rfl, hk⟩))
        · split
          · exact Or.inr (Or.inr (Or.inr ⟨_, _, rfl, hk⟩))
          · exact Or.inr (Or.inr (Or.inr ⟨_, _, rfl, by simpa [Log.markModified] using hk⟩))

theorem benign_pendFold (k ph : Nat) (us : List Entry) {acc : Except RErr (Log × Log)} (h : Benign k acc) :
    Benign k (us.foldl (restorePendStep ph) acc) := by
  induction us generalizing acc with
  | nil => exact h
  | cons u r ih => exact ih (benign_pendStep k ph h u)

theorem uaPd_logIndex {lh : Nat} {lL : Log} {u pd : Entry} (h : uaPd lh lL u = .ok pd) : pd.logIndex = u.logIndex := by
  unfold uaPd at h
  split at h
  · cases h; rfl
  · split at h
    · cases h; rfl
    · split at h
      · cases h
      · cases h; rfl

theorem benign_uaStep (k lh : Nat) (pend : Option Commit) {acc : Except RErr (Log × Log)} (h : Benign k acc) (u : Entry)
    (hu : u.logIndex < k) : Benign k (restoreUaStep lh pend acc u) := by
  rcases h with h | h | h | ⟨lL, lR, h, hk⟩ <;> subst h
  · exact Or.inl rfl
  · exact Or.inr (Or.inl rfl)
  · exact Or.inr (Or.inr (Or.inl rfl))
  · unfold restoreUaStep
    simp only
    split
    · rename_i e he
      unfold uaPd at he
      split at he
      · cases he
      · split at he
        · cases he
        · split at he
          · cases he; exact Or.inl rfl
          · cases he
    · rename_i pd hpd
      have hi := uaPd_logIndex hpd
      have : ¬ (pd.logIndex ≥ lR.logIndex) := by rw [hi, hk]; omega
      simp only [this, if_false]
      split
      · exact Or.inr (Or.inr (Or.inr ⟨_, _, rfl, hk⟩))
      · split
        · exact Or.inr (Or.inr (Or.inr ⟨_, _, rfl, hk⟩))
        · exact Or.inr (Or.inr (Or.inr ⟨_, _, rfl, hk⟩))

theorem benign_uaFold (k lh : Nat) (pend : Option Commit) (us : List Entry) {acc : Except RErr (Log × Log)}
    (h : Benign k acc) (hu : ∀ u ∈ us, u.logIndex < k) : Benign k (us.foldl (restoreUaStep lh pend) acc) := by
  induction us generalizing acc with
  | nil => exact h
  | cons u r ih =>
    exact ih (benign_uaStep k lh pend h u (hu u List.mem_cons_self)) (fun v hv => hu v (List.mem_cons_of_mem _ hv))

theorem restoreLogs_benign (d : Disk) (h : DiskUp d) : Benign d.lc.cm.theirMsg (restoreLogs d) := by
  unfold restoreLogs
  have h0 : Benign d.lc.cm.theirMsg (.ok (restoreBaseLogs d)) :=
    Or.inr (Or.inr (Or.inr ⟨_, _, rfl, rfl⟩))
  have h1 := benign_rulFold d.lc.cm.theirMsg d.rc.cm.height (d.rul.getD []) h0 h.rulNoAdd
  apply benign_uaFold _ _ _ _ _ h.uaBelow
  cases hp : d.pend with
  | none => exact h1
  | some p => exact benign_pendFold _ _ _ h1

end LndModel.C02
