/-
C02 — property theorems (and the release-rule half of C06).

States are `St` (C01 node + durable state + history of released revocations); a run is any list
of events `Ev`: any API call with any arguments (the revocation of `RevokeCurrentCommitment` is
only *staged* by the call), `emit` (the staged revocation is handed to the caller), `crash`
(memory replaced by `restore disk`; a staged revocation is lost), `syncRevoke` (chan-sync
retransmits the last revocation).  A crash can therefore fall at every point between two durable
writes, in particular between `UpdateCommitment` and the return of the revocation.
-/
import LndModel.C02.Lemmas
import LndModel.C02.Total
import LndModel.C02.RestoreErr
import LndModel.C02.FwdPkgInv
import LndModel.C02.Bisim
import LndModel.C02.TxAtomic
set_option linter.unusedSimpArgs false
set_option linter.unusedVariables false

namespace LndModel.C02
open LndModel.C01

/-- a freshly funded channel: both chains hold the single height-0 commitment. -/
structure Fresh (n : Node) : Prop where
  pendL : n.chainL.pend = []
  pendR : n.chainR.pend = []
  height : n.chainL.tail.height = 0
  heightR : n.chainR.tail.height = 0

/-! ## the release rule (C06) -/

/-- **never_broadcast_revoked** (must, full strength).  For every run of API calls, crashes,
    restarts and chan-sync retransmissions from a fresh channel, at every point — also between the
    durable write and the return of the revocation — the durable local commitment height (what the
    node would broadcast after a reload) is greater than every height whose secret has been
    produced: released (`revoke`, `sync`), staged, or lost in a crash. -/
theorem never_broadcast_revoked (n0 : Node) (h0 : Fresh n0) (evs : List Ev) :
    let s := (St.init n0).run evs
    (∀ h ∈ s.revealed, h < s.disk.lc.cm.height) ∧
    (∀ m ∈ s.trace, m.secret < s.disk.lc.cm.height) ∧
    (∀ m, s.staged = some m → m.secret < s.disk.lc.cm.height) := by
  intro s
  have hI : RelInv s := relInv_run (relInv_init n0 h0.pendL h0.height) evs
  refine ⟨?_, ?_, ?_⟩
  · intro h hh
    simp only [St.revealed, List.mem_map, List.mem_filter] at hh
    obtain ⟨m, ⟨hm, _⟩, rfl⟩ := hh
    rw [hI.disk]; exact hI.below m hm
  · intro m hm; rw [hI.disk]; exact hI.below m hm
  · intro m hm
    obtain ⟨rfl, h1⟩ := hI.staged m hm
    rw [hI.disk]; show s.cur - 1 < s.cur; omega

/-- **secrets_follow_chain** (must, full strength).  In every run from a fresh channel:
    * every revoke_and_ack carries the commitment point of `secret height + 2`;
    * the revocations produced by `RevokeCurrentCommitment` (those handed out, the one still
      staged, and those lost in a crash before being handed out) carry, in order, the secrets of
      heights `0, 1, …, currentHeight − 1`: the k-th carries the secret of height k−1 and the point
      of height k+1, no gaps, no repeats;
    * a chan-sync retransmission carries exactly the last secret produced before it. -/
theorem secrets_follow_chain (n0 : Node) (h0 : Fresh n0) (evs : List Ev) :
    let s := (St.init n0).run evs
    (∀ m ∈ s.trace, m.nextPoint = m.secret + 2) ∧
    ((produced s.trace).map RevMsg.secret ++ s.staged.toList.map RevMsg.secret = List.range s.cur) ∧
    (∀ m, s.staged = some m → m.nextPoint = m.secret + 2) ∧
    (∀ a m b, s.trace = a ++ m :: b → m.src = .sync → m.secret + 1 = (produced a).length) := by
  intro s
  have hI : RelInv s := relInv_run (relInv_init n0 h0.pendL h0.height) evs
  refine ⟨chainTrace_points hI.trace, ?_, ?_, chainTrace_sync hI.trace⟩
  · have hp := chainTrace_produced hI.trace
    cases hs : s.staged with
    | none => simpa [hs] using hp
    | some m =>
      obtain ⟨rfl, h1⟩ := hI.staged m hs
      simp only [hs, Option.toList_some, List.length_singleton] at hp
      rw [hp]
      have e : s.cur = (s.cur - 1) + 1 := by omega
      conv => rhs; rw [e, List.range_succ]
      simp
  · intro m hm
    obtain ⟨rfl, h1⟩ := hI.staged m hm
    show s.cur + 1 = s.cur - 1 + 2; omega

/-! ## rejecting a wrong secret (C06, reject half) -/

/-- states reachable from a fresh channel by ANY events — API calls with any arguments, crashes,
    and `ReceiveRevocation` of ARBITRARY messages under ANY verdict of the revocation store — where
    the only restriction on the peer is `Admissible`: a message revealing the true secret of the
    current remote height also carries the true next commitment point. -/
inductive Reach (n0 : Node) : St → Prop
  | init : Reach n0 (St.init n0)
  | step {s : St} (ev : Ev) : Reach n0 s → Admissible s ev → Reach n0 (s.step ev)

theorem reach_inv {n0 : Node} (h0 : Fresh n0) {s : St} (hr : Reach n0 s) : DiskInv s ∧ PointInv s := by
  induction hr with
  | init =>
    refine ⟨diskInv_init n0 h0.pendR, ?_, ?_, ?_⟩
    · intro c hc; simp [St.init, h0.pendR] at hc
    · show Sec.ofHeight 0 = .ofHeight n0.chainR.tail.height
      rw [h0.heightR]
    · show Sec.ofHeight 1 = .ofHeight (n0.chainR.tail.height + 1)
      rw [h0.heightR]
  | step ev _ ha ih => exact ⟨diskInv_step ih.1 ev, pointInv_step ih.1 ih.2 ev ha⟩

/-- **bogus_revocation_rejected** (must).  In every reachable state, a revoke_and_ack whose secret
    is not the peer's producer secret of the current remote commitment height is rejected
    WHATEVER the revocation store answers (in particular at store indexes without trailing zeros,
    i.e. every even remote height, where `AddNextEntry` accepts any 32 bytes): if the store lets
    it through, the commitment-point comparison `pub(secret) = RemoteCurrentRevocation` fails
    ("revocation key mismatch").  Nothing changes: memory, the remote commitment / chain tail,
    the revocation store size, the revocation log, the forwarding packages and every other
    durable field stay as they were, so the true revocation is still accepted afterwards.
    Rests on the invariant (proved here over all runs) that `RemoteCurrentRevocation` is the
    producer's point of the remote tail height and `RemoteNextRevocation` the next one. -/
theorem bogus_revocation_rejected (n0 : Node) (h0 : Fresh n0) (s : St) (hr : Reach n0 s)
    (storeAccepts : Bool) (m : RevIn) (hm : m.secret ≠ .ofHeight s.disk.rc.cm.height) :
    (s.receiveRevocationMsg storeAccepts m).2 = s ∧
    (s.receiveRevocationMsg storeAccepts m).1 = (if storeAccepts then .keyMismatch else .storeReject) ∧
    s.step (.recvRevMsg storeAccepts m) = s ∧
    -- and the true revocation is (still) accepted by the point check:
    (s.receiveRevocationMsg true ⟨.ofHeight s.disk.rc.cm.height, .ofHeight (s.disk.rc.cm.height + 2)⟩) =
      (.done s.receiveRevocation.1, s.receiveRevocation.2) := by
  obtain ⟨_, hP⟩ := reach_inv h0 hr
  have hne : (m.secret != s.disk.rcur) = true := by
    rw [hP.rcur]; simpa using hm
  refine ⟨?_, ?_, ?_, ?_⟩
  · unfold St.receiveRevocationMsg
    cases storeAccepts <;> simp [hne]
  · unfold St.receiveRevocationMsg
    cases storeAccepts <;> simp [hne]
  · simp only [St.step]
    split
    · rfl
    · unfold St.receiveRevocationMsg
      cases storeAccepts <;> simp [hne]
  · unfold St.receiveRevocationMsg St.receiveRevocation
    simp [hP.rcur]

/-- the remote commitment advances only on the true secret: a `ReceiveRevocation` that changes the
    durable remote commitment, the store size or the peer's commitment points revealed exactly
    the producer's secret of the remote tail height. -/
theorem remote_advances_only_on_true_secret (n0 : Node) (h0 : Fresh n0) (s : St) (hr : Reach n0 s)
    (a : Bool) (m : RevIn) (hch : (s.step (.recvRevMsg a m)).disk.stored ≠ s.disk.stored) :
    m.secret = .ofHeight s.disk.rc.cm.height := by
  apply Classical.byContradiction
  intro hm
  have := (bogus_revocation_rejected n0 h0 s hr a m hm).2.2.1
  rw [this] at hch
  exact hch rfl

/-! ## crash points are committed write transactions -/

/-- **crash_points_are_call_boundaries**.  The property quantifies over a stop "at any instant",
    i.e. after any committed database transaction.  In the model an event commits `writeTxs` ≤ 1
    transactions (exactly one for a successful SignNextCommitment / RevokeCurrentCommitment /
    ReceiveRevocation, none otherwise — the harness counts the transactions the real code commits
    in every call and the driver reports any difference as `write-tx-count`), and an event that
    commits NO transaction — every memory-only call, every failing call, a refused revocation,
    `emit`, chan-sync, a restart — leaves the database exactly as it was.  Hence the durable states
    a node can be stopped in are precisely the states after a prefix of the events, which is what
    `never_broadcast_revoked`, `restore_commitments`, `restore_failure_kinds`,
    `fwd_pkgs_follow_remote_chain` quantify over (`evs` arbitrary, crash = the event `.crash`). -/
theorem crash_points_are_call_boundaries (s : St) (ev : Ev) :
    s.writeTxs ev ≤ 1 ∧ (s.writeTxs ev = 0 → (s.step ev).disk = s.disk) :=
  ⟨writeTxs_le_one s ev, no_tx_no_change s ev⟩

/-! ## the durable commitments -/

/-- **durable_commitments_current**: after every event the database holds exactly the local
    tail commitment, the remote tail commitment and the (at most one) pending remote commitment
    of the in-memory chains — the write of `SignNextCommitment` / `RevokeCurrentCommitment` /
    `ReceiveRevocation` is part of the call. -/
theorem durable_commitments_current (n0 : Node) (h0 : Fresh n0) (evs : List Ev) :
    let s := (St.init n0).run evs
    s.disk.lc.cm = s.mem.chainL.tail ∧ s.disk.rc.cm = s.mem.chainR.tail ∧
    (s.disk.pend.map (fun p => p.1.cm)).toList = s.mem.chainR.pend ∧
    s.cur = s.mem.chainL.tail.height := by
  intro s
  have hD : DiskInv s := diskInv_run (diskInv_init n0 h0.pendR) evs
  have hI : RelInv s := relInv_run (relInv_init n0 h0.pendL h0.height) evs
  exact ⟨hD.lc, hD.rc, hD.pend, hI.cur⟩

/-- **restore_commitments** (the commitment part of `restore_is_signed_projection`, full
    strength).  At every crash point of every run, the restarted node's local chain is exactly
    the pre-crash local tail (received but not yet revoked-for commitments are not durable), its
    remote chain is exactly the pre-crash remote chain incl. the pending commitment — heights,
    balances, fee, fee rate, log/htlc indices, HTLC sets, transaction — its configuration is
    unchanged and `currentHeight` is the height of that local tail. -/
theorem restore_commitments (n0 : Node) (h0 : Fresh n0) (evs : List Ev) (s' : St)
    (hc : ((St.init n0).run evs).crash = .ok s') :
    let s := (St.init n0).run evs
    s'.mem.chainL = { tail := s.mem.chainL.tail, pend := [] } ∧ s'.mem.chainR = s.mem.chainR ∧
    s'.mem.cfg = s.mem.cfg ∧ s'.cur = s.mem.chainL.tail.height ∧ s'.disk = s.disk := by
  intro s
  have hD : DiskInv s := diskInv_run (diskInv_init n0 h0.pendR) evs
  have hI : RelInv s := relInv_run (relInv_init n0 h0.pendL h0.height) evs
  unfold St.crash at hc
  split at hc
  · cases hc
  · rename_i n hr
    simp only [Except.ok.injEq] at hc
    subst hc
    obtain ⟨hL, hR, hcfg⟩ := restore_chains hr
    refine ⟨?_, ?_, hcfg, ?_, rfl⟩
    · show n.chainL = _
      rw [hL]; simp only [restoreChains]; rw [hD.lc]
    · show n.chainR = _
      rw [hR]; simp only [restoreChains]
      have hp := hD.pend
      have hrc := hD.rc
      cases hd : s.disk.pend with
      | none =>
        rw [hd] at hp
        simp only [Option.map_none, Option.toList_none] at hp
        cases hch : s.mem.chainR with
        | mk tl pd =>
          rw [hch] at hp hrc
          simp only at hp hrc
          rw [hrc, ← hp]
      | some p =>
        rw [hd] at hp
        simp only [Option.map_some, Option.toList_some] at hp
        cases hch : s.mem.chainR with
        | mk tl pd =>
          rw [hch] at hp hrc
          simp only at hp hrc
          rw [hrc, ← hp]
    · show s.disk.lc.cm.height = _
      rw [hD.lc]

/-- **fwd_pkgs_follow_remote_chain** (FULL; was the monitor-only clause `fwd-pkgs`).  At every
    point of every run — API calls with any arguments, crashes / restarts, chan-sync, arbitrary
    received revocations — the database holds exactly one forwarding package per revoked remote
    commitment height, in order `1 … RemoteCommitment.CommitHeight` (written by the same transaction
    that advances the remote chain tail), and no later state-machine call, crash or restart changes
    or drops a package: the package list only grows at its end.  (What the LINK does to the
    packages — forwarding decision, acknowledgements, removal — is the subject of
    `LndModel.C02.FwdProps`.) -/
theorem fwd_pkgs_follow_remote_chain (n0 : Node) (h0 : Fresh n0) (evs evs' : List Ev) :
    let s := (St.init n0).run evs
    s.disk.fwd.map FwdPkg.height = (List.range s.disk.rc.cm.height).map (· + 1) ∧
    ∃ l, (s.run evs').disk.fwd = s.disk.fwd ++ l := by
  intro s
  have hD0 : DiskInv (St.init n0) := diskInv_init n0 h0.pendR
  have hF0 : FwdInv (St.init n0) := by
    refine ⟨?_, ?_⟩
    · intro c hc; simp [St.init, h0.pendR] at hc
    · show ([] : List FwdPkg).map FwdPkg.height = (List.range n0.chainR.tail.height).map (· + 1)
      rw [h0.heightR]; rfl
  have hD : DiskInv s := diskInv_run hD0 evs
  obtain ⟨hF, _⟩ := fwdInv_run hD0 hF0 evs
  exact ⟨hF.heights, (fwdInv_run hD hF evs').2⟩

/-! ## the relation `≈` between the signed projection and the restored state -/

/-- `hEquiv t` is an equivalence relation on commit heights. -/
theorem hEquiv_equivalence (t : Nat) :
    (∀ a, hEquiv t a a = true) ∧
    (∀ a b, hEquiv t a b = true → hEquiv t b a = true) ∧
    (∀ a b c, hEquiv t a b = true → hEquiv t b c = true → hEquiv t a c = true) := by
  refine ⟨?_, ?_, ?_⟩
  · intro a; rw [hEquiv_iff]; exact ⟨Iff.rfl, Iff.rfl, by omega⟩
  · intro a b h; rw [hEquiv_iff] at h ⊢; obtain ⟨h1, h2, h3⟩ := h
    refine ⟨h1.symm, h2.symm, ?_⟩
    rcases h3 with h3 | h3
    · exact Or.inl (h2.mp h3)
    · exact Or.inr h3.symm
  · intro a b c h g; rw [hEquiv_iff] at h g ⊢
    obtain ⟨h1, h2, h3⟩ := h; obtain ⟨g1, g2, g3⟩ := g
    refine ⟨h1.trans g1, h2.trans g2, ?_⟩
    rcases h3 with h3 | h3
    · exact Or.inl h3
    · rcases g3 with g3 | g3
      · exact Or.inl (h2.mpr g3)
      · exact Or.inr (h3.trans g3)

/-- **heights related by `≈` are indistinguishable**: for a chain whose tail is at height `t`, two
    `hEquiv t`-related commit heights give the same answer in every comparison the state machine
    makes, now and after any further advance of the tail: the "not yet committed" test `= 0`,
    the compaction / forwarding test `≤ tail'` for every `tail' ≥ t`, and the "committed at exactly
    this new height" test `= h` for every `h > t` (commit-diff construction, forwarding
    package); the relation itself survives every advance of the tail. -/
theorem hEquiv_indistinguishable (t a b : Nat) (h : hEquiv t a b = true) :
    (a = 0 ↔ b = 0) ∧
    (∀ t', t ≤ t' → (a ≤ t' ↔ b ≤ t')) ∧
    (∀ x, t < x → (a = x ↔ b = x)) ∧
    (∀ t', t ≤ t' → hEquiv t' a b = true) := by
  rw [hEquiv_iff] at h
  obtain ⟨h1, h2, h3⟩ := h
  refine ⟨h1, ?_, ?_, ?_⟩
  · intro t' ht
    rcases h3 with h3 | h3
    · have := h2.mp h3; constructor <;> intro <;> omega
    · rw [h3]
  · intro x hx
    rcases h3 with h3 | h3
    · have := h2.mp h3; constructor <;> intro <;> omega
    · rw [h3]
  · intro t' ht
    rw [hEquiv_iff]
    refine ⟨h1, ?_, ?_⟩
    · rcases h3 with h3 | h3
      · have := h2.mp h3; constructor <;> intro <;> omega
      · rw [h3]
    · rcases h3 with h3 | h3
      · left; omega
      · right; exact h3

/-- **restore_bisimulation_logs_partial** (the update-log half of `restore_bisimulation` for the four
    core calls).  For two logs related by `≈` (`logEquiv`: the same updates with `hEquiv`-related
    commit heights, e.g. the signed projection of the pre-crash log and the restored log):
    * SignNextCommitment / ReceiveNewCommitment: setting the commit heights of all covered updates
      that are not yet on that chain to ANY new height (`commitLog`, the log mutation of
      `fetchCommitmentView`) gives `≈`-related logs again;
    * RevokeCurrentCommitment / ReceiveRevocation: the relation survives every advance of either
      chain tail;
    * every entry of the first log has a partner in the second that is indistinguishable in every
      test the state machine makes on an entry: "not yet on chain c", `compactLogs`' removal test
      for all later tails, and the forwarding-package membership tests of `ReceiveRevocation` for
      every later remote height.
    NOT proved (what is missing for the full `restore_bisimulation`): that `computeView` (balances,
    fee, HTLC list of the new commitment) returns equal results on `≈`-related logs, that
    `compactLogs` as a whole keeps them related, and the congruence of the eight update calls
    (they go through `computeView` for their balance checks).  Monitor-only: the continuation of
    every real restart under all C01 clauses. -/
theorem restore_bisimulation_logs_partial (lt rt : Nat) (a b : List Entry) (h : logEquiv lt rt a b = true) :
    (∀ c k idx, logEquiv lt rt (commitLog c k idx a) (commitLog c k idx b) = true) ∧
    (∀ lt' rt', lt ≤ lt' → rt ≤ rt' → logEquiv lt' rt' a b = true) ∧
    (∀ x ∈ a, ∃ p ∈ b, entryKey p = entryKey x ∧
      (∀ c, x.addH c = 0 ↔ p.addH c = 0) ∧ (∀ c, x.rmvH c = 0 ↔ p.rmvH c = 0) ∧
      (∀ lt' rt', lt ≤ lt' → rt ≤ rt' → removable lt' rt' x = removable lt' rt' p) ∧
      (∀ lt' rt', lt ≤ lt' → rt < rt' → fwdAddTest lt' rt' x = fwdAddTest lt' rt' p) ∧
      (∀ lt' rt', lt ≤ lt' → rt < rt' → fwdResTest lt' rt' x = fwdResTest lt' rt' p)) := by
  have hL := (logEquiv_iff lt rt a b).mp h
  refine ⟨?_, ?_, ?_⟩
  · intro c k idx; exact (logEquiv_iff _ _ _ _).mpr (hL.commitLog c k idx)
  · intro lt' rt' h1 h2; exact (logEquiv_iff _ _ _ _).mpr (hL.mono h1 h2)
  · intro x hx
    obtain ⟨p, hp, hk, he⟩ := hL.fwd x hx
    exact ⟨p, hp, hk, he.tests⟩

/-- **restore_is_signed_projection_partial**.  At every crash point of every run the restarted
    node agrees with the signed projection of the pre-crash node (`signedProj`) on the
    configuration and on both commitment chains (heights, balances, fee, indices, HTLC sets of
    the current and the pending commitments; received-but-unrevoked local commitments dropped).
    NOT proved: the update-log part of `nodeEquiv (signedProj s.mem) s'.mem` (same signed updates
    with `hEquiv`-related heights, same counters, same modified marks).  The driver evaluates
    `nodeEquiv (signedProj ·) ·` on the implementation's own pre-crash / restored dumps at every
    probe and every real restart (monitor clauses restore-*). -/
theorem restore_is_signed_projection_partial (n0 : Node) (h0 : Fresh n0) (evs : List Ev) (s' : St)
    (hc : ((St.init n0).run evs).crash = .ok s') :
    let s := (St.init n0).run evs
    (signedProj s.mem).cfg = s'.mem.cfg ∧ (signedProj s.mem).chainL = s'.mem.chainL ∧
    (signedProj s.mem).chainR = s'.mem.chainR := by
  intro s
  obtain ⟨h1, h2, h3, _, _⟩ := restore_commitments n0 h0 evs s' hc
  exact ⟨h3.symm, h1.symm, h2.symm⟩

/-! ## totality of restore (partial) -/

/-- **restore_total_partial**.  `restore` (NewLightningChannel) succeeds — no nil dereference of
    a parent HTLC, no "log index mismatch" / "htlc index mismatch" panic, no "attempted to restore
    an unsigned remote update" — on every durable state that satisfies the explicit
    well-formedness `DiskWF`:
    the remote-unsigned-local updates are settles/fails of HTLCs of the local commitment or fee
    updates; the commit-diff updates carry consecutive log indices starting at the remote
    commitment's local log index, its adds carry consecutive htlc indices, its settles/fails
    resolve HTLCs of the local commitment; the unsigned-acked updates lie below the local
    commitment's remote log index and their settles/fails resolve HTLCs of the remote commitment
    or adds of the commit diff.
    NOT proved: that `DiskWF` holds on every reachable disk (full `restore_total`).  The driver
    evaluates `diskWF` on the real database content at every probe / restart of every trace, and
    the monitor clause `reload-error` checks the statement itself on the implementation. -/
theorem restore_total_partial (cfg : Cfg) (d : Disk) (h : DiskWF d) : ∃ n, restore cfg d = .ok n :=
  restore_ok_of_wf cfg d h

/-- **restore_failure_kinds** (FULL: every run of API calls with any arguments, `emit`, crashes /
    restarts, chan-sync retransmissions and `ReceiveRevocation` of arbitrary messages, from ANY
    initial node).  Two of the five ways `NewLightningChannel` can fail are unreachable:
    * "unknown message type" of `restorePeerLocalUpdates` (`localLogUpdateToPayDesc` on an
      `update_add_htlc`): the remote-unsigned-local updates written by `AdvanceCommitChainTail` and
      filtered by `UpdateCommitment` never contain an add;
    * "attempted to restore an unsigned remote update" of `restorePendingRemoteUpdates`: every
      unsigned-acked update on disk has a log index below `LocalCommitment.RemoteLogIndex`
      (written together with that commitment by `UpdateCommitment`, only filtered afterwards).
    What remains for the full `restore_total` are the three structural panics (nil parent HTLC,
    "log index mismatch", "htlc index mismatch"), covered by `restore_total_partial` under `DiskWF`. -/
theorem restore_failure_kinds (n0 : Node) (evs : List Ev) (cfg : Cfg) :
    let d := ((St.init n0).run evs).disk
    restore cfg d ≠ .error .unsignedRemote ∧ restore cfg d ≠ .error .unknownMsg ∧
    ∀ e, restore cfg d = .error e → e = .noParent ∨ e = .logIndexMismatch ∨ e = .htlcIndexMismatch := by
  intro d
  have hU : DiskUp d := diskUp_run (diskUp_init n0) evs
  have hB := restoreLogs_benign d hU
  have key : ∀ e, restore cfg d = .error e → e = .noParent ∨ e = .logIndexMismatch ∨ e = .htlcIndexMismatch := by
    intro e he
    unfold restore at he
    rcases hB with h | h | h | ⟨lL, lR, h, _⟩
    · rw [h] at he; simp only [Except.error.injEq] at he; exact Or.inl he.symm
    · rw [h] at he; simp only [Except.error.injEq] at he; exact Or.inr (Or.inl he.symm)
    · rw [h] at he; simp only [Except.error.injEq] at he; exact Or.inr (Or.inr he.symm)
    · rw [h] at he; cases he
  refine ⟨?_, ?_, key⟩
  · intro he; rcases key _ he with h | h | h <;> cases h
  · intro he; rcases key _ he with h | h | h <;> cases h

/-! ## continuing after a restart (partial) -/

/-- **continue_after_restore_partial**.  A restored state on which the executable check `invCheck`
    succeeds satisfies C01's inductive invariant `Inv`; hence `Inv` — and with it C01's
    conservation / balance-move / capacity theorems — holds after ANY continuation of the run.
    NOT proved: that `invCheck` succeeds on the restore of every reachable disk (full
    `continue_after_restore`); the driver evaluates it on the real restored states. -/
theorem continue_after_restore_partial (n : Node) (h : invCheck n = true) (ops : List Op) :
    Inv (n.run ops) ∧
    ∀ c, ∀ cm ∈ ((n.run ops).chain c).all,
      cm.our + cm.their + htlcTotal cm + 1000 * cm.fee + anchorsMsat (n.run ops).cfg = 1000 * (n.run ops).cfg.capacity := by
  have hI : Inv n := of_decide_eq_true h
  have hR := inv_run hI ops
  exact ⟨hR, fun c cm hcm => (hR.cons c cm hcm).1⟩

/-! ## non-vacuity -/

def demoCfg : Cfg :=
  { capacity := 1000000, initiator := true, anchors := false, zeroFee := false, taproot := false,
    dustL := 546, dustR := 546, resL := 10000, resR := 10000, minL := 1, minR := 1,
    maxPendL := 1000000000, maxPendR := 1000000000, maxAccL := 483, maxAccR := 483 }

def demoCommit : Commit :=
  { height := 0, our := 500000000 - 1000 * 181, their := 500000000, fee := 181, feePerKw := 250,
    ourMsg := 0, theirMsg := 0, ourHtlc := 0, theirHtlc := 0 }

def demoNode : Node := { cfg := demoCfg, chainL := { tail := demoCommit }, chainR := { tail := demoCommit } }

example : Fresh demoNode := ⟨rfl, rfl, rfl, rfl⟩

/-- a run with a received HTLC, a revocation handed out, a crash with a staged revocation and a
    chan-sync retransmission: the history is `[revoke 0, lost 1, sync 1]`-shaped. -/
def demoRun : List Ev :=
  [.op (.receiveHTLC 0 5000000 144 1), .op (.receiveCommit ⟨1, 250, []⟩)]

example : ((St.init demoNode).run [.syncRevoke]).trace = [] := by decide

example : ChainTrace [⟨0, 2, .revoke⟩, ⟨1, 3, .lost⟩, ⟨1, 3, .sync⟩] 2 :=
  ChainTrace.sync (ChainTrace.produced .lost (by decide) (ChainTrace.produced .revoke (by decide) ChainTrace.nil))

example : invCheck demoNode = true := by decide

/-- a failing call (nothing to sign for … here: nothing to revoke) commits no transaction, a
    successful revoke after a received commitment commits one. -/
example : (St.init demoNode).writeTxs (.op .revoke) = 0 := by decide

example : DiskWF (St.init demoNode).disk := diskWF_spec _ (by decide)

/-- two related, different logs (hypothesis of `restore_bisimulation_logs_partial`): the add was put
    on the local chain at height 2 before the crash and is restored with height 3 (tail 3). -/
example : logEquiv 3 2
    [{ ty := .add, amt := 5000, logIndex := 0, htlcIndex := 0, expiry := 144, hash := 1, addL := 2, addR := 1 }]
    [{ ty := .add, amt := 5000, logIndex := 0, htlcIndex := 0, expiry := 144, hash := 1, addL := 3, addR := 1 }] = true := by
  decide

/-- the two failure kinds excluded by `restore_failure_kinds` are real on unreachable disks: an
    unsigned-acked fee update at the remote log index of the local commitment / an add among the
    remote-unsigned-local updates. -/
example : (match restore demoCfg { (St.init demoNode).disk with ua := some [{ ty := .feeUpd, amt := 300000, logIndex := 0 }] } with
    | .error e => e == .unsignedRemote | .ok _ => false) = true := by decide
example : (match restore demoCfg { (St.init demoNode).disk with rul := some [{ ty := .add, amt := 5000, logIndex := 0 }] } with
    | .error e => e == .unknownMsg | .ok _ => false) = true := by decide

end LndModel.C02
