/-
C02 — the atomicity assumption of the model as a checked fact.

In the model every API call performs at most ONE durable write (one kvdb transaction):
`writeTxs` is the number of write transactions the model attributes to an event.  The harness
counts the write transactions the real code commits during every call (wrapped kvdb backend) and the
driver compares the two numbers (`MISMATCH … write-tx-count`).  `no_tx_no_change`: an event to
which the model attributes no transaction leaves the database untouched.  Hence, as long as the
counts agree, every state the node can be stopped in — after ANY committed write transaction — is
the durable state after a prefix of the calls, which is what the crash theorems quantify over.
-/
import LndModel.C02.Model

namespace LndModel.C02
open LndModel.C01

def isWriter : Op → Bool
  | .sign => true
  | .revoke => true
  | .receiveRevocation => true
  | _ => false

/-- write transactions committed by an API call with the given outcome. -/
def opWriteTxs (o : Op) (r : Err) : Nat := if isWriter o && r == .ok then 1 else 0

/-- write transactions committed by an event of the model. -/
def St.writeTxs (s : St) : Ev → Nat
  | .op o => match s.staged with
    | some _ => 0
    | none => opWriteTxs o (s.apiStep o).1
  | .recvRevMsg a m => match s.staged with
    | some _ => 0
    | none => match (s.receiveRevocationMsg a m).1 with
      | .done .ok => 1
      | _ => 0
  | _ => 0

theorem writeTxs_le_one (s : St) (ev : Ev) : s.writeTxs ev ≤ 1 := by
  cases ev <;> simp only [St.writeTxs] <;> (try split) <;> (try split) <;> simp [opWriteTxs] <;> (try split) <;> omega

theorem advance_noop {s : St} {nx : Sec} (h : (s.advance nx).1 ≠ .ok) : (s.advance nx).2 = s := by
  unfold St.advance at h ⊢
  cases hp : s.mem.chainR.pend with
  | nil => rfl
  | cons c r => simp [hp] at h

/-- **no_tx_no_change**: an event that commits no write transaction in the model (every
    memory-only call, every failing call, `emit`, chan-sync, a refused revocation, a crash/restart)
    leaves the durable state exactly as it was. -/
theorem no_tx_no_change (s : St) (ev : Ev) (h : s.writeTxs ev = 0) : (s.step ev).disk = s.disk := by
  cases ev with
  | op o =>
    simp only [St.writeTxs, St.step] at h ⊢
    unfold St.apiStep at h ⊢
    split
    · rfl
    · rename_i hs
      simp only [hs] at h
      cases o
      case sign =>
        simp only [opWriteTxs, isWriter, Bool.true_and] at h ⊢
        unfold St.sign at h ⊢
        simp only at h ⊢
        split
        · rename_i hok; simp [hok] at h
        · rfl
      case revoke =>
        simp only [opWriteTxs, isWriter, Bool.true_and] at h ⊢
        unfold St.revokeWrite at h ⊢
        cases hp : s.mem.chainL.pend with
        | nil => rfl
        | cons c r => simp [hp] at h
      case receiveRevocation =>
        simp only [opWriteTxs, isWriter, Bool.true_and] at h ⊢
        unfold St.receiveRevocation at h ⊢
        have : (s.advance (Sec.ofHeight (s.disk.rc.cm.height + 2))).1 ≠ .ok := by
          intro e; simp [e] at h
        rw [advance_noop this]
      all_goals rfl
  | emit => simp only [St.step, St.emit]; split <;> rfl
  | crash =>
    simp only [St.step]
    split
    · rename_i s' hc
      unfold St.crash at hc
      split at hc
      · cases hc
      · simp only [Except.ok.injEq] at hc; subst hc; rfl
    · rfl
  | syncRevoke =>
    simp only [St.step, St.syncRevoke]
    split
    · rfl
    · split <;> rfl
  | recvRevMsg a m =>
    simp only [St.writeTxs, St.step] at h ⊢
    split
    · rfl
    · rename_i hs
      simp only [hs] at h
      unfold St.receiveRevocationMsg at h ⊢
      split
      · rfl
      · rename_i ha
        split
        · rfl
        · rename_i hm
          have ha' : a = true := by simpa using ha
          have hm' : m.secret = s.disk.rcur := by simpa using hm
          simp only at h ⊢
          have : (s.advance m.next).1 ≠ .ok := by
            intro e; simp [e, ha', hm'] at h
          rw [advance_noop this]

end LndModel.C02
