/-
C02 — the forwarding-package store (`chanstate/forwarding.go`, `channeldb/forwarding_package.go`).

`Filter` is `PkgFilter` at the byte level (what the code does): `count` plus a byte slice of
`(count+7)/8` bytes, index `i` lives in byte `i/8` at bit `7 - i%8`; `Set`, `Contains`, `IsFull`
(the two loops of the Go function), `Encode` (2-byte big-endian count ++ bytes), `Decode`.

`Store` is the `fwd-packages/<source>` bucket of ONE channel: per height the add / settle-fail
updates and the three filter keys as ENCODED byte strings (`fwdFilterKey` may be absent).  Every
operation is one kvdb transaction (`AddFwdPkg` inside `AdvanceCommitChainTail`, `SetFwdFilter`,
`AckAddHtlcs` / `AckSettleFails` — stand-alone or inside `AppendRemoteCommitChain` —, `RemovePkg`),
and decodes / modifies / re-encodes the filters exactly as the Go code does.  `loadAll` is
`LoadFwdPkgs` / `loadFwdPkg`: what a restarted link sees.

Core Lean only (used by the driver).
-/

namespace LndModel.C02.Fwd

/-! ## PkgFilter -/

structure Filter where
  count : Nat
  bytes : List Nat
deriving DecidableEq, Repr, Inhabited

/-- `(count + 7) / 8` (uint16 arithmetic: exact for `count + 7 < 65536`). -/
def filterLen (count : Nat) : Nat := (count + 7) / 8

/-- `NewPkgFilter(count)`. -/
def Filter.new (count : Nat) : Filter := ⟨count, List.replicate (filterLen count) 0⟩

/-- bit mask of index `i` inside its byte: `1 << (7 - i%8)`. -/
def mask (i : Nat) : Nat := 1 <<< (7 - i % 8)

/-- `Set(i)` would index past the byte slice (Go: panic `index out of range`). -/
def Filter.inRange (f : Filter) (i : Nat) : Bool := decide (i / 8 < f.bytes.length)

/-- `Set(i)`: `f.filter[i/8] |= 1 << (7 - i%8)`. -/
def Filter.set (f : Filter) (i : Nat) : Filter :=
  { f with bytes := f.bytes.set (i / 8) (f.bytes.getD (i / 8) 0 ||| mask i) }

/-- `Contains(i)`: `f.filter[i/8] & (1 << (7 - i%8)) != 0`. -/
def Filter.contains (f : Filter) (i : Nat) : Bool := (f.bytes.getD (i / 8) 0 &&& mask i) != 0

/-- `IsFull()`: every fully used byte is `0xFF`, then `Contains` for the `count % 8` remaining
    indices. -/
def Filter.isFull (f : Filter) : Bool :=
  (List.range (f.count / 8)).all (fun b => f.bytes.getD b 0 == 255) &&
  (List.range (f.count % 8)).all (fun k => f.contains (f.count - f.count % 8 + k))

/-- `Encode`: big-endian uint16 count, then the bytes. -/
def Filter.encode (f : Filter) : List Nat := [f.count / 256 % 256, f.count % 256] ++ f.bytes

/-- `Decode`: reads the count, then exactly `Size()-2` bytes (`io.ReadFull`). -/
def Filter.decode : List Nat → Option Filter
  | hi :: lo :: rest =>
    let count := hi * 256 + lo
    if rest.length < filterLen count then none else some ⟨count, rest.take (filterLen count)⟩
  | _ => none

/-- the filter as a list of booleans (what `Contains` answers for `0 … count-1`). -/
def Filter.bits (f : Filter) : List Bool := (List.range f.count).map f.contains

/-! ## the durable package store of one channel -/

/-- a `LogUpdate` as far as the harness prints it. -/
structure Upd where
  ty : Nat          -- 0 add, 1 settle, 2 fail, 3 malformed
  logIndex : Nat
  id : Nat
  amt : Nat
deriving DecidableEq, Repr, Inhabited

/-- one `<height>` bucket. -/
structure Pkg where
  height : Nat
  adds : List Upd
  sfs : List Upd
  ack : List Nat                 -- ackFilterKey (encoded)
  sf : List Nat                  -- settleFailFilterKey (encoded)
  fwd : Option (List Nat) := none  -- fwdFilterKey (encoded); none: key absent
deriving DecidableEq, Repr, Inhabited

structure Store where
  src : Bool := false            -- the channel's source bucket exists (created by the first AddFwdPkg)
  pkgs : List Pkg := []          -- ascending heights (bbolt iterates in key order)
deriving DecidableEq, Repr, Inhabited

inductive FErr where
  | ok | corrupted | bucketNotFound | panic | decodeErr
deriving DecidableEq, Repr, Inhabited

def FErr.toString : FErr → String
  | .ok => "ok" | .corrupted => "corrupted" | .bucketNotFound => "bucketNotFound"
  | .panic => "panic" | .decodeErr => "decodeErr"

def Store.find (s : Store) (h : Nat) : Option Pkg := s.pkgs.find? (fun p => p.height == h)

def insertPkg (p : Pkg) : List Pkg → List Pkg
  | [] => [p]
  | q :: r => if p.height < q.height then p :: q :: r
              else if p.height == q.height then p :: r
              else q :: insertPkg p r

/-- `NewFwdPkg` + `AddFwdPkg` (part of the `AdvanceCommitChainTail` transaction).  The harness
    never re-adds an existing height (a remote height is revoked once); the model replaces. -/
def Store.addPkg (s : Store) (h : Nat) (adds sfs : List Upd) : Store :=
  { src := true,
    pkgs := insertPkg { height := h, adds := adds, sfs := sfs, ack := (Filter.new adds.length).encode,
                        sf := (Filter.new sfs.length).encode } s.pkgs }

def mapPkg (h : Nat) (g : Pkg → Pkg) (l : List Pkg) : List Pkg := l.map (fun p => if p.height == h then g p else p)

/-- the forwarding filter is written once; later calls leave the stored value alone. -/
def Pkg.setFwd (f : Filter) (p : Pkg) : Pkg :=
  match p.fwd with
  | some _ => p
  | none => { p with fwd := some f.encode }

/-- `SetFwdFilter(height, filter)`. -/
def Store.setFwd (s : Store) (h : Nat) (f : Filter) : FErr × Store :=
  if !s.src then (.corrupted, s)
  else if !s.pkgs.any (fun p => p.height == h) then (.corrupted, s)
  else (.ok, { s with pkgs := mapPkg h (Pkg.setFwd f) s.pkgs })

/-- `ackAddHtlcsAtHeight` / `ackSettleFailsAtHeight` for ONE index: decode, `Set`, encode, put. -/
def ackOne (enc : List Nat) (i : Nat) : Except FErr (List Nat) :=
  match Filter.decode enc with
  | none => .error .decodeErr
  | some f => if f.inRange i then .ok (f.set i).encode else .error .panic

/-- one `(height, index)` reference applied to the ack filter (`sel = false`) or the settle-fail
    filter (`sel = true`) of the bucket of that height. -/
def ackPkg (sel : Bool) (k i : Nat) (p : Pkg) : Except FErr Pkg :=
  if p.height == k then
    match ackOne (if sel then p.sf else p.ack) i with
    | .ok enc => .ok (if sel then { p with sf := enc } else { p with ack := enc })
    | .error e => .error e
  else .ok p

/-- a missing height bucket is not an error ("already removed"): no bucket is touched. -/
def ackRef (sel : Bool) (acc : Except FErr (List Pkg)) (r : Nat × Nat) : Except FErr (List Pkg) :=
  match acc with
  | .error e => .error e
  | .ok l => l.mapM (ackPkg sel r.1 r.2)

/-- `AckAddHtlcs(refs…)` (`sel = false`) / `AckSettleFails(refs…)` for this channel's own source
    (`sel = true`).  One transaction: on an error (a panic included) nothing is written. -/
def Store.ack (s : Store) (sel : Bool) (refs : List (Nat × Nat)) : FErr × Store :=
  if refs.isEmpty then (.ok, s)
  else if !s.src then (if sel then (.ok, s) else (.corrupted, s))
  else match refs.foldl (ackRef sel) (.ok s.pkgs) with
    | .error e => (e, s)
    | .ok l => (.ok, { s with pkgs := l })

/-- removing height buckets one after the other; a missing bucket fails the transaction. -/
def removeStep {α : Type} (ht : α → Nat) (acc : Option (List α)) (h : Nat) : Option (List α) :=
  match acc with
  | none => none
  | some l => if l.any (fun p => ht p == h) then some (l.filter (fun p => ht p != h)) else none

def removeFold {α : Type} (ht : α → Nat) (hs : List Nat) (l : List α) : Option (List α) :=
  hs.foldl (removeStep ht) (some l)

/-- `RemoveFwdPkgs(heights…)`: one transaction; a missing height bucket fails it. -/
def Store.remove (s : Store) (hs : List Nat) : FErr × Store :=
  if !s.src then (if hs.isEmpty then .ok else .corrupted, s)
  else match removeFold Pkg.height hs s.pkgs with
    | none => (.bucketNotFound, s)
    | some l => (.ok, { s with pkgs := l })

/-! ## LoadFwdPkgs -/

inductive FState where
  | lockedIn | processed | completed
deriving DecidableEq, Repr, Inhabited

def FState.toNat : FState → Nat
  | .lockedIn => 0 | .processed => 1 | .completed => 2

/-- a `FwdPkg` as returned by `loadFwdPkg`. -/
structure Loaded where
  height : Nat
  state : FState
  adds : List Upd
  sfs : List Upd
  fwd : Filter
  ack : Filter
  sf : Filter
deriving DecidableEq, Repr, Inhabited

/-- `loadFwdPkg`. -/
def Pkg.load (p : Pkg) : Option Loaded :=
  match Filter.decode p.ack, Filter.decode p.sf with
  | some a, some s =>
    match p.fwd with
    | none => some { height := p.height, state := .lockedIn, adds := p.adds, sfs := p.sfs,
                     fwd := Filter.new p.adds.length, ack := a, sf := s }
    | some e =>
      match Filter.decode e with
      | none => none
      | some f => some { height := p.height, state := if a.isFull && s.isFull then .completed else .processed,
                         adds := p.adds, sfs := p.sfs, fwd := f, ack := a, sf := s }
  | _, _ => none

/-- `LoadFwdPkgs`: `none` = a decode error. -/
def Store.loadAll (s : Store) : Option (List Loaded) :=
  if !s.src then some [] else s.pkgs.mapM Pkg.load

/-! ## the specification side: what a package must look like, from the history of acknowledgements -/

/-- history of one package: what it was created with and everything acknowledged since. -/
structure Hist where
  height : Nat
  adds : List Upd
  sfs : List Upd
  acked : List Nat := []              -- add indices acknowledged so far (any order, repetitions)
  sfAcked : List Nat := []            -- settle/fail indices acknowledged so far
  fwd : Option Filter := none         -- the first forwarding decision persisted
deriving DecidableEq, Repr, Inhabited

def allBelow (n : Nat) (l : List Nat) : Bool := (List.range n).all l.contains

/-- the state a restarted link must see. -/
def Hist.state (h : Hist) : FState :=
  match h.fwd with
  | none => .lockedIn
  | some _ => if allBelow h.adds.length h.acked && allBelow h.sfs.length h.sfAcked then .completed else .processed

def insertHist (p : Hist) : List Hist → List Hist
  | [] => [p]
  | q :: r => if p.height < q.height then p :: q :: r
              else if p.height == q.height then p :: r
              else q :: insertHist p r

def mapHist (h : Nat) (g : Hist → Hist) (l : List Hist) : List Hist := l.map (fun p => if p.height == h then g p else p)

def Hist.setFwd (f : Filter) (p : Hist) : Hist :=
  match p.fwd with
  | some _ => p
  | none => { p with fwd := some f }

def Hist.ack (sel : Bool) (i : Nat) (p : Hist) : Hist :=
  if sel then { p with sfAcked := p.sfAcked ++ [i] } else { p with acked := p.acked ++ [i] }

/-- operations on the package store of one channel (each one kvdb transaction). -/
inductive FOp where
  | add (h : Nat) (adds sfs : List Upd)      -- AdvanceCommitChainTail → AddFwdPkg(NewFwdPkg …)
  | setFwd (h : Nat) (f : Filter)            -- SetFwdFilter
  | ack (sel : Bool) (refs : List (Nat × Nat))  -- AckAddHtlcs (false) / AckSettleFails (true)
  | remove (hs : List Nat)                   -- RemoveFwdPkgs
deriving Repr

def Store.step (s : Store) : FOp → FErr × Store
  | .add h a r => (.ok, s.addPkg h a r)
  | .setFwd h f => s.setFwd h f
  | .ack sel refs => s.ack sel refs
  | .remove hs => s.remove hs

/-- the same operation on the histories (specification). -/
def histStep (a : List Hist) : FOp → List Hist
  | .add h ad sf => insertHist { height := h, adds := ad, sfs := sf } a
  | .setFwd h f => mapHist h (Hist.setFwd f) a
  | .ack sel refs => refs.foldl (fun a r => mapHist r.1 (Hist.ack sel r.2) a) a
  | .remove hs => (removeFold Hist.height hs a).getD a

/-- a filter the link may pass to `SetFwdFilter` / that `NewPkgFilter` + `Set` can produce. -/
def Filter.wf (f : Filter) : Bool :=
  decide (f.count < 65529) && f.bytes.length == filterLen f.count && f.bytes.all (fun b => decide (b < 256))

/-- well-indexed operations: package sizes fit the uint16 count, forwarding filters are
    `NewPkgFilter(len(adds))` with some indices set, acknowledged indices exist in their package. -/
def opOK (a : List Hist) : FOp → Bool
  | .add h ad sf => decide (ad.length < 65529) && decide (sf.length < 65529) && !a.any (fun p => p.height == h)
  | .setFwd h f => f.wf && a.all (fun p => p.height != h || f.count == p.adds.length)
  | .ack sel refs => refs.all (fun r => a.all (fun p => p.height != r.1 ||
      decide (r.2 < (if sel then p.sfs.length else p.adds.length))))
  | .remove _ => true

end LndModel.C02.Fwd
