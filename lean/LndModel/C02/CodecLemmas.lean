/-
C02 — round-trip lemmas for the primitive layers of `Codec.lean`
(fixed-width integers, CompactSize, var-bytes, counted lists, BigSize, TLV streams).
Every lemma has the shape `decode (encode x ++ rest) = some (x, rest)`, so that they compose.
-/
import LndModel.C02.Codec

namespace LndModel.C02.Codec

/-! ## fixed width -/

@[simp] theorem be_length (n v : Nat) : (be n v).length = n := by
  induction n with
  | zero => rfl
  | succ n ih => simp [be, ih]

@[simp] theorem le_length (n : Nat) : ∀ v, (le n v).length = n := by
  induction n with
  | zero => intro v; rfl
  | succ n ih => intro v; simp [le, ih]

theorem foldl_be (n : Nat) : ∀ (v a : Nat),
    (be n v).foldl (fun a b => a * 256 + b) a = a * 256 ^ n + v % 256 ^ n := by
  induction n with
  | zero => intro v a; simp [be, Nat.mod_one]
  | succ n ih =>
    intro v a
    simp only [be, List.foldl_cons, ih]
    rw [Nat.mod_pow_succ (x := v) (b := 256) (k := n), Nat.pow_succ]
    rw [Nat.add_mul, Nat.mul_assoc, Nat.mul_comm 256 (256 ^ n), Nat.mul_comm (v / 256 ^ n % 256)]
    omega

theorem fromBE_be (n v : Nat) (h : v < 256 ^ n) : fromBE (be n v) = v := by
  unfold fromBE
  rw [foldl_be, Nat.mod_eq_of_lt h]; simp

theorem fromLE_le (n : Nat) : ∀ v, v < 256 ^ n → fromLE (le n v) = v := by
  induction n with
  | zero => intro v h; simp at h; subst h; rfl
  | succ n ih =>
    intro v h
    have h' : v / 256 < 256 ^ n := by
      rw [Nat.pow_succ] at h
      exact Nat.div_lt_of_lt_mul (by rw [Nat.mul_comm]; exact h)
    simp only [le, fromLE, ih _ h']
    omega

theorem rdFixed_append (n : Nat) (b r : Bytes) (h : b.length = n) : rdFixed n (b ++ r) = some (b, r) := by
  unfold rdFixed
  have : ¬ (b ++ r).length < n := by simp [List.length_append]; omega
  rw [if_neg this]
  subst h
  simp

theorem rdBE_be (n v : Nat) (r : Bytes) (h : v < 256 ^ n) : rdBE n (be n v ++ r) = some (v, r) := by
  unfold rdBE
  rw [rdFixed_append n _ _ (be_length n v)]
  simp [fromBE_be n v h]

theorem rdLE_le (n v : Nat) (r : Bytes) (h : v < 256 ^ n) : rdLE n (le n v ++ r) = some (v, r) := by
  unfold rdLE
  rw [rdFixed_append n _ _ (le_length n v)]
  simp [fromLE_le n v h]

theorem rdBool_enc (b : Bool) (r : Bytes) : rdBool (encBool b ++ r) = some (b, r) := by
  cases b <;> simp [rdBool, encBool]

theorem rdI32_enc (v : Int) (r : Bytes) (h1 : -2147483648 ≤ v) (h2 : v < 2147483648) :
    rdI32 (encI32 v ++ r) = some (v, r) := by
  unfold rdI32 encI32
  have hlt : (v % 4294967296).toNat < 256 ^ 4 := by
    have : v % 4294967296 < 4294967296 := Int.emod_lt_of_pos _ (by decide)
    have h0 : 0 ≤ v % 4294967296 := Int.emod_nonneg _ (by decide)
    omega
  rw [rdBE_be 4 _ r hlt]
  have h0 : 0 ≤ v % 4294967296 := Int.emod_nonneg _ (by decide)
  simp only [Option.some.injEq, Prod.mk.injEq, and_true]
  split <;> omega

/-! ## CompactSize -/

theorem rdCS_cs (v : Nat) (r : Bytes) (h : v < 2 ^ 64) : rdCS (cs v ++ r) = some (v, r) := by
  unfold cs
  by_cases h1 : v < 253
  · have a : (v == 255) = false := by simp; omega
    have b : (v == 254) = false := by simp; omega
    have c : (v == 253) = false := by simp; omega
    simp [h1, rdCS, a, b, c]
  · by_cases h2 : v ≤ 65535
    · simp only [h1, h2, if_false, if_true, List.cons_append, rdCS]
      rw [rdLE_le 2 v r (by simp; omega)]
      simp; omega
    · by_cases h3 : v ≤ 4294967295
      · simp only [h1, h2, h3, if_false, if_true, List.cons_append, rdCS]
        rw [rdLE_le 4 v r (by simp; omega)]
        simp; omega
      · simp only [h1, h2, h3, if_false, List.cons_append, rdCS]
        rw [rdLE_le 8 v r (by simp; omega)]
        simp; omega

theorem rdVarBytes_enc (mx : Nat) (b r : Bytes) (h : b.length ≤ mx) (h64 : b.length < 2 ^ 64) :
    rdVarBytes mx (varBytes b ++ r) = some (b, r) := by
  unfold rdVarBytes varBytes
  rw [List.append_assoc, rdCS_cs _ _ h64]
  simp only
  rw [if_neg (by omega), rdFixed_append _ _ _ rfl]

/-! ## counted lists -/

theorem decN_encList {α : Type} (d : Dec α) (e : α → Bytes) (l : List α) (r : Bytes)
    (h : ∀ a ∈ l, ∀ r', d (e a ++ r') = some (a, r')) :
    decN d l.length (encList e l ++ r) = some (l, r) := by
  induction l with
  | nil => simp [decN, encList]
  | cons a as ih =>
    have ha := h a (by simp)
    have ih' := ih (fun x hx => h x (by simp [hx]))
    simp only [encList, List.flatMap_cons, List.length_cons, decN, List.append_assoc] at *
    rw [ha]; simp only; rw [ih']

/-! ## BigSize and TLV streams -/

theorem rdBigSize_enc (v : Nat) (r : Bytes) (h : v < 2 ^ 64) : rdBigSize (bigSize v ++ r) = some (v, r) := by
  unfold bigSize
  by_cases h1 : v < 253
  · simp [h1, rdBigSize]
  · by_cases h2 : v ≤ 65535
    · simp only [h1, h2, if_false, if_true, List.cons_append, rdBigSize]
      rw [rdBE_be 2 v r (by simp; omega)]
      simp; omega
    · by_cases h3 : v ≤ 4294967295
      · simp only [h1, h2, h3, if_false, if_true, List.cons_append, rdBigSize]
        rw [rdBE_be 4 v r (by simp; omega)]
        simp; omega
      · simp only [h1, h2, h3, if_false, List.cons_append, rdBigSize]
        rw [rdBE_be 8 v r (by simp; omega)]
        simp; omega

theorem bigSize_ne_nil (v : Nat) : bigSize v ≠ [] := by
  unfold bigSize; split <;> (try split) <;> (try split) <;> simp

/-- well-formed record list below type `2^64`: strictly increasing types starting at `m`,
    value sizes within the cap. -/
def RecsOK (cap : Option Nat) : Nat → List Rec → Prop
  | _, [] => True
  | m, r :: rs => m ≤ r.1 ∧ r.1 < 2 ^ 64 ∧ r.2.length < 2 ^ 64 ∧
      overCap cap r.2.length = false ∧ RecsOK cap (r.1 + 1) rs

theorem RecsOK.mono {cap : Option Nat} {m m' : Nat} {rs : List Rec} (h : RecsOK cap m rs) (hm : m' ≤ m) :
    RecsOK cap m' rs := by
  cases rs with
  | nil => trivial
  | cons r rs => exact ⟨by have := h.1; omega, h.2⟩

theorem decTlvAux_enc (cap : Option Nat) : ∀ (rs : List Rec) (fuel m : Nat), rs.length < fuel → RecsOK cap m rs →
    decTlvAux cap fuel (some m) (encTlv rs) = some rs := by
  intro rs
  induction rs with
  | nil =>
    intro fuel m hf _
    cases fuel with
    | zero => simp at hf
    | succ f => simp [decTlvAux, encTlv, encList]
  | cons r rs ih =>
    intro fuel m hf hok
    obtain ⟨hm, ht, hl, hc, hrest⟩ := hok
    cases fuel with
    | zero => simp at hf
    | succ f =>
      have hne : encTlv (r :: rs) ≠ [] := by
        simp only [encTlv, encList, List.flatMap_cons, encRec, List.append_assoc]
        intro h
        have := bigSize_ne_nil r.1
        cases hb : bigSize r.1 with
        | nil => exact this hb
        | cons x xs => rw [hb] at h; simp at h
      have henc : encTlv (r :: rs) = bigSize r.1 ++ (bigSize r.2.length ++ (r.2 ++ encTlv rs)) := by
        simp [encTlv, encList, encRec, List.append_assoc]
      unfold decTlvAux
      cases hb : encTlv (r :: rs) with
      | nil => exact absurd hb hne
      | cons x xs =>
        simp only
        rw [← hb, henc, rdBigSize_enc _ _ ht]
        simp only
        rw [if_neg (by omega), rdBigSize_enc _ _ hl]
        simp only
        rw [hc]
        simp only [Bool.false_eq_true, if_false]
        rw [rdFixed_append _ _ _ rfl]
        simp only
        by_cases hmax : r.1 = 18446744073709551615
        · -- the last admissible type: nothing can follow
          cases rs with
          | nil =>
            have : f ≥ 1 := by simp at hf; omega
            cases f with
            | zero => omega
            | succ f' => simp [decTlvAux, encTlv, encList]
          | cons r' rs' =>
            have := hrest.1; have := hrest.2.1; omega
        · have hbeq : (r.1 == 18446744073709551615) = false := by simp [hmax]
          rw [hbeq]
          simp only [Bool.false_eq_true, if_false]
          rw [ih f (r.1 + 1) (by simp at hf; omega) hrest]

/-- every record takes at least two bytes. -/
theorem encTlv_length (rs : List Rec) : rs.length ≤ (encTlv rs).length := by
  induction rs with
  | nil => simp [encTlv, encList]
  | cons r rs ih =>
    have : (encTlv (r :: rs)).length = (encRec r).length + (encTlv rs).length := by
      simp [encTlv, encList]
    have h1 : 1 ≤ (encRec r).length := by
      unfold encRec
      have := bigSize_ne_nil r.1
      cases hb : bigSize r.1 with
      | nil => exact absurd hb this
      | cons x xs => simp
    simp only [List.length_cons]
    omega

theorem decTlv_enc (cap : Option Nat) (rs : List Rec) (h : RecsOK cap 0 rs) : decTlv cap (encTlv rs) = some rs := by
  unfold decTlv
  exact decTlvAux_enc cap rs _ 0 (by have := encTlv_length rs; omega) h

end LndModel.C02.Codec
