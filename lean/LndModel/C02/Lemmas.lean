/-
C02 — helper lemmas: what every C01 operation does to the two commitment chains, and the
inductive invariants `RelInv` (release rule) and `DiskInv` (durable commitments = memory).
-/
import LndModel.C02.Model
import LndModel.C02.Spec
import LndModel.C01.Props
set_option linter.unusedSimpArgs false
set_option linter.unusedVariables false

namespace LndModel.C02
open LndModel.C01

/-! ### commitment chains under the C01 operations -/

theorem fetch_chains {n : Node} {c : Chain} {a b d e : Nat} {cm : Commit} {n' : Node}
    (h : fetchCommitmentView n c a b d e = .ok (cm, n')) :
    n'.chainL = n.chainL ∧ n'.chainR = n.chainR ∧ cm.height = (n.chain c).tip.height + 1 := by
  unfold fetchCommitmentView at h
  split at h
  · cases h
  · simp only at h
    split at h
    · cases h
    · rename_i hb
      simp only [Except.ok.injEq, Prod.mk.injEq] at h
      refine ⟨by rw [← h.2], by rw [← h.2], ?_⟩
      rw [← h.1]
      unfold buildCommit at hb
      simp only at hb
      generalize commitOuts n.cfg c _ _ _ _ = outs at hb
      split at hb
      · cases hb
      · split at hb
        · cases hb
        · simp only [Except.ok.injEq] at hb; rw [← hb]

/-- the outcome of `SignNextCommitment` on the chains. -/
theorem sign_chains (n : Node) :
    (n.sign).2.1.chainL = n.chainL ∧
    (((n.sign).1 = .ok ∧ n.chainR.pend = [] ∧ ∃ cm, cm.height = n.chainR.tail.height + 1 ∧
        (n.sign).2.1.chainR = { tail := n.chainR.tail, pend := [cm] }) ∨
     ((n.sign).1 ≠ .ok ∧ (n.sign).2.1 = n)) := by
  unfold Node.sign
  split
  · exact ⟨rfl, Or.inr ⟨(by intro h; cases h), rfl⟩⟩
  · rename_i hu
    have hp : n.chainR.pend = [] := by
      cases hp : n.chainR.pend with
      | nil => rfl
      | cons a b => simp [CChain.hasUnacked, hp] at hu
    simp only
    split
    · split
      · rename_i e hf
        exact ⟨rfl, Or.inr ⟨fetch_err hf, rfl⟩⟩
      · rename_i cm n' hf
        obtain ⟨h1, h2, h3⟩ := fetch_chains hf
        refine ⟨by simp only [h1], Or.inl ⟨rfl, hp, cm, ?_, ?_⟩⟩
        · rw [h3]; simp [Node.chain, CChain.tip, hp]
        · simp only [h2, hp, List.nil_append]
    · rename_i e hne
      refine ⟨rfl, Or.inr ⟨?_, rfl⟩⟩
      intro h; exact hne (by simpa using h)

theorem receiveCommit_chains (n : Node) (sv : SigView) :
    (n.receiveCommit sv).2.chainR = n.chainR ∧
    ((n.receiveCommit sv).2.chainL = n.chainL ∨
     ∃ cm, cm.height = n.chainL.tip.height + 1 ∧
       (n.receiveCommit sv).2.chainL = { tail := n.chainL.tail, pend := n.chainL.pend ++ [cm] }) := by
  unfold Node.receiveCommit
  simp only
  split
  · split
    · exact ⟨rfl, Or.inl rfl⟩
    · rename_i cm n' hf
      obtain ⟨h1, h2, h3⟩ := fetch_chains hf
      split
      · refine ⟨by simp only [h2], Or.inr ⟨cm, ?_, ?_⟩⟩
        · rw [h3]; rfl
        · simp only [h1]
      · exact ⟨rfl, Or.inl rfl⟩
  · exact ⟨rfl, Or.inl rfl⟩

theorem resolveLocal_chains (n : Node) (ty : ETy) (i : Nat) (p : Bool) :
    (n.resolveLocal ty i p).2.chainL = n.chainL ∧ (n.resolveLocal ty i p).2.chainR = n.chainR := by
  unfold Node.resolveLocal
  split
  · exact ⟨rfl, rfl⟩
  · simp only
    split
    · exact ⟨rfl, rfl⟩
    · split <;> exact ⟨rfl, rfl⟩

theorem resolveRemote_chains (n : Node) (ty : ETy) (i : Nat) (p : Bool) :
    (n.resolveRemote ty i p).2.chainL = n.chainL ∧ (n.resolveRemote ty i p).2.chainR = n.chainR := by
  unfold Node.resolveRemote
  split
  · exact ⟨rfl, rfl⟩
  · simp only
    split
    · exact ⟨rfl, rfl⟩
    · split <;> exact ⟨rfl, rfl⟩

/-- memory-only calls other than `ReceiveNewCommitment` leave both chains alone. -/
theorem memStep_chains (n : Node) (o : Op)
    (h1 : o ≠ .sign) (h2 : o ≠ .revoke) (h3 : o ≠ .receiveRevocation) (h4 : ∀ sv, o ≠ .receiveCommit sv) :
    (n.step o).2.chainL = n.chainL ∧ (n.step o).2.chainR = n.chainR := by
  cases o <;> simp only [Node.step]
  · unfold Node.addHTLC; simp only; split
    · split <;> exact ⟨rfl, rfl⟩
    · exact ⟨rfl, rfl⟩
  · unfold Node.receiveHTLC; simp only; split
    · exact ⟨rfl, rfl⟩
    · split <;> exact ⟨rfl, rfl⟩
  · exact resolveLocal_chains ..
  · exact resolveLocal_chains ..
  · exact resolveLocal_chains ..
  · exact resolveRemote_chains ..
  · exact resolveRemote_chains ..
  · unfold Node.updateFee; split
    · exact ⟨rfl, rfl⟩
    · split <;> exact ⟨rfl, rfl⟩
  · unfold Node.receiveUpdateFee; split <;> exact ⟨rfl, rfl⟩
  · exact absurd rfl h1
  · exact absurd rfl (h4 _)
  · exact absurd rfl h2
  · exact absurd rfl h3

theorem receiveRevocation_chains (n : Node) :
    (n.receiveRevocation).2.chainL = n.chainL ∧
    ((n.chainR.pend = [] ∧ (n.receiveRevocation).2 = n) ∨
     ∃ c rest, n.chainR.pend = c :: rest ∧ (n.receiveRevocation).2.chainR = { tail := c, pend := rest }) := by
  unfold Node.receiveRevocation
  split
  · rename_i hp; exact ⟨rfl, Or.inl ⟨hp, rfl⟩⟩
  · rename_i c rest hp; exact ⟨rfl, Or.inr ⟨c, rest, hp, rfl⟩⟩

/-! ### consecutive heights of the local chain -/

/-- `l` continues a chain whose last height is `h` with heights `h+1, h+2, …`. -/
def Consec : Nat → List Commit → Prop
  | _, [] => True
  | h, c :: r => c.height = h + 1 ∧ Consec (h + 1) r

/-- height of the last commitment of `l`, `h` if there is none. -/
def lastHeight : Nat → List Commit → Nat
  | h, [] => h
  | _, c :: r => lastHeight c.height r

theorem consec_snoc {h : Nat} {l : List Commit} {cm : Commit} (hc : Consec h l)
    (hh : cm.height = lastHeight h l + 1) : Consec h (l ++ [cm]) := by
  induction l generalizing h with
  | nil => simpa [Consec, lastHeight] using hh
  | cons c r ih =>
    obtain ⟨h1, h2⟩ := hc
    refine ⟨h1, ih h2 ?_⟩
    rw [← h1]; simpa [lastHeight] using hh

theorem getLast_height (l : List Commit) (d : Commit) : (l.getLast?.getD d).height = lastHeight d.height l := by
  induction l generalizing d with
  | nil => rfl
  | cons c r ih => rw [List.getLast?_cons]; simpa [lastHeight] using ih c

theorem tip_height (ch : CChain) : ch.tip.height = lastHeight ch.tail.height ch.pend :=
  getLast_height ch.pend ch.tail

/-! ### the release-rule invariant -/

/-- explicit characterisation of the history of revocations: `ChainTrace t k` — `t` is a legal
    history in which `k` revocations have been produced by `RevokeCurrentCommitment`:
    the next produced one carries secret `k` and point `k+2`; a chan-sync retransmission
    repeats the last produced one. -/
inductive ChainTrace : List RevMsg → Nat → Prop
  | nil : ChainTrace [] 0
  | produced {t k} (src : RevSrc) (h : src ≠ .sync) : ChainTrace t k →
      ChainTrace (t ++ [⟨k, k + 2, src⟩]) (k + 1)
  | sync {t k} : ChainTrace t (k + 1) → ChainTrace (t ++ [⟨k, k + 2, .sync⟩]) (k + 1)

structure RelInv (s : St) : Prop where
  cur : s.cur = s.mem.chainL.tail.height
  disk : s.disk.lc.cm.height = s.cur
  consec : Consec s.mem.chainL.tail.height s.mem.chainL.pend
  below : ∀ m ∈ s.trace, m.secret < s.cur
  staged : ∀ m, s.staged = some m → m = ⟨s.cur - 1, s.cur + 1, .revoke⟩ ∧ 1 ≤ s.cur
  trace : ChainTrace s.trace (s.cur - s.staged.toList.length)

theorem relInv_mem {s : St} (h : RelInv s) (hs : s.staged = none) {n' : Node}
    (hl : n'.chainL = s.mem.chainL ∨ ∃ cm, cm.height = s.mem.chainL.tip.height + 1 ∧
      n'.chainL = { tail := s.mem.chainL.tail, pend := s.mem.chainL.pend ++ [cm] })
    (d : Disk) (hd : d.lc = s.disk.lc) : RelInv { s with mem := n', disk := d } := by
  rcases hl with hl | ⟨cm, hcm, hl⟩
  · refine ⟨?_, ?_, ?_, h.below, h.staged, h.trace⟩
    · show s.cur = n'.chainL.tail.height
      rw [hl]; exact h.cur
    · show d.lc.cm.height = s.cur
      rw [hd]; exact h.disk
    · show Consec n'.chainL.tail.height n'.chainL.pend
      rw [hl]; exact h.consec
  · refine ⟨?_, ?_, ?_, h.below, h.staged, h.trace⟩
    · show s.cur = n'.chainL.tail.height
      rw [hl]; exact h.cur
    · show d.lc.cm.height = s.cur
      rw [hd]; exact h.disk
    · show Consec n'.chainL.tail.height n'.chainL.pend
      rw [hl]
      exact consec_snoc h.consec (by rw [hcm, tip_height])

theorem relInv_advance {s : St} (h : RelInv s) (hs : s.staged = none) (nx : Sec) : RelInv (s.advance nx).2 := by
  unfold St.advance
  split
  · exact h
  · exact relInv_mem h hs (Or.inl (receiveRevocation_chains s.mem).1) _ rfl

theorem relInv_apiStep {s : St} (h : RelInv s) (o : Op) : RelInv (s.apiStep o).2 := by
  unfold St.apiStep
  split
  · exact h
  · rename_i hs
    cases o
    case sign =>
      simp only
      unfold St.sign
      simp only
      split
      · exact relInv_mem h hs (Or.inl (sign_chains s.mem).1) _ rfl
      · exact h
    case revoke =>
      simp only
      unfold St.revokeWrite
      split
      · exact h
      · rename_i c rest hp
        have hrev : s.mem.revoke.2.chainL = { tail := c, pend := rest } := by
          unfold Node.revoke; rw [hp]
        have hc := h.consec
        rw [hp] at hc
        obtain ⟨hc1, hc2⟩ := hc
        refine ⟨?_, ?_, ?_, ?_, ?_, ?_⟩
        · show s.cur + 1 = s.mem.revoke.2.chainL.tail.height
          rw [hrev]; show s.cur + 1 = c.height; rw [hc1, h.cur]
        · show (toDisk s.mem.revoke.2 s.mem.revoke.2.chainL.tail).cm.height = s.cur + 1
          rw [hrev]; show c.height = s.cur + 1; rw [hc1, h.cur]
        · show Consec s.mem.revoke.2.chainL.tail.height s.mem.revoke.2.chainL.pend
          rw [hrev]; show Consec c.height rest; rw [hc1]; exact hc2
        · intro m hm
          have := h.below m hm
          show m.secret < s.cur + 1
          omega
        · intro m hm
          have hm' : (⟨s.cur, s.cur + 2, .revoke⟩ : RevMsg) = m := by
            simpa using hm
          subst hm'
          exact ⟨by simp, by show 1 ≤ s.cur + 1; omega⟩
        · have ht := h.trace
          rw [hs] at ht
          show ChainTrace s.trace (s.cur + 1 - 1)
          simpa using ht
    case receiveRevocation =>
      simp only
      unfold St.receiveRevocation
      exact relInv_advance h hs _
    case receiveCommit sv =>
      simp only [Node.step]
      exact relInv_mem h hs (receiveCommit_chains s.mem sv).2 _ rfl
    all_goals
      simp only
      refine relInv_mem h hs (Or.inl (memStep_chains s.mem _ ?_ ?_ ?_ ?_).1) _ rfl <;> intros <;> simp

theorem relInv_emit {s : St} (h : RelInv s) : RelInv s.emit := by
  unfold St.emit
  split
  · rename_i m hm
    obtain ⟨rfl, h1⟩ := h.staged m hm
    refine ⟨h.cur, h.disk, h.consec, ?_, by simp, ?_⟩
    · intro m' hm'
      simp only [List.mem_append, List.mem_singleton] at hm'
      rcases hm' with hm' | rfl
      · exact h.below m' hm'
      · simp only; omega
    · have ht := h.trace
      simp only [hm, Option.toList_some, List.length_singleton] at ht
      have := ChainTrace.produced .revoke (by decide) ht
      have e1 : s.cur - 1 + 1 = s.cur := by omega
      have e2 : s.cur - 1 + 2 = s.cur + 1 := by omega
      simpa [e1, e2] using this
  · exact h

theorem relInv_crash {s s' : St} (h : RelInv s) (hc : s.crash = .ok s') : RelInv s' := by
  unfold St.crash at hc
  split at hc
  · cases hc
  · rename_i n hr
    simp only [Except.ok.injEq] at hc
    subst hc
    have hn : n.chainL = { tail := s.disk.lc.cm, pend := [] } := by
      unfold restore at hr
      split at hr
      · cases hr
      · simp only [Except.ok.injEq] at hr; rw [← hr]; rfl
    refine ⟨by simp [hn], by simp, by simp [hn, Consec], ?_, by simp, ?_⟩
    · intro m hm
      simp only [List.mem_append] at hm
      rcases hm with hm | hm
      · have := h.below m hm; simp only; rw [h.disk]; exact this
      · cases hs : s.staged with
        | none => simp [hs] at hm
        | some m0 =>
          obtain ⟨rfl, h1⟩ := h.staged m0 hs
          simp only [hs, Option.map_some, Option.toList_some, List.mem_singleton] at hm
          subst hm
          simp only; rw [h.disk]; omega
    · cases hs : s.staged with
      | none =>
        have ht := h.trace
        simp only [hs, Option.toList_none, List.length_nil, Nat.sub_zero] at ht
        simpa [hs, h.disk] using ht
      | some m0 =>
        obtain ⟨rfl, h1⟩ := h.staged m0 hs
        have ht := h.trace
        simp only [hs, Option.toList_some, List.length_singleton] at ht
        have := ChainTrace.produced .lost (by decide) ht
        have e1 : s.cur - 1 + 1 = s.cur := by omega
        have e2 : s.cur - 1 + 2 = s.cur + 1 := by omega
        simpa [hs, h.disk, e1, e2] using this

theorem relInv_syncRevoke {s : St} (h : RelInv s) : RelInv s.syncRevoke := by
  unfold St.syncRevoke
  split
  · exact h
  · rename_i hs
    split
    · exact h
    · rename_i h0
      have hc : 1 ≤ s.cur := by rw [h.cur]; omega
      refine ⟨h.cur, h.disk, h.consec, ?_, by simp [hs], ?_⟩
      · intro m hm
        simp only [List.mem_append, List.mem_singleton] at hm
        rcases hm with hm | rfl
        · exact h.below m hm
        · simp only; rw [h.cur]; omega
      · have ht := h.trace
        simp only [hs, Option.toList_none, List.length_nil, Nat.sub_zero] at ht ⊢
        have e : s.cur = (s.cur - 1) + 1 := by omega
        rw [e] at ht
        have := ChainTrace.sync ht
        have e1 : s.cur - 1 + 1 = s.cur := by omega
        have e2 : s.cur - 1 + 2 = s.cur + 1 := by omega
        rw [← h.cur]
        simpa [e1, e2] using this

theorem relInv_step {s : St} (h : RelInv s) (ev : Ev) : RelInv (s.step ev) := by
  cases ev with
  | op o => exact relInv_apiStep h o
  | emit => exact relInv_emit h
  | crash =>
    simp only [St.step]
    split
    · rename_i s' hc; exact relInv_crash h hc
    · exact h
  | syncRevoke => exact relInv_syncRevoke h
  | recvRevMsg a m =>
    simp only [St.step]
    split
    · exact h
    · rename_i hs
      unfold St.receiveRevocationMsg
      split
      · exact h
      · split
        · exact h
        · exact relInv_advance h hs _

theorem relInv_run {s : St} (h : RelInv s) (evs : List Ev) : RelInv (s.run evs) := by
  unfold St.run
  induction evs generalizing s with
  | nil => exact h
  | cons e es ih => simp only [List.foldl_cons]; exact ih (relInv_step h e)

theorem relInv_init (n : Node) (hp : n.chainL.pend = []) (h0 : n.chainL.tail.height = 0) :
    RelInv (St.init n) := by
  refine ⟨rfl, rfl, by simp [St.init, hp, Consec], by simp [St.init], by simp [St.init], ?_⟩
  simp only [St.init, Option.toList_none, List.length_nil, Nat.sub_zero, h0]
  exact ChainTrace.nil

/-! ### durable commitments = commitments in memory -/

structure DiskInv (s : St) : Prop where
  lc : s.disk.lc.cm = s.mem.chainL.tail
  rc : s.disk.rc.cm = s.mem.chainR.tail
  pend : (s.disk.pend.map (fun p => p.1.cm)).toList = s.mem.chainR.pend
  one : s.mem.chainR.pend.length ≤ 1

theorem diskInv_mem {s : St} (h : DiskInv s) {n' : Node} (hl : n'.chainL.tail = s.mem.chainL.tail)
    (hr : n'.chainR = s.mem.chainR) : DiskInv { s with mem := n' } := by
  refine ⟨?_, ?_, ?_, ?_⟩
  · show s.disk.lc.cm = n'.chainL.tail
    rw [hl]; exact h.lc
  · show s.disk.rc.cm = n'.chainR.tail
    rw [hr]; exact h.rc
  · show (s.disk.pend.map (fun p => p.1.cm)).toList = n'.chainR.pend
    rw [hr]; exact h.pend
  · show n'.chainR.pend.length ≤ 1
    rw [hr]; exact h.one

theorem diskInv_advance {s : St} (h : DiskInv s) (nx : Sec) : DiskInv (s.advance nx).2 := by
  unfold St.advance
  split
  · exact h
  · rename_i c rest hp
    have hR : s.mem.receiveRevocation.2.chainR = { tail := c, pend := rest } := by
      unfold Node.receiveRevocation; rw [hp]
    have hL := (receiveRevocation_chains s.mem).1
    have hone := h.one
    rw [hp] at hone
    have hrest : rest = [] := by
      cases rest with
      | nil => rfl
      | cons a b => simp at hone
    have hpd := h.pend
    rw [hp, hrest] at hpd
    cases hd : s.disk.pend with
    | none => simp [hd] at hpd
    | some p =>
      simp only [hd, Option.map_some, Option.toList_some, List.cons.injEq, and_true] at hpd
      refine ⟨?_, ?_, ?_, ?_⟩
      · show s.disk.lc.cm = s.mem.receiveRevocation.2.chainL.tail
        rw [hL]; exact h.lc
      · show (match some p with | some p => p.1 | none => s.disk.rc).cm = s.mem.receiveRevocation.2.chainR.tail
        rw [hR]; exact hpd
      · show ([] : List Commit) = s.mem.receiveRevocation.2.chainR.pend
        rw [hR, hrest]
      · show s.mem.receiveRevocation.2.chainR.pend.length ≤ 1
        rw [hR, hrest]; simp

theorem diskInv_apiStep {s : St} (h : DiskInv s) (o : Op) : DiskInv (s.apiStep o).2 := by
  unfold St.apiStep
  split
  · exact h
  · cases o
    case sign =>
      simp only
      unfold St.sign
      simp only
      split
      · rename_i hok
        obtain ⟨hL, hR⟩ := sign_chains s.mem
        rcases hR with ⟨_, hp, cm, _, hR⟩ | ⟨hne, _⟩
        · refine ⟨?_, ?_, ?_, ?_⟩
          · show s.disk.lc.cm = s.mem.sign.2.1.chainL.tail
            rw [hL]; exact h.lc
          · show s.disk.rc.cm = s.mem.sign.2.1.chainR.tail
            rw [hR]; exact h.rc
          · show [(toDisk s.mem.sign.2.1 s.mem.sign.2.1.chainR.tip).cm] = s.mem.sign.2.1.chainR.pend
            rw [hR]; rfl
          · show s.mem.sign.2.1.chainR.pend.length ≤ 1
            rw [hR]; simp
        · exact absurd hok hne
      · exact h
    case revoke =>
      simp only
      unfold St.revokeWrite
      split
      · exact h
      · rename_i c rest hp
        have hrevR : s.mem.revoke.2.chainR = s.mem.chainR := by
          unfold Node.revoke; rw [hp]
        refine ⟨rfl, ?_, ?_, ?_⟩
        · show s.disk.rc.cm = s.mem.revoke.2.chainR.tail
          rw [hrevR]; exact h.rc
        · show (s.disk.pend.map (fun p => p.1.cm)).toList = s.mem.revoke.2.chainR.pend
          rw [hrevR]; exact h.pend
        · show s.mem.revoke.2.chainR.pend.length ≤ 1
          rw [hrevR]; exact h.one
    case receiveRevocation =>
      simp only
      unfold St.receiveRevocation
      exact diskInv_advance h _
    case receiveCommit sv =>
      simp only [Node.step]
      obtain ⟨hR, hL⟩ := receiveCommit_chains s.mem sv
      refine diskInv_mem h ?_ hR
      rcases hL with hL | ⟨cm, _, hL⟩ <;> rw [hL]
    all_goals
      simp only
      refine diskInv_mem h (congrArg CChain.tail (memStep_chains s.mem _ ?_ ?_ ?_ ?_).1)
        (memStep_chains s.mem _ ?_ ?_ ?_ ?_).2 <;> intros <;> simp

theorem restore_chains {cfg : Cfg} {d : Disk} {n : Node} (h : restore cfg d = .ok n) :
    n.chainL = (restoreChains d).1 ∧ n.chainR = (restoreChains d).2 ∧ n.cfg = cfg := by
  unfold restore at h
  split at h
  · cases h
  · simp only [Except.ok.injEq] at h; rw [← h]; exact ⟨rfl, rfl, rfl⟩

theorem diskInv_crash {s s' : St} (h : DiskInv s) (hc : s.crash = .ok s') : DiskInv s' := by
  unfold St.crash at hc
  split at hc
  · cases hc
  · rename_i n hr
    simp only [Except.ok.injEq] at hc
    subst hc
    obtain ⟨hL, hR, _⟩ := restore_chains hr
    refine ⟨by simp [hL, restoreChains], by simp [hR, restoreChains], ?_, ?_⟩
    · simp only [hR, restoreChains]; cases s.disk.pend <;> rfl
    · simp only [hR, restoreChains]; cases s.disk.pend <;> simp

theorem diskInv_step {s : St} (h : DiskInv s) (ev : Ev) : DiskInv (s.step ev) := by
  cases ev with
  | op o => exact diskInv_apiStep h o
  | emit =>
    simp only [St.step, St.emit]
    split
    · exact ⟨h.lc, h.rc, h.pend, h.one⟩
    · exact h
  | crash =>
    simp only [St.step]
    split
    · rename_i s' hc; exact diskInv_crash h hc
    · exact h
  | syncRevoke =>
    simp only [St.step, St.syncRevoke]
    split
    · exact h
    · split
      · exact h
      · exact ⟨h.lc, h.rc, h.pend, h.one⟩
  | recvRevMsg a m =>
    simp only [St.step]
    split
    · exact h
    · unfold St.receiveRevocationMsg
      split
      · exact h
      · split
        · exact h
        · exact diskInv_advance h _

theorem diskInv_run {s : St} (h : DiskInv s) (evs : List Ev) : DiskInv (s.run evs) := by
  unfold St.run
  induction evs generalizing s with
  | nil => exact h
  | cons e es ih => simp only [List.foldl_cons]; exact ih (diskInv_step h e)

theorem diskInv_init (n : Node) (hp : n.chainR.pend = []) : DiskInv (St.init n) :=
  ⟨rfl, rfl, by simp [St.init, hp], by simp [St.init, hp]⟩


/-! ### the peer's commitment points (reject half of C06) -/

/-- what the peer may send: anything, except that a message revealing the TRUE secret of the
    current remote height also carries the true next point (a peer lying about its own next
    point only hurts itself). -/
def Admissible (s : St) : Ev → Prop
  | .recvRevMsg _ m => m.secret = .ofHeight s.disk.rc.cm.height → m.next = .ofHeight (s.disk.rc.cm.height + 2)
  | _ => True

structure PointInv (s : St) : Prop where
  pendH : ∀ c ∈ s.mem.chainR.pend, c.height = s.mem.chainR.tail.height + 1
  rcur : s.disk.rcur = .ofHeight s.disk.rc.cm.height
  rnext : s.disk.rnext = .ofHeight (s.disk.rc.cm.height + 1)

theorem pointInv_same {s s' : St} (h : PointInv s) (hc : s'.mem.chainR = s.mem.chainR)
    (hrc : s'.disk.rc = s.disk.rc) (h1 : s'.disk.rcur = s.disk.rcur) (h2 : s'.disk.rnext = s.disk.rnext) :
    PointInv s' := by
  refine ⟨?_, ?_, ?_⟩
  · rw [hc]; exact h.pendH
  · rw [h1, hrc]; exact h.rcur
  · rw [h2, hrc]; exact h.rnext

theorem pointInv_advance {s : St} (hD : DiskInv s) (h : PointInv s) (nx : Sec)
    (hnx : nx = .ofHeight (s.disk.rc.cm.height + 2)) : PointInv (s.advance nx).2 := by
  unfold St.advance
  split
  · exact h
  · rename_i c rest hp
    have hR : s.mem.receiveRevocation.2.chainR = { tail := c, pend := rest } := by
      unfold Node.receiveRevocation; rw [hp]
    have hone := hD.one
    rw [hp] at hone
    have hrest : rest = [] := by
      cases rest with
      | nil => rfl
      | cons a b => simp at hone
    have hpd := hD.pend
    rw [hp, hrest] at hpd
    have hch : c.height = s.disk.rc.cm.height + 1 := by
      rw [hD.rc]; exact h.pendH c (by rw [hp]; exact List.mem_cons_self)
    cases hd : s.disk.pend with
    | none => simp [hd] at hpd
    | some p =>
      simp only [hd, Option.map_some, Option.toList_some, List.cons.injEq, and_true] at hpd
      refine ⟨?_, ?_, ?_⟩
      · show ∀ c' ∈ s.mem.receiveRevocation.2.chainR.pend, _
        rw [hR, hrest]; intro c' hc'; cases hc'
      · show s.disk.rnext = .ofHeight (match some p with | some p => p.1 | none => s.disk.rc).cm.height
        show s.disk.rnext = .ofHeight p.1.cm.height
        rw [hpd, hch]; exact h.rnext
      · show nx = .ofHeight ((match some p with | some p => p.1 | none => s.disk.rc).cm.height + 1)
        show nx = .ofHeight (p.1.cm.height + 1)
        rw [hpd, hch, hnx]

theorem pointInv_apiStep {s : St} (hD : DiskInv s) (h : PointInv s) (o : Op) : PointInv (s.apiStep o).2 := by
  unfold St.apiStep
  split
  · exact h
  · cases o
    case sign =>
      simp only
      unfold St.sign
      simp only
      split
      · rename_i hok
        obtain ⟨_, hR⟩ := sign_chains s.mem
        rcases hR with ⟨_, hp, cm, hcm, hR⟩ | ⟨hne, _⟩
        · refine ⟨?_, h.rcur, h.rnext⟩
          show ∀ c ∈ s.mem.sign.2.1.chainR.pend, c.height = s.mem.sign.2.1.chainR.tail.height + 1
          rw [hR]
          intro c hc
          simp only [List.mem_singleton] at hc
          rw [hc]; exact hcm
        · exact absurd hok hne
      · exact h
    case revoke =>
      simp only
      unfold St.revokeWrite
      split
      · exact h
      · rename_i c rest hp
        have hrevR : s.mem.revoke.2.chainR = s.mem.chainR := by
          unfold Node.revoke; rw [hp]
        exact pointInv_same h hrevR rfl rfl rfl
    case receiveRevocation =>
      simp only
      unfold St.receiveRevocation
      exact pointInv_advance hD h _ rfl
    case receiveCommit sv =>
      simp only [Node.step]
      exact pointInv_same h (receiveCommit_chains s.mem sv).1 rfl rfl rfl
    all_goals
      simp only
      refine pointInv_same h (memStep_chains s.mem _ ?_ ?_ ?_ ?_).2 rfl rfl rfl <;> intros <;> simp

theorem pointInv_step {s : St} (hD : DiskInv s) (h : PointInv s) (ev : Ev) (ha : Admissible s ev) :
    PointInv (s.step ev) := by
  cases ev with
  | op o => exact pointInv_apiStep hD h o
  | emit =>
    simp only [St.step, St.emit]
    split
    · exact pointInv_same h rfl rfl rfl rfl
    · exact h
  | crash =>
    simp only [St.step]
    split
    · rename_i s' hc
      unfold St.crash at hc
      split at hc
      · cases hc
      · rename_i n hr
        simp only [Except.ok.injEq] at hc
        subst hc
        obtain ⟨_, hR, _⟩ := restore_chains hr
        refine ⟨?_, h.rcur, h.rnext⟩
        show ∀ c ∈ n.chainR.pend, c.height = n.chainR.tail.height + 1
        rw [hR]
        simp only [restoreChains]
        intro c hc
        have hpd := hD.pend
        cases hd : s.disk.pend with
        | none => rw [hd] at hc; cases hc
        | some p =>
          rw [hd] at hc hpd
          simp only [List.mem_singleton] at hc
          simp only [Option.map_some, Option.toList_some] at hpd
          rw [hc, hD.rc]
          exact h.pendH p.1.cm (by rw [← hpd]; exact List.mem_cons_self)
    · exact h
  | syncRevoke =>
    simp only [St.step, St.syncRevoke]
    split
    · exact h
    · split
      · exact h
      · exact pointInv_same h rfl rfl rfl rfl
  | recvRevMsg a m =>
    simp only [St.step]
    split
    · exact h
    · unfold St.receiveRevocationMsg
      split
      · exact h
      · split
        · exact h
        · rename_i hne
          have hsec : m.secret = s.disk.rcur := by simpa using hne
          exact pointInv_advance hD h _ (ha (by rw [hsec, h.rcur]))

/-! ### consequences of `ChainTrace` -/

theorem chainTrace_points {t : List RevMsg} {k : Nat} (h : ChainTrace t k) :
    ∀ m ∈ t, m.nextPoint = m.secret + 2 := by
  induction h with
  | nil => simp
  | produced src hs _ ih =>
    intro m hm
    simp only [List.mem_append, List.mem_singleton] at hm
    rcases hm with hm | rfl
    · exact ih m hm
    · rfl
  | sync _ ih =>
    intro m hm
    simp only [List.mem_append, List.mem_singleton] at hm
    rcases hm with hm | rfl
    · exact ih m hm
    · rfl

def produced (t : List RevMsg) : List RevMsg := t.filter (fun m => m.src != .sync)

theorem chainTrace_produced {t : List RevMsg} {k : Nat} (h : ChainTrace t k) :
    (produced t).map RevMsg.secret = List.range k := by
  induction h with
  | nil => rfl
  | @produced t k src hs _ ih =>
    have : (src != RevSrc.sync) = true := by simpa using hs
    simp [produced, List.filter_append, this, List.range_succ] at ih ⊢
    exact ih
  | sync _ ih =>
    simpa [produced, List.filter_append] using ih

theorem chainTrace_sync {t : List RevMsg} {k : Nat} (h : ChainTrace t k) :
    ∀ a m b, t = a ++ m :: b → m.src = .sync → m.secret + 1 = (produced a).length := by
  induction h with
  | nil => intro a m b h; simp at h
  | @produced t k src hs ht ih =>
    intro a m b hab hm
    rcases List.eq_nil_or_concat b with rfl | ⟨b', y, rfl⟩
    · have := List.append_inj' hab (by simp)
      simp only [List.cons.injEq, and_true] at this
      obtain ⟨_, rfl⟩ := this
      exact absurd hm hs
    · have e : a ++ m :: b'.concat y = (a ++ m :: b') ++ [y] := by simp
      rw [e] at hab
      exact ih a m b' (List.append_inj' hab (by simp)).1 hm
  | @sync t k ht ih =>
    intro a m b hab hm
    rcases List.eq_nil_or_concat b with rfl | ⟨b', y, rfl⟩
    · have := List.append_inj' hab (by simp)
      simp only [List.cons.injEq, and_true] at this
      obtain ⟨rfl, rfl⟩ := this
      have := congrArg List.length (chainTrace_produced ht)
      simp only [List.length_map, List.length_range] at this
      rw [this]
    · have e : a ++ m :: b'.concat y = (a ++ m :: b') ++ [y] := by simp
      rw [e] at hab
      exact ih a m b' (List.append_inj' hab (by simp)).1 hm


/-! ### C01's invariant is decidable -/

theorem forall_chain (P : Chain → Prop) : (∀ c, P c) ↔ P .loc ∧ P .rem :=
  ⟨fun h => ⟨h _, h _⟩, fun h c => by cases c; exact h.1; exact h.2⟩

instance (es : List Entry) : Decidable (UniqueAdds es) := by unfold UniqueAdds; infer_instance
instance (cfg : Cfg) (cm : Commit) : Decidable (Conserved cfg cm) := by unfold Conserved; infer_instance
instance (n : Node) (c : Chain) : Decidable (J1 n c) := by unfold J1; infer_instance

theorem logOK_iff (own other : Log) : LogOK own other ↔
    ((∀ e ∈ own.entries, e.logIndex < own.logIndex) ∧ UniqueAdds own.entries ∧
     (∀ e ∈ own.entries, e.isAdd = true → e.htlcIndex < own.htlcCounter) ∧
     ((resolutions own.entries).map Entry.parent).Nodup ∧
     (∀ r ∈ own.entries, r.isRes = true → r.parent ∈ other.modified) ∧
     (∀ r ∈ own.entries, r.isRes = true → ∃ a ∈ other.entries, a.isAdd = true ∧
        a.htlcIndex = r.parent ∧ a.amt = r.amt ∧
        ((r.rmvH .loc ≠ 0 → a.addH .loc ≠ 0) ∧ (r.rmvH .rem ≠ 0 → a.addH .rem ≠ 0)))) := by
  constructor
  · intro h
    refine ⟨h.idxBound, h.uniq, h.addLt, h.resPar, h.resMod, ?_⟩
    intro r hr hres
    obtain ⟨a, ha, h1, h2, h3, h4⟩ := h.resAdd r hr hres
    exact ⟨a, ha, h1, h2, h3, h4 .loc, h4 .rem⟩
  · rintro ⟨h1, h2, h3, h4, h5, h6⟩
    refine ⟨h1, h2, h3, h4, h5, ?_⟩
    intro r hr hres
    obtain ⟨a, ha, g1, g2, g3, g4, g5⟩ := h6 r hr hres
    exact ⟨a, ha, g1, g2, g3, fun c => by cases c; exact g4; exact g5⟩

instance (own other : Log) : Decidable (LogOK own other) := decidable_of_iff _ (logOK_iff own other).symm

theorem inv_iff (n : Node) : Inv n ↔
    (LogOK n.logL n.logR ∧ LogOK n.logR n.logL ∧
     (∀ e ∈ n.logL.entries, e.onChain .loc = true → e.logIndex < n.chainR.tail.ourMsg) ∧
     (∀ e ∈ n.logR.entries, e.onChain .rem = true → e.logIndex < n.chainL.tail.theirMsg) ∧
     (n.chainL.all.map Commit.theirMsg).Pairwise (· ≤ ·) ∧
     (∀ cm ∈ n.chainL.all, cm.theirMsg ≤ n.logR.logIndex) ∧
     (n.chainR.all.map Commit.ourMsg).Pairwise (· ≤ ·) ∧
     (∀ cm ∈ n.chainR.all, cm.ourMsg ≤ n.logL.logIndex) ∧
     (J1 n .loc ∧ J1 n .rem) ∧
     ((∀ cm ∈ (n.chain .loc).all, Conserved n.cfg cm ∧ outsTotal cm.outs + cm.fee ≤ n.cfg.capacity) ∧
      (∀ cm ∈ (n.chain .rem).all, Conserved n.cfg cm ∧ outsTotal cm.outs + cm.fee ≤ n.cfg.capacity))) := by
  constructor
  · intro h
    exact ⟨h.logL, h.logR, h.covL, h.covR, h.monoL, h.boundL, h.monoR, h.boundR,
      ⟨h.j1 _, h.j1 _⟩, ⟨h.cons _, h.cons _⟩⟩
  · rintro ⟨a, b, c, d, e, f, g, i, j, k⟩
    exact ⟨a, b, c, d, e, f, g, i, (forall_chain _).2 j, (forall_chain _).2 k⟩

instance (n : Node) : Decidable (Inv n) := decidable_of_iff _ (inv_iff n).symm

/-- the executable form of C01's node invariant, evaluated by the driver on the implementation's
    restored state after every probe and every real restart. -/
def invCheck (n : Node) : Bool := decide (Inv n)


/-! ### the height equivalence -/

theorem hEquiv_iff (t a b : Nat) :
    hEquiv t a b = true ↔ ((a = 0 ↔ b = 0) ∧ (a ≤ t ↔ b ≤ t) ∧ (a ≤ t ∨ a = b)) := by
  unfold hEquiv
  simp only [Bool.and_eq_true, Bool.or_eq_true, beq_iff_eq, decide_eq_true_eq]
  constructor
  · rintro ⟨⟨h1, h2⟩, h3⟩
    refine ⟨?_, ?_, h3⟩
    · constructor
      · intro ha
        have : (a == 0) = true := by simpa using ha
        rw [this] at h1
        simpa using h1.symm
      · intro hb
        have : (b == 0) = true := by simpa using hb
        rw [this] at h1
        simpa using h1
    · constructor
      · intro ha
        have : decide (a ≤ t) = true := by simpa using ha
        rw [this] at h2
        simpa using h2.symm
      · intro hb
        have : decide (b ≤ t) = true := by simpa using hb
        rw [this] at h2
        simpa using h2
  · rintro ⟨h1, h2, h3⟩
    refine ⟨⟨?_, ?_⟩, h3⟩
    · by_cases ha : a = 0
      · have hb := h1.mp ha
        subst ha; subst hb; rfl
      · have hb : ¬ b = 0 := fun hb => ha (h1.mpr hb)
        have e1 : (a == 0) = false := by simpa using ha
        have e2 : (b == 0) = false := by simpa using hb
        rw [e1, e2]
    · by_cases ha : a ≤ t
      · have hb := h2.mp ha
        have e1 : decide (a ≤ t) = true := by simpa using ha
        have e2 : decide (b ≤ t) = true := by simpa using hb
        rw [e1, e2]
      · have hb : ¬ b ≤ t := fun hb => ha (h2.mpr hb)
        have e1 : decide (a ≤ t) = false := by simpa using ha
        have e2 : decide (b ≤ t) = false := by simpa using hb
        rw [e1, e2]

end LndModel.C02
