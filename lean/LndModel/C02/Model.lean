/-
C02 — the C01 node (`LndModel.C01.Node` = one in-memory `LightningChannel`) extended with
its durable state (`Disk` = what the channel bucket of channeldb holds) and with the
bookkeeping of the revocation secrets the node has released.

Every API operation is `pre ; single durable write ; post`:

* `SignNextCommitment`      → `AppendRemoteCommitChain` (commit diff incl. its log updates,
                               lastWasRevoke := false) before the signature is returned;
* `RevokeCurrentCommitment` → `UpdateCommitment` (new local commitment, unsigned-acked
                               updates, lastWasRevoke := true, filter of the
                               remote-unsigned-local updates) before the revocation is
                               returned.  The two halves are separate steps here
                               (`revokeWrite`, `emit`) so that a crash can fall between them;
* `ReceiveRevocation`       → `AdvanceCommitChainTail` (pending → current remote commitment,
                               revocation log, forwarding package, filter of the unsigned-acked
                               updates, remote-unsigned-local updates, revocation store);
* all other calls touch memory only.

`restore` is `NewLightningChannel` (restoreCommitState / restoreStateLogs /
restorePendingLocalUpdates / restorePendingRemoteUpdates / restorePeerLocalUpdates);
`crash` replaces the memory by `restore disk`.
-/
import LndModel.C01.Model

namespace LndModel.C02
open LndModel.C01

/-! ## durable state -/

/-- `paymentDescriptor.toLogUpdate`: what a `channeldb.LogUpdate` keeps of a log entry
    (no commit heights; settle/fail carry only the id of the HTLC they resolve). -/
def toUpd (e : Entry) : Entry :=
  match e.ty with
  | .add => { ty := .add, amt := e.amt, logIndex := e.logIndex, htlcIndex := e.htlcIndex,
              expiry := e.expiry, hash := e.hash }
  | .feeUpd => { ty := .feeUpd, amt := e.amt, logIndex := e.logIndex }
  | t => { ty := t, amt := 0, logIndex := e.logIndex, parent := e.parent }

/-- `channeldb.ChannelCommitment`: the commitment plus the `LogIndex` stored with each HTLC
    (same order as `cm.htlcs`). -/
structure DCommit where
  cm : Commit
  lidx : List Nat := []
deriving DecidableEq, Repr, Inhabited

/-- a forwarding package: remote height, ids of the forwarded adds / settles+fails. -/
structure FwdPkg where
  height : Nat
  adds : List Nat
  resolves : List Nat
deriving DecidableEq, Repr, Inhabited

/-- a per-commitment secret of the PEER's chain, symbolically: the producer's secret of a height,
    or anything else.  `pub` (secret ↦ commitment point) is injective, so a commitment point is
    represented by the secret that opens it. -/
inductive Sec where
  | ofHeight (h : Nat)
  | junk (k : Nat)
deriving DecidableEq, Repr, Inhabited

/-- a received revoke_and_ack: the revealed secret and the next commitment point. -/
structure RevIn where
  secret : Sec
  next : Sec
deriving DecidableEq, Repr, Inhabited

structure Disk where
  lc : DCommit                                  -- LocalCommitment
  rc : DCommit                                  -- RemoteCommitment
  pend : Option (DCommit × List Entry) := none  -- commitDiffKey: Commitment, LogUpdates
  ua : Option (List Entry) := none              -- unsignedAckedUpdatesKey (none: key absent)
  rul : Option (List Entry) := none             -- remoteUnsignedLocalUpdatesKey
  lwr : Bool := false                           -- lastWasRevokeKey
  rcur : Sec := .ofHeight 0                     -- RemoteCurrentRevocation (point of the remote tail)
  rnext : Sec := .ofHeight 1                    -- RemoteNextRevocation
  stored : Nat := 0                             -- number of peer secrets in the revocation store
  revLog : List Nat := []                       -- heights in the revocation log
  fwd : List FwdPkg := []                       -- forwarding packages
deriving Repr, Inhabited

inductive RevSrc where
  | revoke   -- returned by RevokeCurrentCommitment
  | sync     -- retransmitted by ProcessChanSyncMsg
  | lost     -- produced by RevokeCurrentCommitment, the node crashed before returning it
deriving DecidableEq, Repr, Inhabited

/-- one revoke_and_ack: index of the secret and of the next commitment point in the node's
    own shachain producer. -/
structure RevMsg where
  secret : Nat
  nextPoint : Nat
  src : RevSrc
deriving DecidableEq, Repr, Inhabited

structure St where
  mem : Node
  cur : Nat := 0                     -- LightningChannel.currentHeight
  disk : Disk
  staged : Option RevMsg := none     -- revocation built, UpdateCommitment done, not yet returned
  trace : List RevMsg := []          -- history variable: every revocation produced, in order
deriving Repr, Inhabited

/-- heights whose secret has left the node. -/
def St.revealed (s : St) : List Nat := (s.trace.filter (fun m => m.src != .lost)).map RevMsg.secret

/-! ## toDiskCommit -/

def htlcLogIndex (n : Node) (h : Htlc) : Nat :=
  ((lookupHtlc (if h.incoming then n.logR.entries else n.logL.entries) h.idx).map Entry.logIndex).getD 0

def toDisk (n : Node) (cm : Commit) : DCommit := ⟨cm, cm.htlcs.map (htlcLogIndex n)⟩

/-! ## NewLightningChannel -/

inductive RErr where
  | noParent            -- nil dereference of `ogHTLC` (panic)
  | logIndexMismatch    -- panic("log index mismatch")
  | htlcIndexMismatch   -- panic("htlc index mismatch")
  | unsignedRemote      -- "attempted to restore an unsigned remote update"
  | unknownMsg          -- "unknown message type"
deriving DecidableEq, Repr, Inhabited

def RErr.toString : RErr → String
  | .noParent => "noParent" | .logIndexMismatch => "logIndexMismatch"
  | .htlcIndexMismatch => "htlcIndexMismatch" | .unsignedRemote => "unsignedRemote"
  | .unknownMsg => "unknownMsg"

/-- Go map semantics: the newest insertion is at the head. -/
def lookupHeight (m : List (Nat × Nat)) (k : Nat) : Nat := ((m.find? (fun p => p.1 == k)).map Prod.snd).getD 0

def DCommit.withIdx (d : DCommit) : List (Htlc × Nat) := d.cm.htlcs.zip (d.lidx ++ List.replicate d.cm.htlcs.length 0)

def DCommit.incoming (d : DCommit) : List (Htlc × Nat) := d.withIdx.filter (fun p => p.1.incoming)
def DCommit.outgoing (d : DCommit) : List (Htlc × Nat) := d.withIdx.filter (fun p => !p.1.incoming)

def resIds (us : List Entry) : List Nat := (us.filter Entry.isRes).map Entry.parent

def addOfHtlc (p : Htlc × Nat) (addL addR : Nat) : Entry :=
  { ty := .add, amt := p.1.amt, logIndex := p.2, htlcIndex := p.1.idx, expiry := p.1.expiry,
    hash := p.1.hash, addL := addL, addR := addR }

/-- a settle/fail rebuilt from the HTLC it resolves. -/
def resOf (t : ETy) (u og : Entry) : Entry :=
  { ty := t, amt := og.amt, logIndex := u.logIndex, parent := og.htlcIndex, hash := og.hash }

/-- `logUpdateToPayDesc(update, remoteUpdateLog, pendingHeight)`. -/
def pendPd (ph : Nat) (lR : Log) (u : Entry) : Except RErr Entry :=
  if u.ty == .add then .ok { u with addL := 0, addR := ph, rmvL := 0, rmvR := 0 }
  else if u.ty == .feeUpd then .ok { ty := .feeUpd, amt := u.amt, logIndex := u.logIndex, addR := ph, rmvR := ph }
  else match lookupHtlc lR.entries u.parent with
    | none => .error .noParent
    | some og => .ok { resOf u.ty u og with rmvR := ph }

/-- entries written by old versions carry no log index for fee updates. -/
def fixFeeIdx (lL : Log) (pd : Entry) : Entry :=
  if pd.ty == .feeUpd && pd.logIndex == 0 && decide (lL.logIndex > 0) then { pd with logIndex := lL.logIndex } else pd

/-- the index assertions of `restorePendingLocalUpdates` and the append. -/
def pendAppend (lL lR : Log) (pd : Entry) : Except RErr (Log × Log) :=
  if pd.logIndex != lL.logIndex then .error .logIndexMismatch
  else if pd.ty == .add then
    (if pd.htlcIndex != lL.htlcCounter then .error .htlcIndexMismatch else .ok (lL.appendHtlc pd, lR))
  else if pd.ty == .feeUpd then .ok (lL.appendUpdate pd, lR)
  else .ok (lL.appendUpdate pd, lR.markModified pd.parent)

/-- one update of `restorePendingLocalUpdates`. -/
def restorePendStep (ph : Nat) (acc : Except RErr (Log × Log)) (u : Entry) : Except RErr (Log × Log) :=
  match acc with
  | .error e => .error e
  | .ok (lL, lR) =>
    match pendPd ph lR u with
    | .error e => .error e
    | .ok pd0 => pendAppend lL lR (fixFeeIdx lL pd0)

/-- `remoteLogUpdateToPayDesc(update, localUpdateLog, localHeight)`. -/
def uaPd (lh : Nat) (lL : Log) (u : Entry) : Except RErr Entry :=
  if u.ty == .add then .ok { u with addL := lh, addR := 0, rmvL := 0, rmvR := 0 }
  else if u.ty == .feeUpd then .ok { ty := .feeUpd, amt := u.amt, logIndex := u.logIndex, addL := lh, rmvL := lh }
  else match lookupHtlc lL.entries u.parent with
    | none => .error .noParent
    | some og => .ok { resOf u.ty u og with rmvL := lh }

/-- an update already covered by the pending remote commitment gets its height. -/
def uaHeights (pend : Option Commit) (pd : Entry) : Entry :=
  match pend with
  | some p =>
    if pd.logIndex < p.theirMsg then
      (if pd.ty == .feeUpd then { pd with addR := p.height, rmvR := p.height } else { pd with rmvR := p.height })
    else pd
  | none => pd

/-- one update of `restorePendingRemoteUpdates`. -/
def restoreUaStep (lh : Nat) (pend : Option Commit) (acc : Except RErr (Log × Log)) (u : Entry) :
    Except RErr (Log × Log) :=
  match acc with
  | .error e => .error e
  | .ok (lL, lR) =>
    match uaPd lh lL u with
    | .error e => .error e
    | .ok pd =>
      if pd.logIndex ≥ lR.logIndex then .error .unsignedRemote
      else if pd.ty == .add then .ok (lL, lR)
      else if pd.ty == .feeUpd then .ok (lL, { lR with entries := lR.entries ++ [uaHeights pend pd] })
      else .ok (lL.markModified pd.parent, { lR with entries := lR.entries ++ [uaHeights pend pd] })

/-- `localLogUpdateToPayDesc(update, remoteUpdateLog, remoteHeight)`. -/
def rulPd (rh : Nat) (lR : Log) (u : Entry) : Except RErr Entry :=
  if u.ty == .add then .error .unknownMsg
  else if u.ty == .feeUpd then .ok { ty := .feeUpd, amt := u.amt, logIndex := u.logIndex, addR := rh, rmvR := rh }
  else match lookupHtlc lR.entries u.parent with
    | none => .error .noParent
    | some og => .ok { resOf u.ty u og with rmvR := rh }

/-- one update of `restorePeerLocalUpdates`. -/
def restoreRulStep (rh : Nat) (acc : Except RErr (Log × Log)) (u : Entry) : Except RErr (Log × Log) :=
  match acc with
  | .error e => .error e
  | .ok (lL, lR) =>
    match rulPd rh lR u with
    | .error e => .error e
    | .ok pd =>
      if pd.ty == .feeUpd then .ok ({ lL with entries := lL.entries ++ [pd] }, lR)
      else .ok ({ lL with entries := lL.entries ++ [pd] }, lR.markModified pd.parent)

/-- the two commitment chains after `restoreCommitState`. -/
def restoreChains (d : Disk) : CChain × CChain :=
  ({ tail := d.lc.cm, pend := [] },
   { tail := d.rc.cm, pend := match d.pend with | some p => [p.1.cm] | none => [] })

/-- the two update logs after `restoreStateLogs`, before the three replay loops. -/
def restoreBaseLogs (d : Disk) : Log × Log :=
  let lh := d.lc.cm.height
  let rh := d.rc.cm.height
  let ua := d.ua.getD []
  let rul := d.rul.getD []
  let pendIncoming : List (Nat × Nat) := match d.pend with
    | some p => p.1.incoming.map (fun q => (q.1.idx, p.1.cm.height))
    | none => []
  let incomingRemoteAdd := (resIds rul).map (fun i => (i, rh)) ++
    (d.rc.incoming.map (fun q => (q.1.idx, rh))).reverse ++ pendIncoming.reverse
  let outgoingLocalAdd := (resIds ua).map (fun i => (i, lh)) ++
    (d.lc.outgoing.map (fun q => (q.1.idx, lh))).reverse
  let logR : Log :=
    { entries := d.lc.incoming.map (fun q => addOfHtlc q lh (lookupHeight incomingRemoteAdd q.1.idx)),
      logIndex := d.lc.cm.theirMsg, htlcCounter := d.lc.cm.theirHtlc }
  let logL : Log :=
    { entries := d.rc.outgoing.map (fun q => addOfHtlc q (lookupHeight outgoingLocalAdd q.1.idx) rh),
      logIndex := d.rc.cm.ourMsg, htlcCounter := d.rc.cm.ourHtlc }
  (logL, logR)

/-- `restoreStateLogs`: the local log is rebuilt in log-index order (remote-unsigned-local
    updates, then the updates of the pending commit diff), then the unsigned-acked remote updates. -/
def restoreLogs (d : Disk) : Except RErr (Log × Log) :=
  let base : Except RErr (Log × Log) := .ok (restoreBaseLogs d)
  let s1 := (d.rul.getD []).foldl (restoreRulStep d.rc.cm.height) base
  let s2 := match d.pend with
    | some p => p.2.foldl (restorePendStep p.1.cm.height) s1
    | none => s1
  (d.ua.getD []).foldl (restoreUaStep d.lc.cm.height (d.pend.map (fun p => p.1.cm))) s2

/-- `NewLightningChannel`. -/
def restore (cfg : Cfg) (d : Disk) : Except RErr Node :=
  match restoreLogs d with
  | .error e => .error e
  | .ok (lL, lR) =>
    .ok { cfg := cfg, logL := lL, logR := lR, chainL := (restoreChains d).1, chainR := (restoreChains d).2 }

/-! ## the three writing operations -/

/-- `createCommitDiff`: the local log entries committed at exactly this remote height. -/
def diffUpdates (n : Node) (h : Nat) : List Entry :=
  (n.logL.entries.filter (fun e => e.addR == h || e.rmvR == h)).map toUpd

/-- `getUnsignedAckedUpdates`. -/
def unsignedAcked (n : Node) : List Entry :=
  (n.logR.entries.filter (fun e => decide (n.chainR.tail.theirMsg ≤ e.logIndex) &&
    decide (e.logIndex < n.chainL.tail.theirMsg))).map toUpd

/-- `unsignedLocalUpdates(remoteTip.messageIndices.Local, localTail.messageIndices.Local)`. -/
def unsignedLocal (n : Node) : List Entry :=
  (n.logL.entries.filter (fun e => !e.isAdd && decide (e.logIndex < n.chainR.tip.ourMsg) &&
    decide (n.chainL.tail.ourMsg ≤ e.logIndex))).map toUpd

/-- `SignNextCommitment` incl. `AppendRemoteCommitChain`. -/
def St.sign (s : St) : Err × St × Option SigView :=
  let r := s.mem.sign
  match r.1 with
  | .ok =>
    let n' := r.2.1
    let cm := n'.chainR.tip
    (.ok, { s with mem := n',
                   disk := { s.disk with pend := some (toDisk n' cm, diffUpdates n' cm.height), lwr := false } },
     r.2.2)
  | e => (e, s, none)

/-- `RevokeCurrentCommitment` up to and including `UpdateCommitment`; the message is staged. -/
def St.revokeWrite (s : St) : Err × St :=
  match s.mem.chainL.pend with
  | [] => (.noPending, s)
  | _ :: _ =>
    let n' := s.mem.revoke.2
    let newLc := toDisk n' n'.chainL.tail
    (.ok, { s with mem := n', cur := s.cur + 1,
                   disk := { s.disk with lc := newLc, ua := some (unsignedAcked n'), lwr := true,
                                         rul := s.disk.rul.map (fun l => l.filter (fun u => decide (newLc.cm.ourMsg ≤ u.logIndex))) },
                   staged := some ⟨s.cur, s.cur + 2, .revoke⟩ })

/-- the staged revocation is handed to the caller. -/
def St.emit (s : St) : St :=
  match s.staged with
  | some m => { s with staged := none, trace := s.trace ++ [m] }
  | none => s

/-- the forwarding package `ReceiveRevocation` builds. -/
def fwdPkgOf (n : Node) : FwdPkg :=
  let remoteTail := n.chainR.tail.height + 1
  let localTail := n.chainL.tail.height
  { height := remoteTail,
    adds := (n.logR.entries.filter (fun e => e.isAdd && e.addR != 0 && e.addL != 0 && e.addR == remoteTail &&
              decide (e.addL ≤ localTail))).map Entry.htlcIndex,
    resolves := (n.logR.entries.filter (fun e => e.isRes && e.rmvR != 0 && e.rmvL != 0 && e.rmvR == remoteTail &&
              decide (e.rmvL ≤ localTail))).map Entry.parent }

/-- the part of `ReceiveRevocation` after the secret has been accepted: rotate the peer's
    commitment points and `AdvanceCommitChainTail`.  The remote-unsigned-local updates are always
    written; the unsigned-acked updates are filtered if the key exists (it is created by the
    node's first `UpdateCommitment`). -/
def St.advance (s : St) (next : Sec) : Err × St :=
  match s.mem.chainR.pend with
  | [] => (.noPending, s)
  | _ :: _ =>
    let newRc := match s.disk.pend with | some p => p.1 | none => s.disk.rc
    (.ok, { s with mem := s.mem.receiveRevocation.2,
                   disk := { s.disk with rc := newRc, pend := none, stored := s.disk.stored + 1,
                                         rcur := s.disk.rnext, rnext := next,
                                         revLog := s.disk.revLog ++ [s.disk.rc.cm.height],
                                         fwd := s.disk.fwd ++ [fwdPkgOf s.mem],
                                         rul := some (unsignedLocal s.mem),
                                         ua := s.disk.ua.map (fun ua =>
                                           ua.filter (fun u => decide (newRc.cm.theirMsg ≤ u.logIndex))) } })

/-- `ReceiveRevocation` of the honest peer's message (secret of the remote tail height, point of
    that height + 2). -/
def St.receiveRevocation (s : St) : Err × St := s.advance (.ofHeight (s.disk.rc.cm.height + 2))

inductive RevRes where
  | storeReject            -- RevocationStore.AddNextEntry refused the secret
  | keyMismatch            -- "revocation key mismatch": pub(secret) ≠ RemoteCurrentRevocation
  | done (e : Err)         -- secret accepted; outcome of the rest of ReceiveRevocation
deriving DecidableEq, Repr, Inhabited

def RevRes.toString : RevRes → String
  | .storeReject => "storeReject" | .keyMismatch => "keyMismatch" | .done e => e.toString

/-- `ReceiveRevocation(msg)` for an ARBITRARY message.  `storeAccepts` is the verdict of
    `RevocationStore.AddNextEntry` (an oracle here: at store indexes without trailing zeros — every
    even remote height — the real store accepts any 32 bytes); then the commitment-point check
    `pub(msg.secret) = RemoteCurrentRevocation`, a symbolic equality. -/
def St.receiveRevocationMsg (s : St) (storeAccepts : Bool) (m : RevIn) : RevRes × St :=
  if !storeAccepts then (.storeReject, s)
  else if m.secret != s.disk.rcur then (.keyMismatch, s)
  else let r := s.advance m.next; (.done r.1, r.2)

/-! ## crash / restart -/

/-- the node stops; memory is rebuilt from the database.  A revocation that was staged but
    not yet returned is lost (recorded in the history as `lost`). -/
def St.crash (s : St) : Except RErr St :=
  match restore s.mem.cfg s.disk with
  | .error e => .error e
  | .ok n => .ok { s with mem := n, cur := s.disk.lc.cm.height, staged := none,
                          trace := s.trace ++ (s.staged.map (fun m => { m with src := .lost })).toList }

/-- `ProcessChanSyncMsg` retransmitting the last revocation (`generateRevocation(localTail - 1)`). -/
def St.syncRevoke (s : St) : St :=
  match s.staged with
  | some _ => s
  | none =>
    if s.mem.chainL.tail.height = 0 then s
    else { s with trace := s.trace ++ [⟨s.mem.chainL.tail.height - 1, s.mem.chainL.tail.height + 1, .sync⟩] }

/-! ## events -/

inductive Ev where
  | op (o : Op)     -- any API call; `.revoke` = `revokeWrite` (message staged)
  | emit            -- RevokeCurrentCommitment returns
  | crash
  | syncRevoke
  | recvRevMsg (storeAccepts : Bool) (m : RevIn)   -- ReceiveRevocation of any message, any store verdict
deriving Repr

def St.apiStep (s : St) (o : Op) : Err × St :=
  match s.staged with
  | some _ => (.ok, s)    -- the channel mutex is held until the staged message is returned
  | none =>
    match o with
    | .sign => let r := s.sign; (r.1, r.2.1)
    | .revoke => s.revokeWrite
    | .receiveRevocation => s.receiveRevocation
    | o => let r := s.mem.step o; (r.1, { s with mem := r.2 })

def St.step (s : St) : Ev → St
  | .op o => (s.apiStep o).2
  | .emit => s.emit
  | .crash => match s.crash with | .ok s' => s' | .error _ => s
  | .syncRevoke => s.syncRevoke
  | .recvRevMsg a m => match s.staged with
    | some _ => s
    | none => (s.receiveRevocationMsg a m).2

def St.run (s : St) (evs : List Ev) : St := evs.foldl St.step s

/-- initial state: freshly funded channel, both commitments at height 0. -/
def St.init (n : Node) : St :=
  { mem := n, cur := n.chainL.tail.height, disk := { lc := toDisk n n.chainL.tail, rc := toDisk n n.chainR.tail } }

/-! ## channel_reestablish (decision table of ProcessChanSyncMsg; used by the driver) -/

inductive SyncErr where
  | ok | localDataLoss | remoteDataLoss | cannotSync | signErr (e : Err)
deriving DecidableEq, Repr, Inhabited

def SyncErr.toString : SyncErr → String
  | .ok => "ok" | .localDataLoss => "localDataLoss" | .remoteDataLoss => "remoteDataLoss"
  | .cannotSync => "cannotSync" | .signErr e => "err:" ++ e.toString

def msgOfUpd (u : Entry) : Msg :=
  match u.ty with
  | .add => .add u.htlcIndex u.amt u.expiry u.hash
  | .settle => .settle u.parent
  | .fail => .fail u.parent
  | .malformed => .fail u.parent
  | .feeUpd => .fee (u.amt / 1000)

def oweLocal (n : Node) : Bool :=
  n.logL.logIndex != n.chainR.tip.ourMsg || n.chainL.tip.theirMsg != n.chainR.tip.theirMsg

/-- `ProcessChanSyncMsg(msg)` with `msg.NextLocalCommitHeight = nextLocal`,
    `msg.RemoteCommitTailHeight = remoteTail`; `lwr` = `LastWasRevoke` as loaded. -/
def St.processSync (s : St) (nextLocal remoteTail : Nat) : SyncErr × St × List Msg :=
  let localTailH := s.mem.chainL.tail.height
  let remoteTailH := s.mem.chainR.tail.height
  let remoteTipH := s.mem.chainR.tip.height
  let lwr := s.disk.lwr
  -- their view of our chain
  let part1 : SyncErr × St × List Msg :=
    if remoteTail > localTailH then (.localDataLoss, s, [])
    else if remoteTail + 1 < localTailH then (.remoteDataLoss, s, [])
    else if remoteTail = localTailH then (.ok, s, [])
    else
      let s1 := s.syncRevoke
      if oweLocal s1.mem then
        let r := s1.sign
        match r.1 with
        | .ok => (.ok, r.2.1, [Msg.revoke] ++ (r.2.2.map Msg.commitSig).toList)
        | .noWindow => (.ok, s1, [Msg.revoke])
        | e => (.signErr e, s1, [])
      else (.ok, s1, [Msg.revoke])
  match part1 with
  | (.ok, s1, ups) =>
    if nextLocal > remoteTipH + 1 then (.cannotSync, s1, [])
    else if nextLocal ≤ remoteTailH then (.remoteDataLoss, s1, [])
    else if nextLocal = remoteTipH + 1 then (.ok, s1, ups)
    else
      match s1.disk.pend with
      | none => (.cannotSync, s1, [])
      | some p =>
        let cu := p.2.map msgOfUpd ++ [Msg.commitSig p.1.cm.sigView]
        (.ok, s1, if lwr then cu ++ ups else ups ++ cu)
  | r => r

end LndModel.C02
