/-
C02 — property theorems about forwarding packages ("forwarding packages … reproduced exactly after
reload"): `PkgFilter` at the byte level and the durable package store across crash points.
-/
import LndModel.C02.FwdLemmas
set_option linter.unusedSimpArgs false
set_option linter.unusedVariables false

namespace LndModel.C02.Fwd

/-- **pkgfilter_isFull_iff**: for EVERY count (multiples of 8 or not) and every byte content,
    `IsFull()` answers true iff `Contains(i)` holds for every `i < count`; bits of the last byte
    beyond `count` are irrelevant. -/
theorem pkgfilter_isFull_iff (f : Filter) (hb : ∀ b ∈ f.bytes, b < 256) :
    f.isFull = true ↔ ∀ i, i < f.count → f.contains i = true := isFull_iff f hb

/-- **pkgfilter_contains_acked**: after `Set` of any list of in-range indices in any order, with
    repetitions, on top of any filter, `Contains(j)` holds exactly for those indices and the ones
    contained before — for every `j`, also outside the count. -/
theorem pkgfilter_contains_acked (is : List Nat) (f : Filter) (hr : ∀ i ∈ is, f.inRange i = true) (j : Nat) :
    (is.foldl Filter.set f).contains j = (is.contains j || f.contains j) := contains_foldl_set is f hr j

/-- **pkgfilter_set_idempotent / commutative** (byte-for-byte equality of the filters). -/
theorem pkgfilter_set_idempotent (f : Filter) (i : Nat) : (f.set i).set i = f.set i := set_idem f i

theorem pkgfilter_set_commutative (f : Filter) (i j : Nat) : (f.set i).set j = (f.set j).set i := set_comm f i j

/-- **pkgfilter_full_after_all_acked**: a fresh filter of ANY count `n < 65529` is full after the
    indices `is` have been set iff `is` covers `0 … n-1` (out-of-order, repeated acks included). -/
theorem pkgfilter_full_after_all_acked (n : Nat) (hn : n < 65529) (is : List Nat) (hr : ∀ i ∈ is, i < n) :
    (is.foldl Filter.set (Filter.new n)).isFull = allBelow n is := by
  have hwf : ∀ (l : List Nat) (f : Filter), f.wf = true → (l.foldl Filter.set f).wf = true := by
    intro l
    induction l with
    | nil => intro f h; exact h
    | cons i r ih => intro f h; exact ih _ (wf_set f i h)
  have hcnt : ∀ (l : List Nat) (f : Filter), (l.foldl Filter.set f).count = f.count := by
    intro l
    induction l with
    | nil => intro f; rfl
    | cons i r ih => intro f; rw [List.foldl_cons, ih]; rfl
  apply isFull_eq_allBelow _ n is (hwf is _ (wf_new n hn)) (by rw [hcnt]; rfl)
  intro j
  rw [contains_foldl_set is (Filter.new n) (fun i hi => inRange_of_lt _ (wf_new n hn) i (hr i hi)) j, contains_new]
  simp

/-- **pkgfilter_encode_decode**: `Decode(Encode(f)) = f` for every count that fits the uint16 and
    a byte slice of the length `NewPkgFilter`/`Decode` allocate — in particular for every filter
    reachable from `NewPkgFilter(n)`, `n < 65529`, by `Set`. -/
theorem pkgfilter_encode_decode (f : Filter) (hc : f.count < 65536) (hl : f.bytes.length = filterLen f.count) :
    Filter.decode f.encode = some f := decode_encode f hc hl

/-- **reload_matches_history**: after ANY sequence of well-indexed store transactions (package
    creation by `AdvanceCommitChainTail`, `SetFwdFilter`, acknowledgements of adds / settle-fails in
    any order with repetitions, removals) — i.e. at every crash point between two of them — what
    `LoadFwdPkgs` returns is, package by package: the adds and settle/fails it was created with, an
    ack filter with count `len(adds)` containing EXACTLY the acknowledged indices, a settle-fail
    filter likewise, the forwarding filter of the first `SetFwdFilter` (else a fresh empty filter
    of count `len(adds)`), `IsFull` of each filter iff every index below its count was
    acknowledged, and state lockedIn / processed / completed accordingly.  No decode error. -/
theorem reload_matches_history {s : Store} {a : List Hist} (h : Reach s a) :
    ∃ lds, s.loadAll = some lds ∧ All2 Matches lds a := by
  have hI : SInv s a := sinv_of_reach h
  unfold Store.loadAll
  by_cases hs : s.src = true
  · simp only [hs, Bool.not_true, Bool.false_eq_true, if_false]
    exact loadAll_of_all2 hI.rep
  · have hs' : s.src = false := by simpa using hs
    obtain ⟨_, h2⟩ := hI.src hs'
    subst h2
    simp only [hs', Bool.not_false, if_true]
    exact ⟨[], rfl, All2.nil⟩


/-- **valid_acks_succeed**: in every reachable store an acknowledgement transaction whose
    references point at existing indices (or at packages already removed) succeeds — no decode
    error, no out-of-range panic — so `AppendRemoteCommitChain` cannot fail on its `AddAcks` /
    `SettleFailAcks`. -/
theorem valid_acks_succeed {s : Store} {a : List Hist} (h : Reach s a) (hs : s.src = true) (sel : Bool)
    (refs : List (Nat × Nat)) (hok : opOK a (.ack sel refs) = true) : (s.step (.ack sel refs)).1 = .ok := by
  have hI := sinv_of_reach h
  simp only [opOK, List.all_eq_true, Bool.or_eq_true, bne_iff_ne, ne_eq, decide_eq_true_eq] at hok
  have hi : ∀ r ∈ refs, ∀ p ∈ a, p.height = r.1 → r.2 < (if sel then p.sfs.length else p.adds.length) := by
    intro r hr p hp hk
    rcases hok r hr p hp with h1 | h1
    · exact absurd hk h1
    · exact h1
  obtain ⟨l', hl', _⟩ := acks_all2 sel refs hI.rep hi
  simp only [Store.step, Store.ack, hs, Bool.not_true, Bool.false_eq_true, if_false, hl']
  split <;> rfl

/-! ## non-vacuity -/

/-- two adds, the SECOND acknowledged first (count 2 is not a multiple of 8): not full. -/
example : ((Filter.new 2).set 1).isFull = false := by decide
example : (((Filter.new 2).set 1).set 0).isFull = true := by decide
example : (Filter.new 0).isFull = true := by decide
example : Filter.decode ((Filter.new 11).set 9).encode = some ((Filter.new 11).set 9) := by decide

def demoAdds : List Upd := [⟨0, 3, 0, 1000⟩, ⟨0, 4, 1, 2000⟩, ⟨0, 5, 2, 3000⟩]
def demoOps : List FOp :=
  [.add 1 demoAdds [⟨1, 7, 0, 0⟩], .ack false [(1, 2)], .setFwd 1 ((Filter.new 3).set 0), .ack true [(1, 0)],
   .ack false [(1, 0), (1, 2)], .add 2 [] [], .remove [2]]

def demoRun : List FOp → Store × List Hist → Store × List Hist
  | [], x => x
  | op :: r, (s, a) => demoRun r ((s.step op).2, histStep a op)

/-- a reachable store with a partially acknowledged package (hypotheses of `reload_matches_history`). -/
example : Reach (demoRun demoOps ({}, [])).1 (demoRun demoOps ({}, [])).2 := by
  have step : ∀ (op : FOp) (s : Store) (a : List Hist), Reach s a → opOK a op = true →
      Reach (s.step op).2 (histStep a op) := fun op s a h hk => Reach.step op h hk
  simp only [demoOps, demoRun]
  repeat (first | exact Reach.init | (apply step; rotate_left; decide))

example : ((demoRun demoOps ({}, [])).1.loadAll.map (fun l => l.map (fun p => (p.height, p.state.toNat, p.ack.bits)))) =
    some [(1, 1, [true, false, true])] := by decide

end LndModel.C02.Fwd
