/-
C02 driver, stream `fwdpkg` (harness/overlay/channeldb/zz_c02_verif_test.go): the
forwarding-package store of two real channels in one real channeldb, reloaded after every
transaction, and `PkgFilter` alone.

(X) correspondence: every answer of the real code (error class of every transaction, every
    loaded package incl. the three filters byte for byte, `IsFull`, `Contains`) is compared with
    `FwdModel.lean`.
(S) monitor, from the operation history only (`Hist`: what a package was created with, which
    indices have been acknowledged, the first forwarding decision):
  fwdpkg-reload     a reloaded package differs from the pre-crash package: set of heights, state,
                    adds, settle/fails, count or content of the ack / settle-fail / forwarding filter
  fwdpkg-isfull     IsFull() of a loaded filter ≠ "every index below count is contained"
  fwdpkg-state      state ≠ lockedIn (no forwarding decision persisted) / processed / completed
                    (decision persisted, every add and every settle/fail acknowledged)
  fwdpkg-op-failed  a transaction with well-indexed references on existing packages failed
  fwdpkg-ack-without-commitdiff  crash image after an intermediate write transaction of one call:
                    an index is marked acknowledged although no completed earlier operation
                    acknowledged it and the image holds no commit diff carrying it
  (correspondence `write-tx-count`: every operation of the model is ONE write transaction; the
   harness counts the transactions the code commits per call)
  pkgfilter-contains / pkgfilter-isfull / pkgfilter-roundtrip   the same on a bare PkgFilter
-/
import LndModel.Prelude.Lines
import LndModel.C02.FwdModel

open LndModel LndModel.Lines

namespace LndModel.C02.Fwd.Driver

structure FDump where
  ok : Bool := false        -- parsed
  enc : List Nat := []
  full : Bool := false
  bits : List Bool := []
  raw : String := ""
deriving Repr, Inhabited

def parseBits (s : String) : List Bool := if s == "-" then [] else s.toList.map (· == '1')

def parseFDump (tok : String) : FDump :=
  match tok.splitOn "/" with
  | [e, f, b] =>
    match hexBytes? e with
    | some bs => { ok := true, enc := bs, full := f == "1", bits := parseBits b, raw := tok }
    | none => { raw := tok }
  | _ => { raw := tok }

def natD (s : String) : Nat := s.toNat?.getD 0

def parseUpds (s : String) : List Upd :=
  if s == "-" then [] else (s.splitOn ",").filterMap fun t =>
    match t.splitOn ":" with
    | [a, b, c, d] => some ⟨natD a, natD b, natD c, natD d⟩
    | _ => none

def parseNats (s : String) : List Nat := if s == "-" then [] else (s.splitOn ",").map natD

/-- `h:i,h:i` -/
def parseRefs (s : String) : List (Nat × Nat) :=
  if s == "-" then [] else (s.splitOn ",").filterMap fun t =>
    match t.splitOn ":" with
    | [a, b] => some (natD a, natD b)
    | _ => none

/-- `ch:h:i,…` -/
def parseChRefs (s : String) : List (String × Nat × Nat) :=
  if s == "-" then [] else (s.splitOn ",").filterMap fun t =>
    match t.splitOn ":" with
    | [c, a, b] => some (c, natD a, natD b)
    | _ => none

structure LPkg where
  height : Nat
  state : Nat
  adds : List Upd
  sfs : List Upd
  fwd : FDump
  ack : FDump
  sf : FDump
deriving Repr, Inhabited

structure St where
  caseId : String := "0"
  kind : String := ""
  lines : Nat := 0
  cases : Nat := 0
  ops : Nat := 0
  mismatches : Nat := 0
  monitorFails : Nat := 0
  caseMismatch : Nat := 0
  caseMonitor : Nat := 0
  modelOk : Bool := true
  -- kind=filter
  mf : Filter := default            -- model filter
  setHist : List Nat := []          -- indices Set so far
  fcount : Nat := 0
  -- kind=store
  mA : Store := {}
  mB : Store := {}
  hA : List Hist := []
  hB : List Hist := []
  preA : List Hist := []            -- histories before the last operation (for its crash images)
  preB : List Hist := []
  opAdd : List (String × Nat × Nat) := []   -- acknowledgements carried by the last sign operation
  opSf : List (String × Nat × Nat) := []
  txChecked : Nat := 0
  imgChecked : Nat := 0
  curCh : String := ""
  curN : Nat := 0
  curPkgs : List LPkg := []
  loading : Bool := false
  -- statistics
  filterEvals : Nat := 0
  reloads : Nat := 0
  pkgsChecked : Nat := 0
  pkgsPartial : Nat := 0            -- packages with some but not all indices acknowledged
  pkgsNot8 : Nat := 0               -- loaded packages whose add count is not a multiple of 8
  lockedReloads : Nat := 0
  outOfOrder : Nat := 0             -- loaded ack filters with a hole below the highest set index
  completed : Nat := 0
  opKinds : List (String × Nat) := []
  samples : Nat := 0
deriving Inhabited

def bump (l : List (String × Nat)) (k : String) : List (String × Nat) :=
  if l.any (·.1 == k) then l.map (fun p => if p.1 == k then (p.1, p.2 + 1) else p) else l ++ [(k, 1)]

def mismatch (s : St) (detail : String) : IO St := do
  if s.caseMismatch < 3 then
    IO.println s!"MISMATCH case={s.caseId} line={s.lines} {detail}"
  return { s with mismatches := s.mismatches + 1, caseMismatch := s.caseMismatch + 1, modelOk := false }

def monitor (s : St) (clause detail : String) : IO St := do
  if s.caseMonitor < 6 then
    IO.println s!"MONITOR case={s.caseId} clause={clause} line={s.lines} {detail}"
  return { s with monitorFails := s.monitorFails + 1, caseMonitor := s.caseMonitor + 1 }

def resOf (ws : List String) : String :=
  match ws.dropWhile (· ≠ "=>") with
  | _ :: r :: _ => r
  | _ => "?"

def afterArrow (ws : List String) : List String := (ws.dropWhile (· ≠ "=>")).drop 1

def bitsStr (l : List Bool) : String := if l.isEmpty then "-" else String.ofList (l.map (fun b => if b then '1' else '0'))

/-- the model's view of a filter in the harness' format. -/
def showFilter (f : Filter) : String := s!"{bytesHex f.encode}/{if f.isFull then 1 else 0}/{bitsStr f.bits}"

def St.model (s : St) (ch : String) : Store := if ch == "A" then s.mA else s.mB
def St.hist (s : St) (ch : String) : List Hist := if ch == "A" then s.hA else s.hB
def setModel (s : St) (ch : String) (m : Store) : St := if ch == "A" then { s with mA := m } else { s with mB := m }
def setHist (s : St) (ch : String) (h : List Hist) : St := if ch == "A" then { s with hA := h } else { s with hB := h }

/-! ### kind=filter -/

/-- monitor on one dump of a bare filter: Contains = history of Set calls, IsFull = all contained. -/
def filterMonitor (s : St) (d : FDump) (what : String) : IO St := do
  let mut s := { s with filterEvals := s.filterEvals + 1 }
  let want := (List.range s.fcount).map (fun i => s.setHist.contains i)
  if d.bits != want then
    s ← monitor s "pkgfilter-contains" s!"{what}: count={s.fcount}, Set called for {s.setHist}: Contains answers {bitsStr d.bits}, expected {bitsStr want}"
  if d.full != d.bits.all id then
    s ← monitor s "pkgfilter-isfull" s!"{what}: count={s.fcount} Contains={bitsStr d.bits} but IsFull()={d.full}"
  return s

def filterLine (s : St) (ws : List String) : IO St := do
  let s := { s with ops := s.ops + 1 }
  match ws with
  | "FN" :: rest =>
    let n := (kvNat? rest "count").getD 0
    let d := parseFDump ((afterArrow ws).getD 1 "")
    let mut s := { s with mf := Filter.new n, setHist := [], fcount := n }
    if !d.ok then return (← mismatch s s!"unparsed filter dump {d.raw}")
    if kvNat? (afterArrow ws) "size" != some (2 + filterLen n) then
      s ← mismatch s s!"Size() of a filter of count {n}: model={2 + filterLen n} impl={(kv? (afterArrow ws) "size").getD "?"}"
    if showFilter s.mf != d.raw then
      s ← mismatch s s!"NewPkgFilter({n}): model={showFilter s.mf} impl={d.raw}"
    filterMonitor s d s!"NewPkgFilter({n})"
  | "FS" :: rest =>
    let i := (kvNat? rest "i").getD 0
    let impl := resOf ws
    let d := parseFDump ((afterArrow ws).getD 1 "")
    let inr := s.mf.inRange i
    let mut s := s
    if (if inr then "ok" else "panic") != impl then
      s ← mismatch s s!"Set({i}) on count {s.fcount}: model={if inr then "ok" else "panic"} impl={impl}"
    if inr then s := { s with mf := s.mf.set i, setHist := s.setHist ++ [i] }
    if showFilter s.mf != d.raw then
      s ← mismatch s s!"after Set({i}): model={showFilter s.mf} impl={d.raw}"
    if impl != "ok" && i < s.fcount then
      s ← monitor s "pkgfilter-contains" s!"Set({i}) on a filter of count {s.fcount} => {impl}"
    filterMonitor s d s!"after Set({i})"
  | "FO" :: rest =>
    -- Set beyond the count on a decoded copy
    let i := (kvNat? rest "i").getD 0
    let impl := resOf ws
    let inr := s.mf.inRange i
    let m := if inr then s.mf.set i else s.mf
    let d := (afterArrow ws).getD 1 ""
    if (if inr then "ok" else "panic") != impl then
      mismatch s s!"Set({i}) beyond count {s.fcount}: model={if inr then "ok" else "panic"} impl={impl}"
    else if showFilter m != d then
      mismatch s s!"after Set({i}) beyond count {s.fcount}: model={showFilter m} impl={d}"
    else
      -- indices below the count are not disturbed, IsFull still means "all below count"
      let dd := parseFDump d
      if dd.bits != (List.range s.fcount).map (fun j => s.setHist.contains j) || dd.full != dd.bits.all id then
        monitor s "pkgfilter-contains" s!"Set({i}) beyond count {s.fcount} changed the answers below the count: {d}"
      else pure s
  | "FD" :: rest =>
    let enc := (hexBytes? ((kv? rest "enc").getD "")).getD []
    let impl := resOf ws
    let aa := afterArrow ws
    let d := parseFDump (aa.getD 2 "")
    let mut s := s
    if enc != s.mf.encode then
      s ← mismatch s s!"Encode: model={bytesHex s.mf.encode} impl={bytesHex enc}"
    match Filter.decode enc with
    | none =>
      if impl == "ok" then s ← mismatch s s!"Decode({bytesHex enc}): model=err impl=ok"
    | some g =>
      if impl != "ok" then s ← mismatch s s!"Decode({bytesHex enc}): model=ok impl={impl}"
      else if showFilter g != d.raw then s ← mismatch s s!"Decode({bytesHex enc}): model={showFilter g} impl={d.raw}"
    if impl != "ok" || kv? aa "eq" != some "1" then
      s ← monitor s "pkgfilter-roundtrip" s!"Decode(Encode(f)) for count {s.fcount}: {impl} equal={(kv? aa "eq").getD "?"}"
    else
      s ← filterMonitor s d "Decode(Encode(f))"
    return s
  | "FT" :: rest =>
    let enc := (hexBytes? ((kv? rest "enc").getD "")).getD []
    let impl := resOf ws
    let m := if (Filter.decode enc).isSome then "ok" else "err"
    if m != impl then mismatch s s!"Decode of the truncated encoding {bytesHex enc}: model={m} impl={impl}" else pure s
  | _ => mismatch s s!"unparsed filter line"

/-! ### kind=store -/

def loadedOfDump (p : LPkg) : Option Loaded :=
  match Filter.decode p.fwd.enc, Filter.decode p.ack.enc, Filter.decode p.sf.enc with
  | some f, some a, some s =>
    some { height := p.height, state := (match p.state with | 0 => .lockedIn | 1 => .processed | _ => .completed),
           adds := p.adds, sfs := p.sfs, fwd := f, ack := a, sf := s }
  | _, _, _ => none

/-- `IsFull` and `Contains` of a dumped filter, as the implementation answered. -/
def filterAnswersOK (d : FDump) : Bool := d.ok && d.full == d.bits.all id

/-- one reloaded package against the history of its height: the violated clauses (pure; also used
    by the `lnwallet` stream of the C02 driver). -/
def pkgViolations (tag : String) (p : LPkg) (h : Hist) : List (String × String) := Id.run do
  let mut out : List (String × String) := []
  if p.adds != h.adds || p.sfs != h.sfs then
    out := out ++ [("fwdpkg-reload", s!"{tag}: reloaded adds / settle-fails differ from the ones the package was created with ({p.adds.length},{p.sfs.length} vs {h.adds.length},{h.sfs.length} entries)")]
  -- acknowledgement filters: count = number of entries, contains exactly what was acknowledged
  let wantAck := (List.range h.adds.length).map h.acked.contains
  let wantSf := (List.range h.sfs.length).map h.sfAcked.contains
  if !p.ack.ok || p.ack.bits != wantAck then
    out := out ++ [("fwdpkg-reload", s!"{tag}: ack filter after reload {p.ack.raw}, acknowledged adds {h.acked} of {h.adds.length}: expected {bitsStr wantAck}")]
  if !p.sf.ok || p.sf.bits != wantSf then
    out := out ++ [("fwdpkg-reload", s!"{tag}: settle-fail filter after reload {p.sf.raw}, acknowledged {h.sfAcked} of {h.sfs.length}: expected {bitsStr wantSf}")]
  -- forwarding filter: the first persisted decision, else an empty filter over the adds
  let wantFwd := h.fwd.getD (Filter.new h.adds.length)
  if !p.fwd.ok || p.fwd.bits != wantFwd.bits || (Filter.decode p.fwd.enc).map (·.count) != some wantFwd.count then
    out := out ++ [("fwdpkg-reload", s!"{tag}: forwarding filter after reload {p.fwd.raw}, expected count={wantFwd.count} {bitsStr wantFwd.bits} ({if h.fwd.isSome then "the persisted decision" else "no decision persisted yet"})")]
  for (nm, d) in [("forwarding", p.fwd), ("ack", p.ack), ("settle-fail", p.sf)] do
    if d.ok && d.full != d.bits.all id then
      out := out ++ [("fwdpkg-isfull", s!"{tag}: {nm} filter {d.raw}: IsFull()={d.full} but Contains over 0..count-1 = {bitsStr d.bits}")]
  let wantState := h.state.toNat
  if p.state != wantState then
    out := out ++ [("fwdpkg-state", s!"{tag}: state {p.state} after reload; forwarding decision persisted={h.fwd.isSome}, adds acknowledged {h.acked} of {h.adds.length}, settle-fails acknowledged {h.sfAcked} of {h.sfs.length}: expected state {wantState}")]
  return out

def pkgMonitor (s : St) (ch : String) (p : LPkg) (h : Hist) : IO St := do
  let mut s := { s with pkgsChecked := s.pkgsChecked + 1 }
  for (cl, det) in pkgViolations s!"channel {ch} package {p.height}" p h do
    s ← monitor s cl det
  -- statistics
  let wantAck := (List.range h.adds.length).map h.acked.contains
  let nAck := (wantAck.filter id).length
  if 0 < nAck && nAck < h.adds.length then s := { s with pkgsPartial := s.pkgsPartial + 1 }
  if h.adds.length % 8 != 0 then s := { s with pkgsNot8 := s.pkgsNot8 + 1 }
  if h.fwd.isNone && h.adds.length > 0 then s := { s with lockedReloads := s.lockedReloads + 1 }
  if (wantAck.dropWhile id).any id then s := { s with outOfOrder := s.outOfOrder + 1 }
  if h.state.toNat == 2 then s := { s with completed := s.completed + 1 }
  return s

/-- end of one `L` block: compare with the model (X) and with the history (S). -/
def flushLoad (s : St) : IO St := do
  if !s.loading then return s
  let ch := s.curCh
  let pkgs := s.curPkgs
  let mut s := { s with loading := false, curPkgs := [], reloads := s.reloads + 1 }
  if pkgs.length != s.curN then
    s ← mismatch s s!"channel {ch}: {s.curN} packages announced, {pkgs.length} dumped"
  -- (S)
  let hist := s.hist ch
  if pkgs.map (·.height) != hist.map (·.height) then
    s ← monitor s "fwdpkg-reload" s!"channel {ch}: packages after reload at heights {pkgs.map (·.height)}, created and not removed: {hist.map (·.height)}"
  else
    for (p, h) in pkgs.zip hist do
      s ← pkgMonitor s ch p h
  -- (X)
  if s.modelOk then
    match (s.model ch).loadAll with
    | none => s ← mismatch s s!"channel {ch}: model cannot decode its own store"
    | some lds =>
      let impl := pkgs.map loadedOfDump
      if impl.any Option.isNone then
        s ← mismatch s s!"channel {ch}: a dumped filter does not decode"
      else if impl.filterMap id != lds then
        let bad := (pkgs.zip lds).find? (fun (p, l) => loadedOfDump p != some l)
        let det := match bad with
          | some (p, l) => s!"height {p.height}: impl state={p.state} fwd={p.fwd.raw} ack={p.ack.raw} sf={p.sf.raw}; model state={l.state.toNat} fwd={showFilter l.fwd} ack={showFilter l.ack} sf={showFilter l.sf}"
          | none => s!"impl heights {pkgs.map LPkg.height} model heights {lds.map Loaded.height}"
        s ← mismatch s s!"channel {ch}: loaded packages differ: {det}"
      else
        -- IsFull / Contains as answered by the implementation vs the model's
        for (p, l) in pkgs.zip lds do
          if p.fwd.raw != showFilter l.fwd || p.ack.raw != showFilter l.ack || p.sf.raw != showFilter l.sf then
            s ← mismatch s s!"channel {ch} height {p.height}: filter answers impl fwd={p.fwd.raw} ack={p.ack.raw} sf={p.sf.raw}; model fwd={showFilter l.fwd} ack={showFilter l.ack} sf={showFilter l.sf}"
  return s

/-- are all references into existing packages well-indexed (→ the transaction must succeed)? -/
def refsValid (hist : List Hist) (sel : Bool) (refs : List (Nat × Nat)) : Bool :=
  opOK hist (.ack sel refs)

def applyAcks (hist : List Hist) (sel : Bool) (refs : List (Nat × Nat)) : List Hist := histStep hist (.ack sel refs)

def refsOf (crefs : List (String × Nat × Nat)) (ch : String) : List (Nat × Nat) :=
  (crefs.filter (·.1 == ch)).map (·.2)

/-- settle-fail acknowledgements addressed to both channels (`Z`: a source without bucket), one
    transaction: model result + new stores. -/
def modelAckSf (mA mB : Store) (crefs : List (String × Nat × Nat)) : FErr × Store × Store :=
  if crefs.isEmpty then (.ok, mA, mB)
  else
    let ra := mA.ack true (refsOf crefs "A")
    let rb := mB.ack true (refsOf crefs "B")
    if ra.1 != .ok then (ra.1, mA, mB) else if rb.1 != .ok then (rb.1, mA, mB) else (.ok, ra.2, rb.2)

def opLine (s : St) (ws : List String) : IO St := do
  let s ← flushLoad s
  let mut s := { s with ops := s.ops + 1, preA := s.hA, preB := s.hB, opAdd := [], opSf := [] }
  match ws with
  | "O" :: op :: rest =>
    let ch := (kv? rest "ch").getD "A"
    let impl := resOf ws
    s := { s with opKinds := bump s.opKinds s!"{op}_{impl}" }
    -- atomicity: one write transaction per successful operation, none for a failed one
    if let some n := kvNat? (afterArrow ws) "txs" then
      s := { s with txChecked := s.txChecked + 1 }
      let want := if impl == "ok" then 1 else 0
      if n != want then
        s ← mismatch s s!"write-tx-count channel {ch} {op} => {impl}: the model performs {want} atomic write(s), the code committed {n} write transactions"
        s := { s with modelOk := true }
    if op == "sign" then
      s := { s with opAdd := (parseRefs ((kv? rest "acks").getD "-")).map (fun r => (ch, r.1, r.2)),
                    opSf := parseChRefs ((kv? rest "sfacks").getD "-") }
    let m := s.model ch
    let hist := s.hist ch
    match op with
    | "adv" =>
      let h := (kvNat? rest "h").getD 0
      let adds := parseUpds ((kv? rest "adds").getD "-")
      let sfs := parseUpds ((kv? rest "sfs").getD "-")
      if impl != "ok" then
        s ← monitor s "fwdpkg-op-failed" s!"channel {ch}: AdvanceCommitChainTail with a package of {adds.length} adds / {sfs.length} settle-fails => {impl}"
        return { s with modelOk := false }
      s := setModel s ch (m.step (.add h adds sfs)).2
      return setHist s ch (histStep hist (.add h adds sfs))
    | "setfwd" =>
      let h := (kvNat? rest "h").getD 0
      let passed := parseFDump ((kv? (afterArrow ws) "passed").getD "")
      match Filter.decode passed.enc with
      | none =>
        -- the link could not even build its decision (Set on the package's filter panicked)
        if hist.any (·.height == h) then
          s ← monitor s "fwdpkg-reload" s!"channel {ch} package {h}: recording the forwarding decision on the package's FwdFilter => {impl} (filter {passed.raw})"
        return { s with modelOk := false }
      | some f =>
        let (r, m') := m.step (.setFwd h f)
        if r.toString != impl then
          s ← mismatch s s!"channel {ch} SetFwdFilter({h}): model={r.toString} impl={impl}"
        else s := setModel s ch m'
        -- the filter the link passes is the package's own FwdFilter with the decision set
        if (kv? rest "from") == some "reload" then
          if let some p := hist.find? (·.height == h) then
            let base := p.fwd.getD (Filter.new p.adds.length)
            let idx := parseNats ((kv? rest "idx").getD "-")
            let want := idx.foldl Filter.set base
            if want != f then
              s ← monitor s "fwdpkg-reload" s!"channel {ch} package {h}: FwdFilter of the reloaded package with indices {idx} set is {passed.raw}, expected {showFilter want}"
        if impl == "ok" then
          return setHist s ch (histStep hist (.setFwd h f))
        else if hist.any (·.height == h) then
          s ← monitor s "fwdpkg-op-failed" s!"channel {ch}: SetFwdFilter for the existing package {h} => {impl}"
        return s
    | "ackadd" =>
      let refs := parseRefs ((kv? rest "refs").getD "-")
      let (r, m') := m.step (.ack false refs)
      if r.toString != impl then
        s ← mismatch s s!"channel {ch} AckAddHtlcs({refs}): model={r.toString} impl={impl}"
      else s := setModel s ch m'
      if impl == "ok" then return setHist s ch (applyAcks hist false refs)
      else if !hist.isEmpty && refsValid hist false refs then
        s ← monitor s "fwdpkg-op-failed" s!"channel {ch}: AckAddHtlcs({refs}) with valid references => {impl}"
      return s
    | "acksf" =>
      let crefs := parseChRefs ((kv? rest "refs").getD "-")
      let (r, a', b') := modelAckSf s.mA s.mB crefs
      if r.toString != impl then
        s ← mismatch s s!"channel {ch} AckSettleFails({crefs}): model={r.toString} impl={impl}"
      else s := { s with mA := a', mB := b' }
      if impl == "ok" then
        return { s with hA := applyAcks s.hA true (refsOf crefs "A"), hB := applyAcks s.hB true (refsOf crefs "B") }
      else if refsValid s.hA true (refsOf crefs "A") && refsValid s.hB true (refsOf crefs "B") then
        s ← monitor s "fwdpkg-op-failed" s!"channel {ch}: AckSettleFails({crefs}) with valid references => {impl}"
      return s
    | "sign" =>
      -- AppendRemoteCommitChain: AckAddHtlcs(AddAcks) then AckSettleFails(SettleFailAcks), one transaction
      let acks := parseRefs ((kv? rest "acks").getD "-")
      let sfacks := parseChRefs ((kv? rest "sfacks").getD "-")
      let r1 := m.step (.ack false acks)
      let (mA1, mB1) := if ch == "A" then (r1.2, s.mB) else (s.mA, r1.2)
      let (r2, a', b') := modelAckSf mA1 mB1 sfacks
      let r := if r1.1 != .ok then r1.1 else r2
      if r.toString != impl then
        s ← mismatch s s!"channel {ch} AppendRemoteCommitChain(acks {acks}, settle-fail acks {sfacks}): model={r.toString} impl={impl}"
      else if r == .ok then s := { s with mA := a', mB := b' }
      if impl == "ok" then
        s := setHist s ch (applyAcks (s.hist ch) false acks)
        return { s with hA := applyAcks s.hA true (refsOf sfacks "A"), hB := applyAcks s.hB true (refsOf sfacks "B") }
      else if (acks.isEmpty || !hist.isEmpty) && refsValid hist false acks &&
              refsValid s.hA true (refsOf sfacks "A") && refsValid s.hB true (refsOf sfacks "B") then
        s ← monitor s "fwdpkg-op-failed" s!"channel {ch}: AppendRemoteCommitChain with valid acknowledgements {acks} / {sfacks} => {impl}"
      return s
    | "remove" =>
      let hs := parseNats ((kv? rest "hs").getD "-")
      let (r, m') := m.step (.remove hs)
      if r.toString != impl then
        s ← mismatch s s!"channel {ch} RemoveFwdPkgs({hs}): model={r.toString} impl={impl}"
      else s := setModel s ch m'
      if impl == "ok" then return setHist s ch (histStep hist (.remove hs))
      else if (removeFold Hist.height hs hist).isSome && !hist.isEmpty then
        s ← monitor s "fwdpkg-op-failed" s!"channel {ch}: RemoveFwdPkgs({hs}) of existing packages => {impl}"
      return s
    | _ => mismatch s s!"unknown store operation {op}"
  | _ => mismatch s "unparsed operation line"

def step (s : St) (line : String) : IO St := do
  let s := { s with lines := s.lines + 1 }
  let ws := words line
  match ws with
  | "FACT" :: rest =>
    if kvNat? rest "lockedIn" == some 0 && kvNat? rest "processed" == some 1 && kvNat? rest "completed" == some 2 then
      return s
    mismatch s "FwdState constants differ from the model's (0,1,2)"
  | "CASE" :: id :: rest =>
    let s := { s with caseId := id, kind := (kv? rest "kind").getD "", cases := s.cases + 1, caseMismatch := 0,
                      caseMonitor := 0, modelOk := true, mA := {}, mB := {}, hA := [], hB := [], loading := false,
                      curPkgs := [], setHist := [], mf := default, fcount := 0 }
    if s.samples < 4 && (s.cases % 40 == 1 || s.kind == "store") then
      IO.println s!"SAMPLE {line}"
      return { s with samples := s.samples + 1 }
    return s
  | ["END"] => flushLoad s
  | "L" :: rest =>
    let s ← flushLoad s
    let ch := (kv? rest "ch").getD "A"
    if resOf ws != "ok" then
      let s ← monitor s "fwdpkg-reload" s!"channel {ch}: LoadFwdPkgs after a restart => {resOf ws}"
      return { s with modelOk := false }
    return { s with loading := true, curCh := ch, curN := (kvNat? rest "n").getD 0, curPkgs := [] }
  | "LP" :: rest =>
    let p : LPkg :=
      { height := (kvNat? rest "h").getD 0, state := (kvNat? rest "state").getD 9,
        adds := parseUpds ((kv? rest "adds").getD "-"), sfs := parseUpds ((kv? rest "sfs").getD "-"),
        fwd := parseFDump ((kv? rest "fwd").getD ""), ack := parseFDump ((kv? rest "ack").getD ""),
        sf := parseFDump ((kv? rest "sf").getD "") }
    return { s with curPkgs := s.curPkgs ++ [p] }
  | "O" :: _ => opLine s ws
  | "MI" :: rest =>
    -- crash image after write transaction k of the last operation (it committed several)
    let pend := (kvNat? rest "pend").getD 0 == 1
    let k := (kvNat? rest "k").getD 0
    let mut s := { s with imgChecked := s.imgChecked + 1 }
    for (sel, key, nm) in [(false, "acked", "add"), (true, "sfacked", "settle/fail")] do
      let bits := parseChRefs ((kv? rest key).getD "-")
      let bad := bits.filter fun (c, h, i) =>
        let hist := if c == "A" then s.preA else s.preB
        let before := match hist.find? (·.height == h) with
          | some p => (if sel then p.sfAcked else p.acked).contains i
          | none => false
        !(before || (pend && (if sel then s.opSf else s.opAdd).contains (c, h, i)))
      if !bad.isEmpty then
        s ← monitor s "fwdpkg-ack-without-commitdiff" s!"crash after write transaction {k} of one call of channel {(kv? rest "ch").getD "?"}: {nm} indices {bad} are marked acknowledged in their forwarding packages, but no earlier operation acknowledged them and the reloaded channel has {if pend then "a commit diff that does not carry them" else "NO pending commit diff"}"
    return s
  | "HSTAT" :: kvs =>
    for w in kvs do IO.println s!"STAT h_{w}"
    return s
  | [] => return s
  | w :: _ =>
    if s.kind == "filter" && (w == "FN" || w == "FS" || w == "FO" || w == "FD" || w == "FT") then filterLine s ws
    else mismatch s s!"unparsed line: {line.take 60}"

def main : IO Unit := do
  let s ← LndModel.Lines.foldStdin step {}
  let s ← flushLoad s
  IO.println s!"STAT lines={s.lines}"
  IO.println s!"STAT cases={s.cases}"
  IO.println s!"STAT evaluations={s.ops + s.reloads}"
  IO.println s!"STAT nontrivial={s.pkgsChecked + s.filterEvals}"
  IO.println s!"STAT operations={s.ops}"
  IO.println s!"STAT reloads={s.reloads}"
  IO.println s!"STAT packages_checked_after_reload={s.pkgsChecked}"
  IO.println s!"STAT packages_partially_acked_at_reload={s.pkgsPartial}"
  IO.println s!"STAT packages_with_add_count_not_multiple_of_8={s.pkgsNot8}"
  IO.println s!"STAT packages_acked_out_of_index_order_at_reload={s.outOfOrder}"
  IO.println s!"STAT locked_in_packages_reloaded_before_SetFwdFilter={s.lockedReloads}"
  IO.println s!"STAT completed_packages_at_reload={s.completed}"
  IO.println s!"STAT bare_filter_evaluations={s.filterEvals}"
  IO.println s!"STAT operations_with_write_tx_count_checked={s.txChecked}"
  IO.println s!"STAT crash_images_inside_operations_checked={s.imgChecked}"
  for (k, v) in s.opKinds do
    IO.println s!"STAT op_{k}={v}"
  IO.println s!"STAT mismatches={s.mismatches}"
  IO.println s!"STAT monitor_failures={s.monitorFails}"

end LndModel.C02.Fwd.Driver
