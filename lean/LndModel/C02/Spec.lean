/-
C02 — the specification side of `restore_is_signed_projection`: the signed projection of an
in-memory node and the equivalence `≈` between a projected and a restored node.  Executable
(core Lean only); the driver evaluates both on the implementation's own dumps.
-/
import LndModel.C01.Model

namespace LndModel.C02
open LndModel.C01

/-- `a` (height before the crash) and `b` (height after the restart) compare identically in
    every comparison the code makes with a chain whose tail height is `t`, now and after any
    further advance of that tail: `= 0`, `≤ tail'` for every `tail' ≥ t`, and — for heights above
    the tail, i.e. of pending commitments — equality with a commitment height. -/
def hEquiv (t a b : Nat) : Bool :=
  ((a == 0) == (b == 0)) && (decide (a ≤ t) == decide (b ≤ t)) && (decide (a ≤ t) || a == b)

/-- a received but not yet revoked-for commitment is not durable: the heights it set vanish. -/
def zeroPendL (lt : Nat) (e : Entry) : Entry :=
  { e with addL := if e.addL > lt then 0 else e.addL, rmvL := if e.rmvL > lt then 0 else e.rmvL }

/-- two log entries are the same update with equivalent commit heights. -/
def eEquiv (lt rt : Nat) (x p : Entry) : Bool :=
  x.ty == p.ty && x.amt == p.amt && x.logIndex == p.logIndex && x.htlcIndex == p.htlcIndex && x.parent == p.parent &&
  (x.ty != .add || (x.expiry == p.expiry && x.hash == p.hash)) &&
  hEquiv lt x.addL p.addL && hEquiv lt x.rmvL p.rmvL && hEquiv rt x.addR p.addR && hEquiv rt x.rmvR p.rmvR

/-- **the signed projection**: what of an in-memory node is covered by a commitment signature the
    node has sent, or by a received one it has acknowledged with a revocation:
    * own updates below the log index of the newest commitment signed for the peer,
    * peer updates below the log index of the local tail commitment (acknowledged),
    * the local tail commitment and the whole remote chain (received-but-unrevoked local
      commitments and the heights they set are dropped),
    * minus what both tails have fully resolved (`compactLogs` would remove it at the next
      revocation anyway). -/
def signedProj (n : Node) : Node :=
  let lt := n.chainL.tail.height
  let rt := n.chainR.tail.height
  let tip := n.chainR.tip
  let l1 := (n.logL.entries.filter (fun e => decide (e.logIndex < tip.ourMsg))).map (zeroPendL lt)
  let r1 := (n.logR.entries.filter (fun e => decide (e.logIndex < n.chainL.tail.theirMsg))).map (zeroPendL lt)
  let logL : Log := { entries := l1, logIndex := tip.ourMsg, htlcCounter := tip.ourHtlc,
                      modified := (r1.filter Entry.isRes).map Entry.parent }
  let logR : Log := { entries := r1, logIndex := n.chainL.tail.theirMsg, htlcCounter := n.chainL.tail.theirHtlc,
                      modified := (l1.filter Entry.isRes).map Entry.parent }
  let c := compactLogs lt rt logL logR
  { cfg := n.cfg, logL := c.1, logR := c.2, chainL := { tail := n.chainL.tail, pend := [] }, chainR := n.chainR }

def entryKey (e : Entry) : Nat × Nat := (if e.isAdd then 0 else 1, if e.isAdd then e.htlcIndex else e.logIndex)

/-- the same updates (as sets) with equivalent heights. -/
def logEquiv (lt rt : Nat) (a b : List Entry) : Bool :=
  a.length == b.length &&
  a.all (fun x => b.any (fun p => entryKey p == entryKey x && eEquiv lt rt x p)) &&
  b.all (fun p => a.any (fun x => entryKey p == entryKey x))

def sameSet (a b : List Nat) : Bool := a.all b.contains && b.all a.contains

/-- the commitment fee rate is taken from the LAST FeeUpdate in list order: it must be the newest. -/
def feeOrderOK (l : List Entry) : Bool :=
  match (l.filter Entry.isFee).getLast? with
  | none => true
  | some last => (l.filter Entry.isFee).all (fun e => decide (e.logIndex ≤ last.logIndex))

/-- **`≈`**: `p` (a signed projection) and `r` (a restored node) are equal except that a non-zero
    commit height at or below a chain tail may be any other such height. -/
def nodeEquiv (p r : Node) : Bool :=
  let lt := p.chainL.tail.height
  let rt := p.chainR.tail.height
  decide (p.cfg = r.cfg) &&
  decide (p.chainL.tail = r.chainL.tail) && decide (p.chainL.pend = r.chainL.pend) &&
  decide (p.chainR.tail = r.chainR.tail) && decide (p.chainR.pend = r.chainR.pend) &&
  p.logL.logIndex == r.logL.logIndex && p.logL.htlcCounter == r.logL.htlcCounter &&
  p.logR.logIndex == r.logR.logIndex && p.logR.htlcCounter == r.logR.htlcCounter &&
  logEquiv lt rt p.logL.entries r.logL.entries && logEquiv lt rt p.logR.entries r.logR.entries &&
  sameSet p.logL.modified r.logL.modified && sameSet p.logR.modified r.logR.modified &&
  feeOrderOK r.logL.entries && feeOrderOK r.logR.entries

end LndModel.C02
