/-
C02 — the forwarding packages of the channel state machine model (`Disk.fwd`): exactly one per
revoked remote commitment height, created by `ReceiveRevocation` / `AdvanceCommitChainTail`, and no
state-machine call, crash or restart ever changes or drops an existing one.
-/
import LndModel.C02.Lemmas
set_option linter.unusedSimpArgs false
set_option linter.unusedVariables false

namespace LndModel.C02
open LndModel.C01

structure FwdInv (s : St) : Prop where
  pendH : ∀ c ∈ s.mem.chainR.pend, c.height = s.mem.chainR.tail.height + 1
  heights : s.disk.fwd.map FwdPkg.height = (List.range s.disk.rc.cm.height).map (· + 1)

theorem fwdInv_same {s s' : St} (h : FwdInv s) (hc : s'.mem.chainR = s.mem.chainR)
    (hrc : s'.disk.rc = s.disk.rc) (hf : s'.disk.fwd = s.disk.fwd) : FwdInv s' := by
  refine ⟨?_, ?_⟩
  · rw [hc]; exact h.pendH
  · rw [hf, hrc]; exact h.heights

/-- `IsPrefix` without Mathlib. -/
def Extends (a b : List FwdPkg) : Prop := ∃ l, b = a ++ l

theorem extends_refl (a : List FwdPkg) : Extends a a := ⟨[], by simp⟩
theorem extends_trans {a b c : List FwdPkg} (h1 : Extends a b) (h2 : Extends b c) : Extends a c := by
  obtain ⟨l1, rfl⟩ := h1; obtain ⟨l2, rfl⟩ := h2; exact ⟨l1 ++ l2, by simp⟩

theorem fwdInv_advance {s : St} (hD : DiskInv s) (h : FwdInv s) (nx : Sec) :
    FwdInv (s.advance nx).2 ∧ Extends s.disk.fwd (s.advance nx).2.disk.fwd := by
  unfold St.advance
  split
  · exact ⟨h, extends_refl _⟩
  · rename_i c rest hp
    have hR : s.mem.receiveRevocation.2.chainR = { tail := c, pend := rest } := by
      unfold Node.receiveRevocation; rw [hp]
    have hone := hD.one
    rw [hp] at hone
    have hrest : rest = [] := by
      cases rest with
      | nil => rfl
      | cons a b => simp at hone
    have hpd := hD.pend
    rw [hp, hrest] at hpd
    have hch : c.height = s.disk.rc.cm.height + 1 := by
      rw [hD.rc]; exact h.pendH c (by rw [hp]; exact List.mem_cons_self)
    cases hd : s.disk.pend with
    | none => simp [hd] at hpd
    | some p =>
      simp only [hd, Option.map_some, Option.toList_some, List.cons.injEq, and_true] at hpd
      refine ⟨⟨?_, ?_⟩, ⟨[fwdPkgOf s.mem], rfl⟩⟩
      · show ∀ c' ∈ s.mem.receiveRevocation.2.chainR.pend, _
        rw [hR, hrest]; intro c' hc'; cases hc'
      · show (s.disk.fwd ++ [fwdPkgOf s.mem]).map FwdPkg.height = (List.range p.1.cm.height).map (· + 1)
        rw [hpd, hch, List.range_succ, List.map_append, List.map_append, h.heights]
        simp only [List.map_cons, List.map_nil, fwdPkgOf, hD.rc]

theorem fwdInv_apiStep {s : St} (hD : DiskInv s) (h : FwdInv s) (o : Op) :
    FwdInv (s.apiStep o).2 ∧ Extends s.disk.fwd (s.apiStep o).2.disk.fwd := by
  unfold St.apiStep
  split
  · exact ⟨h, extends_refl _⟩
  · cases o
    case sign =>
      simp only
      unfold St.sign
      simp only
      split
      · rename_i hok
        obtain ⟨_, hR⟩ := sign_chains s.mem
        rcases hR with ⟨_, hp, cm, hcm, hR⟩ | ⟨hne, _⟩
        · refine ⟨⟨?_, h.heights⟩, extends_refl _⟩
          show ∀ c ∈ s.mem.sign.2.1.chainR.pend, c.height = s.mem.sign.2.1.chainR.tail.height + 1
          rw [hR]
          intro c hc
          simp only [List.mem_singleton] at hc
          rw [hc]; exact hcm
        · exact absurd hok hne
      · exact ⟨h, extends_refl _⟩
    case revoke =>
      simp only
      unfold St.revokeWrite
      split
      · exact ⟨h, extends_refl _⟩
      · rename_i c rest hp
        have hrevR : s.mem.revoke.2.chainR = s.mem.chainR := by
          unfold Node.revoke; rw [hp]
        exact ⟨fwdInv_same h hrevR rfl rfl, extends_refl _⟩
    case receiveRevocation =>
      simp only
      unfold St.receiveRevocation
      exact fwdInv_advance hD h _
    case receiveCommit sv =>
      simp only [Node.step]
      exact ⟨fwdInv_same h (receiveCommit_chains s.mem sv).1 rfl rfl, extends_refl _⟩
    all_goals
      simp only
      refine ⟨fwdInv_same h (memStep_chains s.mem _ ?_ ?_ ?_ ?_).2 rfl rfl, extends_refl _⟩ <;> intros <;> simp

theorem fwdInv_step {s : St} (hD : DiskInv s) (h : FwdInv s) (ev : Ev) :
    FwdInv (s.step ev) ∧ Extends s.disk.fwd (s.step ev).disk.fwd := by
  cases ev with
  | op o => exact fwdInv_apiStep hD h o
  | emit =>
    simp only [St.step, St.emit]
    split
    · exact ⟨fwdInv_same h rfl rfl rfl, extends_refl _⟩
    · exact ⟨h, extends_refl _⟩
  | crash =>
    simp only [St.step]
    split
    · rename_i s' hc
      unfold St.crash at hc
      split at hc
      · cases hc
      · rename_i n hr
        simp only [Except.ok.injEq] at hc
        subst hc
        obtain ⟨_, hR, _⟩ := restore_chains hr
        refine ⟨⟨?_, h.heights⟩, extends_refl _⟩
        show ∀ c ∈ n.chainR.pend, c.height = n.chainR.tail.height + 1
        rw [hR]
        simp only [restoreChains]
        intro c hc
        have hpd := hD.pend
        cases hd : s.disk.pend with
        | none => rw [hd] at hc; cases hc
        | some p =>
          rw [hd] at hc hpd
          simp only [List.mem_singleton] at hc
          simp only [Option.map_some, Option.toList_some] at hpd
          rw [hc, hD.rc]
          exact h.pendH p.1.cm (by rw [← hpd]; exact List.mem_cons_self)
    · exact ⟨h, extends_refl _⟩
  | syncRevoke =>
    simp only [St.step, St.syncRevoke]
    split
    · exact ⟨h, extends_refl _⟩
    · split
      · exact ⟨h, extends_refl _⟩
      · exact ⟨fwdInv_same h rfl rfl rfl, extends_refl _⟩
  | recvRevMsg a m =>
    simp only [St.step]
    split
    · exact ⟨h, extends_refl _⟩
    · unfold St.receiveRevocationMsg
      split
      · exact ⟨h, extends_refl _⟩
      · split
        · exact ⟨h, extends_refl _⟩
        · exact fwdInv_advance hD h _

theorem fwdInv_run {s : St} (hD : DiskInv s) (h : FwdInv s) (evs : List Ev) :
    FwdInv (s.run evs) ∧ Extends s.disk.fwd (s.run evs).disk.fwd := by
  induction evs generalizing s with
  | nil => exact ⟨h, extends_refl _⟩
  | cons e r ih =>
    obtain ⟨h1, h2⟩ := fwdInv_step hD h e
    obtain ⟨h3, h4⟩ := ih (diskInv_step hD e) h1
    exact ⟨h3, extends_trans h2 h4⟩

end LndModel.C02
