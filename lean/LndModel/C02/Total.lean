/-
C02 — totality of `restore` on well-formed durable states.

`diskWF d` is an executable predicate (evaluated by the driver on the real database content);
`restore_ok_of_wf`: it implies that `restore` succeeds.
-/
import LndModel.C02.Model
set_option linter.unusedSimpArgs false
set_option linter.unusedVariables false

namespace LndModel.C02
open LndModel.C01

def incomingIdx (d : DCommit) : List Nat := d.incoming.map (fun q => q.1.idx)
def outgoingIdx (d : DCommit) : List Nat := d.outgoing.map (fun q => q.1.idx)

def pendUpdates (d : Disk) : List Entry := match d.pend with | some p => p.2 | none => []

def pendAddIdx (d : Disk) : List Nat := ((pendUpdates d).filter (fun u => u.ty == .add)).map Entry.htlcIndex

def isResTy (t : ETy) : Bool := t != .add && t != .feeUpd

/-- the updates of a commit diff: consecutive log indices from `li` (a fee update written by an
    old version may carry index 0), adds with consecutive htlc indices from `hc`, settles/fails
    of HTLCs in `inc`. -/
def pendOK (inc : List Nat) : Nat → Nat → List Entry → Bool
  | _, _, [] => true
  | li, hc, u :: r =>
    (u.logIndex == li || (u.ty == .feeUpd && u.logIndex == 0)) &&
    (u.ty != .add || u.htlcIndex == hc) &&
    (!isResTy u.ty || inc.contains u.parent) &&
    pendOK inc (li + 1) (if u.ty == .add then hc + 1 else hc) r

def rulOK (d : Disk) : Bool :=
  (d.rul.getD []).all (fun u => u.ty != .add && (!isResTy u.ty || (incomingIdx d.lc).contains u.parent))

def uaOK (d : Disk) : Bool :=
  (d.ua.getD []).all (fun u => decide (u.logIndex < d.lc.cm.theirMsg) &&
    (!isResTy u.ty || (outgoingIdx d.rc).contains u.parent || (pendAddIdx d).contains u.parent))

/-- executable well-formedness of a durable state. -/
def diskWF (d : Disk) : Bool :=
  rulOK d && pendOK (incomingIdx d.lc) d.rc.cm.ourMsg d.rc.cm.ourHtlc (pendUpdates d) && uaOK d

def DiskWF (d : Disk) : Prop := diskWF d = true

theorem diskWF_spec (d : Disk) (h : diskWF d = true) : DiskWF d := h

/-! ### lookups -/

def hasAdd (es : List Entry) (i : Nat) : Prop := ∃ e ∈ es, e.isAdd = true ∧ e.htlcIndex = i

theorem lookup_of_hasAdd {es : List Entry} {i : Nat} (h : hasAdd es i) : ∃ og, lookupHtlc es i = some og := by
  obtain ⟨e, he, h1, h2⟩ := h
  have : (es.find? (fun e => e.isAdd && e.htlcIndex == i)).isSome = true := by
    rw [List.find?_isSome]; exact ⟨e, he, by simp [h1, h2]⟩
  exact Option.isSome_iff_exists.mp this

theorem hasAdd_append {es : List Entry} {i : Nat} (x : List Entry) (h : hasAdd es i) : hasAdd (es ++ x) i := by
  obtain ⟨e, he, h1⟩ := h
  exact ⟨e, List.mem_append_left _ he, h1⟩

theorem base_hasAddR (d : Disk) {i : Nat} (h : (incomingIdx d.lc).contains i = true) :
    hasAdd (restoreBaseLogs d).2.entries i := by
  simp only [incomingIdx, List.contains_iff_mem, List.mem_map] at h
  obtain ⟨q, hq, rfl⟩ := h
  unfold hasAdd restoreBaseLogs
  simp only [List.mem_map]
  exact ⟨_, ⟨q, hq, rfl⟩, rfl, rfl⟩

theorem base_hasAddL (d : Disk) {i : Nat} (h : (outgoingIdx d.rc).contains i = true) :
    hasAdd (restoreBaseLogs d).1.entries i := by
  simp only [outgoingIdx, List.contains_iff_mem, List.mem_map] at h
  obtain ⟨q, hq, rfl⟩ := h
  unfold hasAdd restoreBaseLogs
  simp only [List.mem_map]
  exact ⟨_, ⟨q, hq, rfl⟩, rfl, rfl⟩

/-! ### stage 1: remote-unsigned-local updates -/

structure S1 (d : Disk) (lL lR : Log) : Prop where
  rEntries : lR.entries = (restoreBaseLogs d).2.entries
  rIdx : lR.logIndex = d.lc.cm.theirMsg
  lIdx : lL.logIndex = d.rc.cm.ourMsg
  lCnt : lL.htlcCounter = d.rc.cm.ourHtlc
  lAdds : ∀ i, hasAdd (restoreBaseLogs d).1.entries i → hasAdd lL.entries i

theorem isResTy_iff (t : ETy) : isResTy t = true ↔ (t ≠ .add ∧ t ≠ .feeUpd) := by
  cases t <;> simp [isResTy]

theorem rulPd_ok (rh : Nat) (lR : Log) (u : Entry) (hna : u.ty ≠ .add)
    (hres : isResTy u.ty = true → hasAdd lR.entries u.parent) : ∃ pd, rulPd rh lR u = .ok pd := by
  unfold rulPd
  have h1 : (u.ty == ETy.add) = false := by simpa using hna
  simp only [h1, Bool.false_eq_true, if_false]
  by_cases hf : u.ty = .feeUpd
  · simp only [hf, beq_self_eq_true, if_true]; exact ⟨_, rfl⟩
  · have h2 : (u.ty == ETy.feeUpd) = false := by simpa using hf
    obtain ⟨og, hog⟩ := lookup_of_hasAdd (hres ((isResTy_iff _).2 ⟨hna, hf⟩))
    simp only [h2, Bool.false_eq_true, if_false, hog]
    exact ⟨_, rfl⟩

theorem rulStep_ok (d : Disk) (rh : Nat) {lL lR : Log} (h : S1 d lL lR) (u : Entry)
    (hu : (u.ty != .add && (!isResTy u.ty || (incomingIdx d.lc).contains u.parent)) = true) :
    ∃ lL' lR', restoreRulStep rh (.ok (lL, lR)) u = .ok (lL', lR') ∧ S1 d lL' lR' := by
  simp only [Bool.and_eq_true, bne_iff_ne, ne_eq, Bool.or_eq_true, Bool.not_eq_true'] at hu
  obtain ⟨hna, hres⟩ := hu
  have hres' : isResTy u.ty = true → hasAdd lR.entries u.parent := by
    intro hr
    rcases hres with hres | hres
    · rw [hr] at hres; cases hres
    · rw [h.rEntries]; exact base_hasAddR d hres
  obtain ⟨pd, hpd⟩ := rulPd_ok rh lR u hna hres'
  unfold restoreRulStep
  simp only [hpd]
  split
  · exact ⟨_, _, rfl, ⟨h.rEntries, h.rIdx, h.lIdx, h.lCnt, fun i hi => hasAdd_append _ (h.lAdds i hi)⟩⟩
  · exact ⟨_, _, rfl, ⟨h.rEntries, h.rIdx, h.lIdx, h.lCnt, fun i hi => hasAdd_append _ (h.lAdds i hi)⟩⟩

theorem rulFold_ok (d : Disk) (rh : Nat) (us : List Entry) {lL lR : Log} (h : S1 d lL lR)
    (hu : us.all (fun u => u.ty != .add && (!isResTy u.ty || (incomingIdx d.lc).contains u.parent)) = true) :
    ∃ lL' lR', us.foldl (restoreRulStep rh) (.ok (lL, lR)) = .ok (lL', lR') ∧ S1 d lL' lR' := by
  induction us generalizing lL lR with
  | nil => exact ⟨lL, lR, rfl, h⟩
  | cons u r ih =>
    simp only [List.all_cons, Bool.and_eq_true] at hu
    obtain ⟨l1, r1, e1, h1⟩ := rulStep_ok d rh h u (by simpa using hu.1)
    simp only [List.foldl_cons, e1]
    exact ih h1 hu.2

/-! ### stage 2: the updates of the pending commit diff -/

def addCount (us : List Entry) : Nat := (us.filter (fun u => u.ty == .add)).length

structure S2 (d : Disk) (done : List Entry) (lL lR : Log) : Prop where
  rEntries : lR.entries = (restoreBaseLogs d).2.entries
  rIdx : lR.logIndex = d.lc.cm.theirMsg
  lIdx : lL.logIndex = d.rc.cm.ourMsg + done.length
  lCnt : lL.htlcCounter = d.rc.cm.ourHtlc + addCount done
  lAdds : ∀ i, (hasAdd (restoreBaseLogs d).1.entries i ∨ ∃ a ∈ done, a.ty = .add ∧ a.htlcIndex = i) →
    hasAdd lL.entries i

theorem s2_snoc_nonadd {d : Disk} {done : List Entry} {lL lR lR' : Log} (h : S2 d done lL lR) (u pd : Entry)
    (hu : u.ty ≠ .add) (hr : lR'.entries = lR.entries) (hi : lR'.logIndex = lR.logIndex) :
    S2 d (done ++ [u]) (lL.appendUpdate pd) lR' := by
  refine ⟨by rw [hr]; exact h.rEntries, by rw [hi]; exact h.rIdx, ?_, ?_, ?_⟩
  · simp only [Log.appendUpdate, h.lIdx, List.length_append, List.length_singleton]; omega
  · have : (u.ty == ETy.add) = false := by simpa using hu
    simp only [Log.appendUpdate, h.lCnt, addCount, List.filter_append, List.filter_cons, this,
      List.filter_nil, List.append_nil]
    simp
  · intro i hi
    simp only [Log.appendUpdate]
    apply hasAdd_append
    apply h.lAdds i
    rcases hi with hi | ⟨a, ha, h1, h2⟩
    · exact Or.inl hi
    · simp only [List.mem_append, List.mem_singleton] at ha
      rcases ha with ha | rfl
      · exact Or.inr ⟨a, ha, h1, h2⟩
      · exact absurd h1 hu

theorem fixFeeIdx_not_fee (lL : Log) (pd : Entry) (h : pd.ty ≠ .feeUpd) : fixFeeIdx lL pd = pd := by
  unfold fixFeeIdx
  have : (pd.ty == ETy.feeUpd) = false := by simpa using h
  simp [this]

theorem fixFeeIdx_ty (lL : Log) (pd : Entry) : (fixFeeIdx lL pd).ty = pd.ty := by
  unfold fixFeeIdx; split <;> rfl

theorem fixFeeIdx_idx (lL : Log) (pd : Entry) (hf : pd.ty = .feeUpd)
    (h : pd.logIndex = lL.logIndex ∨ pd.logIndex = 0) : (fixFeeIdx lL pd).logIndex = lL.logIndex := by
  unfold fixFeeIdx
  split
  · rfl
  · rename_i hc
    rcases h with h | h
    · exact h
    · simp only [hf, beq_self_eq_true, Bool.true_and, Bool.and_eq_true, beq_iff_eq, decide_eq_true_eq,
        not_and, Nat.not_lt, Nat.le_zero_eq] at hc
      rw [h]; exact (hc h).symm

theorem pendPd_ok (ph : Nat) (lR : Log) (u : Entry)
    (hres : isResTy u.ty = true → hasAdd lR.entries u.parent) :
    ∃ pd, pendPd ph lR u = .ok pd ∧ pd.ty = u.ty ∧ pd.logIndex = u.logIndex ∧ (u.ty = .add → pd.htlcIndex = u.htlcIndex) := by
  unfold pendPd
  by_cases ha : u.ty = .add
  · simp only [ha, beq_self_eq_true, if_true]
    exact ⟨_, rfl, rfl, rfl, fun _ => rfl⟩
  · have h1 : (u.ty == ETy.add) = false := by simpa using ha
    simp only [h1, Bool.false_eq_true, if_false]
    by_cases hf : u.ty = .feeUpd
    · simp only [hf, beq_self_eq_true, if_true]
      exact ⟨_, rfl, rfl, rfl, fun h => by cases h⟩
    · have h2 : (u.ty == ETy.feeUpd) = false := by simpa using hf
      obtain ⟨og, hog⟩ := lookup_of_hasAdd (hres ((isResTy_iff _).2 ⟨ha, hf⟩))
      simp only [h2, Bool.false_eq_true, if_false, hog]
      exact ⟨_, rfl, rfl, rfl, fun h => absurd h ha⟩

theorem pendFold_ok (d : Disk) (ph : Nat) (us : List Entry) :
    ∀ (done : List Entry) (lL lR : Log), S2 d done lL lR →
      pendOK (incomingIdx d.lc) (d.rc.cm.ourMsg + done.length) (d.rc.cm.ourHtlc + addCount done) us = true →
      ∃ lL' lR', us.foldl (restorePendStep ph) (.ok (lL, lR)) = .ok (lL', lR') ∧ S2 d (done ++ us) lL' lR' := by
  induction us with
  | nil => intro done lL lR h _; exact ⟨lL, lR, rfl, by simpa using h⟩
  | cons u r ih =>
    intro done lL lR h hp
    simp only [pendOK, Bool.and_eq_true, Bool.or_eq_true, beq_iff_eq, bne_iff_ne, ne_eq,
      Bool.not_eq_true'] at hp
    obtain ⟨⟨⟨hli, hadd⟩, hres⟩, hrest⟩ := hp
    have hres' : isResTy u.ty = true → hasAdd lR.entries u.parent := by
      intro hr
      rcases hres with hres | hres
      · rw [hr] at hres; cases hres
      · rw [h.rEntries]; exact base_hasAddR d hres
    obtain ⟨pd, hpd, hty, hidx, hhi⟩ := pendPd_ok ph lR u hres'
    have hstep : ∃ lL1 lR1, restorePendStep ph (.ok (lL, lR)) u = .ok (lL1, lR1) ∧ S2 d (done ++ [u]) lL1 lR1 := by
      unfold restorePendStep
      simp only [hpd]
      unfold pendAppend
      by_cases ha : u.ty = .add
      · have hne : pd.ty ≠ .feeUpd := by rw [hty, ha]; decide
        rw [fixFeeIdx_not_fee lL pd hne]
        have hl : pd.logIndex = lL.logIndex := by
          rw [hidx]
          rcases hli with hli | ⟨hf, _⟩
          · rw [hli, h.lIdx]
          · rw [ha] at hf; cases hf
        have hc : pd.htlcIndex = lL.htlcCounter := by
          rw [hhi ha, h.lCnt]
          rcases hadd with hadd | hadd
          · exact absurd ha hadd
          · exact hadd
        simp only [hl, bne_self_eq_false, Bool.false_eq_true, if_false, hty, ha, beq_self_eq_true, if_true, hc]
        refine ⟨_, _, rfl, ⟨h.rEntries, h.rIdx, ?_, ?_, ?_⟩⟩
        · simp only [Log.appendHtlc, h.lIdx, List.length_append, List.length_singleton]; omega
        · simp only [Log.appendHtlc, h.lCnt, addCount, List.filter_append, List.filter_cons, ha,
            beq_self_eq_true, if_true, List.filter_nil, List.length_append, List.length_singleton]
          omega
        · intro i hi
          simp only [Log.appendHtlc]
          rcases hi with hi | ⟨a, ha', h1, h2⟩
          · exact hasAdd_append _ (h.lAdds i (Or.inl hi))
          · simp only [List.mem_append, List.mem_singleton] at ha'
            rcases ha' with ha' | rfl
            · exact hasAdd_append _ (h.lAdds i (Or.inr ⟨a, ha', h1, h2⟩))
            · refine ⟨pd, List.mem_append_right _ (List.mem_singleton.mpr rfl), ?_, ?_⟩
              · simp [Entry.isAdd, hty, ha]
              · rw [hhi ha]; exact h2
      · have hna : ((fixFeeIdx lL pd).ty == ETy.add) = false := by
          rw [fixFeeIdx_ty, hty]; simpa using ha
        have hl : (fixFeeIdx lL pd).logIndex = lL.logIndex := by
          by_cases hf : u.ty = .feeUpd
          · apply fixFeeIdx_idx lL pd (by rw [hty, hf])
            rw [hidx]
            rcases hli with hli | ⟨_, h0⟩
            · left; rw [hli, h.lIdx]
            · right; exact h0
          · rw [fixFeeIdx_not_fee lL pd (by rw [hty]; exact hf), hidx]
            rcases hli with hli | ⟨hf', _⟩
            · rw [hli, h.lIdx]
            · exact absurd hf' hf
        simp only [hl, bne_self_eq_false, Bool.false_eq_true, if_false, hna]
        split
        · exact ⟨_, _, rfl, s2_snoc_nonadd h u _ ha rfl rfl⟩
        · exact ⟨_, _, rfl, s2_snoc_nonadd h u _ ha rfl rfl⟩
    obtain ⟨l1, r1, e1, h1⟩ := hstep
    simp only [List.foldl_cons, e1]
    have hrest' : pendOK (incomingIdx d.lc) (d.rc.cm.ourMsg + (done ++ [u]).length)
        (d.rc.cm.ourHtlc + addCount (done ++ [u])) r = true := by
      have e1 : d.rc.cm.ourMsg + (done ++ [u]).length = d.rc.cm.ourMsg + done.length + 1 := by simp; omega
      have e2 : d.rc.cm.ourHtlc + addCount (done ++ [u]) =
          (if u.ty = ETy.add then d.rc.cm.ourHtlc + addCount done + 1 else d.rc.cm.ourHtlc + addCount done) := by
        simp only [addCount, List.filter_append, List.filter_cons, List.filter_nil, List.length_append, beq_iff_eq]
        split <;> simp <;> omega
      rw [e1, e2]; exact hrest
    obtain ⟨l2, r2, e2, h2⟩ := ih (done ++ [u]) l1 r1 h1 hrest'
    exact ⟨l2, r2, e2, by simpa using h2⟩

/-! ### stage 3: the unsigned-acked updates -/

structure S3 (d : Disk) (lL lR : Log) : Prop where
  rIdx : lR.logIndex = d.lc.cm.theirMsg
  lAdds : ∀ i, (hasAdd (restoreBaseLogs d).1.entries i ∨ (pendAddIdx d).contains i = true) → hasAdd lL.entries i

theorem uaPd_ok (lh : Nat) (lL : Log) (u : Entry)
    (hres : isResTy u.ty = true → hasAdd lL.entries u.parent) :
    ∃ pd, uaPd lh lL u = .ok pd ∧ pd.logIndex = u.logIndex := by
  unfold uaPd
  by_cases ha : u.ty = .add
  · simp only [ha, beq_self_eq_true, if_true]
    exact ⟨_, rfl, rfl⟩
  · have h1 : (u.ty == ETy.add) = false := by simpa using ha
    simp only [h1, Bool.false_eq_true, if_false]
    by_cases hf : u.ty = .feeUpd
    · simp only [hf, beq_self_eq_true, if_true]
      exact ⟨_, rfl, rfl⟩
    · have h2 : (u.ty == ETy.feeUpd) = false := by simpa using hf
      obtain ⟨og, hog⟩ := lookup_of_hasAdd (hres ((isResTy_iff _).2 ⟨ha, hf⟩))
      simp only [h2, Bool.false_eq_true, if_false, hog]
      exact ⟨_, rfl, rfl⟩

theorem uaStep_ok (d : Disk) (lh : Nat) (pend : Option Commit) {lL lR : Log} (h : S3 d lL lR) (u : Entry)
    (hu : (decide (u.logIndex < d.lc.cm.theirMsg) &&
      (!isResTy u.ty || (outgoingIdx d.rc).contains u.parent || (pendAddIdx d).contains u.parent)) = true) :
    ∃ lL' lR', restoreUaStep lh pend (.ok (lL, lR)) u = .ok (lL', lR') ∧ S3 d lL' lR' := by
  simp only [Bool.and_eq_true, decide_eq_true_eq, Bool.or_eq_true, Bool.not_eq_true'] at hu
  obtain ⟨hlt, hres⟩ := hu
  have hres' : isResTy u.ty = true → hasAdd lL.entries u.parent := by
    intro hr
    apply h.lAdds
    rcases hres with (hres | hres) | hres
    · rw [hr] at hres; cases hres
    · exact Or.inl (base_hasAddL d hres)
    · exact Or.inr hres
  obtain ⟨pd, hpd, hidx⟩ := uaPd_ok lh lL u hres'
  have hlt' : ¬ (pd.logIndex ≥ lR.logIndex) := by rw [hidx, h.rIdx]; omega
  unfold restoreUaStep
  simp only [hpd, hlt', if_false]
  split
  · exact ⟨_, _, rfl, h⟩
  · split
    · exact ⟨_, _, rfl, ⟨h.rIdx, h.lAdds⟩⟩
    · exact ⟨_, _, rfl, ⟨h.rIdx, h.lAdds⟩⟩

theorem uaFold_ok (d : Disk) (lh : Nat) (pend : Option Commit) (us : List Entry) {lL lR : Log} (h : S3 d lL lR)
    (hu : us.all (fun u => decide (u.logIndex < d.lc.cm.theirMsg) &&
      (!isResTy u.ty || (outgoingIdx d.rc).contains u.parent || (pendAddIdx d).contains u.parent)) = true) :
    ∃ lL' lR', us.foldl (restoreUaStep lh pend) (.ok (lL, lR)) = .ok (lL', lR') ∧ S3 d lL' lR' := by
  induction us generalizing lL lR with
  | nil => exact ⟨lL, lR, rfl, h⟩
  | cons u r ih =>
    simp only [List.all_cons, Bool.and_eq_true] at hu
    obtain ⟨l1, r1, e1, h1⟩ := uaStep_ok d lh pend h u (by simpa using hu.1)
    simp only [List.foldl_cons, e1]
    exact ih h1 hu.2

/-! ### restore succeeds on well-formed durable states -/

theorem restoreLogs_ok_of_wf (d : Disk) (h : DiskWF d) : ∃ p, restoreLogs d = .ok p := by
  unfold DiskWF diskWF at h
  simp only [Bool.and_eq_true] at h
  obtain ⟨⟨h1, h2⟩, h3⟩ := h
  have hb : S1 d (restoreBaseLogs d).1 (restoreBaseLogs d).2 := ⟨rfl, rfl, rfl, rfl, fun i hi => hi⟩
  obtain ⟨l1, r1, e1, s1⟩ := rulFold_ok d d.rc.cm.height (d.rul.getD []) hb h1
  have s2 : S2 d [] l1 r1 := ⟨s1.rEntries, s1.rIdx, by simpa using s1.lIdx, by simpa [addCount] using s1.lCnt,
    fun i hi => by
      rcases hi with hi | ⟨a, ha, _⟩
      · exact s1.lAdds i hi
      · simp at ha⟩
  have h2' : pendOK (incomingIdx d.lc) (d.rc.cm.ourMsg + ([] : List Entry).length)
      (d.rc.cm.ourHtlc + addCount []) (pendUpdates d) = true := by simpa [addCount] using h2
  obtain ⟨l2, r2, e2, s2'⟩ := pendFold_ok d ((d.pend.map (fun p => p.1.cm.height)).getD 0) (pendUpdates d) [] l1 r1 s2 h2'
  have s3 : S3 d l2 r2 := by
    refine ⟨s2'.rIdx, ?_⟩
    intro i hi
    apply s2'.lAdds i
    rcases hi with hi | hi
    · exact Or.inl hi
    · right
      simp only [pendAddIdx, List.contains_iff_mem, List.mem_map, List.mem_filter, beq_iff_eq] at hi
      obtain ⟨a, ⟨ha, hty⟩, rfl⟩ := hi
      exact ⟨a, by simpa using ha, hty, rfl⟩
  obtain ⟨l3, r3, e3, _⟩ := uaFold_ok d d.lc.cm.height (d.pend.map (fun p => p.1.cm)) (d.ua.getD []) s3 h3
  refine ⟨(l3, r3), ?_⟩
  unfold restoreLogs
  simp only [e1]
  cases hp : d.pend with
  | none =>
    simp only [pendUpdates, hp, List.foldl_nil, Except.ok.injEq, Prod.mk.injEq] at e2
    obtain ⟨rfl, rfl⟩ := e2
    simp only [hp, Option.map_none] at e3 ⊢
    exact e3
  | some p =>
    simp only [pendUpdates, hp, Option.map_some, Option.getD_some] at e2
    simp only [hp, Option.map_some] at e3
    simp only [e2]
    exact e3

theorem restore_ok_of_wf (cfg : Cfg) (d : Disk) (h : DiskWF d) : ∃ n, restore cfg d = .ok n := by
  obtain ⟨p, hp⟩ := restoreLogs_ok_of_wf d h
  unfold restore
  rw [hp]
  exact ⟨_, rfl⟩

end LndModel.C02
