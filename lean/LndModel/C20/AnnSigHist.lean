/-
C20 — the proof path interleaved with the rest of the gossip intake: whatever remote messages and
block replays do to the graph in between (they never alter a known channel record,
`submit_chans_stable` / `newBlock_chans_stable`), every proof attached by `handleAnnSig` verifies
under the stored keys of its channel.
-/
import LndModel.C20.AnnSigProps
import LndModel.C20.Props2

namespace LndModel.C20

theorem ProofsInv.mono {s s' : State} {ps0 ps : PState}
    (hst : ∀ c ci, lookup c s.g.chans = some ci → lookup c s'.g.chans = some ci)
    (h : ProofsInv s ps0 ps) : ProofsInv s' ps0 ps := by
  refine ⟨?_, h.2⟩
  intro c p hp
  obtain ⟨ci, hk, hok⟩ := h.1 c p hp
  exact ⟨ci, hst c ci hk, hok⟩

/-- everything that reaches the gossiper from outside, plus restarts -/
inductive GEvent where
  | half (remote : Bool) (src : Key) (findChan : Bool) (a : AnnSigMsg)
  | msg (cfg : Cfg) (now : Nat) (p : Peer) (m : Msg)
  | block (cfg : Cfg) (now : Nat) (h : Nat)
  | restart

def runGEvent (pmd : Nat) (sp : State × PState) : GEvent → State × PState
  | .half r src fc a => (sp.1, (stepAnnSig pmd fc sp.1 sp.2 r src a).ps)
  | .msg cfg now p m => ((submit cfg now sp.1 p m).2.st, sp.2)
  | .block cfg now h =>
    let s := (newBlock cfg now sp.1 h).st
    (s, (blockAnnSigs pmd true s sp.2).1)
  | .restart => (sp.1, sp.2.restart)

/-- **History theorem, interleaved.**  Over every sequence of announcement-signature halves (any
    sender, order, duplication, corruption), remote gossip messages (under any configuration and
    clock), new blocks (replay of future-height messages and of premature halves) and restarts:
    every proof attached at the end verifies under the stored node and bitcoin keys of its channel
    over the digest of the announcement rebuilt from the stored record, a channel that was
    unannounced at the start is announced only through such a proof, and every channel record known
    at the start is still the same. -/
theorem ghistory_proofs_authentic (pmd : Nat) (evs : List GEvent) (s : State) (ps : PState)
    (h : ProofsInv s ps ps) :
    ProofsInv (evs.foldl (runGEvent pmd) (s, ps)).1 ps (evs.foldl (runGEvent pmd) (s, ps)).2 ∧
    ∀ c ci, lookup c s.g.chans = some ci →
      lookup c (evs.foldl (runGEvent pmd) (s, ps)).1.g.chans = some ci := by
  suffices ∀ (s' : State) (q : PState),
      (∀ c ci, lookup c s.g.chans = some ci → lookup c s'.g.chans = some ci) → ProofsInv s' ps q →
      ProofsInv (evs.foldl (runGEvent pmd) (s', q)).1 ps (evs.foldl (runGEvent pmd) (s', q)).2 ∧
      ∀ c ci, lookup c s.g.chans = some ci →
        lookup c (evs.foldl (runGEvent pmd) (s', q)).1.g.chans = some ci from
    this s ps (fun _ _ hh => hh) h
  induction evs with
  | nil => intro s' q hst hi; exact ⟨hi, hst⟩
  | cons e r ih =>
    intro s' q hst hi
    simp only [List.foldl_cons]
    cases e with
    | half rm src fc a => exact ih s' _ hst (stepAnnSig_inv pmd fc s' ps q rm src a hi)
    | msg cfg now p m =>
      have hs : ∀ c ci, lookup c s'.g.chans = some ci →
          lookup c (submit cfg now s' p m).2.st.g.chans = some ci :=
        fun c ci hc => submit_chans_stable cfg now s' p m c ci hc
      exact ih _ q (fun c ci hc => hs c ci (hst c ci hc)) (hi.mono hs)
    | block cfg now hgt =>
      have hs : ∀ c ci, lookup c s'.g.chans = some ci →
          lookup c (newBlock cfg now s' hgt).st.g.chans = some ci :=
        fun c ci hc => newBlock_chans_stable cfg now s' hgt c ci hc
      exact ih _ _ (fun c ci hc => hs c ci (hst c ci hc))
        (blockAnnSigs_inv pmd true _ ps q (hi.mono hs))
    | restart => exact ih s' _ hst hi

/-- non-vacuity: a remote node announcement between the two halves does not disturb the assembly -/
example :
    ((([GEvent.half true 2 true AnnSigExample.R,
        GEvent.msg ⟨11, false, 1209600, 86400, 10⟩ 1000 7 (.na ⟨2, 5, "x", .mk 2 (.na 2 5 "x")⟩),
        GEvent.restart,
        GEvent.half false 11 true AnnSigExample.L]).foldl (runGEvent 6)
      (AnnSigExample.st, AnnSigExample.ps0)).2.hasProof (600 * 2 ^ 40 + 1)) = true := by
  decide

end LndModel.C20
