/-
C20 — node announcements over whole histories of remote messages and block replays (`ReachM`):
a node record that differs at the end is the record of an announcement signed by that node,
non-zero and strictly newer than the record stored at the start (or the shell record of an endpoint
of a newly announced channel for a node unknown at the start); node timestamps never go back.
-/
import LndModel.C20.Props2

namespace LndModel.C20

/-- how a node record that differs from the one at the start `nodes0` is justified -/
def NodeJust (nodes0 : List (Key × NodeInfo)) (k : Key) (ni : NodeInfo) : Prop :=
  (ni = ⟨0, none⟩ ∧ lookup k nodes0 = none) ∨
  (∃ n : NodeAnn, n.node = k ∧ n.sig = Sig.mk k n.digest ∧ n.ts ≠ 0 ∧ ni = ⟨n.ts, some n.fields⟩ ∧
    ∀ old, lookup k nodes0 = some old → old.ts < n.ts)

/-- **Node freshness over whole histories.**  Whatever remote messages are submitted (any order,
    duplicates, stale and equal timestamps, cached and replayed by blocks): a node record that
    differs at the end from the one at the start is either the timestamp-0 shell of a node unknown at
    the start, or exactly the record of a node announcement signed by that node with a non-zero
    timestamp **strictly newer than the record stored at the start**. -/
theorem reachM_node_fresh (cfg : Cfg) (s s' : State) (hr : ReachM cfg s s') (k : Key) :
    lookup k s'.g.nodes = lookup k s.g.nodes ∨
    ∃ ni, lookup k s'.g.nodes = some ni ∧ NodeJust s.g.nodes k ni := by
  induction hr with
  | refl => exact Or.inl rfl
  | tick h f _ ih => exact ih
  | @msg s1 cfg' _ _ now p m _ ih =>
    by_cases hsame : lookup k (submit cfg' now s1 p m).2.st.g.nodes = lookup k s1.g.nodes
    · rw [hsame]; exact ih
    · right
      rcases node_ann_authentic_fresh cfg' now s1 p m k hsame with
        ⟨n, _, hnk, ⟨hsig, hts, old1, hold1, hlt⟩, hnew⟩ | ⟨a, _, _, _, _, _, _, hnone, hnew⟩
      · refine ⟨_, hnew, Or.inr ⟨n, hnk, hnk ▸ hsig, hts, rfl, ?_⟩⟩
        intro old hold
        rw [hnk] at hold1
        rcases ih with heq | ⟨ni, hni, hj⟩
        · rw [heq, hold] at hold1; cases hold1; exact hlt
        · rw [hni] at hold1; cases hold1
          rcases hj with ⟨_, hn0⟩ | ⟨n', _, _, _, hni', hlt'⟩
          · rw [hn0] at hold; cases hold
          · have := hlt' old hold
            rw [hni'] at hlt
            exact Nat.lt_trans this hlt
      · refine ⟨_, hnew, Or.inl ⟨rfl, ?_⟩⟩
        rcases ih with heq | ⟨ni, hni, _⟩
        · rw [← heq]; exact hnone
        · rw [hni] at hnone; cases hnone

/-- node records never disappear and their timestamps never decrease over such histories -/
theorem reachM_node_ts_monotone (cfg : Cfg) (s s' : State) (hr : ReachM cfg s s') (k : Key)
    (old : NodeInfo) (h : lookup k s.g.nodes = some old) :
    ∃ new, lookup k s'.g.nodes = some new ∧ old.ts ≤ new.ts := by
  rcases reachM_node_fresh cfg s s' hr k with heq | ⟨ni, hni, hj⟩
  · exact ⟨old, by rw [heq, h], Nat.le_refl _⟩
  · refine ⟨ni, hni, ?_⟩
    rcases hj with ⟨_, hn0⟩ | ⟨n, _, _, _, hni', hlt⟩
    · rw [hn0] at h; cases h
    · rw [hni']; exact Nat.le_of_lt (hlt old h)

/-- non-vacuity: a stale duplicate after a fresh announcement leaves the fresh record -/
example :
    let cfg : Cfg := ⟨11, false, 1209600, 86400, 10⟩
    let s : State := { g := { chans := [(5, ⟨2, 3, 4, 5, 1, "", ""⟩)],
                              nodes := [(2, ⟨7, some "a"⟩)] } }
    let n1 : NodeAnn := ⟨2, 9, "b", .mk 2 (.na 2 9 "b")⟩
    let n0 : NodeAnn := ⟨2, 8, "c", .mk 2 (.na 2 8 "c")⟩
    lookup 2 (submit cfg 100 (submit cfg 100 s 1 (.na n1)).2.st 1 (.na n0)).2.st.g.nodes
      = some ⟨9, some "b"⟩ := by
  decide

end LndModel.C20
