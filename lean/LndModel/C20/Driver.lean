/-
C20 driver.
(X) replays every harness operation on the model (`submit` / `newBlock`) and compares result,
    replay results, relayed messages and the complete graph dump;
(S) evaluates the property itself on the implementation's answers: every difference between
    consecutive graph dumps and every relayed message must be justified by a message whose
    *real* ECDSA validity (recomputed by the harness with btcec), freshness and funding output
    satisfy the property statement.  The monitor never consults the model's verdicts.
-/
import LndModel.Prelude.Lines
import LndModel.C20.Model
import LndModel.C20.CacheModel
import LndModel.C20.AnnSig

open LndModel LndModel.Lines LndModel.C20

namespace LndModel.C20.Driver

/-! ### parsed implementation-side data -/

structure Dump where
  chans : List (Scid × ChanInfo) := []
  proofs : List (Scid × Nat) := []
  points : List (Scid × String) := []   -- stored ChannelPoint (txid prefix . index)
  pols : List ((Scid × Nat) × Policy) := []
  nodes : List (Key × NodeInfo) := []
  zombies : List (Scid × (Key × Key)) := []
  hs : List (Scid × Cache.Ent) := []     -- `H=`: the store's cache-backed HasV1ChannelEdge answers
  hasH : Bool := false
  bad : Bool := false

/-- what the harness says about one submitted message (real crypto facts). -/
structure Seen where
  id : Nat
  msg : Msg
  rv : String := ""          -- ca: real validity of bs1,bs2,ns1,ns2 under the stated keys
  vk : List Nat := []        -- cu/na: ids of the keys under which the signature really verifies
  fop : String := "-"        -- ca: the harness's ground truth outpoint txid.output of the scid
  proof : Nat := 1           -- ae: was the edge handed in with (1) or without (0) an AuthProof

/-- one announcement_signatures message as reported by the harness -/
structure Half where
  id : Nat
  loc : Bool
  src : Nat
  scid : Nat
  vn : List Nat              -- keys under which the node signature really verifies over the channel's announcement
  vb : List Nat              -- same for the bitcoin signature

structure ChainEnt where
  res : String
  kind : String              -- ms | tr | o
  k1 : Nat
  k2 : Nat
  value : Nat
  spent : Nat

structure St where
  cfg : Cfg := ⟨0, false, 1209600, 86400, 10⟩
  caseId : String := "0"
  kind : String := ""
  ms : State := {}
  prev : Dump := {}
  digs : List (Nat × Digest) := []
  seen : List Seen := []
  chainTab : List (Scid × ChainEnt) := []
  sampled : List String := []
  -- counters
  lines : Nat := 0
  cases : Nat := 0
  ops : Nat := 0
  mismatches : Nat := 0
  monitorFails : Nat := 0
  chanAdds : Nat := 0
  polChanges : Nat := 0
  nodeChanges : Nat := 0
  relays : Nat := 0
  replays : Nat := 0
  pendings : Nat := 0
  rejectsInvalid : Nat := 0     -- really invalid messages that left graph and relay untouched
  zombieAdds : Nat := 0
  zombieLives : Nat := 0
  prunes : Nat := 0
  strict : Bool := false
  zfixed : Bool := false                  -- FACT zslot2: does `makeZombiePubkeys` put node2 in slot 2
  former : List (Scid × ChanInfo) := []   -- every channel that was in the implementation's graph
  concOps : Nat := 0
  concBarriers : Nat := 0
  cacheAnswers : Nat := 0
  zombiePrunes : Nat := 0
  zombiePruned : Nat := 0
  directAdds : Nat := 0
  horizonQueries : Nat := 0
  horizonStale : Nat := 0
  resKinds : List (String × Nat) := []
  -- announcement-signatures path
  ps : PState := {}
  pmd : Nat := 0
  fc : Bool := true
  halves : List Half := []
  curHalf : Option Half := none
  asOps : Nat := 0
  asAssembled : Nat := 0
  asRejected : Nat := 0
  asWaiting : Nat := 0
  storeReopens : Nat := 0

def mismatch (s : St) (detail : String) : IO St := do
  if s.mismatches < 40 then
    IO.println s!"MISMATCH case={s.caseId} line={s.lines} {detail}"
  return { s with mismatches := s.mismatches + 1 }

def monitor (s : St) (clause detail : String) : IO St := do
  if s.monitorFails < 40 then
    IO.println s!"MONITOR case={s.caseId} clause={clause} line={s.lines} {detail}"
  return { s with monitorFails := s.monitorFails + 1 }

def bump (l : List (String × Nat)) (k : String) : List (String × Nat) :=
  upsert k ((lookup k l).getD 0 + 1) l

/-! ### parsing -/

def blob (s : String) : Blob := if s == "-" then "" else s

def natD (s : String) : Nat := s.toNat?.getD 0

def splitList (s : String) (sep : String) : List String :=
  if s == "-" || s == "" then [] else s.splitOn sep

def parseDump (ws : List String) : Dump := Id.run do
  let mut d : Dump := {}
  for t in splitList ((kv? ws "C").getD "-") "|" do
    match t.splitOn ":" with
    | [sc, n1, n2, b1, b2, cap, pr, ft, ex, pt] =>
      d := { d with chans := d.chans ++ [(natD sc, ⟨natD n1, natD n2, natD b1, natD b2, natD cap, blob ft, blob ex⟩)],
                    proofs := d.proofs ++ [(natD sc, natD pr)],
                    points := d.points ++ [(natD sc, pt)] }
    | _ => d := { d with bad := true }
  for t in splitList ((kv? ws "P").getD "-") "|" do
    match t.splitOn ":" with
    | [sc, dir, ts, mf, cf, tld, mn, mx, ba, ra, ex] =>
      d := { d with pols := d.pols ++ [((natD sc, natD dir),
              ⟨natD ts, natD mf, natD cf, natD tld, natD mn, natD mx, natD ba, natD ra, blob ex⟩)] }
    | _ => d := { d with bad := true }
  for t in splitList ((kv? ws "N").getD "-") "|" do
    match t.splitOn ":" with
    | [k, ts, fh] =>
      d := { d with nodes := d.nodes ++ [(natD k, ⟨natD ts, if fh == "-" then none else some fh⟩)] }
    | _ => d := { d with bad := true }
  for t in splitList ((kv? ws "Z").getD "-") "|" do
    match t.splitOn ":" with
    | [sc, k1, k2] => d := { d with zombies := d.zombies ++ [(natD sc, (natD k1, natD k2))] }
    | _ => d := { d with bad := true }
  match kv? ws "H" with
  | none => pure ()
  | some hstr =>
    d := { d with hasH := true }
    for t in splitList hstr "|" do
      match t.splitOn ":" with
      | [sc, ex, zo, t0, t1] =>
        d := { d with hs := d.hs ++ [(natD sc, ⟨ex == "1", zo == "1", natD t0, natD t1⟩)] }
      | _ => d := { d with bad := true }
  return d

def parseSig (digs : List (Nat × Digest)) (t : String) : Sig :=
  match t.toList with
  | 'k' :: rest =>
    match (String.ofList rest).splitOn ".d" with
    | [k, d] =>
      let di := natD d
      Sig.mk (natD k) ((lookup di digs).getD (.opaque di))
    | _ => .junk 0
  | 'j' :: rest => .junk (natD (String.ofList rest))
  | _ => .junk 0

def n (ws : List String) (k : String) : Nat := (kvNat? ws k).getD 0
def sv (ws : List String) (k : String) : String := (kv? ws k).getD "-"

/-- builds the message without signatures (to obtain its digest first). -/
def parseMsg (ws : List String) (digs : List (Nat × Digest)) : Option Msg :=
  match ws.head? with
  | some "ca" | some "ae" | some "dcl" =>
    some (.ca { chain := n ws "chain", scid := n ws "scid", n1 := n ws "n1", n2 := n ws "n2",
                b1 := n ws "b1", b2 := n ws "b2", feat := blob (sv ws "feat"),
                extra := blob (sv ws "extra"),
                bs1 := parseSig digs (sv ws "bs1"), bs2 := parseSig digs (sv ws "bs2"),
                ns1 := parseSig digs (sv ws "ns1"), ns2 := parseSig digs (sv ws "ns2") })
  | some "cu" | some "au" | some "ue" =>
    some (.cu { chain := n ws "chain", scid := n ws "scid", ts := n ws "ts", mf := n ws "mf",
                cf := n ws "cf", tld := n ws "tld", min := n ws "min", max := n ws "max",
                base := n ws "base", rate := n ws "rate", extra := blob (sv ws "extra"),
                sig := parseSig digs (sv ws "sig") })
  | some "na" =>
    some (.na { node := n ws "node", ts := n ws "ts", fields := blob (sv ws "fh"),
                sig := parseSig digs (sv ws "sig") })
  | _ => none

def msgDigest : Msg → Digest
  | .ca a => a.digest
  | .cu u => u.digest
  | .na x => x.digest

def resName : Res → String
  | .ok => "ok" | .pending => "pending" | .eOwn => "e_own" | .eRejected => "e_rejected"
  | .eChain => "e_chain" | .eClosed => "e_closed" | .eCaSig => "e_casig" | .eNoFund => "e_nofund"
  | .eBadFund => "e_badfund" | .eSpent => "e_spent" | .eZeroTs => "e_zerots" | .eSkew => "e_skew"
  | .eZKey => "e_zkey" | .eZSig => "e_zsig" | .eFields => "e_fields" | .eUSig => "e_usig"
  | .eNSig => "e_nsig"

/-! ### map comparison -/

def subMap {κ α : Type} [DecidableEq κ] [DecidableEq α] (a b : List (κ × α)) : Bool :=
  a.all (fun kv => lookup kv.1 b == some kv.2)

def sameMap {κ α : Type} [DecidableEq κ] [DecidableEq α] (a b : List (κ × α)) : Bool :=
  a.length == b.length && subMap a b && subMap b a

def insertSorted (x : String) : List String → List String
  | [] => [x]
  | y :: r => if x ≤ y then x :: y :: r else y :: insertSorted x r

def sortStr (l : List String) : List String := l.foldl (fun acc x => insertSorted x acc) []

def idOf (seen : List Seen) (m : Msg) : String :=
  match seen.find? (fun e => e.msg == m) with
  | some e => toString e.id
  | none => "?"

def joinOrDash (l : List String) : String := if l.isEmpty then "-" else ",".intercalate l

/-! ### the property monitor (implementation trace only) -/

def seenScid (e : Seen) : Nat := msgScid e.msg

def chainOkFor (s : St) (a : ChanAnn) (cap : Nat) : Bool :=
  match lookup a.scid s.chainTab with
  | some e =>
    e.res == "utxo" && e.spent == 0 && e.value == cap &&
    e.kind == (if a.tap then "tr" else "ms") &&
    ((e.k1 == a.b1 && e.k2 == a.b2) || (e.k1 == a.b2 && e.k2 == a.b1))
  | none => false

def chainGoodFor (s : St) (a : ChanAnn) : Bool :=
  match lookup a.scid s.chainTab with
  | some e =>
    e.res == "utxo" && e.spent == 0 && e.kind == (if a.tap then "tr" else "ms") &&
    ((e.k1 == a.b1 && e.k2 == a.b2) || (e.k1 == a.b2 && e.k2 == a.b1))
  | none => false

/-- is there a (really) authentic announcement justifying channel `c` with info `ci`? -/
def caJustifies (s : St) (e : Seen) (c : Scid) (ci : ChanInfo) : Bool :=
  match e.msg with
  | .ca a =>
    a.scid == c && a.chain == 0 && e.rv == "1111" &&
    a.n1 == ci.n1 && a.n2 == ci.n2 && a.b1 == ci.b1 && a.b2 == ci.b2 &&
    a.feat == ci.feat && a.extra == ci.extra &&
    (if s.cfg.assumeValid then true else chainOkFor s a ci.cap)
  | _ => false

def updJustifies (s : St) (now : Nat) (e : Seen) (c : Scid) (d : Nat) (ci : ChanInfo)
    (old : Option Policy) (new : Policy) : Bool :=
  match e.msg with
  | .cu u =>
    u.scid == c && u.cf % 2 == d && u.chain == 0 && u.policy == new &&
    e.vk.contains (if d == 0 then ci.n1 else ci.n2) &&
    u.ts != 0 &&
    (match old with | some o => decide (o.ts < u.ts) | none => true) &&
    decide (u.ts * nsPerSec ≤ now + s.cfg.expiry * nsPerSec) &&
    u.mf % 2 == 1 && u.max != 0 && decide (u.min ≤ u.max) &&
    (ci.cap * 1000 == 0 || decide (u.max ≤ ci.cap * 1000))
  | _ => false

/-- `Builder.ApplyChannelUpdate` (au) verifies fields and the direction owner's signature;
    `Builder.UpdateEdge` (ue) trusts its caller; both must only apply strictly newer policies. -/
def directJustifies (opKind : String) (e : Seen) (c : Scid) (d : Nat) (ci : ChanInfo)
    (old : Option Policy) (new : Policy) : Bool :=
  match e.msg with
  | .cu u =>
    u.scid == c && u.cf % 2 == d && u.policy == new &&
    (match old with | some o => decide (o.ts < u.ts) | none => true) &&
    (opKind == "ue" ||
      (e.vk.contains (if d == 0 then ci.n1 else ci.n2) &&
       u.mf % 2 == 1 && u.max != 0 && decide (u.min ≤ u.max) &&
       (ci.cap * 1000 == 0 || decide (u.max ≤ ci.cap * 1000))))
  | _ => false

/-- `Builder.AddEdge` (trusted local caller): the stored record must be exactly what was handed in,
    and (the harness builds the edge like the gossiper does) backed by the programmed funding output. -/
def aeJustifies (s : St) (e : Seen) (c : Scid) (ci : ChanInfo) : Bool :=
  match e.msg with
  | .ca a =>
    a.scid == c && a.n1 == ci.n1 && a.n2 == ci.n2 && a.b1 == ci.b1 && a.b2 == ci.b2 &&
    a.feat == ci.feat && a.extra == ci.extra && chainOkFor s a ci.cap
  | _ => false

/-- the durable entry of `c` in a graph: what `HasV1ChannelEdge` computes from the database -/
def entOf (chans : List (Scid × ChanInfo)) (pols : List ((Scid × Nat) × Policy))
    (zombies : List (Scid × (Key × Key))) (c : Scid) : Cache.Ent :=
  match lookup c chans with
  | some _ =>
    ⟨true, false, ((lookup (c, 0) pols).map (·.ts)).getD 0, ((lookup (c, 1) pols).map (·.ts)).getD 0⟩
  | none => ⟨false, (lookup c zombies).isSome, 0, 0⟩

def b01 (b : Bool) : String := if b then "1" else "0"

/-- what the lookup kinds answer on a (cached or durable) entry -/
def ansStr (cfg : Cfg) (now : Nat) (rd : String) (rts rdir : Nat) (e : Cache.Ent) : String :=
  if rd == "has" then s!"{b01 e.ex}:{b01 (!e.ex && e.zo)}"
  else if rd == "known" then b01 (e.ex || e.zo)
  else if !e.ex && e.zo then b01 (decide (now > (rts + cfg.expiry) * nsPerSec))
  else if !e.ex then "0"
  else b01 (decide (rts ≤ e.t rdir))

def isEndpoint (chans : List (Scid × ChanInfo)) (k : Key) : Bool :=
  chans.any (fun c => c.2.n1 == k || c.2.n2 == k)

def runMonitor (s : St) (opKind : String) (cur : Option Seen) (now : Nat) (relay : List String)
    (wf : List String) (wfs : List String) (after : Dump) (rm : List Scid := []) : IO St := do
  let before := s.prev
  -- maintenance operations (`prn` PruneGraph, `del` DeleteChannelEdges+PruneGraphNodes, `zpr` the
  -- builder's zombie pruning) may remove the channels listed in `rm` and unconnected nodes
  let maint := opKind == "prn" || opKind == "del" || opKind == "zpr"
  let mut s := s
  -- candidate messages: the current one, or (for replays) everything submitted before
  let replayOp := opKind == "ca" || opKind == "blk"
  let cands : List Seen := match cur with
    | some e => if replayOp then e :: s.seen else [e]
    | none => if replayOp then s.seen else []
  let caCands : List Seen := if opKind == "blk" then s.seen else
    match cur with | some e => [e] | none => []
  let mut added : List Scid := []
  let mut changedPols : List ((Scid × Nat) × Policy) := []
  let mut changedNodes : List (Key × NodeInfo) := []
  -- channels
  for (c, ci) in before.chans do
    if lookup c after.chans != some ci then
      if !(maint && rm.contains c && lookup c after.chans == none) then
        s ← monitor s "chan-changed" s!"channel {c} was removed or modified by a {opKind}"
  for (c, ci) in after.chans do
    if lookup c before.chans == none then
      added := c :: added
      let okProof := lookup c after.proofs == some (match opKind, cur with
        | "ae", some e => e.proof
        | _, _ => 1)
      if opKind == "ae" then
        if !(caCands.any (fun e => aeJustifies s e c ci)) || !okProof then
          s ← monitor s "chan-changed" s!"Builder.AddEdge stored channel {c} differently from the edge it was given"
        else s := { s with directAdds := s.directAdds + 1 }
      else if !(opKind == "ca" || opKind == "blk") || !(caCands.any (fun e => caJustifies s e c ci)) || !okProof then
        s ← monitor s "chan-ann-authentic" s!"channel {c} entered the graph without an authentic announcement and matching unspent 2-of-2 funding output (op={opKind})"
      else s := { s with chanAdds := s.chanAdds + 1 }
      -- the stored channel point must be the scid's own outpoint txid:output_index
      if opKind == "ca" && !s.cfg.assumeValid then
        match cur with
        | some e =>
          if e.fop != "-" && lookup c after.points != some e.fop then
            s ← monitor s "channel-point" s!"channel {c} is stored with channel point {(lookup c after.points).getD "?"}, the scid's funding outpoint is {e.fop}"
        | none => pure ()
  -- policies
  for (k, p) in before.pols do
    if lookup k after.pols == none then
      if !(maint && rm.contains k.1) then
        s ← monitor s "policy-removed" s!"policy {k.1}/{k.2} disappeared"
    else if lookup k after.pols != some p then pure ()
  for (k, p) in after.pols do
    let old := lookup k before.pols
    if old != some p then
      changedPols := (k, p) :: changedPols
      let ciB := lookup k.1 before.chans
      let ciA := lookup k.1 after.chans
      let directOp := opKind == "au" || opKind == "ue"
      let known := if opKind == "cu" || directOp then ciB.isSome && ciA == ciB else ciA.isSome
      let just := match ciA with
        | some ci =>
          if directOp then cands.any (fun e => directJustifies opKind e k.1 k.2 ci old p)
          else cands.any (fun e => updJustifies s now e k.1 k.2 ci old p)
        | none => false
      if !(opKind == "cu" || replayOp || directOp) || !known || !just then
        s ← monitor s "chan-update-authentic-fresh" s!"policy {k.1}/{k.2} changed to ts={p.ts} without an update signed by the owning node, strictly newer, not skewed and with consistent fields (op={opKind})"
      else s := { s with polChanges := s.polChanges + 1 }
  -- nodes
  for (k, ni) in before.nodes do
    if lookup k after.nodes == none then
      if !(maint && k != s.cfg.self && !isEndpoint after.chans k) then
        s ← monitor s "node-removed" s!"node {k} disappeared"
    else if lookup k after.nodes != some ni then pure ()
  for (k, ni) in after.nodes do
    let old := lookup k before.nodes
    if old != some ni then
      changedNodes := (k, ni) :: changedNodes
      let shellOk := old == none && ni == ⟨0, none⟩ &&
        added.any (fun c => match lookup c after.chans with
          | some ci => ci.n1 == k || ci.n2 == k | none => false)
      let annOk := match cur, old with
        | some e, some o =>
          (match e.msg with
           | .na x => opKind == "na" && x.node == k && e.vk.contains k && x.ts != 0 &&
                      decide (o.ts < x.ts) && ni == ⟨x.ts, some x.fields⟩ &&
                      (k == s.cfg.self || isEndpoint before.chans k)
           | _ => false)
        | _, _ => false
      if !(shellOk || annOk) then
        s ← monitor s "node-ann-authentic-fresh" s!"node {k} changed to ts={ni.ts} without a newer announcement signed by it for a node with a known channel (op={opKind})"
      else if annOk then s := { s with nodeChanges := s.nodeChanges + 1 }
  -- invariant: a node record exists only for our own node or an endpoint of a channel in the graph
  for (k, _) in after.nodes do
    if k != s.cfg.self && !isEndpoint after.chans k then
      s ← monitor s "node-without-channel" s!"node {k} is in the graph although none of the known channels has it as an endpoint"
  -- zombie index
  for (c, ks) in before.zombies do
    if lookup c after.zombies == none then
      let key := fun (d : Nat) => if d == 0 then ks.1 else ks.2
      let ok := cands.any (fun e => match e.msg with
        | .cu u => u.scid == c && key (u.cf % 2) != 0 && e.vk.contains (key (u.cf % 2)) &&
                   decide (now ≤ (u.ts + s.cfg.expiry) * nsPerSec) && u.ts != 0
        | _ => false)
      if !ok then
        s ← monitor s "zombie-live-authentic" s!"zombie {c} was resurrected without a fresh update signed by its recorded key"
      else s := { s with zombieLives := s.zombieLives + 1 }
      -- a channel that was in the graph before it became a zombie: the resurrecting update must be
      -- signed by the node owning the update's direction of that channel
      match lookup c s.former with
      | some ci =>
        let okOwner := cands.any (fun e => match e.msg with
          | .cu u => u.scid == c && e.vk.contains (if u.cf % 2 == 0 then ci.n1 else ci.n2)
          | _ => false)
        if !okOwner then
          let by_ := joinOrDash (cands.filterMap (fun e => match e.msg with
            | .cu u => if u.scid == c then some s!"dir{u.cf % 2}/keys{e.vk}" else none
            | _ => none))
          -- explained by `makeZombiePubkeys` returning node1 in the second slot (strict pruning): the
          -- index holds (blank, node1) and the resurrecting update is a direction-1 update signed by node1
          let explained := s.strict && ks.1 == 0 && ks.2 == ci.n1 && ci.n1 != ci.n2 &&
            cands.any (fun e => match e.msg with
              | .cu u => u.scid == c && u.cf % 2 == 1 && e.vk.contains ci.n1
              | _ => false)
          let tag := if explained then " cause=strict-zombie-slot2-holds-node1" else ""
          s ← monitor s "zombie-live-owner" s!"zombie {c} (formerly node1={ci.n1} node2={ci.n2}) was resurrected by a channel_update that is not signed by the node owning its direction ({by_}) recorded-keys={ks.1},{ks.2}{tag}"
      | none => pure ()
  for (c, ks) in after.zombies do
    if lookup c before.zombies != some ks then
      if opKind == "zmb" then pure ()
      else if (opKind == "del" || opKind == "zpr") && rm.contains c && lookup c after.chans == none &&
          (lookup c before.chans).isSome then
        s := { s with zombiePruned := s.zombiePruned + 1 }
      else
        let ok := ks == (0, 0) && (opKind == "ca" || opKind == "blk") && !s.cfg.assumeValid &&
          lookup c after.chans == none &&
          caCands.any (fun e => match e.msg with
            | .ca a => a.scid == c && a.chain == 0 && e.rv == "1111" && !chainGoodFor s a
            | _ => false)
        if !ok then
          s ← monitor s "zombie-mark-signed-bad-funding" s!"zombie entry {c} appeared on a {opKind} although no four-signed announcement with a missing / mismatching / spent funding output was processed"
        else s := { s with zombieAdds := s.zombieAdds + 1 }
  -- proofs: a stored proof must verify (btcec, announcement rebuilt by the harness from the stored
  -- record); a channel that was in the graph without a proof gets one only when halves were delivered
  -- whose signatures really verify under the node / bitcoin keys of both slots
  let mut announced : List Scid := []
  let allHalves := (match s.curHalf with | some h => [h] | none => []) ++ s.halves
  for (c, pr) in after.proofs do
    if pr == 2 && lookup c before.proofs != some 2 then
      s ← monitor s "stored-proof-authentic" s!"channel {c} carries a proof whose four signatures do not all verify under its stored node / bitcoin keys over the announcement rebuilt from the stored record (op={opKind})"
    if pr != 0 && lookup c before.proofs == some 0 then
      announced := c :: announced
      let ok := match lookup c after.chans with
        | some ci =>
          -- (who delivered a half is not part of the statement: only what the signatures are)
          let slot1 := fun (h : Half) => h.scid == c && h.vn.contains ci.n1 && h.vb.contains ci.b1
          let slot2 := fun (h : Half) => h.scid == c && h.vn.contains ci.n2 && h.vb.contains ci.b2
          (opKind == "as" || opKind == "blk") && lookup c before.chans == some ci &&
          allHalves.any slot1 && allHalves.any slot2
        | none => false
      if !ok then
        s ← monitor s "proof-authentic" s!"channel {c} got a proof attached although the halves delivered so far do not carry node and bitcoin signatures that verify under the stored keys of both of its slots (op={opKind})"
      else s := { s with asAssembled := s.asAssembled + 1 }
    if pr == 0 && (match lookup c before.proofs with | some q => q != 0 | none => false) &&
        lookup c before.chans == lookup c after.chans then
      s ← monitor s "chan-changed" s!"channel {c} lost its proof on a {opKind}"
  -- relays
  for r in relay do
    match r.toNat? with
    | none => s ← monitor s "relay-unknown" s!"a message that was never submitted was broadcast ({r})"
    | some id =>
      let es := (match cur with | some e => [e] | none => []) ++ s.seen
      match es.find? (fun e => e.id == id) with
      | none => s ← monitor s "relay-unknown" s!"relayed id {id} unknown"
      | some e =>
        let ok := match e.msg with
          | .ca a => added.contains a.scid &&
              (match lookup a.scid after.chans with | some ci => caJustifies s e a.scid ci | none => false)
          | .cu u =>
            changedPols.any (fun kp => kp.1 == (u.scid, u.cf % 2) && kp.2 == u.policy) ||
            -- several cached updates of one direction are replayed in goroutine order: an
            -- update that was validly applied and then superseded within the same step is
            -- still a legitimate relay (authentic and strictly newer than the state before)
            (replayOp && (match lookup u.scid after.chans with
              | some ci => updJustifies s now e u.scid (u.cf % 2) ci
                  (lookup (u.scid, u.cf % 2) before.pols) u.policy
              | none => false))
          | .na x => changedNodes.any (fun kn => kn.1 == x.node && kn.2 == ⟨x.ts, some x.fields⟩)
        -- the announcements that accompany a freshly assembled proof: the rebuilt announcement
        -- (four really valid signatures, fields of the stored record), the stored policies and the
        -- stored node announcements of its endpoints
        let okAsm := (opKind == "as" || opKind == "blk") && (match e.msg with
          | .ca a => announced.contains a.scid && a.chain == 0 && e.rv == "1111" &&
              (match lookup a.scid after.chans with
               | some ci => a.n1 == ci.n1 && a.n2 == ci.n2 && a.b1 == ci.b1 && a.b2 == ci.b2 &&
                            a.feat == ci.feat && a.extra == ci.extra
               | none => false)
          | .cu u => announced.contains u.scid && lookup (u.scid, u.cf % 2) after.pols == some u.policy
          | .na x => lookup x.node after.nodes == some ⟨x.ts, some x.fields⟩ &&
              announced.any (fun c => match lookup c after.chans with
                | some ci => ci.n1 == x.node || ci.n2 == x.node | none => false))
        let ok := ok || okAsm
        if !ok then
          s ← monitor s "not-relayed-unless-accepted" s!"message id={id} was broadcast although it did not (validly) change the graph in this step"
        else s := { s with relays := s.relays + 1 }
  -- what is relayed must be byte-identical to what was received.  Known finding (codec): lnwire's
  -- ChannelUpdate1.Encode drops unknown extra-data TLVs.  Only a relayed channel_update whose
  -- relayed bytes equal the received bytes with exactly the unknown extra-data TLVs removed (as
  -- established by the harness, `wfs`) gets the clause `relay-wire-faithful`; every other altered
  -- relay is `relay-bytes-altered`.
  for r in wf do
    let es := (match cur with | some e => [e] | none => []) ++ s.seen
    let isCuWithExtra := match es.find? (fun e => toString e.id == r) with
      | some e => (match e.msg with | .cu u => u.extra != "" | _ => false)
      | none => false
    if isCuWithExtra && wfs.contains r then
      s ← monitor s "relay-wire-faithful" s!"channel_update id={r}: relayed bytes = received bytes minus the unknown extra-data TLVs (signature no longer covers them)"
    else
      s ← monitor s "relay-bytes-altered" s!"message id={r} is relayed with bytes different from the received (signed) ones"
  -- after quiescence the store's cache-backed answers must be the durable ones
  for (c, e) in after.hs do
    let durable := entOf after.chans after.pols after.zombies c
    let durable := if durable.ex then durable else { durable with t0 := 0, t1 := 0 }
    s := { s with cacheAnswers := s.cacheAnswers + 1 }
    if e != durable then
      s ← monitor s "cache-coherent-after-quiescence" s!"channel {c}: the store answers exists={e.ex} zombie={e.zo} ts0={e.t0} ts1={e.t1} but the durable graph has exists={durable.ex} zombie={durable.zo} ts0={durable.t0} ts1={durable.t1}"
  -- bookkeeping: an invalid message that changed nothing
  match cur with
  | some e =>
    let invalid := match e.msg with
      | .ca _ => e.rv != "1111"
      | _ => e.vk.isEmpty
    if invalid && added.isEmpty && changedPols.isEmpty && changedNodes.isEmpty && relay.isEmpty then
      s := { s with rejectsInvalid := s.rejectsInvalid + 1 }
  | none => pure ()
  return s

/-! ### model comparison -/

def compareGraph (s : St) (g : Graph) (d : Dump) : IO St := do
  let mut s := s
  if d.bad then s ← mismatch s "unparsable dump"
  if !sameMap g.chans d.chans then
    s ← mismatch s s!"graph channels: model has {g.chans.map (·.1)}, impl has {d.chans.map (·.1)} (or different info)"
  if !sameMap g.pols d.pols then
    s ← mismatch s s!"graph policies: model={g.pols.map (fun p => (p.1, p.2.ts))} impl={d.pols.map (fun p => (p.1, p.2.ts))}"
  if !sameMap g.nodes d.nodes then
    s ← mismatch s s!"graph nodes: model={g.nodes.map (fun p => (p.1, p.2.ts))} impl={d.nodes.map (fun p => (p.1, p.2.ts))}"
  if !sameMap g.zombies d.zombies then
    s ← mismatch s s!"zombie index: model={g.zombies} impl={d.zombies}"
  for (c, pr) in d.proofs do
    if (pr != 0) != s.ps.hasProof c then
      s ← mismatch s s!"channel {c}: stored proof flag impl={pr} model has-proof={s.ps.hasProof c}"
  return s

def relayIds (seen : List Seen) (l : List Msg) : String :=
  joinOrDash (sortStr (l.map (idOf seen)))

def replayStr (seen : List Seen) (l : List (Msg × Res)) (skipOk : Bool) : String :=
  let l := if skipOk then l.filter (fun _ => true) else l
  joinOrDash (sortStr (l.map (fun mr => s!"{idOf seen mr.1}:{resName mr.2}")))

def remember (s : St) (after : Dump) : St :=
  { s with prev := after, ps := s.ps.sync s.ms.g, curHalf := none,
           former := after.chans.foldl (fun f cc => upsert cc.1 cc.2 f) s.former }

/-- channels the builder's zombie pruning may remove, recomputed from the implementation's own
    previous dump: not ours, and some direction has no policy or one older than the prune expiry. -/
def zprRemovable (s : St) (now : Nat) : List Scid :=
  (s.prev.chans.filter (fun cc =>
    cc.2.n1 != s.cfg.self && cc.2.n2 != s.cfg.self &&
    [0, 1].any (fun d => match lookup (cc.1, d) s.prev.pols with
      | none => true
      | some p => decide (p.ts * nsPerSec + s.cfg.expiry * nsPerSec ≤ now)))).map (·.1)

/-- (X) for a graph write that was overlapped with a cache-miss lookup: the code's lock discipline
    as atomic steps of the cache model — the attempted operation cannot finish inside the other one's
    critical section, so the order is "armed operation first". -/
def concCheck (s : St) (ws : List String) (kind : String) (gBefore gAfter : Graph) (now : Nat)
    (after : Dump) : IO St := do
  let rd := sv ws "rd"
  if rd == "-" then return s
  let mut s := { s with concOps := s.concOps + 1 }
  let c := n ws "rscid"
  let sched := sv ws "sched"
  let barrier := sched != "seq-rw" && sched != "seq-wr"
  let wFirst := sched == "seq-wr" || sched.startsWith "w."
  if barrier then
    if n ws "fired" != 1 then
      s ← mismatch s s!"conc {kind}/{rd}/{sched}: the armed barrier was not reached (cache entry not cold?)"
    else s := { s with concBarriers := s.concBarriers + 1 }
    if n ws "inside" != 0 then
      s ← mismatch s s!"conc {kind}/{rd}/{sched}: the attempted operation finished inside the other one's critical section (model: blocked on cacheMu)"
  let e0 := entOf gBefore.chans gBefore.pols gBefore.zombies c
  let st0 := Cache.init (fun k => if k == c then e0 else ⟨false, false, 0, 0⟩)
  let wSteps : List Cache.Step :=
    if kind == "ue" then [.updBegin 1 c (n ws "cf" % 2) (n ws "ts"), .lookup 1 c, .updCommit 1]
    else if kind == "ae" then
      [.lookup 1 c] ++ (if e0.ex || e0.zo || sv ws "res" == "e_edge" then [] else [.addEdge c])
    else if kind == "del" then [.delEdge c true]
    else if kind == "zmb" then [.markZombie c]
    else []
  let rSteps : List Cache.Step := [.lookup 0 c]
  let fin := Cache.run st0 (if wFirst then wSteps ++ rSteps else rSteps ++ wSteps)
  let rts := n ws "rts"
  let rdir := n ws "rdir"
  let mAns := match (fin.thr 0).ans with
    | some (_, e) => ansStr s.cfg now rd rts rdir e
    | none => "?"
  if mAns != sv ws "ans" then
    s ← mismatch s s!"conc {kind}/{rd}/{sched}: lookup answer model={mAns} impl={sv ws "ans"}"
  let eAfter := entOf gAfter.chans gAfter.pols gAfter.zombies c
  if n ws "scid" == c && fin.disk c != eAfter then
    s ← mismatch s s!"conc {kind}: cache model and graph model disagree on the durable entry of {c}"
  -- (S) linearizability of the lookup: its answer is the durable one before or after the write
  let dB := entOf s.prev.chans s.prev.pols s.prev.zombies c
  let dA := entOf after.chans after.pols after.zombies c
  if sv ws "ans" != ansStr s.cfg now rd rts rdir dB && sv ws "ans" != ansStr s.cfg now rd rts rdir dA then
    s ← monitor s "lookup-answer-durable" s!"{rd} lookup of {c} overlapped with a {kind} answered {sv ws "ans"}, which is neither the durable answer before nor after the write"
  return s

/-- the implementation's waiting-proof store dump `W=` -/
def parseWaiting (digs : List (Nat × Digest)) (w : String) : List ((Scid × Bool) × AnnSigMsg) :=
  (splitList w "|").filterMap (fun t => match t.splitOn ":" with
    | [sc, rm, ns, bs] => some ((natD sc, rm == "1"), ⟨natD sc, parseSig digs ns, parseSig digs bs⟩)
    | _ => none)

/-- ids of what accompanies an assembled announcement on the broadcast path -/
def assembledRelay (seen : List Seen) (g : Graph) (ca : ChanAnn) : List String :=
  match lookup ca.scid g.chans with
  | none => ["?"]
  | some ci =>
    let (pols, nodes) := assembledExtras g ca.scid ci
    [idOf seen (.ca ca)] ++
    pols.map (fun kp => match seen.find? (fun e => match e.msg with
        | .cu u => u.scid == kp.1.1 && u.cf % 2 == kp.1.2 && u.policy == kp.2 | _ => false) with
      | some e => toString e.id | none => "?") ++
    nodes.map (fun kn => match seen.find? (fun e => match e.msg with
        | .na x => x.node == kn.1 && x.ts == kn.2.ts && some x.fields == kn.2.fields | _ => false) with
      | some e => toString e.id | none => "?")

def aresName : ARes → String
  | .ok => "ok" | .eNoChan => "e_nochan" | .eNotPeer => "e_notpeer" | .eInvalid => "e_invalid"

def step (s : St) (line : String) : IO St := do
  let s := { s with lines := s.lines + 1 }
  let ws := words line
  match ws with
  | "FACT" :: rest =>
    let cfg := { s.cfg with expiry := (kvNat? rest "expiry").getD 0,
                            rebroadcast := (kvNat? rest "rebroadcast").getD 0,
                            burst := (kvNat? rest "burst").getD 0 }
    let mut s := { s with cfg := cfg, zfixed := (kvNat? rest "zslot2").getD 1 == 2 }
    if (kvNat? rest "zslot2").getD 0 != 1 && (kvNat? rest "zslot2").getD 0 != 2 then
      s ← mismatch s s!"fact zslot2={(kvNat? rest "zslot2").getD 0}: the strict zombie key probe failed"
    if cfg.expiry != 14 * 24 * 3600 then s ← mismatch s s!"fact expiry={cfg.expiry}"
    if (kvNat? rest "interval").getD 0 < 30 then s ← mismatch s "fact interval too small for the burst model"
    return s
  | "CASE" :: id :: rest =>
    let self := n rest "self"
    let cfg := { s.cfg with self := self, assumeValid := n rest "av" == 1 }
    let init : State := { g := { nodes := [(self, ⟨0, none⟩)] }, height := n rest "height" }
    let s := { s with cfg := cfg, caseId := id, kind := sv rest "kind", ms := init,
                      prev := { nodes := [(self, ⟨0, none⟩)] }, seen := [], chainTab := [],
                      cases := s.cases + 1, strict := n rest "strict" == 1, former := [],
                      ps := {}, pmd := 0, fc := true, halves := [], curHalf := none }
    if !(s.sampled.contains s.kind) && s.sampled.length < 6 then
      return { s with sampled := s.kind :: s.sampled }
    return s
  | ["END"] => return s
  | "chain" :: rest =>
    let scid := n rest "scid"
    let scr := (sv rest "script").splitOn "."
    let (kind, k1, k2) := match scr with
      | [k, a, b] => (k, natD a, natD b)
      | [k, _] => (k, 0, 0)
      | _ => ("?", 0, 0)
    let res := sv rest "res"
    let ent : ChainEnt := ⟨res, kind, k1, k2, n rest "value", n rest "spent"⟩
    let script := if kind == "ms" then mkMs k1 k2 else if kind == "tr" then mkTr k1 k2 else .other 1
    let cr : ChainRes :=
      if res == "utxo" then .out script (n rest "value") (n rest "spent")
      else if res == "noout" then .noOut
      else if res == "fetcherr" then .noTx false
      else .noTx true
    return { s with chainTab := upsert scid ent s.chainTab,
                    ms := { s.ms with chain := upsert scid cr s.ms.chain } }
  | "asc" :: rest => return { s with pmd := n rest "pmd", fc := n rest "fc" == 1 }
  | "rst" :: _ =>
    let after := parseDump ws
    let mut s := { s with ps := s.ps.restart, ops := s.ops + 1, storeReopens := s.storeReopens + 1 }
    if !sameMap s.ps.waiting (parseWaiting s.digs (sv ws "W")) then
      s ← mismatch s s!"rst: waiting-proof store after re-open impl={sv ws "W"} model has {s.ps.waiting.map (·.1)}"
    s ← compareGraph s s.ms.g after
    s ← runMonitor s "rst" none 0 [] [] [] after
    return remember s after
  | "as" :: rest =>
    let after := parseDump ws
    let a : AnnSigMsg := ⟨n rest "scid", parseSig s.digs (sv rest "ns"), parseSig s.digs (sv rest "bs")⟩
    let loc := n rest "loc" == 1
    let src := n rest "src"
    let hf : Half := ⟨n rest "id", loc, src, a.scid, (splitList (sv rest "vn") ",").map natD,
      (splitList (sv rest "vb") ",").map natD⟩
    let relay := splitList (sv ws "relay") ","
    let out := stepAnnSig s.pmd s.fc s.ms s.ps (!loc) src a
    let mut s := { s with ps := out.ps, ops := s.ops + 1, asOps := s.asOps + 1, curHalf := some hf }
    -- the symbolic signature terms against the real verification of the two signatures
    match lookup a.scid s.ms.g.chans with
    | some ci =>
      let dg : Digest := .ca 0 a.scid ci.n1 ci.n2 ci.b1 ci.b2 ci.feat ci.extra
      for k in [ci.n1, ci.n2, ci.b1, ci.b2] do
        if (a.ns == Sig.mk k dg) != hf.vn.contains k || (a.bs == Sig.mk k dg) != hf.vb.contains k then
          s ← mismatch s s!"as id={hf.id}: symbolic signature term disagrees with real ECDSA verification under key {k}"
    | none => pure ()
    if aresName out.res != sv ws "res" then
      s ← mismatch s s!"as id={hf.id}: result model={aresName out.res} impl={sv ws "res"}"
    let mRelay := match out.relay with
      | some ca => joinOrDash (sortStr (assembledRelay s.seen s.ms.g ca))
      | none => "-"
    if mRelay != joinOrDash (sortStr relay) then
      s ← mismatch s s!"as id={hf.id}: relay model={mRelay} impl={sv ws "relay"}"
    if !sameMap out.ps.waiting (parseWaiting s.digs (sv ws "W")) then
      s ← mismatch s s!"as id={hf.id}: waiting-proof store impl={sv ws "W"} model has {out.ps.waiting.map (·.1)}"
    s ← compareGraph s s.ms.g after
    s ← runMonitor s "as" none (n rest "now") relay (splitList (sv ws "wf") ",") (splitList (sv ws "wfs") ",") after
    if out.res != .ok then s := { s with asRejected := s.asRejected + 1 }
    if out.relay.isNone && out.res == .ok then s := { s with asWaiting := s.asWaiting + 1 }
    let s2 := remember s after
    return { s2 with halves := hf :: s.halves, resKinds := bump s.resKinds ("as_" ++ sv ws "res") }
  | "zmb" :: rest =>
    let scid := n rest "scid"
    let after := parseDump ws
    let ms := { s.ms with g := { s.ms.g with zombies := upsert scid (n rest "k1", n rest "k2") s.ms.g.zombies } }
    let gBefore := s.ms.g
    let mut s := { s with ms := ms, ops := s.ops + 1 }
    if sv ws "res" != "ok" then s ← mismatch s s!"zmb: impl={sv ws "res"}"
    s ← compareGraph s ms.g after
    s ← concCheck s ws "zmb" gBefore ms.g (n rest "now") after
    s ← runMonitor s "zmb" none 0 [] [] [] after
    return remember s after
  | "cool" :: _ =>
    let after := parseDump ws
    let mut s := s
    s ← compareGraph s s.ms.g after
    s ← runMonitor s "cool" none 0 [] [] [] after
    return remember s after
  | "coh" :: _ =>
    let after := parseDump ws
    let mut s := s
    s ← compareGraph s s.ms.g after
    if !after.hasH then s ← mismatch s "coh line without cache answers"
    s ← runMonitor s "coh" none 0 [] [] [] after
    return remember s after
  | "hz" :: rest =>
    -- observation only (not a clause of C20): what ChanUpdatesInHorizon (channel cache) answers
    -- after an update was applied while an earlier horizon query was being consumed
    let after := parseDump ws
    let mut s := s
    s ← compareGraph s s.ms.g after
    s ← runMonitor s "hz" none 0 [] [] [] after
    s := { s with horizonQueries := s.horizonQueries + 1 }
    match (sv rest "after").splitOn ":" with
    | [sc, t0, t1] =>
      let d := entOf after.chans after.pols after.zombies (natD sc)
      if d.t0 != natD t0 || d.t1 != natD t1 then
        if s.horizonStale == 0 then
          IO.println s!"SAMPLE case={s.caseId} observation (outside C20's statement): ChanUpdatesInHorizon answers ts0={t0} ts1={t1} for channel {sc} while the durable policies have ts0={d.t0} ts1={d.t1} (channel cache filled after the lock was released)"
        s := { s with horizonStale := s.horizonStale + 1 }
    | _ => s ← mismatch s "hz: unparsable answer"
    return remember s after
  | "del" :: rest =>
    let scid := n rest "scid"
    let after := parseDump ws
    let gBefore := s.ms.g
    let exists_ := (lookup scid gBefore.chans).isSome
    let strict := n rest "strict" == 1
    let g := if exists_ then (gBefore.delZombie strict s.zfixed scid).pruneNodes s.cfg.self else gBefore
    let mut s := { s with ms := { s.ms with g := g }, ops := s.ops + 1, prunes := s.prunes + 1 }
    let mres := if exists_ then "ok" else "err"
    if sv ws "res" != mres then s ← mismatch s s!"del: result model={mres} impl={sv ws "res"}"
    if sv ws "relay" != "-" then s ← mismatch s s!"del relayed {sv ws "relay"}"
    s ← compareGraph s g after
    s ← concCheck s ws "del" gBefore g (n rest "now") after
    s ← runMonitor s "del" none 0 [] [] [] after [scid]
    return remember s after
  | "zpr" :: rest =>
    let now := n rest "now"
    let after := parseDump ws
    let g := zombiePrune s.cfg s.strict s.zfixed now s.ms.g
    let rm := zprRemovable s now
    let mut s := { s with ms := { s.ms with g := g }, ops := s.ops + 1, zombiePrunes := s.zombiePrunes + 1 }
    if sv ws "relay" != "-" then s ← mismatch s s!"zpr relayed {sv ws "relay"}"
    s ← compareGraph s g after
    s ← runMonitor s "zpr" none now [] [] [] after rm
    return remember s after
  | "prn" :: rest =>
    let scid := n rest "scid"
    let after := parseDump ws
    let ms := { s.ms with g := s.ms.g.prune s.cfg.self scid }
    let mut s := { s with ms := ms, ops := s.ops + 1, prunes := s.prunes + 1 }
    if sv ws "res" != "ok" then s ← mismatch s s!"prn: impl={sv ws "res"}"
    if sv ws "relay" != "-" then s ← mismatch s s!"prn relayed {sv ws "relay"}"
    s ← compareGraph s ms.g after
    s ← runMonitor s "prn" none 0 [] [] [] after [scid]
    return remember s after
  | "blk" :: rest =>
    let now := n rest "now"
    let after := parseDump ws
    let relay := splitList (sv ws "relay") ","
    let acc := newBlock s.cfg now s.ms (n rest "h")
    let (ps1, outs) := blockAnnSigs s.pmd s.fc acc.st (s.ps.sync acc.st.g)
    let mut s := { s with ms := acc.st, ops := s.ops + 1, ps := ps1 }
    let asmIds := (outs.filterMap (·.2)).flatMap (assembledRelay s.seen acc.st.g)
    let mRelay := joinOrDash (sortStr (((acc.relay.filter (relayAllowed acc.st.g ps1)).map (idOf s.seen)) ++ asmIds))
    if (kv? ws "W").isSome && !sameMap ps1.waiting (parseWaiting s.digs (sv ws "W")) then
      s ← mismatch s s!"blk: waiting-proof store impl={sv ws "W"} model has {ps1.waiting.map (·.1)}"
    if mRelay != joinOrDash (sortStr relay) then
      s ← mismatch s s!"blk relay: model={mRelay} impl={sv ws "relay"}"
    s ← compareGraph s acc.st.g after
    s ← runMonitor s "blk" none now relay (splitList (sv ws "wf") ",") (splitList (sv ws "wfs") ",") after
    let s2 := remember s after
    return { s2 with replays := s.replays + acc.replayed.length }
  | kind :: rest =>
    if kind != "ca" && kind != "cu" && kind != "na" && kind != "au" && kind != "ue" && kind != "ae" && kind != "dcl" then
      if ws.isEmpty then return s else return ← mismatch s s!"unparsed line: {line.take 60}"
    let some m0 := parseMsg ws s.digs | mismatch s "bad message"
    let did := n rest "dig"
    let dg := msgDigest m0
    let mut s := { s with ops := s.ops + 1 }
    -- tie between the model's digest constructor and the real DataToSign bytes
    match lookup did s.digs with
    | some d0 =>
      if d0 != dg then
        s ← mismatch s s!"two messages with identical DataToSign bytes (dig={did}) differ in a field the model signs"
    | none =>
      match s.digs.find? (fun e => e.2 == dg) with
      | some e => s ← mismatch s s!"DataToSign distinguishes dig={e.1} and dig={did} but the model's digest does not (unsigned-in-model field)"
      | none => pure ()
      s := { s with digs := (did, dg) :: s.digs }
    let some m := parseMsg ws s.digs | mismatch s "bad message"
    match m with
    | .ca a =>
      if a.tap != (n rest "tap" == 1) then
        s ← mismatch s s!"taproot feature bit: model tapOf(feat)={a.tap} impl tap={n rest "tap"}"
    | _ => pure ()
    if n rest "sym" != 1 then
      s ← mismatch s "symbolic signature term disagrees with real ECDSA verification"
    let id := n rest "id"
    let peer := n rest "peer"
    let now := n rest "now"
    let cur : Seen := ⟨id, m, sv rest "rv", (splitList (sv rest "vk") ",").map natD, sv rest "fop",
      (kvNat? rest "proof").getD 1⟩
    if kind == "dcl" then
      -- declaration only: the announcement a proof assembly is expected to rebuild
      return { s with ops := s.ops - 1, seen := cur :: s.seen }
    let res := sv ws "res"
    let relay := splitList (sv ws "relay") ","
    let after := parseDump ws
    if s.sampled.contains s.kind then
      IO.println s!"SAMPLE case={s.caseId} kind={s.kind} {(line.take 330)}"
      s := { s with sampled := s.sampled.filter (· != s.kind) ++ ["#" ++ s.kind] }
    -- (X) model
    let seenAll := cur :: s.seen
    let direct := kind == "au" || kind == "ue" || kind == "ae"
    let gBefore := s.ms.g
    let (rname, acc) : String × Acc :=
      match direct, m with
      | true, .ca a =>
        if res == "e_edge" then ("e_edge", ⟨s.ms, [], []⟩)
        else
          let cap := match chainLookup s.ms.chain a.scid with
            | .out _ v _ => v
            | _ => 0
          let (st, er) := addEdgeDirect s.ms a cap
          (match er with | .ok => "ok" | .ignored => "e_ignored" | .outdated => "e_outdated", ⟨st, [], []⟩)
      | true, .cu u =>
        if kind == "au" then
          let (st, ok) := applyChannelUpdate s.ms u
          (if ok then "true" else "false", ⟨st, [], []⟩)
        else
          let (st, er) := updateEdge s.ms u
          (match er with | .ok => "ok" | .ignored => "e_ignored" | .outdated => "e_outdated", ⟨st, [], []⟩)
      | _, _ =>
        let (r, acc) := submit s.cfg now s.ms peer m
        (resName r, acc)
    s := { s with ms := acc.st }
    -- channels handed in without a proof, and the relay rules that depend on proofs
    match m with
    | .ca a =>
      if kind == "ae" && rname == "ok" && cur.proof == 0 then
        s := { s with ps := { s.ps with noProof := a.scid :: s.ps.noProof } }
    | _ => pure ()
    s := { s with ps := s.ps.sync acc.st.g }
    let acc : Acc := if direct then acc else
      { acc with relay := acc.relay.filter (relayAllowed acc.st.g s.ps) }
    if rname != res then
      s ← mismatch s s!"{kind} id={id}: result model={rname} impl={res}"
    let mRelay := relayIds seenAll acc.relay
    if mRelay != joinOrDash (sortStr relay) then
      s ← mismatch s s!"{kind} id={id}: relay model={mRelay} impl={sv ws "relay"}"
    let mRs := replayStr seenAll acc.replayed false
    if mRs != joinOrDash (sortStr (splitList (sv ws "rs") ",")) then
      s ← mismatch s s!"{kind} id={id}: replayed model={mRs} impl={sv ws "rs"}"
    s ← compareGraph s acc.st.g after
    s ← concCheck s ws kind gBefore acc.st.g now after
    -- (S) monitor
    s ← runMonitor s kind (some cur) now relay (splitList (sv ws "wf") ",") (splitList (sv ws "wfs") ",") after
    let s2 := remember s after
    return { s2 with seen := seenAll, resKinds := bump s.resKinds (kind ++ "_" ++ res),
                     replays := s.replays + acc.replayed.length,
                     pendings := s.pendings + (if res == "pending" then 1 else 0) }
  | [] => return s

end LndModel.C20.Driver

open LndModel.C20.Driver in
def main : IO Unit := do
  let s ← LndModel.Lines.foldStdin step {}
  IO.println s!"STAT lines={s.lines}"
  IO.println s!"STAT cases={s.cases}"
  IO.println s!"STAT evaluations={s.ops}"
  IO.println s!"STAT nontrivial={s.chanAdds + s.polChanges + s.nodeChanges + s.rejectsInvalid + s.zombieLives + s.concBarriers + s.zombiePruned + s.directAdds + s.asAssembled + s.asRejected}"
  IO.println s!"STAT channels_added={s.chanAdds}"
  IO.println s!"STAT policies_changed={s.polChanges}"
  IO.println s!"STAT nodes_changed={s.nodeChanges}"
  IO.println s!"STAT invalid_messages_rejected={s.rejectsInvalid}"
  IO.println s!"STAT relayed={s.relays}"
  IO.println s!"STAT replayed_cached={s.replays}"
  IO.println s!"STAT pending_updates={s.pendings}"
  IO.println s!"STAT zombies_added={s.zombieAdds}"
  IO.println s!"STAT zombies_resurrected={s.zombieLives}"
  IO.println s!"STAT prunes={s.prunes}"
  IO.println s!"STAT conc_overlapped_writes={s.concOps}"
  IO.println s!"STAT conc_barriers_reached={s.concBarriers}"
  IO.println s!"STAT cache_answers_checked={s.cacheAnswers}"
  IO.println s!"STAT zombie_prune_ticks={s.zombiePrunes}"
  IO.println s!"STAT zombie_pruned_channels={s.zombiePruned}"
  IO.println s!"STAT direct_edge_adds={s.directAdds}"
  IO.println s!"STAT horizon_queries={s.horizonQueries}"
  IO.println s!"STAT annsig_halves={s.asOps}"
  IO.println s!"STAT annsig_proofs_assembled={s.asAssembled}"
  IO.println s!"STAT annsig_halves_rejected={s.asRejected}"
  IO.println s!"STAT annsig_halves_waiting={s.asWaiting}"
  IO.println s!"STAT annsig_store_reopens={s.storeReopens}"
  IO.println s!"STAT horizon_stale_answers_observed={s.horizonStale}"
  for (k, v) in s.resKinds do
    IO.println s!"STAT res_{k}={v}"
  IO.println s!"STAT mismatches={s.mismatches}"
  IO.println s!"STAT monitor_failures={s.monitorFails}"
