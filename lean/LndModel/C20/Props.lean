/-
C20 — "Only authentic, fresh gossip changes the channel graph": the property theorems
(DESIGN.md §2 C20).  All statements are about `submit`, the model of
`ProcessRemoteAnnouncement` *including* the replay of cached premature updates, for every
configuration, clock value, state, peer and message.  Helper lemmas live in Lemmas.lean.
-/
import LndModel.C20.Lemmas

namespace LndModel.C20

/-! ### chan_ann_authentic -/

/-- A channel record appears or changes only through a channel announcement for that very scid on
    our chain whose four signatures verify over the announcement digest under the node and bitcoin
    keys it names, and whose funding output exists, is unspent and pays to the 2-of-2 of those
    bitcoin keys; the stored record carries exactly the announced keys and the output's value.
    (`AssumeChannelValid` off — the flag is an explicit hypothesis.) -/
theorem chan_ann_authentic (cfg : Cfg) (hav : cfg.assumeValid = false) (now : Nat) (s : State)
    (p : Peer) (m : Msg) (c : Scid)
    (hne : lookup c (submit cfg now s p m).2.st.g.chans ≠ lookup c s.g.chans) :
    ∃ a v, m = .ca a ∧ a.scid = c ∧ a.chain = 0 ∧ CaSigned a ∧ FundingOk s a v ∧
      lookup c s.g.chans = none ∧
      lookup c (submit cfg now s p m).2.st.g.chans = some (a.info v) := by
  cases m with
  | cu u =>
    rw [submit_cu] at hne
    exact absurd (by rw [(dispatch_cu_spec cfg now s p u).1]) hne
  | na n =>
    rw [submit_na] at hne
    exact absurd (by rw [(stepNode_spec s n).1]) hne
  | ca a =>
    rcases submit_ca_cases cfg now s p a with ⟨hc, _⟩ | ⟨hch, hsig, hkn, v, hv, hst⟩
    · exact absurd (by rw [hc]) hne
    · have hchans : (submit cfg now s p (.ca a)).2.st.g.chans =
          upsert a.scid (a.info v) s.g.chans := by
        rw [hst, (runUpdates_spec cfg now _ _).1]; rfl
      rw [hchans] at hne ⊢
      by_cases hcs : c = a.scid
      · subst hcs
        rcases hv with ⟨h1, _⟩ | ⟨_, hf⟩
        · rw [hav] at h1; cases h1
        · exact ⟨a, v, rfl, rfl, hch, hsig, hf, hkn, lookup_upsert_self _ _ _⟩
      · exact absurd (lookup_upsert_ne _ _ hcs) hne

/-- With `AssumeChannelValid` the chain is not consulted, but the four signatures still are. -/
theorem chan_ann_authentic_assume_valid (cfg : Cfg) (now : Nat) (s : State)
    (p : Peer) (m : Msg) (c : Scid)
    (hne : lookup c (submit cfg now s p m).2.st.g.chans ≠ lookup c s.g.chans) :
    ∃ a, m = .ca a ∧ a.scid = c ∧ a.chain = 0 ∧ CaSigned a ∧ lookup c s.g.chans = none := by
  cases m with
  | cu u =>
    rw [submit_cu] at hne
    exact absurd (by rw [(dispatch_cu_spec cfg now s p u).1]) hne
  | na n =>
    rw [submit_na] at hne
    exact absurd (by rw [(stepNode_spec s n).1]) hne
  | ca a =>
    rcases submit_ca_cases cfg now s p a with ⟨hc, _⟩ | ⟨hch, hsig, hkn, v, _, hst⟩
    · exact absurd (by rw [hc]) hne
    · have hchans : (submit cfg now s p (.ca a)).2.st.g.chans =
          upsert a.scid (a.info v) s.g.chans := by
        rw [hst, (runUpdates_spec cfg now _ _).1]; rfl
      rw [hchans] at hne
      by_cases hcs : c = a.scid
      · subst hcs; exact ⟨a, rfl, rfl, hch, hsig, hkn⟩
      · exact absurd (lookup_upsert_ne _ _ hcs) hne

/-! ### chan_update_authentic_fresh -/

/-- A policy record changes only to the policy of a channel update `u` for that channel and
    direction which is either the submitted message or one that had been cached while its channel
    was unknown (and is now replayed through the same checks), such that: the channel is known,
    `u` is signed by the node owning that direction (node1 for direction 0, node2 for 1), its
    timestamp is non-zero, not too far in the future and strictly greater than the timestamp stored
    before, and its fields are consistent (`max_htlc` flag, `0 < max`, `min ≤ max ≤ capacity`). -/
theorem chan_update_authentic_fresh (cfg : Cfg) (now : Nat) (s : State) (p : Peer) (m : Msg)
    (k : Scid × Nat)
    (hne : lookup k (submit cfg now s p m).2.st.g.pols ≠ lookup k s.g.pols) :
    ∃ u, (m = .cu u ∨ ∃ a p', m = .ca a ∧ (p', u) ∈ (lookup a.scid s.premature).getD []) ∧
      (u.scid, dirOf u.cf) = k ∧
      lookup k (submit cfg now s p m).2.st.g.pols = some u.policy ∧
      UpdAuthentic cfg now (submit cfg now s p m).2.st.g.chans u ∧
      UpdFresh s.g.pols u := by
  cases m with
  | cu u =>
    rw [submit_cu] at hne ⊢
    obtain ⟨hc, _, hp⟩ := dispatch_cu_spec cfg now s p u
    rcases hp with ⟨hp, _⟩ | ⟨hauth, hfresh, hp, _, _⟩
    · exact absurd (by rw [hp]) hne
    · simp only at hne ⊢
      rw [hp] at hne ⊢
      by_cases hk : (u.scid, dirOf u.cf) = k
      · refine ⟨u, Or.inl rfl, hk, ?_, ?_, hfresh⟩
        · rw [← hk, lookup_upsert_self]
        · rw [hc]; exact hauth
      · exact absurd (lookup_upsert_ne _ _ (fun e => hk e.symm)) hne
  | na n =>
    rw [submit_na] at hne
    exact absurd (by rw [(stepNode_spec s n).2.1]) hne
  | ca a =>
    rcases submit_ca_cases cfg now s p a with ⟨_, hp, _⟩ | ⟨_, _, _, v, _, hst⟩
    · exact absurd (by rw [hp]) hne
    · obtain ⟨hc, _, hpol, _⟩ := runUpdates_spec cfg now ((lookup a.scid s.premature).getD [])
        ⟨{ (s.addChan a v) with premature := erase a.scid s.premature }, [.ca a], []⟩
      rw [hst] at hne ⊢
      rcases hpol k with h | ⟨pu, hmem, hk, hl, ha, hf⟩
      · exact absurd h hne
      · refine ⟨pu.2, Or.inr ⟨a, pu.1, rfl, hmem⟩, hk, hl, ?_, hf⟩
        rw [hc]; exact ha

/-! ### node_ann_authentic_fresh -/

/-- A node record changes only (a) through a node announcement signed by that node, with a non-zero
    timestamp strictly newer than the stored one, for a node that is already in the graph — and
    nodes enter the graph only as endpoints of an accepted channel, see `nodes_are_endpoints` —
    or (b) as the timestamp-0 shell record created for an endpoint of a channel that an authentic
    channel announcement adds in the same step. -/
theorem node_ann_authentic_fresh (cfg : Cfg) (now : Nat) (s : State) (p : Peer) (m : Msg)
    (k : Key)
    (hne : lookup k (submit cfg now s p m).2.st.g.nodes ≠ lookup k s.g.nodes) :
    (∃ n, m = .na n ∧ n.node = k ∧ NodeAuthenticFresh s.g.nodes n ∧
        lookup k (submit cfg now s p m).2.st.g.nodes = some ⟨n.ts, some n.fields⟩) ∨
    (∃ a, m = .ca a ∧ (k = a.n1 ∨ k = a.n2) ∧ a.chain = 0 ∧ CaSigned a ∧
        lookup a.scid s.g.chans = none ∧
        lookup a.scid (submit cfg now s p m).2.st.g.chans ≠ none ∧
        lookup k s.g.nodes = none ∧
        lookup k (submit cfg now s p m).2.st.g.nodes = some ⟨0, none⟩) := by
  cases m with
  | cu u =>
    rw [submit_cu] at hne
    exact absurd (by rw [(dispatch_cu_spec cfg now s p u).2.1]) hne
  | na n =>
    rw [submit_na] at hne ⊢
    obtain ⟨_, _, hn⟩ := stepNode_spec s n
    rcases hn with ⟨hn, _⟩ | ⟨hok, hn, _, _⟩
    · exact absurd (by rw [hn]) hne
    · simp only at hne ⊢
      rw [hn] at hne ⊢
      by_cases hk : k = n.node
      · left
        exact ⟨n, rfl, hk.symm, hok, by rw [hk, lookup_upsert_self]⟩
      · exact absurd (lookup_upsert_ne _ _ hk) hne
  | ca a =>
    rcases submit_ca_cases cfg now s p a with ⟨_, _, hn, _⟩ | ⟨hch, hsig, hkn, v, _, hst⟩
    · exact absurd (by rw [hn]) hne
    · obtain ⟨hc, hn, _, _⟩ := runUpdates_spec cfg now ((lookup a.scid s.premature).getD [])
        ⟨{ (s.addChan a v) with premature := erase a.scid s.premature }, [.ca a], []⟩
      rw [hst] at hne ⊢
      rw [hn] at hne ⊢
      rw [hc]
      have hne' : lookup k (addShell a.n2 (addShell a.n1 s.g.nodes)) ≠ lookup k s.g.nodes := hne
      show _ ∨ ∃ a_1, Msg.ca a = Msg.ca a_1 ∧ (k = a_1.n1 ∨ k = a_1.n2) ∧ a_1.chain = 0 ∧ CaSigned a_1 ∧
        lookup a_1.scid s.g.chans = none ∧
        lookup a_1.scid (upsert a.scid (a.info v) s.g.chans) ≠ none ∧
        lookup k s.g.nodes = none ∧
        lookup k (addShell a.n2 (addShell a.n1 s.g.nodes)) = some ⟨0, none⟩
      rw [lookup_addShell, lookup_addShell] at hne' ⊢
      right
      cases hk : lookup k s.g.nodes with
      | some x => simp [hk] at hne'
      | none =>
        simp only [hk] at hne' ⊢
        by_cases h1 : a.n1 = k
        · refine ⟨a, rfl, Or.inl h1.symm, hch, hsig, hkn, by rw [lookup_upsert_self]; simp, trivial, ?_⟩
          simp [h1]
        · by_cases h2 : a.n2 = k
          · refine ⟨a, rfl, Or.inr h2.symm, hch, hsig, hkn, by rw [lookup_upsert_self]; simp, trivial, ?_⟩
            simp [h1, h2]
          · simp [h1, h2] at hne'

/-- Every node record belongs to our own node or to an endpoint of a known channel. -/
def NodesAreEndpoints (self : Key) (g : Graph) : Prop :=
  ∀ k ni, lookup k g.nodes = some ni →
    k = self ∨ ∃ c ci, lookup c g.chans = some ci ∧ (ci.n1 = k ∨ ci.n2 = k)

/-- `NodesAreEndpoints` holds initially (only the source node) and is preserved by every
    submission: "a node announcement is applied only if the node has a known channel". -/
theorem nodes_are_endpoints (cfg : Cfg) (self : Key) (now : Nat) (s : State) (p : Peer) (m : Msg)
    (inv : NodesAreEndpoints self s.g) : NodesAreEndpoints self (submit cfg now s p m).2.st.g := by
  intro k ni hk
  by_cases hsame : lookup k (submit cfg now s p m).2.st.g.nodes = lookup k s.g.nodes
  · -- the record was there before: its channel is still there
    rw [hsame] at hk
    rcases inv k ni hk with h | ⟨c, ci, hc, hend⟩
    · exact Or.inl h
    · right
      refine ⟨c, ci, ?_, hend⟩
      by_cases hcc : lookup c (submit cfg now s p m).2.st.g.chans = lookup c s.g.chans
      · rw [hcc]; exact hc
      · obtain ⟨a, _, _, _, _, hnone⟩ := chan_ann_authentic_assume_valid cfg now s p m c hcc
        rw [hnone] at hc; cases hc
  · rcases node_ann_authentic_fresh cfg now s p m k hsame with
      ⟨n, hm, hnk, ⟨_, _, old, hold, _⟩, _⟩ | ⟨a, hm, hka, _, _, hnone, hadded, _, _⟩
    · -- announcement for a node that was already present
      subst hm
      rw [hnk] at hold
      rcases inv k old hold with h | ⟨c, ci, hc, hend⟩
      · exact Or.inl h
      · right
        refine ⟨c, ci, ?_, hend⟩
        rw [submit_na]
        simp only
        rw [(stepNode_spec s n).1]; exact hc
    · -- shell node of the channel added right now
      right
      subst hm
      rcases submit_ca_cases cfg now s p a with ⟨hc, _⟩ | ⟨_, _, hkn, v, _, hst⟩
      · rw [hc] at hadded
        exact absurd hnone hadded
      · refine ⟨a.scid, a.info v, ?_, ?_⟩
        · rw [hst, (runUpdates_spec cfg now _ _).1]
          exact lookup_upsert_self _ _ _
        · rcases hka with h | h
          · left; exact h.symm
          · right; exact h.symm

/-! ### the zombie index -/

/-- The zombie index (not consulted by path finding, but part of the graph DB) changes at scid `c`
    only (a) by marking `c` with zero keys when a channel announcement for `c` with four valid
    signatures has no acceptable funding output (missing, wrong script, spent) — so that the
    announcement is not re-validated — or (b) by removing `c` for a channel update (submitted, or
    cached and replayed) on our chain, with non-zero timestamp inside the prune horizon, signed by
    the key the index recorded for the update's direction. -/
theorem zombie_index_authentic (cfg : Cfg) (now : Nat) (s : State) (p : Peer) (m : Msg) (c : Scid)
    (hne : lookup c (submit cfg now s p m).2.st.g.zombies ≠ lookup c s.g.zombies) :
    (∃ a, m = .ca a ∧ a.scid = c ∧ a.chain = 0 ∧ CaSigned a ∧ cfg.assumeValid = false ∧
        BadFunding s a ∧ lookup c (submit cfg now s p m).2.st.g.zombies = some (0, 0)) ∨
    (∃ u, (m = .cu u ∨ ∃ a p', m = .ca a ∧ (p', u) ∈ (lookup a.scid s.premature).getD []) ∧
        u.scid = c ∧ ZombieResurrect cfg now (lookup c s.g.zombies) u ∧
        lookup c (submit cfg now s p m).2.st.g.zombies = none) := by
  cases m with
  | cu u =>
    rw [submit_cu] at hne ⊢
    simp only at hne ⊢
    rcases dispatch_cu_zombies cfg now s p u with h | ⟨hres, h⟩
    · exact absurd (by rw [h]) hne
    · rw [h] at hne ⊢
      by_cases hc : u.scid = c
      · right
        exact ⟨u, Or.inl rfl, hc, by rw [← hc]; exact hres, by rw [← hc, lookup_erase_self]⟩
      · exact absurd (lookup_erase_ne _ (fun e => hc e.symm)) hne
  | na n =>
    rw [submit_na] at hne
    exact absurd (by simp only; rw [stepNode_zombies]) hne
  | ca a =>
    rcases submit_ca_zombies cfg now s p a c with h | ⟨hs, hch, hsg, hav, hbad, hl⟩ |
      ⟨pu, hmem, hs, hres, hl⟩
    · exact absurd h hne
    · left; exact ⟨a, rfl, hs, hch, hsg, hav, hbad, hl⟩
    · right; exact ⟨pu.2, Or.inr ⟨a, pu.1, rfl, hmem⟩, hs, hres, hl⟩

/-! ### else_unchanged_not_relayed -/

/-- the submitted message is one the property allows to change the graph -/
def Accepted (cfg : Cfg) (now : Nat) (s : State) : Msg → Prop
  | .ca a => a.chain = 0 ∧ CaSigned a ∧ lookup a.scid s.g.chans = none ∧
      (cfg.assumeValid = true ∨ ∃ v, FundingOk s a v)
  | .cu u => UpdAuthentic cfg now s.g.chans u ∧ UpdFresh s.g.pols u
  | .na n => NodeAuthenticFresh s.g.nodes n

/-- Anything else leaves channels, policies and nodes unchanged and is not relayed (nor are cached
    updates replayed). -/
theorem else_unchanged_not_relayed (cfg : Cfg) (now : Nat) (s : State) (p : Peer) (m : Msg)
    (hrej : ¬ Accepted cfg now s m) :
    (submit cfg now s p m).2.st.g.chans = s.g.chans ∧
    (submit cfg now s p m).2.st.g.pols = s.g.pols ∧
    (submit cfg now s p m).2.st.g.nodes = s.g.nodes ∧
    (submit cfg now s p m).2.relay = [] := by
  cases m with
  | cu u =>
    rw [submit_cu]
    obtain ⟨hc, hn, hp⟩ := dispatch_cu_spec cfg now s p u
    rcases hp with ⟨hp, hr⟩ | ⟨hauth, hfresh, _⟩
    · exact ⟨hc, hp, hn, hr⟩
    · exact absurd ⟨hauth, hfresh⟩ hrej
  | na n =>
    rw [submit_na]
    obtain ⟨hc, hp, hn⟩ := stepNode_spec s n
    rcases hn with ⟨hn, hr⟩ | ⟨hok, _⟩
    · exact ⟨hc, hp, hn, hr⟩
    · exact absurd hok hrej
  | ca a =>
    rcases submit_ca_cases cfg now s p a with h | ⟨hch, hsig, hkn, v, hv, _⟩
    · exact h
    · refine absurd ⟨hch, hsig, hkn, ?_⟩ hrej
      rcases hv with ⟨h, _⟩ | ⟨_, h⟩
      · exact Or.inl h
      · exact Or.inr ⟨v, h⟩

/-- Everything that is handed to the broadcast path is either the submitted message itself, which
    then is `Accepted`, or a replayed cached update that is authentic for the channels now known. -/
theorem relayed_only_if_accepted (cfg : Cfg) (now : Nat) (s : State) (p : Peer) (m : Msg)
    (x : Msg) (hx : x ∈ (submit cfg now s p m).2.relay) :
    (x = m ∧ Accepted cfg now s m) ∨
    (∃ a p' u, m = .ca a ∧ x = .cu u ∧ (p', u) ∈ (lookup a.scid s.premature).getD [] ∧
      UpdAuthentic cfg now (submit cfg now s p m).2.st.g.chans u) := by
  by_cases hacc : Accepted cfg now s m
  · cases m with
    | cu u =>
      rw [submit_cu] at hx
      obtain ⟨_, _, hp⟩ := dispatch_cu_spec cfg now s p u
      rcases hp with ⟨_, hr⟩ | ⟨_, _, _, hr, _⟩
      · simp only at hx; rw [hr] at hx; cases hx
      · simp only at hx; rw [hr] at hx
        exact Or.inl ⟨by simpa using hx, hacc⟩
    | na n =>
      rw [submit_na] at hx
      obtain ⟨_, _, hn⟩ := stepNode_spec s n
      rcases hn with ⟨_, hr⟩ | ⟨_, _, _, hr⟩
      · simp only at hx; rw [hr] at hx; cases hx
      · simp only at hx
        rcases hr with hr | hr
        · rw [hr] at hx; cases hx
        · rw [hr] at hx; exact Or.inl ⟨by simpa using hx, hacc⟩
    | ca a =>
      rcases submit_ca_cases cfg now s p a with ⟨_, _, _, hr⟩ | ⟨_, _, _, v, _, hst⟩
      · rw [hr] at hx; cases hx
      · obtain ⟨hc, _, _, rel, hrel, hall⟩ :=
          runUpdates_spec cfg now ((lookup a.scid s.premature).getD [])
            ⟨{ (s.addChan a v) with premature := erase a.scid s.premature }, [.ca a], []⟩
        rw [hst] at hx ⊢
        rw [hrel] at hx
        rcases List.mem_append.1 hx with h | h
        · exact Or.inl ⟨by simpa using h, hacc⟩
        · obtain ⟨pu, hmem, hxu, ha⟩ := hall x h
          exact Or.inr ⟨a, pu.1, pu.2, rfl, hxu, hmem, by rw [hc]; exact ha⟩
  · rw [(else_unchanged_not_relayed cfg now s p m hacc).2.2.2] at hx
    cases hx

/-! ### single_field_corruption_rejected (corollaries of digest injectivity) -/

/-- Two validly signed channel announcements have the same signed fields iff they carry the same
    four signatures: changing only signed fields (incl. any key) or only signatures of a valid
    announcement makes it invalid. -/
theorem ca_signed_rigid (a a' : ChanAnn) (h : CaSigned a) (h' : CaSigned a') :
    a.digest = a'.digest ↔
      (a.bs1 = a'.bs1 ∧ a.bs2 = a'.bs2 ∧ a.ns1 = a'.ns1 ∧ a.ns2 = a'.ns2) := by
  obtain ⟨h1, h2, h3, h4⟩ := h
  obtain ⟨h1', h2', h3', h4'⟩ := h'
  constructor
  · intro hd
    obtain ⟨_, _, e3, e4, e5, e6, _, _⟩ := (ChanAnn.digest_eq_iff a a').1 hd
    rw [h1, h2, h3, h4, h1', h2', h3', h4', hd, e3, e4, e5, e6]
    exact ⟨rfl, rfl, rfl, rfl⟩
  · intro ⟨e1, _, _, _⟩
    rw [h1, h1'] at e1
    exact (sig_unique e1).2

/-- Single-field corruption of a valid channel announcement (any signed field incl. the four
    keys, scid, chain hash, feature bits, extra data — signatures kept; or any signature — signed
    fields kept): graph unchanged, nothing relayed, in every state. -/
theorem single_field_corruption_rejected_ca (cfg : Cfg) (now : Nat) (s : State) (p : Peer)
    (a a' : ChanAnn) (hvalid : CaSigned a)
    (hcorrupt :
      (a'.digest ≠ a.digest ∧ a'.bs1 = a.bs1 ∧ a'.bs2 = a.bs2 ∧ a'.ns1 = a.ns1 ∧ a'.ns2 = a.ns2) ∨
      (a'.digest = a.digest ∧ ¬ (a'.bs1 = a.bs1 ∧ a'.bs2 = a.bs2 ∧ a'.ns1 = a.ns1 ∧ a'.ns2 = a.ns2))) :
    (submit cfg now s p (.ca a')).2.st.g.chans = s.g.chans ∧
    (submit cfg now s p (.ca a')).2.st.g.pols = s.g.pols ∧
    (submit cfg now s p (.ca a')).2.st.g.nodes = s.g.nodes ∧
    (submit cfg now s p (.ca a')).2.relay = [] := by
  apply else_unchanged_not_relayed
  intro ⟨_, hs', _⟩
  have := ca_signed_rigid a' a hs' hvalid
  rcases hcorrupt with ⟨hd, hsg⟩ | ⟨hd, hsg⟩
  · exact hd (this.2 hsg)
  · exact hsg (this.1 hd)

/-- A signature validates a channel update under at most one key and only for the exact signed
    fields: a validly signed update whose signed fields are altered (signature kept), or whose
    signature is altered (fields kept), is not authentic for *any* channel and direction owner. -/
theorem cu_signed_rigid (u u' : ChanUpd) (key key' : Key)
    (h : u.sig = Sig.mk key u.digest) (h' : u'.sig = Sig.mk key' u'.digest) :
    (u'.sig = u.sig → u'.digest = u.digest ∧ key' = key) ∧
    (u'.digest = u.digest → key' = key → u'.sig = u.sig) := by
  constructor
  · intro e
    rw [h, h'] at e
    exact ⟨(sig_unique e).2, (sig_unique e).1⟩
  · intro e1 e2
    rw [h, h', e1, e2]

/-- Single-field corruption of a channel update that is validly signed by `key` (timestamp, flags
    incl. the direction bit, scid, chain hash, fees, htlc bounds, extra data — signature kept; or
    the signature itself; or a valid signature by the node of the *other* direction): policies
    unchanged and nothing relayed, whatever the state; if it is merely cached because its channel
    is unknown, `chan_update_authentic_fresh` shows the later replay rejects it as well. -/
theorem single_field_corruption_rejected_cu (cfg : Cfg) (now : Nat) (s : State) (p : Peer)
    (u u' : ChanUpd) (key : Key) (hvalid : u.sig = Sig.mk key u.digest)
    (hcorrupt :
      (u'.digest ≠ u.digest ∧ u'.sig = u.sig) ∨
      (u'.digest = u.digest ∧ u'.sig ≠ u.sig ∧
        ∀ ci, lookup u'.scid s.g.chans = some ci → owner ci (dirOf u'.cf) = key) ∨
      (u'.sig = u.sig ∧ ∀ ci, lookup u'.scid s.g.chans = some ci → owner ci (dirOf u'.cf) ≠ key)) :
    (submit cfg now s p (.cu u')).2.st.g.chans = s.g.chans ∧
    (submit cfg now s p (.cu u')).2.st.g.pols = s.g.pols ∧
    (submit cfg now s p (.cu u')).2.st.g.nodes = s.g.nodes ∧
    (submit cfg now s p (.cu u')).2.relay = [] := by
  apply else_unchanged_not_relayed
  intro ⟨⟨_, _, _, ci, hci, hsig', _⟩, _⟩
  have hr := cu_signed_rigid u u' key _ hvalid hsig'
  rcases hcorrupt with ⟨hd, hs⟩ | ⟨hd, hs, hown⟩ | ⟨hs, hown⟩
  · exact hd (hr.1 hs).1
  · exact hs (hr.2 hd (hown ci hci))
  · exact hown ci hci (hr.1 hs).2

/-- Single-field corruption of a valid node announcement (node id, timestamp, features, colour,
    alias, addresses, extra data — signature kept; or the signature — fields kept). -/
theorem single_field_corruption_rejected_na (cfg : Cfg) (now : Nat) (s : State) (p : Peer)
    (n n' : NodeAnn) (hvalid : n.sig = Sig.mk n.node n.digest)
    (hcorrupt : (n'.digest ≠ n.digest ∧ n'.sig = n.sig) ∨ (n'.digest = n.digest ∧ n'.sig ≠ n.sig)) :
    (submit cfg now s p (.na n')).2.st.g.chans = s.g.chans ∧
    (submit cfg now s p (.na n')).2.st.g.pols = s.g.pols ∧
    (submit cfg now s p (.na n')).2.st.g.nodes = s.g.nodes ∧
    (submit cfg now s p (.na n')).2.relay = [] := by
  apply else_unchanged_not_relayed
  intro ⟨hs', _⟩
  rcases hcorrupt with ⟨hd, hs⟩ | ⟨hd, hs⟩
  · rw [hs, hvalid] at hs'
    exact hd (sig_unique hs').2.symm
  · have hnode : n'.node = n.node := ((NodeAnn.digest_eq_iff n' n).1 hd).1
    rw [hd, hnode, ← hvalid] at hs'
    exact hs hs'

/-! ### the builder's direct entry points (`ApplyChannelUpdate`, `UpdateEdge`) -/

/-- `Builder.UpdateEdge`: a policy changes only for a known channel, only at the update's own
    (channel, direction), only to its policy and only if its timestamp is strictly newer than the
    stored one; channels and nodes are untouched. -/
theorem update_edge_fresh (s : State) (u : ChanUpd) :
    (updateEdge s u).1.g.chans = s.g.chans ∧ (updateEdge s u).1.g.nodes = s.g.nodes ∧
    ((updateEdge s u).1.g.pols = s.g.pols ∨
     ((∃ ci, lookup u.scid s.g.chans = some ci) ∧ UpdFresh s.g.pols u ∧
      (updateEdge s u).1.g.pols = upsert (u.scid, dirOf u.cf) u.policy s.g.pols ∧
      (updateEdge s u).2 = .ok)) := by
  generalize h : updateEdge s u = r
  unfold updateEdge at h
  split at h
  · subst h; simp
  · rename_i ci hci
    split at h
    · rename_i old hold
      split at h
      · subst h; simp
      · rename_i hnew
        subst h
        refine ⟨rfl, rfl, Or.inr ⟨⟨ci, hci⟩, ?_, rfl, rfl⟩⟩
        intro o ho
        rw [hold] at ho; cases ho; omega
    · rename_i hnone
      subst h
      refine ⟨rfl, rfl, Or.inr ⟨⟨ci, hci⟩, ?_, rfl, rfl⟩⟩
      intro o ho
      rw [hnone] at ho; cases ho

/-- `Builder.ApplyChannelUpdate` (updates from onion failures): a policy changes only at the update's
    own (channel, direction) of a known channel, only to its policy, and only if the update is
    signed by the node owning that direction, has consistent fields and a timestamp strictly
    newer than the stored one. -/
theorem apply_channel_update_authentic_fresh (s : State) (u : ChanUpd) (k : Scid × Nat)
    (hne : lookup k (applyChannelUpdate s u).1.g.pols ≠ lookup k s.g.pols) :
    (u.scid, dirOf u.cf) = k ∧ lookup k (applyChannelUpdate s u).1.g.pols = some u.policy ∧
    (∃ ci, lookup u.scid s.g.chans = some ci ∧ u.sig = Sig.mk (owner ci (dirOf u.cf)) u.digest ∧
      fieldsOk ci.cap u = true) ∧
    UpdFresh s.g.pols u ∧
    (applyChannelUpdate s u).1.g.chans = s.g.chans ∧ (applyChannelUpdate s u).1.g.nodes = s.g.nodes := by
  generalize h : applyChannelUpdate s u = r at hne ⊢
  unfold applyChannelUpdate at h
  split at h
  · subst h; exact absurd rfl hne
  · rename_i ci hci
    split at h
    · subst h; exact absurd rfl hne
    · rename_i hf
      split at h
      · subst h; exact absurd rfl hne
      · rename_i hv
        subst h
        obtain ⟨hc, hn, hp⟩ := update_edge_fresh s u
        rcases hp with hp | ⟨_, hfresh, hp, _⟩
        · exact absurd (by simp only; rw [hp]) hne
        · simp only at hne ⊢
          rw [hp] at hne ⊢
          have hsig : u.sig = Sig.mk (owner ci (dirOf u.cf)) u.digest :=
            (verify_iff _ _ _).1 (by simpa using hv)
          by_cases hk : (u.scid, dirOf u.cf) = k
          · refine ⟨hk, by rw [← hk, lookup_upsert_self], ⟨ci, hci, hsig, by simpa using hf⟩,
              hfresh, hc, hn⟩
          · exact absurd (lookup_upsert_ne _ _ (fun e => hk e.symm)) hne

/-- equal or older timestamps never replace a stored policy through either entry point -/
theorem direct_entries_not_newer_unchanged (s : State) (u : ChanUpd) (old : Policy)
    (hold : lookup (u.scid, dirOf u.cf) s.g.pols = some old) (hle : u.ts ≤ old.ts) :
    (updateEdge s u).1.g.pols = s.g.pols ∧ (applyChannelUpdate s u).1.g.pols = s.g.pols := by
  have h1 : (updateEdge s u).1.g.pols = s.g.pols := by
    rcases (update_edge_fresh s u).2.2 with h | ⟨_, hf, _, _⟩
    · exact h
    · have := hf old hold; omega
  refine ⟨h1, ?_⟩
  unfold applyChannelUpdate
  split
  · rfl
  · split
    · rfl
    · split
      · rfl
      · exact h1

/-! ### histories -/

/-- the state after a whole history of remote submissions (clock value, peer, message) -/
def run (cfg : Cfg) : State → List (Nat × Peer × Msg) → State
  | s, [] => s
  | s, (now, p, m) :: r => run cfg (submit cfg now s p m).2.st r

theorem run_append (cfg : Cfg) (s : State) (pre : List (Nat × Peer × Msg)) (x : Nat × Peer × Msg)
    (post : List (Nat × Peer × Msg)) :
    run cfg s (pre ++ x :: post) =
      run cfg (submit cfg x.1 (run cfg s pre) x.2.1 x.2.2).2.st post := by
  induction pre generalizing s with
  | nil => obtain ⟨now, p, m⟩ := x; rfl
  | cons y ys ih => obtain ⟨now, p, m⟩ := y; simp only [List.cons_append, run]; exact ih _

/-- For every history of messages (any orderings, duplicates, interleavings) every channel in the
    final graph was either there initially or was put there by an announcement of the history that
    was fully signed and whose funding output was present, unspent and correct at that moment; and
    it is never altered afterwards. -/
theorem history_chans_authentic (cfg : Cfg) (hav : cfg.assumeValid = false)
    (hist : List (Nat × Peer × Msg)) (s : State) (c : Scid) (ci : ChanInfo)
    (h : lookup c (run cfg s hist).g.chans = some ci) :
    lookup c s.g.chans = some ci ∨
    ∃ pre now p a post v, hist = pre ++ (now, p, Msg.ca a) :: post ∧ a.scid = c ∧ a.chain = 0 ∧
      CaSigned a ∧ FundingOk (run cfg s pre) a v ∧ ci = a.info v := by
  induction hist generalizing s with
  | nil => exact Or.inl h
  | cons x xs ih =>
    obtain ⟨now, p, m⟩ := x
    simp only [run] at h
    rcases ih _ h with h1 | ⟨pre, now', p', a, post, v, hh, hs, hc, hsg, hf, hci⟩
    · by_cases hsame : lookup c (submit cfg now s p m).2.st.g.chans = lookup c s.g.chans
      · left; rw [← hsame]; exact h1
      · right
        obtain ⟨a, v, hm, hs, hc, hsg, hf, _, hl⟩ := chan_ann_authentic cfg hav now s p m c hsame
        rw [hl] at h1
        refine ⟨[], now, p, a, xs, v, by rw [hm]; rfl, hs, hc, hsg, hf, ?_⟩
        cases h1; rfl
    · right
      exact ⟨(now, p, m) :: pre, now', p', a, post, v, by rw [hh]; rfl, hs, hc, hsg, hf, hci⟩

/-- Over every history, node records exist only for our own node and for endpoints of known
    channels: a node announcement for a node without a known channel never enters the graph. -/
theorem history_nodes_are_endpoints (cfg : Cfg) (self : Key) (hist : List (Nat × Peer × Msg))
    (s : State) (inv : NodesAreEndpoints self s.g) : NodesAreEndpoints self (run cfg s hist).g := by
  induction hist generalizing s with
  | nil => exact inv
  | cons x xs ih =>
    obtain ⟨now, p, m⟩ := x
    exact ih _ (nodes_are_endpoints cfg self now s p m inv)

/-- Over every history, the timestamp stored for a channel direction never decreases and every
    change of it is strict (stale and equal-timestamp updates never replace a policy). -/
theorem history_policy_ts_monotone (cfg : Cfg) (hist : List (Nat × Peer × Msg)) (s : State)
    (k : Scid × Nat) (old : Policy) (h : lookup k s.g.pols = some old) :
    ∃ new, lookup k (run cfg s hist).g.pols = some new ∧ old.ts ≤ new.ts := by
  induction hist generalizing s old with
  | nil => exact ⟨old, h, Nat.le_refl _⟩
  | cons x xs ih =>
    obtain ⟨now, p, m⟩ := x
    simp only [run]
    by_cases hsame : lookup k (submit cfg now s p m).2.st.g.pols = lookup k s.g.pols
    · exact ih _ old (by rw [hsame]; exact h)
    · obtain ⟨u, _, _, hl, _, hf⟩ := chan_update_authentic_fresh cfg now s p m k hsame
      have hk : (u.scid, dirOf u.cf) = k := by assumption
      have hlt : old.ts < u.ts := hf old (by rw [hk]; exact h)
      obtain ⟨new, hn, hle⟩ := ih _ u.policy hl
      have : u.policy.ts = u.ts := rfl
      exact ⟨new, hn, by omega⟩

/-! ### histories with new blocks and pruning -/

/-- `submitCore` (used for the replay of future-height messages) is `submit` of a configuration
    whose own key is none of the announcement's node ids. -/
theorem submitCore_eq_submit (cfg : Cfg) (now : Nat) (s : State) (p : Peer) (m : Msg) :
    ∃ cfg' : Cfg, cfg'.assumeValid = cfg.assumeValid ∧ cfg'.expiry = cfg.expiry ∧
      submitCore cfg now s p m = submit cfg' now s p m := by
  cases m with
  | cu u => exact ⟨cfg, rfl, rfl, rfl⟩
  | na n => exact ⟨cfg, rfl, rfl, rfl⟩
  | ca a =>
    refine ⟨{ cfg with self := a.n1 + a.n2 + 1 }, rfl, rfl, ?_⟩
    have h : ¬ (a.n1 = a.n1 + a.n2 + 1 ∨ a.n2 = a.n1 + a.n2 + 1) := by
      intro h
      rcases h with h | h
      · exact absurd h (Nat.ne_of_lt (by show a.n1 < a.n1 + a.n2 + 1; exact Nat.lt_succ_of_le (Nat.le_add_right _ _)))
      · exact absurd h (Nat.ne_of_lt (by show a.n2 < a.n1 + a.n2 + 1; exact Nat.lt_succ_of_le (Nat.le_add_left _ _)))
    simp only [submit, h, if_false]
    rfl

/-! ### zombie pruning only removes -/

theorem lookup_erase_some {κ α : Type} [DecidableEq κ] {k k' : κ} {v : α} (l : List (κ × α))
    (h : lookup k (erase k' l) = some v) : lookup k l = some v := by
  by_cases hk : k = k'
  · subst hk; rw [lookup_erase_self] at h; cases h
  · rw [lookup_erase_ne _ hk] at h; exact h

/-- deleting a zombie channel only removes: channels and policies of the result were there before -/
theorem delZombie_sub (strict fixed : Bool) (g : Graph) (c : Scid) :
    (∀ c' ci, lookup c' (g.delZombie strict fixed c).chans = some ci → lookup c' g.chans = some ci) ∧
    (∀ k pol, lookup k (g.delZombie strict fixed c).pols = some pol → lookup k g.pols = some pol) ∧
    (g.delZombie strict fixed c).nodes = g.nodes := by
  unfold Graph.delZombie
  cases hc : lookup c g.chans with
  | none => exact ⟨fun _ _ h => h, fun _ _ h => h, rfl⟩
  | some ci =>
    refine ⟨fun c' ci' h => lookup_erase_some _ h, fun k pol h => ?_, rfl⟩
    exact lookup_erase_some _ (lookup_erase_some _ h)

/-- `PruneGraphNodes` re-establishes the node invariant -/
theorem pruneNodes_nodes_are_endpoints (self : Key) (g : Graph) :
    NodesAreEndpoints self (g.pruneNodes self) := by
  intro k ni hk
  have hk' : lookup k (g.nodes.filter
      (fun kn => (fun k => k == self || endpointOf g.chans k) kn.1)) = some ni := hk
  obtain ⟨hq, _⟩ := lookup_filter_key (fun k => k == self || endpointOf g.chans k) k ni g.nodes hk'
  simp only [Bool.or_eq_true, beq_iff_eq] at hq
  rcases hq with h | h
  · exact Or.inl h
  · right
    unfold endpointOf at h
    obtain ⟨ch, _, hch⟩ := List.any_eq_true.1 h
    simp only [Bool.and_eq_true, beq_iff_eq, Bool.or_eq_true] at hch
    exact ⟨ch.1, ch.2, hch.1, hch.2⟩

theorem foldl_delZombie_sub (strict fixed : Bool) (l : List (Scid × ChanInfo)) :
    ∀ g : Graph,
    (∀ c' ci, lookup c' (l.foldl (fun g ch => g.delZombie strict fixed ch.1) g).chans = some ci →
      lookup c' g.chans = some ci) ∧
    (∀ k pol, lookup k (l.foldl (fun g ch => g.delZombie strict fixed ch.1) g).pols = some pol →
      lookup k g.pols = some pol) := by
  induction l with
  | nil => intro g; exact ⟨fun _ _ h => h, fun _ _ h => h⟩
  | cons x xs ih =>
    intro g
    simp only [List.foldl]
    obtain ⟨h1, h2⟩ := ih (g.delZombie strict fixed x.1)
    obtain ⟨d1, d2, _⟩ := delZombie_sub strict fixed g x.1
    exact ⟨fun c' ci h => d1 c' ci (h1 c' ci h), fun k pol h => d2 k pol (h2 k pol h)⟩

/-- **`Builder.pruneZombieChans` only removes**: every channel and every policy of the graph after
    a prune tick was there, unchanged, before it; and the node invariant holds afterwards if it held
    before. -/
theorem zombiePrune_only_removes (cfg : Cfg) (strict fixed : Bool) (now : Nat) (g : Graph) :
    (∀ c ci, lookup c (zombiePrune cfg strict fixed now g).chans = some ci →
      lookup c g.chans = some ci) ∧
    (∀ k pol, lookup k (zombiePrune cfg strict fixed now g).pols = some pol →
      lookup k g.pols = some pol) ∧
    (NodesAreEndpoints cfg.self g → NodesAreEndpoints cfg.self (zombiePrune cfg strict fixed now g)) := by
  unfold zombiePrune
  simp only
  split
  · exact ⟨fun _ _ h => h, fun _ _ h => h, fun h => h⟩
  · obtain ⟨h1, h2⟩ := foldl_delZombie_sub strict fixed
      (g.chans.filter (fun ch => ch.2.n1 != cfg.self && ch.2.n2 != cfg.self &&
        inPruneHorizon cfg now g ch.1 && isZombieChan cfg strict now g ch.1)) g
    exact ⟨fun c ci h => h1 c ci h, fun k pol h => h2 k pol h,
      fun _ => pruneNodes_nodes_are_endpoints cfg.self _⟩

/-- one elementary transition of the gossip intake: a message going through `submit` (under a
    configuration with the same validation switches), the bookkeeping of a new block (height and
    future-message queue only), the pruning of a closed channel, `DeleteChannelEdges(strict,
    markZombie)` + `PruneGraphNodes` of one channel, or a tick of the builder's zombie pruning -/
inductive Micro (cfg : Cfg) (self : Key) : State → State → Prop where
  | msg (cfg' : Cfg) (hav : cfg'.assumeValid = cfg.assumeValid) (hex : cfg'.expiry = cfg.expiry)
      (now : Nat) (s : State) (p : Peer) (m : Msg) : Micro cfg self s (submit cfg' now s p m).2.st
  | tick (s : State) (h : Nat) (f : List (Nat × (Peer × Msg))) :
      Micro cfg self s { s with height := h, future := f }
  | prune (s : State) (c : Scid) : Micro cfg self s { s with g := s.g.prune self c }
  | del (s : State) (strict fixed : Bool) (c : Scid) :
      Micro cfg self s { s with g := (s.g.delZombie strict fixed c).pruneNodes self }
  | zprune (s : State) (strict fixed : Bool) (now : Nat) :
      Micro cfg self s { s with g := zombiePrune { cfg with self := self } strict fixed now s.g }

inductive Reach (cfg : Cfg) (self : Key) : State → State → Prop where
  | refl (s : State) : Reach cfg self s s
  | step {s s1 s2 : State} : Reach cfg self s s1 → Micro cfg self s1 s2 → Reach cfg self s s2

theorem Reach.trans {cfg : Cfg} {self : Key} {a b c : State} (h1 : Reach cfg self a b)
    (h2 : Reach cfg self b c) : Reach cfg self a c := by
  induction h2 with
  | refl => exact h1
  | step _ hm ih => exact Reach.step ih hm

/-- the events of a history: a remote message, a new block (which replays the matured future
    messages), the pruning of a channel whose funding output was spent, the deletion of a zombie
    channel, a zombie-prune tick -/
inductive Event where
  | msg (now : Nat) (p : Peer) (m : Msg)
  | block (now : Nat) (h : Nat)
  | prune (c : Scid)
  | del (strict fixed : Bool) (c : Scid)          -- DeleteChannelEdges(strict, markZombie) + PruneGraphNodes
  | zprune (strict fixed : Bool) (now : Nat)      -- Builder.pruneZombieChans (graph-prune ticker)

def stepEvent (cfg : Cfg) (s : State) : Event → State
  | .msg now p m => (submit cfg now s p m).2.st
  | .block now h => (newBlock cfg now s h).st
  | .prune c => { s with g := s.g.prune cfg.self c }
  | .del strict fixed c => { s with g := (s.g.delZombie strict fixed c).pruneNodes cfg.self }
  | .zprune strict fixed now => { s with g := zombiePrune cfg strict fixed now s.g }

def runEvents (cfg : Cfg) : State → List Event → State
  | s, [] => s
  | s, e :: r => runEvents cfg (stepEvent cfg s e) r

theorem foldBlock_reach (cfg : Cfg) (self : Key) (now : Nat) (l : List (Nat × (Peer × Msg))) :
    ∀ acc : Acc, Reach cfg self acc.st
      (l.foldl (fun (acc : Acc) (e : Nat × (Peer × Msg)) =>
        let (r, a) := submitCore cfg now acc.st e.2.1 e.2.2
        (⟨a.st, acc.relay ++ a.relay, acc.replayed ++ [(e.2.2, r)] ++ a.replayed⟩ : Acc))
        acc).st := by
  induction l with
  | nil => intro acc; exact Reach.refl _
  | cons e es ih =>
    intro acc
    simp only [List.foldl]
    refine Reach.trans ?_ (ih _)
    obtain ⟨cfg', hav, hex, heq⟩ := submitCore_eq_submit cfg now acc.st e.2.1 e.2.2
    rw [heq]
    exact Reach.step (Reach.refl _) (Micro.msg cfg' hav hex now acc.st e.2.1 e.2.2)

theorem newBlock_reach (cfg : Cfg) (self : Key) (now : Nat) (s : State) (h : Nat) :
    Reach cfg self s (newBlock cfg now s h).st := by
  unfold newBlock
  exact Reach.trans
    (Reach.step (Reach.refl _) (Micro.tick s h (s.future.filter (fun e => ¬ e.1 ≤ h))))
    (foldBlock_reach cfg self now
      ((s.future.filter (fun e => e.1 ≤ h)).filter (fun e => isCa e.2.2) ++
        (s.future.filter (fun e => e.1 ≤ h)).filter (fun e => !isCa e.2.2))
      ⟨{ s with height := h, future := s.future.filter (fun e => ¬ e.1 ≤ h) }, [], []⟩)

theorem runEvents_reach (cfg : Cfg) (evs : List Event) :
    ∀ s, Reach cfg cfg.self s (runEvents cfg s evs) := by
  induction evs with
  | nil => intro s; exact Reach.refl _
  | cons e es ih =>
    intro s
    refine Reach.trans ?_ (ih _)
    cases e with
    | msg now p m => exact Reach.step (Reach.refl _) (Micro.msg cfg rfl rfl now s p m)
    | block now h => exact newBlock_reach cfg cfg.self now s h
    | prune c => exact Reach.step (Reach.refl _) (Micro.prune s c)
    | del strict fixed c => exact Reach.step (Reach.refl _) (Micro.del s strict fixed c)
    | zprune strict fixed now => exact Reach.step (Reach.refl _) (Micro.zprune s strict fixed now)

/-- pruning keeps exactly the nodes that still are endpoints (or our own node) -/
theorem prune_nodes_are_endpoints (self : Key) (g : Graph) (c : Scid) :
    NodesAreEndpoints self (g.prune self c) := by
  intro k ni hk
  have hk' : lookup k (g.nodes.filter
      (fun kn => (fun k => k == self || endpointOf (erase c g.chans) k) kn.1)) = some ni := hk
  obtain ⟨hq, _⟩ := lookup_filter_key
    (fun k => k == self || endpointOf (erase c g.chans) k) k ni g.nodes hk'
  simp only [Bool.or_eq_true, beq_iff_eq] at hq
  rcases hq with h | h
  · exact Or.inl h
  · right
    unfold endpointOf at h
    obtain ⟨ch, _, hch⟩ := List.any_eq_true.1 h
    simp only [Bool.and_eq_true, beq_iff_eq, Bool.or_eq_true] at hch
    exact ⟨ch.1, ch.2, hch.1, hch.2⟩

/-- Over every history of messages, new blocks (with the replay of future-height messages) and
    prunings of closed channels, node records exist only for our own node and for endpoints of
    channels that are still in the graph. -/
theorem reach_nodes_are_endpoints (cfg : Cfg) (self : Key) (s s' : State)
    (hr : Reach cfg self s s') (inv : NodesAreEndpoints self s.g) : NodesAreEndpoints self s'.g := by
  induction hr with
  | refl => exact inv
  | step _ hm ih =>
    cases hm with
    | msg cfg' _ _ now s1 p m => exact nodes_are_endpoints cfg' self now _ p m ih
    | tick s1 h f => exact ih
    | prune s1 c => exact prune_nodes_are_endpoints self _ c
    | del s1 strict fixed c => exact pruneNodes_nodes_are_endpoints self _
    | zprune s1 strict fixed now =>
      exact (zombiePrune_only_removes { cfg with self := self } strict fixed now _).2.2 ih

theorem events_nodes_are_endpoints (cfg : Cfg) (evs : List Event) (s : State)
    (inv : NodesAreEndpoints cfg.self s.g) : NodesAreEndpoints cfg.self (runEvents cfg s evs).g :=
  reach_nodes_are_endpoints cfg cfg.self s _ (runEvents_reach cfg evs s) inv

/-- Over every such history (AssumeChannelValid off): a channel of the final graph was either in
    the initial graph or was put there, in some intermediate state `s1` of the history, by a
    channel announcement with four valid signatures whose funding output was present, unspent and
    correct in `s1`; this covers announcements replayed from the future-message queue. -/
theorem reach_chans_authentic (cfg : Cfg) (self : Key) (hav : cfg.assumeValid = false)
    (s s' : State) (hr : Reach cfg self s s') (c : Scid) (ci : ChanInfo)
    (h : lookup c s'.g.chans = some ci) :
    lookup c s.g.chans = some ci ∨
    ∃ s1 a v, Reach cfg self s s1 ∧ a.scid = c ∧ a.chain = 0 ∧ CaSigned a ∧ FundingOk s1 a v ∧
      ci = a.info v := by
  induction hr generalizing ci with
  | refl => exact Or.inl h
  | @step s1 s2 hr1 hm ih =>
    cases hm with
    | msg cfg' hav' _ now _ p m =>
      by_cases hsame : lookup c (submit cfg' now s1 p m).2.st.g.chans = lookup c s1.g.chans
      · exact ih ci (by rw [← hsame]; exact h)
      · right
        obtain ⟨a, v, _, hs, hc, hsg, hf, _, hl⟩ :=
          chan_ann_authentic cfg' (by rw [hav', hav]) now s1 p m c hsame
        rw [hl] at h
        exact ⟨s1, a, v, hr1, hs, hc, hsg, hf, by cases h; rfl⟩
    | tick _ hh f => exact ih ci h
    | prune _ c' =>
      have h' : lookup c (erase c' s1.g.chans) = some ci := h
      by_cases hc : c = c'
      · subst hc; rw [lookup_erase_self] at h'; cases h'
      · rw [lookup_erase_ne _ hc] at h'
        exact ih ci h'
    | del _ strict fixed c' => exact ih ci ((delZombie_sub strict fixed s1.g c').1 c ci h)
    | zprune _ strict fixed now' =>
      exact ih ci ((zombiePrune_only_removes { cfg with self := self } strict fixed now' s1.g).1 c ci h)

theorem events_chans_authentic (cfg : Cfg) (hav : cfg.assumeValid = false) (evs : List Event)
    (s : State) (c : Scid) (ci : ChanInfo) (h : lookup c (runEvents cfg s evs).g.chans = some ci) :
    lookup c s.g.chans = some ci ∨
    ∃ s1 a v, Reach cfg cfg.self s s1 ∧ a.scid = c ∧ a.chain = 0 ∧ CaSigned a ∧ FundingOk s1 a v ∧
      ci = a.info v :=
  reach_chans_authentic cfg cfg.self hav s _ (runEvents_reach cfg evs s) c ci h

/-! ### non-vacuity: concrete instances of every hypothesis -/

namespace Example

def cfg : Cfg := ⟨99, false, 1209600, 86400, 10⟩
def scid : Scid := 500 * 2 ^ 40 + 1 * 2 ^ 16
def caBody : ChanAnn :=
  { chain := 0, scid := scid, n1 := 1, n2 := 2, b1 := 4, b2 := 5, feat := "",
    extra := "", bs1 := .junk 0, bs2 := .junk 0, ns1 := .junk 0, ns2 := .junk 0 }
def ca : ChanAnn :=
  { caBody with bs1 := .mk 4 caBody.digest, bs2 := .mk 5 caBody.digest,
                ns1 := .mk 1 caBody.digest, ns2 := .mk 2 caBody.digest }
def updBody (ts dir : Nat) : ChanUpd :=
  { chain := 0, scid := scid, ts := ts, mf := 1, cf := dir, tld := 40, min := 1000,
    max := 500000000, base := 1000, rate := 1, extra := "", sig := .junk 0 }
def upd (ts dir key : Nat) : ChanUpd := { updBody ts dir with sig := .mk key (updBody ts dir).digest }
def naBody : NodeAnn := { node := 2, ts := 7, fields := "f", sig := .junk 0 }
def na : NodeAnn := { naBody with sig := .mk 2 naBody.digest }
def now : Nat := 946684800 * nsPerSec

def s0 : State :=
  { g := { nodes := [(99, ⟨0, none⟩)] }, chain := [(scid, .out (mkMs 5 4) 1000000 0)], height := 1000 }
/-- an update for the still unknown channel is cached ... -/
def s1 : State := (submit cfg now s0 7 (.cu (upd 946684000 0 1))).2.st
/-- ... the authentic announcement adds the channel and the replay applies the cached update -/
def s2 : State := (submit cfg now s1 8 (.ca ca)).2.st
def s3 : State := (submit cfg now s2 8 (.cu (upd 946684001 1 2))).2.st
def s4 : State := (submit cfg now s3 8 (.na na)).2.st

example : CaSigned ca := ⟨rfl, rfl, rfl, rfl⟩
example : FundingOk s1 ca 1000000 := by unfold FundingOk; decide
example : s1.g.pols = [] ∧ (lookup scid s1.premature).getD [] = [(7, upd 946684000 0 1)] := by decide
example : lookup scid s2.g.chans = some (ca.info 1000000) ∧ lookup scid s1.g.chans = none := by decide
example : lookup (scid, 0) s2.g.pols = some (upd 946684000 0 1).policy := by decide
example : (submit cfg now s1 8 (.ca ca)).2.relay = [.ca ca, .cu (upd 946684000 0 1)] := by decide
example : lookup (scid, 1) s3.g.pols = some (upd 946684001 1 2).policy ∧
    lookup (scid, 1) s2.g.pols = none := by decide
example : lookup 2 s4.g.nodes = some ⟨7, some "f"⟩ ∧ lookup 2 s3.g.nodes = some ⟨0, none⟩ := by decide
example : NodesAreEndpoints 99 s0.g := by
  intro k ni h
  have : k = 99 := by
    simp only [s0, lookup] at h
    split at h
    · rename_i e; exact e.symm
    · cases h
  exact Or.inl this
/-- a corrupted copy (node id 1 replaced, signatures kept) satisfies the corruption hypothesis -/
example : ({ ca with n1 := 3 } : ChanAnn).digest ≠ ca.digest := by decide
/-- wrong-direction signer: direction 0 signed by node 2 is rejected, nothing changes -/
example : (submit cfg now s2 8 (.cu (upd 946684005 0 2))).1 = .eUSig ∧
    (submit cfg now s2 8 (.cu (upd 946684005 0 2))).2.st.g.pols = s2.g.pols := by decide
/-- equal timestamp: not strictly newer, ignored -/
example : (submit cfg now s2 8 (.cu { upd 946684000 0 1 with base := 5 })).2.st.g.pols = s2.g.pols := by
  decide
example : ¬ Accepted cfg now s0 (.na na) := by
  intro ⟨_, _, old, h, _⟩
  simp [s0, lookup, na, naBody] at h

end Example

end LndModel.C20
