/-
C20 — theorems about the announcement-signatures path (`handleAnnSig`, model
`LndModel.C20.AnnSig`): a proof is attached to a channel, and the reconstructed
`channel_announcement` is handed to the broadcast path, only when all four signatures verify over
the digest of the announcement rebuilt from the stored channel record under the stored node and
bitcoin keys; whatever the order of the two halves, block replays and restarts.
-/
import LndModel.C20.AnnSig
import LndModel.C20.Lemmas

namespace LndModel.C20

/-- the digest of the announcement `CreateChanAnnouncement` rebuilds from the stored record -/
def chanDigest (c : Scid) (ci : ChanInfo) : Digest :=
  .ca 0 c ci.n1 ci.n2 ci.b1 ci.b2 ci.feat ci.extra

/-- all four signatures of `p` verify over that digest under the four stored keys -/
def ProofOk (c : Scid) (ci : ChanInfo) (p : Proof) : Prop :=
  p.ns1 = Sig.mk ci.n1 (chanDigest c ci) ∧ p.ns2 = Sig.mk ci.n2 (chanDigest c ci) ∧
  p.bs1 = Sig.mk ci.b1 (chanDigest c ci) ∧ p.bs2 = Sig.mk ci.b2 (chanDigest c ci)

theorem sigsOk_caOf (c : Scid) (ci : ChanInfo) (p : Proof) :
    (caOf c ci p).sigsOk = true ↔ ProofOk c ci p := by
  rw [sigsOk_iff]
  simp only [CaSigned, caOf, ChanAnn.digest, ProofOk, chanDigest]
  constructor
  · rintro ⟨h1, h2, h3, h4⟩; exact ⟨h3, h4, h1, h2⟩
  · rintro ⟨h1, h2, h3, h4⟩; exact ⟨h3, h4, h1, h2⟩

/-- what an assembling step looks like -/
structure Assembled (pmd : Nat) (s : State) (ps : PState) (remote : Bool) (src : Key)
    (a : AnnSigMsg) (out : AOut) (ci : ChanInfo) (opp : AnnSigMsg) : Prop where
  mature : proofHeight pmd a.scid ≤ s.height
  known : lookup a.scid s.g.chans = some ci
  endpoint : src = ci.n1 ∨ src = ci.n2
  wasPrivate : ps.hasProof a.scid = false
  other : lookup (a.scid, !remote) ps.waiting = some opp
  valid : ProofOk a.scid ci (assemble ci src a opp)
  noProof : out.ps.noProof = ps.noProof.filter (· != a.scid)
  proofs : out.ps.proofs = upsert a.scid (assemble ci src a opp) ps.proofs
  relay : out.relay = some (caOf a.scid ci (assemble ci src a opp))
  res : out.res = .ok

/-- Characterisation of `handleAnnSig`: either the step assembles a valid proof, or it leaves the
    proof state of every channel untouched and hands nothing to the broadcast path. -/
theorem stepAnnSig_cases (pmd : Nat) (fc : Bool) (s : State) (ps : PState) (remote : Bool)
    (src : Key) (a : AnnSigMsg) :
    (∃ ci opp, Assembled pmd s ps remote src a (stepAnnSig pmd fc s ps remote src a) ci opp) ∨
    ((stepAnnSig pmd fc s ps remote src a).ps.noProof = ps.noProof ∧
     (stepAnnSig pmd fc s ps remote src a).ps.proofs = ps.proofs ∧
     (stepAnnSig pmd fc s ps remote src a).relay = none) := by
  unfold stepAnnSig
  by_cases hm : proofHeight pmd a.scid > s.height
  · simp [hm]
  · simp only [hm, if_false]
    cases hk : lookup a.scid s.g.chans with
    | none => cases fc <;> simp
    | some ci =>
      simp only
      by_cases hp : src ≠ ci.n1 ∧ src ≠ ci.n2
      · simp [hp]
      · simp only [hp, if_false]
        by_cases hpr : ps.hasProof a.scid = true
        · simp [hpr]
        · simp only [hpr]
          cases ho : lookup (a.scid, !remote) ps.waiting with
          | none => simp
          | some opp =>
            simp only
            by_cases hv : (caOf a.scid ci (assemble ci src a opp)).sigsOk = true
            · left
              refine ⟨ci, opp, ?_⟩
              simp only [hv, Bool.not_true, Bool.false_eq_true, if_false]
              have hend : src = ci.n1 ∨ src = ci.n2 := by
                by_cases h1 : src = ci.n1
                · exact Or.inl h1
                · by_cases h2 : src = ci.n2
                  · exact Or.inr h2
                  · exact absurd ⟨h1, h2⟩ hp
              exact ⟨Nat.le_of_not_gt hm, hk, hend, by simpa using hpr, ho,
                (sigsOk_caOf _ _ _).mp hv, rfl, rfl, rfl, rfl⟩
            · right
              simp [hv]

/-- **Proof authenticity.**  If a step changes whether channel `c` has a proof, or the proof
    recorded for it, then `c` is the channel of the submitted half, it is in the graph, the sender
    is one of its two nodes, the other half was waiting, and the four signatures — the sender's in
    the slots of the node it is in the stored record — verify over the digest of the announcement
    rebuilt from the stored record under the stored node and bitcoin keys. -/
theorem annsig_proof_authentic (pmd : Nat) (fc : Bool) (s : State) (ps : PState) (remote : Bool)
    (src : Key) (a : AnnSigMsg) (c : Scid)
    (hch : (stepAnnSig pmd fc s ps remote src a).ps.hasProof c ≠ ps.hasProof c ∨
           lookup c (stepAnnSig pmd fc s ps remote src a).ps.proofs ≠ lookup c ps.proofs) :
    c = a.scid ∧ ∃ ci opp,
      lookup c s.g.chans = some ci ∧ (src = ci.n1 ∨ src = ci.n2) ∧
      lookup (c, !remote) ps.waiting = some opp ∧ proofHeight pmd c ≤ s.height ∧
      ProofOk c ci (assemble ci src a opp) ∧
      lookup c (stepAnnSig pmd fc s ps remote src a).ps.proofs = some (assemble ci src a opp) ∧
      (stepAnnSig pmd fc s ps remote src a).ps.hasProof c = true := by
  rcases stepAnnSig_cases pmd fc s ps remote src a with ⟨ci, opp, h⟩ | ⟨h1, h2, _⟩
  · have hc : c = a.scid := by
      by_cases hne : c = a.scid
      · exact hne
      · exfalso
        rcases hch with hch | hch
        · apply hch
          simp [PState.hasProof, h.noProof, hne]
        · apply hch
          rw [h.proofs, lookup_upsert_ne _ _ hne]
    subst hc
    refine ⟨rfl, ci, opp, h.known, h.endpoint, h.other, h.mature, h.valid, ?_, ?_⟩
    · rw [h.proofs, lookup_upsert_self]
    · simp [PState.hasProof, h.noProof]
  · exfalso
    rcases hch with hch | hch
    · exact hch (by simp [PState.hasProof, h1])
    · exact hch (by rw [h2])

/-- **Relay authenticity.**  The announcement handed to the broadcast path carries four valid
    signatures, is the one rebuilt from the stored record of a known, until now unannounced
    channel, and its proof is attached in the same step. -/
theorem annsig_relay_authentic (pmd : Nat) (fc : Bool) (s : State) (ps : PState) (remote : Bool)
    (src : Key) (a : AnnSigMsg) (ca : ChanAnn)
    (h : (stepAnnSig pmd fc s ps remote src a).relay = some ca) :
    CaSigned ca ∧ ca.scid = a.scid ∧ ca.chain = 0 ∧
    (∃ ci, lookup ca.scid s.g.chans = some ci ∧ ca.n1 = ci.n1 ∧ ca.n2 = ci.n2 ∧ ca.b1 = ci.b1 ∧
      ca.b2 = ci.b2 ∧ ca.feat = ci.feat ∧ ca.extra = ci.extra) ∧
    ps.hasProof ca.scid = false ∧
    (stepAnnSig pmd fc s ps remote src a).ps.hasProof ca.scid = true := by
  rcases stepAnnSig_cases pmd fc s ps remote src a with ⟨ci, opp, hA⟩ | ⟨_, _, h3⟩
  · rw [hA.relay] at h
    cases h
    refine ⟨(sigsOk_iff _).mp ((sigsOk_caOf _ _ _).mpr hA.valid), rfl, rfl,
      ⟨ci, hA.known, rfl, rfl, rfl, rfl, rfl, rfl⟩, hA.wasPrivate, ?_⟩
    simp [PState.hasProof, hA.noProof, caOf]
  · rw [h3] at h; cases h

/-- **Anything else.**  A step that does not assemble a valid proof (wrong or corrupted
    signature in either half, half of the wrong peer, unknown channel, only one half, premature)
    changes no channel's proof state and relays nothing. -/
theorem annsig_else_unchanged (pmd : Nat) (fc : Bool) (s : State) (ps : PState) (remote : Bool)
    (src : Key) (a : AnnSigMsg)
    (h : ∀ ci opp, lookup a.scid s.g.chans = some ci →
      lookup (a.scid, !remote) ps.waiting = some opp → ¬ ProofOk a.scid ci (assemble ci src a opp)) :
    (stepAnnSig pmd fc s ps remote src a).ps.noProof = ps.noProof ∧
    (stepAnnSig pmd fc s ps remote src a).ps.proofs = ps.proofs ∧
    (stepAnnSig pmd fc s ps remote src a).relay = none := by
  rcases stepAnnSig_cases pmd fc s ps remote src a with ⟨ci, opp, hA⟩ | h'
  · exact absurd hA.valid (h ci opp hA.known hA.other)
  · exact h'

/-- A half whose node signature is not the sender's own signature over the channel's digest can
    never complete a proof, whatever is waiting. -/
theorem annsig_bad_node_sig_rejected (pmd : Nat) (fc : Bool) (s : State) (ps : PState)
    (remote : Bool) (src : Key) (a : AnnSigMsg) (ci : ChanInfo)
    (hk : lookup a.scid s.g.chans = some ci) (hne : ci.n1 ≠ ci.n2)
    (hbad : a.ns ≠ Sig.mk src (chanDigest a.scid ci)) :
    (stepAnnSig pmd fc s ps remote src a).ps.noProof = ps.noProof ∧
    (stepAnnSig pmd fc s ps remote src a).ps.proofs = ps.proofs ∧
    (stepAnnSig pmd fc s ps remote src a).relay = none := by
  rcases stepAnnSig_cases pmd fc s ps remote src a with ⟨ci', opp, hA⟩ | h'
  · exfalso
    have : ci' = ci := by have := hA.known; rw [hk] at this; cases this; rfl
    subst this
    obtain ⟨v1, v2, _, _⟩ := hA.valid
    rcases hA.endpoint with e | e
    · simp only [assemble, e, if_true] at v1
      exact hbad (e ▸ v1)
    · have : ¬ src = ci'.n1 := fun h1 => hne (h1.symm.trans e)
      simp only [assemble, this, if_false] at v2
      exact hbad (e ▸ v2)
  · exact h'

/-! ### histories: halves in any order, block replays, restarts -/

/-- every attached proof verifies for the channel record it is attached to, and a channel that
    was unannounced at the start is announced only with such a proof -/
def ProofsInv (s : State) (ps0 ps : PState) : Prop :=
  (∀ c p, lookup c ps.proofs = some p → ∃ ci, lookup c s.g.chans = some ci ∧ ProofOk c ci p) ∧
  (∀ c, ps0.hasProof c = false → ps.hasProof c = true → (lookup c ps.proofs).isSome)

theorem stepAnnSig_inv (pmd : Nat) (fc : Bool) (s : State) (ps0 ps : PState) (remote : Bool)
    (src : Key) (a : AnnSigMsg) (h : ProofsInv s ps0 ps) :
    ProofsInv s ps0 (stepAnnSig pmd fc s ps remote src a).ps := by
  rcases stepAnnSig_cases pmd fc s ps remote src a with ⟨ci, opp, hA⟩ | ⟨h1, h2, _⟩
  · constructor
    · intro c p hp
      rw [hA.proofs] at hp
      by_cases hc : c = a.scid
      · subst hc
        rw [lookup_upsert_self] at hp
        cases hp
        exact ⟨ci, hA.known, hA.valid⟩
      · rw [lookup_upsert_ne _ _ hc] at hp
        exact h.1 c p hp
    · intro c h0 h1
      rw [hA.proofs]
      by_cases hc : c = a.scid
      · subst hc; rw [lookup_upsert_self]; rfl
      · rw [lookup_upsert_ne _ _ hc]
        apply h.2 c h0
        have : ¬ c = a.scid := hc
        simpa [PState.hasProof, hA.noProof, this] using h1
  · constructor
    · intro c p hp; rw [h2] at hp; exact h.1 c p hp
    · intro c h0 h1'
      rw [h2]
      apply h.2 c h0
      simpa [PState.hasProof, h1] using h1'

theorem foldAnnSigs_inv (pmd : Nat) (fc : Bool) (s : State) (ps0 : PState)
    (due : List (Nat × (Bool × Key × AnnSigMsg))) (q : PState) (l : List (ARes × Option ChanAnn))
    (h0 : ProofsInv s ps0 q) :
    ProofsInv s ps0 (due.foldl (fun acc e =>
      let o := stepAnnSig pmd fc s acc.1 e.2.1 e.2.2.1 e.2.2.2
      (o.ps, acc.2 ++ [(o.res, o.relay)])) (q, l)).1 := by
  induction due generalizing q l with
  | nil => exact h0
  | cons e r ih =>
    simp only [List.foldl_cons]
    exact ih _ _ (stepAnnSig_inv pmd fc s ps0 q _ _ _ h0)

theorem blockAnnSigs_inv (pmd : Nat) (fc : Bool) (s : State) (ps0 ps : PState)
    (h : ProofsInv s ps0 ps) : ProofsInv s ps0 (blockAnnSigs pmd fc s ps).1 := by
  have h0 : ProofsInv s ps0
      ({ ps with futureAS := ps.futureAS.filter (fun e => ¬ e.1 ≤ s.height) } : PState) := h
  exact foldAnnSigs_inv pmd fc s ps0 _ _ _ h0

/-- **History theorem.**  Over every sequence of halves (local / remote, from any sender, in any
    order, duplicated, corrupted), new blocks (replay of premature halves) and restarts on a graph
    whose channel records stay as they are, every proof that is attached verifies under the stored
    keys of its channel, and a channel that was unannounced at the start becomes announced only
    through such a proof. -/
theorem history_proofs_authentic (pmd : Nat) (evs : List AEvent) (s : State) (ps : PState)
    (h : ProofsInv s ps ps) :
    ProofsInv (evs.foldl (runAEvent pmd) (s, ps)).1 ps (evs.foldl (runAEvent pmd) (s, ps)).2 ∧
    (evs.foldl (runAEvent pmd) (s, ps)).1.g = s.g := by
  suffices ∀ (s' : State) (q : PState), s'.g = s.g → ProofsInv s' ps q →
      ProofsInv (evs.foldl (runAEvent pmd) (s', q)).1 ps (evs.foldl (runAEvent pmd) (s', q)).2 ∧
      (evs.foldl (runAEvent pmd) (s', q)).1.g = s.g from this s ps rfl h
  induction evs with
  | nil => intro s' q hg hi; exact ⟨hi, hg⟩
  | cons e r ih =>
    intro s' q hg hi
    simp only [List.foldl_cons]
    cases e with
    | half rm src fc a => exact ih s' _ hg (stepAnnSig_inv pmd fc s' ps q rm src a hi)
    | block hgt =>
      have hi' : ProofsInv { s' with height := hgt } ps q := hi
      exact ih _ _ hg (blockAnnSigs_inv pmd true _ ps q hi')
    | restart => exact ih s' _ hg hi

/-! ### both halves, either order, across a restart: the proof is assembled -/

section complete
variable (pmd : Nat) (s : State) (ps : PState) (c : Scid) (ci : ChanInfo) (L R : AnnSigMsg)

/-- the local half is node 1's, the remote half node 2's, both valid -/
structure GoodHalves : Prop where
  known : lookup c s.g.chans = some ci
  distinct : ci.n1 ≠ ci.n2
  mature : proofHeight pmd c ≤ s.height
  priv : ps.hasProof c = false
  lc : L.scid = c
  rc : R.scid = c
  lns : L.ns = Sig.mk ci.n1 (chanDigest c ci)
  lbs : L.bs = Sig.mk ci.b1 (chanDigest c ci)
  rns : R.ns = Sig.mk ci.n2 (chanDigest c ci)
  rbs : R.bs = Sig.mk ci.b2 (chanDigest c ci)

theorem both_halves_local_first (fc : Bool) (h : GoodHalves pmd s ps c ci L R)
    (hw : lookup (c, true) ps.waiting = none) :
    let o1 := stepAnnSig pmd fc s ps false ci.n1 L
    let o2 := stepAnnSig pmd fc s o1.ps.restart true ci.n2 R
    o1.relay = none ∧ o2.relay = some (caOf c ci ⟨L.ns, R.ns, L.bs, R.bs⟩) ∧
    o2.ps.hasProof c = true ∧ lookup c o2.ps.proofs = some ⟨L.ns, R.ns, L.bs, R.bs⟩ := by
  obtain ⟨hk, hd, hm, hp, hl, hr, h1, h2, h3, h4⟩ := h
  subst hl
  have hm' : ¬ proofHeight pmd L.scid > s.height := Nat.not_lt.mpr hm
  have hm'' : ¬ proofHeight pmd R.scid > s.height := by rw [hr]; exact hm'
  have hd' : ¬ ci.n2 = ci.n1 := fun e => hd e.symm
  have hok : (caOf L.scid ci ⟨L.ns, R.ns, L.bs, R.bs⟩).sigsOk = true :=
    (sigsOk_caOf _ _ _).mpr ⟨h1, h3, h2, h4⟩
  have hp' : L.scid ∈ ps.noProof := by simpa [PState.hasProof] using hp
  simp [stepAnnSig, PState.restart, PState.hasProof, hm', hm'', hr, hk, hp', hw, hd',
    lookup_upsert_self, assemble, hok]

theorem both_halves_remote_first (fc : Bool) (h : GoodHalves pmd s ps c ci L R)
    (hw : lookup (c, false) ps.waiting = none) :
    let o1 := stepAnnSig pmd fc s ps true ci.n2 R
    let o2 := stepAnnSig pmd fc s o1.ps.restart false ci.n1 L
    o1.relay = none ∧ o2.relay = some (caOf c ci ⟨L.ns, R.ns, L.bs, R.bs⟩) ∧
    o2.ps.hasProof c = true ∧ lookup c o2.ps.proofs = some ⟨L.ns, R.ns, L.bs, R.bs⟩ := by
  obtain ⟨hk, hd, hm, hp, hl, hr, h1, h2, h3, h4⟩ := h
  subst hl
  have hm' : ¬ proofHeight pmd L.scid > s.height := Nat.not_lt.mpr hm
  have hm'' : ¬ proofHeight pmd R.scid > s.height := by rw [hr]; exact hm'
  have hd' : ¬ ci.n2 = ci.n1 := fun e => hd e.symm
  have hok : (caOf L.scid ci ⟨L.ns, R.ns, L.bs, R.bs⟩).sigsOk = true :=
    (sigsOk_caOf _ _ _).mpr ⟨h1, h3, h2, h4⟩
  have hp' : L.scid ∈ ps.noProof := by simpa [PState.hasProof] using hp
  simp [stepAnnSig, PState.restart, PState.hasProof, hm', hm'', hr, hk, hp', hw, hd',
    lookup_upsert_self, assemble, hok]

end complete

/-! ### non-vacuity: a concrete channel of ours, both orders, and a corrupted half -/

namespace AnnSigExample

def ci : ChanInfo := ⟨11, 2, 3, 4, 1000000, "", ""⟩
def st : State := { g := { chans := [(600 * 2 ^ 40 + 1, ci)] }, height := 700 }
def ps0 : PState := { noProof := [600 * 2 ^ 40 + 1] }
def dig : Digest := chanDigest (600 * 2 ^ 40 + 1) ci
def L : AnnSigMsg := ⟨600 * 2 ^ 40 + 1, .mk 11 dig, .mk 3 dig⟩
def R : AnnSigMsg := ⟨600 * 2 ^ 40 + 1, .mk 2 dig, .mk 4 dig⟩
def Rbad : AnnSigMsg := ⟨600 * 2 ^ 40 + 1, .mk 2 dig, .mk 3 dig⟩   -- bitcoin sig by the wrong key

example : GoodHalves 6 st ps0 (600 * 2 ^ 40 + 1) ci L R :=
  ⟨by decide, by decide, by decide, by decide, rfl, rfl, rfl, rfl, rfl, rfl⟩

example : ProofsInv st ps0 ps0 := by
  refine ⟨?_, ?_⟩
  · intro c p h; simp [ps0, lookup] at h
  · intro c h0 h1; rw [h0] at h1; cases h1

-- remote first, then ours: assembled
example : (stepAnnSig 6 true st (stepAnnSig 6 true st ps0 true 2 R).ps false 11 L).relay.isSome = true := by
  decide
-- a corrupted remote half waits, our half then fails validation: nothing attached, nothing relayed
example : (stepAnnSig 6 true st (stepAnnSig 6 true st ps0 true 2 Rbad).ps false 11 L).res = .eInvalid ∧
    (stepAnnSig 6 true st (stepAnnSig 6 true st ps0 true 2 Rbad).ps false 11 L).ps.hasProof (600 * 2 ^ 40 + 1) = false := by
  decide
-- a half from a node that is not in the channel
example : (stepAnnSig 6 true st ps0 true 5 R).res = .eNotPeer := by decide
-- premature half is parked and replayed by the block
example : (stepAnnSig 6 true { st with height := 604 } ps0 true 2 R).ps.futureAS.length = 1 := by decide

end AnnSigExample

end LndModel.C20
