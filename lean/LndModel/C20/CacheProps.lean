/-
C20 — theorems about the cache-over-durable-store concurrency model (`CacheModel.lean`).

* for **all** interleavings of atomic steps of the code's lock discipline (`Step.locked`) the cache
  is coherent (a cached entry *is* the durable entry, in particular never older), every lookup
  answers the durable entry, and a stored timestamp only changes to a strictly newer one (or to 0
  when the channel itself is removed / re-created);
* when the durable read of a lookup is outside the lock (`readDisk` / `insert`) there is a
  machine-checked interleaving in which a stale entry is cached and a replayed update that is older
  than the stored one is then applied.
-/
import LndModel.C20.CacheModel

namespace LndModel.C20.Cache

theorem upd_same {α : Type} (f : Nat → α) (k : Nat) (v : α) : upd f k v k = v := by simp [upd]

theorem upd_other {α : Type} (f : Nat → α) {k x : Nat} (v : α) (h : x ≠ k) : upd f k v x = f x := by
  simp [upd, h]

theorem upd_apply {α : Type} (f : Nat → α) (k x : Nat) (v : α) :
    upd f k v x = if x = k then v else f x := rfl

/-- a cached entry is the durable entry -/
def Coherent (s : St) : Prop := ∀ k e, s.cache k = some e → e = s.disk k

/-- the per-channel mutex is held by exactly the thread that is inside `updateEdge` for it -/
def MtxOk (s : St) : Prop :=
  ∀ tid k dir ts, (s.thr tid).hold = some (k, dir, ts) → s.mtx k = some tid

/-- the answer an `updateEdge` in progress decides on is not older than what is durable -/
def AnsOk (s : St) : Prop :=
  ∀ tid k dir ts e, (s.thr tid).hold = some (k, dir, ts) → (s.thr tid).ans = some (k, e) →
    ∀ d, (s.disk k).t d ≤ e.t d

/-- nothing is half-done with the lock released (no pending unlocked reads) -/
def NoSnap (s : St) : Prop := ∀ tid, (s.thr tid).snap = none

def Inv (s : St) : Prop := Coherent s ∧ MtxOk s ∧ AnsOk s ∧ NoSnap s

theorem inv_init (d : Nat → Ent) : Inv (init d) := by
  refine ⟨?_, ?_, ?_, ?_⟩ <;> intro <;> simp [init] at *

theorem setT_t (e : Ent) (dir ts d : Nat) :
    (e.setT dir ts).t d = if (d = 0 ↔ dir = 0) then ts else e.t d := by
  unfold Ent.setT Ent.t
  by_cases h1 : dir = 0 <;> by_cases h2 : d = 0 <;> simp [h1, h2]

theorem t_congr (e : Ent) {d dir : Nat} (h : d = 0 ↔ dir = 0) : e.t d = e.t dir := by
  unfold Ent.t
  by_cases h1 : dir = 0 <;> by_cases h2 : d = 0 <;> simp_all

theorem t_zero (a b : Bool) (d : Nat) : (Ent.mk a b 0 0).t d = 0 := by
  unfold Ent.t; split <;> rfl

macro "c20fin" : tactic => `(tactic| (intros; (try simp only [Coherent, MtxOk, AnsOk, NoSnap, upd_apply, setThr, writeInval] at *); grind [t_zero, setT_t]))

theorem locked_step_inv (s : St) (st : Step) (h : Inv s) (hl : st.locked = true) :
    Inv (step s st) := by
  obtain ⟨hc, hm, ha, hn⟩ := h
  unfold Coherent MtxOk AnsOk NoSnap at *
  cases st with
  | lookup tid k =>
    simp only [step]
    cases hk : s.cache k <;> refine ⟨?_, ?_, ?_, ?_⟩ <;> c20fin
  | readDisk tid k => simp [Step.locked] at hl
  | insert tid => simp [Step.locked] at hl
  | updBegin tid k dir ts =>
    simp only [step]
    split
    · refine ⟨?_, ?_, ?_, ?_⟩ <;> c20fin
    · exact ⟨hc, hm, ha, hn⟩
  | updCommit tid =>
    simp only [step]
    cases hh : (s.thr tid).hold with
    | none => exact ⟨hc, hm, ha, hn⟩
    | some kdt =>
      obtain ⟨k, dir, ts⟩ := kdt
      simp only
      cases han : (s.thr tid).ans with
      | none => refine ⟨?_, ?_, ?_, ?_⟩ <;> c20fin
      | some ke =>
        obtain ⟨k', e⟩ := ke
        simp only
        split
        · cases hck : s.cache k <;> refine ⟨?_, ?_, ?_, ?_⟩ <;> c20fin
        · refine ⟨?_, ?_, ?_, ?_⟩ <;> c20fin
  | addEdge k =>
    simp only [step]; split <;> refine ⟨?_, ?_, ?_, ?_⟩ <;> c20fin
  | delEdge k mz =>
    simp only [step]; split
    · refine ⟨?_, ?_, ?_, ?_⟩ <;> c20fin
    · exact ⟨hc, hm, ha, hn⟩
  | markZombie k =>
    simp only [step]; split <;> refine ⟨?_, ?_, ?_, ?_⟩ <;> c20fin
  | markLive k =>
    simp only [step]; split <;> refine ⟨?_, ?_, ?_, ?_⟩ <;> c20fin
  | evict k =>
    simp only [step]; refine ⟨?_, ?_, ?_, ?_⟩ <;> c20fin

/-- writes that remove / re-create the channel record itself (its timestamps start again at 0) -/
def Step.inval : Step → Bool
  | .addEdge _ => true
  | .delEdge _ _ => true
  | .markZombie _ => true
  | .markLive _ => true
  | _ => false

/-- **Freshness, one step, every interleaving point.**  In a state reachable under the code's lock
    discipline a step changes a stored timestamp only to a strictly newer one — or to 0, and then the
    step is a removal / re-creation of the channel record. -/
theorem locked_step_fresh (s : St) (st : Step) (h : Inv s) (hl : st.locked = true) (k d : Nat) :
    ((step s st).disk k).t d = (s.disk k).t d ∨ (s.disk k).t d < ((step s st).disk k).t d ∨
      (((step s st).disk k).t d = 0 ∧ st.inval = true) := by
  obtain ⟨hc, hm, ha, hn⟩ := h
  unfold Coherent MtxOk AnsOk NoSnap at *
  cases st with
  | lookup tid k' => simp only [step]; cases hk : s.cache k' <;> c20fin
  | readDisk tid k' => simp [Step.locked] at hl
  | insert tid => simp [Step.locked] at hl
  | updBegin tid k' dir ts => simp only [step]; split <;> c20fin
  | updCommit tid =>
    simp only [step]
    cases hh : (s.thr tid).hold with
    | none => c20fin
    | some kdt =>
      obtain ⟨k', dir, ts⟩ := kdt
      simp only
      cases han : (s.thr tid).ans with
      | none => c20fin
      | some ke =>
        obtain ⟨k'', e⟩ := ke
        simp only
        split
        · have := ha tid k' dir ts e hh
          by_cases hd : (d = 0 ↔ dir = 0)
          · have e1 := t_congr e hd
            have e2 := t_congr (s.disk k') hd
            cases hck : s.cache k' <;> c20fin
          · cases hck : s.cache k' <;> c20fin
        · c20fin
  | addEdge k' => simp only [step, Step.inval]; split <;> c20fin
  | delEdge k' mz => simp only [step, Step.inval]; split <;> c20fin
  | markZombie k' => simp only [step, Step.inval]; split <;> c20fin
  | markLive k' => simp only [step, Step.inval]; split <;> c20fin
  | evict k' => simp only [step]; c20fin

/-- a lookup in a coherent state answers the durable entry (cache hit or miss) -/
theorem lookup_answer_durable (s : St) (tid k : Nat) (hc : Coherent s) :
    ((step s (.lookup tid k)).thr tid).ans = some (k, s.disk k) := by
  unfold Coherent at hc
  simp only [step]
  cases hk : s.cache k <;> c20fin

theorem locked_run_inv (l : List Step) : ∀ (s : St), Inv s → (∀ st ∈ l, st.locked = true) →
    Inv (run s l) := by
  induction l with
  | nil => intro s h _; exact h
  | cons st r ih =>
    intro s h hl
    have h1 := locked_step_inv s st h (hl st (by simp))
    exact ih (step s st) h1 (fun x hx => hl x (by simp [hx]))

/-- **Cache coherence for all interleavings** of the code's atomic steps, from a cold start. -/
theorem locked_run_coherent (d : Nat → Ent) (l : List Step) (hl : ∀ st ∈ l, st.locked = true) :
    Coherent (run (init d) l) :=
  (locked_run_inv l (init d) (inv_init d) hl).1

/-- after any interleaving under the lock discipline a lookup answers what is durable -/
theorem locked_run_lookup_durable (d : Nat → Ent) (l : List Step)
    (hl : ∀ st ∈ l, st.locked = true) (tid k : Nat) :
    ((step (run (init d) l) (.lookup tid k)).thr tid).ans = some (k, (run (init d) l).disk k) :=
  lookup_answer_durable _ tid k (locked_run_coherent d l hl)

/-- **Freshness over runs**: without removal of the channel record stored timestamps never go back,
    whatever the interleaving of lookups, evictions and `updateEdge` executions. -/
theorem locked_run_monotone (l : List Step) : ∀ (s : St), Inv s →
    (∀ st ∈ l, st.locked = true ∧ st.inval = false) → ∀ k d, (s.disk k).t d ≤ ((run s l).disk k).t d := by
  induction l with
  | nil => intro s _ _ k d; exact Nat.le_refl _
  | cons st r ih =>
    intro s h hl k d
    have hst := hl st (by simp)
    have h1 := locked_step_inv s st h hst.1
    have h2 := locked_step_fresh s st h hst.1 k d
    have h3 := ih (step s st) h1 (fun x hx => hl x (by simp [hx])) k d
    have : (s.disk k).t d ≤ ((step s st).disk k).t d := by
      rcases h2 with h2 | h2 | h2
      · omega
      · omega
      · rw [hst.2] at h2; exact absurd h2.2 (by simp)
    exact Nat.le_trans this h3

/-! ### the read outside the lock: machine-checked witness -/

/-- channel 7 is known, its direction-0 policy has timestamp 100 -/
def wDisk : Nat → Ent := fun _ => ⟨true, false, 100, 0⟩

/-- thread 1: cache-miss lookup whose durable read is not under the lock; thread 2: a fresh update
    (300) is applied in between; thread 1 then inserts what it read; thread 3: a replayed update (150)
    that is older than the stored one. -/
def wRace : List Step :=
  [.readDisk 1 7, .updBegin 2 7 0 300, .lookup 2 7, .updCommit 2, .insert 1]

def wReplay : List Step := [.updBegin 3 7 0 150, .lookup 3 7, .updCommit 3]

/-- the same schedule with the lookup done atomically (what the lock enforces: the update waits) -/
def wLocked : List Step :=
  [.lookup 1 7, .updBegin 2 7 0 300, .lookup 2 7, .updCommit 2]

theorem unlocked_read_breaks_coherence : ¬ Coherent (run (init wDisk) wRace) := by
  intro h
  have h1 : (run (init wDisk) wRace).cache 7 = some ⟨true, false, 100, 0⟩ := by decide
  have h2 : (run (init wDisk) wRace).disk 7 = ⟨true, false, 300, 0⟩ := by decide
  have := h 7 _ h1
  rw [h2] at this
  exact absurd this (by decide)

/-- the stale cache entry lets an update that is older than the stored one through -/
theorem unlocked_read_applies_older_update :
    ((run (init wDisk) wRace).disk 7).t 0 = 300 ∧
    ((run (init wDisk) (wRace ++ wReplay)).disk 7).t 0 = 150 := by
  constructor <;> decide

/-- with the atomic lookup the replay is refused and the cache stays coherent -/
theorem locked_schedule_refuses_replay :
    ((run (init wDisk) (wLocked ++ wReplay)).disk 7).t 0 = 300 ∧
    (run (init wDisk) (wLocked ++ wReplay)).cache 7 = some ⟨true, false, 300, 0⟩ := by
  constructor <;> decide

example : ∀ st ∈ wLocked ++ wReplay, st.locked = true := by decide
example : ∃ st ∈ wRace, st.locked = false := by decide
example : Inv (init wDisk) := inv_init wDisk

end LndModel.C20.Cache
