/-
C20 — concurrency model of the graph store's reject cache in front of the durable store
(`graph/db/kv_store.go`, `graph/db/sql_store.go`: `HasV1ChannelEdge` / `HasChannelEdge`,
`UpdateEdgePolicy` + `updateEdgeCache`, `AddChannelEdge`, `DeleteChannelEdges`, `MarkEdgeZombie`,
`MarkEdgeLive`; `graph/builder.go`: `updateEdge` under its per-channel mutex).

The durable entry of a channel id is what `HasV1ChannelEdge` computes from the database:
(exists, zombie, last-update timestamp of direction 0, of direction 1).  Goroutines are threads
with registers; a run is a list of *atomic steps*.  What is atomic is exactly what the lock
discipline of the code makes atomic:

* `lookup`  — cache hit, or (cache miss) read the durable entry **and** insert it, all under
              `cacheMu` (the code's discipline);
* `readDisk`, `insert` — the same lookup when the read is done with no lock held and only the
              insert takes `cacheMu` (the broken discipline, kept in the model for the witness);
* `updBegin` — `Builder.updateEdge` takes the per-channel mutex; `updCommit` — decides on the
              answer of the thread's own lookup (strictly newer?) and commits `UpdateEdgePolicy`
              + `updateEdgeCache` (patches a cached entry) in one batch under `cacheMu`;
* `addEdge`, `delEdge`, `markZombie`, `markLive` — durable write + removal of the cache entry under
              `cacheMu`;
* `evict`   — the bounded cache drops an entry.
Core Lean only.
-/
namespace LndModel.C20.Cache

structure Ent where
  ex : Bool
  zo : Bool
  t0 : Nat
  t1 : Nat
  deriving DecidableEq, Repr

def Ent.t (e : Ent) (dir : Nat) : Nat := if dir = 0 then e.t0 else e.t1

def Ent.setT (e : Ent) (dir ts : Nat) : Ent :=
  if dir = 0 then { e with t0 := ts } else { e with t1 := ts }

/-- registers of one goroutine -/
structure Thread where
  snap : Option (Nat × Ent) := none          -- durable entry read, not yet inserted (unlocked lookup)
  ans : Option (Nat × Ent) := none           -- key and answer of the last completed lookup
  hold : Option (Nat × Nat × Nat) := none    -- `updateEdge` in progress: key, direction, timestamp
  deriving DecidableEq, Repr

structure St where
  disk : Nat → Ent
  cache : Nat → Option Ent
  thr : Nat → Thread
  mtx : Nat → Option Nat                     -- per-channel mutex of the builder: key ↦ holder

inductive Step where
  | lookup (tid k : Nat)
  | readDisk (tid k : Nat)
  | insert (tid : Nat)
  | updBegin (tid k dir ts : Nat)
  | updCommit (tid : Nat)
  | addEdge (k : Nat)
  | delEdge (k : Nat) (markZombie : Bool)
  | markZombie (k : Nat)
  | markLive (k : Nat)
  | evict (k : Nat)
  deriving DecidableEq, Repr

def upd {α : Type} (f : Nat → α) (k : Nat) (v : α) : Nat → α := fun x => if x = k then v else f x

def setThr (s : St) (tid : Nat) (t : Thread) : St := { s with thr := upd s.thr tid t }

/-- durable write that invalidates the cache entry -/
def writeInval (s : St) (k : Nat) (e : Ent) : St :=
  { s with disk := upd s.disk k e, cache := upd s.cache k none }

def step (s : St) : Step → St
  | .lookup tid k =>
    match s.cache k with
    | some e => setThr s tid { s.thr tid with ans := some (k, e), snap := none }
    | none =>
      setThr { s with cache := upd s.cache k (some (s.disk k)) } tid
        { s.thr tid with ans := some (k, s.disk k), snap := none }
  | .readDisk tid k =>
    match s.cache k with
    | some e => setThr s tid { s.thr tid with ans := some (k, e), snap := none }
    | none => setThr s tid { s.thr tid with snap := some (k, s.disk k) }
  | .insert tid =>
    match (s.thr tid).snap with
    | some (k, e) =>
      setThr { s with cache := upd s.cache k (some e) } tid
        { s.thr tid with ans := some (k, e), snap := none }
    | none => s
  | .updBegin tid k dir ts =>
    if s.mtx k = none ∧ (s.thr tid).hold = none then
      setThr { s with mtx := upd s.mtx k (some tid) } tid
        { s.thr tid with hold := some (k, dir, ts), ans := none, snap := none }
    else s
  | .updCommit tid =>
    match (s.thr tid).hold with
    | none => s
    | some (k, dir, ts) =>
      let released := setThr { s with mtx := upd s.mtx k none } tid
        { s.thr tid with hold := none, ans := none, snap := none }
      match (s.thr tid).ans with
      | some (k', e) =>
        if k' = k ∧ e.ex = true ∧ e.t dir < ts ∧ (s.disk k).ex = true then
          { released with
              disk := upd s.disk k ((s.disk k).setT dir ts),
              cache := match s.cache k with
                | some c => upd s.cache k (some (c.setT dir ts))
                | none => s.cache }
        else released
      | none => released
  | .addEdge k =>
    if (s.disk k).ex then { s with cache := upd s.cache k none }
    else writeInval s k ⟨true, false, 0, 0⟩
  | .delEdge k mz =>
    if (s.disk k).ex then writeInval s k ⟨false, mz, 0, 0⟩ else s
  | .markZombie k =>
    if (s.disk k).ex then { s with cache := upd s.cache k none }
    else writeInval s k ⟨false, true, 0, 0⟩
  | .markLive k =>
    if (s.disk k).ex then { s with cache := upd s.cache k none }
    else writeInval s k ⟨false, false, 0, 0⟩
  | .evict k => { s with cache := upd s.cache k none }

def run (s : St) (l : List Step) : St := l.foldl step s

/-- steps of the code's discipline: the durable read of a lookup is never outside `cacheMu`. -/
def Step.locked : Step → Bool
  | .readDisk _ _ => false
  | .insert _ => false
  | _ => true

def init (disk : Nat → Ent) : St :=
  { disk := disk, cache := fun _ => none, thr := fun _ => {}, mtx := fun _ => none }

end LndModel.C20.Cache
