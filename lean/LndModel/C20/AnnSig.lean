/-
C20 — executable model of the announcement-signatures path of the gossiper
(`discovery/gossiper.go`, `handleAnnSig`): the two halves of a channel proof (ours from the
funding manager, the peer's from the network) arrive in any order, are kept in the persistent
`WaitingProofStore` (`channeldb/waitingproof.go`) until both are there, the full
`channel_announcement` is reconstructed from the stored channel record, **validated** and only
then the proof is attached to the channel (`AddProof`) and the announcement, the stored policies
and node announcements are handed to the broadcast path.

Also here: the part of the relay rules that depends on whether a channel has a proof
(`handleChanUpdate`: an update of a channel without `AuthProof` is applied but not broadcast;
`IsPublicNode`: a node announcement is broadcast only for a node with an announced channel).

Core Lean only.
-/
import LndModel.C20.Model

namespace LndModel.C20

/-- `lnwire.AnnounceSignatures1` (the channel id field is only used for `FindChannel`). -/
structure AnnSigMsg where
  scid : Scid
  ns : Sig          -- node signature
  bs : Sig          -- bitcoin signature
  deriving DecidableEq, Repr

/-- the four signatures of a `ChannelAuthProof`: node1, node2, bitcoin1, bitcoin2 -/
structure Proof where
  ns1 : Sig
  ns2 : Sig
  bs1 : Sig
  bs2 : Sig
  deriving DecidableEq, Repr

/-- proof-related state next to the graph of `State`. -/
structure PState where
  noProof : List Scid := []                                -- channels stored with `AuthProof == nil`
  proofs : List (Scid × Proof) := []                       -- proofs attached by `AddProof`
  waiting : List ((Scid × Bool) × AnnSigMsg) := []          -- WaitingProofStore, key (scid, isRemote)
  futureAS : List (Nat × (Bool × Key × AnnSigMsg)) := []    -- premature halves in `futureMsgs`
  deriving Repr

def PState.hasProof (ps : PState) (c : Scid) : Bool := !ps.noProof.contains c

/-- `netann.CreateChanAnnouncement`: the announcement is rebuilt from the stored record. -/
def caOf (c : Scid) (ci : ChanInfo) (p : Proof) : ChanAnn :=
  { chain := 0, scid := c, n1 := ci.n1, n2 := ci.n2, b1 := ci.b1, b2 := ci.b2,
    feat := ci.feat, extra := ci.extra, bs1 := p.bs1, bs2 := p.bs2, ns1 := p.ns1, ns2 := p.ns2 }

/-- the half sent by `src` goes into the slots of the node it is in the channel record -/
def assemble (ci : ChanInfo) (src : Key) (mine opp : AnnSigMsg) : Proof :=
  if src = ci.n1 then ⟨mine.ns, opp.ns, mine.bs, opp.bs⟩ else ⟨opp.ns, mine.ns, opp.bs, mine.bs⟩

inductive ARes where
  | ok | eNoChan | eNotPeer | eInvalid
  deriving DecidableEq, Repr

structure AOut where
  ps : PState
  res : ARes
  relay : Option ChanAnn      -- the assembled announcement handed to the broadcast path

/-- height from which a half for `c` is processed (`isPremature` with `ProofMatureDelta`) -/
def proofHeight (pmd : Nat) (c : Scid) : Nat := scidHeight c + (pmd - 1)

/-- `handleAnnSig`.  `remote`: from the peer (else from our funding manager, `src` = our key);
    `findChan`: does `FindChannel(source, chanID)` know an open channel (orphan halves). -/
def stepAnnSig (pmd : Nat) (findChan : Bool) (s : State) (ps : PState) (remote : Bool) (src : Key)
    (a : AnnSigMsg) : AOut :=
  if proofHeight pmd a.scid > s.height then
    ⟨{ ps with futureAS := ps.futureAS ++ [(proofHeight pmd a.scid, (remote, src, a))] }, .ok, none⟩
  else match lookup a.scid s.g.chans with
    | none =>
      if !findChan then ⟨ps, .eNoChan, none⟩
      else ⟨{ ps with waiting := upsert (a.scid, remote) a ps.waiting }, .ok, none⟩
    | some ci =>
      if src ≠ ci.n1 ∧ src ≠ ci.n2 then ⟨ps, .eNotPeer, none⟩
      else if ps.hasProof a.scid then ⟨ps, .ok, none⟩
      else match lookup (a.scid, !remote) ps.waiting with
        | none => ⟨{ ps with waiting := upsert (a.scid, remote) a ps.waiting }, .ok, none⟩
        | some opp =>
          let p := assemble ci src a opp
          if !(caOf a.scid ci p).sigsOk then ⟨ps, .eInvalid, none⟩
          else
            ⟨{ ps with noProof := ps.noProof.filter (· != a.scid),
                       proofs := upsert a.scid p ps.proofs,
                       waiting := erase (a.scid, !remote) ps.waiting }, .ok,
              some (caOf a.scid ci p)⟩

/-- what is broadcast together with an assembled announcement: the stored policies (as the
    updates they came from) and the stored node announcements of both endpoints. -/
def assembledExtras (g : Graph) (c : Scid) (ci : ChanInfo) :
    List ((Scid × Nat) × Policy) × List (Key × NodeInfo) :=
  ([0, 1].filterMap (fun d => (lookup (c, d) g.pols).map (fun p => ((c, d), p))),
   [ci.n1, ci.n2].filterMap (fun k => match lookup k g.nodes with
     | some ni => if ni.fields.isSome then some (k, ni) else none
     | none => none))

/-- relay rule depending on proofs: updates only of announced channels, node announcements only of
    nodes with an announced channel (`IsPublicNode`). -/
def relayAllowed (g : Graph) (ps : PState) : Msg → Bool
  | .ca _ => true
  | .cu u => ps.hasProof u.scid
  | .na x => g.chans.any (fun c => (c.2.n1 == x.node || c.2.n2 == x.node) && ps.hasProof c.1)

/-- channels that left the graph are forgotten -/
def PState.sync (ps : PState) (g : Graph) : PState :=
  { ps with noProof := ps.noProof.filter (fun c => (lookup c g.chans).isSome),
            proofs := ps.proofs.filter (fun cp => (lookup cp.1 g.chans).isSome) }

/-- a new best height: the premature halves that became mature are processed again. -/
def blockAnnSigs (pmd : Nat) (findChan : Bool) (s : State) (ps : PState) :
    PState × List (ARes × Option ChanAnn) :=
  let due := ps.futureAS.filter (fun e => e.1 ≤ s.height)
  let rest := ps.futureAS.filter (fun e => ¬ e.1 ≤ s.height)
  due.foldl (fun acc e =>
    let o := stepAnnSig pmd findChan s acc.1 e.2.1 e.2.2.1 e.2.2.2
    (o.ps, acc.2 ++ [(o.res, o.relay)])) ({ ps with futureAS := rest }, [])

/-- restart of the gossiper: the waiting-proof store and the graph are persistent, the
    future-message cache is not. -/
def PState.restart (ps : PState) : PState := { ps with futureAS := [] }

/-- events of the proof path on a fixed graph -/
inductive AEvent where
  | half (remote : Bool) (src : Key) (findChan : Bool) (a : AnnSigMsg)
  | block (h : Nat)
  | restart
  deriving Repr

def runAEvent (pmd : Nat) (sp : State × PState) : AEvent → State × PState
  | .half r src fc a => (sp.1, (stepAnnSig pmd fc sp.1 sp.2 r src a).ps)
  | .block h =>
    let s := { sp.1 with height := h }
    (s, (blockAnnSigs pmd true s sp.2).1)
  | .restart => (sp.1, sp.2.restart)

end LndModel.C20
