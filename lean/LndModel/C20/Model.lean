/-
C20 — executable model of lnd's remote gossip intake
(`discovery/gossiper.go`: ProcessRemoteAnnouncement → networkHandler →
handleChanAnnouncement / handleChanUpdate / handleNodeAnnouncement, with
`netann/*` validation, `graph/builder.go` freshness rules and the graph DB
as finite maps).

Cryptography is symbolic (DESIGN §1.6): a signature is the term `Sig.mk key
digest` (or junk), `digest` is an injective constructor over exactly the fields
`DataToSign` serialises, `verify key dig sig ↔ sig = Sig.mk key dig`.
Core Lean only.
-/
namespace LndModel.C20

abbrev Key := Nat        -- id of a 33-byte public key; 0 = the all-zero key
abbrev Scid := Nat       -- uint64 short channel id (height‖txindex‖position)
abbrev Peer := Nat
abbrev Blob := String    -- opaque byte strings compared for equality only

/-! ### finite maps as association lists -/

def lookup {κ α : Type} [DecidableEq κ] (k : κ) : List (κ × α) → Option α
  | [] => none
  | (k', v) :: r => if k' = k then some v else lookup k r

def upsert {κ α : Type} [DecidableEq κ] (k : κ) (v : α) : List (κ × α) → List (κ × α)
  | [] => [(k, v)]
  | (k', v') :: r => if k' = k then (k, v) :: r else (k', v') :: upsert k v r

def erase {κ α : Type} [DecidableEq κ] (k : κ) : List (κ × α) → List (κ × α)
  | [] => []
  | (k', v') :: r => if k' = k then erase k r else (k', v') :: erase k r

/-! ### symbolic crypto -/

inductive Digest where
  | ca (chain scid n1 n2 b1 b2 : Nat) (feat extra : Blob)
  | cu (chain scid ts mf cf tld min base rate max : Nat) (extra : Blob)
  | na (node ts : Nat) (fields : Blob)
  | opaque (n : Nat)      -- a byte string that is not the DataToSign of any message seen
  deriving DecidableEq, Repr

inductive Sig where
  | mk (k : Key) (d : Digest)
  | junk (n : Nat)
  deriving DecidableEq, Repr

def verify (k : Key) (d : Digest) (s : Sig) : Bool := decide (s = Sig.mk k d)

inductive Script where
  | ms (lo hi : Key)      -- p2wsh 2-of-2 multisig of the (sorted) keys
  | tr (lo hi : Key)      -- taproot musig2 funding output of the (sorted) keys
  | other (n : Nat)
  deriving DecidableEq, Repr

def mkMs (a b : Key) : Script := if a ≤ b then .ms a b else .ms b a
def mkTr (a b : Key) : Script := if a ≤ b then .tr a b else .tr b a

/-! ### messages -/

structure ChanAnn where
  chain : Nat          -- 0 = the gossiper's chain hash
  scid : Scid
  n1 : Key
  n2 : Key
  b1 : Key
  b2 : Key
  feat : Blob          -- hex of the raw feature vector (big-endian bytes)
  extra : Blob
  bs1 : Sig
  bs2 : Sig
  ns1 : Sig
  ns2 : Sig
  deriving DecidableEq, Repr

structure ChanUpd where
  chain : Nat
  scid : Scid
  ts : Nat
  mf : Nat
  cf : Nat
  tld : Nat
  min : Nat
  max : Nat
  base : Nat
  rate : Nat
  extra : Blob
  sig : Sig
  deriving DecidableEq, Repr

structure NodeAnn where
  node : Key
  ts : Nat
  fields : Blob        -- features, colour, alias, addresses, extra data
  sig : Sig
  deriving DecidableEq, Repr

inductive Msg where
  | ca (a : ChanAnn)
  | cu (u : ChanUpd)
  | na (n : NodeAnn)
  deriving DecidableEq, Repr

def hexVal (c : Char) : Nat :=
  if '0' ≤ c ∧ c ≤ '9' then c.toNat - '0'.toNat
  else if 'a' ≤ c ∧ c ≤ 'f' then c.toNat - 'a'.toNat + 10
  else 0

/-- `features.HasFeature(SimpleTaprootChannelsOptionalStaging)`: bit 180 or 181 of the feature
    vector (byte 22 from the end, mask 0x30) — the announcement's funding script is then the
    taproot one.  A function of the signed `feat` field. -/
def tapOf (feat : Blob) : Bool :=
  let cs := feat.toList
  let n := cs.length / 2
  if n < 23 then false else hexVal (cs.getD (2 * (n - 23)) '0') % 4 != 0

def ChanAnn.tap (a : ChanAnn) : Bool := tapOf a.feat

def hasMax (mf : Nat) : Bool := mf % 2 == 1
def dirOf (cf : Nat) : Nat := cf % 2
def disabled (cf : Nat) : Bool := (cf / 2) % 2 == 1

/-- `ChannelAnnouncement1.DataToSign`: features, chain hash, scid, both node ids, both bitcoin
    keys, extra data. -/
def ChanAnn.digest (a : ChanAnn) : Digest :=
  .ca a.chain a.scid a.n1 a.n2 a.b1 a.b2 a.feat a.extra

/-- `ChannelUpdate1.DataToSign`: the max-HTLC field is serialised only when its flag is set. -/
def ChanUpd.digest (u : ChanUpd) : Digest :=
  .cu u.chain u.scid u.ts u.mf u.cf u.tld u.min u.base u.rate (if hasMax u.mf then u.max else 0) u.extra

def NodeAnn.digest (n : NodeAnn) : Digest := .na n.node n.ts n.fields

def ChanAnn.fundingScript (a : ChanAnn) : Script :=
  if a.tap then mkTr a.b1 a.b2 else mkMs a.b1 a.b2

/-- `netann.validateChannelAnn1`: all four signatures over the one digest. -/
def ChanAnn.sigsOk (a : ChanAnn) : Bool :=
  verify a.b1 a.digest a.bs1 && verify a.b2 a.digest a.bs2 &&
  verify a.n1 a.digest a.ns1 && verify a.n2 a.digest a.ns2

/-! ### state -/

structure ChanInfo where
  n1 : Key
  n2 : Key
  b1 : Key
  b2 : Key
  cap : Nat
  feat : Blob
  extra : Blob
  deriving DecidableEq, Repr

structure Policy where
  ts : Nat
  mf : Nat
  cf : Nat
  tld : Nat
  min : Nat
  max : Nat
  base : Nat
  rate : Nat
  extra : Blob
  deriving DecidableEq, Repr

structure NodeInfo where
  ts : Nat
  fields : Option Blob   -- `none`: shell node (no announcement yet)
  deriving DecidableEq, Repr

structure Graph where
  chans : List (Scid × ChanInfo) := []
  pols : List ((Scid × Nat) × Policy) := []
  nodes : List (Key × NodeInfo) := []
  zombies : List (Scid × (Key × Key)) := []
  deriving Repr

inductive ChainRes where
  | noTx (zombie : Bool)   -- funding tx cannot be fetched (`zombie`: backend said not found / out of range)
  | noOut                  -- the transaction has no such output
  | out (script : Script) (value : Nat) (spent : Nat)   -- 0 unspent, 1 spent, 2 lookup failed
  deriving DecidableEq, Repr

structure Cfg where
  self : Key
  assumeValid : Bool
  expiry : Nat        -- graph.DefaultChannelPruneExpiry, seconds
  rebroadcast : Nat   -- RebroadcastInterval, seconds
  burst : Nat         -- MaxChannelUpdateBurst
  deriving Repr

structure State where
  g : Graph := {}
  chain : List (Scid × ChainRes) := []
  premature : List (Scid × List (Peer × ChanUpd)) := []   -- prematureChannelUpdates
  future : List (Nat × (Peer × Msg)) := []                -- futureMsgs (by block height)
  rejects : List (Scid × Peer) := []                      -- recentRejects
  closed : List Scid := []                                -- ScidCloser
  height : Nat := 0
  limiter : List ((Scid × Nat) × Nat) := []               -- tokens used per (channel, direction)
  deriving Repr

inductive Res where
  | ok | pending | eOwn | eRejected | eChain | eClosed | eCaSig | eNoFund | eBadFund | eSpent
  | eZeroTs | eSkew | eZKey | eZSig | eFields | eUSig | eNSig
  deriving DecidableEq, Repr

structure StepOut where
  st : State
  res : Res
  relay : List Msg

def nsPerSec : Nat := 1000000000
def scidHeight (s : Scid) : Nat := s / 2 ^ 40

def chainLookup (c : List (Scid × ChainRes)) (s : Scid) : ChainRes :=
  (lookup s c).getD (.noTx true)

def State.addReject (s : State) (c : Scid) (p : Peer) : State :=
  { s with rejects := (c, p) :: s.rejects }

def State.markZombie (s : State) (c : Scid) : State :=
  { s with g := { s.g with zombies := upsert c (0, 0) s.g.zombies } }

def State.cachePremature (s : State) (p : Peer) (u : ChanUpd) : State :=
  { s with premature := upsert u.scid ((lookup u.scid s.premature).getD [] ++ [(p, u)]) s.premature }

/-- `IsKnownEdge`: live or zombie. -/
def Graph.known (g : Graph) (c : Scid) : Bool :=
  (lookup c g.chans).isSome || (lookup c g.zombies).isSome

def addShell (k : Key) (nodes : List (Key × NodeInfo)) : List (Key × NodeInfo) :=
  match lookup k nodes with
  | some _ => nodes
  | none => nodes ++ [(k, ⟨0, none⟩)]

def ChanAnn.info (a : ChanAnn) (cap : Nat) : ChanInfo :=
  ⟨a.n1, a.n2, a.b1, a.b2, cap, a.feat, a.extra⟩

def ChanUpd.policy (u : ChanUpd) : Policy :=
  ⟨u.ts, u.mf, u.cf, u.tld, u.min, u.max, u.base, u.rate, u.extra⟩

/-- `AddEdge` of a validated announcement (plus shell nodes for unknown endpoints). -/
def State.addChan (s : State) (a : ChanAnn) (cap : Nat) : State :=
  { s with g := { s.g with chans := upsert a.scid (a.info cap) s.g.chans,
                           nodes := addShell a.n2 (addShell a.n1 s.g.nodes) } }

/-! ### channel announcement (`handleChanAnnouncement`, remote) -/

/-- The returned flag says whether the channel was added (then cached updates are replayed). -/
def stepCa (cfg : Cfg) (s : State) (p : Peer) (a : ChanAnn) : StepOut × Bool :=
  if a.chain ≠ 0 then (⟨s.addReject a.scid p, .eChain, []⟩, false)
  else if scidHeight a.scid > s.height then
    (⟨{ s with future := s.future ++ [(scidHeight a.scid, (p, .ca a))] }, .ok, []⟩, false)
  else if s.g.known a.scid then (⟨s, .ok, []⟩, false)
  else if a.scid ∈ s.closed then (⟨s, .eClosed, []⟩, false)
  else if !a.sigsOk then (⟨s.addReject a.scid p, .eCaSig, []⟩, false)
  else if cfg.assumeValid then (⟨s.addChan a 0, .ok, [.ca a]⟩, true)
  else match chainLookup s.chain a.scid with
    | .noTx z =>
      (⟨((if z then s.markZombie a.scid else s)).addReject a.scid p, .eNoFund, []⟩, false)
    | .noOut => (⟨(s.markZombie a.scid).addReject a.scid p, .eBadFund, []⟩, false)
    | .out sc v sp =>
      if sc ≠ a.fundingScript then
        (⟨(s.markZombie a.scid).addReject a.scid p, .eBadFund, []⟩, false)
      else if sp = 1 then
        (⟨{ (s.markZombie a.scid).addReject a.scid p with closed := a.scid :: s.closed },
          .eSpent, []⟩, false)
      else if sp ≠ 0 then
        (⟨{ s.addReject a.scid p with closed := a.scid :: s.closed }, .eSpent, []⟩, false)
      else (⟨s.addChan a v, .ok, [.ca a]⟩, true)

/-! ### channel update (`handleChanUpdate`, remote) -/

/-- `Builder.IsStaleEdgePolicy`. `now` is in nanoseconds. -/
def staleUpd (cfg : Cfg) (now : Nat) (g : Graph) (u : ChanUpd) : Bool :=
  match lookup u.scid g.chans with
  | some _ =>
    match lookup (u.scid, dirOf u.cf) g.pols with
    | some old => decide (u.ts ≤ old.ts)
    | none => false
  | none =>
    match lookup u.scid g.zombies with
    | some _ =>
      if cfg.assumeValid && disabled u.cf then true
      else decide (now > (u.ts + cfg.expiry) * nsPerSec)
    | none => false

/-- `netann.ValidateChannelUpdateFields`. -/
def fieldsOk (cap : Nat) (u : ChanUpd) : Bool :=
  hasMax u.mf && u.max != 0 && decide (u.min ≤ u.max) &&
  (cap * 1000 == 0 || decide (u.max ≤ cap * 1000))

/-- `IsKeepAliveUpdate` (the timestamp is already known to be newer). -/
def keepAlive (u : ChanUpd) (old : Policy) : Bool :=
  decide (old.ts < u.ts) && (disabled u.cf == disabled old.cf) && u.base == old.base &&
  u.rate == old.rate && u.tld == old.tld && u.min == old.min &&
  !(hasMax u.mf && !hasMax old.mf) && u.max == old.max && u.extra == old.extra

/-- the node whose key must have signed an update for direction `d` (bit 0 of the channel flags) -/
def owner (ci : ChanInfo) (d : Nat) : Key := if d = 0 then ci.n1 else ci.n2

/-- the key recorded in the zombie index that may resurrect direction `d` -/
def zombieKey (ks : Key × Key) (d : Nat) : Key := if d = 0 then ks.1 else ks.2

def State.applyUpd (s : State) (u : ChanUpd) : State :=
  { s with g := { s.g with pols := upsert (u.scid, dirOf u.cf) u.policy s.g.pols } }

def stepUpd (cfg : Cfg) (now : Nat) (s : State) (p : Peer) (u : ChanUpd) : StepOut :=
  if u.chain ≠ 0 then ⟨s.addReject u.scid p, .eChain, []⟩
  else if scidHeight u.scid > s.height then
    ⟨{ s with future := s.future ++ [(scidHeight u.scid, (p, .cu u))] }, .ok, []⟩
  else if u.ts = 0 then ⟨s, .eZeroTs, []⟩
  else if staleUpd cfg now s.g u then ⟨s, .ok, []⟩
  else if u.ts * nsPerSec > now + cfg.expiry * nsPerSec then ⟨s, .eSkew, []⟩
  else match lookup u.scid s.g.chans with
    | none =>
      match lookup u.scid s.g.zombies with
      | some ks =>
        if zombieKey ks (dirOf u.cf) = 0 then ⟨s, .eZKey, []⟩
        else if !verify (zombieKey ks (dirOf u.cf)) u.digest u.sig then ⟨s, .eZSig, []⟩
        else
          ⟨({ s with g := { s.g with zombies := erase u.scid s.g.zombies } }).cachePremature p u,
            .pending, []⟩
      | none => ⟨s.cachePremature p u, .pending, []⟩
    | some ci =>
      if !fieldsOk ci.cap u then ⟨s, .eFields, []⟩
      else if !verify (owner ci (dirOf u.cf)) u.digest u.sig then ⟨s, .eUSig, []⟩
      else match lookup (u.scid, dirOf u.cf) s.g.pols with
        | none => ⟨s.applyUpd u, .ok, [.cu u]⟩
        | some old =>
          if keepAlive u old then
            if u.ts - old.ts < cfg.rebroadcast then ⟨s, .ok, []⟩
            else ⟨s.applyUpd u, .ok, [.cu u]⟩
          else
            let used := (lookup (u.scid, dirOf u.cf) s.limiter).getD 0
            if used < cfg.burst then
              ⟨({ s with limiter := upsert (u.scid, dirOf u.cf) (used + 1) s.limiter }).applyUpd u,
                .ok, [.cu u]⟩
            else ⟨s, .ok, []⟩

/-! ### the graph builder's own entry points for channel updates

`Builder.ApplyChannelUpdate` (updates carried in onion failure messages, called from routing) and
`Builder.UpdateEdge` (local callers) reach `Builder.updateEdge` without the gossiper's
`IsStaleEdgePolicy` pre-filter.  `ApplyChannelUpdate` looks the channel up, picks the key by the
direction bit and runs `ValidateChannelUpdateAnn` (fields, then signature); it checks neither the
chain hash nor zero / far-future timestamps.  `UpdateEdge` trusts its caller and only applies the
freshness rule of `updateEdge` (unknown or zombie channel: ignored; timestamp not strictly newer:
outdated). -/

inductive EdgeRes where
  | ok | ignored | outdated
  deriving DecidableEq, Repr

/-- `Builder.updateEdge` on the policy carried by `u`. -/
def updateEdge (s : State) (u : ChanUpd) : State × EdgeRes :=
  match lookup u.scid s.g.chans with
  | none => (s, .ignored)
  | some _ =>
    match lookup (u.scid, dirOf u.cf) s.g.pols with
    | some old => if u.ts ≤ old.ts then (s, .outdated) else (s.applyUpd u, .ok)
    | none => (s.applyUpd u, .ok)

/-- `Builder.ApplyChannelUpdate`; the flag is its boolean result. -/
def applyChannelUpdate (s : State) (u : ChanUpd) : State × Bool :=
  match lookup u.scid s.g.chans with
  | none => (s, false)
  | some ci =>
    if !fieldsOk ci.cap u then (s, false)
    else if !verify (owner ci (dirOf u.cf)) u.digest u.sig then (s, false)
    else ((updateEdge s u).1, true)

/-! ### node announcement (`handleNodeAnnouncement`) -/

/-- `IsPublicNode` for nodes that have no channel with us: some channel has it as an endpoint. -/
def Graph.isPublic (g : Graph) (k : Key) : Bool :=
  g.chans.any (fun c => c.2.n1 == k || c.2.n2 == k)

def stepNode (s : State) (n : NodeAnn) : StepOut :=
  if n.ts = 0 then ⟨s, .eZeroTs, []⟩
  else match lookup n.node s.g.nodes with
    | none => ⟨s, .ok, []⟩                       -- unknown node: ignored (IsStaleNode)
    | some old =>
      if n.ts ≤ old.ts then ⟨s, .ok, []⟩         -- stale
      else if !verify n.node n.digest n.sig then ⟨s, .eNSig, []⟩
      else
        ⟨{ s with g := { s.g with nodes := upsert n.node ⟨n.ts, some n.fields⟩ s.g.nodes } }, .ok,
          if s.g.isPublic n.node then [.na n] else []⟩

/-! ### pruning (`ChannelGraph.PruneGraph` for a closed channel) -/

/-- is `k` an endpoint of some channel of the map -/
def endpointOf (chans : List (Scid × ChanInfo)) (k : Key) : Bool :=
  chans.any (fun ch => lookup ch.1 chans == some ch.2 && (ch.2.n1 == k || ch.2.n2 == k))

/-- The funding output of `c` was spent on chain: the channel and its policies are deleted and
    nodes left without any channel (except our own node) are garbage-collected. -/
def Graph.prune (self : Key) (g : Graph) (c : Scid) : Graph :=
  let chans := erase c g.chans
  { g with chans := chans, pols := erase (c, 1) (erase (c, 0) g.pols),
           nodes := g.nodes.filter (fun kn => kn.1 == self || endpointOf chans kn.1) }

/-! ### dispatch, replays, blocks -/

def rejected (s : State) (p : Peer) : Msg → Bool
  | .ca a => decide ((a.scid, p) ∈ s.rejects)
  | .cu u => decide ((u.scid, p) ∈ s.rejects)
  | .na _ => false

/-- One pass through `networkHandler` + `processNetworkAnnouncement` (no replays). -/
def dispatch (cfg : Cfg) (now : Nat) (s : State) (p : Peer) (m : Msg) : StepOut × Bool :=
  if rejected s p m then (⟨s, .eRejected, []⟩, false)
  else match m with
    | .ca a => stepCa cfg s p a
    | .cu u => (stepUpd cfg now s p u, false)
    | .na n => (stepNode s n, false)

structure Acc where
  st : State
  relay : List Msg := []
  replayed : List (Msg × Res) := []

/-- Cached premature updates are sent through the very same pipeline again. -/
def runUpdates (cfg : Cfg) (now : Nat) (acc : Acc) (l : List (Peer × ChanUpd)) : Acc :=
  l.foldl (fun acc pu =>
    let o := (dispatch cfg now acc.st pu.1 (.cu pu.2)).1
    ⟨o.st, acc.relay ++ o.relay, acc.replayed ++ [(.cu pu.2, o.res)]⟩) acc

def msgScid : Msg → Scid
  | .ca a => a.scid
  | .cu u => u.scid
  | .na _ => 0

/-- dispatch + replay of the updates that were waiting for the channel. -/
def submitCore (cfg : Cfg) (now : Nat) (s : State) (p : Peer) (m : Msg) : Res × Acc :=
  let (o, added) := dispatch cfg now s p m
  if added then
    let cached := (lookup (msgScid m) o.st.premature).getD []
    let s1 := { o.st with premature := erase (msgScid m) o.st.premature }
    (o.res, runUpdates cfg now ⟨s1, o.relay, []⟩ cached)
  else (o.res, ⟨o.st, o.relay, []⟩)

/-- `ProcessRemoteAnnouncement`. -/
def submit (cfg : Cfg) (now : Nat) (s : State) (p : Peer) (m : Msg) : Res × Acc :=
  match m with
  | .ca a =>
    if a.n1 = cfg.self ∨ a.n2 = cfg.self then (.eOwn, ⟨s, [], []⟩)
    else submitCore cfg now s p m
  | _ => submitCore cfg now s p m

def isCa : Msg → Bool
  | .ca _ => true
  | _ => false

/-- A new block: the future messages that became mature are re-sent (announcements before
    updates, which is the order the validation barrier enforces for the outcome). -/
def newBlock (cfg : Cfg) (now : Nat) (s : State) (h : Nat) : Acc :=
  let due := s.future.filter (fun e => e.1 ≤ h)
  let rest := s.future.filter (fun e => ¬ e.1 ≤ h)
  let s0 := { s with height := h, future := rest }
  let ordered := due.filter (fun e => isCa e.2.2) ++ due.filter (fun e => !isCa e.2.2)
  ordered.foldl (fun acc e =>
    let (r, a) := submitCore cfg now acc.st e.2.1 e.2.2
    ⟨a.st, acc.relay ++ a.relay, acc.replayed ++ [(e.2.2, r)] ++ a.replayed⟩) ⟨s0, [], []⟩

/-! ### trusted and maintenance entry points of the builder / graph store (round 5)

`Builder.AddEdge` (locally trusted callers), `DeleteChannelEdges(strict, markZombie)` +
`PruneGraphNodes`, and `Builder.pruneZombieChans` (the graph-prune ticker). -/

/-- `Builder.AddEdge`: ignored for a live or zombie channel, otherwise the edge and shell nodes are
    stored as given (the caller is trusted, like for `UpdateEdge`). -/
def addEdgeDirect (s : State) (a : ChanAnn) (cap : Nat) : State × EdgeRes :=
  if s.g.known a.scid then (s, .ignored) else (s.addChan a cap, .ok)

/-- `makeZombiePubkeys` (graph/db/kv_store.go:3331, shared by the SQL store); the arguments are the
    last-update times of the two policies (if present).  Its doc comment says that in the last case
    "only an update from edge2 can resurrect the channel", i.e. the second slot should hold `node2`
    (`fixed = true`); the code as written returns `node1` there (`fixed = false`).  Which of the two
    the tree under test does is measured by the harness on the real store (`FACT zslot2=`). -/
def makeZombiePubkeys (fixed : Bool) (n1 n2 : Key) (e1 e2 : Option Nat) : Key × Key :=
  let lagging2 : Key × Key := (0, if fixed then n2 else n1)
  match e1, e2 with
  | none, none => (n1, n2)
  | none, some _ => (n1, 0)
  | some a, some b => if a < b then (n1, 0) else lagging2
  | some _, none => lagging2

/-- `PruneGraphNodes`: nodes without any channel (except our own) are removed. -/
def Graph.pruneNodes (self : Key) (g : Graph) : Graph :=
  { g with nodes := g.nodes.filter (fun kn => kn.1 == self || endpointOf g.chans kn.1) }

/-- `DeleteChannelEdges(strict, markZombie = true, c)`: the channel and its policies are deleted and
    the zombie index records who may resurrect it. -/
def Graph.delZombie (strict fixed : Bool) (g : Graph) (c : Scid) : Graph :=
  match lookup c g.chans with
  | none => g
  | some ci =>
    let e1 := (lookup (c, 0) g.pols).map (·.ts)
    let e2 := (lookup (c, 1) g.pols).map (·.ts)
    let ks := if strict then makeZombiePubkeys fixed ci.n1 ci.n2 e1 e2 else (ci.n1, ci.n2)
    { g with chans := erase c g.chans, pols := erase (c, 1) (erase (c, 0) g.pols),
             zombies := upsert c ks g.zombies }

/-- `isPolicyZombie` (`now` in nanoseconds): no policy, or not updated for the prune expiry. -/
def polZombie (cfg : Cfg) (now : Nat) : Option Policy → Bool
  | none => true
  | some p => decide (p.ts * nsPerSec + cfg.expiry * nsPerSec ≤ now)

/-- is the channel returned by `ChanUpdatesInHorizon(0, now - expiry)` (end exclusive, seconds) -/
def inPruneHorizon (cfg : Cfg) (now : Nat) (g : Graph) (c : Scid) : Bool :=
  let endSec := (now - cfg.expiry * nsPerSec) / nsPerSec
  [0, 1].any (fun d => match lookup (c, d) g.pols with
    | some p => decide (p.ts < endSec)
    | none => false)

def isZombieChan (cfg : Cfg) (strict : Bool) (now : Nat) (g : Graph) (c : Scid) : Bool :=
  let z1 := polZombie cfg now (lookup (c, 0) g.pols)
  let z2 := polZombie cfg now (lookup (c, 1) g.pols)
  if strict then z1 || z2 else z1 && z2

/-- `Builder.pruneZombieChans` (without AssumeChannelValid): channels of other nodes that have an
    update older than the prune expiry and are zombies by the (strict / non-strict) rule are deleted
    and marked; if anything was deleted unconnected nodes are collected. -/
def zombiePrune (cfg : Cfg) (strict fixed : Bool) (now : Nat) (g : Graph) : Graph :=
  let victims := g.chans.filter (fun ch =>
    ch.2.n1 != cfg.self && ch.2.n2 != cfg.self && inPruneHorizon cfg now g ch.1 &&
    isZombieChan cfg strict now g ch.1)
  if victims.isEmpty then g
  else (victims.foldl (fun g ch => g.delZombie strict fixed ch.1) g).pruneNodes cfg.self

end LndModel.C20
