/-
C20 — helper lemmas: finite maps, symbolic signatures, digest injectivity and the per-handler
characterisations (`stepCa_spec`, `stepUpd_spec`, `stepNode_spec`) the property theorems use.
-/
import LndModel.C20.Model

namespace LndModel.C20

/-! ### association lists -/

section maps
variable {κ α : Type} [DecidableEq κ]

theorem lookup_upsert_self (k : κ) (v : α) (l : List (κ × α)) :
    lookup k (upsert k v l) = some v := by
  induction l with
  | nil => simp [upsert, lookup]
  | cons x r ih =>
    obtain ⟨k', v'⟩ := x
    by_cases h : k' = k
    · simp [upsert, lookup, h]
    · simp [upsert, lookup, h, ih]

theorem lookup_upsert_ne {k k' : κ} (v : α) (l : List (κ × α)) (h : k' ≠ k) :
    lookup k' (upsert k v l) = lookup k' l := by
  induction l with
  | nil =>
    have : ¬ k = k' := fun e => h e.symm
    simp [upsert, lookup, this]
  | cons x r ih =>
    obtain ⟨k2, v2⟩ := x
    by_cases h2 : k2 = k
    · subst h2
      have : ¬ k2 = k' := fun e => h e.symm
      simp [upsert, lookup, this]
    · simp only [upsert, h2, if_false, lookup]
      split
      · rfl
      · exact ih

theorem lookup_append_single (k k2 : κ) (v : α) (l : List (κ × α)) :
    lookup k (l ++ [(k2, v)]) =
      match lookup k l with
      | some x => some x
      | none => if k2 = k then some v else none := by
  induction l with
  | nil => simp [lookup]
  | cons x r ih =>
    obtain ⟨k3, v3⟩ := x
    by_cases h : k3 = k
    · simp [lookup, h]
    · simp [lookup, h, ih]

theorem lookup_erase_self (k : κ) (l : List (κ × α)) : lookup k (erase k l) = none := by
  induction l with
  | nil => rfl
  | cons x r ih =>
    obtain ⟨k', v'⟩ := x
    by_cases h : k' = k
    · simp [erase, h, ih]
    · simp [erase, lookup, h, ih]

theorem lookup_erase_ne {k k' : κ} (l : List (κ × α)) (h : k' ≠ k) :
    lookup k' (erase k l) = lookup k' l := by
  induction l with
  | nil => rfl
  | cons x r ih =>
    obtain ⟨k2, v2⟩ := x
    by_cases h2 : k2 = k
    · subst h2
      have : ¬ k2 = k' := fun e => h e.symm
      simp [erase, lookup, this, ih]
    · simp only [erase, h2, if_false, lookup]
      split
      · rfl
      · exact ih

/-- a key found in a list filtered by a key-only predicate satisfies the predicate -/
theorem lookup_filter_key (q : κ → Bool) (k : κ) (v : α) (l : List (κ × α))
    (h : lookup k (l.filter (fun kv => q kv.1)) = some v) : q k = true ∧ lookup k l = some v := by
  induction l with
  | nil => simp [lookup] at h
  | cons x r ih =>
    obtain ⟨k', v'⟩ := x
    by_cases hq : q k' = true
    · simp only [List.filter, hq] at h
      by_cases hk : k' = k
      · subst hk
        simp only [lookup, if_true] at h ⊢
        exact ⟨hq, h⟩
      · simp only [lookup, hk, if_false] at h ⊢
        exact ih h
    · have hq' : q k' = false := by simpa using hq
      simp only [List.filter, hq'] at h
      obtain ⟨h1, h2⟩ := ih h
      by_cases hk : k' = k
      · subst hk; rw [hq'] at h1; cases h1
      · simp only [lookup, hk, if_false]
        exact ⟨h1, h2⟩

end maps

theorem lookup_addShell (k k' : Key) (l : List (Key × NodeInfo)) :
    lookup k' (addShell k l) =
      match lookup k' l with
      | some x => some x
      | none => if k = k' then some ⟨0, none⟩ else none := by
  unfold addShell
  cases hk : lookup k l with
  | some x =>
    simp only
    cases hk' : lookup k' l with
    | some y => rfl
    | none =>
      by_cases e : k = k'
      · subst e; rw [hk] at hk'; cases hk'
      · simp [e]
  | none =>
    simp only
    rw [lookup_append_single]
    cases lookup k' l <;> rfl

/-! ### symbolic signatures -/

theorem verify_iff (k : Key) (d : Digest) (s : Sig) : verify k d s = true ↔ s = Sig.mk k d := by
  simp [verify]

theorem verify_false_iff (k : Key) (d : Digest) (s : Sig) :
    verify k d s = false ↔ s ≠ Sig.mk k d := by
  simp [verify]

/-- a signature verifies under at most one (key, digest) pair -/
theorem sig_unique {k k' : Key} {d d' : Digest} (h : Sig.mk k d = Sig.mk k' d') : k = k' ∧ d = d' := by
  cases h; exact ⟨rfl, rfl⟩

/-! ### digest injectivity (`DataToSign` covers exactly these fields) -/

theorem ChanAnn.digest_eq_iff (a b : ChanAnn) :
    a.digest = b.digest ↔
      a.chain = b.chain ∧ a.scid = b.scid ∧ a.n1 = b.n1 ∧ a.n2 = b.n2 ∧ a.b1 = b.b1 ∧
      a.b2 = b.b2 ∧ a.feat = b.feat ∧ a.extra = b.extra := by
  simp [ChanAnn.digest]

theorem ChanUpd.digest_eq_iff (a b : ChanUpd) :
    a.digest = b.digest ↔
      a.chain = b.chain ∧ a.scid = b.scid ∧ a.ts = b.ts ∧ a.mf = b.mf ∧ a.cf = b.cf ∧
      a.tld = b.tld ∧ a.min = b.min ∧ a.base = b.base ∧ a.rate = b.rate ∧
      (if hasMax a.mf then a.max else 0) = (if hasMax b.mf then b.max else 0) ∧
      a.extra = b.extra := by
  simp [ChanUpd.digest]

theorem NodeAnn.digest_eq_iff (a b : NodeAnn) :
    a.digest = b.digest ↔ a.node = b.node ∧ a.ts = b.ts ∧ a.fields = b.fields := by
  simp [NodeAnn.digest]

/-! ### specification predicates -/

/-- all four signatures verify over the announcement digest under the four stated keys -/
def CaSigned (a : ChanAnn) : Prop :=
  a.bs1 = Sig.mk a.b1 a.digest ∧ a.bs2 = Sig.mk a.b2 a.digest ∧
  a.ns1 = Sig.mk a.n1 a.digest ∧ a.ns2 = Sig.mk a.n2 a.digest

/-- the funding output named by the scid exists, is unspent, carries `v` satoshi and pays to the
    2-of-2 of the announcement's bitcoin keys -/
def FundingOk (s : State) (a : ChanAnn) (v : Nat) : Prop :=
  chainLookup s.chain a.scid = .out a.fundingScript v 0

theorem sigsOk_iff (a : ChanAnn) : a.sigsOk = true ↔ CaSigned a := by
  simp only [ChanAnn.sigsOk, Bool.and_eq_true, verify_iff, CaSigned, and_assoc]

/-- the update is on our chain, non-zero and not too far in the future, names a known channel,
    is signed by the node owning its direction and has consistent fields -/
def UpdAuthentic (cfg : Cfg) (now : Nat) (chans : List (Scid × ChanInfo)) (u : ChanUpd) : Prop :=
  u.chain = 0 ∧ u.ts ≠ 0 ∧ u.ts * nsPerSec ≤ now + cfg.expiry * nsPerSec ∧
  ∃ ci, lookup u.scid chans = some ci ∧ u.sig = Sig.mk (owner ci (dirOf u.cf)) u.digest ∧
    fieldsOk ci.cap u = true

def UpdFresh (pols : List ((Scid × Nat) × Policy)) (u : ChanUpd) : Prop :=
  ∀ old, lookup (u.scid, dirOf u.cf) pols = some old → old.ts < u.ts

def NodeAuthenticFresh (nodes : List (Key × NodeInfo)) (n : NodeAnn) : Prop :=
  n.sig = Sig.mk n.node n.digest ∧ n.ts ≠ 0 ∧ ∃ old, lookup n.node nodes = some old ∧ old.ts < n.ts

/-! ### handler characterisations -/

theorem known_false {g : Graph} {c : Scid} (h : g.known c = false) : lookup c g.chans = none := by
  unfold Graph.known at h
  cases hc : lookup c g.chans with
  | none => rfl
  | some x => simp [hc] at h

/-- `handleChanAnnouncement`: either nothing of the graph core changes and nothing is relayed, or
    the announcement is fully authentic and exactly this channel is added. -/
theorem stepCa_spec (cfg : Cfg) (s : State) (p : Peer) (a : ChanAnn) :
    ((stepCa cfg s p a).2 = false ∧ (stepCa cfg s p a).1.st.g.chans = s.g.chans ∧
      (stepCa cfg s p a).1.st.g.pols = s.g.pols ∧ (stepCa cfg s p a).1.st.g.nodes = s.g.nodes ∧
      (stepCa cfg s p a).1.st.premature = s.premature ∧
      (stepCa cfg s p a).1.relay = []) ∨
    ((stepCa cfg s p a).2 = true ∧ a.chain = 0 ∧ CaSigned a ∧ lookup a.scid s.g.chans = none ∧
      ∃ v, ((cfg.assumeValid = true ∧ v = 0) ∨ (cfg.assumeValid = false ∧ FundingOk s a v)) ∧
        (stepCa cfg s p a).1.st = s.addChan a v ∧ (stepCa cfg s p a).1.relay = [.ca a] ∧
        (stepCa cfg s p a).1.res = .ok) := by
  generalize h : stepCa cfg s p a = r
  unfold stepCa at h
  split at h
  · subst h; left; simp [State.addReject]
  · rename_i hchain
    split at h
    · subst h; left; simp
    · split at h
      · subst h; left; simp
      · rename_i hknown
        split at h
        · subst h; left; simp
        · split at h
          · subst h; left; simp [State.addReject]
          · rename_i hsig
            have hsig' : CaSigned a := by
              have : a.sigsOk = true := by simpa using hsig
              exact (sigsOk_iff a).1 this
            have hch : a.chain = 0 := by simpa using hchain
            have hkn : lookup a.scid s.g.chans = none := known_false (by simpa using hknown)
            split at h
            · rename_i hav
              subst h
              right
              exact ⟨rfl, hch, hsig', hkn, 0, Or.inl ⟨hav, rfl⟩, rfl, rfl, rfl⟩
            · rename_i hav
              split at h
              · subst h; left; split <;> simp [State.addReject, State.markZombie]
              · subst h; left; simp [State.addReject, State.markZombie]
              · rename_i sc v sp hlk
                split at h
                · subst h; left; simp [State.addReject, State.markZombie]
                · rename_i hsc
                  split at h
                  · subst h; left; simp [State.addReject, State.markZombie]
                  · split at h
                    · subst h; left; simp [State.addReject]
                    · rename_i hsp1 hsp0
                      subst h
                      right
                      have hsp : sp = 0 := by simpa using hsp0
                      have hsc' : sc = a.fundingScript := by simpa using hsc
                      refine ⟨rfl, hch, hsig', hkn, v, Or.inr ⟨by simpa using hav, ?_⟩, rfl, rfl, rfl⟩
                      unfold FundingOk
                      rw [hlk, hsc', hsp]

/-- `handleChanUpdate` never touches channels or nodes; a policy changes (and the update is
    relayed) only for an authentic, strictly newer update, and then to exactly that update. -/
theorem stepUpd_spec (cfg : Cfg) (now : Nat) (s : State) (p : Peer) (u : ChanUpd) :
    (stepUpd cfg now s p u).st.g.chans = s.g.chans ∧
    (stepUpd cfg now s p u).st.g.nodes = s.g.nodes ∧
    (((stepUpd cfg now s p u).st.g.pols = s.g.pols ∧ (stepUpd cfg now s p u).relay = []) ∨
     (UpdAuthentic cfg now s.g.chans u ∧ UpdFresh s.g.pols u ∧
      (stepUpd cfg now s p u).st.g.pols = upsert (u.scid, dirOf u.cf) u.policy s.g.pols ∧
      (stepUpd cfg now s p u).relay = [.cu u] ∧ (stepUpd cfg now s p u).res = .ok)) := by
  generalize h : stepUpd cfg now s p u = r
  unfold stepUpd at h
  split at h
  · subst h; simp [State.addReject]
  · rename_i hchain
    split at h
    · subst h; simp
    · split at h
      · subst h; simp
      · rename_i hts
        split at h
        · subst h; simp
        · rename_i hstale
          split at h
          · subst h; simp
          · rename_i hskew
            split at h
            · -- unknown channel
              split at h
              · split at h
                · subst h; simp
                · split at h
                  · subst h; simp
                  · subst h; simp [State.cachePremature]
              · subst h; simp [State.cachePremature]
            · rename_i ci hci
              split at h
              · subst h; simp
              · rename_i hfields
                split at h
                · subst h; simp
                · rename_i hsigv
                  have hch : u.chain = 0 := by simpa using hchain
                  have hsk : u.ts * nsPerSec ≤ now + cfg.expiry * nsPerSec := by omega
                  have hf : fieldsOk ci.cap u = true := by simpa using hfields
                  have hsg : u.sig = Sig.mk (owner ci (dirOf u.cf)) u.digest := by
                    have : verify (owner ci (dirOf u.cf)) u.digest u.sig = true := by
                      simpa using hsigv
                    exact (verify_iff _ _ _).1 this
                  have hauth : UpdAuthentic cfg now s.g.chans u :=
                    ⟨hch, hts, hsk, ci, hci, hsg, hf⟩
                  have hfresh : UpdFresh s.g.pols u := by
                    intro old hold
                    have hst : staleUpd cfg now s.g u = false := by simpa using hstale
                    unfold staleUpd at hst
                    rw [hci] at hst
                    simp only [hold] at hst
                    have : ¬ u.ts ≤ old.ts := by simpa using hst
                    omega
                  split at h
                  · subst h
                    exact ⟨rfl, rfl, Or.inr ⟨hauth, hfresh, rfl, rfl, rfl⟩⟩
                  · split at h
                    · split at h
                      · subst h; simp
                      · subst h
                        exact ⟨rfl, rfl, Or.inr ⟨hauth, hfresh, rfl, rfl, rfl⟩⟩
                    · simp only at h
                      split at h
                      · subst h
                        exact ⟨rfl, rfl, Or.inr ⟨hauth, hfresh, rfl, rfl, rfl⟩⟩
                      · subst h; simp

/-- `handleNodeAnnouncement` never touches channels or policies; a node record changes only for an
    announcement signed by that node, strictly newer than the stored one, for a node already in
    the graph; it is relayed only in that case. -/
theorem stepNode_spec (s : State) (n : NodeAnn) :
    (stepNode s n).st.g.chans = s.g.chans ∧ (stepNode s n).st.g.pols = s.g.pols ∧
    (((stepNode s n).st.g.nodes = s.g.nodes ∧ (stepNode s n).relay = []) ∨
     (NodeAuthenticFresh s.g.nodes n ∧
      (stepNode s n).st.g.nodes = upsert n.node ⟨n.ts, some n.fields⟩ s.g.nodes ∧
      (stepNode s n).res = .ok ∧ ((stepNode s n).relay = [] ∨ (stepNode s n).relay = [.na n]))) := by
  generalize h : stepNode s n = r
  unfold stepNode at h
  split at h
  · subst h; simp
  · rename_i hts
    split at h
    · subst h; simp
    · rename_i old hold
      split at h
      · subst h; simp
      · rename_i hnew
        split at h
        · subst h; simp
        · rename_i hsigv
          have hsg : n.sig = Sig.mk n.node n.digest := by
            have : verify n.node n.digest n.sig = true := by simpa using hsigv
            exact (verify_iff _ _ _).1 this
          subst h
          refine ⟨rfl, rfl, Or.inr ⟨⟨hsg, hts, old, hold, by omega⟩, rfl, rfl, ?_⟩⟩
          simp only
          split <;> simp

/-! ### the zombie index -/

/-- no output of the announced scid satisfies the funding requirements -/
def BadFunding (s : State) (a : ChanAnn) : Prop := ∀ v, ¬ FundingOk s a v

/-- an update that may take `c` out of the zombie index: on our chain, non-zero, not older than the
    prune horizon, signed by the key the index recorded for its direction (which must be set) -/
def ZombieResurrect (cfg : Cfg) (now : Nat) (z : Option (Key × Key)) (u : ChanUpd) : Prop :=
  ∃ ks, z = some ks ∧ zombieKey ks (dirOf u.cf) ≠ 0 ∧
    u.sig = Sig.mk (zombieKey ks (dirOf u.cf)) u.digest ∧ u.chain = 0 ∧ u.ts ≠ 0 ∧
    now ≤ (u.ts + cfg.expiry) * nsPerSec

/-- `handleChanAnnouncement` touches the zombie index only by marking the announced scid (zero
    keys) when a fully signed announcement has no acceptable funding output. -/
theorem stepCa_zombies (cfg : Cfg) (s : State) (p : Peer) (a : ChanAnn) :
    (stepCa cfg s p a).1.st.g.zombies = s.g.zombies ∨
    ((stepCa cfg s p a).2 = false ∧ a.chain = 0 ∧ CaSigned a ∧ cfg.assumeValid = false ∧
      BadFunding s a ∧
      (stepCa cfg s p a).1.st.g.zombies = upsert a.scid (0, 0) s.g.zombies) := by
  generalize h : stepCa cfg s p a = r
  unfold stepCa at h
  split at h
  · subst h; left; rfl
  · rename_i hchain
    split at h
    · subst h; left; rfl
    · split at h
      · subst h; left; rfl
      · split at h
        · subst h; left; rfl
        · split at h
          · subst h; left; rfl
          · rename_i hsig
            have hsig' : CaSigned a := (sigsOk_iff a).1 (by simpa using hsig)
            have hch : a.chain = 0 := by simpa using hchain
            split at h
            · subst h; left; rfl
            · rename_i hav
              have hav' : cfg.assumeValid = false := by simpa using hav
              split at h
              · rename_i z hlk
                subst h
                cases z with
                | false => left; rfl
                | true =>
                  right
                  refine ⟨rfl, hch, hsig', hav', ?_, rfl⟩
                  intro v hv; unfold FundingOk at hv; rw [hlk] at hv; cases hv
              · rename_i hlk
                subst h; right
                refine ⟨rfl, hch, hsig', hav', ?_, rfl⟩
                intro v hv; unfold FundingOk at hv; rw [hlk] at hv; cases hv
              · rename_i sc v0 sp hlk
                split at h
                · rename_i hsc
                  subst h; right
                  refine ⟨rfl, hch, hsig', hav', ?_, rfl⟩
                  intro v hv; unfold FundingOk at hv; rw [hlk] at hv
                  injection hv with e1 _ _
                  exact hsc e1
                · split at h
                  · rename_i hsp
                    subst h; right
                    refine ⟨rfl, hch, hsig', hav', ?_, rfl⟩
                    intro v hv; unfold FundingOk at hv; rw [hlk] at hv
                    injection hv with _ _ e3
                    omega
                  · split at h
                    · subst h; left; rfl
                    · subst h; left; rfl

/-- `handleChanUpdate` touches the zombie index only by removing the update's scid, for an
    unknown channel, when the update is an authenticated, fresh resurrection. -/
theorem stepUpd_zombies (cfg : Cfg) (now : Nat) (s : State) (p : Peer) (u : ChanUpd) :
    (stepUpd cfg now s p u).st.g.zombies = s.g.zombies ∨
    (ZombieResurrect cfg now (lookup u.scid s.g.zombies) u ∧
      (stepUpd cfg now s p u).st.g.zombies = erase u.scid s.g.zombies) := by
  generalize h : stepUpd cfg now s p u = r
  unfold stepUpd at h
  split at h
  · subst h; left; rfl
  · rename_i hchain
    split at h
    · subst h; left; rfl
    · split at h
      · subst h; left; rfl
      · rename_i hts
        split at h
        · subst h; left; rfl
        · rename_i hstale
          split at h
          · subst h; left; rfl
          · split at h
            · rename_i hnone
              split at h
              · rename_i ks hz
                split at h
                · subst h; left; rfl
                · rename_i hkey
                  split at h
                  · subst h; left; rfl
                  · rename_i hv
                    subst h
                    right
                    refine ⟨⟨ks, hz, hkey, (verify_iff _ _ _).1 (by simpa using hv),
                      by simpa using hchain, hts, ?_⟩, rfl⟩
                    have hst : staleUpd cfg now s.g u = false := by simpa using hstale
                    unfold staleUpd at hst
                    rw [hnone] at hst
                    simp only [hz] at hst
                    split at hst
                    · cases hst
                    · have : ¬ now > (u.ts + cfg.expiry) * nsPerSec := by simpa using hst
                      omega
              · subst h; left; rfl
            · (repeat' (first | (simp only at h) | (split at h))) <;>
                (subst h; left; first | rfl | (simp only; split <;> rfl))

theorem stepNode_zombies (s : State) (n : NodeAnn) : (stepNode s n).st.g.zombies = s.g.zombies := by
  unfold stepNode
  (repeat' split) <;> rfl

/-! ### dispatch and replays -/

theorem dispatch_cu_snd (cfg : Cfg) (now : Nat) (s : State) (p : Peer) (u : ChanUpd) :
    (dispatch cfg now s p (.cu u)).2 = false := by
  unfold dispatch; split <;> rfl

theorem dispatch_na_snd (cfg : Cfg) (now : Nat) (s : State) (p : Peer) (n : NodeAnn) :
    (dispatch cfg now s p (.na n)).2 = false := by
  unfold dispatch; split <;> rfl

/-- a channel update going through the pipeline (first time or replayed from the premature cache) -/
theorem dispatch_cu_spec (cfg : Cfg) (now : Nat) (s : State) (p : Peer) (u : ChanUpd) :
    (dispatch cfg now s p (.cu u)).1.st.g.chans = s.g.chans ∧
    (dispatch cfg now s p (.cu u)).1.st.g.nodes = s.g.nodes ∧
    (((dispatch cfg now s p (.cu u)).1.st.g.pols = s.g.pols ∧
        (dispatch cfg now s p (.cu u)).1.relay = []) ∨
     (UpdAuthentic cfg now s.g.chans u ∧ UpdFresh s.g.pols u ∧
      (dispatch cfg now s p (.cu u)).1.st.g.pols = upsert (u.scid, dirOf u.cf) u.policy s.g.pols ∧
      (dispatch cfg now s p (.cu u)).1.relay = [.cu u] ∧
      (dispatch cfg now s p (.cu u)).1.res = .ok)) := by
  unfold dispatch
  split
  · simp
  · exact stepUpd_spec cfg now s p u

theorem dispatch_na_spec (cfg : Cfg) (now : Nat) (s : State) (p : Peer) (n : NodeAnn) :
    (dispatch cfg now s p (.na n)).1 = stepNode s n := by
  unfold dispatch
  simp [rejected]

def stepAcc (cfg : Cfg) (now : Nat) (acc : Acc) (pu : Peer × ChanUpd) : Acc :=
  ⟨(dispatch cfg now acc.st pu.1 (.cu pu.2)).1.st,
   acc.relay ++ (dispatch cfg now acc.st pu.1 (.cu pu.2)).1.relay,
   acc.replayed ++ [(.cu pu.2, (dispatch cfg now acc.st pu.1 (.cu pu.2)).1.res)]⟩

theorem runUpdates_cons (cfg : Cfg) (now : Nat) (acc : Acc) (x : Peer × ChanUpd)
    (xs : List (Peer × ChanUpd)) :
    runUpdates cfg now acc (x :: xs) = runUpdates cfg now (stepAcc cfg now acc x) xs := rfl

theorem runUpdates_nil (cfg : Cfg) (now : Nat) (acc : Acc) : runUpdates cfg now acc [] = acc := rfl

/-- Replaying cached updates: channels and nodes are untouched; every policy that ends up different
    is the policy of one of the replayed updates, which is authentic (w.r.t. the channels known
    now) and strictly newer than what was stored before the replay; only such updates are relayed. -/
theorem runUpdates_spec (cfg : Cfg) (now : Nat) (l : List (Peer × ChanUpd)) :
    ∀ acc : Acc,
      (runUpdates cfg now acc l).st.g.chans = acc.st.g.chans ∧
      (runUpdates cfg now acc l).st.g.nodes = acc.st.g.nodes ∧
      (∀ k, lookup k (runUpdates cfg now acc l).st.g.pols = lookup k acc.st.g.pols ∨
        ∃ pu, pu ∈ l ∧ (pu.2.scid, dirOf pu.2.cf) = k ∧
          lookup k (runUpdates cfg now acc l).st.g.pols = some pu.2.policy ∧
          UpdAuthentic cfg now acc.st.g.chans pu.2 ∧ UpdFresh acc.st.g.pols pu.2) ∧
      (∃ rel, (runUpdates cfg now acc l).relay = acc.relay ++ rel ∧
        ∀ x, x ∈ rel → ∃ pu, pu ∈ l ∧ x = .cu pu.2 ∧ UpdAuthentic cfg now acc.st.g.chans pu.2) := by
  induction l with
  | nil =>
    intro acc
    refine ⟨rfl, rfl, fun k => Or.inl rfl, [], by simp [runUpdates_nil], by simp⟩
  | cons x xs ih =>
    intro acc
    rw [runUpdates_cons]
    obtain ⟨ihc, ihn, ihp, rel', ihr, ihrel⟩ := ih (stepAcc cfg now acc x)
    obtain ⟨dc, dn, dp⟩ := dispatch_cu_spec cfg now acc.st x.1 x.2
    have hc : (stepAcc cfg now acc x).st.g.chans = acc.st.g.chans := dc
    have hn : (stepAcc cfg now acc x).st.g.nodes = acc.st.g.nodes := dn
    refine ⟨by rw [ihc, hc], by rw [ihn, hn], ?_, ?_⟩
    · intro k
      rcases dp with ⟨hp, _⟩ | ⟨hauth, hfresh, hp, _, _⟩
      · -- x changed nothing
        have hp' : (stepAcc cfg now acc x).st.g.pols = acc.st.g.pols := hp
        rcases ihp k with h | ⟨pu, hmem, hk, hl, ha, hf⟩
        · left; rw [h, hp']
        · right
          refine ⟨pu, List.mem_cons_of_mem _ hmem, hk, hl, ?_, ?_⟩
          · rw [hc] at ha; exact ha
          · rw [hp'] at hf; exact hf
      · -- x was applied
        have hp' : (stepAcc cfg now acc x).st.g.pols =
            upsert (x.2.scid, dirOf x.2.cf) x.2.policy acc.st.g.pols := hp
        rcases ihp k with h | ⟨pu, hmem, hk, hl, ha, hf⟩
        · by_cases hk : (x.2.scid, dirOf x.2.cf) = k
          · right
            refine ⟨x, List.mem_cons_self, hk, ?_, hauth, hfresh⟩
            rw [h, hp', ← hk, lookup_upsert_self]
          · left
            rw [h, hp']
            exact lookup_upsert_ne _ _ (fun e => hk e.symm)
        · right
          refine ⟨pu, List.mem_cons_of_mem _ hmem, hk, hl, ?_, ?_⟩
          · rw [hc] at ha; exact ha
          · intro old hold
            by_cases hk2 : (pu.2.scid, dirOf pu.2.cf) = (x.2.scid, dirOf x.2.cf)
            · have h1 := hf x.2.policy (by rw [hp', hk2, lookup_upsert_self])
              have h2 := hfresh old (by rw [← hk2]; exact hold)
              have : x.2.policy.ts = x.2.ts := rfl
              omega
            · exact hf old (by rw [hp', lookup_upsert_ne _ _ hk2]; exact hold)
    · have hrel : (stepAcc cfg now acc x).relay =
          acc.relay ++ (dispatch cfg now acc.st x.1 (.cu x.2)).1.relay := rfl
      refine ⟨(dispatch cfg now acc.st x.1 (.cu x.2)).1.relay ++ rel', by
        rw [ihr, hrel, List.append_assoc], ?_⟩
      intro y hy
      rcases List.mem_append.1 hy with hy | hy
      · rcases dp with ⟨_, hr⟩ | ⟨hauth, _, _, hr, _⟩
        · rw [hr] at hy; cases hy
        · rw [hr] at hy
          have : y = .cu x.2 := by simpa using hy
          exact ⟨x, List.mem_cons_self, this, hauth⟩
      · obtain ⟨pu, hmem, hy', ha⟩ := ihrel y hy
        exact ⟨pu, List.mem_cons_of_mem _ hmem, hy', by rw [hc] at ha; exact ha⟩

theorem dispatch_cu_zombies (cfg : Cfg) (now : Nat) (s : State) (p : Peer) (u : ChanUpd) :
    (dispatch cfg now s p (.cu u)).1.st.g.zombies = s.g.zombies ∨
    (ZombieResurrect cfg now (lookup u.scid s.g.zombies) u ∧
      (dispatch cfg now s p (.cu u)).1.st.g.zombies = erase u.scid s.g.zombies) := by
  unfold dispatch
  split
  · left; rfl
  · exact stepUpd_zombies cfg now s p u

/-- replayed cached updates change the zombie index only by authenticated resurrection -/
theorem runUpdates_zombies (cfg : Cfg) (now : Nat) (l : List (Peer × ChanUpd)) :
    ∀ (acc : Acc) (c : Scid),
      lookup c (runUpdates cfg now acc l).st.g.zombies = lookup c acc.st.g.zombies ∨
      ∃ pu, pu ∈ l ∧ pu.2.scid = c ∧
        ZombieResurrect cfg now (lookup c acc.st.g.zombies) pu.2 ∧
        lookup c (runUpdates cfg now acc l).st.g.zombies = none := by
  induction l with
  | nil => intro acc c; left; rfl
  | cons x xs ih =>
    intro acc c
    rw [runUpdates_cons]
    have hd := dispatch_cu_zombies cfg now acc.st x.1 x.2
    have hz : (stepAcc cfg now acc x).st.g.zombies =
        (dispatch cfg now acc.st x.1 (.cu x.2)).1.st.g.zombies := rfl
    rcases ih (stepAcc cfg now acc x) c with h | ⟨pu, hmem, hs, hr, hl⟩
    · rcases hd with hd | ⟨hres, hd⟩
      · left; rw [h, hz, hd]
      · by_cases hc : x.2.scid = c
        · right
          refine ⟨x, List.mem_cons_self, hc, by rw [← hc]; exact hres, ?_⟩
          rw [h, hz, hd, ← hc, lookup_erase_self]
        · left
          rw [h, hz, hd, lookup_erase_ne _ (fun e => hc e.symm)]
    · right
      refine ⟨pu, List.mem_cons_of_mem _ hmem, hs, ?_, hl⟩
      rcases hd with hd | ⟨_, hd⟩
      · rw [hz, hd] at hr; exact hr
      · by_cases hc : x.2.scid = c
        · rw [hz, hd, ← hc, lookup_erase_self] at hr
          obtain ⟨ks, hks, _⟩ := hr
          cases hks
        · rw [hz, hd, lookup_erase_ne _ (fun e => hc e.symm)] at hr; exact hr

/-- what a channel announcement (with the replay it may trigger) can do to the zombie index -/
theorem submit_ca_zombies (cfg : Cfg) (now : Nat) (s : State) (p : Peer) (a : ChanAnn) (c : Scid) :
    lookup c (submit cfg now s p (.ca a)).2.st.g.zombies = lookup c s.g.zombies ∨
    (a.scid = c ∧ a.chain = 0 ∧ CaSigned a ∧ cfg.assumeValid = false ∧ BadFunding s a ∧
      lookup c (submit cfg now s p (.ca a)).2.st.g.zombies = some (0, 0)) ∨
    (∃ pu, pu ∈ (lookup a.scid s.premature).getD [] ∧ pu.2.scid = c ∧
      ZombieResurrect cfg now (lookup c s.g.zombies) pu.2 ∧
      lookup c (submit cfg now s p (.ca a)).2.st.g.zombies = none) := by
  simp only [submit]
  split
  · left; rfl
  · simp only [submitCore, dispatch]
    split
    · left; rfl
    · rcases stepCa_spec cfg s p a with ⟨h2, _⟩ | ⟨h2, _, _, _, v, _, hst, hr, _⟩
      · -- not added: only the announcement itself can have marked its scid
        have hz := stepCa_zombies cfg s p a
        generalize stepCa cfg s p a = d at h2 hz ⊢
        obtain ⟨o, b⟩ := d
        simp only at h2 hz
        subst h2
        simp only [Bool.false_eq_true, if_false]
        rcases hz with hz | ⟨_, hch, hsg, hav, hbad, hz⟩
        · left; rw [hz]
        · by_cases hc : a.scid = c
          · right; left
            exact ⟨hc, hch, hsg, hav, hbad, by rw [hz, ← hc, lookup_upsert_self]⟩
          · left; rw [hz, lookup_upsert_ne _ _ (fun e => hc e.symm)]
      · generalize stepCa cfg s p a = d at h2 hst hr ⊢
        obtain ⟨o, b⟩ := d
        simp only at h2 hst hr
        subst h2
        simp only [if_true, hst, hr, msgScid, State.addChan]
        rcases runUpdates_zombies cfg now ((lookup a.scid s.premature).getD [])
          ⟨{ (s.addChan a v) with premature := erase a.scid s.premature }, [.ca a], []⟩ c with
          h | ⟨pu, hmem, hs, hres, hl⟩
        · left; exact h
        · right; right; exact ⟨pu, hmem, hs, hres, hl⟩

/-! ### `submit` unfolded per message kind -/

theorem submit_cu (cfg : Cfg) (now : Nat) (s : State) (p : Peer) (u : ChanUpd) :
    submit cfg now s p (.cu u) =
      ((dispatch cfg now s p (.cu u)).1.res,
        ⟨(dispatch cfg now s p (.cu u)).1.st, (dispatch cfg now s p (.cu u)).1.relay, []⟩) := by
  have h := dispatch_cu_snd cfg now s p u
  simp only [submit, submitCore]
  generalize dispatch cfg now s p (.cu u) = d at h ⊢
  obtain ⟨o, b⟩ := d
  simp only at h
  subst h
  simp

theorem submit_na (cfg : Cfg) (now : Nat) (s : State) (p : Peer) (n : NodeAnn) :
    submit cfg now s p (.na n) =
      ((stepNode s n).res, ⟨(stepNode s n).st, (stepNode s n).relay, []⟩) := by
  have h := dispatch_na_snd cfg now s p n
  have h2 := dispatch_na_spec cfg now s p n
  simp only [submit, submitCore]
  generalize dispatch cfg now s p (.na n) = d at h h2 ⊢
  obtain ⟨o, b⟩ := d
  simp only at h h2
  subst h h2
  simp

/-- A channel announcement either leaves the graph core alone and relays nothing, or is fully
    authentic, adds exactly its channel and then replays the updates cached for that channel. -/
theorem submit_ca_cases (cfg : Cfg) (now : Nat) (s : State) (p : Peer) (a : ChanAnn) :
    ((submit cfg now s p (.ca a)).2.st.g.chans = s.g.chans ∧
      (submit cfg now s p (.ca a)).2.st.g.pols = s.g.pols ∧
      (submit cfg now s p (.ca a)).2.st.g.nodes = s.g.nodes ∧
      (submit cfg now s p (.ca a)).2.relay = []) ∨
    (a.chain = 0 ∧ CaSigned a ∧ lookup a.scid s.g.chans = none ∧
      ∃ v, ((cfg.assumeValid = true ∧ v = 0) ∨ (cfg.assumeValid = false ∧ FundingOk s a v)) ∧
        (submit cfg now s p (.ca a)).2 =
          runUpdates cfg now
            ⟨{ (s.addChan a v) with premature := erase a.scid s.premature }, [.ca a], []⟩
            ((lookup a.scid s.premature).getD [])) := by
  simp only [submit]
  split
  · left; simp
  · simp only [submitCore, dispatch]
    split
    · left; simp
    · rcases stepCa_spec cfg s p a with ⟨h2, hc, hp, hn, _, hr⟩ | ⟨h2, hch, hsig, hkn, v, hv, hst, hr, _⟩
      · left
        generalize stepCa cfg s p a = d at h2 hc hp hn hr ⊢
        obtain ⟨o, b⟩ := d
        simp only at h2 hc hp hn hr
        subst h2
        simp [hc, hp, hn, hr]
      · right
        refine ⟨hch, hsig, hkn, v, hv, ?_⟩
        generalize stepCa cfg s p a = d at h2 hst hr ⊢
        obtain ⟨o, b⟩ := d
        simp only at h2 hst hr
        subst h2
        simp [hst, hr, msgScid, State.addChan]

end LndModel.C20
