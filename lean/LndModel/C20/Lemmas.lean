/-
C20 — helper lemmas: finite maps, symbolic signatures, digest injectivity and the per-handler
characterisations (`stepCa_spec`, `stepUpd_spec`, `stepNode_spec`) the property theorems use.
-/
import LndModel.C20.Model

namespace LndModel.C20

/-! ### association lists -/

section maps
variable {κ α : Type} [DecidableEq κ]

theorem lookup_upsert_self (k : κ) (v : α) (l : List (κ × α)) :
    lookup k (upsert k v l) = some v := by
  induction l with
  | nil => simp [upsert, lookup]
  | cons x r ih =>
    obtain ⟨k', v'⟩ := x
    by_cases h : k' = k
    · simp [upsert, lookup, h]
    · simp [upsert, lookup, h, ih]

theorem lookup_upsert_ne {k k' : κ} (v : α) (l : List (κ × α)) (h : k' ≠ k) :
    lookup k' (upsert k v l) = lookup k' l := by
  induction l with
  | nil =>
    have : ¬ k = k' := fun e => h e.symm
    simp [upsert, lookup, this]
  | cons x r ih =>
    obtain ⟨k2, v2⟩ := x
    by_cases h2 : k2 = k
    · subst h2
      have : ¬ k2 = k' := fun e => h e.symm
      simp [upsert, lookup, this]
    · simp only [upsert, h2, if_false, lookup]
      split
      · rfl
      · exact ih

theorem lookup_append_single (k k2 : κ) (v : α) (l : List (κ × α)) :
    lookup k (l ++ [(k2, v)]) =
      match lookup k l with
      | some x => some x
      | none => if k2 = k then some v else none := by
  induction l with
  | nil => simp [lookup]
  | cons x r ih =>
    obtain ⟨k3, v3⟩ := x
    by_cases h : k3 = k
    · simp [lookup, h]
    · simp [lookup, h, ih]

end maps

theorem lookup_addShell (k k' : Key) (l : List (Key × NodeInfo)) :
    lookup k' (addShell k l) =
      match lookup k' l with
      | some x => some x
      | none => if k = k' then some ⟨0, none⟩ else none := by
  unfold addShell
  cases hk : lookup k l with
  | some x =>
    simp only
    cases hk' : lookup k' l with
    | some y => rfl
    | none =>
      by_cases e : k = k'
      · subst e; rw [hk] at hk'; cases hk'
      · simp [e]
  | none =>
    simp only
    rw [lookup_append_single]
    cases lookup k' l <;> rfl

/-! ### symbolic signatures -/

theorem verify_iff (k : Key) (d : Digest) (s : Sig) : verify k d s = true ↔ s = Sig.mk k d := by
  simp [verify]

theorem verify_false_iff (k : Key) (d : Digest) (s : Sig) :
    verify k d s = false ↔ s ≠ Sig.mk k d := by
  simp [verify]

/-- a signature verifies under at most one (key, digest) pair -/
theorem sig_unique {k k' : Key} {d d' : Digest} (h : Sig.mk k d = Sig.mk k' d') : k = k' ∧ d = d' := by
  cases h; exact ⟨rfl, rfl⟩

/-! ### digest injectivity (`DataToSign` covers exactly these fields) -/

theorem ChanAnn.digest_eq_iff (a b : ChanAnn) :
    a.digest = b.digest ↔
      a.chain = b.chain ∧ a.scid = b.scid ∧ a.n1 = b.n1 ∧ a.n2 = b.n2 ∧ a.b1 = b.b1 ∧
      a.b2 = b.b2 ∧ a.feat = b.feat ∧ a.extra = b.extra := by
  simp [ChanAnn.digest]

theorem ChanUpd.digest_eq_iff (a b : ChanUpd) :
    a.digest = b.digest ↔
      a.chain = b.chain ∧ a.scid = b.scid ∧ a.ts = b.ts ∧ a.mf = b.mf ∧ a.cf = b.cf ∧
      a.tld = b.tld ∧ a.min = b.min ∧ a.base = b.base ∧ a.rate = b.rate ∧
      (if hasMax a.mf then a.max else 0) = (if hasMax b.mf then b.max else 0) ∧
      a.extra = b.extra := by
  simp [ChanUpd.digest]

theorem NodeAnn.digest_eq_iff (a b : NodeAnn) :
    a.digest = b.digest ↔ a.node = b.node ∧ a.ts = b.ts ∧ a.fields = b.fields := by
  simp [NodeAnn.digest]

/-! ### specification predicates -/

/-- all four signatures verify over the announcement digest under the four stated keys -/
def CaSigned (a : ChanAnn) : Prop :=
  a.bs1 = Sig.mk a.b1 a.digest ∧ a.bs2 = Sig.mk a.b2 a.digest ∧
  a.ns1 = Sig.mk a.n1 a.digest ∧ a.ns2 = Sig.mk a.n2 a.digest

/-- the funding output named by the scid exists, is unspent, carries `v` satoshi and pays to the
    2-of-2 of the announcement's bitcoin keys -/
def FundingOk (s : State) (a : ChanAnn) (v : Nat) : Prop :=
  chainLookup s.chain a.scid = .out a.fundingScript v 0

theorem sigsOk_iff (a : ChanAnn) : a.sigsOk = true ↔ CaSigned a := by
  simp only [ChanAnn.sigsOk, Bool.and_eq_true, verify_iff, CaSigned, and_assoc]

/-- the update is on our chain, non-zero and not too far in the future, names a known channel,
    is signed by the node owning its direction and has consistent fields -/
def UpdAuthentic (cfg : Cfg) (now : Nat) (chans : List (Scid × ChanInfo)) (u : ChanUpd) : Prop :=
  u.chain = 0 ∧ u.ts ≠ 0 ∧ u.ts * nsPerSec ≤ now + cfg.expiry * nsPerSec ∧
  ∃ ci, lookup u.scid chans = some ci ∧ u.sig = Sig.mk (owner ci (dirOf u.cf)) u.digest ∧
    fieldsOk ci.cap u = true

def UpdFresh (pols : List ((Scid × Nat) × Policy)) (u : ChanUpd) : Prop :=
  ∀ old, lookup (u.scid, dirOf u.cf) pols = some old → old.ts < u.ts

def NodeAuthenticFresh (nodes : List (Key × NodeInfo)) (n : NodeAnn) : Prop :=
  n.sig = Sig.mk n.node n.digest ∧ n.ts ≠ 0 ∧ ∃ old, lookup n.node nodes = some old ∧ old.ts < n.ts

/-! ### handler characterisations -/

theorem known_false {g : Graph} {c : Scid} (h : g.known c = false) : lookup c g.chans = none := by
  unfold Graph.known at h
  cases hc : lookup c g.chans with
  | none => rfl
  | some x => simp [hc] at h

/-- `handleChanAnnouncement`: either nothing of the graph core changes and nothing is relayed, or
    the announcement is fully authentic and exactly this channel is added. -/
theorem stepCa_spec (cfg : Cfg) (s : State) (p : Peer) (a : ChanAnn) :
    ((stepCa cfg s p a).2 = false ∧ (stepCa cfg s p a).1.st.g.chans = s.g.chans ∧
      (stepCa cfg s p a).1.st.g.pols = s.g.pols ∧ (stepCa cfg s p a).1.st.g.nodes = s.g.nodes ∧
      (stepCa cfg s p a).1.st.premature = s.premature ∧
      (stepCa cfg s p a).1.relay = []) ∨
    ((stepCa cfg s p a).2 = true ∧ a.chain = 0 ∧ CaSigned a ∧ lookup a.scid s.g.chans = none ∧
      ∃ v, ((cfg.assumeValid = true ∧ v = 0) ∨ (cfg.assumeValid = false ∧ FundingOk s a v)) ∧
        (stepCa cfg s p a).1.st = s.addChan a v ∧ (stepCa cfg s p a).1.relay = [.ca a] ∧
        (stepCa cfg s p a).1.res = .ok) := by
  generalize h : stepCa cfg s p a = r
  unfold stepCa at h
  split at h
  · subst h; left; simp [State.addReject]
  · rename_i hchain
    split at h
    · subst h; left; simp
    · split at h
      · subst h; left; simp
      · rename_i hknown
        split at h
        · subst h; left; simp
        · split at h
          · subst h; left; simp [State.addReject]
          · rename_i hsig
            have hsig' : CaSigned a := by
              have : a.sigsOk = true := by simpa using hsig
              exact (sigsOk_iff a).1 this
            have hch : a.chain = 0 := by simpa using hchain
            have hkn : lookup a.scid s.g.chans = none := known_false (by simpa using hknown)
            split at h
            · rename_i hav
              subst h
              right
              exact ⟨rfl, hch, hsig', hkn, 0, Or.inl ⟨hav, rfl⟩, rfl, rfl, rfl⟩
            · rename_i hav
              split at h
              · subst h; left; split <;> simp [State.addReject, State.markZombie]
              · subst h; left; simp [State.addReject, State.markZombie]
              · rename_i sc v sp hlk
                split at h
                · subst h; left; simp [State.addReject, State.markZombie]
                · rename_i hsc
                  split at h
                  · subst h; left; simp [State.addReject, State.markZombie]
                  · split at h
                    · subst h; left; simp [State.addReject]
                    · rename_i hsp1 hsp0
                      subst h
                      right
                      have hsp : sp = 0 := by simpa using hsp0
                      have hsc' : sc = a.fundingScript := by simpa using hsc
                      refine ⟨rfl, hch, hsig', hkn, v, Or.inr ⟨by simpa using hav, ?_⟩, rfl, rfl, rfl⟩
                      unfold FundingOk
                      rw [hlk, hsc', hsp]

/-- `handleChanUpdate` never touches channels or nodes; a policy changes (and the update is
    relayed) only for an authentic, strictly newer update, and then to exactly that update. -/
theorem stepUpd_spec (cfg : Cfg) (now : Nat) (s : State) (p : Peer) (u : ChanUpd) :
    (stepUpd cfg now s p u).st.g.chans = s.g.chans ∧
    (stepUpd cfg now s p u).st.g.nodes = s.g.nodes ∧
    (((stepUpd cfg now s p u).st.g.pols = s.g.pols ∧ (stepUpd cfg now s p u).relay = []) ∨
     (UpdAuthentic cfg now s.g.chans u ∧ UpdFresh s.g.pols u ∧
      (stepUpd cfg now s p u).st.g.pols = upsert (u.scid, dirOf u.cf) u.policy s.g.pols ∧
      (stepUpd cfg now s p u).relay = [.cu u] ∧ (stepUpd cfg now s p u).res = .ok)) := by
  generalize h : stepUpd cfg now s p u = r
  unfold stepUpd at h
  split at h
  · subst h; simp [State.addReject]
  · rename_i hchain
    split at h
    · subst h; simp
    · split at h
      · subst h; simp
      · rename_i hts
        split at h
        · subst h; simp
        · rename_i hstale
          split at h
          · subst h; simp
          · rename_i hskew
            split at h
            · -- unknown channel
              split at h
              · split at h
                · subst h; simp
                · split at h
                  · subst h; simp
                  · subst h; simp [State.cachePremature]
              · subst h; simp [State.cachePremature]
            · rename_i ci hci
              split at h
              · subst h; simp
              · rename_i hfields
                split at h
                · subst h; simp
                · rename_i hsigv
                  have hch : u.chain = 0 := by simpa using hchain
                  have hsk : u.ts * nsPerSec ≤ now + cfg.expiry * nsPerSec := by omega
                  have hf : fieldsOk ci.cap u = true := by simpa using hfields
                  have hsg : u.sig = Sig.mk (owner ci (dirOf u.cf)) u.digest := by
                    have : verify (owner ci (dirOf u.cf)) u.digest u.sig = true := by
                      simpa using hsigv
                    exact (verify_iff _ _ _).1 this
                  have hauth : UpdAuthentic cfg now s.g.chans u :=
                    ⟨hch, hts, hsk, ci, hci, hsg, hf⟩
                  have hfresh : UpdFresh s.g.pols u := by
                    intro old hold
                    have hst : staleUpd cfg now s.g u = false := by simpa using hstale
                    unfold staleUpd at hst
                    rw [hci] at hst
                    simp only [hold] at hst
                    have : ¬ u.ts ≤ old.ts := by simpa using hst
                    omega
                  split at h
                  · subst h
                    exact ⟨rfl, rfl, Or.inr ⟨hauth, hfresh, rfl, rfl, rfl⟩⟩
                  · split at h
                    · split at h
                      · subst h; simp
                      · subst h
                        exact ⟨rfl, rfl, Or.inr ⟨hauth, hfresh, rfl, rfl, rfl⟩⟩
                    · simp only at h
                      split at h
                      · subst h
                        exact ⟨rfl, rfl, Or.inr ⟨hauth, hfresh, rfl, rfl, rfl⟩⟩
                      · subst h; simp

/-- `handleNodeAnnouncement` never touches channels or policies; a node record changes only for an
    announcement signed by that node, strictly newer than the stored one, for a node already in
    the graph; it is relayed only in that case. -/
theorem stepNode_spec (s : State) (n : NodeAnn) :
    (stepNode s n).st.g.chans = s.g.chans ∧ (stepNode s n).st.g.pols = s.g.pols ∧
    (((stepNode s n).st.g.nodes = s.g.nodes ∧ (stepNode s n).relay = []) ∨
     (NodeAuthenticFresh s.g.nodes n ∧
      (stepNode s n).st.g.nodes = upsert n.node ⟨n.ts, some n.fields⟩ s.g.nodes ∧
      (stepNode s n).res = .ok ∧ ((stepNode s n).relay = [] ∨ (stepNode s n).relay = [.na n]))) := by
  generalize h : stepNode s n = r
  unfold stepNode at h
  split at h
  · subst h; simp
  · rename_i hts
    split at h
    · subst h; simp
    · rename_i old hold
      split at h
      · subst h; simp
      · rename_i hnew
        split at h
        · subst h; simp
        · rename_i hsigv
          have hsg : n.sig = Sig.mk n.node n.digest := by
            have : verify n.node n.digest n.sig = true := by simpa using hsigv
            exact (verify_iff _ _ _).1 this
          subst h
          refine ⟨rfl, rfl, Or.inr ⟨⟨hsg, hts, old, hold, by omega⟩, rfl, rfl, ?_⟩⟩
          simp only
          split <;> simp

/-! ### dispatch and replays -/

theorem dispatch_cu_snd (cfg : Cfg) (now : Nat) (s : State) (p : Peer) (u : ChanUpd) :
    (dispatch cfg now s p (.cu u)).2 = false := by
  unfold dispatch; split <;> rfl

theorem dispatch_na_snd (cfg : Cfg) (now : Nat) (s : State) (p : Peer) (n : NodeAnn) :
    (dispatch cfg now s p (.na n)).2 = false := by
  unfold dispatch; split <;> rfl

/-- a channel update going through the pipeline (first time or replayed from the premature cache) -/
theorem dispatch_cu_spec (cfg : Cfg) (now : Nat) (s : State) (p : Peer) (u : ChanUpd) :
    (dispatch cfg now s p (.cu u)).1.st.g.chans = s.g.chans ∧
    (dispatch cfg now s p (.cu u)).1.st.g.nodes = s.g.nodes ∧
    (((dispatch cfg now s p (.cu u)).1.st.g.pols = s.g.pols ∧
        (dispatch cfg now s p (.cu u)).1.relay = []) ∨
     (UpdAuthentic cfg now s.g.chans u ∧ UpdFresh s.g.pols u ∧
      (dispatch cfg now s p (.cu u)).1.st.g.pols = upsert (u.scid, dirOf u.cf) u.policy s.g.pols ∧
      (dispatch cfg now s p (.cu u)).1.relay = [.cu u] ∧
      (dispatch cfg now s p (.cu u)).1.res = .ok)) := by
  unfold dispatch
  split
  · simp
  · exact stepUpd_spec cfg now s p u

theorem dispatch_na_spec (cfg : Cfg) (now : Nat) (s : State) (p : Peer) (n : NodeAnn) :
    (dispatch cfg now s p (.na n)).1 = stepNode s n := by
  unfold dispatch
  simp [rejected]

def stepAcc (cfg : Cfg) (now : Nat) (acc : Acc) (pu : Peer × ChanUpd) : Acc :=
  ⟨(dispatch cfg now acc.st pu.1 (.cu pu.2)).1.st,
   acc.relay ++ (dispatch cfg now acc.st pu.1 (.cu pu.2)).1.relay,
   acc.replayed ++ [(.cu pu.2, (dispatch cfg now acc.st pu.1 (.cu pu.2)).1.res)]⟩

theorem runUpdates_cons (cfg : Cfg) (now : Nat) (acc : Acc) (x : Peer × ChanUpd)
    (xs : List (Peer × ChanUpd)) :
    runUpdates cfg now acc (x :: xs) = runUpdates cfg now (stepAcc cfg now acc x) xs := rfl

theorem runUpdates_nil (cfg : Cfg) (now : Nat) (acc : Acc) : runUpdates cfg now acc [] = acc := rfl

/-- Replaying cached updates: channels and nodes are untouched; every policy that ends up different
    is the policy of one of the replayed updates, which is authentic (w.r.t. the channels known
    now) and strictly newer than what was stored before the replay; only such updates are relayed. -/
theorem runUpdates_spec (cfg : Cfg) (now : Nat) (l : List (Peer × ChanUpd)) :
    ∀ acc : Acc,
      (runUpdates cfg now acc l).st.g.chans = acc.st.g.chans ∧
      (runUpdates cfg now acc l).st.g.nodes = acc.st.g.nodes ∧
      (∀ k, lookup k (runUpdates cfg now acc l).st.g.pols = lookup k acc.st.g.pols ∨
        ∃ pu, pu ∈ l ∧ (pu.2.scid, dirOf pu.2.cf) = k ∧
          lookup k (runUpdates cfg now acc l).st.g.pols = some pu.2.policy ∧
          UpdAuthentic cfg now acc.st.g.chans pu.2 ∧ UpdFresh acc.st.g.pols pu.2) ∧
      (∃ rel, (runUpdates cfg now acc l).relay = acc.relay ++ rel ∧
        ∀ x, x ∈ rel → ∃ pu, pu ∈ l ∧ x = .cu pu.2 ∧ UpdAuthentic cfg now acc.st.g.chans pu.2) := by
  induction l with
  | nil =>
    intro acc
    refine ⟨rfl, rfl, fun k => Or.inl rfl, [], by simp [runUpdates_nil], by simp⟩
  | cons x xs ih =>
    intro acc
    rw [runUpdates_cons]
    obtain ⟨ihc, ihn, ihp, rel', ihr, ihrel⟩ := ih (stepAcc cfg now acc x)
    obtain ⟨dc, dn, dp⟩ := dispatch_cu_spec cfg now acc.st x.1 x.2
    have hc : (stepAcc cfg now acc x).st.g.chans = acc.st.g.chans := dc
    have hn : (stepAcc cfg now acc x).st.g.nodes = acc.st.g.nodes := dn
    refine ⟨by rw [ihc, hc], by rw [ihn, hn], ?_, ?_⟩
    · intro k
      rcases dp with ⟨hp, _⟩ | ⟨hauth, hfresh, hp, _, _⟩
      · -- x changed nothing
        have hp' : (stepAcc cfg now acc x).st.g.pols = acc.st.g.pols := hp
        rcases ihp k with h | ⟨pu, hmem, hk, hl, ha, hf⟩
        · left; rw [h, hp']
        · right
          refine ⟨pu, List.mem_cons_of_mem _ hmem, hk, hl, ?_, ?_⟩
          · rw [hc] at ha; exact ha
          · rw [hp'] at hf; exact hf
      · -- x was applied
        have hp' : (stepAcc cfg now acc x).st.g.pols =
            upsert (x.2.scid, dirOf x.2.cf) x.2.policy acc.st.g.pols := hp
        rcases ihp k with h | ⟨pu, hmem, hk, hl, ha, hf⟩
        · by_cases hk : (x.2.scid, dirOf x.2.cf) = k
          · right
            refine ⟨x, List.mem_cons_self, hk, ?_, hauth, hfresh⟩
            rw [h, hp', ← hk, lookup_upsert_self]
          · left
            rw [h, hp']
            exact lookup_upsert_ne _ _ (fun e => hk e.symm)
        · right
          refine ⟨pu, List.mem_cons_of_mem _ hmem, hk, hl, ?_, ?_⟩
          · rw [hc] at ha; exact ha
          · intro old hold
            by_cases hk2 : (pu.2.scid, dirOf pu.2.cf) = (x.2.scid, dirOf x.2.cf)
            · have h1 := hf x.2.policy (by rw [hp', hk2, lookup_upsert_self])
              have h2 := hfresh old (by rw [← hk2]; exact hold)
              have : x.2.policy.ts = x.2.ts := rfl
              omega
            · exact hf old (by rw [hp', lookup_upsert_ne _ _ hk2]; exact hold)
    · have hrel : (stepAcc cfg now acc x).relay =
          acc.relay ++ (dispatch cfg now acc.st x.1 (.cu x.2)).1.relay := rfl
      refine ⟨(dispatch cfg now acc.st x.1 (.cu x.2)).1.relay ++ rel', by
        rw [ihr, hrel, List.append_assoc], ?_⟩
      intro y hy
      rcases List.mem_append.1 hy with hy | hy
      · rcases dp with ⟨_, hr⟩ | ⟨hauth, _, _, hr, _⟩
        · rw [hr] at hy; cases hy
        · rw [hr] at hy
          have : y = .cu x.2 := by simpa using hy
          exact ⟨x, List.mem_cons_self, this, hauth⟩
      · obtain ⟨pu, hmem, hy', ha⟩ := ihrel y hy
        exact ⟨pu, List.mem_cons_of_mem _ hmem, hy', by rw [hc] at ha; exact ha⟩

/-! ### `submit` unfolded per message kind -/

theorem submit_cu (cfg : Cfg) (now : Nat) (s : State) (p : Peer) (u : ChanUpd) :
    submit cfg now s p (.cu u) =
      ((dispatch cfg now s p (.cu u)).1.res,
        ⟨(dispatch cfg now s p (.cu u)).1.st, (dispatch cfg now s p (.cu u)).1.relay, []⟩) := by
  have h := dispatch_cu_snd cfg now s p u
  simp only [submit, submitCore]
  generalize dispatch cfg now s p (.cu u) = d at h ⊢
  obtain ⟨o, b⟩ := d
  simp only at h
  subst h
  simp

theorem submit_na (cfg : Cfg) (now : Nat) (s : State) (p : Peer) (n : NodeAnn) :
    submit cfg now s p (.na n) =
      ((stepNode s n).res, ⟨(stepNode s n).st, (stepNode s n).relay, []⟩) := by
  have h := dispatch_na_snd cfg now s p n
  have h2 := dispatch_na_spec cfg now s p n
  simp only [submit, submitCore]
  generalize dispatch cfg now s p (.na n) = d at h h2 ⊢
  obtain ⟨o, b⟩ := d
  simp only at h h2
  subst h h2
  simp

/-- A channel announcement either leaves the graph core alone and relays nothing, or is fully
    authentic, adds exactly its channel and then replays the updates cached for that channel. -/
theorem submit_ca_cases (cfg : Cfg) (now : Nat) (s : State) (p : Peer) (a : ChanAnn) :
    ((submit cfg now s p (.ca a)).2.st.g.chans = s.g.chans ∧
      (submit cfg now s p (.ca a)).2.st.g.pols = s.g.pols ∧
      (submit cfg now s p (.ca a)).2.st.g.nodes = s.g.nodes ∧
      (submit cfg now s p (.ca a)).2.relay = []) ∨
    (a.chain = 0 ∧ CaSigned a ∧ lookup a.scid s.g.chans = none ∧
      ∃ v, ((cfg.assumeValid = true ∧ v = 0) ∨ (cfg.assumeValid = false ∧ FundingOk s a v)) ∧
        (submit cfg now s p (.ca a)).2 =
          runUpdates cfg now
            ⟨{ (s.addChan a v) with premature := erase a.scid s.premature }, [.ca a], []⟩
            ((lookup a.scid s.premature).getD [])) := by
  simp only [submit]
  split
  · left; simp
  · simp only [submitCore, dispatch]
    split
    · left; simp
    · rcases stepCa_spec cfg s p a with ⟨h2, hc, hp, hn, _, hr⟩ | ⟨h2, hch, hsig, hkn, v, hv, hst, hr, _⟩
      · left
        generalize stepCa cfg s p a = d at h2 hc hp hn hr ⊢
        obtain ⟨o, b⟩ := d
        simp only at h2 hc hp hn hr
        subst h2
        simp [hc, hp, hn, hr]
      · right
        refine ⟨hch, hsig, hkn, v, hv, ?_⟩
        generalize stepCa cfg s p a = d at h2 hst hr ⊢
        obtain ⟨o, b⟩ := d
        simp only at h2 hst hr
        subst h2
        simp [hst, hr, msgScid, State.addChan]

end LndModel.C20
