/-
C20 — round-5 theorems: freshness and relay over whole block replays (premature / future-height
messages), the builder's trusted entry `AddEdge`, zombie pruning (`DeleteChannelEdges`,
`pruneZombieChans`) and who may resurrect a pruned channel.
-/
import LndModel.C20.Props

namespace LndModel.C20

/-! ### message-only histories: every policy change is an authentic, strictly newer update -/

/-- a submission never alters a channel that is already in the graph -/
theorem submit_chans_stable (cfg : Cfg) (now : Nat) (s : State) (p : Peer) (m : Msg) (c : Scid)
    (ci : ChanInfo) (h : lookup c s.g.chans = some ci) :
    lookup c (submit cfg now s p m).2.st.g.chans = some ci := by
  by_cases hsame : lookup c (submit cfg now s p m).2.st.g.chans = lookup c s.g.chans
  · rw [hsame]; exact h
  · obtain ⟨a, _, _, _, _, hnone⟩ := chan_ann_authentic_assume_valid cfg now s p m c hsame
    rw [h] at hnone; cases hnone

theorem UpdAuthentic.mono {cfg cfg' : Cfg} {now : Nat} {chans chans' : List (Scid × ChanInfo)}
    {u : ChanUpd} (hex : cfg'.expiry = cfg.expiry)
    (hst : ∀ c ci, lookup c chans = some ci → lookup c chans' = some ci)
    (h : UpdAuthentic cfg' now chans u) : UpdAuthentic cfg now chans' u := by
  obtain ⟨h1, h2, h3, ci, h4, h5⟩ := h
  exact ⟨h1, h2, by rw [← hex]; exact h3, ci, hst _ _ h4, h5⟩

/-- histories of remote messages (under configurations with the same validation switches) and
    block bookkeeping — what a block replay or a sequence of submissions is made of -/
inductive ReachM (cfg : Cfg) : State → State → Prop where
  | refl (s : State) : ReachM cfg s s
  | msg {s s1 : State} (cfg' : Cfg) (hav : cfg'.assumeValid = cfg.assumeValid)
      (hex : cfg'.expiry = cfg.expiry) (now : Nat) (p : Peer) (m : Msg) :
      ReachM cfg s s1 → ReachM cfg s (submit cfg' now s1 p m).2.st
  | tick {s s1 : State} (h : Nat) (f : List (Nat × (Peer × Msg))) :
      ReachM cfg s s1 → ReachM cfg s { s1 with height := h, future := f }

theorem ReachM.trans {cfg : Cfg} {a b c : State} (h1 : ReachM cfg a b) (h2 : ReachM cfg b c) :
    ReachM cfg a c := by
  induction h2 with
  | refl => exact h1
  | msg cfg' hav hex now p m _ ih => exact ReachM.msg cfg' hav hex now p m ih
  | tick h f _ ih => exact ReachM.tick h f ih

theorem reachM_chans_stable {cfg : Cfg} {s s' : State} (hr : ReachM cfg s s') (c : Scid)
    (ci : ChanInfo) (h : lookup c s.g.chans = some ci) : lookup c s'.g.chans = some ci := by
  induction hr with
  | refl => exact h
  | msg cfg' _ _ now p m _ ih => exact submit_chans_stable cfg' now _ p m c ci ih
  | tick _ _ _ ih => exact ih

/-- **Freshness over whole histories of messages and block replays.**  Whatever is submitted, cached
    as premature, queued for a future height and replayed later, in any order: if the policy stored
    for a channel direction differs at the end, it is the policy of an update that is signed by the
    node owning that direction of a channel known at the end, non-zero, not skewed (w.r.t. the clock
    of its step), with consistent fields, and **strictly newer than the policy stored at the start**. -/
theorem reachM_policy_fresh (cfg : Cfg) (s s' : State) (hr : ReachM cfg s s') (k : Scid × Nat) :
    lookup k s'.g.pols = lookup k s.g.pols ∨
    ∃ now u, lookup k s'.g.pols = some u.policy ∧ (u.scid, dirOf u.cf) = k ∧
      UpdAuthentic cfg now s'.g.chans u ∧ UpdFresh s.g.pols u := by
  induction hr with
  | refl => exact Or.inl rfl
  | tick h f _ ih => exact ih
  | @msg s1 cfg' hav hex now p m hr1 ih =>
    by_cases hsame : lookup k (submit cfg' now s1 p m).2.st.g.pols = lookup k s1.g.pols
    · rcases ih with ih | ⟨now1, u1, h1, hk1, ha1, hf1⟩
      · exact Or.inl (by rw [hsame, ih])
      · right
        refine ⟨now1, u1, by rw [hsame, h1], hk1, ?_, hf1⟩
        exact UpdAuthentic.mono rfl (fun c ci hc => submit_chans_stable cfg' now s1 p m c ci hc) ha1
    · obtain ⟨u, _, hk, hl, ha, hf⟩ := chan_update_authentic_fresh cfg' now s1 p m k hsame
      right
      refine ⟨now, u, hl, hk, UpdAuthentic.mono hex (fun _ _ h => h) ha, ?_⟩
      intro old hold
      rw [hk] at hold
      rcases ih with ih | ⟨now1, u1, h1, hk1, _, hf1⟩
      · exact hf old (by rw [hk, ih]; exact hold)
      · have hlt1 : old.ts < u1.ts := hf1 old (by rw [hk1]; exact hold)
        have hlt2 : u1.policy.ts < u.ts := hf u1.policy (by rw [hk]; exact h1)
        have : u1.policy.ts = u1.ts := rfl
        omega

/-- timestamps never go back along such histories -/
theorem reachM_policy_ts_monotone (cfg : Cfg) (s s' : State) (hr : ReachM cfg s s')
    (k : Scid × Nat) (old : Policy) (h : lookup k s.g.pols = some old) :
    ∃ new, lookup k s'.g.pols = some new ∧ old.ts ≤ new.ts := by
  rcases reachM_policy_fresh cfg s s' hr k with hs | ⟨_, u, hl, hk, _, hf⟩
  · exact ⟨old, by rw [hs]; exact h, Nat.le_refl _⟩
  · have := hf old (by rw [hk]; exact h)
    exact ⟨u.policy, hl, by show old.ts ≤ u.ts; omega⟩

theorem foldBlock_reachM (cfg : Cfg) (now : Nat) (l : List (Nat × (Peer × Msg))) :
    ∀ acc : Acc, ReachM cfg acc.st
      (l.foldl (fun (acc : Acc) (e : Nat × (Peer × Msg)) =>
        let (r, a) := submitCore cfg now acc.st e.2.1 e.2.2
        (⟨a.st, acc.relay ++ a.relay, acc.replayed ++ [(e.2.2, r)] ++ a.replayed⟩ : Acc))
        acc).st := by
  induction l with
  | nil => intro acc; exact ReachM.refl _
  | cons e es ih =>
    intro acc
    simp only [List.foldl]
    refine ReachM.trans ?_ (ih _)
    obtain ⟨cfg', hav, hex, heq⟩ := submitCore_eq_submit cfg now acc.st e.2.1 e.2.2
    rw [heq]
    exact ReachM.msg cfg' hav hex now e.2.1 e.2.2 (ReachM.refl _)

theorem newBlock_reachM (cfg : Cfg) (now : Nat) (s : State) (h : Nat) :
    ReachM cfg s (newBlock cfg now s h).st := by
  unfold newBlock
  exact ReachM.trans
    (ReachM.tick h (s.future.filter (fun e => ¬ e.1 ≤ h)) (ReachM.refl s))
    (foldBlock_reachM cfg now
      ((s.future.filter (fun e => e.1 ≤ h)).filter (fun e => isCa e.2.2) ++
        (s.future.filter (fun e => e.1 ≤ h)).filter (fun e => !isCa e.2.2))
      ⟨{ s with height := h, future := s.future.filter (fun e => ¬ e.1 ≤ h) }, [], []⟩)

/-- **A new block (replay of every matured future-height message, each followed by the replay of the
    premature updates waiting for it)** changes a policy only to an authentic update that is strictly
    newer than the policy stored before the block. -/
theorem newBlock_policy_fresh (cfg : Cfg) (now : Nat) (s : State) (h : Nat) (k : Scid × Nat) :
    lookup k (newBlock cfg now s h).st.g.pols = lookup k s.g.pols ∨
    ∃ now' u, lookup k (newBlock cfg now s h).st.g.pols = some u.policy ∧
      (u.scid, dirOf u.cf) = k ∧ UpdAuthentic cfg now' (newBlock cfg now s h).st.g.chans u ∧
      UpdFresh s.g.pols u :=
  reachM_policy_fresh cfg s _ (newBlock_reachM cfg now s h) k

/-- a block never alters or removes a channel that is in the graph -/
theorem newBlock_chans_stable (cfg : Cfg) (now : Nat) (s : State) (h : Nat) (c : Scid)
    (ci : ChanInfo) (hc : lookup c s.g.chans = some ci) :
    lookup c (newBlock cfg now s h).st.g.chans = some ci :=
  reachM_chans_stable (newBlock_reachM cfg now s h) c ci hc

/-! ### relays of a block replay -/

/-- one replayed future message (the body of `newBlock`'s fold) -/
def blockStep (cfg : Cfg) (now : Nat) (acc : Acc) (e : Nat × (Peer × Msg)) : Acc :=
  let (r, a) := submitCore cfg now acc.st e.2.1 e.2.2
  ⟨a.st, acc.relay ++ a.relay, acc.replayed ++ [(e.2.2, r)] ++ a.replayed⟩

theorem foldBlock_relay (cfg : Cfg) (now : Nat) (l : List (Nat × (Peer × Msg))) :
    ∀ (s0 : State) (acc : Acc), ReachM cfg s0 acc.st →
      ∀ x, x ∈ (l.foldl (blockStep cfg now) acc).relay →
      x ∈ acc.relay ∨ ∃ s1 cfg' p m, ReachM cfg s0 s1 ∧ cfg'.assumeValid = cfg.assumeValid ∧
        cfg'.expiry = cfg.expiry ∧ x ∈ (submit cfg' now s1 p m).2.relay := by
  induction l with
  | nil => intro s0 acc _ x hx; exact Or.inl hx
  | cons e es ih =>
    intro s0 acc hr x hx
    rw [List.foldl_cons] at hx
    obtain ⟨cfg', hav, hex, heq⟩ := submitCore_eq_submit cfg now acc.st e.2.1 e.2.2
    have hst : (blockStep cfg now acc e).st = (submit cfg' now acc.st e.2.1 e.2.2).2.st := by
      rw [← heq]; rfl
    have hrel : (blockStep cfg now acc e).relay =
        acc.relay ++ (submit cfg' now acc.st e.2.1 e.2.2).2.relay := by
      rw [← heq]; rfl
    have hr' : ReachM cfg s0 (blockStep cfg now acc e).st := by
      rw [hst]; exact ReachM.msg cfg' hav hex now e.2.1 e.2.2 hr
    rcases ih s0 (blockStep cfg now acc e) hr' x hx with h | h
    · rw [hrel] at h
      rcases List.mem_append.1 h with h | h
      · exact Or.inl h
      · exact Or.inr ⟨acc.st, cfg', e.2.1, e.2.2, hr, hav, hex, h⟩
    · exact Or.inr h

/-- **Nothing is relayed by a block replay unless accepted**: every message handed to the broadcast
    path while a new block is processed was relayed by the submission of one replayed message in
    some intermediate state `s1`, hence (`relayed_only_if_accepted`) is that message, `Accepted` in
    `s1`, or a cached premature update that is authentic for the channels known right after. -/
theorem newBlock_relayed_only_if_accepted (cfg : Cfg) (now : Nat) (s : State) (h : Nat) (x : Msg)
    (hx : x ∈ (newBlock cfg now s h).relay) :
    ∃ s1 cfg' p m, ReachM cfg s s1 ∧ cfg'.assumeValid = cfg.assumeValid ∧
      cfg'.expiry = cfg.expiry ∧
      ((x = m ∧ Accepted cfg' now s1 m) ∨
       (∃ a p' u, m = .ca a ∧ x = .cu u ∧ (p', u) ∈ (lookup a.scid s1.premature).getD [] ∧
          UpdAuthentic cfg' now (submit cfg' now s1 p m).2.st.g.chans u)) := by
  unfold newBlock at hx
  have hr0 : ReachM cfg s
      (⟨{ s with height := h, future := s.future.filter (fun e => ¬ e.1 ≤ h) }, [], []⟩ : Acc).st :=
    ReachM.tick h _ (ReachM.refl s)
  rcases foldBlock_relay cfg now _ s _ hr0 x hx with h0 | ⟨s1, cfg', p, m, hr, hav, hex, hm⟩
  · cases h0
  · exact ⟨s1, cfg', p, m, hr, hav, hex, relayed_only_if_accepted cfg' now s1 p m x hm⟩

/-! ### `Builder.AddEdge` (trusted entry) -/

/-- `Builder.AddEdge` never alters or replaces a channel that is live or in the zombie index; it
    stores exactly the record it was given for an unknown one and touches no policy. -/
theorem add_edge_direct_spec (s : State) (a : ChanAnn) (cap : Nat) :
    (addEdgeDirect s a cap).1.g.pols = s.g.pols ∧
    (addEdgeDirect s a cap).1.g.zombies = s.g.zombies ∧
    ((s.g.known a.scid = true ∧ (addEdgeDirect s a cap).1 = s) ∨
     (s.g.known a.scid = false ∧
      (addEdgeDirect s a cap).1.g.chans = upsert a.scid (a.info cap) s.g.chans)) := by
  unfold addEdgeDirect
  cases hk : s.g.known a.scid
  · simp [State.addChan]
  · simp

/-! ### zombie pruning and resurrection -/

/-- the channel itself and both its policies are gone, the zombie index has an entry -/
theorem delZombie_removes (strict fixed : Bool) (g : Graph) (c : Scid) (ci : ChanInfo)
    (hc : lookup c g.chans = some ci) :
    lookup c (g.delZombie strict fixed c).chans = none ∧
    lookup (c, 0) (g.delZombie strict fixed c).pols = none ∧
    lookup (c, 1) (g.delZombie strict fixed c).pols = none ∧
    ∃ ks, lookup c (g.delZombie strict fixed c).zombies = some ks := by
  unfold Graph.delZombie
  rw [hc]
  refine ⟨lookup_erase_self _ _, ?_, lookup_erase_self _ _, _, lookup_upsert_self _ _ _⟩
  rw [lookup_erase_ne _ (by intro h; cases h)]
  exact lookup_erase_self _ _

/-- the key recorded for direction `d` of a pruned channel is the owner of that direction or blank —
    for non-strict pruning always, for strict pruning when the second slot holds node2 (`fixed`) -/
theorem zombie_keys_are_owners (strict : Bool) (n1 n2 : Key) (e1 e2 : Option Nat) (d : Nat) :
    let ks := if strict then makeZombiePubkeys true n1 n2 e1 e2 else (n1, n2)
    zombieKey ks d = 0 ∨ zombieKey ks d = (if d = 0 then n1 else n2) := by
  cases strict
  · simp only [Bool.false_eq_true, if_false]
    unfold zombieKey; by_cases hd : d = 0 <;> simp [hd]
  · simp only [if_true]
    unfold makeZombiePubkeys zombieKey
    cases e1 <;> cases e2 <;> by_cases hd : d = 0 <;> simp [hd] <;> split <;> simp

/-- **Who may resurrect a pruned channel.**  After `DeleteChannelEdges(strict, markZombie)` of a
    channel with record `ci` — non-strict, or strict with the second slot as documented — an update
    that satisfies the gossiper's resurrection rule for the recorded entry is signed by the node
    owning the update's direction of that channel. -/
theorem pruned_zombie_resurrected_by_owner_only (cfg : Cfg) (now : Nat) (strict : Bool) (g : Graph)
    (c : Scid) (ci : ChanInfo) (hc : lookup c g.chans = some ci) (u : ChanUpd)
    (hres : ZombieResurrect cfg now (lookup c (g.delZombie strict true c).zombies) u) :
    u.sig = Sig.mk (owner ci (dirOf u.cf)) u.digest := by
  obtain ⟨ks, hks, hnz, hsig, _⟩ := hres
  unfold Graph.delZombie at hks
  rw [hc] at hks
  simp only [lookup_upsert_self] at hks
  have hk := zombie_keys_are_owners strict ci.n1 ci.n2
    ((lookup (c, 0) g.pols).map (·.ts)) ((lookup (c, 1) g.pols).map (·.ts)) (dirOf u.cf)
  simp only at hk
  cases hks
  rcases hk with hk | hk
  · exact absurd hk hnz
  · rw [hsig, hk]; rfl

/-- **The code as written** (second slot = node1, `fixed = false`): with strict pruning a channel
    whose node2 side lags is recorded so that a direction-1 update signed by **node1** satisfies the
    resurrection rule, while node1 does not own direction 1 — and node2's own update does not. -/
theorem strict_zombie_records_wrong_key :
    ∃ (cfg : Cfg) (now : Nat) (g : Graph) (c : Scid) (ci : ChanInfo) (u u2 : ChanUpd),
      lookup c g.chans = some ci ∧ ci.n1 ≠ ci.n2 ∧
      ZombieResurrect cfg now (lookup c (g.delZombie true false c).zombies) u ∧
      u.sig ≠ Sig.mk (owner ci (dirOf u.cf)) u.digest ∧
      u2.sig = Sig.mk (owner ci (dirOf u2.cf)) u2.digest ∧ dirOf u2.cf = dirOf u.cf ∧
      ¬ ZombieResurrect cfg now (lookup c (g.delZombie true false c).zombies) u2 := by
  let body : ChanUpd := ⟨0, 7, 1000, 1, 1, 40, 1, 1000, 1, 1, "", .junk 0⟩
  let u : ChanUpd := { body with sig := .mk 1 body.digest }
  let u2 : ChanUpd := { body with sig := .mk 2 body.digest }
  let g : Graph :=
    { chans := [(7, ⟨1, 2, 4, 5, 1000, "", ""⟩)],
      pols := [((7, 0), ⟨900, 1, 0, 40, 1, 1000, 1, 1, ""⟩), ((7, 1), ⟨100, 1, 1, 40, 1, 1000, 1, 1, ""⟩)] }
  refine ⟨⟨99, false, 1209600, 86400, 10⟩, 2000 * nsPerSec, g, 7, ⟨1, 2, 4, 5, 1000, "", ""⟩, u, u2,
    by decide, by decide, ?_, by decide, by decide, by decide, ?_⟩
  · exact ⟨(0, 1), by decide, by decide, by decide, by decide, by decide, by decide⟩
  · rintro ⟨ks, hks, _, hsig, _⟩
    have : ks = (0, 1) := by
      have h2 : lookup 7 (g.delZombie true false 7).zombies = some (0, 1) := by decide
      rw [h2] at hks; cases hks; rfl
    subst this
    exact absurd hsig (by decide)

/-! ### non-vacuity -/

namespace Example2

open Example in
/-- a future-height announcement and an update for it are queued, a block replays both -/
def sF : State := { s0 with height := 400 }
open Example in
def sF1 : State := (submit cfg now sF 7 (.ca ca)).2.st
open Example in
def sF2 : State := (submit cfg now sF1 7 (.cu (upd 946684000 0 1))).2.st
open Example in
example : sF2.g.chans = [] ∧ sF2.future.length = 2 := by decide
open Example in
example : lookup (scid, 0) (newBlock cfg now sF2 500).st.g.pols = some (upd 946684000 0 1).policy ∧
    (newBlock cfg now sF2 500).relay = [.ca ca, .cu (upd 946684000 0 1)] := by decide
open Example in
example : ReachM cfg sF sF2 :=
  ReachM.msg cfg rfl rfl now 7 _ (ReachM.msg cfg rfl rfl now 7 _ (ReachM.refl _))

/-- strict pruning of a channel whose node2 lags, as documented: only node2 may resurrect -/
def gz : Graph :=
  { chans := [(7, ⟨1, 2, 4, 5, 1000, "", ""⟩), (8, ⟨2, 3, 4, 5, 1000, "", ""⟩)],
    pols := [((7, 0), ⟨1209700, 1, 0, 40, 1, 1000, 1, 1, ""⟩), ((7, 1), ⟨100, 1, 1, 40, 1, 1000, 1, 1, ""⟩),
             ((8, 0), ⟨1209700, 1, 0, 40, 1, 1000, 1, 1, ""⟩), ((8, 1), ⟨1209650, 1, 1, 40, 1, 1000, 1, 1, ""⟩)],
    nodes := [(99, ⟨0, none⟩), (1, ⟨0, none⟩), (2, ⟨0, none⟩), (3, ⟨0, none⟩)] }
example : lookup 7 (gz.delZombie true true 7).zombies = some (0, 2) ∧
    lookup 7 (gz.delZombie true false 7).zombies = some (0, 1) ∧
    lookup 7 (gz.delZombie false false 7).zombies = some (1, 2) := by decide
/-- a prune tick at t = 1209800 s removes channel 7 (node2 silent for longer than the expiry) in
    strict mode only, keeps channel 8 and collects node 1 -/
example : (zombiePrune Example.cfg true false (1209800 * nsPerSec) gz).chans.map (·.1) = [8] ∧
    (zombiePrune Example.cfg true false (1209800 * nsPerSec) gz).nodes.map (·.1) = [99, 2, 3] ∧
    (zombiePrune Example.cfg false false (1209800 * nsPerSec) gz).chans.map (·.1) = [7, 8] := by decide

end Example2

end LndModel.C20
