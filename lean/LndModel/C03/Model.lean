/-
C03 — channel reestablish (`ChanSyncMsg` / `ProcessChanSyncMsg`) on top of the C01 node.

Two layers.

* `SNode` — the *sync skeleton* of one `LightningChannel`: exactly the part of the C01 node
  that reconnection looks at.  Commitment heights of both chains (`lt` local tail, `lp` the
  received-but-not-yet-revoked local commitments, `rt` remote tail, `rp` the pending remote
  commitment = the durable `CommitDiff`), the log counters recorded in every commitment
  (`messageIndices`), the two update-log counters, `LastWasRevoke`.  Durable = everything but
  `lp`, and the part of `lIdx` / `rIdx` beyond what a commitment covers.  `SNode.ofNode`
  projects a C01 node onto it; the driver compares that projection of the implementation's
  dump with the skeleton after every operation.
  `chanSyncMsg` / `processSync` are the decision table of `ProcessChanSyncMsg`; secrets and
  commitment points are symbolic (index into the producer that made them).
  `SSys` = two skeletons + two FIFO queues; `SSys.cut` = deliver prefixes, drop the rest,
  reload both sides, exchange `channel_reestablish`, enqueue the retransmissions.
  All theorems of `Props.lean` are about `SSys` and quantify over every schedule and cut.

* `DNode` — C01 node + `lastWasRevoke`: materialises the retransmitted messages (the log
  updates of the pending `CommitDiff`, its signature, the re-signed commitment) so that the
  driver can compare them field by field with what the implementation returns.
-/
import LndModel.C01.Model

namespace LndModel.C03

open LndModel.C01 (Node Entry ETy Msg SigView CChain Commit)

/-! ## sync skeleton -/

/-- `messageIndices` of a commitment: own / peer's log counter it covers. -/
structure Idx where
  our : Nat
  their : Nat
deriving DecidableEq, Repr, Inhabited

inductive SMsg where
  /-- an update message; `some i` = it creates log entry `i` at the sender, `none` = it
      overwrites the sender's last uncommitted fee update (no new entry on either side). -/
  | upd (i : Option Nat)
  /-- commitment_signed for height `h`, covering the signer's updates `< ix.our` and the
      receiver's updates `< ix.their`. -/
  | sig (h : Nat) (ix : Idx)
  /-- revoke_and_ack revoking the sender's commitment of height `h`. -/
  | rev (h : Nat)
deriving DecidableEq, Repr, Inhabited

def SMsg.isSig : SMsg → Bool
  | .sig .. => true
  | _ => false

def SMsg.isRev : SMsg → Bool
  | .rev _ => true
  | _ => false

structure SNode where
  lt : Nat := 0                 -- LocalCommitment.CommitHeight (durable)
  ltIdx : Idx := ⟨0, 0⟩
  lp : List Idx := []           -- local commitments received but not yet revoked for (volatile)
  rt : Nat := 0                 -- RemoteCommitment.CommitHeight (durable)
  rtIdx : Idx := ⟨0, 0⟩
  rp : Option Idx := none       -- pending CommitDiff (durable); its height is rt+1
  lwr : Bool := false           -- LastWasRevoke (durable)
  lIdx : Nat := 0               -- updateLogs.Local.logIndex
  rIdx : Nat := 0               -- updateLogs.Remote.logIndex
  /-- ghost: every commitment_signed / revoke_and_ack this node ever sent, oldest first. -/
  hist : List SMsg := []
deriving Repr, Inhabited

def SNode.tipH (n : SNode) : Nat := if n.rp.isSome then n.rt + 1 else n.rt
def SNode.tipIdx (n : SNode) : Idx := n.rp.getD n.rtIdx
def SNode.localTipIdx (n : SNode) : Idx := n.lp.getLast?.getD n.ltIdx

/-- `OweCommitment()`. -/
def SNode.owe (n : SNode) : Bool :=
  n.lIdx != n.tipIdx.our || n.localTipIdx.their != n.tipIdx.their

inductive SAct where
  | upd (fresh : Bool)
  | sign
  | revoke
deriving DecidableEq, Repr

def SNode.doSign (n : SNode) : SNode × Option SMsg :=
  match n.rp with
  | some _ => (n, none)       -- ErrNoWindow
  | none =>
    (({ n with rp := some ⟨n.lIdx, n.ltIdx.their⟩, lwr := false,
               hist := n.hist ++ [SMsg.sig (n.rt + 1) ⟨n.lIdx, n.ltIdx.their⟩] } : SNode),
     some (SMsg.sig (n.rt + 1) ⟨n.lIdx, n.ltIdx.their⟩))

def SNode.doRevoke (n : SNode) : SNode × Option SMsg :=
  match n.lp with
  | [] => (n, none)
  | c :: rest =>
    (({ n with lt := n.lt + 1, ltIdx := c, lp := rest, lwr := true,
               hist := n.hist ++ [SMsg.rev n.lt] } : SNode), some (SMsg.rev n.lt))

/-- a local action and the message it sends. -/
def SNode.act (n : SNode) : SAct → SNode × Option SMsg
  | .upd true => ({ n with lIdx := n.lIdx + 1 }, some (.upd (some n.lIdx)))
  | .upd false => (n, some (.upd none))
  | .sign => n.doSign
  | .revoke => n.doRevoke

def SNode.recvRev (n : SNode) : SNode :=
  match n.rp with
  | some ix => { n with rt := n.rt + 1, rtIdx := ix, rp := none }
  | none => n

/-- the receiving call for a message (the indices are the receiver's own, as in the code). -/
def SNode.recv (n : SNode) : SMsg → SNode
  | .upd (some _) => { n with rIdx := n.rIdx + 1 }
  | .upd none => n
  | .sig _ _ => { n with lp := n.lp ++ [⟨n.rtIdx.our, n.rIdx⟩] }
  | .rev _ => n.recvRev

/-- what the real receiver checks (update id, the signature covering its own construction,
    a commitment to revoke): the index-level content of "the message is accepted". -/
def SNode.accepts (n : SNode) : SMsg → Bool
  | .upd (some i) => i == n.rIdx
  | .upd none => true
  | .sig h ix => h == n.lt + n.lp.length + 1 && ix.our == n.rIdx && ix.their == n.rtIdx.our
  | .rev h => n.rp.isSome && h == n.rt

/-- restart: `NewLightningChannel` on the state fetched from the database. -/
def SNode.reload (n : SNode) : SNode :=
  { n with lp := [], lIdx := n.tipIdx.our, rIdx := n.ltIdx.their }

/-! ## channel_reestablish -/

structure SyncMsg where
  nextLocal : Nat               -- NextLocalCommitHeight
  remoteTail : Nat              -- RemoteCommitTailHeight
  /-- LastRemoteCommitSecret as index into the *receiver's* producer (`none`: all zero). -/
  lastSecret : Option Nat
  /-- LocalUnrevokedCommitPoint as index into the *sender's* producer (`none`: field absent,
      the peer does not use data-loss protection). -/
  point : Option Nat
deriving DecidableEq, Repr, Inhabited

inductive SyncErr where
  | localDataLoss | remoteDataLoss | cannotSync | invalidSecret | invalidCommitPoint | signFailed
deriving DecidableEq, Repr, Inhabited

def SyncErr.toString : SyncErr → String
  | .localDataLoss => "localDataLoss" | .remoteDataLoss => "remoteDataLoss"
  | .cannotSync => "cannotSync" | .invalidSecret => "invalidSecret"
  | .invalidCommitPoint => "invalidCommitPoint" | .signFailed => "signFailed"

/-- `OpenChannel.ChanSyncMsg`. -/
def SNode.chanSyncMsg (n : SNode) (dlp : Bool) : SyncMsg :=
  { nextLocal := n.lt + 1, remoteTail := n.rt,
    lastSecret := if n.rt = 0 then none else some (n.rt - 1),
    point := if dlp then some n.lt else none }

/-- the updates and the signature of the pending `CommitDiff`. -/
def SNode.commitDiffMsgs (n : SNode) : List SMsg :=
  match n.rp with
  | none => []
  | some ix =>
    (List.range' n.rtIdx.our (ix.our - n.rtIdx.our)).map (fun i => SMsg.upd (some i))
      ++ [SMsg.sig (n.rt + 1) ix]

/-- first switch of `ProcessChanSyncMsg`: their view of our local chain. -/
def SNode.syncLocal (n : SNode) (dlp : Bool) (remoteTail : Nat) : Except SyncErr (SNode × List SMsg) :=
  if remoteTail > n.lt then .error (if dlp then .localDataLoss else .cannotSync)
  else if remoteTail + 1 < n.lt then .error .remoteDataLoss
  else if remoteTail = n.lt then .ok (n, [])
  else
    -- remoteTail + 1 = lt: we owe the last revocation (generateRevocation(lt - 1));
    -- "if they initiated a state transition, we sent the revocation, but died before the
    -- signature was sent": sign now (ErrNoWindow is tolerated)
    if n.owe then .ok (n.doSign.1, SMsg.rev (n.lt - 1) :: n.doSign.2.toList)
    else .ok (n, [SMsg.rev (n.lt - 1)])

/-- second switch: our view of their chain (heights taken before a re-sign). -/
def SNode.syncRemote (n : SNode) (nextLocal : Nat) (first : List SMsg) : Except SyncErr (List SMsg) :=
  if nextLocal > n.tipH + 1 then .error .cannotSync
  else if nextLocal ≤ n.rt then .error .remoteDataLoss
  else if nextLocal = n.tipH + 1 then .ok first
  else if nextLocal = n.tipH then
    .ok (if n.lwr then n.commitDiffMsgs ++ first else first ++ n.commitDiffMsgs)
  else .error .cannotSync

/-- final check of `LocalUnrevokedCommitPoint` (non-tweakless channels only). -/
def SNode.pointOk (n : SNode) (tweakless : Bool) (m : SyncMsg) : Bool :=
  match m.point with
  | none => true
  | some p =>
    if tweakless then true
    else if m.nextLocal = n.rt + 1 then p == n.rt         -- RemoteCurrentRevocation
    else if m.nextLocal = n.rt + 2 then p == n.rt + 1     -- RemoteNextRevocation
    else true

/-- `ProcessChanSyncMsg`. -/
def SNode.processSync (n : SNode) (tweakless : Bool) (m : SyncMsg) : Except SyncErr (SNode × List SMsg) :=
  if m.point.isSome && m.remoteTail != 0 && m.lastSecret != some (m.remoteTail - 1) then
    .error .invalidSecret
  else
    match n.syncLocal m.point.isSome m.remoteTail with
    | .error e => .error e
    | .ok (n1, first) =>
      match n.syncRemote m.nextLocal first with
      | .error e => .error e
      | .ok out => if n.pointOk tweakless m then .ok (n1, out) else .error .invalidCommitPoint

/-! ## the two-party system -/

structure SSys where
  a : SNode := {}
  b : SNode := {}
  ab : List SMsg := []    -- FIFO a → b, head = oldest
  ba : List SMsg := []
deriving Repr, Inhabited

def SSys.dlvAB (s : SSys) : SSys :=
  match s.ab with
  | [] => s
  | m :: rest => { s with b := s.b.recv m, ab := rest }

def SSys.dlvBA (s : SSys) : SSys :=
  match s.ba with
  | [] => s
  | m :: rest => { s with a := s.a.recv m, ba := rest }

def SSys.dlvABn : Nat → SSys → SSys
  | 0, s => s
  | k + 1, s => SSys.dlvABn k s.dlvAB

def SSys.dlvBAn : Nat → SSys → SSys
  | 0, s => s
  | k + 1, s => SSys.dlvBAn k s.dlvBA

/-- parameters of one reconnection: which side sends the data-loss-protect fields, whether
    the channel type is tweakless. -/
structure SyncCfg where
  dlpA : Bool := true
  dlpB : Bool := true
  tweakless : Bool := true
deriving Repr, Inhabited

/-- the connection drops (the undelivered rest of both queues is lost) and both restart. -/
def SSys.dropReload (s : SSys) : SSys :=
  { a := s.a.reload, b := s.b.reload, ab := [], ba := [] }

/-- both sides process the peer's channel_reestablish and queue their retransmissions. -/
def SSys.resync (c : SyncCfg) (s : SSys) : Except SyncErr SSys :=
  match s.a.processSync c.tweakless (s.b.chanSyncMsg c.dlpB),
        s.b.processSync c.tweakless (s.a.chanSyncMsg c.dlpA) with
  | .ok (a', outA), .ok (b', outB) => .ok { a := a', b := b', ab := outA, ba := outB }
  | .error e, _ => .error e
  | _, .error e => .error e

/-- only one side gets to process the reestablish before the connection drops again
    (its retransmissions are lost, a re-signed commitment stays in its database). -/
def SSys.halfSync (c : SyncCfg) (sideA : Bool) (s : SSys) : Except SyncErr SSys :=
  if sideA then
    match s.a.processSync c.tweakless (s.b.chanSyncMsg c.dlpB) with
    | .ok (a', _) => .ok ({ s with a := a' } : SSys).dropReload
    | .error e => .error e
  else
    match s.b.processSync c.tweakless (s.a.chanSyncMsg c.dlpA) with
    | .ok (b', _) => .ok ({ s with b := b' } : SSys).dropReload
    | .error e => .error e

/-- state at the moment the connection is gone: prefixes delivered, rest dropped, both reloaded. -/
def SSys.cutPre (s : SSys) (kA kB : Nat) : SSys := ((s.dlvABn kA).dlvBAn kB).dropReload

/-- `cut`: deliver `kA` / `kB` messages, drop the rest, reload, resynchronise. -/
def SSys.cut (c : SyncCfg) (s : SSys) (kA kB : Nat) : Except SyncErr SSys :=
  (s.cutPre kA kB).resync c

inductive SStep where
  | actA (x : SAct) | actB (x : SAct) | dlvAB | dlvBA
  | cut (c : SyncCfg) (kA kB : Nat)
  /-- a reconnection in which only one side processes the reestablish, followed by a full one. -/
  | halfCut (c : SyncCfg) (kA kB : Nat) (sideA : Bool)
deriving Repr

def SSys.actA (s : SSys) (x : SAct) : SSys :=
  { s with a := (s.a.act x).1, ab := s.ab ++ (s.a.act x).2.toList }

def SSys.actB (s : SSys) (x : SAct) : SSys :=
  { s with b := (s.b.act x).1, ba := s.ba ++ (s.b.act x).2.toList }

/-- one step; a resynchronisation that fails leaves the system where it is (the theorems show
    it never fails). -/
def SSys.step (s : SSys) : SStep → SSys
  | .actA x => s.actA x
  | .actB x => s.actB x
  | .dlvAB => s.dlvAB
  | .dlvBA => s.dlvBA
  | .cut c kA kB =>
    match s.cut c kA kB with
    | .ok s' => s'
    | .error _ => s
  | .halfCut c kA kB sideA =>
    match (s.cutPre kA kB).halfSync c sideA with
    | .ok s1 => (match s1.resync c with
      | .ok s' => s'
      | .error _ => s)
    | .error _ => s

def SSys.run (s : SSys) (steps : List SStep) : SSys := steps.foldl SSys.step s

/-- the initial system (height 0, nothing sent). -/
def SSys.init : SSys := {}

/-! ## the same system under the discipline of lnd's link

`htlcswitch/link.go` answers an accepted commitment_signed with `RevokeCurrentCommitment` in the
same message handler, before it reads anything else; a channel never processes another message
while it holds an unrevoked commitment.  (A crash between `ReceiveNewCommitment` and
`RevokeCurrentCommitment` loses the received commitment, which is the same as not having
received it: `crash_before_revoke` in `Props.lean`.) -/

/-- deliver the oldest message a → b; a commitment_signed is revoked for at once. -/
def SSys.dlvRevAB (s : SSys) : SSys :=
  match s.ab with
  | [] => s
  | m :: _ => if m.isSig then s.dlvAB.actB .revoke else s.dlvAB

def SSys.dlvRevBA (s : SSys) : SSys :=
  match s.ba with
  | [] => s
  | m :: _ => if m.isSig then s.dlvBA.actA .revoke else s.dlvBA

def SSys.dlvRevABn : Nat → SSys → SSys
  | 0, s => s
  | k + 1, s => SSys.dlvRevABn k s.dlvRevAB

def SSys.dlvRevBAn : Nat → SSys → SSys
  | 0, s => s
  | k + 1, s => SSys.dlvRevBAn k s.dlvRevBA

def SSys.lcutPre (s : SSys) (kA kB : Nat) : SSys :=
  (SSys.dlvRevBAn kB (SSys.dlvRevABn kA s)).dropReload

inductive LStep where
  | updA (f : Bool) | updB (f : Bool) | signA | signB | dlvAB | dlvBA
  | cut (c : SyncCfg) (kA kB : Nat)
  | halfCut (c : SyncCfg) (kA kB : Nat) (sideA : Bool)
deriving Repr

def SSys.lstep (s : SSys) : LStep → SSys
  | .updA f => s.actA (.upd f)
  | .updB f => s.actB (.upd f)
  | .signA => s.actA .sign
  | .signB => s.actB .sign
  | .dlvAB => s.dlvRevAB
  | .dlvBA => s.dlvRevBA
  | .cut c kA kB =>
    match (s.lcutPre kA kB).resync c with
    | .ok s' => s'
    | .error _ => s
  | .halfCut c kA kB sideA =>
    match (s.lcutPre kA kB).halfSync c sideA with
    | .ok s1 => (match s1.resync c with
      | .ok s' => s'
      | .error _ => s)
    | .error _ => s

def SSys.lrun (s : SSys) (steps : List LStep) : SSys := steps.foldl SSys.lstep s

/-! ## the C01 node with its durable sync flag -/

structure DNode where
  n : Node
  lwr : Bool := false
deriving Repr, Inhabited

def idxOf (c : Commit) : Idx := ⟨c.ourMsg, c.theirMsg⟩

/-- projection of a C01 node onto the skeleton. -/
def SNode.ofNode (d : DNode) : SNode :=
  { lt := d.n.chainL.tail.height, ltIdx := idxOf d.n.chainL.tail,
    lp := d.n.chainL.pend.map idxOf,
    rt := d.n.chainR.tail.height, rtIdx := idxOf d.n.chainR.tail,
    rp := (d.n.chainR.pend.head?).map idxOf,
    lwr := d.lwr, lIdx := d.n.logL.logIndex, rIdx := d.n.logR.logIndex }

/-- wire message of a local log entry (`toLogUpdate`). -/
def msgOfEntry (e : Entry) : Msg :=
  match e.ty with
  | .add => .add e.htlcIndex e.amt e.expiry e.hash
  | .settle => .settle e.parent
  | .fail => .fail e.parent
  | .malformed => .fail e.parent
  | .feeUpd => .fee (e.amt / 1000)

/-- `CommitDiff.LogUpdates` as `createCommitDiff` selects them: the local log entries that
    entered the remote chain at the height of the pending commitment. -/
def commitDiffEntries (n : Node) : List Entry :=
  match n.chainR.pend.head? with
  | none => []
  | some c => n.logL.entries.filter (fun e => e.addR == c.height || e.rmvR == c.height)

/-- retransmission of the pending commitment: its log updates, then its signature. -/
def commitDiffWire (n : Node) : List Msg :=
  match n.chainR.pend.head? with
  | none => []
  | some c => (commitDiffEntries n).map msgOfEntry ++ [Msg.commitSig c.sigView]

/-- the never-signed part of both logs is gone after a restart (what remains is then
    compacted exactly like `compactLogs` would). -/
def reloadNode (n : Node) : Node :=
  let tipOur := n.chainR.tip.ourMsg
  let ackd := n.chainL.tail.theirMsg
  let l : C01.Log := { n.logL with entries := n.logL.entries.filter (fun e => decide (e.logIndex < tipOur)),
                                   logIndex := tipOur, htlcCounter := n.chainR.tip.ourHtlc, modified := [] }
  let r : C01.Log := { n.logR with entries := n.logR.entries.filter (fun e => decide (e.logIndex < ackd)),
                                   logIndex := ackd, htlcCounter := n.chainL.tail.theirHtlc, modified := [] }
  { n with logL := l, logR := r, chainL := { tail := n.chainL.tail, pend := [] } }

end LndModel.C03
