/-
C03 — property theorems.  `SSys.init.run steps` ranges over EVERY schedule of the two-party
sync skeleton: any interleaving of update / sign / revoke actions of both sides, in-order
deliveries, full reconnections `cut c kA kB` (any prefix lengths, any use of the
data-loss-protect fields, tweakless or not) and reconnections in which only one side gets to
process the reestablish before the connection drops again (`halfCut`); reconnections may follow
each other directly, i.e. hit the resynchronisation itself.
-/
import LndModel.C03.Cut
import LndModel.C03.Conv4
import LndModel.C03.LRun
import LndModel.C03.MirEq

namespace LndModel.C03

/-! ## the invariant holds in every reachable state -/

theorem inv_init : Inv SSys.init := by
  refine ⟨⟨rfl, rfl, ?_⟩, ⟨rfl, rfl, ?_⟩⟩ <;> simp [HistOk, SSys.init, owed, csOf, rvOf]

theorem inv_step (s : SSys) (x : SStep) (h : Inv s) : Inv (s.step x) := by
  cases x with
  | actA x => exact inv_actA s x h
  | actB x => exact inv_actB s x h
  | dlvAB => exact inv_dlvAB s h
  | dlvBA => exact inv_dlvBA s h
  | cut c kA kB =>
    have hw := invW_cutPre s kA kB h
    simp only [SSys.step, SSys.cut, resync_spec c _ hw]
    exact inv_resync _ hw
  | halfCut c kA kB sideA =>
    have hw := invW_cutPre s kA kB h
    obtain ⟨s1, e1, hw1⟩ := halfSync_spec c sideA _ hw
    simp only [SSys.step, e1, resync_spec c _ hw1]
    exact inv_resync _ hw1

theorem inv_run (steps : List SStep) : ∀ s : SSys, Inv s → Inv (s.run steps) := by
  induction steps with
  | nil => intro s h; exact h
  | cons x rest ih => intro s h; exact ih _ (inv_step s x h)

theorem inv_reachable (steps : List SStep) : Inv (SSys.init.run steps) :=
  inv_run steps _ inv_init

/-- the reachable-height relation the decision table relies on: the peer's durable local
    height lies between our view of its tail and of its tip. -/
theorem reachable_heights (steps : List SStep) :
    let s := SSys.init.run steps
    s.b.rt ≤ s.a.lt ∧ s.a.lt ≤ s.b.rt + 1 ∧ s.a.rt ≤ s.b.lt ∧ s.b.lt ≤ s.a.rt + 1 := by
  intro s
  have hinv : Inv s := inv_reachable steps
  obtain ⟨⟨r1, s1, _⟩, ⟨r2, s2, _⟩⟩ := hinv
  have := tipH_le s.a; have := tipH_le s.b
  refine ⟨?_, ?_, ?_, ?_⟩ <;> omega

/-! ## must: no false data loss -/

/-- **sync_no_false_dataloss.**  For every reachable system and every cut, `processSync` on both
    restored sides returns `ok` — never `localDataLoss`, `remoteDataLoss`, `cannotSync`,
    `invalidSecret`, `invalidCommitPoint` — whatever the prefixes delivered, with or without the
    data-loss-protect fields, tweakless or not. -/
theorem sync_no_false_dataloss (steps : List SStep) (c : SyncCfg) (kA kB : Nat) :
    let p := (SSys.init.run steps).cutPre kA kB
    (∃ r, p.a.processSync c.tweakless (p.b.chanSyncMsg c.dlpB) = .ok r) ∧
    (∃ r, p.b.processSync c.tweakless (p.a.chanSyncMsg c.dlpA) = .ok r) ∧
    (∃ s', (SSys.init.run steps).cut c kA kB = .ok s') := by
  intro p
  have hw := invW_cutPre _ kA kB (inv_reachable steps)
  exact ⟨⟨_, processSync_spec hw.1 hw.2.1 _ _⟩, ⟨_, processSync_spec hw.2.1 hw.1 _ _⟩,
         ⟨_, resync_spec c _ hw⟩⟩

/-- the same when only one side processed the reestablish before the connection dropped again:
    that half reconnection does not fail, and neither does the full one that follows. -/
theorem sync_no_false_dataloss_half (steps : List SStep) (c : SyncCfg) (kA kB : Nat) (sideA : Bool) :
    ∃ s1, ((SSys.init.run steps).cutPre kA kB).halfSync c sideA = .ok s1 ∧ ∃ s', s1.resync c = .ok s' := by
  have hw := invW_cutPre _ kA kB (inv_reachable steps)
  obtain ⟨s1, e1, hw1⟩ := halfSync_spec c sideA _ hw
  exact ⟨s1, e1, _, resync_spec c _ hw1⟩

/-! ## must: exactly the missing messages, in the original order -/

/-- **sync_retransmits_exactly_missing.**  What `processSync` returns is the sender's send
    history (`hist`: every commitment_signed and revoke_and_ack it ever sent, oldest first)
    restricted to the messages the restored peer has not durably absorbed (`missing`: it has not
    revoked for that signature / has not advanced past that revocation), in the original order,
    each signature preceded by the log updates it covers beyond the commitment the peer has
    revoked for (`expand`, i.e. the pending `CommitDiff`), followed — only in the "revocation
    owed, commitment owed, window open" arm — by one freshly signed commitment. -/
theorem sync_retransmits_exactly_missing (steps : List SStep) (c : SyncCfg) (kA kB : Nat) :
    let p := (SSys.init.run steps).cutPre kA kB
    p.a.processSync c.tweakless (p.b.chanSyncMsg c.dlpB) =
      .ok (syncNode p.a p.b, (p.a.hist.filter (missing p.b)).flatMap (expand p.a) ++ freshSig p.a p.b) ∧
    p.b.processSync c.tweakless (p.a.chanSyncMsg c.dlpA) =
      .ok (syncNode p.b p.a, (p.b.hist.filter (missing p.a)).flatMap (expand p.b) ++ freshSig p.b p.a) := by
  intro p
  have hw := invW_cutPre _ kA kB (inv_reachable steps)
  have h1 := processSync_spec hw.1 hw.2.1 c.tweakless c.dlpB
  have h2 := processSync_spec hw.2.1 hw.1 c.tweakless c.dlpA
  have e1 : p.a.hist.filter (missing p.b) = owed p.a p.b := hw.1.hist
  have e2 : p.b.hist.filter (missing p.a) = owed p.b p.a := hw.2.1.hist
  rw [e1, e2]
  exact ⟨h1, h2⟩

/-- at most one signature and one revocation are ever owed, and the flag `LastWasRevoke`
    the code consults is exactly their order in the send history. -/
theorem owed_order (steps : List SStep) (kA kB : Nat) :
    let p := (SSys.init.run steps).cutPre kA kB
    p.a.hist.filter (missing p.b) =
      (if p.a.lwr then csOf p.a p.b ++ rvOf p.a p.b else rvOf p.a p.b ++ csOf p.a p.b) := by
  intro p
  exact (invW_cutPre _ kA kB (inv_reachable steps)).1.hist

/-- a fresh signature is only made when nothing is pending (so it can never be confused with, or
    reordered against, a retransmitted one). -/
theorem fresh_excludes_retransmit (x y : SNode) (h : freshSig x y ≠ []) : csOf x y = [] := by
  unfold freshSig resigns at h
  unfold csOf
  cases hrp : x.rp with
  | none => rfl
  | some ix => simp [hrp] at h

/-! ## non-vacuity -/

/-- A updates and signs, B gets the update but not the signature: A retransmits both. -/
example :
    (SSys.init.run [.actA (.upd true), .actA .sign, .cut {} 1 0]).ab
      = [SMsg.upd (some 0), SMsg.sig 1 ⟨1, 0⟩] := by decide

/-- signature sent before the revocation, both lost: retransmitted in that order. -/
example :
    (SSys.init.run [.actA (.upd true), .actA .sign, .dlvAB, .dlvAB, .actB (.upd true), .actB .sign,
                    .dlvBA, .dlvBA, .actA .revoke, .cut {} 0 0]).ab
      = [SMsg.upd (some 0), SMsg.sig 1 ⟨1, 0⟩, SMsg.rev 0] := by decide

/-- revocation sent before the signature, both lost: revocation first. -/
example :
    (SSys.init.run [.actB (.upd true), .actB .sign, .dlvBA, .dlvBA, .actA .revoke, .actA .sign,
                    .cut {} 0 0]).ab
      = [SMsg.rev 0, SMsg.sig 1 ⟨0, 1⟩] := by decide

/-- revocation lost and a commitment owed: the revocation is retransmitted and a fresh
    commitment is signed. -/
example :
    (SSys.init.run [.actB (.upd true), .actB .sign, .dlvBA, .dlvBA, .actA .revoke, .cut {} 0 0]).ab
      = [SMsg.rev 0, SMsg.sig 1 ⟨0, 1⟩] := by decide

/-! ## must: convergence (index level), under the discipline of lnd's link

`SSys.init.lrun steps` ranges over every schedule in which an accepted commitment_signed is
answered with the revocation before the receiver handles anything else (what
`htlcswitch/link.go` does), with reconnections `cut` / `halfCut` at arbitrary points and with
arbitrary delivered prefixes, any number of times, also while retransmissions are in flight.
Without that discipline the statement is false on the skeleton and on the real code alike: a
node that has an unrevoked received commitment, then processes a revoke_and_ack and then loses
the connection is sent the old signature again and rejects it (see `checks/C03.notes.md`). -/

/-- a crash between `ReceiveNewCommitment` and `RevokeCurrentCommitment` (or after an update
    was received) leaves nothing behind: delivering such a message right before the connection
    drops is the same as not delivering it.  Hence `cut` of the disciplined system needs no
    "crash before revoke" case. -/
theorem crash_before_revoke (s : SSys) (m : SMsg) (rest : List SMsg) (h : s.ab = m :: rest)
    (hm : m.isRev = false) : s.dlvAB.dropReload = s.dropReload := by
  cases s with
  | mk a b ab ba =>
    simp only at h; subst h
    cases m with
    | upd i => cases i <;> simp [SSys.dlvAB, SSys.dropReload, SNode.recv, SNode.reload, SNode.tipIdx]
    | sig hh ix => simp [SSys.dlvAB, SSys.dropReload, SNode.recv, SNode.reload, SNode.tipIdx]
    | rev hh => simp [SMsg.isRev] at hm

/-- **every retransmitted (and every other) message is accepted.**  In every reachable state the
    oldest message of either queue passes the receiver's checks: an update carries exactly the
    next expected log index, a commitment_signed is for the receiver's next height and covers
    exactly the receiver's own construction (its received updates, its acknowledged own updates),
    a revoke_and_ack meets a pending commitment of the right height. -/
theorem every_delivery_accepted (steps : List LStep) :
    (∀ m rest, (SSys.init.lrun steps).ab = m :: rest → (SSys.init.lrun steps).b.accepts m = true) ∧
    (∀ m rest, (SSys.init.lrun steps).ba = m :: rest → (SSys.init.lrun steps).a.accepts m = true) :=
  ⟨(inv2_dlvRevAB _ (inv2_reachable steps)).2, (inv2_dlvRevBA _ (inv2_reachable steps)).2⟩

/-- **no update is lost or duplicated**, at any time: what the receiver has plus the
    entry-creating updates in flight is what the sender's log holds, and the updates in flight
    carry consecutive indices starting at the receiver's counter. -/
theorem no_update_lost_or_duplicated (steps : List LStep) :
    let s := SSys.init.lrun steps
    s.b.rIdx + nFresh s.ab = s.a.lIdx ∧ freshIdxOk s.b.rIdx s.ab = true ∧
    s.a.rIdx + nFresh s.ba = s.b.lIdx ∧ freshIdxOk s.a.rIdx s.ba = true := by
  intro s
  have h : Inv2 s := inv2_reachable steps
  exact ⟨h.2.2.2.1.count, h.2.2.2.1.idx, h.2.2.2.2.1.count, h.2.2.2.2.1.idx⟩

/-- everything owed is in flight, in the order it was first sent (no message needed for the
    resynchronisation is missing from the queues, none is there twice). -/
theorem owed_in_flight (steps : List LStep) :
    let s := SSys.init.lrun steps
    s.ab.filter SMsg.notUpd = owed s.a s.b ∧ s.ba.filter SMsg.notUpd = owed s.b s.a := by
  intro s
  have h : Inv2 s := inv2_reachable steps
  exact ⟨h.2.2.2.1.shape, h.2.2.2.2.1.shape⟩

/-- **sync_converges.**  Whenever both queues have been delivered — after any number of
    reconnections at any points — the two sides hold mirrored commitments: same heights, each
    side's lowest unrevoked commitment is the other's view of it with the log indices swapped,
    nothing is pending, and each side has received exactly the updates the other has in its log.
    These equations determine one side's signed state from the other's, so it is the state of the
    run without reconnections on everything that was signed. -/
theorem sync_converges (steps : List LStep)
    (hab : (SSys.init.lrun steps).ab = []) (hba : (SSys.init.lrun steps).ba = []) :
    let s := SSys.init.lrun steps
    s.a.rp = none ∧ s.b.rp = none ∧ s.a.lp = [] ∧ s.b.lp = [] ∧
    s.b.lt = s.a.rt ∧ s.a.lt = s.b.rt ∧
    s.b.ltIdx = s.a.rtIdx.swap ∧ s.a.ltIdx = s.b.rtIdx.swap ∧
    s.b.rIdx = s.a.lIdx ∧ s.a.rIdx = s.b.lIdx := by
  intro s
  have h : Inv2 s := inv2_reachable steps
  obtain ⟨⟨⟨r1, s1, _⟩, ⟨r2, s2, _⟩⟩, p1, p2, m1, m2, _, _⟩ := h
  have hab' : s.ab = [] := hab
  have hba' : s.ba = [] := hba
  rw [hab'] at r1 s2 m1
  rw [hba'] at r2 s1 m2
  simp only [nRev_nil, nSig_nil, Nat.add_zero, p1, p2, List.length_nil] at r1 s1 r2 s2
  have ha : s.a.rp = none := by
    cases h : s.a.rp with
    | none => rfl
    | some ix => rw [tipH_some h] at s2; omega
  have hb : s.b.rp = none := by
    cases h : s.b.rp with
    | none => rfl
    | some ix => rw [tipH_some h] at s1; omega
  rw [tipH_none ha] at s2
  rw [tipH_none hb] at s1
  have c1 := m1.count; have c2 := m2.count
  simp only [nFresh_nil, Nat.add_zero] at c1 c2
  exact ⟨ha, hb, p1, p2, s2, s1, m1.tail0 s2, m2.tail0 s1, c1, c2⟩

/-- the reconnection itself changes no commitment either side holds (it only re-queues, and
    possibly signs one new commitment): heights and log indices of both chains are those of the
    restored state. -/
theorem resync_keeps_commitments (x y : SNode) :
    (syncNode x y).lt = x.lt ∧ (syncNode x y).ltIdx = x.ltIdx ∧ (syncNode x y).rt = x.rt ∧
    (syncNode x y).rtIdx = x.rtIdx ∧ (syncNode x y).lIdx = x.lIdx ∧ (syncNode x y).rIdx = x.rIdx := by
  obtain ⟨h1, h2, h3, h4, h5, _, h7⟩ := syncNode_recv_fields x y
  exact ⟨h2, h5, h3, h4, h7, h1⟩

/-- the executable predicate the driver evaluates on the real channels' states
    (`Mirror.inv2Ok`, 28 000+ states per quick run) is exactly the invariant the convergence
    theorems are proved from, and it holds in every reachable state of the disciplined system. -/
theorem driver_index_check_sound (s r : SNode) (q : List SMsg) : mirOk s r q = true ↔ Mir s r q :=
  mirOk_iff s r q

theorem index_invariant_reachable (steps : List LStep) : inv2Ok (SSys.init.lrun steps) = true :=
  inv2Ok_of_inv2 _ (inv2_reachable steps)

/-- the two `must` theorems above, restated for the disciplined system (its reconnection
    delivers the prefixes with immediate revocations): neither side fails, and what each side
    returns is exactly what the peer is missing, in the original order. -/
theorem sync_ok_and_exact_disciplined (steps : List LStep) (c : SyncCfg) (kA kB : Nat) :
    let p := (SSys.init.lrun steps).lcutPre kA kB
    p.a.processSync c.tweakless (p.b.chanSyncMsg c.dlpB) =
      .ok (syncNode p.a p.b, (p.a.hist.filter (missing p.b)).flatMap (expand p.a) ++ freshSig p.a p.b) ∧
    p.b.processSync c.tweakless (p.a.chanSyncMsg c.dlpA) =
      .ok (syncNode p.b p.a, (p.b.hist.filter (missing p.a)).flatMap (expand p.b) ++ freshSig p.b p.a) := by
  intro p
  have hw := (invW2_lcutPre _ kA kB (inv2_reachable steps)).1
  have h1 := processSync_spec hw.1 hw.2.1 c.tweakless c.dlpB
  have h2 := processSync_spec hw.2.1 hw.1 c.tweakless c.dlpA
  have e1 : p.a.hist.filter (missing p.b) = owed p.a p.b := hw.1.hist
  have e2 : p.b.hist.filter (missing p.a) = owed p.b p.a := hw.2.1.hist
  rw [e1, e2]
  exact ⟨h1, h2⟩

/-- the prefix phase of a disciplined reconnection is a run of the general system. -/
theorem disciplined_cut_is_general_run (s : SSys) (kA kB : Nat) :
    ∃ steps, s.lcutPre kA kB = (s.run steps).cutPre 0 0 := lcutPre_run s kA kB

/-- Why the discipline is needed (full statement "for every C01 schedule" is FALSE): B signs,
    A signs, B takes A's signature and revokes, A takes B's signature WITHOUT revoking, then B's
    revocation, then the connection drops.  A has durably advanced its view of B's chain but lost
    B's signature; B retransmits the old signature, which acknowledges none of what A now
    expects, and A's check fails.  The same happens with the real `LightningChannel`s
    (`checks/C03.notes.md`); lnd's link cannot get there. -/
example :
    let s := SSys.init.run [.actB (.upd true), .actB .sign, .actA (.upd true), .actA .sign,
                            .dlvAB, .dlvAB, .actB .revoke, .dlvBA, .dlvBA, .dlvBA, .cut {} 0 0, .dlvBA]
    s.ba = [SMsg.sig 1 ⟨1, 0⟩] ∧ s.a.accepts (SMsg.sig 1 ⟨1, 0⟩) = false := by decide

/-! ### non-vacuity of the disciplined runs -/

/-- update, signature, both delivered and revoked for, revocation lost: it is retransmitted and
    everything drains to a mirrored state. -/
example :
    let s := SSys.init.lrun [.updA true, .signA, .dlvAB, .dlvAB, .cut {} 0 0, .dlvBA, .dlvBA, .dlvAB]
    s.ab = [] ∧ s.ba = [] ∧ s.b.lt = 1 ∧ s.a.rt = 1 ∧ s.b.rIdx = 1 ∧ s.a.lt = 1 := by decide

/-- a cut while the retransmissions of an earlier cut are in flight. -/
example :
    let s := SSys.init.lrun [.updA true, .signA, .cut {} 1 0, .dlvAB, .cut {} 0 0, .dlvAB, .dlvAB, .dlvBA]
    s.ab = [] ∧ s.ba = [] ∧ s.b.lt = 1 ∧ s.a.rt = 1 ∧ s.b.rIdx = 1 ∧ s.a.lIdx = 1 := by decide

end LndModel.C03
