/-
C03 — property theorems.  `SSys.init.run steps` ranges over EVERY schedule of the two-party
sync skeleton: any interleaving of update / sign / revoke actions of both sides, in-order
deliveries, full reconnections `cut c kA kB` (any prefix lengths, any use of the
data-loss-protect fields, tweakless or not) and reconnections in which only one side gets to
process the reestablish before the connection drops again (`halfCut`); reconnections may follow
each other directly, i.e. hit the resynchronisation itself.
-/
import LndModel.C03.Cut

namespace LndModel.C03

/-! ## the invariant holds in every reachable state -/

theorem inv_init : Inv SSys.init := by
  refine ⟨⟨rfl, rfl, ?_⟩, ⟨rfl, rfl, ?_⟩⟩ <;> simp [HistOk, SSys.init, owed, csOf, rvOf]

theorem inv_step (s : SSys) (x : SStep) (h : Inv s) : Inv (s.step x) := by
  cases x with
  | actA x => exact inv_actA s x h
  | actB x => exact inv_actB s x h
  | dlvAB => exact inv_dlvAB s h
  | dlvBA => exact inv_dlvBA s h
  | cut c kA kB =>
    have hw := invW_cutPre s kA kB h
    simp only [SSys.step, SSys.cut, resync_spec c _ hw]
    exact inv_resync _ hw
  | halfCut c kA kB sideA =>
    have hw := invW_cutPre s kA kB h
    obtain ⟨s1, e1, hw1⟩ := halfSync_spec c sideA _ hw
    simp only [SSys.step, e1, resync_spec c _ hw1]
    exact inv_resync _ hw1

theorem inv_run (steps : List SStep) : ∀ s : SSys, Inv s → Inv (s.run steps) := by
  induction steps with
  | nil => intro s h; exact h
  | cons x rest ih => intro s h; exact ih _ (inv_step s x h)

theorem inv_reachable (steps : List SStep) : Inv (SSys.init.run steps) :=
  inv_run steps _ inv_init

/-- the reachable-height relation the decision table relies on: the peer's durable local
    height lies between our view of its tail and of its tip. -/
theorem reachable_heights (steps : List SStep) :
    let s := SSys.init.run steps
    s.b.rt ≤ s.a.lt ∧ s.a.lt ≤ s.b.rt + 1 ∧ s.a.rt ≤ s.b.lt ∧ s.b.lt ≤ s.a.rt + 1 := by
  intro s
  have hinv : Inv s := inv_reachable steps
  obtain ⟨⟨r1, s1, _⟩, ⟨r2, s2, _⟩⟩ := hinv
  have := tipH_le s.a; have := tipH_le s.b
  refine ⟨?_, ?_, ?_, ?_⟩ <;> omega

/-! ## must: no false data loss -/

/-- **sync_no_false_dataloss.**  For every reachable system and every cut, `processSync` on both
    restored sides returns `ok` — never `localDataLoss`, `remoteDataLoss`, `cannotSync`,
    `invalidSecret`, `invalidCommitPoint` — whatever the prefixes delivered, with or without the
    data-loss-protect fields, tweakless or not. -/
theorem sync_no_false_dataloss (steps : List SStep) (c : SyncCfg) (kA kB : Nat) :
    let p := (SSys.init.run steps).cutPre kA kB
    (∃ r, p.a.processSync c.tweakless (p.b.chanSyncMsg c.dlpB) = .ok r) ∧
    (∃ r, p.b.processSync c.tweakless (p.a.chanSyncMsg c.dlpA) = .ok r) ∧
    (∃ s', (SSys.init.run steps).cut c kA kB = .ok s') := by
  intro p
  have hw := invW_cutPre _ kA kB (inv_reachable steps)
  exact ⟨⟨_, processSync_spec hw.1 hw.2.1 _ _⟩, ⟨_, processSync_spec hw.2.1 hw.1 _ _⟩,
         ⟨_, resync_spec c _ hw⟩⟩

/-- the same when only one side processed the reestablish before the connection dropped again:
    that half reconnection does not fail, and neither does the full one that follows. -/
theorem sync_no_false_dataloss_half (steps : List SStep) (c : SyncCfg) (kA kB : Nat) (sideA : Bool) :
    ∃ s1, ((SSys.init.run steps).cutPre kA kB).halfSync c sideA = .ok s1 ∧ ∃ s', s1.resync c = .ok s' := by
  have hw := invW_cutPre _ kA kB (inv_reachable steps)
  obtain ⟨s1, e1, hw1⟩ := halfSync_spec c sideA _ hw
  exact ⟨s1, e1, _, resync_spec c _ hw1⟩

/-! ## must: exactly the missing messages, in the original order -/

/-- **sync_retransmits_exactly_missing.**  What `processSync` returns is the sender's send
    history (`hist`: every commitment_signed and revoke_and_ack it ever sent, oldest first)
    restricted to the messages the restored peer has not durably absorbed (`missing`: it has not
    revoked for that signature / has not advanced past that revocation), in the original order,
    each signature preceded by the log updates it covers beyond the commitment the peer has
    revoked for (`expand`, i.e. the pending `CommitDiff`), followed — only in the "revocation
    owed, commitment owed, window open" arm — by one freshly signed commitment. -/
theorem sync_retransmits_exactly_missing (steps : List SStep) (c : SyncCfg) (kA kB : Nat) :
    let p := (SSys.init.run steps).cutPre kA kB
    p.a.processSync c.tweakless (p.b.chanSyncMsg c.dlpB) =
      .ok (syncNode p.a p.b, (p.a.hist.filter (missing p.b)).flatMap (expand p.a) ++ freshSig p.a p.b) ∧
    p.b.processSync c.tweakless (p.a.chanSyncMsg c.dlpA) =
      .ok (syncNode p.b p.a, (p.b.hist.filter (missing p.a)).flatMap (expand p.b) ++ freshSig p.b p.a) := by
  intro p
  have hw := invW_cutPre _ kA kB (inv_reachable steps)
  have h1 := processSync_spec hw.1 hw.2.1 c.tweakless c.dlpB
  have h2 := processSync_spec hw.2.1 hw.1 c.tweakless c.dlpA
  have e1 : p.a.hist.filter (missing p.b) = owed p.a p.b := hw.1.hist
  have e2 : p.b.hist.filter (missing p.a) = owed p.b p.a := hw.2.1.hist
  rw [e1, e2]
  exact ⟨h1, h2⟩

/-- at most one signature and one revocation are ever owed, and the flag `LastWasRevoke`
    the code consults is exactly their order in the send history. -/
theorem owed_order (steps : List SStep) (kA kB : Nat) :
    let p := (SSys.init.run steps).cutPre kA kB
    p.a.hist.filter (missing p.b) =
      (if p.a.lwr then csOf p.a p.b ++ rvOf p.a p.b else rvOf p.a p.b ++ csOf p.a p.b) := by
  intro p
  exact (invW_cutPre _ kA kB (inv_reachable steps)).1.hist

/-- a fresh signature is only made when nothing is pending (so it can never be confused with, or
    reordered against, a retransmitted one). -/
theorem fresh_excludes_retransmit (x y : SNode) (h : freshSig x y ≠ []) : csOf x y = [] := by
  unfold freshSig resigns at h
  unfold csOf
  cases hrp : x.rp with
  | none => rfl
  | some ix => simp [hrp] at h

/-! ## non-vacuity -/

/-- A updates and signs, B gets the update but not the signature: A retransmits both. -/
example :
    (SSys.init.run [.actA (.upd true), .actA .sign, .cut {} 1 0]).ab
      = [SMsg.upd (some 0), SMsg.sig 1 ⟨1, 0⟩] := by decide

/-- signature sent before the revocation, both lost: retransmitted in that order. -/
example :
    (SSys.init.run [.actA (.upd true), .actA .sign, .dlvAB, .dlvAB, .actB (.upd true), .actB .sign,
                    .dlvBA, .dlvBA, .actA .revoke, .cut {} 0 0]).ab
      = [SMsg.upd (some 0), SMsg.sig 1 ⟨1, 0⟩, SMsg.rev 0] := by decide

/-- revocation sent before the signature, both lost: revocation first. -/
example :
    (SSys.init.run [.actB (.upd true), .actB .sign, .dlvBA, .dlvBA, .actA .revoke, .actA .sign,
                    .cut {} 0 0]).ab
      = [SMsg.rev 0, SMsg.sig 1 ⟨0, 1⟩] := by decide

/-- revocation lost and a commitment owed: the revocation is retransmitted and a fresh
    commitment is signed. -/
example :
    (SSys.init.run [.actB (.upd true), .actB .sign, .dlvBA, .dlvBA, .actA .revoke, .cut {} 0 0]).ab
      = [SMsg.rev 0, SMsg.sig 1 ⟨0, 1⟩] := by decide

end LndModel.C03
