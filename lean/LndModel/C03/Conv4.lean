/-
C03 — the index invariant after `resync` / `halfSync`, and along every run of the
disciplined system.
-/
import LndModel.C03.Conv3

namespace LndModel.C03

theorem resigns_facts {x y : SNode} (h : resigns x y = true) :
    x.rp = none ∧ y.rt + 1 = x.lt := by
  unfold resigns at h
  cases hrp : x.rp with
  | some ix => simp [hrp] at h
  | none => simp [hrp] at h; exact ⟨rfl, h.1⟩

theorem syncNode_recv_fields (x y : SNode) :
    (syncNode x y).rIdx = x.rIdx ∧ (syncNode x y).lt = x.lt ∧ (syncNode x y).rt = x.rt ∧
    (syncNode x y).rtIdx = x.rtIdx ∧ (syncNode x y).ltIdx = x.ltIdx ∧ (syncNode x y).lp = x.lp ∧
    (syncNode x y).lIdx = x.lIdx := by
  unfold syncNode SNode.doSign
  cases resigns x y <;> cases x.rp <;> simp

/-- the retransmissions (and the fresh signature) queued by `processSync` satisfy `Mir`. -/
theorem mir_sync {s r : SNode} (hsr : LinkW s r) (hrs : LinkW r s) (hw : MirW s r)
    (hl : Loc s) (hfs : Fresh s) (hfr : Fresh r) :
    Mir (syncNode s r) (syncNode r s) (syncOut s r) := by
  obtain ⟨f1, f2, f3, f4, f5, _, _⟩ := syncNode_recv_fields r s
  have h0 := mir_retransmit hsr hrs hw hl hfs hfr
  refine mir_congr_r f1 f2 f3 f4 f5 ?_
  unfold syncNode syncOut freshSig
  cases hr : resigns s r with
  | false => simpa using h0
  | true =>
    obtain ⟨hrp, _⟩ := resigns_facts hr
    have hlt : r.lt = s.rt := by
      have := hrs.lo; have := hrs.hi; rw [tipH_none hrp] at *; omega
    simp only [if_true]
    exact mir_send_sig h0 hrp hlt

theorem loc_syncNode {x y : SNode} (h : Loc x) : Loc (syncNode x y) := by
  unfold syncNode; split
  · exact loc_sign h
  · exact h

theorem inv2_resync (s : SSys) (h : InvW2 s) :
    Inv2 { a := syncNode s.a s.b, b := syncNode s.b s.a, ab := syncOut s.a s.b, ba := syncOut s.b s.a } := by
  obtain ⟨hw, m1, m2, l1, l2, f1, f2⟩ := h
  have ga := syncNode_recv_fields s.a s.b
  have gb := syncNode_recv_fields s.b s.a
  refine ⟨inv_resync s hw, ?_, ?_, mir_sync hw.1 hw.2.1 m1 l1 f1 f2, mir_sync hw.2.1 hw.1 m2 l2 f2 f1,
          loc_syncNode l1, loc_syncNode l2⟩
  · show (syncNode s.a s.b).lp = []; rw [ga.2.2.2.2.2.1]; exact hw.1.lp
  · show (syncNode s.b s.a).lp = []; rw [gb.2.2.2.2.2.1]; exact hw.2.1.lp

/-! ## one side only, then the connection drops again -/

theorem mirW_syncNode_s {s r : SNode} (hrs : LinkW r s) (hw : MirW s r) :
    MirW (syncNode s r).reload r.reload := by
  obtain ⟨w1, w2, w3, w4⟩ := hw
  unfold syncNode
  cases hr : resigns s r with
  | false => exact ⟨w1, w2, w3, w4⟩
  | true =>
    obtain ⟨hrp, _⟩ := resigns_facts hr
    have hlt : r.lt = s.rt := by
      have := hrs.lo; have := hrs.hi; rw [tipH_none hrp] at *; omega
    simp only [if_true, SNode.doSign, hrp]
    refine ⟨?_, ?_, w3, ?_⟩
    · intro ix h1 _ _
      simp only [SNode.reload, Option.some.injEq] at h1
      rw [← h1]; rfl
    · intro ix _ _ h3; simp [SNode.reload] at h3
    · intro h1; simp only [SNode.reload] at h1; omega

theorem mirW_syncNode_r {s r : SNode} (hw : MirW s r) : MirW s.reload (syncNode r s).reload := by
  obtain ⟨w1, w2, w3, w4⟩ := hw
  obtain ⟨_, f2, f3, f4, f5, _, _⟩ := syncNode_recv_fields r s
  refine ⟨?_, ?_, ?_, ?_⟩
  · intro ix h1 h2 h3; exact w1 ix h1 (by simpa [SNode.reload, f2] using h2) h3
  · intro ix h1 h2 h3
    have := w2 ix h1 (by simpa [SNode.reload, f2] using h2) h3
    simpa [SNode.reload, f3, f4] using this
  · intro h1
    have := w3 (by simpa [SNode.reload, f2] using h1)
    simpa [SNode.reload, f5] using this
  · intro h1
    have := w4 (by simpa [SNode.reload, f2] using h1)
    simpa [SNode.reload, f5] using this

theorem halfSync_eq (c : SyncCfg) (sideA : Bool) (s : SSys) (h : InvW s) :
    s.halfSync c sideA = .ok (if sideA then ({ s with a := syncNode s.a s.b } : SSys).dropReload
                              else ({ s with b := syncNode s.b s.a } : SSys).dropReload) := by
  unfold SSys.halfSync
  cases sideA with
  | true => simp only [if_true, processSync_spec h.1 h.2.1]
  | false => simp only [Bool.false_eq_true, if_false, processSync_spec h.2.1 h.1]

theorem invW2_halfSync (c : SyncCfg) (sideA : Bool) (s : SSys) (h : InvW2 s) :
    ∃ s', s.halfSync c sideA = .ok s' ∧ InvW2 s' := by
  obtain ⟨hw, m1, m2, l1, l2, f1, f2⟩ := h
  refine ⟨_, halfSync_eq c sideA s hw, ?_⟩
  cases sideA with
  | true =>
    obtain ⟨k1, k2⟩ := linkW_reload_syncNode hw.1 hw.2.1
    exact ⟨⟨k1, k2, rfl, rfl⟩, mirW_syncNode_s hw.2.1 m1, mirW_syncNode_r m2,
           loc_reload (loc_syncNode l1), loc_reload l2, ⟨rfl, rfl⟩, ⟨rfl, rfl⟩⟩
  | false =>
    obtain ⟨k1, k2⟩ := linkW_reload_syncNode hw.2.1 hw.1
    exact ⟨⟨k2, k1, rfl, rfl⟩, mirW_syncNode_r m1, mirW_syncNode_s hw.1 m2,
           loc_reload l1, loc_reload (loc_syncNode l2), ⟨rfl, rfl⟩, ⟨rfl, rfl⟩⟩

/-! ## every run of the disciplined system -/

theorem invW2_lcutPre (s : SSys) (kA kB : Nat) (h : Inv2 s) : InvW2 (s.lcutPre kA kB) :=
  invW2_dropReload _ (inv2_dlvRevBAn kB _ (inv2_dlvRevABn kA _ h))

theorem inv2_actB_upd (s : SSys) (f : Bool) (h : Inv2 s) : Inv2 (s.actB (.upd f)) := by
  rw [actB_swap, inv2_swap]; exact inv2_upd _ f ((inv2_swap s).2 h)

theorem inv2_actB_sign (s : SSys) (h : Inv2 s) : Inv2 (s.actB .sign) := by
  rw [actB_swap, inv2_swap]; exact inv2_sign _ ((inv2_swap s).2 h)

theorem inv2_lstep (s : SSys) (x : LStep) (h : Inv2 s) : Inv2 (s.lstep x) := by
  cases x with
  | updA f => exact inv2_upd s f h
  | updB f => exact inv2_actB_upd s f h
  | signA => exact inv2_sign s h
  | signB => exact inv2_actB_sign s h
  | dlvAB => exact (inv2_dlvRevAB s h).1
  | dlvBA => exact (inv2_dlvRevBA s h).1
  | cut c kA kB =>
    have hw := invW2_lcutPre s kA kB h
    simp only [SSys.lstep, resync_spec c _ hw.1]
    exact inv2_resync _ hw
  | halfCut c kA kB sideA =>
    have hw := invW2_lcutPre s kA kB h
    obtain ⟨s1, e1, hw1⟩ := invW2_halfSync c sideA _ hw
    simp only [SSys.lstep, e1, resync_spec c _ hw1.1]
    exact inv2_resync _ hw1

theorem inv2_init : Inv2 SSys.init := by
  have hm : Mir ({} : SNode) ({} : SNode) [] := by
    refine ⟨by simp [owed, csOf, rvOf], rfl, rfl, ?_, ?_, ?_, fun _ => rfl, ?_⟩
    · intro ix h; cases h
    · intro ix h; cases h
    · intro ix h; cases h
    · intro h; cases h
  have hlc : Loc ({} : SNode) := ⟨Nat.le_refl _, Nat.le_refl _, Nat.le_refl _⟩
  exact ⟨by
    refine ⟨⟨rfl, rfl, ?_⟩, ⟨rfl, rfl, ?_⟩⟩ <;> simp [HistOk, SSys.init, owed, csOf, rvOf],
    rfl, rfl, hm, hm, hlc, hlc⟩

theorem inv2_lrun (steps : List LStep) : ∀ s : SSys, Inv2 s → Inv2 (s.lrun steps) := by
  induction steps with
  | nil => intro s h; exact h
  | cons x rest ih => intro s h; exact ih _ (inv2_lstep s x h)

theorem inv2_reachable (steps : List LStep) : Inv2 (SSys.init.lrun steps) :=
  inv2_lrun steps _ inv2_init

end LndModel.C03
