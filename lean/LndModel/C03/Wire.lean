/-
C03 — channel_reestablish on the wire (`lnwire/channel_reestablish.go`).

The sync logic of `Model.lean` consumes a `SyncMsg`.  Between two real peers that message is
built by `OpenChannel.ChanSyncMsg`, serialised by `ChannelReestablish.Encode`, parsed by
`ChannelReestablish.Decode` and only then handed to `ProcessChanSyncMsg`.  This file states the
wire-level fields the sync logic depends on and the shape of the encoding:

  chan id ‖ next_local_commitment_number ‖ next_remote_revocation_number            (always)
  ‖ your_last_per_commitment_secret (32 bytes, all zero while nothing was revoked)
  ‖ my_current_per_commitment_point                                                 (iff the sender populated the point)
  ‖ TLV stream: musig2 verification nonce(s) of a taproot channel                   (behind the point only)

`Encode` takes the short (legacy, pre-data-loss-protect) form exactly when the commit point is
absent; the last secret plays no role in that decision.  `Decode` takes the short form exactly
when the message ends after the two heights.
-/
import LndModel.C03.Model

namespace LndModel.C03

/-- channel_reestablish as built by the sender: the fields the receiver acts upon. -/
structure Reest where
  nextLocal : Nat               -- NextLocalCommitHeight
  remoteTail : Nat              -- RemoteCommitTailHeight
  /-- LastRemoteCommitSecret (index into the receiver's producer; `none` = 32 zero bytes). -/
  lastSecret : Option Nat
  /-- LocalUnrevokedCommitPoint (index into the sender's producer; `none` = not populated). -/
  point : Option Nat
  /-- musig2 verification nonce (LocalNonce / LocalNonces entry of the funding outpoint),
      symbolic: the commitment height it is derived for.  Taproot channels only. -/
  nonce : Option Nat
deriving DecidableEq, Repr, Inhabited

/-- the items of the serialised message after the channel id, in wire order. -/
inductive WItem where
  | u64 (n : Nat)
  | secret (s : Option Nat)     -- 32 bytes; `none` = all zero
  | point (p : Nat)
  | tlvNonce (n : Nat)
deriving DecidableEq, Repr, Inhabited

/-- `ChannelReestablish.Encode`. -/
def Reest.encode (m : Reest) : List WItem :=
  match m.point with
  | none => [.u64 m.nextLocal, .u64 m.remoteTail]
  | some p =>
    [.u64 m.nextLocal, .u64 m.remoteTail, .secret m.lastSecret, .point p] ++
      (match m.nonce with
       | some n => [.tlvNonce n]
       | none => [])

/-- `ChannelReestablish.Decode`. -/
def Reest.decode : List WItem → Option Reest
  | [.u64 a, .u64 b] => some ⟨a, b, none, none, none⟩
  | [.u64 a, .u64 b, .secret s, .point p] => some ⟨a, b, s, some p, none⟩
  | [.u64 a, .u64 b, .secret s, .point p, .tlvNonce n] => some ⟨a, b, s, some p, some n⟩
  | _ => none

/-- what a peer that predates option_data_loss_protect conveys: the two heights. -/
def Reest.legacy (m : Reest) : Reest := { m with lastSecret := none, point := none, nonce := none }

/-- the part of the message `processSync` reads. -/
def Reest.toSync (m : Reest) : SyncMsg :=
  { nextLocal := m.nextLocal, remoteTail := m.remoteTail, lastSecret := m.lastSecret, point := m.point }

/-- `OpenChannel.ChanSyncMsg`, with the taproot nonce (derived for the next local height). -/
def SNode.reest (n : SNode) (dlp taproot : Bool) : Reest :=
  { nextLocal := n.lt + 1, remoteTail := n.rt,
    lastSecret := if n.rt = 0 then none else some (n.rt - 1),
    point := if dlp then some n.lt else none,
    nonce := if taproot then some (n.lt + 1) else none }

/-- `syncChanStates`: channel_ready is sent again, before anything else, iff neither side has
    left height 0 (the peer cannot know whether it ever arrived). -/
def resendChannelReady (mine theirs : Reest) : Bool := theirs.nextLocal == 1 && mine.nextLocal == 1

inductive WErr where
  | sync (e : SyncErr)
  /-- "remote verification nonce not sent" -/
  | noNonce
  /-- the bytes do not parse -/
  | undecodable
deriving DecidableEq, Repr, Inhabited

def WErr.toString : WErr → String
  | .sync e => e.toString
  | .noNonce => "noNonce"
  | .undecodable => "undecodable"

/-- `ProcessChanSyncMsg` on a message held in memory (what the package's own tests do). -/
def SNode.processReest (n : SNode) (tweakless taproot : Bool) (m : Reest) : Except WErr (SNode × List SMsg) :=
  -- order of the code: last-secret check, nonce check, then the height switches
  if m.point.isSome && m.remoteTail != 0 && m.lastSecret != some (m.remoteTail - 1) then
    .error (.sync .invalidSecret)
  else if taproot && m.nonce.isNone then .error .noNonce
  else
    match n.processSync tweakless m.toSync with
    | .error e => .error (.sync e)
    | .ok r => .ok r

/-- what a connected peer does: parse the bytes, then `ProcessChanSyncMsg`. -/
def SNode.processWire (n : SNode) (tweakless taproot : Bool) (w : List WItem) : Except WErr (SNode × List SMsg) :=
  match Reest.decode w with
  | none => .error .undecodable
  | some m => n.processReest tweakless taproot m

/-- both sides send their channel_reestablish over the wire and process what they decode. -/
def SSys.resyncWire (c : SyncCfg) (taproot : Bool) (s : SSys) : Except WErr SSys :=
  match s.a.processWire c.tweakless taproot (s.b.reest c.dlpB taproot).encode,
        s.b.processWire c.tweakless taproot (s.a.reest c.dlpA taproot).encode with
  | .ok (a', outA), .ok (b', outB) => .ok { a := a', b := b', ab := outA, ba := outB }
  | .error e, _ => .error e
  | _, .error e => .error e

end LndModel.C03
