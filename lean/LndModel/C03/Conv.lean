/-
C03 — the index-level invariant (`Mir`) under the link discipline and its preservation by
updates, signatures, disciplined deliveries and reconnections.
-/
import LndModel.C03.Cut
import LndModel.C03.MirLemmas

namespace LndModel.C03

/-- sender `s` (tracking `r`'s local chain), receiver `r`, queue `q` from `s` to `r`. -/
structure Mir (s r : SNode) (q : List SMsg) : Prop where
  /-- everything owed is in flight, in the order it was sent -/
  shape : q.filter SMsg.notUpd = owed s r
  /-- no update lost or duplicated -/
  count : r.rIdx + nFresh q = s.lIdx
  idx : freshIdxOk r.rIdx q = true
  /-- the pending signature while the receiver has not revoked for it -/
  sigOur : ∀ ix, s.rp = some ix → r.lt = s.rt → r.rIdx + freshBeforeSig q = ix.our
  sigF : ∀ ix, s.rp = some ix → r.lt = s.rt → s.lwr = false → ix.their = s.ltIdx.their
  sigT : ∀ ix, s.rp = some ix → r.lt = s.rt → s.lwr = true → r.rt + 1 = s.lt ∧ ix.their = r.rtIdx.our
  /-- the receiver's lowest unrevoked commitment mirrors the sender's view of it -/
  tail0 : r.lt = s.rt → r.ltIdx = s.rtIdx.swap
  tail1 : r.lt = s.rt + 1 → ∃ ix, s.rp = some ix ∧ r.ltIdx = ix.swap

/-- single-node monotonicity of the log counters. -/
structure Loc (n : SNode) : Prop where
  ack : n.ltIdx.their ≤ n.rIdx
  tip : n.rtIdx.our ≤ n.tipIdx.our
  log : n.tipIdx.our ≤ n.lIdx

def Inv2 (s : SSys) : Prop :=
  Inv s ∧ s.a.lp = [] ∧ s.b.lp = [] ∧ Mir s.a s.b s.ab ∧ Mir s.b s.a s.ba ∧ Loc s.a ∧ Loc s.b

theorem inv2_swap (s : SSys) : Inv2 s.swap ↔ Inv2 s := by
  unfold Inv2
  rw [inv_swap]
  simp only [SSys.swap]
  constructor <;> (rintro ⟨h0, h1, h2, h3, h4, h5, h6⟩; exact ⟨h0, h2, h1, h4, h3, h6, h5⟩)

/-- `Mir` only reads these fields of the receiver. -/
theorem mir_congr_r {s r r' : SNode} {q : List SMsg}
    (e1 : r'.rIdx = r.rIdx) (e2 : r'.lt = r.lt) (e3 : r'.rt = r.rt) (e4 : r'.rtIdx = r.rtIdx)
    (e5 : r'.ltIdx = r.ltIdx) (h : Mir s r q) : Mir s r' q := by
  obtain ⟨a1, a2, a3, a4, a5, a6, a7, a8⟩ := h
  have ho : owed s r' = owed s r := by simp [owed, csOf, rvOf, e2, e3]
  refine ⟨by rw [ho]; exact a1, by rw [e1]; exact a2, by rw [e1]; exact a3, ?_, ?_, ?_, ?_, ?_⟩
  · intro ix h1 h2; rw [e1]; exact a4 ix h1 (by rw [← e2]; exact h2)
  · intro ix h1 h2 h3; exact a5 ix h1 (by rw [← e2]; exact h2) h3
  · intro ix h1 h2 h3; rw [e3, e4]; exact a6 ix h1 (by rw [← e2]; exact h2) h3
  · intro h1; rw [e5]; exact a7 (by rw [← e2]; exact h1)
  · intro h1; rw [e5]; exact a8 (by rw [← e2]; exact h1)

/-- ... and these of the sender. -/
theorem mir_congr_s {s s' r : SNode} {q : List SMsg}
    (e1 : s'.lIdx = s.lIdx) (e2 : s'.rp = s.rp) (e3 : s'.rt = s.rt) (e4 : s'.lt = s.lt)
    (e5 : s'.lwr = s.lwr) (e6 : s'.ltIdx = s.ltIdx) (e7 : s'.rtIdx = s.rtIdx)
    (h : Mir s r q) : Mir s' r q := by
  obtain ⟨a1, a2, a3, a4, a5, a6, a7, a8⟩ := h
  have ho : owed s' r = owed s r := by simp [owed, csOf, rvOf, e2, e3, e4, e5]
  refine ⟨by rw [ho]; exact a1, by rw [e1]; exact a2, a3, ?_, ?_, ?_, ?_, ?_⟩
  · intro ix h1 h2; exact a4 ix (by rw [← e2]; exact h1) (by rw [← e3]; exact h2)
  · intro ix h1 h2 h3; rw [e6]; exact a5 ix (by rw [← e2]; exact h1) (by rw [← e3]; exact h2) (by rw [← e5]; exact h3)
  · intro ix h1 h2 h3; rw [e4]; exact a6 ix (by rw [← e2]; exact h1) (by rw [← e3]; exact h2) (by rw [← e5]; exact h3)
  · intro h1; rw [e7]; exact a7 (by rw [← e3]; exact h1)
  · intro h1
    obtain ⟨ix, h2, h3⟩ := a8 (by rw [← e3]; exact h1)
    exact ⟨ix, by rw [e2]; exact h2, h3⟩

/-- the signature is in the queue while it is owed. -/
theorem hasSig_of_owed {s r : SNode} {q : List SMsg} (h : Mir s r q) {ix : Idx}
    (h1 : s.rp = some ix) (h2 : r.lt = s.rt) : hasSig q = true := by
  rw [← hasSig_filter, h.shape, hasSig_owed]
  exact ⟨ix, h1, h2⟩

theorem noSig_of_not_owed {s r : SNode} {q : List SMsg} (h : Mir s r q)
    (h1 : ¬ ∃ ix, s.rp = some ix ∧ r.lt = s.rt) : hasSig q = false := by
  cases hq : hasSig q with
  | false => rfl
  | true =>
    rw [← hasSig_filter, h.shape, hasSig_owed] at hq
    exact absurd hq h1

/-! ## updates -/

theorem mir_send_upd {s r : SNode} {q : List SMsg} (h : Mir s r q) (f : Bool) :
    Mir (s.act (.upd f)).1 r (q ++ (s.act (.upd f)).2.toList) := by
  obtain ⟨a1, a2, a3, a4, a5, a6, a7, a8⟩ := h
  have hm : Mir s r q := ⟨a1, a2, a3, a4, a5, a6, a7, a8⟩
  cases f with
  | false =>
    simp only [SNode.act, Option.toList]
    refine ⟨?_, ?_, ?_, ?_, a5, a6, a7, a8⟩
    · simpa [List.filter_append, SMsg.notUpd, SMsg.isSig, SMsg.isRev] using a1
    · simpa [SMsg.isFresh] using a2
    · rw [freshIdxOk_append, a3]; simp [freshIdxOk]
    · intro ix h1 h2
      rw [freshBeforeSig_append_sig _ _ (hasSig_of_owed hm h1 h2)]; exact a4 ix h1 h2
  | true =>
    simp only [SNode.act, Option.toList]
    refine ⟨?_, ?_, ?_, ?_, a5, a6, a7, a8⟩
    · show List.filter SMsg.notUpd (q ++ [SMsg.upd (some s.lIdx)]) = owed s r
      simpa [List.filter_append, SMsg.notUpd, SMsg.isSig, SMsg.isRev] using a1
    · simp [SMsg.isFresh]; omega
    · rw [freshIdxOk_append, a3]; simp [freshIdxOk]; omega
    · intro ix h1 h2
      rw [freshBeforeSig_append_sig _ _ (hasSig_of_owed hm h1 h2)]; exact a4 ix h1 h2

theorem loc_upd {n : SNode} (h : Loc n) (f : Bool) : Loc (n.act (.upd f)).1 := by
  obtain ⟨h1, h2, h3⟩ := h
  cases f
  · exact ⟨h1, h2, h3⟩
  · exact ⟨h1, h2, by show n.tipIdx.our ≤ n.lIdx + 1; omega⟩

theorem inv2_upd (s : SSys) (f : Bool) (h : Inv2 s) : Inv2 (s.actA (.upd f)) := by
  obtain ⟨h0, h1, h2, h3, h4, h5, h6⟩ := h
  refine ⟨inv_upd s f h0, ?_, h2, mir_send_upd h3 f, ?_, loc_upd h5 f, h6⟩
  · cases f <;> exact h1
  · cases f
    · exact mir_congr_r (r := s.a) rfl rfl rfl rfl rfl h4
    · exact mir_congr_r (r := s.a) rfl rfl rfl rfl rfl h4

/-! ## signing -/

theorem mir_send_sig {s r : SNode} {q : List SMsg} (h : Mir s r q) (hrp : s.rp = none)
    (hr : r.lt = s.rt) :
    Mir s.doSign.1 r (q ++ s.doSign.2.toList) := by
  obtain ⟨a1, a2, a3, a4, a5, a6, a7, a8⟩ := h
  have hm : Mir s r q := ⟨a1, a2, a3, a4, a5, a6, a7, a8⟩
  have hns : hasSig q = false := noSig_of_not_owed hm (by rintro ⟨ix, h1, _⟩; rw [hrp] at h1; cases h1)
  simp only [SNode.doSign, hrp, Option.toList]
  refine ⟨?_, ?_, ?_, ?_, ?_, ?_, a7, ?_⟩
  · rw [List.filter_append, a1]
    simp [owed, csOf, rvOf, hrp, hr, SMsg.notUpd, SMsg.isSig]
  · simpa [SMsg.isFresh] using a2
  · rw [freshIdxOk_append, a3]; simp [freshIdxOk]
  · intro ix h1 _
    simp only [Option.some.injEq] at h1
    rw [freshBeforeSig_append_nosig _ _ hns, ← h1]
    simp [freshBeforeSig]; omega
  · intro ix h1 _ _
    simp only [Option.some.injEq] at h1
    rw [← h1]
  · intro ix _ _ h3; simp at h3
  · intro h1; simp only at h1; omega

theorem loc_sign {n : SNode} (h : Loc n) : Loc n.doSign.1 := by
  obtain ⟨h1, h2, h3⟩ := h
  unfold SNode.doSign
  cases hrp : n.rp with
  | some ix => exact ⟨h1, h2, h3⟩
  | none =>
    refine ⟨h1, ?_, ?_⟩
    · simp [SNode.tipIdx, hrp] at h2 h3 ⊢; omega
    · simp [SNode.tipIdx]

theorem inv2_sign (s : SSys) (h : Inv2 s) : Inv2 (s.actA .sign) := by
  obtain ⟨h0, h1, h2, h3, h4, h5, h6⟩ := h
  cases hrp : s.a.rp with
  | some ix =>
    have : s.actA .sign = s := by simp [SSys.actA, SNode.act, SNode.doSign, hrp]
    rw [this]; exact ⟨h0, h1, h2, h3, h4, h5, h6⟩
  | none =>
    have hr : s.b.lt = s.a.rt := by
      have := h0.2.sigs; have := h0.2.revs; rw [tipH_none hrp] at *; omega
    refine ⟨inv_sign s h0, ?_, h2, ?_, ?_, ?_, h6⟩
    · simpa [SSys.actA, SNode.act, SNode.doSign, hrp] using h1
    · simpa [SSys.actA, SNode.act] using mir_send_sig h3 hrp hr
    · have : Mir s.b (s.actA .sign).a s.ba := by
        simp only [SSys.actA, SNode.act, SNode.doSign, hrp]
        exact mir_congr_r (r := s.a) rfl rfl rfl rfl rfl h4
      simpa [SSys.actA] using this
    · simpa [SSys.actA, SNode.act] using loc_sign h5

/-! ## disciplined deliveries -/

/-- the receiver takes an update from the head of the queue. -/
theorem mir_recv_upd {s r : SNode} {q : List SMsg} {i : Option Nat} (h : Mir s r (SMsg.upd i :: q)) :
    Mir s (r.recv (.upd i)) q ∧ r.accepts (.upd i) = true := by
  obtain ⟨a1, a2, a3, a4, a5, a6, a7, a8⟩ := h
  cases i with
  | none =>
    refine ⟨⟨?_, ?_, ?_, ?_, a5, a6, a7, a8⟩, rfl⟩
    · show List.filter SMsg.notUpd q = owed s r
      simpa [List.filter, SMsg.notUpd, SMsg.isSig, SMsg.isRev] using a1
    · simpa [SMsg.isFresh, SNode.recv] using a2
    · simpa [freshIdxOk, SNode.recv] using a3
    · intro ix h1 h2; simpa [freshBeforeSig, SMsg.isFresh, SNode.recv] using a4 ix h1 h2
  | some i =>
    simp only [freshIdxOk, Bool.and_eq_true, beq_iff_eq] at a3
    refine ⟨⟨?_, ?_, ?_, ?_, a5, a6, a7, a8⟩, by simp [SNode.accepts, a3.1]⟩
    · show List.filter SMsg.notUpd q = owed s r
      simpa [List.filter, SMsg.notUpd, SMsg.isSig, SMsg.isRev] using a1
    · simp [SMsg.isFresh] at a2; simp [SNode.recv]; omega
    · simpa [SNode.recv] using a3.2
    · intro ix h1 h2
      have := a4 ix h1 h2
      simp [freshBeforeSig, SMsg.isFresh] at this; simp [SNode.recv]; omega

theorem loc_recv_upd {n : SNode} (h : Loc n) (i : Option Nat) : Loc (n.recv (.upd i)) := by
  obtain ⟨h1, h2, h3⟩ := h
  cases i
  · exact ⟨h1, h2, h3⟩
  · exact ⟨by show n.ltIdx.their ≤ n.rIdx + 1; omega, h2, h3⟩

/-- the receiver takes the sender's revocation from the head of the queue. -/
theorem mir_recv_rev {s r : SNode} {q q2 : List SMsg} {hh : Nat} {ixr : Idx}
    (h : Mir s r (SMsg.rev hh :: q)) (h2 : Mir r s q2) (hlt : s.lt = r.rt + 1) (hrp : r.rp = some ixr) :
    Mir s r.recvRev q ∧ Mir r.recvRev s q2 ∧ r.accepts (.rev hh) = true := by
  obtain ⟨a1, a2, a3, a4, a5, a6, a7, a8⟩ := h
  obtain ⟨b1, b2, b3, b4, b5, b6, b7, b8⟩ := h2
  have hrv : rvOf s r = [SMsg.rev (s.lt - 1)] := by simp [rvOf, hlt]
  simp only [List.filter, SMsg.notUpd, SMsg.isSig, SMsg.isRev, Bool.false_or] at a1
  -- shape of the rest of the queue and the height of the revocation
  have hshape : (s.lwr = true → csOf s r = []) ∧ q.filter SMsg.notUpd = csOf s r ∧ hh = r.rt := by
    unfold owed at a1
    rw [hrv] at a1
    cases hl : s.lwr <;> cases hsp : s.rp <;> by_cases hr : r.lt = s.rt <;>
      simp [csOf, hl, hsp, hr] at a1 ⊢
    all_goals (try omega)
    all_goals (obtain ⟨e1, e2⟩ := a1; exact ⟨e2, by omega⟩)
  obtain ⟨hcsT, hq, hheight⟩ := hshape
  have hcs' : csOf s r.recvRev = csOf s r := by simp [csOf, SNode.recvRev, hrp]
  have hrv' : rvOf s r.recvRev = [] := by simp [rvOf, SNode.recvRev, hrp]; omega
  refine ⟨⟨?_, ?_, ?_, ?_, ?_, ?_, ?_, ?_⟩, ⟨?_, ?_, ?_, ?_, ?_, ?_, ?_, ?_⟩, ?_⟩
  · rw [hq]; simp [owed, hcs', hrv']
  · simpa [SMsg.isFresh, SNode.recvRev, hrp] using a2
  · simpa [freshIdxOk, SNode.recvRev, hrp] using a3
  · intro ix h1 h2
    simpa [freshBeforeSig, SMsg.isFresh, SNode.recvRev, hrp] using a4 ix h1 (by simpa [SNode.recvRev, hrp] using h2)
  · intro ix h1 h2 h3
    exact a5 ix h1 (by simpa [SNode.recvRev, hrp] using h2) h3
  · intro ix h1 h2 h3
    exfalso
    have : csOf s r = [] := hcsT h3
    have hr : r.lt = s.rt := by simpa [SNode.recvRev, hrp] using h2
    simp [csOf, h1, hr] at this
  · intro h1; simpa [SNode.recvRev, hrp] using a7 (by simpa [SNode.recvRev, hrp] using h1)
  · intro h1
    simpa [SNode.recvRev, hrp] using a8 (by simpa [SNode.recvRev, hrp] using h1)
  -- the receiver as a sender
  · rw [b1]
    have : ¬ (s.lt = r.rt) := by omega
    simp [owed, csOf, rvOf, SNode.recvRev, hrp, this]
  · simpa [SNode.recvRev, hrp] using b2
  · exact b3
  · intro ix h1 _; simp [SNode.recvRev, hrp] at h1
  · intro ix h1 _ _; simp [SNode.recvRev, hrp] at h1
  · intro ix h1 _ _; simp [SNode.recvRev, hrp] at h1
  · intro _
    obtain ⟨ix, e1, e2⟩ := b8 hlt
    rw [hrp] at e1; cases e1
    simpa [SNode.recvRev, hrp] using e2
  · intro h1; simp [SNode.recvRev, hrp] at h1; omega
  · simp [SNode.accepts, hrp, hheight]

theorem loc_recvRev {n : SNode} (h : Loc n) : Loc n.recvRev := by
  obtain ⟨h1, h2, h3⟩ := h
  unfold SNode.recvRev
  cases hrp : n.rp with
  | none => exact ⟨h1, h2, h3⟩
  | some ix =>
    refine ⟨h1, ?_, ?_⟩
    · simp [SNode.tipIdx]
    · simpa [SNode.tipIdx, hrp] using h3

/-- state of the receiver after it has accepted a signature and revoked for it at once. -/
def revAfterSig (r : SNode) : SNode :=
  { r with lt := r.lt + 1, ltIdx := ⟨r.rtIdx.our, r.rIdx⟩, lp := [], lwr := true,
           hist := r.hist ++ [SMsg.rev r.lt] }

theorem recv_sig_revoke {r : SNode} (hlp : r.lp = []) (hh : Nat) (ix : Idx) :
    (r.recv (.sig hh ix)).doRevoke = (revAfterSig r, some (SMsg.rev r.lt)) := by
  simp [SNode.recv, SNode.doRevoke, hlp, revAfterSig]

/-- the receiver takes the sender's signature from the head of the queue and revokes at once. -/
theorem mir_recv_sig {s r : SNode} {q q2 : List SMsg} {hh : Nat} {ix : Idx}
    (h : Mir s r (SMsg.sig hh ix :: q)) (h2 : Mir r s q2) (hlp : r.lp = [])
    (hb : r.rt = s.lt ∨ r.rt + 1 = s.lt) :
    Mir s (revAfterSig r) q ∧ Mir (revAfterSig r) s (q2 ++ [SMsg.rev r.lt]) ∧
      r.accepts (.sig hh ix) = true := by
  have hsig : hasSig (SMsg.sig hh ix :: q) = true := by simp [SMsg.isSig]
  have hm := h
  obtain ⟨a1, a2, a3, a4, a5, a6, a7, a8⟩ := h
  have hm2 := h2
  obtain ⟨b1, b2, b3, b4, b5, b6, b7, b8⟩ := h2
  obtain ⟨ix0, hsp, hr⟩ := (hasSig_owed s r).1 (by rw [← a1, hasSig_filter]; exact hsig)
  simp only [List.filter, SMsg.notUpd, SMsg.isSig, Bool.true_or] at a1
  -- the head of the queue is the pending signature
  have hshape : hh = s.rt + 1 ∧ ix = ix0 ∧ q.filter SMsg.notUpd = rvOf s r ∧
      (s.lwr = false → ¬ (r.rt + 1 = s.lt)) := by
    unfold owed at a1
    cases hl : s.lwr <;> by_cases hrv : r.rt + 1 = s.lt <;>
      simp [csOf, rvOf, hl, hsp, hr, hrv] at a1 ⊢
    all_goals (first | omega | (obtain ⟨⟨e1, e2⟩, e3⟩ := a1; exact ⟨e1, e2, e3⟩))
  obtain ⟨e1, e2, e3, e4⟩ := hshape
  subst e2
  have hour : ix.our = r.rIdx := by
    have := a4 ix hsp hr; simp [freshBeforeSig] at this; omega
  have htheir : ix.their = r.rtIdx.our := by
    cases hl : s.lwr with
    | true => exact (a6 ix hsp hr hl).2
    | false =>
      have h1 := a5 ix hsp hr hl
      have h2 : r.rt = s.lt := by have := e4 hl; omega
      have h3 := b7 h2.symm
      rw [h1, h3]; rfl
  have hcs' : csOf s (revAfterSig r) = [] := by
    have : ¬ (r.lt + 1 = s.rt) := by omega
    simp [csOf, revAfterSig, hsp, this]
  have hrv' : rvOf s (revAfterSig r) = rvOf s r := rfl
  refine ⟨⟨?_, ?_, ?_, ?_, ?_, ?_, ?_, ?_⟩, ⟨?_, ?_, ?_, ?_, ?_, ?_, ?_, ?_⟩, ?_⟩
  · rw [e3]; simp [owed, hcs', hrv']
  · simpa [SMsg.isFresh, revAfterSig] using a2
  · simpa [freshIdxOk, revAfterSig] using a3
  · intro ix' _ h2; simp [revAfterSig] at h2; omega
  · intro ix' _ h2; simp [revAfterSig] at h2; omega
  · intro ix' _ h2; simp [revAfterSig] at h2; omega
  · intro h1; simp [revAfterSig] at h1; omega
  · intro _
    refine ⟨ix, hsp, ?_⟩
    simp [revAfterSig, Idx.swap, hour, htheir]
  -- the receiver as a sender: its revocation goes out behind whatever it had in flight
  · have hrvo : rvOf r s = [] := by
      have : ¬ (s.rt + 1 = r.lt) := by omega
      simp [rvOf, this]
    have hold : owed r s = csOf r s := by simp [owed, hrvo]
    rw [List.filter_append, b1, hold]
    have hc : csOf (revAfterSig r) s = csOf r s := rfl
    have hv : rvOf (revAfterSig r) s = [SMsg.rev r.lt] := by
      have : s.rt + 1 = r.lt + 1 := by omega
      simp [rvOf, revAfterSig, this]
    have ho : owed (revAfterSig r) s = csOf r s ++ [SMsg.rev r.lt] := by
      unfold owed; rw [hc, hv]; simp [revAfterSig]
    rw [ho]; simp [SMsg.notUpd, SMsg.isRev, SMsg.isSig]
  · simpa [SMsg.isFresh, revAfterSig] using b2
  · rw [freshIdxOk_append, b3]; simp [freshIdxOk]
  · intro ix' h1 h2
    have h1' : r.rp = some ix' := by simpa [revAfterSig] using h1
    have h2' : s.lt = r.rt := by simpa [revAfterSig] using h2
    rw [freshBeforeSig_append_sig _ _ (hasSig_of_owed hm2 h1' h2')]
    exact b4 ix' h1' h2'
  · intro ix' _ _ h3; simp [revAfterSig] at h3
  · intro ix' h1 h2 _
    have h1' : r.rp = some ix' := by simpa [revAfterSig] using h1
    have h2' : s.lt = r.rt := by simpa [revAfterSig] using h2
    refine ⟨by simp [revAfterSig]; omega, ?_⟩
    cases hl : r.lwr with
    | false =>
      have := b5 ix' h1' h2' hl
      rw [this, a7 hr]; rfl
    | true =>
      have := (b6 ix' h1' h2' hl).1; omega
  · intro h1; exact b7 (by simpa [revAfterSig] using h1)
  · intro h1
    obtain ⟨ix', h2, h3⟩ := b8 (by simpa [revAfterSig] using h1)
    exact ⟨ix', by simpa [revAfterSig] using h2, h3⟩
  · simp [SNode.accepts, hlp, e1, hr, hour, htheir]

theorem loc_revAfterSig {n : SNode} (h : Loc n) : Loc (revAfterSig n) := by
  obtain ⟨_, h2, h3⟩ := h
  exact ⟨by simp [revAfterSig], by simpa [revAfterSig, SNode.tipIdx] using h2,
         by simpa [revAfterSig, SNode.tipIdx] using h3⟩

end LndModel.C03
