/-
C03 — theorems about the whole decision table of `ProcessChanSyncMsg` (`Dlp.lean`): the closed
form of the table, the state every arm leaves behind, and what happens when one side's database
is ROLLED BACK to an earlier point of the run (lost state; the case the data-loss-protect fields
exist for).

The property C03 itself is about two honest peers with intact databases ("neither side reports
data loss": `sync_no_false_dataloss`).  The theorems here are the other half of the table: the
error arms fire when, and only when, the peer's message is inconsistent with the node's own
durable state; a node whose peer proves to be ahead never answers with a retransmission and
never asks for a force close (it would broadcast a revoked commitment); the peer with the
intact state never believes it lost data itself.
-/
import LndModel.C03.Dlp
import LndModel.C03.Props
import LndModel.C03.LRun

namespace LndModel.C03

/-! ## `processSyncSt` refines `processSync` -/

theorem syncLocal_state {n n1 : SNode} {dlp : Bool} {rtl : Nat} {first : List SMsg}
    (h : n.syncLocal dlp rtl = .ok (n1, first)) : n1 = n ∨ (n1 = n.doSign.1 ∧ rtl + 1 = n.lt) := by
  unfold SNode.syncLocal at h
  split at h
  · cases h
  · split at h
    · cases h
    · split at h
      · cases h; exact .inl rfl
      · split at h
        · cases h; exact .inr ⟨rfl, by omega⟩
        · cases h; exact .inl rfl

theorem doSign_heights (n : SNode) :
    n.doSign.1.lt = n.lt ∧ n.doSign.1.rt = n.rt ∧ n.doSign.1.lp = n.lp ∧ n.doSign.1.ltIdx = n.ltIdx ∧
    n.doSign.1.rtIdx = n.rtIdx := by
  unfold SNode.doSign; cases n.rp <;> simp

/-- the answer of `processSyncSt` is the answer of `processSync`; on success so is the state. -/
theorem processSyncSt_answer (n : SNode) (tw : Bool) (m : SyncMsg) :
    (n.processSyncSt tw m).2 = (n.processSync tw m).map Prod.snd := by
  unfold SNode.processSyncSt SNode.processSync
  split
  · rfl
  · cases h1 : n.syncLocal m.point.isSome m.remoteTail with
    | error e => rfl
    | ok r =>
      obtain ⟨n1, first⟩ := r
      simp only []
      cases h2 : n.syncRemote m.nextLocal first with
      | error e => rfl
      | ok out => simp only []; split <;> rfl

theorem processSyncSt_ok {n n1 : SNode} {tw : Bool} {m : SyncMsg} {out : List SMsg} :
    n.processSync tw m = .ok (n1, out) ↔ n.processSyncSt tw m = (n1, .ok out) := by
  unfold SNode.processSyncSt SNode.processSync
  split
  · simp
  · cases h1 : n.syncLocal m.point.isSome m.remoteTail with
    | error e => simp
    | ok r =>
      obtain ⟨n1', first⟩ := r
      simp only []
      cases h2 : n.syncRemote m.nextLocal first with
      | error e => simp
      | ok out' =>
        simp only []
        split
        · constructor
          · intro h; cases h; rfl
          · intro h; cases h; rfl
        · simp

/-- on EVERY path — the error paths included — the channel is left as it was or with the one
    fresh signature of the "owe revocation" arm; no height moves, nothing is revoked. -/
theorem processSyncSt_state (n : SNode) (tw : Bool) (m : SyncMsg) :
    (n.processSyncSt tw m).1 = n ∨
      ((n.processSyncSt tw m).1 = n.doSign.1 ∧ m.remoteTail + 1 = n.lt) := by
  unfold SNode.processSyncSt
  split
  · exact .inl rfl
  · cases h1 : n.syncLocal m.point.isSome m.remoteTail with
    | error e => exact .inl rfl
    | ok r =>
      obtain ⟨n1, first⟩ := r
      have hs := syncLocal_state h1
      simp only []
      cases h2 : n.syncRemote m.nextLocal first with
      | error e => exact hs
      | ok out => simp only []; split <;> exact hs

theorem processSyncSt_heights (n : SNode) (tw : Bool) (m : SyncMsg) :
    (n.processSyncSt tw m).1.lt = n.lt ∧ (n.processSyncSt tw m).1.rt = n.rt := by
  rcases processSyncSt_state n tw m with h | ⟨h, _⟩
  · rw [h]; exact ⟨rfl, rfl⟩
  · rw [h]; exact ⟨(doSign_heights n).1, (doSign_heights n).2.1⟩

/-! ## the decision table in closed form -/

/-- the last-secret check passes (it is made only with the data-loss-protect fields and only
    when the peer claims a revocation at all). -/
def secretOk (m : SyncMsg) : Bool :=
  !(m.point.isSome && m.remoteTail != 0 && m.lastSecret != some (m.remoteTail - 1))

/-- the `default:` arms of both height switches are dead code: a commitment chain holds at most
    two commitments, so once "ahead" and "behind" are excluded only the two handled cases
    remain. -/
theorem syncRemote_default_unreachable (n : SNode) (nl : Nat)
    (h1 : ¬ nl > n.tipH + 1) (h2 : ¬ nl ≤ n.rt) : nl = n.tipH + 1 ∨ nl = n.tipH := by
  have := tipH_le n; have := tipH_ge n; omega

theorem syncLocal_default_unreachable (n : SNode) (rtl : Nat)
    (h1 : ¬ rtl > n.lt) (h2 : ¬ rtl + 1 < n.lt) : rtl = n.lt ∨ rtl + 1 = n.lt := by omega

theorem syncLocal_cases (n : SNode) (dlp : Bool) (rtl : Nat) :
    (rtl > n.lt ∧ n.syncLocal dlp rtl = .error (if dlp = true then .localDataLoss else .cannotSync)) ∨
    (¬ rtl > n.lt ∧ rtl + 1 < n.lt ∧ n.syncLocal dlp rtl = .error .remoteDataLoss) ∨
    (¬ rtl > n.lt ∧ ¬ rtl + 1 < n.lt ∧ ∃ r, n.syncLocal dlp rtl = .ok r) := by
  unfold SNode.syncLocal
  by_cases c1 : rtl > n.lt
  · left; exact ⟨c1, by simp only [c1, if_true]⟩
  · by_cases c2 : rtl + 1 < n.lt
    · right; left; exact ⟨c1, c2, by simp only [c1, c2, if_true, if_false]⟩
    · right; right
      refine ⟨c1, c2, ?_⟩
      simp only [c1, c2, if_false]
      split
      · exact ⟨_, rfl⟩
      · split <;> exact ⟨_, rfl⟩

theorem syncRemote_cases (n : SNode) (nl : Nat) (first : List SMsg) :
    (nl > n.tipH + 1 ∧ n.syncRemote nl first = .error .cannotSync) ∨
    (¬ nl > n.tipH + 1 ∧ nl ≤ n.rt ∧ n.syncRemote nl first = .error .remoteDataLoss) ∨
    (¬ nl > n.tipH + 1 ∧ ¬ nl ≤ n.rt ∧ ∃ out, n.syncRemote nl first = .ok out) := by
  unfold SNode.syncRemote
  by_cases d1 : nl > n.tipH + 1
  · left; exact ⟨d1, by simp only [d1, if_true]⟩
  · by_cases d2 : nl ≤ n.rt
    · right; left; exact ⟨d1, d2, by simp only [d1, d2, if_true, if_false]⟩
    · right; right
      refine ⟨d1, d2, ?_⟩
      simp only [d1, d2, if_false]
      split
      · exact ⟨_, rfl⟩
      · split
        · exact ⟨_, rfl⟩
        · exfalso
          rcases syncRemote_default_unreachable n nl d1 d2 with e | e <;> contradiction

theorem syncLocal_ok_iff (n : SNode) (dlp : Bool) (rtl : Nat) :
    (∃ r, n.syncLocal dlp rtl = .ok r) ↔ (rtl = n.lt ∨ rtl + 1 = n.lt) := by
  unfold SNode.syncLocal
  constructor
  · rintro ⟨r, h⟩
    split at h
    · cases h
    · split at h
      · cases h
      · omega
  · intro h
    have c1 : ¬ rtl > n.lt := by omega
    have c2 : ¬ rtl + 1 < n.lt := by omega
    simp only [c1, c2, if_false]
    split
    · exact ⟨_, rfl⟩
    · split <;> exact ⟨_, rfl⟩

theorem syncRemote_ok_iff (n : SNode) (nl : Nat) (first : List SMsg) :
    (∃ out, n.syncRemote nl first = .ok out) ↔
      (nl = n.rt + 1 ∨ (n.rp.isSome = true ∧ nl = n.rt + 2)) := by
  have hle := tipH_le n
  have hge := tipH_ge n
  unfold SNode.syncRemote
  constructor
  · rintro ⟨out, h⟩
    split at h
    · cases h
    · split at h
      · cases h
      · rename_i d1 d2
        cases hrp : n.rp with
        | none => have := tipH_none hrp; left; omega
        | some ix =>
          have := tipH_some hrp
          by_cases e : nl = n.rt + 1
          · left; exact e
          · right; exact ⟨rfl, by omega⟩
  · intro h
    have d1 : ¬ nl > n.tipH + 1 := by
      rcases h with h | ⟨hp, h⟩
      · omega
      · obtain ⟨ix, hix⟩ := Option.isSome_iff_exists.mp hp
        have := tipH_some hix; omega
    have d2 : ¬ nl ≤ n.rt := by
      rcases h with h | ⟨_, h⟩ <;> omega
    simp only [d1, d2, if_false]
    split
    · exact ⟨_, rfl⟩
    · split
      · exact ⟨_, rfl⟩
      · exfalso
        rcases syncRemote_default_unreachable n nl d1 d2 with e | e <;> contradiction

/-- **The decision table.**  `ProcessChanSyncMsg` answers ok exactly when the secret check
    passes, the peer's view of our chain is our tail or one behind it, the peer's next height is
    one beyond our view of its tail — or two beyond, if a signed commitment is pending — and the
    commit point fits. -/
theorem processSync_ok_iff (n : SNode) (tw : Bool) (m : SyncMsg) :
    (∃ r, n.processSync tw m = .ok r) ↔
      (secretOk m = true ∧ (m.remoteTail = n.lt ∨ m.remoteTail + 1 = n.lt) ∧
       (m.nextLocal = n.rt + 1 ∨ (n.rp.isSome = true ∧ m.nextLocal = n.rt + 2)) ∧
       n.pointOk tw m = true) := by
  unfold SNode.processSync secretOk
  cases hs : (m.point.isSome && m.remoteTail != 0 && m.lastSecret != some (m.remoteTail - 1))
  · simp only [Bool.false_eq_true, if_false, Bool.not_false, true_and]
    cases h1 : n.syncLocal m.point.isSome m.remoteTail with
    | error e =>
      have hno : ¬ (m.remoteTail = n.lt ∨ m.remoteTail + 1 = n.lt) := by
        intro h
        obtain ⟨r, hr⟩ := (syncLocal_ok_iff n m.point.isSome m.remoteTail).mpr h
        rw [h1] at hr; cases hr
      constructor
      · rintro ⟨r, h⟩; cases h
      · rintro ⟨h, _⟩; exact absurd h hno
    | ok r1 =>
      obtain ⟨n1, first⟩ := r1
      have hloc := (syncLocal_ok_iff n m.point.isSome m.remoteTail).mp ⟨_, h1⟩
      simp only []
      cases h2 : n.syncRemote m.nextLocal first with
      | error e =>
        have hno : ¬ (m.nextLocal = n.rt + 1 ∨ (n.rp.isSome = true ∧ m.nextLocal = n.rt + 2)) := by
          intro h
          obtain ⟨r, hr⟩ := (syncRemote_ok_iff n m.nextLocal first).mpr h
          rw [h2] at hr; cases hr
        constructor
        · rintro ⟨r, h⟩; cases h
        · rintro ⟨_, h, _⟩; exact absurd h hno
      | ok out =>
        have hrem := (syncRemote_ok_iff n m.nextLocal first).mp ⟨_, h2⟩
        simp only []
        cases hp : n.pointOk tw m
        · constructor
          · rintro ⟨r, h⟩; simp at h
          · rintro ⟨_, _, h⟩; cases h
        · exact ⟨fun _ => ⟨hloc, hrem, rfl⟩, fun _ => ⟨(n1, out), by simp⟩⟩
  · simp

/-- closed form of the answer to a peer that claims to be ahead. -/
theorem processReestSt_ahead (n : SNode) (tw tap : Bool) (m : Reest) (h : m.remoteTail > n.lt) :
    n.processReestSt tw tap false m =
      (n, .error (if secretOk m.toSync = false then WErr.sync .invalidSecret
                  else if (tap && m.nonce.isNone) = true then WErr.noNonce
                  else WErr.sync (if m.point.isSome = true then SyncErr.localDataLoss else SyncErr.cannotSync))) := by
  have hl : ∀ dlp, n.syncLocal dlp m.remoteTail =
      .error (if dlp = true then SyncErr.localDataLoss else SyncErr.cannotSync) := by
    intro dlp; unfold SNode.syncLocal; simp [h]
  have e1 : m.toSync.remoteTail = m.remoteTail := rfl
  have e2 : m.toSync.point = m.point := rfl
  have e3 : m.toSync.lastSecret = m.lastSecret := rfl
  unfold SNode.processReestSt SNode.processSyncSt secretOk
  simp only [e1, e2, e3, hl]
  cases hs : (m.point.isSome && m.remoteTail != 0 && m.lastSecret != some (m.remoteTail - 1))
  · cases hn : (tap && m.nonce.isNone)
    · simp
    · simp
  · simp

/-- **Never answer a peer that proves to be ahead.**  If the peer claims a revocation of ours
    beyond our own local chain tail, `ProcessChanSyncMsg` returns an error on every path — there
    is no retransmission, no re-sign, the durable state is untouched.  If the claim is backed by
    the matching secret the link's reaction never broadcasts our (revoked) commitment; with the
    data-loss-protect fields it records the data loss together with the peer's commit point. -/
theorem peer_ahead_never_answered (n : SNode) (tw tap : Bool) (m : Reest) (h : m.remoteTail > n.lt) :
    (n.linkReact tw tap false m).sent = [] ∧ (n.linkReact tw tap false m).node = n ∧
    (n.linkReact tw tap false m).verdict ≠ .proceed ∧
    (secretOk m.toSync = true → (n.linkReact tw tap false m).verdict.broadcasts = false) ∧
    (secretOk m.toSync = true → (tap = true → m.nonce.isSome = true) → m.point.isSome = true →
      (n.linkReact tw tap false m).verdict = .dataLoss ∧
      (n.linkReact tw tap false m).marks = { dataLoss := m.point }) := by
  unfold SNode.linkReact
  rw [processReestSt_ahead n tw tap m h]
  cases hs : secretOk m.toSync
  · simp [linkVerdict, verdictOfErr]
  · cases hn : (tap && m.nonce.isNone)
    · cases hp : m.point.isSome
      · simp [linkVerdict, verdictOfErr, Verdict.broadcasts]
      · simp [linkVerdict, verdictOfErr, Verdict.broadcasts, marksOf]
    · have hn' : tap = true ∧ m.nonce.isNone = true := by simpa using hn
      simp only [linkVerdict, verdictOfErr, Verdict.broadcasts]
      refine ⟨by simp, by simp, by simp, by simp, ?_⟩
      intro _ h2 _
      have := h2 hn'.1
      cases hm : m.nonce <;> simp_all

/-! ## heights never go back -/

structure Mono (s t : SSys) : Prop where
  alt : s.a.lt ≤ t.a.lt
  art : s.a.rt ≤ t.a.rt
  blt : s.b.lt ≤ t.b.lt
  brt : s.b.rt ≤ t.b.rt

theorem Mono.refl (s : SSys) : Mono s s := ⟨Nat.le_refl _, Nat.le_refl _, Nat.le_refl _, Nat.le_refl _⟩

theorem Mono.trans {s t u : SSys} (h1 : Mono s t) (h2 : Mono t u) : Mono s u :=
  ⟨Nat.le_trans h1.alt h2.alt, Nat.le_trans h1.art h2.art, Nat.le_trans h1.blt h2.blt,
   Nat.le_trans h1.brt h2.brt⟩

theorem act_heights (n : SNode) (x : SAct) : n.lt ≤ (n.act x).1.lt ∧ (n.act x).1.rt = n.rt := by
  cases x with
  | upd f => cases f <;> simp [SNode.act]
  | sign => simp only [SNode.act]; exact ⟨Nat.le_of_eq (doSign_heights n).1.symm, (doSign_heights n).2.1⟩
  | revoke =>
    simp only [SNode.act, SNode.doRevoke]
    cases n.lp <;> simp

theorem recv_heights (n : SNode) (m : SMsg) : (n.recv m).lt = n.lt ∧ n.rt ≤ (n.recv m).rt := by
  cases m with
  | upd i => cases i <;> simp [SNode.recv]
  | sig h ix => simp [SNode.recv]
  | rev h => simp only [SNode.recv, SNode.recvRev]; cases n.rp <;> simp

theorem mono_actA (s : SSys) (x : SAct) : Mono s (s.actA x) := by
  have := act_heights s.a x
  exact ⟨this.1, Nat.le_of_eq this.2.symm, Nat.le_refl _, Nat.le_refl _⟩

theorem mono_actB (s : SSys) (x : SAct) : Mono s (s.actB x) := by
  have := act_heights s.b x
  exact ⟨Nat.le_refl _, Nat.le_refl _, this.1, Nat.le_of_eq this.2.symm⟩

theorem mono_dlvAB (s : SSys) : Mono s s.dlvAB := by
  unfold SSys.dlvAB
  cases h : s.ab with
  | nil => exact Mono.refl s
  | cons m rest =>
    have := recv_heights s.b m
    exact ⟨Nat.le_refl _, Nat.le_refl _, Nat.le_of_eq this.1.symm, this.2⟩

theorem mono_dlvBA (s : SSys) : Mono s s.dlvBA := by
  unfold SSys.dlvBA
  cases h : s.ba with
  | nil => exact Mono.refl s
  | cons m rest =>
    have := recv_heights s.a m
    exact ⟨Nat.le_of_eq this.1.symm, this.2, Nat.le_refl _, Nat.le_refl _⟩

theorem mono_dlvABn (k : Nat) : ∀ s : SSys, Mono s (SSys.dlvABn k s) := by
  induction k with
  | zero => intro s; exact Mono.refl s
  | succ k ih => intro s; exact (mono_dlvAB s).trans (ih s.dlvAB)

theorem mono_dlvBAn (k : Nat) : ∀ s : SSys, Mono s (SSys.dlvBAn k s) := by
  induction k with
  | zero => intro s; exact Mono.refl s
  | succ k ih => intro s; exact (mono_dlvBA s).trans (ih s.dlvBA)

theorem mono_dropReload (s : SSys) : Mono s s.dropReload :=
  ⟨Nat.le_refl _, Nat.le_refl _, Nat.le_refl _, Nat.le_refl _⟩

theorem mono_cutPre (s : SSys) (kA kB : Nat) : Mono s (s.cutPre kA kB) :=
  ((mono_dlvABn kA s).trans (mono_dlvBAn kB _)).trans (mono_dropReload _)

theorem processSync_heights {n n1 : SNode} {tw : Bool} {m : SyncMsg} {out : List SMsg}
    (h : n.processSync tw m = .ok (n1, out)) : n1.lt = n.lt ∧ n1.rt = n.rt := by
  have := processSyncSt_heights n tw m
  rw [processSyncSt_ok.mp h] at this
  exact this

theorem mono_resync {c : SyncCfg} {s s' : SSys} (h : s.resync c = .ok s') : Mono s s' := by
  unfold SSys.resync at h
  cases ha : s.a.processSync c.tweakless (s.b.chanSyncMsg c.dlpB) with
  | error e => simp [ha] at h
  | ok ra =>
    cases hb : s.b.processSync c.tweakless (s.a.chanSyncMsg c.dlpA) with
    | error e => simp [ha, hb] at h
    | ok rb =>
      obtain ⟨a', oa⟩ := ra
      obtain ⟨b', ob⟩ := rb
      simp [ha, hb] at h
      subst h
      have h1 := processSync_heights ha
      have h2 := processSync_heights hb
      exact ⟨Nat.le_of_eq h1.1.symm, Nat.le_of_eq h1.2.symm, Nat.le_of_eq h2.1.symm, Nat.le_of_eq h2.2.symm⟩

theorem mono_halfSync {c : SyncCfg} {sideA : Bool} {s s' : SSys} (h : s.halfSync c sideA = .ok s') :
    Mono s s' := by
  unfold SSys.halfSync at h
  cases sideA with
  | true =>
    simp only [if_true] at h
    cases ha : s.a.processSync c.tweakless (s.b.chanSyncMsg c.dlpB) with
    | error e => simp [ha] at h
    | ok ra =>
      obtain ⟨a', oa⟩ := ra
      simp [ha] at h
      subst h
      have h1 := processSync_heights ha
      exact ⟨Nat.le_of_eq h1.1.symm, Nat.le_of_eq h1.2.symm, Nat.le_refl _, Nat.le_refl _⟩
  | false =>
    simp only [Bool.false_eq_true, if_false] at h
    cases hb : s.b.processSync c.tweakless (s.a.chanSyncMsg c.dlpA) with
    | error e => simp [hb] at h
    | ok rb =>
      obtain ⟨b', ob⟩ := rb
      simp [hb] at h
      subst h
      have h1 := processSync_heights hb
      exact ⟨Nat.le_refl _, Nat.le_refl _, Nat.le_of_eq h1.1.symm, Nat.le_of_eq h1.2.symm⟩

theorem mono_step (s : SSys) (x : SStep) : Mono s (s.step x) := by
  cases x with
  | actA x => exact mono_actA s x
  | actB x => exact mono_actB s x
  | dlvAB => exact mono_dlvAB s
  | dlvBA => exact mono_dlvBA s
  | cut c kA kB =>
    simp only [SSys.step, SSys.cut]
    cases h : (s.cutPre kA kB).resync c with
    | error e => exact Mono.refl s
    | ok s' => exact (mono_cutPre s kA kB).trans (mono_resync h)
  | halfCut c kA kB sideA =>
    simp only [SSys.step]
    cases h : (s.cutPre kA kB).halfSync c sideA with
    | error e => exact Mono.refl s
    | ok s1 =>
      simp only []
      cases h2 : s1.resync c with
      | error e => exact Mono.refl s
      | ok s' => exact ((mono_cutPre s kA kB).trans (mono_halfSync h)).trans (mono_resync h2)

theorem mono_run (steps : List SStep) : ∀ s : SSys, Mono s (s.run steps) := by
  induction steps with
  | nil => intro s; exact Mono.refl s
  | cons x rest ih => intro s; exact (mono_step s x).trans (ih (s.step x))

/-! ## lost state: one side's database is rolled back -/

/-- what a node whose heights are `≤` those of the true state `X` answers to the true peer `y`,
    and what `y` answers to it (`X`, `y` related by the reachable-state invariant). -/
theorem stale_answers {x' X y : SNode} (hlt : x'.lt ≤ X.lt) (hrt : x'.rt ≤ X.rt)
    (hXy : LinkW X y) (hyX : LinkW y X) (tw dlp : Bool) :
    -- the node that lost state: ok, or "local data loss" / "cannot sync"; nothing else
    ((∃ r, x'.processSync tw (y.chanSyncMsg dlp) = .ok r) ∨
      x'.processSync tw (y.chanSyncMsg dlp) = .error (if dlp then .localDataLoss else .cannotSync) ∨
      x'.processSync tw (y.chanSyncMsg dlp) = .error .cannotSync) ∧
    -- the peer proves to be ahead: always the data-loss arm
    (y.rt > x'.lt → x'.processSyncSt tw (y.chanSyncMsg dlp) =
      (x', .error (if dlp then .localDataLoss else .cannotSync))) ∧
    -- the intact peer: ok or "remote data loss"; it never believes it lost data itself
    ((∃ r, y.processSync tw (x'.chanSyncMsg dlp) = .ok r) ∨
      y.processSync tw (x'.chanSyncMsg dlp) = .error .remoteDataLoss) ∧
    -- it notices every rollback past a revocation it has durably seen
    ((y.rt > x'.lt ∨ y.lt > x'.rt + 1) → y.processSync tw (x'.chanSyncMsg dlp) = .error .remoteDataLoss) := by
  obtain ⟨lo1, hi1, _, _⟩ := hXy
  obtain ⟨lo2, hi2, _, _⟩ := hyX
  have t1 := tipH_le y
  have t2 := tipH_le X
  have t3 := tipH_le x'
  have t4 := tipH_ge x'
  have t5 := tipH_ge y
  have hsecY : ∀ d, ((y.chanSyncMsg d).point.isSome && (y.chanSyncMsg d).remoteTail != 0 &&
      (y.chanSyncMsg d).lastSecret != some ((y.chanSyncMsg d).remoteTail - 1)) = false := by
    intro d; unfold SNode.chanSyncMsg
    by_cases h : y.rt = 0 <;> simp [h]
  have hsecX : ∀ d, ((x'.chanSyncMsg d).point.isSome && (x'.chanSyncMsg d).remoteTail != 0 &&
      (x'.chanSyncMsg d).lastSecret != some ((x'.chanSyncMsg d).remoteTail - 1)) = false := by
    intro d; unfold SNode.chanSyncMsg
    by_cases h : x'.rt = 0 <;> simp [h]
  -- the commit point of an honestly built message always fits the claimed height
  have hptY : x'.pointOk tw (y.chanSyncMsg dlp) = true := by
    unfold SNode.pointOk SNode.chanSyncMsg
    cases dlp <;> cases tw <;> simp
    intro h; omega
  have hptX : y.pointOk tw (x'.chanSyncMsg dlp) = true := by
    unfold SNode.pointOk SNode.chanSyncMsg
    cases dlp <;> cases tw <;> simp
    intro h; omega
  have eY1 : (y.chanSyncMsg dlp).remoteTail = y.rt := rfl
  have eY2 : (y.chanSyncMsg dlp).nextLocal = y.lt + 1 := rfl
  have eY3 : (y.chanSyncMsg dlp).point.isSome = dlp := by unfold SNode.chanSyncMsg; cases dlp <;> rfl
  have eX1 : (x'.chanSyncMsg dlp).remoteTail = x'.rt := rfl
  have eX2 : (x'.chanSyncMsg dlp).nextLocal = x'.lt + 1 := rfl
  refine ⟨?_, ?_, ?_, ?_⟩
  · -- x' on y's message
    unfold SNode.processSync
    rw [hsecY dlp, eY1, eY2, eY3]
    simp only [Bool.false_eq_true, if_false]
    rcases syncLocal_cases x' dlp y.rt with ⟨_, h⟩ | ⟨_, c2, _⟩ | ⟨_, _, r, h⟩
    · right; left; rw [h]
    · omega
    · obtain ⟨n1, first⟩ := r
      rw [h]; simp only []
      rcases syncRemote_cases x' (y.lt + 1) first with ⟨_, h2⟩ | ⟨_, d2, _⟩ | ⟨_, _, out, h2⟩
      · right; right; rw [h2]
      · omega
      · left; rw [h2]; simp only [hptY, if_true]; exact ⟨_, rfl⟩
  · intro c1
    unfold SNode.processSyncSt
    rw [hsecY dlp, eY1, eY3]
    simp only [Bool.false_eq_true, if_false]
    rcases syncLocal_cases x' dlp y.rt with ⟨_, h⟩ | ⟨c, _⟩ | ⟨c, _⟩
    · rw [h]
    · exact absurd c1 c
    · exact absurd c1 c
  · -- y on x's message: ok or remoteDataLoss
    unfold SNode.processSync
    rw [hsecX dlp, eX1, eX2]
    simp only [Bool.false_eq_true, if_false]
    rcases syncLocal_cases y (x'.chanSyncMsg dlp).point.isSome x'.rt with ⟨c, _⟩ | ⟨_, _, h⟩ | ⟨_, _, r, h⟩
    · omega
    · right; rw [h]
    · obtain ⟨n1, first⟩ := r
      rw [h]; simp only []
      rcases syncRemote_cases y (x'.lt + 1) first with ⟨d1, _⟩ | ⟨_, _, h2⟩ | ⟨_, _, out, h2⟩
      · omega
      · right; rw [h2]
      · left; rw [h2]; simp only [hptX, if_true]; exact ⟨_, rfl⟩
  · intro hdet
    unfold SNode.processSync
    rw [hsecX dlp, eX1, eX2]
    simp only [Bool.false_eq_true, if_false]
    rcases syncLocal_cases y (x'.chanSyncMsg dlp).point.isSome x'.rt with ⟨c, _⟩ | ⟨_, _, h⟩ | ⟨_, c2, r, h⟩
    · omega
    · rw [h]
    · obtain ⟨n1, first⟩ := r
      rw [h]; simp only []
      rcases syncRemote_cases y (x'.lt + 1) first with ⟨d1, _⟩ | ⟨_, _, h2⟩ | ⟨_, d2, _⟩
      · omega
      · rw [h2]
      · omega

/-- A's database as it was after `steps1` (any earlier point of the run), restarted. -/
def staleA (steps1 : List SStep) : SNode := (SSys.init.run steps1).a.reload

/-- the true system after `steps1 ++ steps2`, at the moment the connection is gone. -/
def curSys (steps1 steps2 : List SStep) (kA kB : Nat) : SSys :=
  (SSys.init.run (steps1 ++ steps2)).cutPre kA kB

theorem stale_le_cur (steps1 steps2 : List SStep) (kA kB : Nat) :
    (staleA steps1).lt ≤ (curSys steps1 steps2 kA kB).a.lt ∧
    (staleA steps1).rt ≤ (curSys steps1 steps2 kA kB).a.rt := by
  have h1 := mono_run steps2 (SSys.init.run steps1)
  have h2 := mono_cutPre ((SSys.init.run steps1).run steps2) kA kB
  have h := h1.trans h2
  unfold staleA curSys
  rw [run_append]
  exact ⟨h.alt, h.art⟩

/-- **Rollback, verdicts of both links.**  For EVERY run, EVERY earlier point `steps1` that A's
    database is rolled back to, every later disconnect instant and every setting of the
    data-loss-protect fields:
    * the rolled-back side never asks for a force close (its commitment may be revoked) and
      the intact side never marks its own channel as having lost data;
    * if B has durably seen a revocation that A no longer knows it sent, A answers NOTHING
      (no retransmission, no re-sign, state untouched), records the data loss together with
      B's commit point (or marks the channel borked when B sent no data-loss-protect fields),
      and B asks for the force close. -/
theorem rollback_verdicts (steps1 steps2 : List SStep) (kA kB : Nat) (tw dlp : Bool)
    (a' b : SNode) (ha : a' = staleA steps1) (hb : b = (curSys steps1 steps2 kA kB).b)
    (ra rb : Verdict)
    (hra : ra = linkVerdict ((a'.processSync tw (b.chanSyncMsg dlp)).mapError WErr.sync))
    (hrb : rb = linkVerdict ((b.processSync tw (a'.chanSyncMsg dlp)).mapError WErr.sync)) :
    ra.broadcasts = false ∧ (rb = .proceed ∨ rb = .forceClose) ∧
    (b.rt > a'.lt →
      a'.processSyncSt tw (b.chanSyncMsg dlp) = (a', .error (if dlp then .localDataLoss else .cannotSync)) ∧
      ra = (if dlp then .dataLoss else .borked) ∧ rb = .forceClose) := by
  subst ha hb hra hrb
  have hle := stale_le_cur steps1 steps2 kA kB
  have hinv : InvW (curSys steps1 steps2 kA kB) := invW_cutPre _ kA kB (inv_reachable _)
  obtain ⟨hab, hba, _, _⟩ := hinv
  have hs := stale_answers (x' := staleA steps1) hle.1 hle.2 hab hba tw dlp
  obtain ⟨h1, h2, h3, h4⟩ := hs
  refine ⟨?_, ?_, ?_⟩
  · rcases h1 with ⟨r, h⟩ | h | h
    · rw [h]; rfl
    · rw [h]; cases dlp <;> rfl
    · rw [h]; rfl
  · rcases h3 with ⟨r, h⟩ | h
    · left; rw [h]; rfl
    · right; rw [h]; rfl
  · intro hahead
    refine ⟨h2 hahead, ?_, ?_⟩
    · have := processSyncSt_answer (staleA steps1) tw ((curSys steps1 steps2 kA kB).b.chanSyncMsg dlp)
      rw [h2 hahead] at this
      cases hp : (staleA steps1).processSync tw ((curSys steps1 steps2 kA kB).b.chanSyncMsg dlp) with
      | ok r => rw [hp] at this; cases this
      | error e =>
        rw [hp] at this
        have he : e = (if dlp = true then SyncErr.localDataLoss else SyncErr.cannotSync) := by
          simp only [Except.map] at this
          injection this with this
          exact this.symm
        subst he
        cases dlp <;> rfl
    · rw [h4 (.inl hahead)]; rfl

/-- two revocations later the rollback is ALWAYS visible to B (at most one revoke_and_ack of A
    can be in flight or lost). -/
theorem rollback_two_revocations_detected (steps1 steps2 : List SStep) (kA kB : Nat)
    (h : (staleA steps1).lt + 2 ≤ (curSys steps1 steps2 kA kB).a.lt) :
    (curSys steps1 steps2 kA kB).b.rt > (staleA steps1).lt := by
  have hinv : InvW (curSys steps1 steps2 kA kB) := invW_cutPre _ kA kB (inv_reachable _)
  obtain ⟨hab, _, _, _⟩ := hinv
  have := tipH_le (curSys steps1 steps2 kA kB).b
  have := hab.hi
  omega

/-! ## the same at the level of the link: decoded message in, reaction out -/

/-- on an honestly built channel_reestablish (taproot: with its nonce) the wire-level checks
    add nothing: `processReestSt` is `processSyncSt`. -/
theorem processReestSt_built (x y : SNode) (tw tap dlp : Bool) :
    x.processReestSt tw tap false (y.reest dlp tap) =
      ((x.processSyncSt tw (y.chanSyncMsg dlp)).1,
       (x.processSyncSt tw (y.chanSyncMsg dlp)).2.mapError WErr.sync) := by
  have hsec : ((y.reest dlp tap).point.isSome && (y.reest dlp tap).remoteTail != 0 &&
      (y.reest dlp tap).lastSecret != some ((y.reest dlp tap).remoteTail - 1)) = false := by
    unfold SNode.reest
    by_cases h : y.rt = 0 <;> simp [h]
  have hn : (tap && (y.reest dlp tap).nonce.isNone) = false := by
    unfold SNode.reest; cases tap <;> simp
  have hto : (y.reest dlp tap).toSync = y.chanSyncMsg dlp := rfl
  unfold SNode.processReestSt
  rw [hsec, hn, hto]
  simp only [Bool.false_eq_true, if_false]
  cases h : x.processSyncSt tw (y.chanSyncMsg dlp) with
  | mk n1 r => cases r <;> rfl

/-- **Rollback, reactions of both links** (`rollback_verdicts` for decoded messages, any channel
    type): whatever point A's database is rolled back to, her link never broadcasts; if B has
    durably seen a revocation A no longer knows of, A's link sends nothing, keeps its state,
    and has recorded — as part of the very reaction, before anything is reported — the data loss
    with B's current commit point (or `borked` when B sent no data-loss-protect fields), while
    B's link asks for the force close. -/
theorem rollback_link_reactions (steps1 steps2 : List SStep) (kA kB : Nat) (tw tap dlp : Bool)
    (a' b : SNode) (ha : a' = staleA steps1) (hb : b = (curSys steps1 steps2 kA kB).b) :
    (a'.linkReact tw tap false (b.reest dlp tap)).verdict.broadcasts = false ∧
    ((b.linkReact tw tap false (a'.reest dlp tap)).verdict = .proceed ∨
     (b.linkReact tw tap false (a'.reest dlp tap)).verdict = .forceClose) ∧
    (b.rt > a'.lt →
      (a'.linkReact tw tap false (b.reest dlp tap)).sent = [] ∧
      (a'.linkReact tw tap false (b.reest dlp tap)).node = a' ∧
      (a'.linkReact tw tap false (b.reest dlp tap)).marks =
        (if dlp then { dataLoss := some b.lt } else { borked := true }) ∧
      (b.linkReact tw tap false (a'.reest dlp tap)).verdict = .forceClose) := by
  have hv := rollback_verdicts steps1 steps2 kA kB tw dlp a' b ha hb _ _ rfl rfl
  obtain ⟨h1, h2, h3⟩ := hv
  have ea := processSyncSt_answer a' tw (b.chanSyncMsg dlp)
  have eb := processSyncSt_answer b tw (a'.chanSyncMsg dlp)
  -- the verdict of a reaction is the verdict of the plain answer
  have va : (a'.linkReact tw tap false (b.reest dlp tap)).verdict =
      linkVerdict ((a'.processSync tw (b.chanSyncMsg dlp)).mapError WErr.sync) := by
    unfold SNode.linkReact
    rw [processReestSt_built]
    simp only []
    rw [ea]
    cases a'.processSync tw (b.chanSyncMsg dlp) <;> rfl
  have vb : (b.linkReact tw tap false (a'.reest dlp tap)).verdict =
      linkVerdict ((b.processSync tw (a'.chanSyncMsg dlp)).mapError WErr.sync) := by
    unfold SNode.linkReact
    rw [processReestSt_built]
    simp only []
    rw [eb]
    cases b.processSync tw (a'.chanSyncMsg dlp) <;> rfl
  refine ⟨by rw [va]; exact h1, by rw [vb]; exact h2, ?_⟩
  intro hahead
  obtain ⟨hst, hra, hrb⟩ := h3 hahead
  refine ⟨?_, ?_, ?_, by rw [vb]; exact hrb⟩
  · unfold SNode.linkReact; rw [processReestSt_built, hst]; cases dlp <;> rfl
  · unfold SNode.linkReact; rw [processReestSt_built, hst]
  · unfold SNode.linkReact; rw [processReestSt_built, hst]
    cases dlp <;> simp [linkVerdict, verdictOfErr, marksOf, SNode.reest, Except.mapError]

/-! ## non-vacuity: concrete rollbacks -/

/-- B signs twice, A revokes twice, everything delivered; A's database is rolled back to the
    fresh channel: A records the data loss with B's current commit point, sends nothing, does
    not broadcast; B asks for the force close. -/
example :
    let steps2 : List SStep := [.actB (.upd true), .actB .sign, .dlvBA, .dlvBA, .actA .revoke, .dlvAB,
                                .actB (.upd true), .actB .sign, .dlvBA, .dlvBA, .actA .revoke, .dlvAB]
    let b := (curSys [] steps2 0 0).b
    (staleA []).lt + 2 ≤ (curSys [] steps2 0 0).a.lt ∧
    ((staleA []).linkReact true false false (b.reest true false)).verdict = .dataLoss ∧
    ((staleA []).linkReact true false false (b.reest true false)).sent = [] ∧
    ((staleA []).linkReact true false false (b.reest true false)).marks = { dataLoss := some 0 } ∧
    (b.linkReact true false false ((staleA []).reest true false)).verdict = .forceClose := by decide

/-- a benign rollback: only a received revocation is forgotten; both sides answer ok and B
    retransmits the revocation (and signs the commitment it owes). -/
example :
    let steps1 : List SStep := [.actA (.upd true), .actA .sign, .dlvAB, .dlvAB, .actB .revoke]
    let b := (curSys steps1 [.dlvBA] 0 0).b
    ((staleA steps1).linkReact true false false (b.reest true false)).verdict = .proceed ∧
    (b.linkReact true false false ((staleA steps1).reest true false)).verdict = .proceed ∧
    (b.linkReact true false false ((staleA steps1).reest true false)).sent = [SMsg.rev 0, SMsg.sig 1 ⟨0, 1⟩] := by decide

def errOf {α : Type} : Except SyncErr α → Option SyncErr
  | .ok _ => none
  | .error e => some e

/-- the re-sign of the first switch survives an error of the second one: B owes A a revocation
    and a commitment, A's message is stale in its second height: B has signed (durably) and
    then asks for the force close. -/
example :
    let n : SNode := { lt := 1, ltIdx := ⟨0, 1⟩, rt := 1, rtIdx := ⟨0, 0⟩, lIdx := 0, rIdx := 1 }
    let m : SyncMsg := { nextLocal := 1, remoteTail := 0, lastSecret := none, point := some 0 }
    errOf (n.processSyncSt true m).2 = some .remoteDataLoss ∧ (n.processSyncSt true m).1.rp = some ⟨0, 1⟩ ∧
    n.rp = none ∧ errOf (n.processSync true m) = some .remoteDataLoss := by decide

end LndModel.C03
