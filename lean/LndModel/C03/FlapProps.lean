/-
C03 — property theorems for the in-process link flap (Part A) and for the completion of the
resynchronisation, with cuts nested to any depth (Part B).  Definitions and helper lemmas are
in `Flap.lean`.

Part A.  `FSys.init.frun true steps` ranges over every schedule of the two nodes with a mailbox
in front of each link (arrive = the peer object reads a message off the wire into the mailbox,
consume = the link handles it), with connection flaps at arbitrary points, under the rule of
`channelLink.Start` → `mailBox.ResetMessages()`.  With that rule a flap is exactly a `cut` of the
model of `Model.lean` whose delivered prefix is what the links consumed, so every cut / resync
theorem of `Props.lean` applies.  Without it (`frun false`) there are machine-checked witness
traces in which the resynchronisation breaks.

Part B.  After ANY schedule of the disciplined system (any cuts, also back to back), delivering
what is in flight terminates (`drainStep_decreases`, `drain_empties`) in mirrored commitments
(`resync_completes`); cuts nested to any depth all succeed (`nested_cuts_all_ok`).
-/
import LndModel.C03.Flap

namespace LndModel.C03

/-! ## Part A: link flap, mailbox reset at link start -/

/-- 1. with the reset rule, a flap is the model's `cut` that delivers nothing beyond what the
    links already consumed. -/
theorem flap_is_cut (f : FSys) (c : SyncCfg) :
    (f.fstep true (.flap c)).proj = f.proj.lstep (.cut c 0 0) :=
  proj_flap f c

/-- 2. every step of the mailbox system is a (possibly empty) run of the model. -/
theorem fstep_simulated (f : FSys) (x : FStep) :
    ∃ ls : List LStep, (f.fstep true x).proj = f.proj.lrun ls :=
  fstep_proj_lrun f x

/-- the steps one by one: which model steps simulate them. -/
theorem fstep_simulated_cases (f : FSys) :
    (∀ b, (f.fstep true (.updA b)).proj = f.proj.lrun [.updA b]) ∧
    (∀ b, (f.fstep true (.updB b)).proj = f.proj.lrun [.updB b]) ∧
    (f.fstep true .signA).proj = f.proj.lrun [.signA] ∧
    (f.fstep true .signB).proj = f.proj.lrun [.signB] ∧
    (f.fstep true .arriveAB).proj = f.proj.lrun [] ∧
    (f.fstep true .arriveBA).proj = f.proj.lrun [] ∧
    (f.mbB ≠ [] → (f.fstep true .consumeB).proj = f.proj.lrun [.dlvAB]) ∧
    (f.mbB = [] → (f.fstep true .consumeB).proj = f.proj.lrun []) ∧
    (f.mbA ≠ [] → (f.fstep true .consumeA).proj = f.proj.lrun [.dlvBA]) ∧
    (f.mbA = [] → (f.fstep true .consumeA).proj = f.proj.lrun []) ∧
    (∀ c, (f.fstep true (.flap c)).proj = f.proj.lrun [.cut c 0 0]) :=
  ⟨fun _ => proj_actA f _, fun _ => proj_actB f _, proj_actA f _, proj_actB f _,
   proj_arriveAB true f, proj_arriveBA true f,
   proj_consumeB true f, fun h => by rw [consumeB_empty true f h]; rfl,
   proj_consumeA true f, fun h => by rw [consumeA_empty true f h]; rfl,
   fun c => proj_flap f c⟩

/-- 3. every reachable state of the mailbox system projects to a reachable state of the model. -/
theorem frun_simulated (steps : List FStep) :
    ∃ ls : List LStep, (FSys.init.frun true steps).proj = SSys.init.lrun ls := by
  obtain ⟨ls, h⟩ := frun_proj_lrun steps FSys.init
  exact ⟨ls, by rw [h, proj_init]⟩

/-- 4. at a flap in any reachable state neither side's `processSync` fails, and each returns
    exactly what the peer is missing, in the original order (as `sync_ok_and_exact_disciplined`);
    hence the resynchronisation of the flap succeeds. -/
theorem flap_sync_ok_and_exact (steps : List FStep) (c : SyncCfg) :
    let f := FSys.init.frun true steps
    let p := f.s.dropReload
    p.a.processSync c.tweakless (p.b.chanSyncMsg c.dlpB) =
      .ok (syncNode p.a p.b, (p.a.hist.filter (missing p.b)).flatMap (expand p.a) ++ freshSig p.a p.b) ∧
    p.b.processSync c.tweakless (p.a.chanSyncMsg c.dlpA) =
      .ok (syncNode p.b p.a, (p.b.hist.filter (missing p.a)).flatMap (expand p.b) ++ freshSig p.b p.a) ∧
    ∃ s', p.resync c = .ok s' := by
  intro f p
  obtain ⟨ls, h⟩ := frun_simulated steps
  have hp : p = (SSys.init.lrun ls).lcutPre 0 0 := by
    rw [← h]; exact (proj_lcutPre f).symm
  have key := sync_ok_and_exact_disciplined ls c 0 0
  simp only at key
  rw [← hp] at key
  refine ⟨key.1, key.2, ?_⟩
  unfold SSys.resync
  rw [key.1, key.2]
  exact ⟨_, rfl⟩

/-- 5. whatever a link takes out of its mailbox passes the receiver's checks. -/
theorem flap_every_consumed_message_accepted (steps : List FStep) :
    let f := FSys.init.frun true steps
    (∀ e m rest, f.mbB = (e, m) :: rest → f.s.b.accepts m = true) ∧
    (∀ e m rest, f.mbA = (e, m) :: rest → f.s.a.accepts m = true) := by
  intro f
  have hi : Inv2 f.proj := inv2_frun steps
  refine ⟨?_, ?_⟩
  · intro e m rest hm
    exact (inv2_dlvRevAB _ hi).2 m (rest.map (·.2) ++ f.s.ab) (by simp [FSys.proj, hm])
  · intro e m rest hm
    exact (inv2_dlvRevBA _ hi).2 m (rest.map (·.2) ++ f.s.ba) (by simp [FSys.proj, hm])

/-- 6. whenever mailboxes and wire are empty — after any number of flaps at any points — the two
    sides hold mirrored commitments (the conclusion of `sync_converges`). -/
theorem flap_converges (steps : List FStep)
    (hA : (FSys.init.frun true steps).mbA = []) (hB : (FSys.init.frun true steps).mbB = [])
    (hab : (FSys.init.frun true steps).s.ab = []) (hba : (FSys.init.frun true steps).s.ba = []) :
    let s := (FSys.init.frun true steps).s
    s.a.rp = none ∧ s.b.rp = none ∧ s.a.lp = [] ∧ s.b.lp = [] ∧
    s.b.lt = s.a.rt ∧ s.a.lt = s.b.rt ∧
    s.b.ltIdx = s.a.rtIdx.swap ∧ s.a.ltIdx = s.b.rtIdx.swap ∧
    s.b.rIdx = s.a.lIdx ∧ s.a.rIdx = s.b.lIdx := by
  intro s
  obtain ⟨ls, h⟩ := frun_simulated steps
  rw [proj_of_empty _ hA hB] at h
  have key := sync_converges ls (by rw [← h]; exact hab) (by rw [← h]; exact hba)
  simp only at key
  rw [← h] at key
  exact key

/-- 7. no update is lost or duplicated, at any time, counting mailbox and wire together. -/
theorem flap_no_update_lost_or_duplicated (steps : List FStep) :
    let s := (FSys.init.frun true steps).proj
    s.b.rIdx + nFresh s.ab = s.a.lIdx ∧ freshIdxOk s.b.rIdx s.ab = true ∧
    s.a.rIdx + nFresh s.ba = s.b.lIdx ∧ freshIdxOk s.a.rIdx s.ba = true := by
  intro s
  have h : Inv2 s := inv2_frun steps
  exact ⟨h.2.2.2.1.count, h.2.2.2.1.idx, h.2.2.2.2.1.count, h.2.2.2.2.1.idx⟩

/-- 8. with the reset rule no link is ever handed a message of an earlier connection epoch:
    every message waiting in a mailbox carries the current epoch. -/
theorem no_stale_delivery (steps : List FStep) :
    let f := FSys.init.frun true steps
    (∀ p ∈ f.mbA, p.1 = f.epoch) ∧ (∀ p ∈ f.mbB, p.1 = f.epoch) :=
  noStale_frun steps _ noStale_init

/-! ### 9. without the reset rule the resynchronisation breaks (witness traces) -/

/-- A's update and signature sit in B's mailbox when the connection flaps.  Without the reset the
    new link consumes the stale copies (and revokes); then the retransmitted update of the new
    epoch arrives: B has the entry already and does not accept it, and the "no update lost or
    duplicated" equation fails. -/
theorem stale_update_breaks_resync :
    let f := FSys.init.frun false
      [.updA true, .signA, .arriveAB, .arriveAB, .flap {}, .consumeB, .consumeB, .arriveAB]
    f.epoch = 1 ∧ f.mbB = [(1, SMsg.upd (some 0))] ∧
    f.s.b.accepts (SMsg.upd (some 0)) = false ∧
    f.s.b.rIdx + nFresh f.proj.ab ≠ f.s.a.lIdx := by decide

/-- B consumed A's update but not yet the signature when the connection flaps.  B, reloaded from
    disk, no longer has the update; without the reset the first thing its new link is handed is
    the stale signature (epoch 0 < 1), which covers an update B does not have: rejected. -/
theorem stale_signature_rejected :
    let f := FSys.init.frun false [.updA true, .signA, .arriveAB, .consumeB, .arriveAB, .flap {}]
    f.epoch = 1 ∧ f.mbB = [(0, SMsg.sig 1 ⟨1, 0⟩)] ∧
    f.s.b.accepts (SMsg.sig 1 ⟨1, 0⟩) = false := by decide

/-- the same two traces with the reset rule, then everything arrives and is consumed: all four
    queues empty, the update and the commitment went through exactly once. -/
theorem same_traces_fine_with_reset :
    (let f := FSys.init.frun true
      ([.updA true, .signA, .arriveAB, .arriveAB, .flap {}, .consumeB, .consumeB, .arriveAB] ++
       [.consumeB, .arriveAB, .consumeB, .arriveBA, .consumeA])
     f.mbA = [] ∧ f.mbB = [] ∧ f.s.ab = [] ∧ f.s.ba = [] ∧
     f.s.b.lt = 1 ∧ f.s.a.rt = 1 ∧ f.s.b.rIdx = 1) ∧
    (let f := FSys.init.frun true
      ([.updA true, .signA, .arriveAB, .consumeB, .arriveAB, .flap {}] ++
       [.arriveAB, .arriveAB, .consumeB, .consumeB, .arriveBA, .consumeA])
     f.mbA = [] ∧ f.mbB = [] ∧ f.s.ab = [] ∧ f.s.ba = [] ∧
     f.s.b.lt = 1 ∧ f.s.a.rt = 1 ∧ f.s.b.rIdx = 1) := by decide

/-! ### non-vacuity of Part A -/

/-- a reachable state with a non-empty mailbox at the moment of the flap; the flap (with reset)
    empties it, bumps the epoch and A retransmits both messages on the new connection. -/
example :
    let f := FSys.init.frun true [.updA true, .signA, .arriveAB, .arriveAB]
    f.mbB = [(0, SMsg.upd (some 0)), (0, SMsg.sig 1 ⟨1, 0⟩)] ∧
    (f.fstep true (.flap {})).mbB = [] ∧ (f.fstep true (.flap {})).epoch = 1 ∧
    (f.fstep true (.flap {})).s.ab = [SMsg.upd (some 0), SMsg.sig 1 ⟨1, 0⟩] := by decide

/-- messages in a mailbox and on the wire at the same time; the head of the mailbox is accepted. -/
example :
    let f := FSys.init.frun true [.updA true, .updA true, .arriveAB, .signA]
    f.mbB = [(0, SMsg.upd (some 0))] ∧ f.s.ab = [SMsg.upd (some 1), SMsg.sig 1 ⟨2, 0⟩] ∧
    f.s.b.accepts (SMsg.upd (some 0)) = true := by decide

/-- a flap after the signature was consumed and revoked for, the revocation still in A's
    mailbox: it is dropped and retransmitted (B, which now owes a commitment, also signs one);
    everything drains and the state converges (the hypotheses of `flap_converges` hold). -/
example :
    let f := FSys.init.frun true [.updA true, .signA, .arriveAB, .arriveAB, .consumeB, .consumeB,
                                  .arriveBA, .flap {}]
    let g := f.frun true [.arriveBA, .consumeA, .arriveBA, .consumeA, .arriveAB, .consumeB]
    f.epoch = 1 ∧ f.mbA = [] ∧ f.s.ba = [SMsg.rev 0, SMsg.sig 1 ⟨0, 1⟩] ∧
    g.mbA = [] ∧ g.mbB = [] ∧ g.s.ab = [] ∧ g.s.ba = [] ∧
    g.s.a.rt = 1 ∧ g.s.b.lt = 1 ∧ g.s.a.lt = 1 ∧ g.s.b.rt = 1 := by
  decide

/-! ## Part B: the resynchronisation completes -/

/-- 10. delivering one message in flight (and revoking at once for a signature) decreases the
    weight of the queues: a signature weighs 2, the revocation it triggers weighs 1. -/
theorem drainStep_decreases (s : SSys) (h : s.ab ≠ [] ∨ s.ba ≠ []) :
    s.drainStep.weight < s.weight :=
  weight_drainStep s h

/-- 11. `weight` many deliveries empty both queues. -/
theorem drain_empties (s : SSys) :
    (SSys.drain s.weight s).ab = [] ∧ (SSys.drain s.weight s).ba = [] :=
  drain_empties_le s.weight s (Nat.le_refl _)

/-- 12. draining is a run of the disciplined system that consists of deliveries only. -/
theorem drain_is_lrun (n : Nat) (s : SSys) :
    ∃ ls : List LStep, (∀ x ∈ ls, x = .dlvAB ∨ x = .dlvBA) ∧ SSys.drain n s = s.lrun ls :=
  drain_lrun n s

/-- 13. after ANY schedule with any reconnections, the resumed exchange — just delivering what is
    in flight, no new actions — terminates with empty queues in mirrored commitments. -/
theorem resync_completes (steps : List LStep) :
    let d := SSys.drain (SSys.init.lrun steps).weight (SSys.init.lrun steps)
    d.ab = [] ∧ d.ba = [] ∧
    d.a.rp = none ∧ d.b.rp = none ∧ d.a.lp = [] ∧ d.b.lp = [] ∧
    d.b.lt = d.a.rt ∧ d.a.lt = d.b.rt ∧
    d.b.ltIdx = d.a.rtIdx.swap ∧ d.a.ltIdx = d.b.rtIdx.swap ∧
    d.b.rIdx = d.a.lIdx ∧ d.a.rIdx = d.b.lIdx := by
  intro d
  obtain ⟨hab, hba⟩ := drain_empties (SSys.init.lrun steps)
  obtain ⟨ls, _, e⟩ := drain_is_lrun (SSys.init.lrun steps).weight (SSys.init.lrun steps)
  have hd : d = SSys.init.lrun (steps ++ ls) := by rw [lrun_append]; exact e
  have key := sync_converges (steps ++ ls) (by rw [← hd]; exact hab) (by rw [← hd]; exact hba)
  simp only at key
  rw [← hd] at key
  exact ⟨hab, hba, key⟩

/-- 14a. cuts nested to any depth — each one interrupting the resynchronisation of the previous
    one after arbitrary delivered prefixes — all succeed. -/
theorem nested_cuts_all_ok (steps : List LStep) (cs : List (SyncCfg × Nat × Nat)) :
    CutsOk (SSys.init.lrun steps) cs :=
  cutsOk_of_inv2 cs _ (inv2_reachable steps)

/-- the state these cuts end in is the run of the corresponding `cut` steps (never the "resync
    failed, state unchanged" branch of `lstep`). -/
theorem nested_cuts_reach (steps : List LStep) (cs : List (SyncCfg × Nat × Nat)) :
    CutsTo (SSys.init.lrun steps) cs ((SSys.init.lrun steps).lrun (cutSteps cs)) :=
  cutsTo_of_inv2 cs _ (inv2_reachable steps)

/-- 14b. ... and draining after the last of them ends with empty queues in mirrored commitments. -/
theorem nested_cuts_then_drain_mirrored (steps : List LStep) (cs : List (SyncCfg × Nat × Nat)) :
    let s := (SSys.init.lrun steps).lrun (cs.map (fun x => LStep.cut x.1 x.2.1 x.2.2))
    let d := SSys.drain s.weight s
    d.ab = [] ∧ d.ba = [] ∧
    d.a.rp = none ∧ d.b.rp = none ∧ d.a.lp = [] ∧ d.b.lp = [] ∧
    d.b.lt = d.a.rt ∧ d.a.lt = d.b.rt ∧
    d.b.ltIdx = d.a.rtIdx.swap ∧ d.a.ltIdx = d.b.rtIdx.swap ∧
    d.b.rIdx = d.a.lIdx ∧ d.a.rIdx = d.b.lIdx := by
  intro s d
  have hs : s = SSys.init.lrun (steps ++ cs.map (fun x => LStep.cut x.1 x.2.1 x.2.2)) := by
    rw [lrun_append]
  have key := resync_completes (steps ++ cs.map (fun x => LStep.cut x.1 x.2.1 x.2.2))
  simp only at key
  rw [← hs] at key
  exact key

/-! ### non-vacuity of Part B -/

/-- a cut, then a second cut while the retransmissions of the first are in flight, then drain:
    the weight bound is tight enough to be executed, and the result is the mirrored state with
    the update and the commitment through exactly once. -/
example :
    let s := SSys.init.lrun [.updA true, .signA, .cut {} 1 0, .dlvAB, .cut {} 0 0]
    s.weight = 3 ∧ (SSys.drain s.weight s).ab = [] ∧ (SSys.drain s.weight s).ba = [] ∧
    (SSys.drain s.weight s).b.lt = 1 ∧ (SSys.drain s.weight s).a.rt = 1 ∧
    (SSys.drain s.weight s).b.rIdx = 1 := by decide

/-- a delivered signature really puts a revocation into the other queue (the weight drops by one,
    not by two). -/
example :
    let s := SSys.init.lrun [.updA true, .signA, .dlvAB]
    s.weight = 2 ∧ s.drainStep.weight = 1 ∧ s.drainStep.ba = [SMsg.rev 0] := by decide

/-- three cuts back to back with different prefixes and configurations. -/
example :
    CutsOk (SSys.init.lrun [.updA true, .signA, .updB true])
      [({}, 1, 0), ({ dlpA := false, tweakless := false }, 2, 1), ({}, 0, 0)] :=
  nested_cuts_all_ok _ _

end LndModel.C03
