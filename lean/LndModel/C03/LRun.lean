/-
C03 — every run of the disciplined system is a run of the general system (so the theorems
proved for all schedules hold for the disciplined ones in particular).
-/
import LndModel.C03.Model

namespace LndModel.C03

theorem run_append (s : SSys) (x y : List SStep) : s.run (x ++ y) = (s.run x).run y := by
  simp [SSys.run, List.foldl_append]

theorem dlvRevAB_run (s : SSys) : ∃ steps, s.dlvRevAB = s.run steps := by
  unfold SSys.dlvRevAB
  cases h : s.ab with
  | nil => exact ⟨[], rfl⟩
  | cons m rest =>
    by_cases hm : m.isSig = true
    · exact ⟨[.dlvAB, .actB .revoke], by simp [hm, SSys.run, SSys.step]⟩
    · exact ⟨[.dlvAB], by simp [hm, SSys.run, SSys.step]⟩

theorem dlvRevBA_run (s : SSys) : ∃ steps, s.dlvRevBA = s.run steps := by
  unfold SSys.dlvRevBA
  cases h : s.ba with
  | nil => exact ⟨[], rfl⟩
  | cons m rest =>
    by_cases hm : m.isSig = true
    · exact ⟨[.dlvBA, .actA .revoke], by simp [hm, SSys.run, SSys.step]⟩
    · exact ⟨[.dlvBA], by simp [hm, SSys.run, SSys.step]⟩

theorem dlvRevABn_run (k : Nat) : ∀ s : SSys, ∃ steps, SSys.dlvRevABn k s = s.run steps := by
  induction k with
  | zero => intro s; exact ⟨[], rfl⟩
  | succ k ih =>
    intro s
    obtain ⟨x, hx⟩ := dlvRevAB_run s
    obtain ⟨y, hy⟩ := ih s.dlvRevAB
    exact ⟨x ++ y, by rw [run_append, ← hx]; exact hy⟩

theorem dlvRevBAn_run (k : Nat) : ∀ s : SSys, ∃ steps, SSys.dlvRevBAn k s = s.run steps := by
  induction k with
  | zero => intro s; exact ⟨[], rfl⟩
  | succ k ih =>
    intro s
    obtain ⟨x, hx⟩ := dlvRevBA_run s
    obtain ⟨y, hy⟩ := ih s.dlvRevBA
    exact ⟨x ++ y, by rw [run_append, ← hx]; exact hy⟩

theorem cutPre_zero (s : SSys) : s.cutPre 0 0 = s.dropReload := rfl

/-- the prefix deliveries of a disciplined reconnection, as a run of the general system that
    ends in the state from which the general `cut … 0 0` does the rest. -/
theorem lcutPre_run (s : SSys) (kA kB : Nat) :
    ∃ steps, s.lcutPre kA kB = (s.run steps).cutPre 0 0 := by
  obtain ⟨x, hx⟩ := dlvRevABn_run kA s
  obtain ⟨y, hy⟩ := dlvRevBAn_run kB (SSys.dlvRevABn kA s)
  refine ⟨x ++ y, ?_⟩
  rw [run_append, ← hx, ← hy]; rfl

/-- a disciplined reconnection that does not fail is a general run. -/
theorem lstep_cut_run (s : SSys) (c : SyncCfg) (kA kB : Nat) (s' : SSys)
    (h : (s.lcutPre kA kB).resync c = .ok s') : ∃ steps, s.lstep (.cut c kA kB) = s.run steps := by
  obtain ⟨x, hx⟩ := lcutPre_run s kA kB
  refine ⟨x ++ [.cut c 0 0], ?_⟩
  rw [run_append]
  simp only [SSys.lstep, h, SSys.run, List.foldl_cons, List.foldl_nil, SSys.step, SSys.cut]
  rw [hx] at h
  simp only [SSys.run] at h
  rw [h]

end LndModel.C03
