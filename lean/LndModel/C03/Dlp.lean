/-
C03 — the WHOLE decision table of `ProcessChanSyncMsg`, error arms included, with the durable
state every arm leaves behind, and what `htlcswitch/link.go` does with the answer
(`syncChanStates` → `handleChanSyncErr`).

`Model.lean` / `Wire.lean` state `processSync` / `processReest` as functions into `Except`: an
error carries no state.  The code is not like that: the "we owe a revocation" arm of the first
height switch may already have signed a fresh commitment (`SignNextCommitment`, durable
`CommitDiff`) when the second switch, or the final commit-point check, fails.  `processSyncSt`
returns the state on every path; `processReestSt` adds the wire-level checks in the order of the
code (last secret, taproot nonce, `ChanStatusRestored`, height switches, commit point).

`linkVerdict` is `handleChanSyncErr`: which errors make the link ask for a force close, which
ones make it mark the channel (`MarkDataLoss` with the peer's commit point / `MarkBorked`) and
fail WITHOUT broadcasting.
-/
import LndModel.C03.Wire

namespace LndModel.C03

/-- `ProcessChanSyncMsg` with the state it leaves behind, on error paths too. -/
def SNode.processSyncSt (n : SNode) (tweakless : Bool) (m : SyncMsg) :
    SNode × Except SyncErr (List SMsg) :=
  if m.point.isSome && m.remoteTail != 0 && m.lastSecret != some (m.remoteTail - 1) then
    (n, .error .invalidSecret)
  else
    match n.syncLocal m.point.isSome m.remoteTail with
    | .error e => (n, .error e)
    | .ok (n1, first) =>
      -- the second switch and the commit-point check read the heights taken BEFORE a re-sign
      match n.syncRemote m.nextLocal first with
      | .error e => (n1, .error e)
      | .ok out => if n.pointOk tweakless m then (n1, .ok out) else (n1, .error .invalidCommitPoint)

/-- `ProcessChanSyncMsg` on a decoded channel_reestablish.  `restored` = the channel carries
    `ChanStatusRestored` (static channel backup): it can never be resynchronised. -/
def SNode.processReestSt (n : SNode) (tweakless taproot restored : Bool) (m : Reest) :
    SNode × Except WErr (List SMsg) :=
  if m.point.isSome && m.remoteTail != 0 && m.lastSecret != some (m.remoteTail - 1) then
    (n, .error (.sync .invalidSecret))
  else if taproot && m.nonce.isNone then (n, .error .noNonce)
  else if restored then
    (n, .error (.sync (if m.point.isSome then .localDataLoss else .cannotSync)))
  else
    match n.processSyncSt tweakless m.toSync with
    | (n1, .error e) => (n1, .error (.sync e))
    | (n1, .ok out) => (n1, .ok out)

/-! ## what the link does with the answer -/

inductive Verdict where
  /-- the retransmissions are sent, the link goes on -/
  | proceed
  /-- `LinkFailureError{ErrSyncError, LinkFailureForceClose}`: our commitment is broadcast -/
  | forceClose
  /-- `MarkDataLoss(peer's commit point)`, then fail with `LinkFailureForceNone` -/
  | dataLoss
  /-- `MarkBorked`, then fail with `LinkFailureForceNone` -/
  | borked
  /-- fail with `LinkFailureForceNone`, nothing recorded -/
  | failOnly
deriving DecidableEq, Repr, Inhabited

def Verdict.toString : Verdict → String
  | .proceed => "proceed" | .forceClose => "forceClose" | .dataLoss => "dataLoss"
  | .borked => "borked" | .failOnly => "failOnly"

/-- `handleChanSyncErr`. -/
def verdictOfErr : WErr → Verdict
  | .sync .remoteDataLoss => .forceClose
  | .sync .invalidSecret => .forceClose
  | .sync .invalidCommitPoint => .forceClose
  | .sync .localDataLoss => .dataLoss
  | .sync .cannotSync => .borked
  | .sync .signFailed => .failOnly
  | .noNonce => .failOnly
  | .undecodable => .failOnly

def linkVerdict {α : Type} : Except WErr α → Verdict
  | .ok _ => .proceed
  | .error e => verdictOfErr e

/-- does the link broadcast its own (possibly revoked) commitment? -/
def Verdict.broadcasts : Verdict → Bool
  | .forceClose => true
  | _ => false

/-- durable channel status after the link has handled the answer, before it tells anyone:
    (ChanStatusBorked, ChanStatusLocalDataLoss + the stored commit point). -/
structure Marks where
  borked : Bool := false
  dataLoss : Option Nat := none      -- the peer's LocalUnrevokedCommitPoint (symbolic)
deriving DecidableEq, Repr, Inhabited

/-- `MarkDataLoss` sets ChanStatusLocalDataLoss and stores the commit point of the message;
    `MarkBorked` sets ChanStatusBorked; a force close records nothing here (the database is
    updated when the close transaction is ready). -/
def marksOf (v : Verdict) (m : Reest) : Marks :=
  match v with
  | .dataLoss => { dataLoss := m.point }
  | .borked => { borked := true }
  | _ => {}

/-- the link's whole reaction to the peer's channel_reestablish: new channel state, what is
    sent after its own reestablish, verdict, durable marks. -/
structure LinkReaction where
  node : SNode
  sent : List SMsg
  verdict : Verdict
  marks : Marks
deriving Repr

def SNode.linkReact (n : SNode) (tweakless taproot restored : Bool) (m : Reest) : LinkReaction :=
  let r := n.processReestSt tweakless taproot restored m
  let v := linkVerdict r.2
  { node := r.1,
    sent := (match r.2 with | .ok out => out | .error _ => []),
    verdict := v, marks := marksOf v m }

end LndModel.C03
