/-
C03 — the executable check `mirOk` the driver evaluates on real traces is exactly `Mir`.
-/
import LndModel.C03.Conv

namespace LndModel.C03

theorem mirOk_iff (s r : SNode) (q : List SMsg) : mirOk s r q = true ↔ Mir s r q := by
  constructor
  · intro h
    unfold mirOk at h
    simp only [Bool.and_eq_true, beq_iff_eq] at h
    obtain ⟨⟨⟨⟨⟨h1, h2⟩, h3⟩, h4⟩, h5⟩, h6⟩ := h
    refine ⟨h1, h2, h3, ?_, ?_, ?_, ?_, ?_⟩
    · intro ix e1 e2; simp [e1, e2] at h4; exact h4.1
    · intro ix e1 e2 e3; simp [e1, e2, e3] at h4; exact h4.2
    · intro ix e1 e2 e3; simp [e1, e2, e3] at h4; exact h4.2
    · intro e; simpa [e] using h5
    · intro e
      cases hrp : s.rp with
      | none => simp [e, hrp] at h6
      | some ix => simp [e, hrp] at h6; exact ⟨ix, rfl, h6⟩
  · intro ⟨h1, h2, h3, h4, h5, h6, h7, h8⟩
    unfold mirOk
    simp only [Bool.and_eq_true, beq_iff_eq]
    refine ⟨⟨⟨⟨⟨h1, h2⟩, h3⟩, ?_⟩, ?_⟩, ?_⟩
    · cases hrp : s.rp with
      | none => rfl
      | some ix =>
        by_cases e : r.lt = s.rt
        · cases hl : s.lwr with
          | false => simp [e, h4 ix hrp e, h5 ix hrp e hl]
          | true => simp [e, h4 ix hrp e, (h6 ix hrp e hl).1, (h6 ix hrp e hl).2]
        · simp [e]
    · by_cases e : r.lt = s.rt
      · simp [e, h7 e]
      · simp [e]
    · by_cases e : r.lt = s.rt + 1
      · obtain ⟨ix, e1, e2⟩ := h8 e
        simp [e, e1, e2]
      · simp [e]

theorem inv2Ok_of_inv2 (s : SSys) (h : Inv2 s) : inv2Ok s = true := by
  obtain ⟨_, h1, h2, h3, h4, _, _⟩ := h
  simp [inv2Ok, h1, h2, (mirOk_iff _ _ _).2 h3, (mirOk_iff _ _ _).2 h4]

end LndModel.C03
