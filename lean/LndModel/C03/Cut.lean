/-
C03 — deliveries, the reconnection (`cutPre`, `resync`, `halfSync`) and the closed form of
`processSync` between two peers that satisfy the cross-node invariant.
-/
import LndModel.C03.Lemmas

namespace LndModel.C03

/-! ## deliveries -/

theorem inv_dlvAB (s : SSys) (h : Inv s) : Inv s.dlvAB := by
  cases s with
  | mk a b ab ba =>
  cases ab with
  | nil => simpa [SSys.dlvAB] using h
  | cons m rest =>
    show Inv { a := a, b := b.recv m, ab := rest, ba := ba }
    obtain ⟨hab, hba⟩ := h
    change Link a b (m :: rest) ba at hab
    change Link b a ba (m :: rest) at hba
    show Link a (b.recv m) rest ba ∧ Link (b.recv m) a ba rest
    cases m with
    | upd i =>
      have e : (b.recv (.upd i)).lt = b.lt ∧ (b.recv (.upd i)).lp = b.lp ∧ (b.recv (.upd i)).rt = b.rt ∧
          (b.recv (.upd i)).rp = b.rp ∧ (b.recv (.upd i)).hist = b.hist ∧ (b.recv (.upd i)).lwr = b.lwr := by
        cases i <;> simp [SNode.recv]
      obtain ⟨e1, e2, e3, e4, e5, e6⟩ := e
      exact ⟨link_congr (x := a) (y := b) (qxy := .upd i :: rest) (qyx := ba)
                rfl rfl e3 e4 rfl rfl rfl rfl e1 (by simp [SMsg.isRev]) rfl hab,
             link_congr (x := b) (y := a) (qxy := ba) (qyx := .upd i :: rest)
                e1 (by rw [e2]) rfl rfl e5 e6 e4 e3 rfl rfl (by simp [SMsg.isSig]) hba⟩
    | sig hh ix =>
      obtain ⟨r2, s2, h2⟩ := hba
      refine ⟨link_congr (x := a) (y := b) (qxy := .sig hh ix :: rest) (qyx := ba)
                rfl rfl rfl rfl rfl rfl rfl rfl rfl (by simp [SMsg.isRev]) rfl hab, ⟨r2, ?_, ?_⟩⟩
      · simp [SNode.recv, SMsg.isSig] at s2 ⊢; omega
      · exact histOk_congr rfl rfl rfl rfl rfl rfl rfl h2
    | rev hh =>
      obtain ⟨r1, s1, h1⟩ := hab
      obtain ⟨r2, s2, h2⟩ := hba
      simp [SMsg.isRev] at r1
      have hb := tipH_le b
      have hlt : a.lt = b.rt + 1 := by omega
      obtain ⟨ix, hrp⟩ := rp_some_of_tipH (n := b) (by omega)
      have ht := tipH_some hrp
      simp only [SNode.recv, SNode.recvRev, hrp]
      refine ⟨⟨?_, ?_, ?_⟩, ⟨?_, ?_, ?_⟩⟩
      · simp; omega
      · simp [SNode.tipH]; omega
      · exact histOk_peer_recvRev h1 hlt rfl rfl
      · simpa using r2
      · simpa [SMsg.isSig] using s2
      · exact histOk_self_recvRev h2 (by omega) rfl rfl rfl rfl rfl

theorem inv_dlvBA (s : SSys) (h : Inv s) : Inv s.dlvBA := by
  rw [dlvBA_swap, inv_swap]; exact inv_dlvAB _ ((inv_swap s).2 h)

theorem inv_dlvABn (k : Nat) : ∀ s : SSys, Inv s → Inv (SSys.dlvABn k s) := by
  induction k with
  | zero => intro s h; exact h
  | succ k ih => intro s h; exact ih _ (inv_dlvAB s h)

theorem inv_dlvBAn (k : Nat) : ∀ s : SSys, Inv s → Inv (SSys.dlvBAn k s) := by
  induction k with
  | zero => intro s h; exact h
  | succ k ih => intro s h; exact ih _ (inv_dlvBA s h)

/-! ## the connection drops, both restart -/

theorem linkW_of_link {x y : SNode} {qxy qyx : List SMsg} (h : Link x y qxy qyx) :
    LinkW x.reload y.reload := by
  obtain ⟨r1, s1, h1⟩ := h
  refine ⟨?_, ?_, rfl, histOk_congr rfl rfl rfl rfl rfl rfl rfl h1⟩
  · show y.rt ≤ x.lt; omega
  · have : y.reload.tipH = y.tipH := tipH_congr rfl rfl
    rw [this]; show x.lt ≤ y.tipH; omega

theorem invW_dropReload (s : SSys) (h : Inv s) : InvW s.dropReload :=
  ⟨linkW_of_link h.1, linkW_of_link h.2, rfl, rfl⟩

theorem invW_cutPre (s : SSys) (kA kB : Nat) (h : Inv s) : InvW (s.cutPre kA kB) :=
  invW_dropReload _ (inv_dlvBAn kB _ (inv_dlvABn kA _ h))

/-! ## `processSync` in closed form -/

/-- the "we owe a revocation and a commitment" arm signs a fresh commitment. -/
def resigns (x y : SNode) : Bool := decide (y.rt + 1 = x.lt) && x.owe && x.rp.isNone

/-- state after `processSync`. -/
def syncNode (x y : SNode) : SNode := if resigns x y then x.doSign.1 else x

/-- the fresh signature of that arm. -/
def freshSig (x y : SNode) : List SMsg := if resigns x y then x.doSign.2.toList else []

/-- a signature is retransmitted together with the log updates it covers beyond the
    commitment the peer has already revoked for. -/
def expand (s : SNode) : SMsg → List SMsg
  | .sig h ix =>
    (List.range' s.rtIdx.our (ix.our - s.rtIdx.our)).map (fun i => SMsg.upd (some i)) ++ [SMsg.sig h ix]
  | m => [m]

/-- what `processSync` returns: everything owed, in the original order of signature and
    revocation, then possibly the fresh signature. -/
def syncOut (x y : SNode) : List SMsg := (owed x y).flatMap (expand x) ++ freshSig x y

theorem expand_cs (x y : SNode) :
    (csOf x y).flatMap (expand x) = if x.rp.isSome && decide (y.lt = x.rt) then x.commitDiffMsgs else [] := by
  unfold csOf SNode.commitDiffMsgs
  cases hrp : x.rp with
  | none => simp
  | some ix => by_cases h : y.lt = x.rt <;> simp [h, expand]

theorem expand_rv (x y : SNode) : (rvOf x y).flatMap (expand x) = rvOf x y := by
  unfold rvOf; split <;> simp [expand]

theorem syncLocal_spec {x y : SNode} (hxy : LinkW x y) (dlp : Bool) :
    x.syncLocal dlp y.rt = .ok (syncNode x y, rvOf x y ++ freshSig x y) := by
  obtain ⟨lo, hi, _, _⟩ := hxy
  have := tipH_le y
  unfold SNode.syncLocal syncNode freshSig resigns rvOf
  by_cases h : y.rt = x.lt
  · have h1 : ¬ (y.rt > x.lt) := by omega
    have h2 : ¬ (y.rt + 1 < x.lt) := by omega
    have h3 : ¬ (y.rt + 1 = x.lt) := by omega
    simp [h1, h2, h, h3]
  · have h1 : ¬ (y.rt > x.lt) := by omega
    have h2 : ¬ (y.rt + 1 < x.lt) := by omega
    have h3 : y.rt + 1 = x.lt := by omega
    simp only [h1, h2, h, h3, if_false, if_true, decide_true, Bool.true_and]
    cases ho : x.owe with
    | false => simp
    | true =>
      cases hrp : x.rp with
      | some ix => simp [SNode.doSign, hrp]
      | none => simp [SNode.doSign, hrp]

theorem syncRemote_spec {x y : SNode} (hyx : LinkW y x) (first : List SMsg) :
    x.syncRemote (y.lt + 1) first =
      .ok (if x.rp.isSome && decide (y.lt = x.rt) then
             (if x.lwr then x.commitDiffMsgs ++ first else first ++ x.commitDiffMsgs)
           else first) := by
  obtain ⟨lo, hi, _, _⟩ := hyx
  have h0 := tipH_le x
  unfold SNode.syncRemote
  have h1 : ¬ (y.lt + 1 > x.tipH + 1) := by omega
  have h2 : ¬ (y.lt + 1 ≤ x.rt) := by omega
  simp only [h1, h2, if_false]
  cases hrp : x.rp with
  | none =>
    have ht := tipH_none hrp
    have : y.lt + 1 = x.tipH + 1 := by omega
    simp [this]
  | some ix =>
    have ht := tipH_some hrp
    by_cases h : y.lt = x.rt
    · rw [h]
      have h3 : ¬ (x.rt + 1 = x.tipH + 1) := by omega
      have h4 : x.rt + 1 = x.tipH := by omega
      simp [h3, h4]
    · have h3 : y.lt + 1 = x.tipH + 1 := by omega
      simp [h3, h]

theorem pointOk_spec {x y : SNode} (hyx : LinkW y x) (tw dlp : Bool) :
    x.pointOk tw (y.chanSyncMsg dlp) = true := by
  obtain ⟨lo, hi, _, _⟩ := hyx
  have h0 := tipH_le x
  unfold SNode.pointOk SNode.chanSyncMsg
  cases dlp with
  | false => simp
  | true =>
    cases tw with
    | true => simp
    | false =>
      by_cases h : y.lt = x.rt
      · simp [h]
      · have h3 : y.lt = x.rt + 1 := by omega
        simp [h3]

/-- `processSync` between two peers whose states are related by the invariant never fails, and
    returns `syncOut`. -/
theorem processSync_spec {x y : SNode} (hxy : LinkW x y) (hyx : LinkW y x) (tw dlp : Bool) :
    x.processSync tw (y.chanSyncMsg dlp) = .ok (syncNode x y, syncOut x y) := by
  unfold SNode.processSync
  have hsec : ((y.chanSyncMsg dlp).point.isSome && (y.chanSyncMsg dlp).remoteTail != 0 &&
      (y.chanSyncMsg dlp).lastSecret != some ((y.chanSyncMsg dlp).remoteTail - 1)) = false := by
    unfold SNode.chanSyncMsg
    by_cases h : y.rt = 0 <;> simp [h]
  have hp := pointOk_spec hyx tw dlp
  have hl := syncLocal_spec hxy (y.chanSyncMsg dlp).point.isSome
  have hr := syncRemote_spec hyx (rvOf x y ++ freshSig x y)
  have e1 : (y.chanSyncMsg dlp).remoteTail = y.rt := rfl
  have e2 : (y.chanSyncMsg dlp).nextLocal = y.lt + 1 := rfl
  rw [hsec, e1, e2]
  simp only [Bool.false_eq_true, if_false, hl, hr, hp, if_true]
  congr 2
  -- the two ways of writing the returned list agree
  unfold syncOut owed
  have hcs := expand_cs x y
  have hrv := expand_rv x y
  have hfresh : x.rp.isSome = true → freshSig x y = [] := by
    intro h; unfold freshSig resigns
    cases hrp : x.rp with
    | none => simp [hrp] at h
    | some ix => simp [hrp]
  by_cases hc : (x.rp.isSome && decide (y.lt = x.rt)) = true
  · have hs : x.rp.isSome = true := by
      cases h : x.rp.isSome <;> simp [h] at hc ⊢
    have hf := hfresh hs
    cases hlwr : x.lwr <;> simp [List.flatMap_append, hcs, hrv, hc, hf]
  · cases hlwr : x.lwr <;> simp [List.flatMap_append, hcs, hrv, hc]

/-! ## the invariant after the resynchronisation -/

theorem nRev_range (s : SNode) (a n : Nat) :
    nRev ((List.range' a n).map (fun i => SMsg.upd (some i))) = 0 := by
  simp [nRev, List.countP_eq_zero, SMsg.isRev]

theorem nSig_range (s : SNode) (a n : Nat) :
    nSig ((List.range' a n).map (fun i => SMsg.upd (some i))) = 0 := by
  simp [nSig, List.countP_eq_zero, SMsg.isSig]

theorem nRev_syncOut (x y : SNode) : nRev (syncOut x y) = if y.rt + 1 = x.lt then 1 else 0 := by
  unfold syncOut owed csOf rvOf freshSig SNode.doSign
  cases hrp : x.rp <;> cases x.lwr <;> cases resigns x y <;>
    by_cases h1 : y.rt + 1 = x.lt <;> by_cases h2 : y.lt = x.rt <;>
    simp [h1, h2, expand, SMsg.isRev, nRev_range x]

theorem nSig_syncOut (x y : SNode) :
    nSig (syncOut x y) =
      (if x.rp.isSome && decide (y.lt = x.rt) then 1 else 0) + (if resigns x y then 1 else 0) := by
  unfold syncOut owed csOf rvOf freshSig
  cases hrp : x.rp with
  | none =>
    cases x.lwr <;> cases hr : resigns x y <;> by_cases h1 : y.rt + 1 = x.lt <;>
      simp [h1, expand, SMsg.isSig, SNode.doSign, hrp]
  | some ix =>
    have hr : resigns x y = false := by simp [resigns, hrp]
    cases x.lwr <;> by_cases h1 : y.rt + 1 = x.lt <;> by_cases h2 : y.lt = x.rt <;>
      simp [h1, h2, hr, expand, SMsg.isSig, nSig_range x]

theorem syncNode_fields (x y : SNode) :
    (syncNode x y).lt = x.lt ∧ (syncNode x y).rt = x.rt ∧ (syncNode x y).lp = x.lp := by
  unfold syncNode SNode.doSign
  cases resigns x y <;> cases x.rp <;> simp

theorem syncNode_tipH (x y : SNode) :
    (syncNode x y).tipH = x.tipH + (if resigns x y then 1 else 0) := by
  unfold syncNode
  cases hr : resigns x y with
  | false => simp
  | true =>
    have hrp : x.rp = none := by
      unfold resigns at hr
      cases h : x.rp <;> simp [h] at hr ⊢
    simp [SNode.doSign, hrp, SNode.tipH]

theorem histOk_syncNode {x y : SNode} (hxy : LinkW x y) (hyx : LinkW y x) :
    HistOk (syncNode x y) (syncNode y x) := by
  have hf := syncNode_fields y x
  unfold syncNode
  cases hr : resigns x y with
  | false =>
    simp only [Bool.false_eq_true, if_false]
    exact histOk_congr rfl rfl rfl rfl rfl hf.1 hf.2.1 hxy.hist
  | true =>
    have hrp : x.rp = none := by
      unfold resigns at hr
      cases h : x.rp <;> simp [h] at hr ⊢
    have hy : y.lt = x.rt := by
      have := hyx.lo; have := hyx.hi; rw [tipH_none hrp] at *; omega
    simp only [if_true]
    have h1 : HistOk x.doSign.1 y := by
      simp only [SNode.doSign, hrp]
      exact histOk_send_sig hxy.hist hrp hy rfl rfl rfl rfl rfl
    exact histOk_congr rfl rfl rfl rfl rfl hf.1 hf.2.1 h1

theorem link_sync {x y : SNode} (hxy : LinkW x y) (hyx : LinkW y x) :
    Link (syncNode x y) (syncNode y x) (syncOut x y) (syncOut y x) := by
  have fx := syncNode_fields x y
  have fy := syncNode_fields y x
  have hy := tipH_le y
  refine ⟨?_, ?_, histOk_syncNode hxy hyx⟩
  · rw [fx.1, fy.2.1, nRev_syncOut]
    have := hxy.lo; have := hxy.hi
    split <;> omega
  · rw [fx.1, fx.2.2, hxy.lp, syncNode_tipH, nSig_syncOut]
    have h1 := hxy.lo; have h2 := hxy.hi
    cases hrp : y.rp with
    | none =>
      rw [tipH_none hrp] at h2 ⊢
      simp; omega
    | some ix =>
      have hr : resigns y x = false := by simp [resigns, hrp]
      rw [tipH_some hrp] at h2 ⊢
      by_cases h : x.lt = y.rt <;> simp [h, hr] <;> omega

/-- a full resynchronisation never fails and re-establishes the invariant. -/
theorem resync_spec (c : SyncCfg) (s : SSys) (h : InvW s) :
    s.resync c = .ok { a := syncNode s.a s.b, b := syncNode s.b s.a,
                       ab := syncOut s.a s.b, ba := syncOut s.b s.a } := by
  unfold SSys.resync
  rw [processSync_spec h.1 h.2.1, processSync_spec h.2.1 h.1]

theorem inv_resync (s : SSys) (h : InvW s) :
    Inv { a := syncNode s.a s.b, b := syncNode s.b s.a, ab := syncOut s.a s.b, ba := syncOut s.b s.a } :=
  ⟨link_sync h.1 h.2.1, link_sync h.2.1 h.1⟩

/-! ## only one side processes the reestablish, then the connection drops again -/

theorem linkW_reload_syncNode {x y : SNode} (hxy : LinkW x y) (hyx : LinkW y x) :
    LinkW (syncNode x y).reload y.reload ∧ LinkW y.reload (syncNode x y).reload := by
  have fx := syncNode_fields x y
  have hh : HistOk (syncNode x y) y := by
    unfold syncNode
    cases hr : resigns x y with
    | false => simpa using hxy.hist
    | true =>
      have hrp : x.rp = none := by
        unfold resigns at hr
        cases h : x.rp <;> simp [h] at hr ⊢
      have hy : y.lt = x.rt := by
        have := hyx.lo; have := hyx.hi; rw [tipH_none hrp] at *; omega
      simp only [if_true, SNode.doSign, hrp]
      exact histOk_send_sig hxy.hist hrp hy rfl rfl rfl rfl rfl
  refine ⟨⟨?_, ?_, rfl, histOk_congr rfl rfl rfl rfl rfl rfl rfl hh⟩,
          ⟨?_, ?_, rfl, histOk_congr rfl rfl rfl rfl rfl (by show (syncNode x y).lt = x.lt; exact fx.1)
                          (by show (syncNode x y).rt = x.rt; exact fx.2.1) hyx.hist⟩⟩
  · show y.rt ≤ (syncNode x y).lt; rw [fx.1]; exact hxy.lo
  · have : y.reload.tipH = y.tipH := tipH_congr rfl rfl
    rw [this]; show (syncNode x y).lt ≤ y.tipH; rw [fx.1]; exact hxy.hi
  · show (syncNode x y).rt ≤ y.lt; rw [fx.2.1]; exact hyx.lo
  · have : (syncNode x y).reload.tipH = (syncNode x y).tipH := tipH_congr rfl rfl
    rw [this, syncNode_tipH]; show y.lt ≤ _
    have := hyx.hi; omega

theorem halfSync_spec (c : SyncCfg) (sideA : Bool) (s : SSys) (h : InvW s) :
    ∃ s', s.halfSync c sideA = .ok s' ∧ InvW s' := by
  unfold SSys.halfSync
  cases sideA with
  | true =>
    simp only [if_true, processSync_spec h.1 h.2.1]
    obtain ⟨h1, h2⟩ := linkW_reload_syncNode h.1 h.2.1
    exact ⟨_, rfl, ⟨h1, h2, rfl, rfl⟩⟩
  | false =>
    simp only [Bool.false_eq_true, if_false, processSync_spec h.2.1 h.1]
    obtain ⟨h1, h2⟩ := linkW_reload_syncNode h.2.1 h.1
    exact ⟨_, rfl, ⟨h2, h1, rfl, rfl⟩⟩

end LndModel.C03
