/-
C03 driver, stream `link`: one real `channelLink` (switch + mailbox survive) against an honest
peer played by the harness, with in-process flaps at random instants
(`harness/overlay/htlcswitch/zz_c03_verif_test.go`).

(X) correspondence.  At every flap both channels are reloaded from disk; the harness prints the
    sync skeleton of both states (`R` lines).  Anchored there, the model predicts
  * both channel_reestablish messages (`SNode.reest`) as built and as decoded from the wire,
  * what Bob's real `ProcessChanSyncMsg` returns (`processReest`: error class, kinds, order),
  * what Alice's link retransmits after her real `syncChanStates` (the first messages she sends
    on the new connection),
  * that the reloaded pair satisfies the height relation of every reachable cut state
    (`reachable_heights`): an in-process flap is a `cut` whose delivered prefix is what the
    links consumed — the mailbox content of the previous connection plays no role.

(S) monitor, from the implementation's answers only
  link-failed        Alice's link reported a failure (OnChannelFailure) or sent an error to the peer
  delivery-rejected  Bob (honest peer) rejects a message of Alice: invalid signature, unknown htlc,
                     a message before channel_reestablish, …
  sync-error         reload / ChanSyncMsg / ProcessChanSyncMsg failed
  wire-roundtrip / reestablish-wire   as in the `lnwallet` stream
  resync-stalled     the resumed exchange does not reach a state with nothing in flight
  mirror-quiescent   commitments of the two sides are not mirrored when nothing is in flight
  dlp-answer / dlp-force-close / dlp-mark-durable   (`LV` lines: the last connection of a case gets
                     a forged channel_reestablish) the peer claims — and proves with the matching
                     revocation secret — a revocation height beyond Alice's local chain tail, and her
                     link goes on / retransmits anything; asks for a force close (it would broadcast
                     a revoked commitment); or the data-loss mark and the peer's commit point are not
                     in her DATABASE at the moment OnChannelFailure is called (before any reply)
  htlc-lost / htlc-resolution / htlc-resurrected / htlc-duplicated / htlc-phantom / balance-exact
                     an irrevocably committed HTLC is neither present exactly once nor resolved
                     exactly once (settled iff Alice knows the preimage; Bob's balance moves by
                     exactly the settled amounts)
-/
import LndModel.Prelude.Lines
import LndModel.C03.Model
import LndModel.C03.Wire
import LndModel.C03.Dlp

open LndModel LndModel.Lines LndModel.C03

namespace LndModel.C03.LinkDriver

structure HInfo where
  id : Nat
  amt : Nat
  known : Bool
  committed : Bool := false      -- seen on the lowest unrevoked commitment of both sides (`V` line)
  gone : Bool := false           -- ... and later on none
  lastRes : String := ""         -- last resolution Bob accepted for it (settle / fail)
deriving Repr

structure St where
  caseId : String := "0"
  lines : Nat := 0
  cases : Nat := 0
  ops : Nat := 0
  mismatches : Nat := 0
  monitorFails : Nat := 0
  caseMismatch : Nat := 0
  caseMonitor : Nat := 0
  samples : Nat := 0
  cap : Nat := 0
  -- model, anchored at the last reload
  skA : Option SNode := none
  skB : Option SNode := none
  reA : Option Reest := none     -- as built (model)
  reB : Option Reest := none
  builtA : List String := []
  builtB : List String := []
  decA : Option Reest := none    -- as decoded (implementation)
  decB : Option Reest := none
  aliceGotReest : Bool := false  -- Bob's reestablish was put into Alice's mailbox (this connection)
  aliceSentReest : Bool := false
  postA : List String := []      -- kinds of what Alice sent after her reestablish
  readySeen : Bool := false      -- she re-sent channel_ready on this connection
  readyFirst : Bool := true      -- ... before anything else
  readyChecks : Nat := 0
  retxChecked : Bool := false
  -- ledger
  htlcs : List HInfo := []
  snapA : List String := []
  -- statistics
  flaps : Nat := 0
  flapsUnread : Nat := 0
  flapsResync : Nat := 0
  quiescent : Nat := 0
  mirrorChecks : Nat := 0
  htlcChecks : Nat := 0
  wireMsgs : Nat := 0
  wireReest : Nat := 0
  syncChecks : Nat := 0
  retxAlice : Nat := 0
  retxAliceNonEmpty : Nat := 0
  retxBobNonEmpty : Nat := 0
  heightChecks : Nat := 0
  stopNoticed : Nat := 0
  bobProcessed : Nat := 0
  committedHtlcs : Nat := 0
  resolvedHtlcs : Nat := 0
  forged : Nat := 0
  forgedAhead : Nat := 0
  forgedVerdicts : List (String × Nat) := []

def mismatch (s : St) (detail : String) : IO St := do
  if s.caseMismatch < 3 then
    IO.println s!"MISMATCH case={s.caseId} line={s.lines} {detail}"
  return { s with mismatches := s.mismatches + 1, caseMismatch := s.caseMismatch + 1 }

def monitor (s : St) (clause detail : String) : IO St := do
  if s.caseMonitor < 4 then
    IO.println s!"MONITOR case={s.caseId} clause={clause} line={s.lines} {detail}"
  return { s with monitorFails := s.monitorFails + 1, caseMonitor := s.caseMonitor + 1 }

def resOf (ws : List String) : String :=
  match ws.dropWhile (· ≠ "=>") with
  | _ :: r :: _ => r
  | _ => "?"

def afterArrow (ws : List String) : List String := (ws.dropWhile (· ≠ "=>")).drop 1

def optTok (o : Option Nat) (none_ : String) : String :=
  match o with
  | some k => toString k
  | none => none_

def optOf (t : String) : Option Nat :=
  if t == "none" || t == "absent" || t == "-" || t == "?" then none
  else match t.toNat? with
    | some k => some k
    | none => some 1000000007

def reestTok (m : Reest) : String :=
  s!"nl:{m.nextLocal},rt:{m.remoteTail},sec:{optTok m.lastSecret "none"},pt:{optTok m.point "absent"},nonce:{m.nonce.isSome}"

def reestOfLine (ws : List String) : Reest :=
  let hasNonce := (kv? ws "nonce").getD "-" != "-" || (kv? ws "nonces").getD "-" != "-"
  let nl := (kvNat? ws "nl").getD 0
  { nextLocal := nl, remoteTail := (kvNat? ws "rt").getD 0,
    lastSecret := optOf ((kv? ws "sec").getD "?"), point := optOf ((kv? ws "pt").getD "?"),
    nonce := if hasNonce then some nl else none }

/-- sync skeleton of a state as it is on disk, after `NewLightningChannel`. -/
def skOfDisk (ws : List String) : SNode :=
  let g (k : String) : Nat := (kvNat? ws k).getD 0
  let rp : Option Idx := match ((kv? ws "rp").getD "-").splitOn ":" with
    | [_, o, t] => some ⟨o.toNat?.getD 0, t.toNat?.getD 0⟩
    | _ => none
  let n : SNode := { lt := g "lt", ltIdx := ⟨g "lto", g "ltt"⟩, rt := g "rt", rtIdx := ⟨g "rto", g "rtt"⟩,
                     rp := rp, lwr := g "lwr" == 1 }
  n.reload

def kindOfMsg (k : String) : String :=
  if k == "commitsig" then "sig" else if k == "revoke" then "rev"
  else if k == "add" || k == "settle" || k == "fail" || k == "malformed" || k == "fee" then "upd"
  else k

def modelKinds (out : List SMsg) : List String :=
  out.map fun m => match m with | .upd _ => "upd" | .sig .. => "sig" | .rev _ => "rev"

def isPrefix : List String → List String → Bool
  | [], _ => true
  | _ :: _, [] => false
  | a :: as, b :: bs => a == b && isPrefix as bs

/-- Alice's retransmission against the model (`final`: she had all the time she needs). -/
def checkAliceRetx (s : St) (final : Bool) : IO St := do
  if s.retxChecked || !s.aliceSentReest then return s
  match s.skA, s.decB with
  | some a, some mb =>
    if !s.aliceGotReest then return s
    match a.processReest true false mb with
    | .error e =>
      mismatch { s with retxChecked := true } s!"model: Alice's processSync fails with {e.toString} on {reestTok mb}"
    | .ok (_, out) =>
      let exp := modelKinds out
      let got := s.postA
      let ok := if final then isPrefix exp got else (isPrefix exp got || isPrefix got exp)
      let mut s := s
      if final || isPrefix exp got then
        s := { s with retxChecked := true, retxAlice := s.retxAlice + 1,
                      retxAliceNonEmpty := s.retxAliceNonEmpty + (if exp.isEmpty then 0 else 1) }
        -- the glue of syncChanStates: channel_ready again iff both sides are at height 0
        match s.reA with
        | some ma =>
          let expReady := resendChannelReady ma mb
          s := { s with readyChecks := s.readyChecks + 1 }
          if s.readySeen != expReady && (final || s.readySeen || !got.isEmpty) then
            s ← mismatch s s!"channel_ready re-sent={s.readySeen}, model {expReady} (next heights {ma.nextLocal} / {mb.nextLocal})"
          if s.readySeen && !s.readyFirst then
            s ← mismatch s "channel_ready re-sent after a retransmitted message"
        | none => pure ()
      if !ok then
        s ← mismatch s s!"Alice's link retransmits {got} after channel_reestablish, model {exp} (her state {repr a}, Bob's message {reestTok mb})"
      return s
  | _, _ => return s

def parseHtlcs (t : String) : List (String × Nat × Nat) :=
  if t == "-" || t == "" then []
  else (t.splitOn ",").filterMap fun x => match x.splitOn ":" with
    | [d, i, a] => some (d, i.toNat?.getD 0, a.toNat?.getD 0)
    | _ => none

def flipDir (l : List (String × Nat × Nat)) : List (String × Nat × Nat) :=
  l.map fun (d, i, a) => (if d == "i" then "o" else "i", i, a)

def hasDup (l : List Nat) : Bool :=
  match l with
  | [] => false
  | x :: xs => xs.contains x || hasDup xs

/-- monitors at a quiescent point (`S A` line stored, `S B` line given). -/
def quiescentChecks (s : St) (a b : List String) : IO St := do
  let mut s := { s with mirrorChecks := s.mirrorChecks + 1 }
  let g (l : List String) (k : String) : Nat := (kvNat? l k).getD 0
  let h (l : List String) (k : String) := parseHtlcs ((kv? l k).getD "-")
  let bad : List String :=
    (if g a "lh" != g b "rh" then ["A.local height ≠ B's view"] else []) ++
    (if g a "rh" != g b "lh" then ["B.local height ≠ A's view"] else []) ++
    (if g a "pend" != 0 || g b "pend" != 0 then ["a commitment is still unrevoked"] else []) ++
    (if g a "ll" != g b "rr" || g a "lr" != g b "rl" then ["balances on A's commitment"] else []) ++
    (if g a "rl" != g b "lr" || g a "rr" != g b "ll" then ["balances on B's commitment"] else []) ++
    (if h a "lhtlcs" != flipDir (h b "rhtlcs") then ["HTLCs on A's commitment"] else []) ++
    (if h a "rhtlcs" != flipDir (h b "lhtlcs") then ["HTLCs on B's commitment"] else [])
  if !bad.isEmpty then
    s ← monitor s "mirror-quiescent" s!"nothing in flight but {bad}: A=[{String.intercalate " " (a.drop 2)}] B=[{String.intercalate " " (b.drop 2)}]"
  -- HTLC ledger: all HTLCs are Bob's (outgoing for B, incoming for A)
  let onAl := (h a "lhtlcs"); let onAr := (h a "rhtlcs"); let onBl := (h b "lhtlcs"); let onBr := (h b "rhtlcs")
  for l in [onAl, onAr, onBl, onBr] do
    if hasDup (l.map (·.2.1)) then
      s ← monitor s "htlc-duplicated" s!"an HTLC index occurs twice on a commitment: {l}"
    for (_, i, _) in l do
      if !(s.htlcs.any (·.id == i)) then
        s ← monitor s "htlc-phantom" s!"HTLC {i} on a commitment was never offered"
  let mut hs : List HInfo := []
  let mut pending : Nat := 0
  let mut settled : Nat := 0
  for x in s.htlcs do
    let mut x := x
    let inA := onAl.contains ("i", x.id, x.amt) && onAr.contains ("i", x.id, x.amt)
    let inB := onBl.contains ("o", x.id, x.amt) && onBr.contains ("o", x.id, x.amt)
    let anywhere := [onAl, onAr, onBl, onBr].any fun l => l.any (·.2.1 == x.id)
    s := { s with htlcChecks := s.htlcChecks + 1 }
    if inA && inB then
      if x.gone then
        s ← monitor s "htlc-resurrected" s!"HTLC {x.id} was resolved and is back on the commitments"
      pending := pending + x.amt
    else if anywhere then
      -- quiescent, yet only on some of the four commitments (mirror-quiescent reports it)
      pending := pending + (if onBl.any (·.2.1 == x.id) then x.amt else 0)
    else if x.committed then
      if !x.gone then
        s := { s with resolvedHtlcs := s.resolvedHtlcs + 1 }
        if x.lastRes == "" then
          s ← monitor s "htlc-lost" s!"HTLC {x.id} (amt {x.amt}) was irrevocably committed and is gone without settle or fail"
        else if x.known && x.lastRes != "settle" then
          s ← monitor s "htlc-resolution" s!"HTLC {x.id}: Alice holds the preimage but it was resolved by {x.lastRes}"
        else if !x.known && x.lastRes != "fail" then
          s ← monitor s "htlc-resolution" s!"HTLC {x.id}: unknown payment hash but it was resolved by {x.lastRes}"
      x := { x with gone := true }
      if x.lastRes == "settle" then settled := settled + x.amt
    hs := hs ++ [x]
  s := { s with htlcs := hs }
  -- Bob is not the initiator: his balance on his own commitment moves by the HTLC amounts only
  let expB := s.cap / 2 * 1000 - pending - settled
  if g b "ll" != expB then
    s ← monitor s "balance-exact" s!"Bob's balance {g b "ll"} msat, expected {expB} = initial - pending {pending} - settled {settled}"
  return s

def step (s : St) (line : String) : IO St := do
  let s := { s with lines := s.lines + 1 }
  let ws := words line
  match ws with
  | "CASE" :: id :: rest =>
    let s := { s with caseId := id, cases := s.cases + 1, caseMismatch := 0, caseMonitor := 0,
                      cap := (kvNat? rest "cap").getD 0, skA := none, skB := none, reA := none, reB := none,
                      builtA := [], builtB := [], decA := none, decB := none, aliceGotReest := false,
                      aliceSentReest := false, postA := [], retxChecked := false, htlcs := [], snapA := [],
                      readySeen := false, readyFirst := true }
    if s.samples < 3 then
      IO.println s!"SAMPLE {line}"
      return { s with samples := s.samples + 1 }
    return s
  | ["END"] => checkAliceRetx s false
  | "R" :: node :: _ =>
    let mut s := s
    if node == "A" then
      -- a new connection begins: settle the previous one's retransmission check first
      s ← checkAliceRetx s false
      s := { s with reA := none, reB := none, builtA := [], builtB := [], decA := none, decB := none,
                    aliceGotReest := false, aliceSentReest := false, postA := [], retxChecked := false,
                    readySeen := false, readyFirst := true }
    s := { s with ops := s.ops + 1 }
    if resOf ws != "ok" then
      return ← monitor s "sync-error" s!"node={node} restart from the database failed: {resOf ws}"
    let sk := skOfDisk ws
    s := if node == "A" then { s with skA := some sk } else { s with skB := some sk }
    if node == "B" then
      match s.skA with
      | some a =>
        -- `reachable_heights` / the pending commitment is the next height
        s := { s with heightChecks := s.heightChecks + 1 }
        if !(sk.rt ≤ a.lt && a.lt ≤ sk.rt + 1 && a.rt ≤ sk.lt && sk.lt ≤ a.rt + 1) then
          s ← mismatch s s!"reloaded pair is not a reachable cut state: A lt={a.lt} rt={a.rt}, B lt={sk.lt} rt={sk.rt}"
      | none => pure ()
    return s
  | "Y" :: node :: _ =>
    let mut s := { s with ops := s.ops + 1 }
    if ws.contains "=>" then
      return ← monitor s "sync-error" s!"node={node} ChanSyncMsg failed: {resOf ws}"
    let impl := reestOfLine ws
    match (if node == "A" then s.skA else s.skB) with
    | some sk =>
      let m := sk.reest true false
      s := { s with syncChecks := s.syncChecks + 1 }
      if impl != m then
        s ← mismatch s s!"node={node} channel_reestablish model={reestTok m} impl={ws.drop 2}"
      s := if node == "A" then { s with reA := some m } else { s with reB := some m }
    | none => s ← mismatch s s!"node={node} channel_reestablish without a reloaded state"
    if (kv? ws "sec") == some "bad" || (kv? ws "pt") == some "bad" then
      s ← monitor s "sync-error" s!"node={node} channel_reestablish carries a secret / commit point that is not an element of the producer"
    return if node == "A" then { s with builtA := ws } else { s with builtB := ws }
  | "YW" :: node :: _ =>
    let mut s := { s with ops := s.ops + 1, wireReest := s.wireReest + 1 }
    let built := if node == "A" then s.builtA else s.builtB
    let f (l : List String) (k : String) : String := (kv? l k).getD "?"
    let keys := ["nl", "rt", "sec", "pt", "nonce", "nonces", "dyn"]
    let bad := keys.filter fun k => f ws k != f built k
    if !bad.isEmpty then
      s ← monitor s "reestablish-wire" s!"node={node} fields {bad} differ: the peer decodes {ws.drop 2} but the sender built {built.drop 3}"
    let dec := reestOfLine ws
    match (if node == "A" then s.reA else s.reB) with
    | some m =>
      if Reest.decode m.encode != some dec then
        s ← mismatch s s!"node={node} channel_reestablish over the wire model={(Reest.decode m.encode).map reestTok} impl={ws.drop 2}"
    | none => pure ()
    return if node == "A" then { s with decA := some dec } else { s with decB := some dec }
  | "W" :: dir :: kind :: sent :: _ =>
    let s := { s with wireMsgs := s.wireMsgs + 1 }
    let got := (afterArrow ws).headD "??"
    if sent != got then
      monitor s "wire-roundtrip" s!"dir={dir} kind={kind} the receiver decodes {got} but the sender built {sent}"
    else return s
  | "TA" :: kind :: _ =>
    if kind == "reest" && (kvNat? ws "late").getD 0 == 0 then return { s with aliceGotReest := true }
    return s
  | "FA" :: kind :: rest =>
    let mut s := { s with ops := s.ops + 1 }
    if kind == "error" || kind == "warning" then
      s ← monitor s "link-failed" s!"Alice's link sent {kind} to its peer: {rest}"
    if kind == "reest" then return { s with aliceSentReest := true, postA := [], readySeen := false, readyFirst := true }
    if kind == "channel_ready" then return { s with readySeen := true, readyFirst := s.postA.isEmpty }
    return { s with postA := s.postA ++ [kindOfMsg kind] }
  | "BP" :: kind :: _ =>
    let mut s := { s with ops := s.ops + 1, bobProcessed := s.bobProcessed + 1 }
    let res := resOf ws
    if res != "ok" then
      return ← monitor s "delivery-rejected" s!"the honest peer rejects Alice's {kind}: {res} ({ws.drop 2})"
    if kind == "settle" || kind == "fail" || kind == "malformed" then
      let id := (kvNat? ws "id").getD 0
      let r := if kind == "settle" then "settle" else "fail"
      s := { s with htlcs := s.htlcs.map fun x => if x.id == id then { x with lastRes := r } else x }
    return s
  | "P" :: _ =>
    let mut s := { s with ops := s.ops + 1 }
    let res := resOf ws
    if res != "ok" then
      s ← monitor s "sync-error" s!"Bob's ProcessChanSyncMsg => {res} between two honest peers"
    let toks := match (kv? ws "msgs").getD "-" with
      | "-" => []
      | l => (l.splitOn ",").map kindOfMsg
    match s.skB, s.decA with
    | some b, some ma =>
      s := { s with syncChecks := s.syncChecks + 1 }
      match b.processReest true false ma with
      | .error e =>
        if res == "ok" then s ← mismatch s s!"Bob's processSync model={e.toString} impl=ok"
      | .ok (b', out) =>
        if res != "ok" then s ← mismatch s s!"Bob's processSync model=ok impl={res}"
        else if modelKinds out != toks then
          s ← mismatch s s!"Bob's ProcessChanSyncMsg returns {toks}, model {modelKinds out} (state {repr b}, message {reestTok ma})"
        else
          s := { s with skB := some b', retxBobNonEmpty := s.retxBobNonEmpty + (if out.isEmpty then 0 else 1) }
    | _, _ => s ← mismatch s "Bob's ProcessChanSyncMsg without state / message"
    return s
  | "B" :: "add" :: rest =>
    let mut s := { s with ops := s.ops + 1 }
    if resOf ws != "ok" then return s
    let id := (kvNat? rest "id").getD 0
    match s.htlcs.find? (·.id == id) with
    | some x =>
      if x.committed then
        s ← monitor s "htlc-duplicated" s!"HTLC index {id} is handed out again although it was irrevocably committed"
    | none => pure ()
    let x : HInfo := { id := id, amt := (kvNat? rest "amt").getD 0, known := (kv? rest "inv") == some "known" }
    return { s with htlcs := s.htlcs.filter (·.id != id) ++ [x] }
  | "B" :: _ => return { s with ops := s.ops + 1 }
  | "V" :: _ =>
    -- irrevocably committed: on Bob's and on Alice's lowest unrevoked commitment
    let ids (k : String) : List Nat := match (kv? ws k).getD "-" with
      | "-" => []
      | l => (l.splitOn ",").filterMap (·.toNat?)
    let both := (ids "l").filter fun i => (ids "r").contains i
    let fresh := (s.htlcs.filter fun x => both.contains x.id && !x.committed).length
    return { s with committedHtlcs := s.committedHtlcs + fresh,
                    htlcs := s.htlcs.map fun x => if both.contains x.id then { x with committed := true } else x }
  | "BX" :: _ => return s
  | "T" :: _ => return s
  | "L" :: _ => monitor s "sync-error" s!"the new link cannot be attached: {resOf ws}"
  | "F" :: rest =>
    let mut s ← checkAliceRetx s false
    if resOf ws != "?" then
      return ← monitor s "link-failed" s!"the link does not stop: {resOf ws}"
    s := { s with ops := s.ops + 1, flaps := s.flaps + 1 }
    if (kvNat? rest "unread").getD 0 > 0 || (kvNat? rest "late").getD 0 > 0 then
      s := { s with flapsUnread := s.flapsUnread + 1 }
    if !s.aliceSentReest || !s.aliceGotReest then s := { s with flapsResync := s.flapsResync + 1 }
    return s
  | "LF" :: rest =>
    let why := (kv? rest "why").getD ""
    let has (t : String) : Bool := (why.splitOn t).length > 1
    if (kvNat? rest "stopping") == some 1 && (has "shutting_down" || has "quit_signal" || has "context_canceled") then
      -- the link noticed, while signing / syncing, that the harness is stopping it
      return { s with stopNoticed := s.stopNoticed + 1 }
    monitor s "link-failed" s!"Alice's link failed: {rest}"
  | "LV" :: rest =>
    -- a forged channel_reestablish handed to the real link: verdict, durable marks, what was sent
    let mut s := { s with ops := s.ops + 1, forged := s.forged + 1 }
    let res := resOf ws
    let after := afterArrow ws
    let msg := reestOfLine rest
    let g (k : String) : String := (kv? after k).getD "-"
    let sent := match g "sent" with
      | "-" => []
      | l => (l.splitOn ",").map kindOfMsg
    if res == "timeout" then
      return ← monitor s "resync-stalled" s!"the link neither fails nor completes the resynchronisation on {reestTok msg}"
    let some a := s.skA | mismatch s "forged channel_reestablish without Alice's reloaded state"
    -- (S) from the implementation's answers and her reloaded heights only
    let proven := msg.remoteTail > a.lt && msg.point.isSome && msg.lastSecret == some (msg.remoteTail - 1)
    if msg.remoteTail > a.lt then
      s := { s with forgedAhead := s.forgedAhead + 1 }
      if res != "failed" || !sent.isEmpty then
        s ← monitor s "dlp-answer" s!"Alice's local chain tail is {a.lt}, the peer claims revocation height {msg.remoteTail} ({reestTok msg}): her link answers {res} sent={sent}"
    if proven && g "action" == "forceclose" then
      s ← monitor s "dlp-force-close" s!"the peer proves to be ahead (tail {a.lt}, claimed {msg.remoteTail}) and the link asks for a force close: a revoked commitment would be broadcast"
    if proven && res == "failed" && g "action" != "forceclose" && !(g "dl" == "1" && g "lcp" == "ok") then
      s ← monitor s "dlp-mark-durable" s!"the peer proves to be ahead; at the moment the failure is reported the database holds dl={g "dl"} lcp={g "lcp"} (data-loss mark + the peer's commit point must be durable before any reply)"
    if msg.remoteTail > a.lt && msg.point.isNone && res == "failed" && g "action" != "forceclose" && g "borked" != "1" then
      s ← monitor s "dlp-mark-durable" s!"a peer without data-loss-protect fields claims revocation height {msg.remoteTail} beyond Alice's tail {a.lt}; at the moment the failure is reported the channel is not marked borked in the database (borked={g "borked"})"
    if (kv? rest "kind") == some "honest" && res != "proceed" then
      s ← monitor s "link-failed" s!"Alice's link fails on the honest peer's channel_reestablish: {after}"
    -- (X) the model's reaction of the link
    let r := a.linkReact true false false msg
    let implVerdict :=
      if res == "proceed" then "proceed"
      else if g "code" == "sync" && g "action" == "forceclose" then "forceClose"
      else if g "code" == "recovery" && g "action" == "none" then
        (if g "dl" == "1" then "dataLoss" else if g "borked" == "1" then "borked" else "failOnly")
      else s!"other:{g "code"}/{g "action"}"
    s := { s with forgedVerdicts := Id.run do
             let k := implVerdict
             match s.forgedVerdicts.find? (·.1 == k) with
             | some _ => s.forgedVerdicts.map fun (x, n) => if x == k then (x, n + 1) else (x, n)
             | none => s.forgedVerdicts ++ [(k, 1)] }
    if r.verdict.toString != implVerdict then
      s ← mismatch s s!"link verdict model={r.verdict.toString} impl={implVerdict} ({after.take 7}) msg={reestTok msg} state={repr a}"
    else
      let implMarks : Marks := { borked := g "borked" == "1",
                                 dataLoss := if g "dl" == "1" then (if g "lcp" == "ok" then msg.point else some 1000000009) else none }
      if implMarks != r.marks then
        s ← mismatch s s!"durable marks at failure time model={repr r.marks} impl=borked={g "borked"} dl={g "dl"} lcp={g "lcp"}"
      if modelKinds r.sent != sent then
        s ← mismatch s s!"after the forged channel_reestablish the link sends {sent}, model {modelKinds r.sent} (state {repr a}, message {reestTok msg})"
    return s
  | "Q" :: _ =>
    let mut s := { s with ops := s.ops + 1 }
    if resOf ws != "ok" then
      return ← monitor s "resync-stalled" s!"the resumed exchange does not complete: {ws.drop 2}"
    s ← checkAliceRetx s true
    return { s with quiescent := s.quiescent + 1 }
  | "S" :: "A" :: _ => return { s with snapA := ws }
  | "S" :: "B" :: _ =>
    if s.snapA.isEmpty then return s
    let s ← quiescentChecks s s.snapA ws
    return { s with snapA := [] }
  | "SX" :: _ => return s    -- state at a stall (diagnostic)
  | "HSTAT" :: kvs =>
    for w in kvs do IO.println s!"STAT h_{w}"
    return s
  | [] => return s
  | _ => mismatch s s!"unparsed line: {line.take 60}"

def main : IO Unit := do
  let s ← LndModel.Lines.foldStdin step {}
  IO.println s!"STAT lines={s.lines}"
  IO.println s!"STAT cases={s.cases}"
  IO.println s!"STAT evaluations={s.ops}"
  IO.println s!"STAT nontrivial={s.mirrorChecks + s.syncChecks + s.retxAlice + s.htlcChecks + s.heightChecks + s.forged}"
  IO.println s!"STAT link_flaps={s.flaps}"
  IO.println s!"STAT link_flaps_with_unread_mail={s.flapsUnread}"
  IO.println s!"STAT link_flaps_during_resync={s.flapsResync}"
  IO.println s!"STAT link_quiescent_points={s.quiescent}"
  IO.println s!"STAT link_mirror_checks={s.mirrorChecks}"
  IO.println s!"STAT link_htlc_ledger_checks={s.htlcChecks}"
  IO.println s!"STAT link_htlcs_irrevocably_committed={s.committedHtlcs}"
  IO.println s!"STAT link_htlcs_resolved={s.resolvedHtlcs}"
  IO.println s!"STAT link_reestablish_model_checks={s.syncChecks}"
  IO.println s!"STAT link_alice_retransmission_checks={s.retxAlice}"
  IO.println s!"STAT link_alice_retransmits_something={s.retxAliceNonEmpty}"
  IO.println s!"STAT link_bob_retransmits_something={s.retxBobNonEmpty}"
  IO.println s!"STAT link_channel_ready_glue_checks={s.readyChecks}"
  IO.println s!"STAT link_reachable_height_checks={s.heightChecks}"
  IO.println s!"STAT link_wire_messages={s.wireMsgs}"
  IO.println s!"STAT link_wire_reestablish={s.wireReest}"
  IO.println s!"STAT link_messages_processed_by_peer={s.bobProcessed}"
  IO.println s!"STAT link_stop_noticed_while_signing={s.stopNoticed}"
  IO.println s!"STAT link_forged_reestablish={s.forged}"
  IO.println s!"STAT link_forged_peer_ahead={s.forgedAhead}"
  for (k, v) in s.forgedVerdicts do
    IO.println s!"STAT link_forged_verdict_{k}={v}"
  IO.println s!"STAT mismatches={s.mismatches}"
  IO.println s!"STAT monitor_failures={s.monitorFails}"

end LndModel.C03.LinkDriver
