/-
C03 driver: replays a harness trace of two real `LightningChannel`s with reconnections.

(X) correspondence
  * the C01 node model is replayed on every API call / delivery (as in drv_c01); at every
    restart it is re-anchored on the implementation's dump after comparing the model's own
    `reloadNode` with it on counters and chains,
  * the sync skeleton (`SNode`) is stepped alongside and compared with the projection of the
    implementation's dump after every operation,
  * `chanSyncMsg` (heights, symbolic secret / commit point indices) and `processSync` (error class,
    kinds / order / contents of the returned messages, state after a re-sign) are compared with
    the real `ChanSyncMsg` / `ProcessChanSyncMsg`; `accepts` with the real Receive* verdicts.

(S) monitor, computed from the operation history and the implementation's answers only
  sync-error         ProcessChanSyncMsg / restart failed between honest peers
  retransmit-exact   the returned list is not exactly {updates covered by the unacknowledged
                     commitment_signed, that signature, the undelivered revoke_and_ack}
                     (+ a fresh signature after a retransmitted revocation), or signature and
                     revocation are not in their original relative order
  sig-verifies / delivery-rejected   a retransmitted message is rejected by the peer
  htlc-lost / htlc-duplicated / htlc-resurrected   an irrevocably committed HTLC is neither present
                     exactly once nor resolved when the channel is quiescent again
  wire-roundtrip     a message (update, commitment_signed, revoke_and_ack, original or retransmitted)
                     is not decoded by lnwire.ReadMessage as the sender built it
  reestablish-wire   the channel_reestablish the peer decodes differs from the one ChanSyncMsg built
                     (heights, last secret, commit point, taproot nonces; a sender without the
                     data-loss-protect fields conveys the two heights)
  dlp-answer         (forged / stale channel_reestablish, `Q` lines) the peer claims a revocation
                     height beyond the node's own local chain tail and ProcessChanSyncMsg still
                     answers ok (it would retransmit from a state the peer proves to be ahead of)
  dlp-class          the peer proves to be ahead (own revocation secret for the claimed height +
                     commit point) and the answer is an error other than ErrCommitSyncLocalDataLoss
  dlp-stale-peer     the peer waits for a commitment it has already revoked (it lost state) and the
                     answer is not ErrCommitSyncRemoteDataLoss
  dlp-point          ErrCommitSyncLocalDataLoss does not carry the commit point of the message
                     (MarkDataLoss would store a point that cannot recover the funds)
  + all C01 clauses (conservation, capacity, tx-outputs, balance-moves, mirror-signed,
    mirror-idle with byte-equal transactions, commit-stable across restarts, internal-error)
-/
import LndModel.Prelude.Lines
import LndModel.C01.Model
import LndModel.C03.Model
import LndModel.C03.Wire
import LndModel.C03.Mirror
import LndModel.C03.Dlp
import LndModel.C03.LinkDriver

open LndModel LndModel.Lines LndModel.C01 LndModel.C03

namespace LndModel.C03.Driver

/-! ### parsed dumps -/

structure RawOut where
  value : Nat
  cls : String
  cltv : Nat
  hid : Nat
  script : String
deriving Repr, BEq, Inhabited

structure CDump where
  chain : Chain
  pos : Nat
  cm : Commit
  raw : List RawOut
deriving Repr, Inhabited

structure NDump where
  ll : Nat := 0
  lc : Nat := 0
  rl : Nat := 0
  rc : Nat := 0
  owe : Bool := false
  need : Bool := false
  pend : List Nat := []
  lmod : List Nat := []
  rmod : List Nat := []
  logL : List Entry := []
  logR : List Entry := []
  commits : List CDump := []
  seen : Bool := false
deriving Repr, Inhabited

def NDump.chainOf (d : NDump) (c : Chain) : List CDump := d.commits.filter (fun x => x.chain == c)

def natD (s : String) : Nat := s.toNat?.getD 0

def parseSet (s : String) : List Nat :=
  if s == "-" then [] else (s.splitOn ";").map natD

def tyOf : String → Option ETy
  | "add" => some .add | "settle" => some .settle | "fail" => some .fail
  | "malformed" => some .malformed | "fee" => some .feeUpd | _ => none

def parseEntry (tok : String) : Option Entry :=
  match tok.splitOn ":" with
  | ["E", ty, li, ref, amt, exp, hid, aL, aR, rL, rR] =>
    (tyOf ty).map fun t =>
      let isAdd := t == .add
      { ty := t, amt := natD amt, logIndex := natD li,
        htlcIndex := if isAdd then natD ref else 0,
        parent := if isAdd then 0 else natD ref,
        expiry := natD exp, hash := natD hid,
        addL := natD aL, addR := natD aR, rmvL := natD rL, rmvR := natD rR }
  | _ => none

def parseHtlc (tok : String) : Option Htlc :=
  match tok.splitOn ":" with
  | ["H", dir, idx, amt, exp, hid, dust] =>
    some { incoming := dir == "i", idx := natD idx, amt := natD amt, expiry := natD exp,
           hash := natD hid, dust := dust == "1" }
  | _ => none

def parseRawOut (tok : String) : Option RawOut :=
  match tok.splitOn ":" with
  | ["O", v, cls, cltv, hid, script] => some ⟨natD v, cls, natD cltv, natD hid, script⟩
  | _ => none

def kindOf : String → Option OKind
  | "tl" => some .toLocal | "tr" => some .toRemote | "al" => some .anchorLocal
  | "ar" => some .anchorRemote | "ho" => some .offered | "hr" => some .received | _ => none

def kindRank : OKind → Nat
  | .toLocal => 0 | .toRemote => 1 | .anchorLocal => 2 | .anchorRemote => 3 | .offered => 4 | .received => 5

def outLe (a b : Out) : Bool :=
  let ka := (a.value, kindRank a.kind, a.cltv, a.hash)
  let kb := (b.value, kindRank b.kind, b.cltv, b.hash)
  ka.1 < kb.1 || (ka.1 == kb.1 && (ka.2.1 < kb.2.1 || (ka.2.1 == kb.2.1 &&
    (ka.2.2.1 < kb.2.2.1 || (ka.2.2.1 == kb.2.2.1 && ka.2.2.2 ≤ kb.2.2.2)))))

def sortOuts (os : List Out) : List Out := os.mergeSort outLe

def pairNat (s : String) : Nat × Nat :=
  match s.splitOn "," with
  | [a, b] => (natD a, natD b)
  | _ => (0, 0)

/-- `C X L pos h= our= … | H… | O…` -/
def parseCommit (ws : List String) : Option CDump :=
  match ws with
  | "C" :: _ :: side :: pos :: rest =>
    let hdr := rest.takeWhile (· ≠ "|")
    let r1 := (rest.dropWhile (· ≠ "|")).drop 1
    let hs := r1.takeWhile (· ≠ "|")
    let os := (r1.dropWhile (· ≠ "|")).drop 1
    let mi := pairNat ((kv? hdr "mi").getD "")
    let hi := pairNat ((kv? hdr "hi").getD "")
    let raw := os.filterMap parseRawOut
    let outs := raw.filterMap fun o => (kindOf o.cls).map fun k =>
      ({ value := o.value, kind := k, cltv := o.cltv, hash := o.hid } : Out)
    some { chain := if side == "L" then .loc else .rem, pos := natD pos, raw := raw,
           cm := { height := (kvNat? hdr "h").getD 0, our := (kvNat? hdr "our").getD 0,
                   their := (kvNat? hdr "their").getD 0, fee := (kvNat? hdr "fee").getD 0,
                   feePerKw := (kvNat? hdr "fpk").getD 0, ourMsg := mi.1, theirMsg := mi.2,
                   ourHtlc := hi.1, theirHtlc := hi.2, htlcs := hs.filterMap parseHtlc,
                   outs := outs } }
  | _ => none

/-! ### driver state -/

inductive Res where
  | settled | failed
deriving BEq, Repr

structure St where
  caseId : String := "0"
  lines : Nat := 0
  cases : Nat := 0
  ops : Nat := 0
  mismatches : Nat := 0
  monitorFails : Nat := 0
  caseMismatch : Nat := 0   -- mismatches in the current case (limits the output)
  caseMonitor : Nat := 0
  -- model
  inited : Bool := false
  modelOk : Bool := true    -- model replay still in step with the implementation
  cap : Nat := 0
  anchors : Bool := false
  cfgA : Cfg := default
  mA : Node := default
  mB : Node := default
  qab : List Msg := []
  qba : List Msg := []
  -- implementation view
  dA : NDump := {}
  dB : NDump := {}
  cur : Option String := none      -- node whose dump is being read
  dirty : List String := []
  qlenAB : Nat := 0
  qlenBA : Nat := 0
  dead : Bool := false
  /-- (adder node, htlc index) ↦ how it was resolved, from the op history. -/
  resolved : List ((String × Nat) × Res) := []
  /-- (node, chain, height) ↦ commitment seen in an earlier dump. -/
  hist : List ((String × Chain × Nat) × Commit) := []
  /-- signer's state right before each signature still in flight (per direction). -/
  snapAB : List (Option NDump) := []
  snapBA : List (Option NDump) := []
  agreeChecks : Nat := 0
  -- statistics
  signs : Nat := 0
  sigsVerified : Nat := 0
  idleChecks : Nat := 0
  mirrorSigned : Nat := 0
  commitsChecked : Nat := 0
  balanceMoves : Nat := 0
  dustHtlcs : Nat := 0
  nondustHtlcs : Nat := 0
  maxHtlcsOnCommit : Nat := 0
  errKinds : List (String × Nat) := []
  samples : Nat := 0
  -- C03: skeleton
  tweakless : Bool := true
  skA : SNode := {}
  skB : SNode := {}
  sqab : List SMsg := []
  sqba : List SMsg := []
  skOk : Bool := true
  /-- skeleton action of the operation whose dump is being read. -/
  pendSk : Option (String × String) := none
  reloaded : List String := []      -- nodes whose next dump is a restart
  lwrImpl : List (String × Bool) := []
  syA : Option Reest := none         -- channel_reestablish of A / B as decoded by the peer, this reconnection
  syB : Option Reest := none
  builtA : List String := []         -- the fields of the Y line (as built by ChanSyncMsg)
  builtB : List String := []
  reA : Option Reest := none         -- model's channel_reestablish as built
  reB : Option Reest := none
  wireMsgs : Nat := 0
  wireReest : Nat := 0
  wireReestTail0 : Nat := 0
  wireReestLegacy : Nat := 0
  wireReestNonce : Nat := 0
  -- C03: monitor history (per sender)
  winA : List String := []           -- updates sent since the last own signature
  winB : List String := []
  pendSigA : Option (List String) := none   -- signed window the peer has not revoked for
  pendSigB : Option (List String) := none
  pendRevA : Bool := false           -- revoke_and_ack sent but not delivered
  pendRevB : Bool := false
  lastRevA : Bool := false           -- last of {sign, revoke} was revoke
  lastRevB : Bool := false
  -- known finding F-C03-1: a revocation received before the node's own first revocation does not
  -- persist remoteUnsignedLocalUpdates (AdvanceCommitChainTail returns early)
  everRev : List String := []        -- nodes that have revoked at least once
  signedNonAdd : List String := []   -- nodes that signed a fee update before their first revocation
  gap : List String := []            -- ... and then received the peer's revocation
  taint : List String := []          -- ... and then restarted
  committed : List ((String × Nat) × Nat) := []   -- (adder, idx) ↦ amount: irrevocably committed
  gone : List (String × Nat) := []
  -- C03: statistics
  cuts : Nat := 0
  syncs : Nat := 0
  retxMsgs : Nat := 0
  retxChecks : Nat := 0
  skelChecks : Nat := 0
  reloadChecks : Nat := 0
  htlcChecks : Nat := 0
  resigns : Nat := 0
  inv2Checks : Nat := 0
  inCut : Bool := false
  pCount : Nat := 0
  signFailed : Nat := 0
  orderBoth : Nat := 0
  -- C03 round 7: forged / stale channel_reestablish probes
  probes : Nat := 0
  probeChecks : Nat := 0
  probeAhead : Nat := 0
  probeResigns : Nat := 0

def bump (l : List (String × Nat)) (k : String) : List (String × Nat) :=
  match l.find? (·.1 == k) with
  | some _ => l.map fun (a, n) => if a == k then (a, n + 1) else (a, n)
  | none => l ++ [(k, 1)]

def mismatch (s : St) (detail : String) : IO St := do
  -- a case contaminated by the known defect F-C03-1 is no longer compared with the model
  if !s.taint.isEmpty then return { s with modelOk := false, skOk := false }
  if s.caseMismatch < 3 then
    IO.println s!"MISMATCH case={s.caseId} line={s.lines} {detail}"
  return { s with mismatches := s.mismatches + 1, caseMismatch := s.caseMismatch + 1, modelOk := false }

def monitor (s : St) (clause detail : String) : IO St := do
  if s.caseMonitor < 4 then
    IO.println s!"MONITOR case={s.caseId} clause={clause} line={s.lines} {detail}"
  return { s with monitorFails := s.monitorFails + 1, caseMonitor := s.caseMonitor + 1 }

def knownTag (s : St) (recv : String) : String :=
  if s.taint.contains recv then
    " known-gap=F-C03-1 (receiver restarted after a revocation it received before its own first revocation: its signed fee update was not persisted in remoteUnsignedLocalUpdates)"
  else ""

def knownTagAny (s : St) : String :=
  if s.taint.isEmpty then "" else knownTag s (s.taint.headD "")

def resOf (ws : List String) : String :=
  match ws.dropWhile (· ≠ "=>") with
  | _ :: r :: _ => r
  | _ => "?"

def afterArrow (ws : List String) : List String := (ws.dropWhile (· ≠ "=>")).drop 1

/-! ### model ↔ dump comparison -/

def oweLocal (n : Node) : Bool :=
  n.logL.logIndex != n.chainR.tip.ourMsg || n.chainL.tip.theirMsg != n.chainR.tip.theirMsg
def oweRemote (n : Node) : Bool :=
  n.logR.logIndex != n.chainL.tip.theirMsg || n.chainR.tip.ourMsg != n.chainL.tip.ourMsg

def entryEq (m d : Entry) : Bool :=
  m.ty == d.ty && m.amt == d.amt && m.logIndex == d.logIndex && m.htlcIndex == d.htlcIndex &&
  m.parent == d.parent && m.addL == d.addL && m.addR == d.addR && m.rmvL == d.rmvL && m.rmvR == d.rmvR &&
  (m.ty != .add || (m.expiry == d.expiry && m.hash == d.hash))

def listEqBy {α : Type} (f : α → α → Bool) : List α → List α → Bool
  | [], [] => true
  | a :: as, b :: bs => f a b && listEqBy f as bs
  | _, _ => false

def sortNat (l : List Nat) : List Nat := l.mergeSort (· ≤ ·)

def commitDiff (m : Commit) (d : CDump) : Option String :=
  let c := d.cm
  if m.height != c.height then some s!"height {m.height}/{c.height}"
  else if m.our != c.our || m.their != c.their then some s!"h={c.height} balances model={m.our},{m.their} impl={c.our},{c.their}"
  else if m.fee != c.fee || m.feePerKw != c.feePerKw then some s!"h={c.height} fee model={m.fee}@{m.feePerKw} impl={c.fee}@{c.feePerKw}"
  else if m.ourMsg != c.ourMsg || m.theirMsg != c.theirMsg || m.ourHtlc != c.ourHtlc || m.theirHtlc != c.theirHtlc then
    some s!"h={c.height} indices model={m.ourMsg},{m.theirMsg},{m.ourHtlc},{m.theirHtlc} impl={c.ourMsg},{c.theirMsg},{c.ourHtlc},{c.theirHtlc}"
  else if m.htlcs != c.htlcs then some s!"h={c.height} htlcs model={repr m.htlcs} impl={repr c.htlcs}"
  else if c.height != 0 && sortOuts m.outs != sortOuts c.outs then
    some s!"h={c.height} outputs model={repr (sortOuts m.outs)} impl={repr (sortOuts c.outs)}"
  else none

def chainDiff (name : String) (m : CChain) (ds : List CDump) : Option String :=
  if m.all.length != ds.length then some s!"{name}: chain length model={m.all.length} impl={ds.length}"
  else (m.all.zip ds).findSome? fun (a, b) => (commitDiff a b).map (s!"{name}: " ++ ·)

def nodeDiff (m : Node) (d : NDump) : Option String :=
  if m.logL.logIndex != d.ll || m.logL.htlcCounter != d.lc || m.logR.logIndex != d.rl || m.logR.htlcCounter != d.rc then
    some s!"counters model={m.logL.logIndex},{m.logL.htlcCounter},{m.logR.logIndex},{m.logR.htlcCounter} impl={d.ll},{d.lc},{d.rl},{d.rc}"
  else if sortNat m.logL.modified != d.lmod || sortNat m.logR.modified != d.rmod then
    some s!"modified sets model={sortNat m.logL.modified}/{sortNat m.logR.modified} impl={d.lmod}/{d.rmod}"
  else if !listEqBy entryEq m.logL.entries d.logL then
    some s!"local log model={repr m.logL.entries} impl={repr d.logL}"
  else if !listEqBy entryEq m.logR.entries d.logR then
    some s!"remote log model={repr m.logR.entries} impl={repr d.logR}"
  else if oweLocal m != d.owe || oweRemote m != d.need then
    some s!"owe/need model={oweLocal m},{oweRemote m} impl={d.owe},{d.need}"
  else if d.pend != [m.logL.logIndex - m.chainL.tip.ourMsg, m.logL.logIndex - m.chainR.tip.ourMsg,
                     m.logR.logIndex - m.chainL.tip.theirMsg, m.logR.logIndex - m.chainR.tip.theirMsg] then
    some s!"NumPendingUpdates impl={d.pend}"
  else (chainDiff "local" m.chainL (d.chainOf .loc)).orElse fun _ => chainDiff "remote" m.chainR (d.chainOf .rem)

def chainOfDump (ds : List CDump) : CChain :=
  match ds.map (·.cm) with
  | [] => default
  | c :: rest => { tail := c, pend := rest }

def nodeOfDump (cfg : Cfg) (d : NDump) : Node :=
  { cfg := cfg
    logL := { entries := d.logL, logIndex := d.ll, htlcCounter := d.lc, modified := d.lmod }
    logR := { entries := d.logR, logIndex := d.rl, htlcCounter := d.rc, modified := d.rmod }
    chainL := chainOfDump (d.chainOf .loc), chainR := chainOfDump (d.chainOf .rem) }

/-! ### monitors on the implementation's dumps -/

def htlcKey (h : Htlc) : Bool × Nat := (h.incoming, h.idx)

def scriptLe (a b : String) : Bool := a ≤ b

/-- BIP69 + CLTV order of the real outputs: (value, pkScript, cltv) lexicographic. -/
def rawSorted : List RawOut → Bool
  | a :: b :: rest =>
    (a.value < b.value || (a.value == b.value &&
      (a.script < b.script || (a.script == b.script && a.cltv ≤ b.cltv)))) && rawSorted (b :: rest)
  | _ => true

def checkCommit (s : St) (node : String) (d : CDump) : IO St := do
  let c := d.cm
  let tag := s!"node={node} chain={if d.chain == .loc then "local" else "remote"} h={c.height}"
  let mut s := { s with commitsChecked := s.commitsChecked + 1 }
  let htlcSum := sumBy Htlc.amt c.htlcs
  let anch := if s.anchors then 660000 else 0
  if c.our + c.their + htlcSum + 1000 * c.fee + anch != 1000 * s.cap then
    s ← monitor s "conservation" s!"{tag} our={c.our} their={c.their} htlcs={htlcSum} fee={c.fee} anchors_msat={anch} capacity_msat={1000 * s.cap}"
  if c.height != 0 then
    let total := sumBy RawOut.value d.raw
    if total + c.fee > s.cap then
      s ← monitor s "capacity" s!"{tag} outputs={total} fee={c.fee} capacity={s.cap}"
    -- every output accounted for
    let nd := c.htlcs.filter (fun h => !h.dust)
    let ownerBal := if d.chain == .loc then c.our else c.their
    let otherBal := if d.chain == .loc then c.their else c.our
    let bad := d.raw.find? fun o =>
      match o.cls with
      | "tl" => o.value != ownerBal / 1000
      | "tr" => o.value != otherBal / 1000
      | "al" | "ar" => o.value != 330 || !s.anchors
      | "ho" | "hr" => false
      | _ => true
    if let some o := bad then
      s ← monitor s "tx-outputs" s!"{tag} unexpected output value={o.value} class={o.cls}"
    let hv := sortNat ((d.raw.filter fun o => o.cls == "ho" || o.cls == "hr").map (·.value))
    if hv != sortNat (nd.map (·.amt / 1000)) then
      s ← monitor s "tx-outputs" s!"{tag} htlc outputs {hv} vs non-dust htlcs {sortNat (nd.map (·.amt / 1000))}"
    if (d.raw.filter (·.cls == "tl")).length > 1 || (d.raw.filter (·.cls == "tr")).length > 1 then
      s ← monitor s "tx-outputs" s!"{tag} duplicated balance output"
    if !rawSorted d.raw then
      s ← monitor s "tx-outputs" s!"{tag} outputs not in BIP69+CLTV order"
  s := { s with dustHtlcs := s.dustHtlcs + (c.htlcs.filter (·.dust)).length,
                nondustHtlcs := s.nondustHtlcs + (c.htlcs.filter (!·.dust)).length,
                maxHtlcsOnCommit := max s.maxHtlcsOnCommit c.htlcs.length }
  return s

/-- balance-moves: `old`, `new` consecutive commitments of one chain of `node`. -/
def checkMoves (s : St) (node : String) (initiator : Bool) (chain : Chain) (old new : Commit) : IO St := do
  let peer := if node == "A" then "B" else "A"
  let added := new.htlcs.filter fun h => !(old.htlcs.map htlcKey).contains (htlcKey h)
  let removed := old.htlcs.filter fun h => !(new.htlcs.map htlcKey).contains (htlcKey h)
  let resOfH (h : Htlc) : Option Res :=
    (s.resolved.find? (·.1 == (if h.incoming then peer else node, h.idx))).map (·.2)
  let sumIf (p : Htlc → Bool) (l : List Htlc) : Nat := sumBy Htlc.amt (l.filter p)
  let unk := removed.find? fun h => (resOfH h).isNone
  let tag := s!"node={node} chain={if chain == .loc then "local" else "remote"} h={old.height}->{new.height}"
  if let some h := unk then
    return (← monitor s "balance-moves" s!"{tag} htlc idx={h.idx} incoming={h.incoming} disappeared without a settle/fail")
  let feeOld := if initiator then 1000 * old.fee else 0
  let feeNew := if initiator then 1000 * new.fee else 0
  let feeOld' := if initiator then 0 else 1000 * old.fee
  let feeNew' := if initiator then 0 else 1000 * new.fee
  let ourExp := old.our + feeOld + sumIf (fun h => !h.incoming && resOfH h == some .failed) removed
                  + sumIf (fun h => h.incoming && resOfH h == some .settled) removed
  let ourGot := new.our + feeNew + sumIf (fun h => !h.incoming) added
  let theirExp := old.their + feeOld' + sumIf (fun h => h.incoming && resOfH h == some .failed) removed
                  + sumIf (fun h => !h.incoming && resOfH h == some .settled) removed
  let theirGot := new.their + feeNew' + sumIf (fun h => h.incoming) added
  let s := { s with balanceMoves := s.balanceMoves + 1 }
  if ourExp != ourGot || theirExp != theirGot then
    monitor s "balance-moves" s!"{tag} our: {old.our}->{new.our} their: {old.their}->{new.their} fee: {old.fee}->{new.fee} added={repr (added.map fun h => (h.incoming, h.idx, h.amt))} removed={repr (removed.map fun h => (h.incoming, h.idx, h.amt))}"
  else pure s

def mirrorHtlc (h : Htlc) : Htlc := { h with incoming := !h.incoming }

def htlcLe (a b : Htlc) : Bool :=
  (a.incoming, a.idx) == (b.incoming, b.idx) || (!a.incoming && b.incoming) || (a.incoming == b.incoming && a.idx ≤ b.idx)

/-- `x` (on one node) and `y` (same commitment as seen by the peer) are mirror images. -/
def mirrorDiff (x y : CDump) (bytes : Bool) : Option String :=
  let a := x.cm
  let b := y.cm
  if a.height != b.height then some s!"height {a.height}/{b.height}"
  else if a.our != b.their || a.their != b.our then some s!"balances {a.our},{a.their} vs {b.our},{b.their}"
  else if a.fee != b.fee || a.feePerKw != b.feePerKw then some s!"fee {a.fee}@{a.feePerKw} vs {b.fee}@{b.feePerKw}"
  else if a.htlcs.mergeSort htlcLe != (b.htlcs.map mirrorHtlc).mergeSort htlcLe then
    some s!"htlc sets differ {repr a.htlcs} vs {repr b.htlcs}"
  else if a.ourMsg != b.theirMsg || a.theirMsg != b.ourMsg || a.ourHtlc != b.theirHtlc || a.theirHtlc != b.ourHtlc then
    some s!"log indices {a.ourMsg},{a.theirMsg},{a.ourHtlc},{a.theirHtlc} vs {b.ourMsg},{b.theirMsg},{b.ourHtlc},{b.theirHtlc}"
  else if a.height != 0 && bytes && x.raw != y.raw then some s!"transactions differ at height {a.height}"
  else none

def nodeIdle (d : NDump) : Bool :=
  !d.owe && !d.need && d.pend.all (· == 0) && (d.chainOf .loc).length == 1 && (d.chainOf .rem).length == 1

def systemMonitors (s : St) : IO St := do
  let mut s := s
  if !(s.dA.seen && s.dB.seen) || s.dead then return s
  -- signed commitments: A's remote chain vs B's local chain and vice versa
  for (x, y, nm) in [(s.dA.chainOf .rem, s.dB.chainOf .loc, "A.remote/B.local"),
                     (s.dB.chainOf .rem, s.dA.chainOf .loc, "B.remote/A.local")] do
    for cx in x do
      for cy in y do
        if cx.cm.height == cy.cm.height then
          s := { s with mirrorSigned := s.mirrorSigned + 1 }
          if let some d := mirrorDiff cx cy true then
            s ← monitor s "mirror-signed" s!"{nm} {d}{knownTagAny s}"
  if s.qlenAB == 0 && s.qlenBA == 0 && nodeIdle s.dA && nodeIdle s.dB then
    s := { s with idleChecks := s.idleChecks + 1 }
    match s.dA.chainOf .loc, s.dA.chainOf .rem, s.dB.chainOf .loc, s.dB.chainOf .rem with
    | [al], [ar], [bl], [br] =>
      if let some d := mirrorDiff al br true then
        s ← monitor s "mirror-idle" s!"A.local vs B.remote: {d}{knownTagAny s}"
      if let some d := mirrorDiff bl ar true then
        s ← monitor s "mirror-idle" s!"B.local vs A.remote: {d}{knownTagAny s}"
      -- when idle both of a node's own commitments carry the same balances and HTLCs
      if al.cm.our + (if s.cfgA.initiator then 1000 * al.cm.fee else 0) !=
         ar.cm.our + (if s.cfgA.initiator then 1000 * ar.cm.fee else 0) then
        s ← monitor s "mirror-idle" s!"A's balance differs between its two commitments: {al.cm.our}+fee {al.cm.fee} vs {ar.cm.our}+fee {ar.cm.fee}"
    | _, _, _, _ => pure ()
  return s

/-! ### C03: skeleton projection, restart comparison, HTLC bookkeeping -/

def setNode (s : St) (node : String) (n : Node) : St :=
  if node == "A" then { s with mA := n } else { s with mB := n }

def skOfDump (d : NDump) (lwr : Bool) : SNode :=
  SNode.ofNode ⟨nodeOfDump default d, lwr⟩

def skDiff (m : SNode) (d : NDump) : Option String :=
  let x := skOfDump d m.lwr
  if m.lt != x.lt || m.ltIdx != x.ltIdx then some s!"local tail model={m.lt},{repr m.ltIdx} impl={x.lt},{repr x.ltIdx}"
  else if m.lp != x.lp then some s!"pending local commitments model={repr m.lp} impl={repr x.lp}"
  else if m.rt != x.rt || m.rtIdx != x.rtIdx then some s!"remote tail model={m.rt},{repr m.rtIdx} impl={x.rt},{repr x.rtIdx}"
  else if m.rp != x.rp then some s!"pending remote commitment model={repr m.rp} impl={repr x.rp}"
  else if m.lIdx != x.lIdx || m.rIdx != x.rIdx then some s!"log counters model={m.lIdx},{m.rIdx} impl={x.lIdx},{x.rIdx}"
  else none

def skOf (s : St) (node : String) : SNode := if node == "A" then s.skA else s.skB
def setSk (s : St) (node : String) (n : SNode) : St :=
  if node == "A" then { s with skA := n } else { s with skB := n }
def pushSk (s : St) (node : String) (m : Option SMsg) : St :=
  match m with
  | none => s
  | some m => if node == "A" then { s with sqab := s.sqab ++ [m] } else { s with sqba := s.sqba ++ [m] }

def tailHtlcs (d : NDump) : List Htlc :=
  match d.chainOf .loc with
  | c :: _ => c.cm.htlcs
  | [] => []

/-- key of an HTLC: (adder, htlc index). -/
def hkey (node : String) (h : Htlc) : String × Nat :=
  (if h.incoming then (if node == "A" then "B" else "A") else node, h.idx)

/-- compare the model's restart with the implementation's restored state: counters and chains
    (the restored logs carry re-derived commit heights; they are taken over from the dump). -/
def reloadDiff (m : Node) (d : NDump) : Option String :=
  let r := reloadNode m
  if r.logL.logIndex != d.ll || r.logL.htlcCounter != d.lc || r.logR.logIndex != d.rl || r.logR.htlcCounter != d.rc then
    some s!"restart counters model={r.logL.logIndex},{r.logL.htlcCounter},{r.logR.logIndex},{r.logR.htlcCounter} impl={d.ll},{d.lc},{d.rl},{d.rc}"
  else (chainDiff "local" r.chainL (d.chainOf .loc)).orElse fun _ => chainDiff "remote" r.chainR (d.chainOf .rem)

def htlcMonitors (s : St) : IO St := do
  let mut s := s
  let ta := tailHtlcs s.dA
  let tb := tailHtlcs s.dB
  -- newly irrevocably committed: on both sides' lowest unrevoked commitment
  for h in ta do
    let k := hkey "A" h
    if (tb.any fun g => hkey "B" g == k) && !(s.committed.any (·.1 == k)) then
      if s.gone.contains k then
        s ← monitor s "htlc-resurrected" s!"htlc adder={k.1} idx={k.2} is back on both commitments after it had been removed"
      s := { s with committed := (k, h.amt) :: s.committed }
  if s.qlenAB == 0 && s.qlenBA == 0 && nodeIdle s.dA && nodeIdle s.dB then
    for (k, amt) in s.committed do
      s := { s with htlcChecks := s.htlcChecks + 1 }
      let ca := (ta.filter fun h => hkey "A" h == k).length
      let cb := (tb.filter fun h => hkey "B" h == k).length
      if ca > 1 || cb > 1 then
        s ← monitor s "htlc-duplicated" s!"htlc adder={k.1} idx={k.2} amt={amt} appears {ca}/{cb} times on the commitments of A/B"
      else if ca == 0 && cb == 0 then
        if !(s.resolved.any (·.1 == k)) then
          s ← monitor s "htlc-lost" s!"htlc adder={k.1} idx={k.2} amt={amt} was irrevocably committed, is on no commitment and was never settled or failed"
        if !s.gone.contains k then s := { s with gone := k :: s.gone }
      else if s.gone.contains k then
        s ← monitor s "htlc-resurrected" s!"htlc adder={k.1} idx={k.2} amt={amt} reappeared after it had been resolved"
    s := { s with committed := s.committed.filter fun (k, _) => !s.gone.contains k }
  return s

/-- apply the skeleton action of the operation whose dump has just been read. -/
def applyPendSk (s : St) : St :=
  match s.pendSk with
  | none => s
  | some (node, kind) =>
    let s := { s with pendSk := none }
    let n := skOf s node
    let d := if node == "A" then s.dA else s.dB
    let r : SNode × Option SMsg :=
      match kind with
      | "upd" => n.act (.upd true)
      | "fee" => n.act (.upd (decide (d.ll > n.lIdx)))
      | "sign" => n.act .sign
      | "revoke" => n.act .revoke
      | _ => (n, none)
    pushSk (setSk s node r.1) node r.2

/-- finish the dumps read since the last operation: compare with the model, run the monitors. -/
def flush (s : St) : IO St := do
  let mut s := { s with cur := none }
  if s.dirty.isEmpty then return s
  if !s.inited then
    if s.dA.seen && s.dB.seen then
      s := { s with inited := true, mA := nodeOfDump s.cfgA s.dA, mB := nodeOfDump (s.cfgA.mirror) s.dB,
                    skA := skOfDump s.dA false, skB := skOfDump s.dB false }
    else return s
  s := applyPendSk s
  for node in s.dirty.eraseDups do
    let d := if node == "A" then s.dA else s.dB
    let m := if node == "A" then s.mA else s.mB
    let cfg := if node == "A" then s.cfgA else s.cfgA.mirror
    if s.reloaded.contains node then
      -- a restart: skeleton reload + model reload vs. the restored state, then re-anchor
      s := { s with reloaded := s.reloaded.filter (· != node), reloadChecks := s.reloadChecks + 1 }
      let lwr := ((s.lwrImpl.find? (·.1 == node)).map (·.2)).getD false
      let sk := (skOf s node).reload
      if s.skOk && sk.lwr != lwr then
        s ← mismatch s s!"node={node} LastWasRevoke after restart: model={sk.lwr} impl={lwr}"
      if s.modelOk then
        if let some diff := reloadDiff m d then
          s ← mismatch s s!"node={node} {diff.take 500}"
      s := setSk s node { sk with lwr := lwr }
      s := setNode s node (nodeOfDump cfg d)
      s := { s with modelOk := true }
    else if s.modelOk && !s.dead then
      if let some diff := nodeDiff m d then
        s ← mismatch s s!"node={node} {diff.take 600}"
    if s.skOk && !s.dead then
      s := { s with skelChecks := s.skelChecks + 1 }
      if let some diff := skDiff (skOf s node) d then
        s ← mismatch s s!"node={node} skeleton: {diff}"
        s := { s with skOk := false }
    for c in d.commits do
      let key := (node, c.chain, c.cm.height)
      match s.hist.find? (·.1 == key) with
      | some (_, old) =>
        if old != c.cm then
          s ← monitor s "commit-stable" s!"node={node} commitment at height {c.cm.height} changed after it was created{knownTag s node}"
      | none =>
        s ← checkCommit s node c
        if c.cm.height > 0 then
          if let some (_, prev) := s.hist.find? (·.1 == (node, c.chain, c.cm.height - 1)) then
            s ← checkMoves s node (if node == "A" then s.cfgA.initiator else !s.cfgA.initiator) c.chain prev c.cm
        s := { s with hist := (key, c.cm) :: s.hist }
  if s.reloaded.isEmpty && !s.inCut && s.skOk && s.pendSk.isNone && s.skA.lp.isEmpty && s.skB.lp.isEmpty && !s.dead then
    -- hypothesis-free check of the index invariant the convergence theorems are proved from
    s := { s with inv2Checks := s.inv2Checks + 1 }
    let sys : SSys := { a := s.skA, b := s.skB, ab := s.sqab, ba := s.sqba }
    if !inv2Ok sys then
      s ← mismatch s s!"index invariant (Mirror.inv2Ok) does not hold: A->B {mirClauses s.skA s.skB s.sqab} B->A {mirClauses s.skB s.skA s.sqba} a=[lt={s.skA.lt} {repr s.skA.ltIdx} rt={s.skA.rt} {repr s.skA.rtIdx} rp={repr s.skA.rp} lwr={s.skA.lwr} l={s.skA.lIdx} r={s.skA.rIdx}] b=[lt={s.skB.lt} {repr s.skB.ltIdx} rt={s.skB.rt} {repr s.skB.rtIdx} rp={repr s.skB.rp} lwr={s.skB.lwr} l={s.skB.lIdx} r={s.skB.rIdx}] ab={repr s.sqab} ba={repr s.sqba}"
  if s.reloaded.isEmpty then
    s ← systemMonitors s
    if s.dA.seen && s.dB.seen && !s.dead then
      s ← htlcMonitors s
  return { s with dirty := [] }

/-! ### operations -/

def constraintErr (r : String) : Bool :=
  ["ok", "belowReserve", "invalidAmt", "belowMin", "maxPending", "maxHtlcs", "feeFloor", "noWindow",
   "feeUnaffordable", "notInitiator", "feeAsInitiator"].contains r

def internalErr (r : String) : Bool :=
  r == "overCapacity" || r == "lowEffFee" || r == "panic" || r == "txSanity" || r.startsWith "other"


def pushMsg (s : St) (node : String) (m : Msg) : St :=
  if node == "A" then { s with qab := s.qab ++ [m] } else { s with qba := s.qba ++ [m] }

def readQ (s : St) (ws : List String) : St :=
  match (kv? ws "q").map pairNat with
  | some (a, b) => { s with qlenAB := a, qlenBA := b }
  | none => s

/-- what a signature covers of the updates sent since the previous one: all update_fee of the
    window collapse into one entry at the position of the first with the value of the last. -/
def coalesceFees (w : List String) : List String :=
  match (w.filter (·.startsWith "fee:")).getLast? with
  | none => w
  | some last =>
    let rec go : List String → Bool → List String
      | [], _ => []
      | t :: rest, seen =>
        if t.startsWith "fee:" then (if seen then go rest true else last :: go rest true)
        else t :: go rest seen
    go w false

def opLine (s : St) (node : String) (ws : List String) : IO St := do
  let mut s ← flush s
  s := readQ { s with ops := s.ops + 1, dirty := [node] } ws
  let impl := resOf ws
  s := { s with errKinds := bump s.errKinds impl }
  let op := ws[1]?.getD ""
  let n := if node == "A" then s.mA else s.mB
  -- monitor: nothing inside the state machine may blow up
  if internalErr impl then
    s ← monitor s "internal-error" s!"node={node} {op} => {impl}"
  if op == "sign" && impl == "parent" then
    s ← monitor s "internal-error" s!"node={node} sign => {impl} (resolution of an HTLC that is locked in)"
  -- op history for balance-moves
  if impl == "ok" then
    let idx := (kvNat? ws "idx").getD 0
    let peer := if node == "A" then "B" else "A"
    if op == "settle" then s := { s with resolved := ((peer, idx), .settled) :: s.resolved }
    if op == "fail" || op == "malformed" then s := { s with resolved := ((peer, idx), .failed) :: s.resolved }
    -- C03: history of what each side has sent (for retransmit-exact) and the skeleton action
    let tok : Option String :=
      match op with
      | "add" => some s!"add:{(kvNat? (afterArrow ws) "idx").getD 0}:{(kvNat? ws "amt").getD 0}:{(kvNat? ws "exp").getD 0}:{(kvNat? ws "hash").getD 0}"
      | "settle" => some s!"settle:{idx}"
      | "fail" => some s!"fail:{idx}"
      | "malformed" => some s!"malformed:{idx}"
      | "fee" => some s!"fee:{(kvNat? ws "fpk").getD 0}"
      | _ => none
    if let some t := tok then
      s := if node == "A" then { s with winA := s.winA ++ [t] } else { s with winB := s.winB ++ [t] }
      s := { s with pendSk := some (node, if op == "fee" then "fee" else "upd") }
    if op == "sign" then
      s := if node == "A" then { s with pendSigA := some (coalesceFees s.winA), winA := [], lastRevA := false }
           else { s with pendSigB := some (coalesceFees s.winB), winB := [], lastRevB := false }
      s := { s with pendSk := some (node, "sign") }
      let w := if node == "A" then s.pendSigA else s.pendSigB
      if !s.everRev.contains node && (w.getD []).any (fun t => !t.startsWith "add:") then
        s := { s with signedNonAdd := node :: s.signedNonAdd }
    if op == "revoke" then
      -- the revoking side has durably absorbed the peer's signature
      s := if node == "A" then { s with pendRevA := true, lastRevA := true, pendSigB := none }
           else { s with pendRevB := true, lastRevB := true, pendSigA := none }
      s := { s with pendSk := some (node, "revoke"), everRev := node :: s.everRev,
                    gap := s.gap.filter (· != node),
                    signedNonAdd := s.signedNonAdd.filter (· != node) }
    if op == "sign" then
      s := { s with signs := s.signs + 1 }
      s := if node == "A" then { s with snapAB := s.snapAB ++ [some s.dA] } else { s with snapBA := s.snapBA ++ [some s.dB] }
  if !s.modelOk then return s
  let chk (s : St) (e : Err) (n' : Node) (msg : Option Msg) : IO St := do
    if e.toString != impl then
      mismatch s s!"node={node} {op}: model={e.toString} impl={impl}"
    else
      let s := setNode s node n'
      match msg with
      | some m => if e == .ok then pure (pushMsg s node m) else pure s
      | none => pure s
  match op with
  | "add" =>
    let (e, n') := n.addHTLC ((kvNat? ws "amt").getD 0) ((kvNat? ws "exp").getD 0) ((kvNat? ws "hash").getD 0)
    let s2 ← chk s e n' (some (.add n.logL.htlcCounter ((kvNat? ws "amt").getD 0) ((kvNat? ws "exp").getD 0) ((kvNat? ws "hash").getD 0)))
    if e == .ok && impl == "ok" && (kvNat? (afterArrow ws) "idx") != some n.logL.htlcCounter then
      mismatch s2 s!"add: htlc index model={n.logL.htlcCounter}"
    else pure s2
  | "rawrecv" =>
    let (e, n') := n.receiveHTLC ((kvNat? ws "id").getD 0) ((kvNat? ws "amt").getD 0) ((kvNat? ws "exp").getD 0) ((kvNat? ws "hash").getD 0)
    chk s e n' none
  | "settle" =>
    let i := (kvNat? ws "idx").getD 0
    let (e, n') := n.resolveLocal .settle i true
    chk s e n' (some (.settle i))
  | "settlebad" =>
    let i := (kvNat? ws "idx").getD 0
    let (e, n') := n.resolveLocal .settle i false
    chk s e n' (some (.settle i))
  | "fail" =>
    let i := (kvNat? ws "idx").getD 0
    let (e, n') := n.resolveLocal .fail i true
    chk s e n' (some (.fail i))
  | "malformed" =>
    let i := (kvNat? ws "idx").getD 0
    let (e, n') := n.resolveLocal .malformed i true
    chk s e n' (some (.fail i))
  | "fee" =>
    let f := (kvNat? ws "fpk").getD 0
    let (e, n') := n.updateFee f
    chk s e n' (some (.fee f))
  | "sign" =>
    let (e, n', sv) := n.sign
    chk s e n' (sv.map Msg.commitSig)
  | "revoke" =>
    let (e, n') := n.revoke
    chk s e n' (some .revoke)
  | _ => mismatch s s!"unknown op {op}"

/-- a signature taken from a restored commitment lists its outputs in transaction order; the
    model's receiver compares with its own construction order, so present it that way. -/
def normMsg (n : Node) (m : Msg) : Msg :=
  match m with
  | .commitSig sv =>
    match fetchCommitmentView n .loc n.chainR.tail.ourMsg n.chainR.tail.ourHtlc n.logR.logIndex n.logR.htlcCounter with
    | .ok (cm, _) =>
      if cm.height == sv.height && cm.feePerKw == sv.feePerKw && sortOuts cm.outs == sortOuts sv.outs then
        .commitSig cm.sigView
      else m
    | .error _ => m
  | _ => m

def msgKind : Msg → String
  | .add .. => "add" | .settle _ => "settle" | .fail _ => "fail" | .fee _ => "fee"
  | .commitSig _ => "commitsig" | .revoke => "revoke"

def deliverLine (s : St) (ws : List String) : IO St := do
  let mut s ← flush s
  let dir := ws[1]?.getD ""
  let kind := ws[2]?.getD ""
  let impl := resOf ws
  -- MuSig2: a partial signature that does not verify (VerifyCommitSig) is an invalid signature
  let impl := if impl.startsWith "other:invalid_partial_sig" then "invalidSig" else impl
  let recv := if dir == "AB" then "B" else "A"
  s := readQ { s with ops := s.ops + 1, dirty := [recv] } ws
  s := { s with errKinds := bump s.errKinds ("recv_" ++ impl) }
  -- monitor: honest peers never reject each other's signatures or updates
  if kind == "commitsig" then
    -- hypothesis of `honest_sig_verifies_partial`: LogAgreement(signer when signing, receiver now),
    -- evaluated on the implementation's own states
    let snaps := if dir == "AB" then s.snapAB else s.snapBA
    if let none :: rest := snaps then
      s := if dir == "AB" then { s with snapAB := rest } else { s with snapBA := rest }
    else if let (some snap) :: rest := snaps then
      s := if dir == "AB" then { s with snapAB := rest } else { s with snapBA := rest }
      let (cfgS, cfgR) := if dir == "AB" then (s.cfgA, s.cfgA.mirror) else (s.cfgA.mirror, s.cfgA)
      let recvDump := if dir == "AB" then s.dB else s.dA
      s := { s with agreeChecks := s.agreeChecks + 1 }
      if !agreeCheck (nodeOfDump cfgS snap) (nodeOfDump cfgR recvDump) && !s.taint.contains recv then
        let a := nodeOfDump cfgS snap
        let b := nodeOfDump cfgR recvDump
        let vLa := viewOf a.logL a.logL.logIndex
        let vRa := viewOf a.logR a.chainL.tail.theirMsg
        let vLb := viewOf b.logL b.chainR.tail.ourMsg
        let vRb := viewOf b.logR b.logR.logIndex
        let det := [decide (b.cfg = a.cfg.mirror), decide (b.chainL.tip.height = a.chainR.tip.height),
          decide (b.chainL.tip.our = a.chainR.tip.their), decide (b.chainL.tip.their = a.chainR.tip.our),
          decide (b.chainL.tip.fee = a.chainR.tip.fee), decide (b.chainL.tip.feePerKw = a.chainR.tip.feePerKw),
          decide ((liveAdds vLa (resolutions vRa)).map (absE .rem) = (liveAdds vRb (resolutions vLb)).map (absE .loc)),
          decide ((liveAdds vRa (resolutions vLa)).map (absE .rem) = (liveAdds vLb (resolutions vRb)).map (absE .loc)),
          decide ((newRes .rem vLa).map (absE .rem) = (newRes .loc vRb).map (absE .loc)),
          decide ((newRes .rem vRa).map (absE .rem) = (newRes .loc vLb).map (absE .loc)),
          decide (viewFeePerKw (if a.cfg.initiator then vLa else vRa) a.chainR.tip.feePerKw =
                  viewFeePerKw (if a.cfg.initiator then vRb else vLb) b.chainL.tip.feePerKw)]
        s ← mismatch s s!"{dir}: LogAgreement (hypothesis of honest_sig_verifies_partial) does not hold at this signature delivery {det}"
        s := { s with modelOk := true }
    if impl == "invalidSig" then
      s ← monitor s "sig-verifies" s!"{dir}: commitment signature of an honest peer rejected{knownTag s recv}"
    else if impl == "ok" then s := { s with sigsVerified := s.sigsVerified + 1 }
  if internalErr impl then
    s ← monitor s "internal-error" s!"{dir} {kind} => {impl.take 60}{knownTag s recv}"
  else if impl != "invalidSig" && !constraintErr impl then
    s ← monitor s "delivery-rejected" s!"{dir} {kind} => {impl}{knownTag s recv}"
  if impl != "ok" then s := { s with dead := true }
  if kind == "revoke" && impl == "ok" then
    s := if dir == "AB" then { s with pendRevA := false } else { s with pendRevB := false }
    if !s.everRev.contains recv && s.signedNonAdd.contains recv then
      s := { s with gap := recv :: s.gap }
  -- C03: skeleton delivery; `accepts` must agree with the real receiver's verdict
  if s.skOk then
    let sq := if dir == "AB" then s.sqab else s.sqba
    match sq with
    | [] =>
      s ← mismatch s s!"deliver {dir}: skeleton queue empty, impl delivered {kind}"
      s := { s with skOk := false }
    | m :: rest =>
      let n := skOf s recv
      let mk := match m with | .upd _ => "upd" | .sig .. => "commitsig" | .rev _ => "revoke"
      if (mk == "upd") != (kind != "commitsig" && kind != "revoke") || (mk != "upd" && mk != kind) then
        s ← mismatch s s!"deliver {dir}: skeleton queue head {repr m}, impl delivered {kind}"
        s := { s with skOk := false }
      else
        if n.accepts m != (impl == "ok") && constraintErr impl == (impl == "ok") && !s.taint.contains recv then
          s ← mismatch s s!"deliver {dir} {kind}: skeleton accepts={n.accepts m} ({repr m} at lt={n.lt} lp={n.lp.length} rIdx={n.rIdx} rtIdx={repr n.rtIdx}) impl={impl}"
        s := setSk s recv (if impl == "ok" then n.recv m else n)
        s := if dir == "AB" then { s with sqab := rest } else { s with sqba := rest }
  if !s.modelOk then return s
  let q := if dir == "AB" then s.qab else s.qba
  match q with
  | [] => mismatch s s!"deliver {dir}: model queue empty, impl delivered {kind}"
  | m :: rest =>
    if msgKind m != kind then
      mismatch s s!"deliver {dir}: model queue head {msgKind m}, impl delivered {kind}"
    else
      let n := if recv == "A" then s.mA else s.mB
      let (e, n') := n.deliver (normMsg n m)
      let s2 := if dir == "AB" then { s with qab := rest } else { s with qba := rest }
      if e.toString != impl then
        if s.taint.contains recv then pure { s2 with modelOk := false }
        else mismatch s2 s!"deliver {dir} {kind}: model={e.toString} impl={impl}"
      else pure (setNode s2 recv n')


/-! ### C03: reconnection lines -/

def peerOf (node : String) : String := if node == "A" then "B" else "A"

def tokKind (t : String) : String := (t.splitOn ":").headD ""

/-- token of a retransmitted log entry, as the harness prints wire messages. -/
def entryTok (e : Entry) : String :=
  match e.ty with
  | .add => s!"add:{e.htlcIndex}:{e.amt}:{e.expiry}:{e.hash}"
  | .settle => s!"settle:{e.parent}"
  | .fail => s!"fail:{e.parent}"
  | .malformed => s!"malformed:{e.parent}"
  | .feeUpd => s!"fee:{e.amt / 1000}"

def dropLine (s : St) (ws : List String) : IO St := do
  let mut s ← flush s
  s := { s with ops := s.ops + 1, cuts := s.cuts + 1, qab := [], qba := [], sqab := [], sqba := [],
                snapAB := [], snapBA := [], winA := [], winB := [], qlenAB := 0, qlenBA := 0,
                syA := none, syB := none, inCut := true, pCount := 0 }
  let _ := ws
  return s

def reloadLine (s : St) (ws : List String) : IO St := do
  let mut s ← flush s
  let node := ws[1]?.getD ""
  let impl := resOf ws
  s := { s with ops := s.ops + 1 }
  if impl != "ok" then
    s ← monitor s "sync-error" s!"node={node} restart from the database failed: {impl}"
    return { s with dead := true }
  let lwr := (kvNat? ws "lwr").getD 0 == 1
  if s.gap.contains node && !s.taint.contains node then s := { s with taint := node :: s.taint }
  return { s with reloaded := s.reloaded ++ [node], dirty := [node],
                  lwrImpl := (node, lwr) :: s.lwrImpl.filter (·.1 != node) }

def optTok (o : Option Nat) (none_ : String) : String :=
  match o with
  | some k => toString k
  | none => none_

/-- `none` / `absent` / `-` ↦ none, a producer index ↦ some, `bad` (not an element of the producer) ↦ a
    value no model message carries. -/
def optOf (t : String) : Option Nat :=
  if t == "none" || t == "absent" || t == "-" || t == "?" then none
  else match t.toNat? with
    | some k => some k
    | none => some 1000000007

def reestTok (m : Reest) : String :=
  s!"nl:{m.nextLocal},rt:{m.remoteTail},sec:{optTok m.lastSecret "none"},pt:{optTok m.point "absent"},nonce:{m.nonce.isSome}"

/-- fields of a Y / YW line as a `Reest` (the nonce symbolically: present or not). -/
def reestOfLine (ws : List String) (nextLocal : Nat) : Reest :=
  let hasNonce := (kv? ws "nonce").getD "-" != "-" || (kv? ws "nonces").getD "-" != "-"
  { nextLocal := (kvNat? ws "nl").getD 0, remoteTail := (kvNat? ws "rt").getD 0,
    lastSecret := optOf ((kv? ws "sec").getD "?"), point := optOf ((kv? ws "pt").getD "?"),
    nonce := if hasNonce then some nextLocal else none }

def syncMsgLine (s : St) (ws : List String) : IO St := do
  let mut s ← flush s
  let node := ws[1]?.getD ""
  s := { s with ops := s.ops + 1 }
  if ws.contains "=>" then
    s ← monitor s "sync-error" s!"node={node} ChanSyncMsg failed: {resOf ws}"
    return { s with dead := true }
  let dlp := (kvNat? ws "dlp").getD 1 == 1
  -- the model's message; the harness prints the fields before it strips the data-loss-protect
  -- part for a legacy peer
  let mFull := (skOf s node).reest true s.cfgA.taproot
  let m := (skOf s node).reest dlp s.cfgA.taproot
  let impl := reestOfLine ws mFull.nextLocal
  if s.skOk then
    if impl != mFull then
      s ← mismatch s s!"node={node} ChanSyncMsg model={reestTok mFull} impl={ws.drop 2}"
  -- the monitor's own reading of the fields: a secret / point that is not the expected
  -- producer element is reported by the harness as `bad`
  if (kv? ws "sec") == some "bad" || (kv? ws "pt") == some "bad" then
    s ← monitor s "sync-error" s!"node={node} channel_reestablish carries a secret / commit point that is not an element of the producer"
  if s.cfgA.taproot && impl.nonce.isNone then
    s ← monitor s "sync-error" s!"node={node} ChanSyncMsg of a taproot channel carries no verification nonce"
  return if node == "A" then { s with reA := some m, builtA := ws, syA := none }
         else { s with reB := some m, builtB := ws, syB := none }

/-- `YW`: the channel_reestablish as the peer decoded it from the wire. -/
def syncWireLine (s : St) (ws : List String) : IO St := do
  let mut s := s
  let node := ws[1]?.getD ""
  s := { s with ops := s.ops + 1, wireReest := s.wireReest + 1 }
  if ws.contains "=>" then
    s ← monitor s "reestablish-wire" s!"node={node} channel_reestablish does not survive WriteMessage/ReadMessage: {resOf ws}"
    return { s with dead := true }
  let built := if node == "A" then s.builtA else s.builtB
  let dlp := (kvNat? built "dlp").getD 1 == 1
  let f (l : List String) (k : String) : String := (kv? l k).getD "?"
  -- (S) what the receiver decodes = what the sender built
  let keys := ["nl", "rt", "sec", "pt", "nonce", "nonces", "dyn"]
  let expect (k : String) : String :=
    if dlp || k == "nl" || k == "rt" then f built k
    else if k == "sec" then "none" else if k == "pt" then "absent" else "-"
  let bad := keys.filter fun k => f ws k != expect k
  if !bad.isEmpty then
    let show_ (l : List String) := String.intercalate " " (keys.map fun k => s!"{k}={f l k}")
    s ← monitor s "reestablish-wire" s!"node={node} fields {bad} differ: the peer decodes [{show_ ws}] but the sender built [{keys.map fun k => s!"{k}={expect k}"}] (dlp={dlp})"
  let dec := reestOfLine ws ((kvNat? ws "nl").getD 0)
  if dec.remoteTail == 0 then s := { s with wireReestTail0 := s.wireReestTail0 + 1 }
  if dec.point.isNone then s := { s with wireReestLegacy := s.wireReestLegacy + 1 }
  if dec.nonce.isSome then s := { s with wireReestNonce := s.wireReestNonce + 1 }
  -- (X) the model's encoder / decoder
  let m? := if node == "A" then s.reA else s.reB
  if s.skOk then
    match m? with
    | none => s ← mismatch s s!"node={node} YW without Y"
    | some m =>
      match Reest.decode m.encode with
      | none => s ← mismatch s s!"node={node} model cannot decode its own channel_reestablish"
      | some md =>
        if md != dec then
          s ← mismatch s s!"node={node} channel_reestablish over the wire model={reestTok md} impl={ws.drop 2}"
  return if node == "A" then { s with syA := some dec } else { s with syB := some dec }

/-- `W`: a message of the exchange as built and as decoded. -/
def wireLine (s : St) (ws : List String) : IO St := do
  let s := { s with wireMsgs := s.wireMsgs + 1 }
  let sent := ws[3]?.getD "?"
  let got := (afterArrow ws).headD "??"
  if sent != got then
    monitor s "wire-roundtrip" s!"dir={ws[1]?.getD "?"} kind={ws[2]?.getD "?"} the receiver decodes {got} but the sender built {sent}"
  else return s

/-- expected retransmission from the operation history alone. -/
def expectedRetx (pendSig : Option (List String)) (pendRev lastRev : Bool) : List String :=
  let cs := match pendSig with
    | some w => w ++ ["sig"]
    | none => []
  let rv := if pendRev then ["rev"] else []
  if lastRev then cs ++ rv else rv ++ cs

def normTok (t : String) : String :=
  let k := tokKind t
  if k == "sig" || k == "rev" then k else t

def processLine (s : St) (ws : List String) : IO St := do
  let mut s ← flush s
  let node := ws[1]?.getD ""
  let impl := resOf ws
  s := readQ { s with ops := s.ops + 1, syncs := s.syncs + 1, dirty := [node], pCount := s.pCount + 1 } ws
  if s.pCount ≥ 2 then s := { s with inCut := false }
  s := { s with errKinds := bump s.errKinds ("sync_" ++ impl) }
  let toks := match (kv? ws "msgs").getD "-" with
    | "-" => []
    | l => l.splitOn ","
  -- (S) monitor ---------------------------------------------------------
  if impl.startsWith "signFailed:" && constraintErr ((impl.drop 11).toString) then
    -- the commitment owed after the retransmitted revocation cannot be built for a channel
    -- constraint (fee spike / reserve): SignNextCommitment answers the same outside a
    -- reconnection (C01); the model must agree on the error class
    let n := if node == "A" then s.mA else s.mB
    s := { s with signFailed := s.signFailed + 1, dead := true }
    if s.modelOk && n.sign.1.toString != (impl.drop 11).toString then
      s ← mismatch s s!"node={node} re-sign inside processSync: model={n.sign.1.toString} impl={impl}"
    return s
  if impl != "ok" then
    s ← monitor s "sync-error" s!"node={node} ProcessChanSyncMsg => {impl} between two honest peers"
    return { s with dead := true }
  let (pendSig, pendRev, lastRev) := if node == "A" then (s.pendSigA, s.pendRevA, s.lastRevA)
                                    else (s.pendSigB, s.pendRevB, s.lastRevB)
  let exp := expectedRetx pendSig pendRev lastRev
  let got := toks.map normTok
  let fresh := pendSig.isNone && pendRev && got == exp ++ ["sig"]
  s := { s with retxChecks := s.retxChecks + 1, retxMsgs := s.retxMsgs + toks.length }
  if pendSig.isSome && pendRev then s := { s with orderBoth := s.orderBoth + 1 }
  if got != exp && !fresh then
    s ← monitor s "retransmit-exact" s!"node={node} returned {got} but the peer is missing {exp} (unrevoked signature window={repr pendSig}, revocation undelivered={pendRev}, last sent was revocation={lastRev})"
  if fresh then
    s := { s with resigns := s.resigns + 1 }
    s := if node == "A" then { s with pendSigA := some [], lastRevA := false }
         else { s with pendSigB := some [], lastRevB := false }
  -- signatures in flight again: no signer snapshot for a retransmitted one
  let prevDump := if node == "A" then s.dA else s.dB
  for t in toks do
    if tokKind t == "sig" then
      let snap : Option NDump := if fresh then some prevDump else none
      s := if node == "A" then { s with snapAB := s.snapAB ++ [snap] } else { s with snapBA := s.snapBA ++ [snap] }
  -- (X) model -----------------------------------------------------------
  let msg? := if node == "A" then s.syB else s.syA
  let some msg := msg? | mismatch s s!"node={node} ProcessChanSyncMsg without the peer's ChanSyncMsg"
  let sk := skOf s node
  match sk.processReest s.tweakless s.cfgA.taproot msg with
  | .error e =>
    s ← mismatch s s!"node={node} processSync model={e.toString} impl=ok"
    return { s with skOk := false, modelOk := false }
  | .ok (sk', out) =>
    if s.skOk then
      let kinds := out.map fun m => match m with | .upd _ => "upd" | .sig .. => "sig" | .rev _ => "rev"
      let gotKinds := got.map fun t => if t == "sig" || t == "rev" then t else "upd"
      if kinds != gotKinds then
        s ← mismatch s s!"node={node} processSync skeleton returns {repr out}, impl {toks}"
        s := { s with skOk := false }
      else
        s := setSk s node sk'
        s := if node == "A" then { s with sqab := s.sqab ++ out } else { s with sqba := s.sqba ++ out }
    if !s.modelOk || !s.skOk then return s
    -- materialise on the C01 node
    let n := if node == "A" then s.mA else s.mB
    let diffEntries := commitDiffEntries n
    let idxRange := out.filterMap fun m => match m with | .upd (some i) => some i | _ => none
    let retx := sk.rp.isSome && out.any fun m => match m with | .sig .. => true | _ => false
    if retx && diffEntries.map (·.logIndex) != idxRange then
      s ← mismatch s s!"node={node} CommitDiff entries by height {diffEntries.map (·.logIndex)} vs skeleton index range {idxRange}"
    let mut n' := n
    let mut expToks : List String := []
    let mut wire : List Msg := []
    let mut seenSig := false
    for m in out do
      match m with
      | .rev h =>
        expToks := expToks ++ [s!"rev:{h}:{h + 2}"]
        wire := wire ++ [Msg.revoke]
      | .upd (some i) =>
        match n.logL.entries.find? (·.logIndex == i) with
        | some e => expToks := expToks ++ [entryTok e]; wire := wire ++ [msgOfEntry e]
        | none => expToks := expToks ++ [s!"missing-entry:{i}"]
      | .upd none => pure ()
      | .sig h _ =>
        if n.chainR.pend.head?.map (·.height) == some h && !seenSig && sk.rp.isSome then
          -- retransmission of the stored signature
          match n.chainR.pend.head? with
          | some c =>
            expToks := expToks ++ [s!"sig:{(c.htlcs.filter (!·.dust)).length}"]
            wire := wire ++ [Msg.commitSig c.sigView]
          | none => pure ()
        else
          -- the re-sign of the "owe revocation" arm
          let (e, n2, sv) := n'.sign
          if e != .ok then
            expToks := expToks ++ [s!"sign-failed:{e.toString}"]
          else
            n' := n2
            match sv, n2.chainR.pend.head? with
            | some v, some c =>
              expToks := expToks ++ [s!"sig:{(c.htlcs.filter (!·.dust)).length}"]
              wire := wire ++ [Msg.commitSig v]
            | _, _ => pure ()
        seenSig := true
    let gotToks := toks.map fun t => if tokKind t == "sig" then ((t.splitOn ":").take 2 |> String.intercalate ":") else t
    if gotToks != expToks then
      s ← mismatch s s!"node={node} retransmitted messages model={expToks} impl={toks}"
    else
      s := setNode s node n'
      s := if node == "A" then { s with qab := s.qab ++ wire } else { s with qba := s.qba ++ wire }
    return s


/-- `Q`: a forged / stale channel_reestablish handed to the real `ProcessChanSyncMsg` of a freshly
    restarted node: the whole decision table, error arms included, and the state every arm
    leaves behind (the dump that follows is compared with the model's state at the next flush). -/
def probeLine (s : St) (ws : List String) : IO St := do
  let mut s ← flush s
  let node := ws[1]?.getD ""
  let impl := resOf ws
  s := readQ { s with ops := s.ops + 1, probes := s.probes + 1, dirty := [node] } ws
  s := { s with errKinds := bump s.errKinds ("probe_" ++ (impl.splitOn ":").headD "?") }
  let toks := match (kv? ws "msgs").getD "-" with
    | "-" => []
    | l => l.splitOn ","
  let restored := (kvNat? ws "restored").getD 0 == 1
  let honest := (kv? ws "kind") == some "honest"
  let msg := reestOfLine ws ((kvNat? ws "nl").getD 0)
  -- the implementation's own state before the call (dump of the restart that precedes the probe)
  let d := if node == "A" then s.dA else s.dB
  let implLt := ((d.chainOf .loc).head?.map (·.cm.height)).getD 0
  if impl.startsWith "signFailed:" && constraintErr ((impl.drop 11).toString) then
    let n := if node == "A" then s.mA else s.mB
    s := { s with signFailed := s.signFailed + 1, dead := true }
    if s.modelOk && n.sign.1.toString != (impl.drop 11).toString then
      s ← mismatch s s!"node={node} re-sign inside processSync (probe): model={n.sign.1.toString} impl={impl}"
    return s
  -- (S) monitor ---------------------------------------------------------
  if msg.remoteTail > implLt then
    s := { s with probeAhead := s.probeAhead + 1 }
    if impl == "ok" then
      s ← monitor s "dlp-answer" s!"node={node} local chain tail {implLt}, the peer claims revocation height {msg.remoteTail} (secret={(kv? ws "sec").getD "?"}) and ProcessChanSyncMsg answers ok msgs={toks}: retransmission from a state the peer is ahead of"
  -- the peer PROVES it: the data-loss-protect fields are there and the secret is the node's own
  -- revocation secret for the claimed height
  let proven := msg.remoteTail > implLt && msg.point.isSome && msg.lastSecret == some (msg.remoteTail - 1)
  if proven && !restored && impl != "localDataLoss" && impl != "noNonce" && impl != "ok" then
    s ← monitor s "dlp-class" s!"node={node} local chain tail {implLt}, the peer proves revocation height {msg.remoteTail} and ProcessChanSyncMsg answers {impl} instead of ErrCommitSyncLocalDataLoss (the link would not record the peer's commit point)"
  -- the PEER lost state: it waits for a commitment it has already revoked (the node holds that
  -- revocation), nothing else is wrong with the message
  let implRt := ((d.chainOf .rem).head?.map (·.cm.height)).getD 0
  let secretFine := msg.point.isNone || msg.remoteTail == 0 || msg.lastSecret == some (msg.remoteTail - 1)
  if msg.nextLocal ≤ implRt && msg.remoteTail ≤ implLt && secretFine && !restored &&
      impl != "remoteDataLoss" && impl != "noNonce" then
    s ← monitor s "dlp-stale-peer" s!"node={node} remote chain tail {implRt}, the peer waits for commitment {msg.nextLocal} which it has already revoked, and ProcessChanSyncMsg answers {impl} msgs={toks} instead of ErrCommitSyncRemoteDataLoss"
  if restored && impl == "ok" then
    s ← monitor s "dlp-answer" s!"node={node} the channel carries ChanStatusRestored (state from a static backup) and ProcessChanSyncMsg answers ok msgs={toks}"
  if impl == "localDataLoss" && (kv? ws "lcp") != some "ok" then
    s ← monitor s "dlp-point" s!"node={node} ErrCommitSyncLocalDataLoss does not carry the commit point of the channel_reestablish"
  if honest && !restored && impl != "ok" then
    s ← monitor s "sync-error" s!"node={node} ProcessChanSyncMsg => {impl} on the honest peer's channel_reestablish"
  -- (X) model -----------------------------------------------------------
  if !s.skOk then return s
  let sk := skOf s node
  let (sk', r) := sk.processReestSt s.tweakless s.cfgA.taproot restored msg
  let mcls := match r with
    | .ok _ => "ok"
    | .error e => e.toString
  let out := match r with
    | .ok o => o
    | .error _ => []
  s := { s with probeChecks := s.probeChecks + 1 }
  if mcls != impl then
    s ← mismatch s s!"node={node} ProcessChanSyncMsg decision table: model={mcls} impl={impl} msg={reestTok msg} restored={restored} state=[lt={sk.lt} rt={sk.rt} rp={repr sk.rp} lwr={sk.lwr} owe={sk.owe}]"
    return { s with skOk := false, modelOk := false }
  let kinds := out.map fun m => match m with | .upd _ => "upd" | .sig .. => "sig" | .rev _ => "rev"
  let gotKinds := toks.map fun t => let k := tokKind t; if k == "sig" || k == "rev" then k else "upd"
  if kinds != gotKinds then
    s ← mismatch s s!"node={node} ProcessChanSyncMsg (probe) skeleton returns {repr out}, impl {toks}"
    return { s with skOk := false, modelOk := false }
  s := setSk s node sk'
  -- a re-sign of the "owe revocation" arm stays in the channel, also when the call fails later
  if sk'.rp != sk.rp then
    s := { s with probeResigns := s.probeResigns + 1 }
    if s.modelOk then
      let n := if node == "A" then s.mA else s.mB
      let (e, n2, _) := n.sign
      if e != .ok then
        s ← mismatch s s!"node={node} probe re-sign: C01 model refuses to sign ({e.toString})"
      else
        s := setNode s node n2
  return s

def b01 (ws : List String) (k : String) : Bool := (kvNat? ws k).getD 0 == 1

def step (s : St) (line : String) : IO St := do
  let s := { s with lines := s.lines + 1 }
  let ws := words line
  match ws with
  | "FACT" :: rest =>
    let chk (s : St) (key : String) (v : Nat) : IO St :=
      if kvNat? rest key == some v then pure s
      else mismatch s s!"fact {key}: model={v} impl={(kv? rest key).getD "?"}"
    let s ← chk s "commitWeight" commitWeightLegacy
    let s ← chk s "anchorCommitWeight" commitWeightAnchor
    let s ← chk s "taprootCommitWeight" commitWeightTaproot
    let s ← chk s "htlcWeight" htlcWeight
    let s ← chk s "htlcTimeoutWeight" htlcTimeoutWeight
    let s ← chk s "htlcSuccessWeight" htlcSuccessWeight
    let s ← chk s "htlcTimeoutWeightConf" htlcTimeoutWeightConf
    let s ← chk s "htlcSuccessWeightConf" htlcSuccessWeightConf
    let s ← chk s "anchorSize" anchorSize
    chk s "feeFloor" feePerKwFloor
  | "CASE" :: id :: rest =>
    let openerA := b01 rest "openerA"
    let g (k : String) : Nat := (kvNat? rest k).getD 0
    let cfgA : Cfg :=
      { capacity := g "cap", initiator := openerA, anchors := b01 rest "anchors", zeroFee := b01 rest "zerofee",
        taproot := b01 rest "taproot", dustL := g "dustA", dustR := g "dustB", resL := g "resA", resR := g "resB",
        minL := g "minA", minR := g "minB", maxPendL := g "mpA", maxPendR := g "mpB",
        maxAccL := g "maA", maxAccR := g "maB" }
    let s := { s with caseId := id, cases := s.cases + 1, inited := false, modelOk := true, caseMismatch := 0,
                      caseMonitor := 0, cap := cfgA.capacity, anchors := cfgA.anchors, cfgA := cfgA,
                      qab := [], qba := [], dA := {}, dB := {}, cur := none, dirty := [], qlenAB := 0, qlenBA := 0,
                      dead := false, resolved := [], hist := [], snapAB := [], snapBA := [],
                      skA := {}, skB := {}, sqab := [], sqba := [], skOk := true, pendSk := none, reloaded := [],
                      lwrImpl := [], syA := none, syB := none, builtA := [], builtB := [], reA := none, reB := none, winA := [], winB := [], pendSigA := none,
                      pendSigB := none, pendRevA := false, pendRevB := false, lastRevA := false, lastRevB := false,
                      committed := [], gone := [], tweakless := true, inCut := false, pCount := 0, everRev := [], signedNonAdd := [], gap := [], taint := [] }
    if s.samples < 4 then
      IO.println s!"SAMPLE {line}"
      return { s with samples := s.samples + 1 }
    return s
  | ["END"] => flush s
  | "N" :: node :: rest =>
    let pend := ((kv? rest "pend").getD "").splitOn "," |>.map natD
    let d : NDump :=
      { ll := (kvNat? rest "ll").getD 0, lc := (kvNat? rest "lc").getD 0, rl := (kvNat? rest "rl").getD 0,
        rc := (kvNat? rest "rc").getD 0, owe := b01 rest "owe", need := b01 rest "need", pend := pend,
        lmod := parseSet ((kv? rest "lmod").getD "-"), rmod := parseSet ((kv? rest "rmod").getD "-"),
        seen := true }
    let s := if node == "A" then { s with dA := d } else { s with dB := d }
    return { s with cur := some node, dirty := if s.dirty.contains node then s.dirty else s.dirty ++ [node] }
  | "G" :: node :: side :: toks =>
    let es := toks.filterMap parseEntry
    let upd (d : NDump) : NDump := if side == "L" then { d with logL := es } else { d with logR := es }
    return if node == "A" then { s with dA := upd s.dA } else { s with dB := upd s.dB }
  | "C" :: node :: _ =>
    match parseCommit ws with
    | some c =>
      let upd (d : NDump) : NDump := { d with commits := d.commits ++ [c] }
      return if node == "A" then { s with dA := upd s.dA } else { s with dB := upd s.dB }
    | none => mismatch s s!"unparsed commitment line"
  | "T" :: rest => return { s with tweakless := b01 rest "tweakless" }
  | "X" :: _ => dropLine s ws
  | "R" :: _ => reloadLine s ws
  | "Y" :: _ => syncMsgLine s ws
  | "YW" :: _ => syncWireLine s ws
  | "W" :: _ => wireLine s ws
  | "P" :: _ => processLine s ws
  | "Q" :: _ => probeLine s ws
  | "D" :: _ => deliverLine s ws
  | "A" :: _ => opLine s "A" ws
  | "B" :: _ => opLine s "B" ws
  | "HSTAT" :: kvs =>
    for w in kvs do IO.println s!"STAT h_{w}"
    return s
  | [] => return s
  | _ => mismatch s s!"unparsed line: {line.take 60}"

end LndModel.C03.Driver

open LndModel.C03.Driver in
def main (args : List String) : IO Unit := do
  -- stream `link`: the link-level harness (one real channelLink, in-process flaps)
  if args.contains "link" then
    return ← LndModel.C03.LinkDriver.main
  let s ← LndModel.Lines.foldStdin step {}
  let s ← flush s
  IO.println s!"STAT lines={s.lines}"
  IO.println s!"STAT cases={s.cases}"
  IO.println s!"STAT evaluations={s.ops}"
  IO.println s!"STAT nontrivial={s.commitsChecked + s.sigsVerified + s.idleChecks + s.retxChecks + s.reloadChecks + s.probeChecks}"
  IO.println s!"STAT commitments_checked={s.commitsChecked}"
  IO.println s!"STAT balance_moves_checked={s.balanceMoves}"
  IO.println s!"STAT signatures_made={s.signs}"
  IO.println s!"STAT signatures_verified={s.sigsVerified}"
  IO.println s!"STAT mirror_signed_checks={s.mirrorSigned}"
  IO.println s!"STAT log_agreement_checks={s.agreeChecks}"
  IO.println s!"STAT idle_mirror_checks={s.idleChecks}"
  IO.println s!"STAT dust_htlcs_on_commitments={s.dustHtlcs}"
  IO.println s!"STAT nondust_htlcs_on_commitments={s.nondustHtlcs}"
  IO.println s!"STAT max_htlcs_on_a_commitment={s.maxHtlcsOnCommit}"
  for (k, v) in s.errKinds do
    IO.println s!"STAT result_{k}={v}"
  IO.println s!"STAT reconnections={s.cuts}"
  IO.println s!"STAT process_chan_sync_calls={s.syncs}"
  IO.println s!"STAT retransmitted_messages={s.retxMsgs}"
  IO.println s!"STAT retransmit_exact_checks={s.retxChecks}"
  IO.println s!"STAT both_sig_and_rev_owed={s.orderBoth}"
  IO.println s!"STAT resigned_after_revocation={s.resigns}"
  IO.println s!"STAT resign_refused_by_channel_constraint={s.signFailed}"
  IO.println s!"STAT wire_messages_roundtripped={s.wireMsgs}"
  IO.println s!"STAT wire_reestablish_roundtripped={s.wireReest}"
  IO.println s!"STAT wire_reestablish_before_first_revocation={s.wireReestTail0}"
  IO.println s!"STAT wire_reestablish_legacy_encoding={s.wireReestLegacy}"
  IO.println s!"STAT wire_reestablish_with_nonce={s.wireReestNonce}"
  IO.println s!"STAT dlp_probes={s.probes}"
  IO.println s!"STAT dlp_decision_table_checks={s.probeChecks}"
  IO.println s!"STAT dlp_peer_ahead_probes={s.probeAhead}"
  IO.println s!"STAT dlp_probe_resigns={s.probeResigns}"
  IO.println s!"STAT skeleton_state_checks={s.skelChecks}"
  IO.println s!"STAT index_invariant_checks={s.inv2Checks}"
  IO.println s!"STAT restart_checks={s.reloadChecks}"
  IO.println s!"STAT htlc_exactly_once_checks={s.htlcChecks}"
  IO.println s!"STAT mismatches={s.mismatches}"
  IO.println s!"STAT monitor_failures={s.monitorFails}"
