/-
C03 — the resynchronisation theorems hold for messages that travel over the wire.

`Props.lean` proves "no false data loss" and "exactly the missing messages" for `processSync`
applied to the `SyncMsg` the peer built.  Here: the serialisation of channel_reestablish is
transparent for everything the sync logic reads, at every height including the boundary where
nothing has been revoked yet (all-zero last secret), for peers with and without the
data-loss-protect fields, and the taproot nonces always reach the receiver.
-/
import LndModel.C03.Wire
import LndModel.C03.Props

namespace LndModel.C03

/-- what the receiver decodes = what the sender built, whenever the sender populated the
    commit point — whatever the last secret is (in particular all zero, `remoteTail = 0`) and
    with or without a nonce. -/
theorem wire_roundtrip (m : Reest) (h : m.point.isSome = true) : Reest.decode m.encode = some m := by
  obtain ⟨nl, rt, sec, pt, nonce⟩ := m
  cases pt with
  | none => simp at h
  | some p => cases nonce <;> rfl

/-- a sender without the data-loss-protect fields conveys exactly the two heights. -/
theorem wire_roundtrip_legacy (m : Reest) (h : m.point = none) : Reest.decode m.encode = some m.legacy := by
  obtain ⟨nl, rt, sec, pt, nonce⟩ := m
  simp only at h; subst h; rfl

/-- every message `Encode` produces is parsed by `Decode`, and the two heights always survive. -/
theorem wire_decode_total (m : Reest) :
    ∃ m', Reest.decode m.encode = some m' ∧ m'.nextLocal = m.nextLocal ∧ m'.remoteTail = m.remoteTail ∧
      (m.point.isSome = true → m' = m) := by
  cases h : m.point with
  | none => exact ⟨m.legacy, wire_roundtrip_legacy m h, rfl, rfl, by simp⟩
  | some p => exact ⟨m, wire_roundtrip m (by simp [h]), rfl, rfl, fun _ => rfl⟩

/-- the sync logic does not read the fields the legacy encoding drops. -/
theorem processSync_legacy (n : SNode) (tw : Bool) (m : Reest) (h : m.point = none) :
    n.processSync tw m.legacy.toSync = n.processSync tw m.toSync := by
  simp [SNode.processSync, Reest.legacy, Reest.toSync, SNode.pointOk, h]

/-- **the wire is transparent**: parsing the serialised message and processing it gives the
    answer of processing the message the sender built — for every node state and every message,
    provided a taproot sender populates the commit point (its nonce travels behind it). -/
theorem process_wire_transparent (n : SNode) (tw tap : Bool) (m : Reest)
    (h : tap = true → m.point.isSome = true) :
    n.processWire tw tap m.encode = n.processReest tw tap m := by
  unfold SNode.processWire
  cases hp : m.point with
  | some p => rw [wire_roundtrip m (by simp [hp])]
  | none =>
    rw [wire_roundtrip_legacy m hp]
    have htap : tap = false := by
      cases tap with
      | false => rfl
      | true => have := h rfl; simp [hp] at this
    subst htap
    show n.processReest tw false m.legacy = n.processReest tw false m
    unfold SNode.processReest
    rw [processSync_legacy n tw m hp]
    simp [Reest.legacy, hp]

theorem reest_toSync (n : SNode) (dlp tap : Bool) : (n.reest dlp tap).toSync = n.chanSyncMsg dlp := rfl

/-- the first two checks of `processReest` pass on a message built by `ChanSyncMsg`. -/
theorem processReest_built (x y : SNode) (tw tap dlp : Bool) (h : tap = true → dlp = true)
    (r : SNode × List SMsg) (hr : x.processSync tw (y.chanSyncMsg dlp) = .ok r) :
    x.processWire tw tap (y.reest dlp tap).encode = .ok r := by
  rw [process_wire_transparent x tw tap _ (by intro ht; simp [SNode.reest, h ht])]
  unfold SNode.processReest
  have hsec : ((y.reest dlp tap).point.isSome && (y.reest dlp tap).remoteTail != 0 &&
      (y.reest dlp tap).lastSecret != some ((y.reest dlp tap).remoteTail - 1)) = false := by
    simp only [SNode.reest]
    by_cases h0 : y.rt = 0 <;> simp [h0]
  have hn : (tap && (y.reest dlp tap).nonce.isNone) = false := by
    cases tap <;> simp [SNode.reest]
  rw [hsec, hn, reest_toSync, hr]
  rfl

/-- **sync_over_the_wire.**  `sync_no_false_dataloss` and `sync_retransmits_exactly_missing`
    for messages that are serialised and parsed: for every schedule, every cut, with or without
    the data-loss-protect fields, taproot (which always sends them) or not, both sides answer
    `ok` with exactly what the peer is missing, and the whole reconnection over the wire is the
    reconnection of `Props.lean`. -/
theorem sync_over_the_wire (steps : List SStep) (c : SyncCfg) (kA kB : Nat) (tap : Bool)
    (h : tap = true → c.dlpA = true ∧ c.dlpB = true) :
    let p := (SSys.init.run steps).cutPre kA kB
    p.a.processWire c.tweakless tap (p.b.reest c.dlpB tap).encode =
      .ok (syncNode p.a p.b, (p.a.hist.filter (missing p.b)).flatMap (expand p.a) ++ freshSig p.a p.b) ∧
    p.b.processWire c.tweakless tap (p.a.reest c.dlpA tap).encode =
      .ok (syncNode p.b p.a, (p.b.hist.filter (missing p.a)).flatMap (expand p.b) ++ freshSig p.b p.a) ∧
    (∃ s', p.resyncWire c tap = .ok s' ∧ p.resync c = .ok s') := by
  intro p
  obtain ⟨h1, h2⟩ := sync_retransmits_exactly_missing steps c kA kB
  have w1 := processReest_built p.a p.b c.tweakless tap c.dlpB (fun ht => (h ht).2) _ h1
  have w2 := processReest_built p.b p.a c.tweakless tap c.dlpA (fun ht => (h ht).1) _ h2
  refine ⟨w1, w2, ⟨⟨syncNode p.a p.b, syncNode p.b p.a,
    (p.a.hist.filter (missing p.b)).flatMap (expand p.a) ++ freshSig p.a p.b,
    (p.b.hist.filter (missing p.a)).flatMap (expand p.b) ++ freshSig p.b p.a⟩, ?_, ?_⟩⟩
  · simp only [SSys.resyncWire, w1, w2]; rfl
  · have h1' : p.a.processSync c.tweakless (p.b.chanSyncMsg c.dlpB) = _ := h1
    have h2' : p.b.processSync c.tweakless (p.a.chanSyncMsg c.dlpA) = _ := h2
    simp only [SSys.resync, h1', h2']; rfl

/-- the same for the system under the link discipline (`lrun` / `lcutPre`). -/
theorem sync_over_the_wire_disciplined (steps : List LStep) (c : SyncCfg) (kA kB : Nat) (tap : Bool)
    (h : tap = true → c.dlpA = true ∧ c.dlpB = true) :
    let p := (SSys.init.lrun steps).lcutPre kA kB
    p.a.processWire c.tweakless tap (p.b.reest c.dlpB tap).encode =
      .ok (syncNode p.a p.b, (p.a.hist.filter (missing p.b)).flatMap (expand p.a) ++ freshSig p.a p.b) ∧
    p.b.processWire c.tweakless tap (p.a.reest c.dlpA tap).encode =
      .ok (syncNode p.b p.a, (p.b.hist.filter (missing p.a)).flatMap (expand p.b) ++ freshSig p.b p.a) := by
  intro p
  obtain ⟨h1, h2⟩ := sync_ok_and_exact_disciplined steps c kA kB
  exact ⟨processReest_built p.a p.b c.tweakless tap c.dlpB (fun ht => (h ht).2) _ h1,
         processReest_built p.b p.a c.tweakless tap c.dlpA (fun ht => (h ht).1) _ h2⟩

/-- **the legacy variant** (`hasRecoveryOptions = false`): a peer that sends only the two heights
    is answered exactly like one that sends all fields — same state, same retransmissions. -/
theorem sync_legacy_same_answer (steps : List SStep) (tw : Bool) (kA kB : Nat) :
    let p := (SSys.init.run steps).cutPre kA kB
    p.a.processSync tw (p.b.chanSyncMsg false) = p.a.processSync tw (p.b.chanSyncMsg true) ∧
    p.b.processSync tw (p.a.chanSyncMsg false) = p.b.processSync tw (p.a.chanSyncMsg true) := by
  intro p
  have hw := invW_cutPre _ kA kB (inv_reachable steps)
  exact ⟨by rw [processSync_spec hw.1 hw.2.1 tw false, processSync_spec hw.1 hw.2.1 tw true],
         by rw [processSync_spec hw.2.1 hw.1 tw false, processSync_spec hw.2.1 hw.1 tw true]⟩

/-- **taproot: the verification nonce reaches the peer on every reconnect**, also while nothing
    has been revoked yet (`rt = 0`: all-zero last secret). -/
theorem taproot_nonce_always_arrives (n : SNode) :
    Reest.decode (n.reest true true).encode = some (n.reest true true) ∧
    (n.reest true true).nonce = some (n.lt + 1) :=
  ⟨wire_roundtrip _ rfl, rfl⟩

/-! ### non-vacuity / sensitivity -/

/-- a fresh taproot channel (height 0, nothing revoked) reconnects over the wire. -/
example :
    ((SSys.init.cutPre 0 0).resyncWire {} true).toOption.map (fun s => (s.ab, s.ba)) = some ([], []) := by
  decide

/-- taproot, cut before the first revoke_and_ack reaches A: B's reestablish has `rt = 0`;
    over the wire B still retransmits the revocation and signs the commitment it owes. -/
example :
    (((SSys.init.run [.actA (.upd true), .actA .sign, .dlvAB, .dlvAB, .actB .revoke]).cutPre 0 0).resyncWire
        {} true).toOption.map (fun s => s.ba) = some [SMsg.rev 0, SMsg.sig 1 ⟨0, 1⟩] := by
  decide

/-- a legacy peer (no data-loss-protect fields) on a non-taproot channel. -/
example :
    (((SSys.init.run [.actA (.upd true), .actA .sign]).cutPre 1 0).resyncWire
        { dlpA := false, dlpB := false } false).toOption.map (fun s => s.ab)
      = some [SMsg.upd (some 0), SMsg.sig 1 ⟨1, 0⟩] := by
  decide

/-- an encoder that takes the short form whenever the last secret is all zero … -/
def Reest.encodeShortOnZeroSecret (m : Reest) : List WItem :=
  if m.lastSecret.isNone then [.u64 m.nextLocal, .u64 m.remoteTail] else m.encode

/-- … loses the nonce of a taproot channel that has not seen a revocation yet: the hypothesis
    "Encode decides on the commit point alone" of the theorems above is needed. -/
example :
    (match SSys.init.b.processWire true true (SSys.init.a.reest true true).encodeShortOnZeroSecret with
     | .error .noNonce => true
     | _ => false) = true := by
  decide

end LndModel.C03
