/-
C03 — list lemmas for the index invariant (`Mirror.lean`).
-/
import LndModel.C03.Mirror

namespace LndModel.C03

@[simp] theorem nFresh_nil : nFresh [] = 0 := rfl
@[simp] theorem nFresh_append (a b : List SMsg) : nFresh (a ++ b) = nFresh a + nFresh b := by
  simp [nFresh, List.countP_append]
@[simp] theorem nFresh_cons (m : SMsg) (q : List SMsg) :
    nFresh (m :: q) = (if m.isFresh then 1 else 0) + nFresh q := by
  simp [nFresh, List.countP_cons]; omega

def hasSig (q : List SMsg) : Bool := q.any SMsg.isSig

@[simp] theorem hasSig_nil : hasSig [] = false := rfl
@[simp] theorem hasSig_cons (m : SMsg) (q : List SMsg) : hasSig (m :: q) = (m.isSig || hasSig q) := by
  simp [hasSig]
@[simp] theorem hasSig_append (a b : List SMsg) : hasSig (a ++ b) = (hasSig a || hasSig b) := by
  simp [hasSig]

theorem hasSig_filter (q : List SMsg) : hasSig (q.filter SMsg.notUpd) = hasSig q := by
  induction q with
  | nil => rfl
  | cons m q ih =>
    cases m <;> simp [List.filter, SMsg.notUpd, SMsg.isSig, SMsg.isRev, ih]

theorem freshIdxOk_append (q q' : List SMsg) : ∀ k,
    freshIdxOk k (q ++ q') = (freshIdxOk k q && freshIdxOk (k + nFresh q) q') := by
  induction q with
  | nil => intro k; simp [freshIdxOk]
  | cons m q ih =>
    intro k
    cases m with
    | upd i =>
      cases i with
      | none => simp [freshIdxOk, ih, SMsg.isFresh]
      | some i =>
        have e : k + 1 + nFresh q = k + (1 + nFresh q) := by omega
        simp [freshIdxOk, ih, SMsg.isFresh, Bool.and_assoc, e]
    | sig h ix => simp [freshIdxOk, ih, SMsg.isFresh]
    | rev h => simp [freshIdxOk, ih, SMsg.isFresh]

theorem freshBeforeSig_append_sig (q x : List SMsg) (h : hasSig q = true) :
    freshBeforeSig (q ++ x) = freshBeforeSig q := by
  induction q with
  | nil => simp at h
  | cons m q ih =>
    cases m with
    | sig hh ix => simp [freshBeforeSig]
    | upd i => simp [SMsg.isSig] at h; simp [freshBeforeSig, ih h]
    | rev hh => simp [SMsg.isSig] at h; simp [freshBeforeSig, ih h]

theorem freshBeforeSig_append_nosig (q x : List SMsg) (h : hasSig q = false) :
    freshBeforeSig (q ++ x) = nFresh q + freshBeforeSig x := by
  induction q with
  | nil => simp
  | cons m q ih =>
    cases m with
    | sig hh ix => simp [SMsg.isSig] at h
    | upd i => simp [SMsg.isSig] at h; simp [freshBeforeSig, ih h]; omega
    | rev hh => simp [SMsg.isSig] at h; simp [freshBeforeSig, ih h, SMsg.isFresh]

theorem freshBeforeSig_nosig (q : List SMsg) (h : hasSig q = false) : freshBeforeSig q = nFresh q := by
  have := freshBeforeSig_append_nosig q [] h
  simpa [freshBeforeSig] using this

/-! facts about `owed` -/

theorem hasSig_owed (s r : SNode) :
    hasSig (owed s r) = true ↔ ∃ ix, s.rp = some ix ∧ r.lt = s.rt := by
  unfold owed csOf rvOf
  cases hrp : s.rp with
  | none => cases s.lwr <;> simp <;> split <;> simp [SMsg.isSig]
  | some ix =>
    by_cases h : r.lt = s.rt
    · cases s.lwr <;> simp [h, SMsg.isSig]
    · cases s.lwr <;> simp [h] <;> split <;> simp [SMsg.isSig]

end LndModel.C03
