/-
C03 — the cross-node invariant of the sync skeleton (heights and send history) and its
preservation by every step of the two-party system, reconnections included.
-/
import LndModel.C03.Model

namespace LndModel.C03

/-! ## counting signatures / revocations in a queue -/

def nSig (q : List SMsg) : Nat := q.countP SMsg.isSig
def nRev (q : List SMsg) : Nat := q.countP SMsg.isRev

@[simp] theorem nSig_nil : nSig [] = 0 := rfl
@[simp] theorem nRev_nil : nRev [] = 0 := rfl
@[simp] theorem nSig_append (a b : List SMsg) : nSig (a ++ b) = nSig a + nSig b := by
  simp [nSig, List.countP_append]
@[simp] theorem nRev_append (a b : List SMsg) : nRev (a ++ b) = nRev a + nRev b := by
  simp [nRev, List.countP_append]
@[simp] theorem nSig_cons (m : SMsg) (q : List SMsg) : nSig (m :: q) = (if m.isSig then 1 else 0) + nSig q := by
  simp [nSig, List.countP_cons]; omega
@[simp] theorem nRev_cons (m : SMsg) (q : List SMsg) : nRev (m :: q) = (if m.isRev then 1 else 0) + nRev q := by
  simp [nRev, List.countP_cons]; omega

/-! ## what the peer is missing, from the sender's history -/

/-- `m` (a signature or revocation the sender once sent) has not been durably absorbed by `r`:
    `r` has not revoked up to the signed height / has not advanced its view of the sender's
    chain past the revoked height. -/
def missing (r : SNode) : SMsg → Bool
  | .sig h _ => decide (r.lt < h)
  | .rev h => decide (r.rt ≤ h)
  | .upd _ => false

/-- the pending signature, if the peer has not revoked for it. -/
def csOf (s r : SNode) : List SMsg :=
  match s.rp with
  | some ix => if r.lt = s.rt then [SMsg.sig (s.rt + 1) ix] else []
  | none => []

/-- the last revocation, if the peer has not received it. -/
def rvOf (s r : SNode) : List SMsg :=
  if r.rt + 1 = s.lt then [SMsg.rev (s.lt - 1)] else []

/-- signature / revocation owed to the peer, in the order they were first sent. -/
def owed (s r : SNode) : List SMsg :=
  if s.lwr then csOf s r ++ rvOf s r else rvOf s r ++ csOf s r

/-- the sender's history, restricted to what the peer is missing, is `owed`. -/
def HistOk (s r : SNode) : Prop := s.hist.filter (missing r) = owed s r

/-- `x` owns a local chain that `y` tracks as its remote chain; `qxy` carries `x`'s
    revocations, `qyx` carries `y`'s signatures. -/
structure Link (x y : SNode) (qxy qyx : List SMsg) : Prop where
  revs : x.lt = y.rt + nRev qxy
  sigs : x.lt + x.lp.length + nSig qyx = y.tipH
  hist : HistOk x y

def Inv (s : SSys) : Prop := Link s.a s.b s.ab s.ba ∧ Link s.b s.a s.ba s.ab

/-- the same right after the connection is gone (queues empty, nothing volatile left). -/
structure LinkW (x y : SNode) : Prop where
  lo : y.rt ≤ x.lt
  hi : x.lt ≤ y.tipH
  lp : x.lp = []
  hist : HistOk x y

def InvW (s : SSys) : Prop := LinkW s.a s.b ∧ LinkW s.b s.a ∧ s.ab = [] ∧ s.ba = []

theorem tipH_le (n : SNode) : n.tipH ≤ n.rt + 1 := by
  unfold SNode.tipH; split <;> omega

theorem tipH_ge (n : SNode) : n.rt ≤ n.tipH := by
  unfold SNode.tipH; split <;> omega

theorem tipH_none {n : SNode} (h : n.rp = none) : n.tipH = n.rt := by
  simp [SNode.tipH, h]

theorem tipH_some {n : SNode} {ix : Idx} (h : n.rp = some ix) : n.tipH = n.rt + 1 := by
  simp [SNode.tipH, h]

theorem rp_some_of_tipH {n : SNode} (h : n.rt < n.tipH) : ∃ ix, n.rp = some ix := by
  cases hr : n.rp with
  | none => rw [tipH_none hr] at h; omega
  | some ix => exact ⟨ix, rfl⟩

/-! ## swapping the two sides -/

def SSys.swap (s : SSys) : SSys := { a := s.b, b := s.a, ab := s.ba, ba := s.ab }

theorem inv_swap (s : SSys) : Inv s.swap ↔ Inv s := by
  unfold Inv SSys.swap; exact and_comm

theorem invW_swap (s : SSys) : InvW s.swap ↔ InvW s := by
  unfold InvW SSys.swap; constructor <;> (rintro ⟨h1, h2, h3, h4⟩; exact ⟨h2, h1, h4, h3⟩)

theorem actB_swap (s : SSys) (x : SAct) : s.actB x = (s.swap.actA x).swap := by
  simp [SSys.actA, SSys.actB, SSys.swap]

theorem dlvBA_swap (s : SSys) : s.dlvBA = s.swap.dlvAB.swap := by
  cases s with
  | mk a b ab ba => cases ba <;> simp [SSys.dlvBA, SSys.dlvAB, SSys.swap]

/-! ## filter helpers -/

theorem filter_sub {α} (p q : α → Bool) (l : List α) (h : ∀ x, q x = true → p x = true) :
    (l.filter p).filter q = l.filter q := by
  rw [List.filter_filter]
  congr 1; funext x
  cases hq : q x <;> simp
  exact h x hq

/-- `HistOk` only looks at these fields. -/
theorem histOk_congr {s r s' r' : SNode}
    (h1 : s'.hist = s.hist) (h2 : s'.lwr = s.lwr) (h3 : s'.rp = s.rp) (h4 : s'.rt = s.rt)
    (h5 : s'.lt = s.lt) (h6 : r'.lt = r.lt) (h7 : r'.rt = r.rt) (h : HistOk s r) : HistOk s' r' := by
  unfold HistOk at *
  have hm : missing r' = missing r := by
    funext m; cases m <;> simp [missing, h6, h7]
  have ho : owed s' r' = owed s r := by
    simp [owed, csOf, rvOf, h2, h3, h4, h5, h6, h7]
  rw [h1, hm, ho]; exact h

theorem tipH_congr {n n' : SNode} (h1 : n'.rp = n.rp) (h2 : n'.rt = n.rt) : n'.tipH = n.tipH := by
  simp [SNode.tipH, h1, h2]

/-- `Link` only looks at these fields / counts. -/
theorem link_congr {x y x' y' : SNode} {qxy qyx qxy' qyx' : List SMsg}
    (e1 : x'.lt = x.lt) (e2 : x'.lp.length = x.lp.length) (e3 : y'.rt = y.rt) (e4 : y'.rp = y.rp)
    (e5 : x'.hist = x.hist) (e6 : x'.lwr = x.lwr) (e7 : x'.rp = x.rp) (e8 : x'.rt = x.rt)
    (e9 : y'.lt = y.lt) (c1 : nRev qxy' = nRev qxy) (c2 : nSig qyx' = nSig qyx)
    (h : Link x y qxy qyx) : Link x' y' qxy' qyx' := by
  obtain ⟨r1, s1, h1⟩ := h
  refine ⟨by omega, ?_, histOk_congr e5 e6 e7 e8 e1 e9 e3 h1⟩
  rw [tipH_congr e4 e3]; omega

/-- the sender signs (window open, the peer is level with the sender's view). -/
theorem histOk_send_sig {x y x' : SNode} {ix : Idx} (h : HistOk x y) (hrp : x.rp = none)
    (hy : y.lt = x.rt) (e1 : x'.hist = x.hist ++ [SMsg.sig (x.rt + 1) ix]) (e2 : x'.rp = some ix)
    (e3 : x'.lwr = false) (e4 : x'.rt = x.rt) (e5 : x'.lt = x.lt) : HistOk x' y := by
  unfold HistOk at *
  rw [e1, List.filter_append, h]
  simp [owed, csOf, rvOf, hrp, missing, hy, e2, e3, e4, e5]

/-- the sender revokes (the peer had received every earlier revocation). -/
theorem histOk_send_rev {x y x' : SNode} (h : HistOk x y) (hy : x.lt = y.rt)
    (e1 : x'.hist = x.hist ++ [SMsg.rev x.lt]) (e2 : x'.lt = x.lt + 1) (e3 : x'.lwr = true)
    (e4 : x'.rp = x.rp) (e5 : x'.rt = x.rt) : HistOk x' y := by
  unfold HistOk at *
  rw [e1, List.filter_append, h]
  simp [owed, csOf, rvOf, missing, hy, e2, e3, e4, e5]

/-- the peer revokes for the sender's pending signature. -/
theorem histOk_peer_revoke {x y y' : SNode} (h : HistOk x y) (hy : y.lt = x.rt)
    (e1 : y'.lt = y.lt + 1) (e2 : y'.rt = y.rt) : HistOk x y' := by
  unfold HistOk at *
  have hsub : ∀ m, missing y' m = true → missing y m = true := by
    intro m; cases m <;> simp [missing, e1, e2]; omega
  rw [← filter_sub _ _ _ hsub, h]
  simp only [owed, csOf, rvOf, e1, e2]
  cases hrp : x.rp with
  | none => cases x.lwr <;> simp <;> intro h' <;> simp [missing, e2] <;> omega
  | some ix =>
    have : ¬ (y.lt + 1 = x.rt) := by omega
    cases x.lwr <;> simp [hy, missing, e1, e2] <;> intro h' <;> omega

/-- the peer receives the sender's last revocation. -/
theorem histOk_peer_recvRev {x y y' : SNode} (h : HistOk x y) (hy : x.lt = y.rt + 1)
    (e1 : y'.rt = y.rt + 1) (e2 : y'.lt = y.lt) : HistOk x y' := by
  unfold HistOk at *
  have hsub : ∀ m, missing y' m = true → missing y m = true := by
    intro m; cases m <;> simp [missing, e1, e2]; omega
  rw [← filter_sub _ _ _ hsub, h]
  simp only [owed, csOf, rvOf, e1, e2]
  have h1 : y.rt + 1 = x.lt := by omega
  have h2 : ¬ (y.rt + 1 + 1 = x.lt) := by omega
  have m1 : missing y' (SMsg.rev (x.lt - 1)) = false := by simp [missing, e1]; omega
  cases hrp : x.rp with
  | none => cases x.lwr <;> simp [h1, h2, List.filter, m1]
  | some ix =>
    by_cases hyl : y.lt = x.rt
    · have m2 : missing y' (SMsg.sig (x.rt + 1) ix) = true := by simp [missing, e2]; omega
      cases x.lwr <;> simp [h1, h2, hyl, List.filter, m1, m2]
    · cases x.lwr <;> simp [h1, h2, hyl, List.filter, m1]

/-- the sender receives the revocation for its pending signature (the peer is already past it). -/
theorem histOk_self_recvRev {x y x' : SNode} (h : HistOk x y) (hy : y.lt = x.rt + 1)
    (e1 : x'.hist = x.hist) (e2 : x'.lwr = x.lwr) (e3 : x'.rp = none) (e4 : x'.rt = x.rt + 1)
    (e5 : x'.lt = x.lt) : HistOk x' y := by
  unfold HistOk at *
  rw [e1, h]
  have : ¬ (y.lt = x.rt) := by omega
  simp only [owed, csOf, rvOf, e2, e3, e4, e5]
  cases hrp : x.rp <;> simp [this]

/-! ## local actions -/

theorem inv_upd (s : SSys) (f : Bool) (h : Inv s) : Inv (s.actA (.upd f)) := by
  obtain ⟨h1, h2⟩ := h
  cases f
  · exact ⟨link_congr (x := s.a) (y := s.b) (qxy := s.ab) (qyx := s.ba) rfl rfl rfl rfl rfl rfl rfl rfl rfl
             (by simp [SSys.actA, SNode.act, SMsg.isRev]) rfl h1,
           link_congr (x := s.b) (y := s.a) (qxy := s.ba) (qyx := s.ab) rfl rfl rfl rfl rfl rfl rfl rfl rfl rfl
             (by simp [SSys.actA, SNode.act, SMsg.isSig]) h2⟩
  · exact ⟨link_congr (x := s.a) (y := s.b) (qxy := s.ab) (qyx := s.ba) rfl rfl rfl rfl rfl rfl rfl rfl rfl
             (by simp [SSys.actA, SNode.act, SMsg.isRev]) rfl h1,
           link_congr (x := s.b) (y := s.a) (qxy := s.ba) (qyx := s.ab) rfl rfl rfl rfl rfl rfl rfl rfl rfl rfl
             (by simp [SSys.actA, SNode.act, SMsg.isSig]) h2⟩

/-- signing when the window is open. -/
theorem link_sign {a b : SNode} {ab ba : List SMsg} (hrp : a.rp = none)
    (hab : Link a b ab ba) (hba : Link b a ba ab) :
    Link a.doSign.1 b (ab ++ a.doSign.2.toList) ba ∧ Link b a.doSign.1 ba (ab ++ a.doSign.2.toList) := by
  obtain ⟨r1, s1, h1⟩ := hab
  obtain ⟨r2, s2, h2⟩ := hba
  have ht : a.tipH = a.rt := tipH_none hrp
  have hblt : b.lt = a.rt := by omega
  simp only [SNode.doSign, hrp]
  refine ⟨⟨?_, ?_, ?_⟩, ⟨?_, ?_, ?_⟩⟩
  · simpa [SMsg.isRev] using r1
  · simpa using s1
  · exact histOk_send_sig h1 hrp hblt rfl rfl rfl rfl rfl
  · simpa using r2
  · rw [tipH_some (ix := ⟨a.lIdx, a.ltIdx.their⟩) rfl]
    simp [SMsg.isSig]; omega
  · exact histOk_congr rfl rfl rfl rfl rfl rfl rfl h2

theorem inv_sign (s : SSys) (h : Inv s) : Inv (s.actA .sign) := by
  cases hrp : s.a.rp with
  | some ix =>
    have : s.actA .sign = s := by
      simp [SSys.actA, SNode.act, SNode.doSign, hrp]
    rw [this]; exact h
  | none =>
    have := link_sign hrp h.1 h.2
    simpa [Inv, SSys.actA, SNode.act] using this

/-- revoking for a received signature. -/
theorem link_revoke {a b : SNode} {ab ba : List SMsg} {c : Idx} {rest : List Idx} (hlp : a.lp = c :: rest)
    (hab : Link a b ab ba) (hba : Link b a ba ab) :
    Link a.doRevoke.1 b (ab ++ a.doRevoke.2.toList) ba ∧ Link b a.doRevoke.1 ba (ab ++ a.doRevoke.2.toList) := by
  obtain ⟨r1, s1, h1⟩ := hab
  obtain ⟨r2, s2, h2⟩ := hba
  have hb := tipH_le b
  have hlen : a.lp.length = rest.length + 1 := by simp [hlp]
  have hlt : a.lt = b.rt := by omega
  simp only [SNode.doRevoke, hlp]
  refine ⟨⟨?_, ?_, ?_⟩, ⟨?_, ?_, ?_⟩⟩
  · simp [SMsg.isRev]; omega
  · simp; omega
  · exact histOk_send_rev h1 hlt rfl rfl rfl rfl rfl
  · simpa using r2
  · refine Eq.trans ?_ (tipH_congr (n := a) rfl rfl).symm
    simpa [SMsg.isSig] using s2
  · exact histOk_peer_revoke h2 hlt rfl rfl

theorem inv_revoke (s : SSys) (h : Inv s) : Inv (s.actA .revoke) := by
  cases hlp : s.a.lp with
  | nil =>
    have : s.actA .revoke = s := by
      simp [SSys.actA, SNode.act, SNode.doRevoke, hlp]
    rw [this]; exact h
  | cons c rest =>
    have := link_revoke hlp h.1 h.2
    simpa [Inv, SSys.actA, SNode.act] using this

theorem inv_actA (s : SSys) (x : SAct) (h : Inv s) : Inv (s.actA x) := by
  cases x with
  | upd f => exact inv_upd s f h
  | sign => exact inv_sign s h
  | revoke => exact inv_revoke s h

theorem inv_actB (s : SSys) (x : SAct) (h : Inv s) : Inv (s.actB x) := by
  rw [actB_swap, inv_swap]; exact inv_actA _ x ((inv_swap s).2 h)

end LndModel.C03
