/-
C03 — the index invariant across a reconnection: what survives the restart (`MirW`) and why the
retransmissions queued by `resync` satisfy `Mir` again.
-/
import LndModel.C03.Conv2

namespace LndModel.C03

/-- the durable part of `Mir`. -/
structure MirW (s r : SNode) : Prop where
  sigF : ∀ ix, s.rp = some ix → r.lt = s.rt → s.lwr = false → ix.their = s.ltIdx.their
  sigT : ∀ ix, s.rp = some ix → r.lt = s.rt → s.lwr = true → r.rt + 1 = s.lt ∧ ix.their = r.rtIdx.our
  tail0 : r.lt = s.rt → r.ltIdx = s.rtIdx.swap
  tail1 : r.lt = s.rt + 1 → ∃ ix, s.rp = some ix ∧ r.ltIdx = ix.swap

/-- a node right after `NewLightningChannel`: the log counters are those of the commitments. -/
def Fresh (n : SNode) : Prop := n.lIdx = n.tipIdx.our ∧ n.rIdx = n.ltIdx.their

def InvW2 (s : SSys) : Prop :=
  InvW s ∧ MirW s.a s.b ∧ MirW s.b s.a ∧ Loc s.a ∧ Loc s.b ∧ Fresh s.a ∧ Fresh s.b

theorem mirW_of_mir {s r : SNode} {q : List SMsg} (h : Mir s r q) : MirW s.reload r.reload :=
  ⟨h.sigF, h.sigT, h.tail0, h.tail1⟩

theorem loc_reload {n : SNode} (h : Loc n) : Loc n.reload :=
  ⟨Nat.le_refl _, h.tip, Nat.le_refl _⟩

theorem invW2_dropReload (s : SSys) (h : Inv2 s) : InvW2 s.dropReload := by
  obtain ⟨h0, _, _, h3, h4, h5, h6⟩ := h
  exact ⟨invW_dropReload s h0, mirW_of_mir h3, mirW_of_mir h4, loc_reload h5, loc_reload h6,
         ⟨rfl, rfl⟩, ⟨rfl, rfl⟩⟩

/-! ## the retransmitted log updates -/

/-- update messages for the log indices `k, k+1, …, k+n-1`. -/
def updRange (k n : Nat) : List SMsg := (List.range' k n).map (fun i => SMsg.upd (some i))

theorem updRange_succ (k n : Nat) : updRange k (n + 1) = SMsg.upd (some k) :: updRange (k + 1) n := by
  simp [updRange, List.range'_succ]

@[simp] theorem nFresh_updRange (k n : Nat) : nFresh (updRange k n) = n := by
  induction n generalizing k with
  | zero => simp [updRange]
  | succ n ih => rw [updRange_succ]; simp [SMsg.isFresh, ih]; omega

@[simp] theorem hasSig_updRange (k n : Nat) : hasSig (updRange k n) = false := by
  induction n generalizing k with
  | zero => simp [updRange]
  | succ n ih => rw [updRange_succ]; simp [SMsg.isSig, ih]

@[simp] theorem freshIdxOk_updRange (k n : Nat) : freshIdxOk k (updRange k n) = true := by
  induction n generalizing k with
  | zero => simp [updRange, freshIdxOk]
  | succ n ih => rw [updRange_succ]; simp [freshIdxOk, ih]

@[simp] theorem filter_updRange (k n : Nat) : (updRange k n).filter SMsg.notUpd = [] := by
  induction n generalizing k with
  | zero => simp [updRange]
  | succ n ih => rw [updRange_succ]; simp [List.filter, SMsg.notUpd, SMsg.isSig, SMsg.isRev, ih]

theorem expand_sig (s : SNode) (h : Nat) (ix : Idx) :
    expand s (.sig h ix) = updRange s.rtIdx.our (ix.our - s.rtIdx.our) ++ [SMsg.sig h ix] := rfl

/-- `Mir` for the retransmissions of a sender that does not re-sign. -/
theorem mir_retransmit {s r : SNode} (hsr : LinkW s r) (hrs : LinkW r s) (hw : MirW s r)
    (hl : Loc s) (hfs : Fresh s) (hfr : Fresh r) :
    Mir s r ((owed s r).flatMap (expand s)) := by
  obtain ⟨w1, w2, w3, w4⟩ := hw
  obtain ⟨fs1, _⟩ := hfs
  obtain ⟨_, fr2⟩ := hfr
  have b1 := hrs.lo; have b2 := hrs.hi; have b3 := tipH_le s
  have c1 := hsr.lo; have c2 := hsr.hi; have c3 := tipH_le r
  have l2 := hl.tip
  cases hsp : s.rp with
  | none =>
    -- nothing pending: at most the revocation is owed
    have ht := tipH_none hsp
    have hr : r.lt = s.rt := by omega
    have e0 := w3 hr
    have hti : s.tipIdx = s.rtIdx := by simp [SNode.tipIdx, hsp]
    have hcs : csOf s r = [] := by simp [csOf, hsp]
    have hq : (owed s r).flatMap (expand s) = rvOf s r := by
      simp only [owed, hcs, List.append_nil, List.nil_append, ite_self]
      exact expand_rv s r
    rw [hq]
    have hrvq : ∀ l, l = rvOf s r → l.filter SMsg.notUpd = l ∧ nFresh l = 0 ∧
        (∀ k, freshIdxOk k l = true) := by
      intro l hl'; subst hl'; unfold rvOf; split <;> simp [SMsg.notUpd, SMsg.isRev, SMsg.isFresh, freshIdxOk]
    obtain ⟨q1, q2, q3⟩ := hrvq _ rfl
    refine ⟨?_, ?_, q3 _, ?_, ?_, ?_, w3, w4⟩
    · rw [q1]; simp [owed, hcs]
    · rw [q2, fr2, e0, fs1, hti]; rfl
    · intro ix h1; rw [hsp] at h1; cases h1
    · intro ix h1; rw [hsp] at h1; cases h1
    · intro ix h1; rw [hsp] at h1; cases h1
  | some ix =>
    have ht := tipH_some hsp
    have hti : s.tipIdx = ix := by simp [SNode.tipIdx, hsp]
    rw [hti] at l2 fs1
    by_cases hr : r.lt = s.rt
    · -- the signature is owed: its log updates, then the signature
      have e0 := w3 hr
      have hri : r.rIdx = s.rtIdx.our := by rw [fr2, e0]; rfl
      have hcs : csOf s r = [SMsg.sig (s.rt + 1) ix] := by simp [csOf, hsp, hr]
      have hcsx : (csOf s r).flatMap (expand s)
          = updRange s.rtIdx.our (ix.our - s.rtIdx.our) ++ [SMsg.sig (s.rt + 1) ix] := by
        rw [hcs]; simp [expand_sig]
      have hrvx := expand_rv s r
      have hrv : ∀ l, l = rvOf s r → l.filter SMsg.notUpd = l ∧ nFresh l = 0 ∧ hasSig l = false ∧
          (∀ k, freshIdxOk k l = true) := by
        intro l hl'; subst hl'; unfold rvOf
        split <;> simp [SMsg.notUpd, SMsg.isRev, SMsg.isFresh, SMsg.isSig, freshIdxOk]
      obtain ⟨v1, v2, v3, v4⟩ := hrv _ rfl
      have hq : (owed s r).flatMap (expand s) =
          if s.lwr then (updRange s.rtIdx.our (ix.our - s.rtIdx.our) ++ [SMsg.sig (s.rt + 1) ix]) ++ rvOf s r
          else rvOf s r ++ (updRange s.rtIdx.our (ix.our - s.rtIdx.our) ++ [SMsg.sig (s.rt + 1) ix]) := by
        unfold owed
        cases s.lwr <;> simp only [Bool.false_eq_true, if_false, if_true, List.flatMap_append, hcsx, hrvx]
      have ho : owed s r = if s.lwr then [SMsg.sig (s.rt + 1) ix] ++ rvOf s r
          else rvOf s r ++ [SMsg.sig (s.rt + 1) ix] := by
        unfold owed; rw [hcs]
      rw [hq]
      refine ⟨?_, ?_, ?_, ?_, w1, w2, w3, w4⟩
      · rw [ho]
        cases s.lwr <;> simp [List.filter_append, v1, SMsg.notUpd, SMsg.isSig]
      · cases s.lwr <;> simp [v2, SMsg.isFresh] <;> omega
      · cases s.lwr <;> simp [freshIdxOk_append, v4, v2, hri, freshIdxOk]
      · intro ix' h1 _
        rw [hsp] at h1; cases h1
        cases s.lwr
        · simp only [Bool.false_eq_true, if_false]
          rw [freshBeforeSig_append_nosig _ _ v3, freshBeforeSig_append_nosig _ _ (hasSig_updRange _ _)]
          simp [v2, freshBeforeSig]; omega
        · simp only [if_true, List.append_assoc]
          rw [freshBeforeSig_append_nosig _ _ (hasSig_updRange _ _)]
          simp [freshBeforeSig]; omega
    · -- the peer has already revoked for the pending commitment
      have hr1 : r.lt = s.rt + 1 := by omega
      obtain ⟨ix', e1, e2⟩ := w4 hr1
      rw [hsp] at e1; cases e1
      have hri : r.rIdx = ix.our := by rw [fr2, e2]; rfl
      have hcs : csOf s r = [] := by simp [csOf, hsp, hr]
      have hq : (owed s r).flatMap (expand s) = rvOf s r := by
        simp only [owed, hcs, List.append_nil, List.nil_append, ite_self]
        exact expand_rv s r
      rw [hq]
      have hrvq : ∀ l, l = rvOf s r → l.filter SMsg.notUpd = l ∧ nFresh l = 0 ∧
          (∀ k, freshIdxOk k l = true) := by
        intro l hl'; subst hl'; unfold rvOf; split <;> simp [SMsg.notUpd, SMsg.isRev, SMsg.isFresh, freshIdxOk]
      obtain ⟨q1, q2, q3⟩ := hrvq _ rfl
      refine ⟨?_, ?_, q3 _, ?_, w1, w2, w3, w4⟩
      · rw [q1]; simp [owed, hcs]
      · rw [q2, hri, fs1]; rfl
      · intro ix'' _ h2; exact absurd h2 hr

end LndModel.C03
