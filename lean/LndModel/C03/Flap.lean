/-
C03 — in-process link flap with a mailbox that outlives the link, and completion of the
resynchronisation (definitions and helper lemmas; the property theorems are in `FlapProps.lean`).

Part A.  In lnd a channel link can be torn down and re-created inside one process (peer
reconnect).  The link's mailbox survives; messages the peer object already read off the old
connection but the old link never consumed are still in it.  `channelLink.Start` calls
`mailBox.ResetMessages()`: messages of an earlier connection epoch are never delivered to a
later epoch's link.  `FSys` adds the two mailboxes (with a ghost epoch tag per message) in front
of the `SSys` of `Model.lean`; `FSys.fstep reset` is the step function with (`reset = true`) or
without that rule.

Part B.  `SSys.drain`: just deliver what is in flight (link discipline, no new actions) until
both queues are empty; the weight of the queues is the termination measure.
-/
import LndModel.C03.Props

namespace LndModel.C03

/-! ## Part A: the system with mailboxes -/

structure FSys where
  /-- both nodes and the two wire queues (`s.ab` / `s.ba`: on the wire, not yet read by the
      receiving peer object). -/
  s : SSys := {}
  /-- ghost: connection epoch. -/
  epoch : Nat := 0
  /-- mailbox of A's link (messages from B), oldest first; ghost tag = epoch of arrival. -/
  mbA : List (Nat × SMsg) := []
  /-- mailbox of B's link (messages from A). -/
  mbB : List (Nat × SMsg) := []
deriving Repr, Inhabited

inductive FStep where
  | updA (f : Bool) | updB (f : Bool) | signA | signB
  /-- the oldest wire message is read by the receiving peer object and appended to the
      receiver link's mailbox, tagged with the current epoch. -/
  | arriveAB | arriveBA
  /-- the link takes the oldest mailbox message and processes it under the link discipline
      (a commitment_signed is revoked for at once). -/
  | consumeA | consumeB
  /-- the connection drops: wire queues lost, both nodes reload, epoch + 1, (with the reset
      rule) both mailboxes emptied, then both process the peer's channel_reestablish. -/
  | flap (c : SyncCfg)
deriving Repr

/-- the link of B processes `m`: receive, and revoke at once if it is a signature. -/
def SSys.linkRecvB (s : SSys) (m : SMsg) : SSys :=
  if m.isSig then ({ s with b := s.b.recv m } : SSys).actB .revoke else { s with b := s.b.recv m }

def SSys.linkRecvA (s : SSys) (m : SMsg) : SSys :=
  if m.isSig then ({ s with a := s.a.recv m } : SSys).actA .revoke else { s with a := s.a.recv m }

/-- one step; `reset` = the mailboxes are emptied when the link restarts (`ResetMessages`).
    A resynchronisation that fails leaves the system where it is, as in `SSys.lstep`. -/
def FSys.fstep (reset : Bool) (f : FSys) : FStep → FSys
  | .updA x => { f with s := f.s.actA (.upd x) }
  | .updB x => { f with s := f.s.actB (.upd x) }
  | .signA => { f with s := f.s.actA .sign }
  | .signB => { f with s := f.s.actB .sign }
  | .arriveAB =>
    match f.s.ab with
    | [] => f
    | m :: rest => { f with s := { f.s with ab := rest }, mbB := f.mbB ++ [(f.epoch, m)] }
  | .arriveBA =>
    match f.s.ba with
    | [] => f
    | m :: rest => { f with s := { f.s with ba := rest }, mbA := f.mbA ++ [(f.epoch, m)] }
  | .consumeB =>
    match f.mbB with
    | [] => f
    | p :: rest => { f with s := f.s.linkRecvB p.2, mbB := rest }
  | .consumeA =>
    match f.mbA with
    | [] => f
    | p :: rest => { f with s := f.s.linkRecvA p.2, mbA := rest }
  | .flap c =>
    match f.s.dropReload.resync c with
    | .ok s' => { s := s', epoch := f.epoch + 1,
                  mbA := if reset then [] else f.mbA, mbB := if reset then [] else f.mbB }
    | .error _ => f

def FSys.frun (reset : Bool) (f : FSys) (steps : List FStep) : FSys :=
  steps.foldl (FSys.fstep reset) f

def FSys.init : FSys := {}

/-- what the model of `Model.lean` sees: mailbox content followed by the wire. -/
def FSys.proj (f : FSys) : SSys :=
  { f.s with ab := f.mbB.map (·.2) ++ f.s.ab, ba := f.mbA.map (·.2) ++ f.s.ba }

/-- every message waiting in a mailbox arrived in the current epoch. -/
def FSys.NoStale (f : FSys) : Prop :=
  (∀ p ∈ f.mbA, p.1 = f.epoch) ∧ (∀ p ∈ f.mbB, p.1 = f.epoch)

/-! ### helper lemmas -/

theorem lrun_append (s : SSys) (x y : List LStep) : s.lrun (x ++ y) = (s.lrun x).lrun y := by
  simp [SSys.lrun, List.foldl_append]

theorem frun_cons (r : Bool) (f : FSys) (x : FStep) (xs : List FStep) :
    f.frun r (x :: xs) = (f.fstep r x).frun r xs := rfl

theorem proj_init : FSys.init.proj = SSys.init := rfl

/-- `dropReload` does not look at the queues. -/
theorem proj_dropReload (f : FSys) : f.proj.dropReload = f.s.dropReload := rfl

theorem proj_lcutPre (f : FSys) : f.proj.lcutPre 0 0 = f.s.dropReload := rfl

theorem proj_a (f : FSys) : f.proj.a = f.s.a := rfl
theorem proj_b (f : FSys) : f.proj.b = f.s.b := rfl

theorem proj_of_empty (f : FSys) (hA : f.mbA = []) (hB : f.mbB = []) : f.proj = f.s := by
  cases f with
  | mk s e mbA mbB =>
    simp only at hA hB; subst hA; subst hB
    cases s; rfl

theorem proj_actA (f : FSys) (x : SAct) :
    ({ f with s := f.s.actA x } : FSys).proj = f.proj.actA x := by
  cases f with
  | mk s e mbA mbB => cases s; simp [FSys.proj, SSys.actA]

theorem proj_actB (f : FSys) (x : SAct) :
    ({ f with s := f.s.actB x } : FSys).proj = f.proj.actB x := by
  cases f with
  | mk s e mbA mbB => cases s; simp [FSys.proj, SSys.actB]

theorem proj_arriveAB (r : Bool) (f : FSys) : (f.fstep r .arriveAB).proj = f.proj := by
  cases f with
  | mk s e mbA mbB =>
    cases s with
    | mk a b ab ba => cases ab <;> simp [FSys.fstep, FSys.proj]

theorem proj_arriveBA (r : Bool) (f : FSys) : (f.fstep r .arriveBA).proj = f.proj := by
  cases f with
  | mk s e mbA mbB =>
    cases s with
    | mk a b ab ba => cases ba <;> simp [FSys.fstep, FSys.proj]

/-- consuming the oldest mailbox message is the disciplined delivery of the model. -/
theorem proj_consumeB (r : Bool) (f : FSys) (h : f.mbB ≠ []) :
    (f.fstep r .consumeB).proj = f.proj.dlvRevAB := by
  cases f with
  | mk s e mbA mbB =>
    cases s with
    | mk a b ab ba =>
      cases mbB with
      | nil => exact absurd rfl h
      | cons p rest =>
        by_cases hm : p.2.isSig = true
        · simp [FSys.fstep, FSys.proj, SSys.dlvRevAB, SSys.dlvAB, SSys.linkRecvB, SSys.actB, hm]
        · simp [FSys.fstep, FSys.proj, SSys.dlvRevAB, SSys.dlvAB, SSys.linkRecvB, hm]

theorem proj_consumeA (r : Bool) (f : FSys) (h : f.mbA ≠ []) :
    (f.fstep r .consumeA).proj = f.proj.dlvRevBA := by
  cases f with
  | mk s e mbA mbB =>
    cases s with
    | mk a b ab ba =>
      cases mbA with
      | nil => exact absurd rfl h
      | cons p rest =>
        by_cases hm : p.2.isSig = true
        · simp [FSys.fstep, FSys.proj, SSys.dlvRevBA, SSys.dlvBA, SSys.linkRecvA, SSys.actA, hm]
        · simp [FSys.fstep, FSys.proj, SSys.dlvRevBA, SSys.dlvBA, SSys.linkRecvA, hm]

/-- nothing to consume: nothing happens. -/
theorem consumeB_empty (r : Bool) (f : FSys) (h : f.mbB = []) : f.fstep r .consumeB = f := by
  simp [FSys.fstep, h]

theorem consumeA_empty (r : Bool) (f : FSys) (h : f.mbA = []) : f.fstep r .consumeA = f := by
  simp [FSys.fstep, h]

/-- with the reset rule a flap is a `cut` of the model that delivers nothing more. -/
theorem proj_flap (f : FSys) (c : SyncCfg) :
    (f.fstep true (.flap c)).proj = f.proj.lstep (.cut c 0 0) := by
  simp only [SSys.lstep, proj_lcutPre, FSys.fstep]
  cases h : f.s.dropReload.resync c with
  | error e => rfl
  | ok s' => cases s'; simp [FSys.proj]

theorem fstep_proj_lrun (f : FSys) (x : FStep) :
    ∃ ls : List LStep, (f.fstep true x).proj = f.proj.lrun ls := by
  cases x with
  | updA b => exact ⟨[.updA b], proj_actA f _⟩
  | updB b => exact ⟨[.updB b], proj_actB f _⟩
  | signA => exact ⟨[.signA], proj_actA f _⟩
  | signB => exact ⟨[.signB], proj_actB f _⟩
  | arriveAB => exact ⟨[], proj_arriveAB true f⟩
  | arriveBA => exact ⟨[], proj_arriveBA true f⟩
  | consumeA =>
    by_cases h : f.mbA = []
    · exact ⟨[], by rw [consumeA_empty true f h]; rfl⟩
    · exact ⟨[.dlvBA], proj_consumeA true f h⟩
  | consumeB =>
    by_cases h : f.mbB = []
    · exact ⟨[], by rw [consumeB_empty true f h]; rfl⟩
    · exact ⟨[.dlvAB], proj_consumeB true f h⟩
  | flap c => exact ⟨[.cut c 0 0], proj_flap f c⟩

theorem frun_proj_lrun (steps : List FStep) :
    ∀ f : FSys, ∃ ls : List LStep, (f.frun true steps).proj = f.proj.lrun ls := by
  induction steps with
  | nil => intro f; exact ⟨[], rfl⟩
  | cons x rest ih =>
    intro f
    obtain ⟨l1, h1⟩ := fstep_proj_lrun f x
    obtain ⟨l2, h2⟩ := ih (f.fstep true x)
    exact ⟨l1 ++ l2, by rw [frun_cons, h2, h1, lrun_append]⟩

theorem inv2_frun (steps : List FStep) : Inv2 (FSys.init.frun true steps).proj := by
  obtain ⟨ls, h⟩ := frun_proj_lrun steps FSys.init
  rw [h]; exact inv2_lrun ls _ inv2_init

/-! ### the epoch tags -/

theorem noStale_fstep (f : FSys) (x : FStep) (h : f.NoStale) : (f.fstep true x).NoStale := by
  obtain ⟨hA, hB⟩ := h
  cases x with
  | updA b => exact ⟨hA, hB⟩
  | updB b => exact ⟨hA, hB⟩
  | signA => exact ⟨hA, hB⟩
  | signB => exact ⟨hA, hB⟩
  | arriveAB =>
    simp only [FSys.fstep]
    cases hq : f.s.ab with
    | nil => exact ⟨hA, hB⟩
    | cons m rest =>
      refine ⟨hA, ?_⟩
      intro p hp
      simp only [List.mem_append, List.mem_singleton] at hp
      cases hp with
      | inl h1 => exact hB p h1
      | inr h1 => rw [h1]
  | arriveBA =>
    simp only [FSys.fstep]
    cases hq : f.s.ba with
    | nil => exact ⟨hA, hB⟩
    | cons m rest =>
      refine ⟨?_, hB⟩
      intro p hp
      simp only [List.mem_append, List.mem_singleton] at hp
      cases hp with
      | inl h1 => exact hA p h1
      | inr h1 => rw [h1]
  | consumeB =>
    simp only [FSys.fstep]
    cases hq : f.mbB with
    | nil => exact ⟨hA, hB⟩
    | cons p rest =>
      refine ⟨hA, ?_⟩
      intro p' hp
      exact hB p' (by rw [hq]; exact List.mem_cons_of_mem _ hp)
  | consumeA =>
    simp only [FSys.fstep]
    cases hq : f.mbA with
    | nil => exact ⟨hA, hB⟩
    | cons p rest =>
      refine ⟨?_, hB⟩
      intro p' hp
      exact hA p' (by rw [hq]; exact List.mem_cons_of_mem _ hp)
  | flap c =>
    simp only [FSys.fstep]
    cases hq : f.s.dropReload.resync c with
    | error e => exact ⟨hA, hB⟩
    | ok s' => refine ⟨?_, ?_⟩ <;> intro p hp <;> simp at hp

theorem noStale_frun (steps : List FStep) : ∀ f : FSys, f.NoStale → (f.frun true steps).NoStale := by
  induction steps with
  | nil => intro f h; exact h
  | cons x rest ih => intro f h; exact ih _ (noStale_fstep f x h)

theorem noStale_init : FSys.init.NoStale :=
  ⟨fun _ hp => (by cases hp), fun _ hp => (by cases hp)⟩

/-! ## Part B: the resumed exchange terminates -/

def SMsg.weight (m : SMsg) : Nat := if m.isSig then 2 else 1

def qWeight (q : List SMsg) : Nat := (q.map SMsg.weight).sum

def SSys.weight (s : SSys) : Nat := qWeight s.ab + qWeight s.ba

/-- deliver the oldest message in flight (a → b first), revoking at once for a signature. -/
def SSys.drainStep (s : SSys) : SSys :=
  match s.ab with
  | [] => s.dlvRevBA
  | _ :: _ => s.dlvRevAB

def SSys.drain : Nat → SSys → SSys
  | 0, s => s
  | n + 1, s => SSys.drain n s.drainStep

@[simp] theorem qWeight_nil : qWeight [] = 0 := rfl

@[simp] theorem qWeight_cons (m : SMsg) (q : List SMsg) : qWeight (m :: q) = m.weight + qWeight q := by
  simp [qWeight]

@[simp] theorem qWeight_append (p q : List SMsg) : qWeight (p ++ q) = qWeight p + qWeight q := by
  simp [qWeight]

theorem weight_pos (m : SMsg) : 0 < m.weight := by
  unfold SMsg.weight; split <;> omega

/-- a revocation (if any) weighs one. -/
theorem qWeight_revoke (n : SNode) : qWeight (n.act .revoke).2.toList ≤ 1 := by
  simp only [SNode.act, SNode.doRevoke]
  cases n.lp with
  | nil => simp
  | cons c rest => simp [SMsg.weight, SMsg.isSig]

theorem weight_dlvRevAB (s : SSys) (m : SMsg) (rest : List SMsg) (h : s.ab = m :: rest) :
    s.dlvRevAB.weight < s.weight := by
  cases s with
  | mk a b ab ba =>
    simp only at h; subst h
    by_cases hm : m.isSig = true
    · have := qWeight_revoke (b.recv m)
      simp only [SSys.dlvRevAB, SSys.dlvAB, SSys.actB, SSys.weight, hm, if_true, qWeight_cons,
        qWeight_append, SMsg.weight]
      omega
    · have := weight_pos m
      simp only [SSys.dlvRevAB, SSys.dlvAB, SSys.weight, hm, qWeight_cons]
      simp only [Bool.false_eq_true, if_false]
      omega

theorem weight_dlvRevBA (s : SSys) (m : SMsg) (rest : List SMsg) (h : s.ba = m :: rest) :
    s.dlvRevBA.weight < s.weight := by
  cases s with
  | mk a b ab ba =>
    simp only at h; subst h
    by_cases hm : m.isSig = true
    · have := qWeight_revoke (a.recv m)
      simp only [SSys.dlvRevBA, SSys.dlvBA, SSys.actA, SSys.weight, hm, if_true, qWeight_cons,
        qWeight_append, SMsg.weight]
      omega
    · have := weight_pos m
      simp only [SSys.dlvRevBA, SSys.dlvBA, SSys.weight, hm, qWeight_cons]
      simp only [Bool.false_eq_true, if_false]
      omega

theorem weight_drainStep (s : SSys) (h : s.ab ≠ [] ∨ s.ba ≠ []) :
    s.drainStep.weight < s.weight := by
  unfold SSys.drainStep
  cases hab : s.ab with
  | cons m rest => exact weight_dlvRevAB s m rest hab
  | nil =>
    cases hba : s.ba with
    | cons m rest => exact weight_dlvRevBA s m rest hba
    | nil => rw [hab, hba] at h; cases h with
      | inl h => exact absurd rfl h
      | inr h => exact absurd rfl h

theorem drainStep_of_empty (s : SSys) (hab : s.ab = []) (hba : s.ba = []) : s.drainStep = s := by
  simp [SSys.drainStep, SSys.dlvRevBA, hab, hba]

theorem drain_empties_le : ∀ (n : Nat) (s : SSys), s.weight ≤ n →
    (SSys.drain n s).ab = [] ∧ (SSys.drain n s).ba = [] := by
  intro n
  induction n with
  | zero =>
    intro s h
    cases hab : s.ab with
    | cons m rest =>
      have := weight_pos m
      simp only [SSys.weight, hab, qWeight_cons] at h; omega
    | nil =>
      cases hba : s.ba with
      | cons m rest =>
        have := weight_pos m
        simp only [SSys.weight, hba, qWeight_cons] at h; omega
      | nil => exact ⟨hab, hba⟩
  | succ n ih =>
    intro s h
    show (SSys.drain n s.drainStep).ab = [] ∧ (SSys.drain n s.drainStep).ba = []
    by_cases he : s.ab = [] ∧ s.ba = []
    · rw [drainStep_of_empty s he.1 he.2]
      have h0 : s.weight = 0 := by simp [SSys.weight, he.1, he.2]
      exact ih s (by omega)
    · have hne : s.ab ≠ [] ∨ s.ba ≠ [] := by
        by_cases h1 : s.ab = []
        · exact Or.inr (fun h2 => he ⟨h1, h2⟩)
        · exact Or.inl h1
      have := weight_drainStep s hne
      exact ih _ (by omega)

theorem drainStep_lstep (s : SSys) : ∃ x : LStep, (x = .dlvAB ∨ x = .dlvBA) ∧ s.drainStep = s.lstep x := by
  unfold SSys.drainStep
  cases s.ab with
  | nil => exact ⟨.dlvBA, Or.inr rfl, rfl⟩
  | cons m rest => exact ⟨.dlvAB, Or.inl rfl, rfl⟩

theorem drain_lrun (n : Nat) : ∀ s : SSys,
    ∃ ls : List LStep, (∀ x ∈ ls, x = .dlvAB ∨ x = .dlvBA) ∧ SSys.drain n s = s.lrun ls := by
  induction n with
  | zero => intro s; exact ⟨[], fun _ hx => (by cases hx), rfl⟩
  | succ n ih =>
    intro s
    obtain ⟨x, hx, e1⟩ := drainStep_lstep s
    obtain ⟨ls, hls, e2⟩ := ih s.drainStep
    refine ⟨x :: ls, ?_, ?_⟩
    · intro y hy
      cases hy with
      | head => exact hx
      | tail _ h => exact hls y h
    · show SSys.drain n s.drainStep = (s.lstep x).lrun ls
      rw [e2, e1]

/-! ### nested cuts -/

/-- the cuts `cs`, applied back to back starting from `s` (each one hits the resynchronisation
    of the previous one), all succeed. -/
def CutsOk : SSys → List (SyncCfg × Nat × Nat) → Prop
  | _, [] => True
  | s, (c, kA, kB) :: rest => ∃ s', (s.lcutPre kA kB).resync c = .ok s' ∧ CutsOk s' rest

/-- ... and end in `t`. -/
def CutsTo : SSys → List (SyncCfg × Nat × Nat) → SSys → Prop
  | s, [], t => s = t
  | s, (c, kA, kB) :: rest, t => ∃ s', (s.lcutPre kA kB).resync c = .ok s' ∧ CutsTo s' rest t

/-- the cuts as steps of the disciplined system. -/
def cutSteps (cs : List (SyncCfg × Nat × Nat)) : List LStep :=
  cs.map (fun x => LStep.cut x.1 x.2.1 x.2.2)

theorem cutsOk_of_inv2 : ∀ (cs : List (SyncCfg × Nat × Nat)) (s : SSys), Inv2 s → CutsOk s cs := by
  intro cs
  induction cs with
  | nil => intro s _; exact True.intro
  | cons x rest ih =>
    intro s h
    obtain ⟨c, kA, kB⟩ := x
    have hw := invW2_lcutPre s kA kB h
    exact ⟨_, resync_spec c _ hw.1, ih _ (inv2_resync _ hw)⟩

theorem cutsTo_of_inv2 : ∀ (cs : List (SyncCfg × Nat × Nat)) (s : SSys), Inv2 s →
    CutsTo s cs (s.lrun (cutSteps cs)) := by
  intro cs
  induction cs with
  | nil => intro s _; exact rfl
  | cons x rest ih =>
    intro s h
    obtain ⟨c, kA, kB⟩ := x
    have hw := invW2_lcutPre s kA kB h
    have e : s.lstep (.cut c kA kB) =
        { a := syncNode (s.lcutPre kA kB).a (s.lcutPre kA kB).b,
          b := syncNode (s.lcutPre kA kB).b (s.lcutPre kA kB).a,
          ab := syncOut (s.lcutPre kA kB).a (s.lcutPre kA kB).b,
          ba := syncOut (s.lcutPre kA kB).b (s.lcutPre kA kB).a } := by
      simp only [SSys.lstep, resync_spec c _ hw.1]
    refine ⟨_, resync_spec c _ hw.1, ?_⟩
    have := ih _ (inv2_resync _ hw)
    show CutsTo _ rest ((s.lstep (.cut c kA kB)).lrun (cutSteps rest))
    rw [e]; exact this

end LndModel.C03
