/-
C03 — the index invariant through disciplined deliveries, reconnections and the whole
L-system (`SSys.lrun`).
-/
import LndModel.C03.Conv

namespace LndModel.C03

/-! ## one disciplined delivery -/

theorem dlvRevAB_sig (a b : SNode) (ab ba : List SMsg) (hh : Nat) (ix : Idx) (hlp : b.lp = []) :
    (SSys.mk a b (SMsg.sig hh ix :: ab) ba).dlvRevAB
      = ⟨a, revAfterSig b, ab, ba ++ [SMsg.rev b.lt]⟩ := by
  simp [SSys.dlvRevAB, SMsg.isSig, SSys.dlvAB, SSys.actB, SNode.act, recv_sig_revoke hlp]

/-- every disciplined delivery keeps the invariant, and the real receiver's checks
    (`accepts`: update id, signature over its own construction, pending commitment to revoke)
    pass on the delivered message. -/
theorem inv2_dlvRevAB (s : SSys) (h : Inv2 s) :
    Inv2 s.dlvRevAB ∧ (∀ m rest, s.ab = m :: rest → s.b.accepts m = true) := by
  obtain ⟨h0, h1, h2, h3, h4, h5, h6⟩ := h
  cases s with
  | mk a b ab ba =>
  simp only at h0 h1 h2 h3 h4 h5 h6
  cases ab with
  | nil => exact ⟨⟨h0, h1, h2, h3, h4, h5, h6⟩, by intro m rest hm; cases hm⟩
  | cons m rest =>
    have hb : b.rt = a.lt ∨ b.rt + 1 = a.lt := by
      have := h0.1.revs; have := h0.1.sigs; have := tipH_le b
      simp only at *; omega
    cases m with
    | upd i =>
      have hd : (SSys.mk a b (SMsg.upd i :: rest) ba).dlvRevAB = ⟨a, b.recv (.upd i), rest, ba⟩ := by
        simp [SSys.dlvRevAB, SMsg.isSig, SSys.dlvAB]
      obtain ⟨m1, acc⟩ := mir_recv_upd h3
      have hi := inv_dlvAB _ h0
      simp only [SSys.dlvAB] at hi
      rw [hd]
      refine ⟨⟨hi, h1, ?_, m1, ?_, h5, loc_recv_upd h6 i⟩, ?_⟩
      · cases i <;> exact h2
      · cases i
        · exact mir_congr_s (s := b) rfl rfl rfl rfl rfl rfl rfl h4
        · exact mir_congr_s (s := b) rfl rfl rfl rfl rfl rfl rfl h4
      · intro m' rest' hm; cases hm; exact acc
    | rev hh =>
      have hd : (SSys.mk a b (SMsg.rev hh :: rest) ba).dlvRevAB = ⟨a, b.recvRev, rest, ba⟩ := by
        simp [SSys.dlvRevAB, SMsg.isSig, SSys.dlvAB, SNode.recv]
      have hlt : a.lt = b.rt + 1 := by
        have := h0.1.revs; have := h0.1.sigs; have := tipH_le b
        simp [SMsg.isRev] at *; omega
      obtain ⟨ixr, hrp⟩ := rp_some_of_tipH (n := b) (by
        have := h0.1.sigs; simp only at this; omega)
      obtain ⟨m1, m2, acc⟩ := mir_recv_rev h3 h4 hlt hrp
      have hi := inv_dlvAB _ h0
      simp only [SSys.dlvAB, SNode.recv] at hi
      rw [hd]
      refine ⟨⟨hi, h1, ?_, m1, m2, h5, loc_recvRev h6⟩, ?_⟩
      · simpa [SNode.recvRev, hrp] using h2
      · intro m' rest' hm; cases hm; exact acc
    | sig hh ix =>
      rw [dlvRevAB_sig a b rest ba hh ix h2]
      obtain ⟨m1, m2, acc⟩ := mir_recv_sig h3 h4 h2 hb
      have hi := inv_actB _ .revoke (inv_dlvAB _ h0)
      simp only [SSys.dlvAB, SSys.actB, SNode.act, recv_sig_revoke h2, Option.toList] at hi
      refine ⟨⟨hi, h1, rfl, m1, m2, h5, loc_revAfterSig h6⟩, ?_⟩
      intro m' rest' hm; cases hm; exact acc

theorem dlvRevBA_swap (s : SSys) : s.dlvRevBA = s.swap.dlvRevAB.swap := by
  cases s with
  | mk a b ab ba =>
    cases ba with
    | nil => simp [SSys.dlvRevBA, SSys.dlvRevAB, SSys.swap]
    | cons m rest =>
      by_cases hm : m.isSig = true
      · simp [SSys.dlvRevBA, SSys.dlvRevAB, SSys.swap, hm, SSys.dlvBA, SSys.dlvAB, SSys.actA, SSys.actB]
      · simp [SSys.dlvRevBA, SSys.dlvRevAB, SSys.swap, hm, SSys.dlvBA, SSys.dlvAB]

theorem inv2_dlvRevBA (s : SSys) (h : Inv2 s) :
    Inv2 s.dlvRevBA ∧ (∀ m rest, s.ba = m :: rest → s.a.accepts m = true) := by
  have := inv2_dlvRevAB s.swap ((inv2_swap s).2 h)
  rw [dlvRevBA_swap, inv2_swap]
  exact this

theorem inv2_dlvRevABn (k : Nat) : ∀ s : SSys, Inv2 s → Inv2 (SSys.dlvRevABn k s) := by
  induction k with
  | zero => intro s h; exact h
  | succ k ih => intro s h; exact ih _ (inv2_dlvRevAB s h).1

theorem inv2_dlvRevBAn (k : Nat) : ∀ s : SSys, Inv2 s → Inv2 (SSys.dlvRevBAn k s) := by
  induction k with
  | zero => intro s h; exact h
  | succ k ih => intro s h; exact ih _ (inv2_dlvRevBA s h).1

end LndModel.C03
