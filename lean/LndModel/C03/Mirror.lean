/-
C03 — the index-level cross-node invariant under the link discipline (a received
commitment_signed is revoked for before anything else is handled): executable form, evaluated by
the driver on every real trace, and the `Prop` the theorems of `Props.lean` use.
-/
import LndModel.C03.Lemmas

namespace LndModel.C03

def Idx.swap (i : Idx) : Idx := ⟨i.their, i.our⟩

def SMsg.isFresh : SMsg → Bool
  | .upd (some _) => true
  | _ => false

def SMsg.notUpd (m : SMsg) : Bool := m.isSig || m.isRev

def nFresh (q : List SMsg) : Nat := q.countP SMsg.isFresh

/-- number of entry-creating updates in front of the first signature. -/
def freshBeforeSig : List SMsg → Nat
  | [] => 0
  | .sig _ _ :: _ => 0
  | m :: q => (if m.isFresh then 1 else 0) + freshBeforeSig q

/-- the entry-creating updates of the queue carry consecutive log indices from `k`. -/
def freshIdxOk : Nat → List SMsg → Bool
  | _, [] => true
  | k, .upd (some i) :: q => i == k && freshIdxOk (k + 1) q
  | k, _ :: q => freshIdxOk k q

/-- what relates sender `s` (tracking `r`'s local chain), receiver `r` and the queue `q` from
    `s` to `r`. -/
def mirOk (s r : SNode) (q : List SMsg) : Bool :=
  -- everything owed is in flight, in the order it was sent
  (q.filter SMsg.notUpd == owed s r) &&
  -- no update lost or duplicated
  (r.rIdx + nFresh q == s.lIdx) && freshIdxOk r.rIdx q &&
  -- the pending signature, while the receiver has not revoked for it
  (match s.rp with
   | some ix =>
     if r.lt == s.rt then
       (r.rIdx + freshBeforeSig q == ix.our) &&
       (if s.lwr then r.rt + 1 == s.lt && ix.their == r.rtIdx.our else ix.their == s.ltIdx.their)
     else true
   | none => true) &&
  -- the receiver's lowest unrevoked commitment is the sender's view of it, mirrored
  (if r.lt == s.rt then r.ltIdx == s.rtIdx.swap else true) &&
  (if r.lt == s.rt + 1 then (match s.rp with | some ix => r.ltIdx == ix.swap | none => false) else true)

/-- the clauses of `mirOk` one by one (diagnostics). -/
def mirClauses (s r : SNode) (q : List SMsg) : List Bool :=
  [q.filter SMsg.notUpd == owed s r,
   r.rIdx + nFresh q == s.lIdx, freshIdxOk r.rIdx q,
   (match s.rp with
    | some ix => if r.lt == s.rt then r.rIdx + freshBeforeSig q == ix.our else true
    | none => true),
   (match s.rp with
    | some ix => if r.lt == s.rt then
        (if s.lwr then r.rt + 1 == s.lt && ix.their == r.rtIdx.our else ix.their == s.ltIdx.their) else true
    | none => true),
   (if r.lt == s.rt then r.ltIdx == s.rtIdx.swap else true),
   (if r.lt == s.rt + 1 then (match s.rp with | some ix => r.ltIdx == ix.swap | none => false) else true)]

def inv2Ok (s : SSys) : Bool :=
  s.a.lp.isEmpty && s.b.lp.isEmpty && mirOk s.a s.b s.ab && mirOk s.b s.a s.ba

end LndModel.C03
