/-
C19 helper lemmas: the executable checker implies the Prop-level clauses; Go
wrap-around arithmetic coincides with unbounded arithmetic under the `Fits`
hypotheses; soundness of the unbounded route construction `buildI`.
-/
import LndModel.C19.Spec

namespace LndModel.C19

/-! ### checker → specification -/

theorem hopOK_valid {g : Graph} {r : Req} {last : Bool} {cur amtIn : Nat} {h : Hop}
    (H : hopOK g r last cur amtIn h = true) : HopValid g r last cur amtIn h := by
  unfold hopOK at H
  split at H
  · simp at H
  · rename_i p cap hp
    simp only [Bool.and_eq_true, Bool.or_eq_true, amtFits, decide_eq_true_eq,
      beq_iff_eq, Bool.not_eq_eq_eq_not, Bool.not_true] at H
    obtain ⟨⟨⟨⟨⟨⟨h1, ⟨⟨h2, h3⟩, h4⟩⟩, h5⟩, h6⟩, h7⟩, h8⟩, h9⟩ := H
    refine ⟨p, cap, hp, ?_, h2, ?_, ?_, ?_, ?_, ?_, ?_, ?_⟩
    · intro hne
      rcases h1 with h1 | h1
      · exact absurd h1 hne
      · simpa using h1
    · intro hm
      rcases h3 with h3 | h3
      · simp [hm] at h3
      · exact h3
    · intro hc
      rcases h4 with h4 | h4
      · exact absurd h4 hc
      · exact h4
    · intro hs b hb
      rcases h5 with h5 | h5
      · simp [hs] at h5
      · simp [hb] at h5
        exact h5
    · intro hs hne
      rcases h6 with (h6 | h6) | h6
      · simp [hs] at h6
      · simp [List.isEmpty_iff] at h6
        exact absurd h6 hne
      · simpa using h6
    · intro hl l hlh
      rcases h7 with h7 | h7
      · simp [hl] at h7
      · simp [hlh] at h7
        exact h7
    · simpa using h8
    · simpa using h9

theorem fwdOK_valid {g : Graph} {prev : Nat} {hIn hOut : Hop} {amtIn tlIn : Nat}
    (H : fwdOK g prev hIn hOut amtIn tlIn = true) : FwdValid g prev hIn hOut amtIn tlIn := by
  unfold fwdOK at H
  split at H
  · simp at H
  · rename_i p cap hp
    simp only [Bool.and_eq_true, decide_eq_true_eq] at H
    exact ⟨p, cap, hp, H.1, H.2⟩

theorem chainOK_valid {g : Graph} {r : Req} : ∀ {hops : List Hop} {cur amtIn tlIn : Nat},
    chainOK g r cur amtIn tlIn hops = true →
    HopsValid g r cur amtIn hops ∧ FeesValid g r.amt (r.height + r.finalDelta) cur amtIn tlIn hops
  | [], _, _, _, H => by simp [chainOK] at H
  | [h], cur, amtIn, tlIn, H => by
    simp only [chainOK, Bool.and_eq_true, beq_iff_eq] at H
    obtain ⟨⟨⟨⟨⟨h1, h2⟩, h3⟩, h4⟩, h5⟩, h6⟩ := H
    exact ⟨⟨hopOK_valid h1, h2⟩, h3, h4, h5, h6⟩
  | h :: h' :: rest, cur, amtIn, tlIn, H => by
    simp only [chainOK, Bool.and_eq_true] at H
    obtain ⟨⟨h1, h2⟩, h3⟩ := H
    have ih := chainOK_valid (hops := h' :: rest) h3
    exact ⟨⟨hopOK_valid h1, ih.1⟩, fwdOK_valid h2, ih.2⟩


/-! ### specification → checker -/

theorem hopOK_complete {g : Graph} {r : Req} {last : Bool} {cur amtIn : Nat} {h : Hop}
    (H : HopValid g r last cur amtIn h) : hopOK g r last cur amtIn h = true := by
  obtain ⟨p, cap, hdp, h1, h2, h3, h4, h5, h6, h7, h8, h9⟩ := H
  unfold hopOK
  rw [hdp]
  simp only [Bool.and_eq_true, Bool.or_eq_true, amtFits, decide_eq_true_eq, beq_iff_eq,
    Bool.not_eq_eq_eq_not, Bool.not_true]
  refine ⟨⟨⟨⟨⟨⟨?_, ⟨⟨h2, ?_⟩, ?_⟩⟩, ?_⟩, ?_⟩, ?_⟩, by simpa using h8⟩, by simpa using h9⟩
  · by_cases hs : cur = r.self
    · exact Or.inl hs
    · exact Or.inr (by simp [h1 hs])
  · cases hm : p.hasMax with
    | false => exact Or.inl rfl
    | true => exact Or.inr (h3 hm)
  · by_cases hc : cap = 0
    · exact Or.inl hc
    · exact Or.inr (h4 hc)
  · by_cases hs : cur = r.self
    · right
      cases hb : r.bwOf h.chan with
      | none => rfl
      | some b => simpa using h5 hs b hb
    · left; simpa using hs
  · by_cases hs : cur = r.self
    · by_cases he : r.outChans = []
      · left; right; simp [he]
      · right; simpa using h6 hs he
    · left; left; simpa using hs
  · cases last with
    | false => left; rfl
    | true =>
      right
      cases hl : r.lastHop with
      | none => rfl
      | some l => simpa using h7 rfl l hl

theorem fwdOK_complete {g : Graph} {prev : Nat} {hIn hOut : Hop} {amtIn tlIn : Nat}
    (H : FwdValid g prev hIn hOut amtIn tlIn) : fwdOK g prev hIn hOut amtIn tlIn = true := by
  obtain ⟨p, cap, hdp, h1, h2⟩ := H
  unfold fwdOK
  rw [hdp]
  simp only [Bool.and_eq_true, decide_eq_true_eq]
  exact ⟨h1, h2⟩

theorem chainOK_complete {g : Graph} {r : Req} : ∀ {hops : List Hop} {cur amtIn tlIn : Nat},
    HopsValid g r cur amtIn hops →
    FeesValid g r.amt (r.height + r.finalDelta) cur amtIn tlIn hops →
    chainOK g r cur amtIn tlIn hops = true
  | [], _, _, _, H, _ => by simp [HopsValid] at H
  | [h], cur, amtIn, tlIn, H, F => by
    obtain ⟨h1, h2⟩ := H
    obtain ⟨f1, f2, f3, f4⟩ := F
    simp only [chainOK, Bool.and_eq_true, beq_iff_eq]
    exact ⟨⟨⟨⟨⟨hopOK_complete h1, h2⟩, f1⟩, f2⟩, f3⟩, f4⟩
  | h :: h' :: rest, cur, amtIn, tlIn, H, F => by
    obtain ⟨h1, h2⟩ := H
    obtain ⟨f1, f2⟩ := F
    simp only [chainOK, Bool.and_eq_true]
    exact ⟨⟨hopOK_complete h1, fwdOK_complete f1⟩, chainOK_complete h2 f2⟩


/-! ### wrap-around elimination and `buildI` -/


theorem u64_of_lt {n : Nat} (h : n < 2 ^ 64) : u64 n = n := Nat.mod_eq_of_lt h
theorem u32_of_lt {n : Nat} (h : n < 2 ^ 32) : u32 n = n := Nat.mod_eq_of_lt h
theorem i64_of_range {z : Int} (h1 : -(2 ^ 63) ≤ z) (h2 : z < 2 ^ 63) : i64 z = z := by
  unfold i64; omega
theorem i32_of_range {z : Int} (h1 : -(2 ^ 31) ≤ z) (h2 : z < 2 ^ 31) : i32 z = z := by
  unfold i32; omega
theorem u64OfInt_of_nonneg {z : Int} (h1 : 0 ≤ z) (h2 : z < 2 ^ 64) : u64OfInt z = z.toNat := by
  unfold u64OfInt
  rw [Int.emod_eq_of_lt h1 h2]

/-- truncating division by a positive literal keeps the bound -/
theorem tdiv_bounds {x : Int} {B : Int} (hB : 0 ≤ B) (h1 : -B ≤ x) (h2 : x ≤ B) :
    -B ≤ Int.tdiv x 1000000 ∧ Int.tdiv x 1000000 ≤ B := by
  rcases Int.le_total 0 x with hx | hx
  · rw [Int.tdiv_eq_ediv_of_nonneg hx]
    omega
  · have : x = -(-x) := by omega
    rw [this, Int.neg_tdiv, Int.tdiv_eq_ediv_of_nonneg (by omega)]
    omega



theorem computeFee_eq {base rate a : Nat} (h1 : a * rate < 2 ^ 64)
    (h2 : base + a * rate / 1000000 < 2 ^ 64) :
    computeFee base rate a = computeFeeI base rate a := by
  unfold computeFee computeFeeI feeRateParts
  rw [u64_of_lt h1, u64_of_lt h2]

theorem calcInFee_eq {ib ir : Int} {n : Nat} (hn : n < 2 ^ 61)
    (hp : (clampRate ir).natAbs * n < 2 ^ 61) (hb1 : -(2 ^ 31) ≤ ib) (hb2 : ib < 2 ^ 31) :
    calcInFee ib ir n = calcInFeeI ib ir n ∧
      -(2 ^ 31) - 2 ^ 61 ≤ calcInFeeI ib ir n ∧ calcInFeeI ib ir n ≤ 2 ^ 31 + 2 ^ 61 := by
  unfold calcInFee calcInFeeI
  have hn' : i64 (n : Int) = n := i64_of_range (by omega) (by omega)
  rw [hn']
  generalize hP : clampRate ir * (n : Int) = P
  have hPabs : P.natAbs < 2 ^ 61 := by
    rw [← hP, Int.natAbs_mul, Int.natAbs_natCast]; exact hp
  have hP1 : -(2 ^ 61) ≤ P := by omega
  have hP2 : P ≤ 2 ^ 61 := by omega
  rw [i64_of_range (z := P) (by omega) (by omega)]
  have hb := tdiv_bounds (x := P) (B := 2 ^ 61) (by omega) hP1 hP2
  rw [i64_of_range (by omega) (by omega)]
  refine ⟨rfl, by omega, by omega⟩

theorem feeStep_eq {e e' : UEdge} {a : Nat} (h : StepFits e e' a) :
    feeStep e e' a = feeStepI e e' a ∧ a + feeStepI e e' a < 2 ^ 64 := by
  obtain ⟨h1, h2, h3, h4, h5⟩ := h
  unfold feeStep feeStepI
  dsimp only
  have hc : computeFee e'.base e'.rate a = computeFeeI e'.base e'.rate a := by
    apply computeFee_eq h1
    unfold computeFeeI feeRateParts at h2; omega
  rw [hc]
  generalize ho : computeFeeI e'.base e'.rate a = o at *
  rw [u64_of_lt (by omega)]
  obtain ⟨hi, hi1, hi2⟩ := calcInFee_eq (ib := e.inBase) (ir := e.inRate) (n := a + o) h2 h3 h4 h5
  rw [hi]
  generalize calcInFeeI e.inBase e.inRate (a + o) = f at *
  rw [i64_of_range (z := (o : Int)) (by omega) (by omega)]
  rw [i64_of_range (by omega) (by omega)]
  constructor
  · split <;> omega
  · omega


theorem build_eq : ∀ (es : List UEdge) {h amt fd : Nat}, Fits h amt fd es → es ≠ [] →
    build h amt fd es = buildI h amt fd es
  | [], _, _, _, _, hne => absurd rfl hne
  | [e], h, amt, fd, hf, _ => by
    obtain ⟨_, h2⟩ := hf
    simp only [build, buildI]
    rw [u32_of_lt (by omega)]
  | e :: e' :: rest, h, amt, fd, hf, _ => by
    obtain ⟨hf, hs, ht⟩ := hf
    have ih := build_eq (e' :: rest) hf (by simp)
    simp only [build, buildI]
    rw [ih]
    obtain ⟨h1, h2⟩ := feeStep_eq hs
    rw [h1, u64_of_lt h2, u32_of_lt (by omega)]

theorem newRoute_eq {src : Nat} {es : List UEdge} {h amt fd : Nat} (hf : Fits h amt fd es) :
    newRoute src es h amt fd = newRouteI src es h amt fd := by
  unfold newRoute newRouteI
  cases es with
  | nil => rfl
  | cons e rest => simp only [List.isEmpty_cons, Bool.false_eq_true, if_false]; rw [build_eq _ hf (by simp)]



theorem PathIn_head {g : Graph} {src : Nat} {e : UEdge} {rest : List UEdge}
    (h : PathIn g src (e :: rest)) : EdgeIn g e ∧ e.frm = src := by
  cases rest with
  | nil => exact h
  | cons e' rest => exact ⟨h.1, h.2.2.1⟩

theorem buildI_head (h amt fd : Nat) (e : UEdge) (rest : List UEdge) :
    ∃ hd tl, (buildI h amt fd (e :: rest)).1 = hd :: tl ∧ hd.chan = e.chan ∧ hd.to = e.to := by
  cases rest with
  | nil => exact ⟨_, _, rfl, rfl, rfl⟩
  | cons e' rest => exact ⟨_, _, rfl, rfl, rfl⟩

theorem requiredFee_eq_feeStepI {g : Graph} {e e' : UEdge} {p : Policy} {src a : Nat}
    (hb : e'.base = p.base) (hr : e'.rate = p.rate) (hi : InbIn g e) (hs : e.frm = src) :
    requiredFee p (g.inboundOf e.chan src e.to) a = feeStepI e e' a := by
  unfold requiredFee feeStepI
  unfold InbIn at hi
  rw [hs] at hi
  rw [← hi, hb, hr]

theorem buildI_fees (g : Graph) : ∀ (es : List UEdge) {src h amt fd : Nat}, PathIn g src es →
    FeesValid g amt (h + fd) src (buildI h amt fd es).2.1 (buildI h amt fd es).2.2
      (buildI h amt fd es).1
  | [], _, _, _, _, hp => by simp [PathIn] at hp
  | [e], src, h, amt, fd, _ => by simp [buildI, FeesValid]
  | e :: e' :: rest, src, h, amt, fd, hp => by
    obtain ⟨_, hinb, hfrm, hp'⟩ := hp
    have ih := buildI_fees g (e' :: rest) (h := h) (amt := amt) (fd := fd) hp'
    obtain ⟨hd, tl, hhd, hc, ht⟩ := buildI_head h amt fd e' rest
    obtain ⟨⟨p, cap, hdp, hb, hr, hdl⟩, hfrm'⟩ := PathIn_head hp'
    simp only [buildI]
    rw [hhd] at ih ⊢
    refine ⟨⟨p, cap, ?_, ?_, ?_⟩, ih⟩
    · rw [hc, ht]; simpa [hfrm'] using hdp
    · simp only
      rw [requiredFee_eq_feeStepI hb hr hinb hfrm]
      exact Nat.le_refl _
    · simp only
      omega

theorem fees_sums {g : Graph} {amt ftl : Nat} : ∀ {hops : List Hop} {cur amtIn tlIn : Nat},
    FeesValid g amt ftl cur amtIn tlIn hops →
    amtIn = amt + (hopFeesFrom amtIn hops).sum ∧ tlIn = ftl + (hopGapsFrom tlIn hops).sum
  | [], _, _, _, h => by simp [FeesValid] at h
  | [hp], cur, amtIn, tlIn, h => by
    obtain ⟨h1, h2, h3, h4⟩ := h
    simp [hopFeesFrom, hopGapsFrom, h1, h2, h3, h4]
  | hp :: hp' :: rest, cur, amtIn, tlIn, h => by
    obtain ⟨⟨p, cap, _, hfee, htl⟩, hrest⟩ := h
    have ih := fees_sums hrest
    simp only [hopFeesFrom, hopGapsFrom, List.sum_cons] at ih ⊢
    omega

theorem buildI_chans (h amt fd : Nat) : ∀ (es : List UEdge),
    (buildI h amt fd es).1.map (·.chan) = es.map (·.chan) ∧
    (buildI h amt fd es).1.map (·.to) = es.map (·.to)
  | [] => by simp [buildI]
  | [e] => by simp [buildI]
  | e :: e' :: rest => by
    have ih := buildI_chans h amt fd (e' :: rest)
    simp only [buildI, List.map_cons] at ih ⊢
    exact ⟨by rw [ih.1], by rw [ih.2]⟩


end LndModel.C19
