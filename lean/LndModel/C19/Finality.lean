/-
C19: finality of `findPath`'s main loop and pointer-chain consistency of the
distance map.

`Inv` is the inductive invariant of `Run` (reachable search states):
 * every entry `distance[v]` was computed by `getEdge`/`processEdge` from the
   entry of `nextHop.to` AS IT IS NOW STORED (`Link`), all the way to the target;
 * the successor of every entry is an expanded ("closed") node, and the entry of
   an expanded node is never replaced: pops are monotone in the heap order
   `(dist ascending, probability descending)` and every relaxation out of the
   pivot yields a key that is not better than the pivot's (non-negative edge
   weights, edge probabilities at most one).
-/
import LndModel.C19.ReachLemmas
import LndModel.C19.Search
namespace LndModel.C19

theorem i64_range (z : Int) : -(2 ^ 63) ≤ i64 z ∧ i64 z < 2 ^ 63 := by
  unfold i64; omega

/-- Without int64 overflow Go's `edgeWeight` is the exact non-negative value. -/
theorem edgeWeight_eq {locked fee delta : Nat} (hfee : fee < 2 ^ 63)
    (h1 : locked * delta * riskFactorBillionths < 2 ^ 63)
    (h2 : edgeWeightI locked fee delta < 2 ^ 63) :
    edgeWeight locked fee delta = (edgeWeightI locked fee delta : Nat) := by
  unfold edgeWeight edgeWeightI riskFactorBillionths at *
  have hprod : i64 (i64 (i64 (locked : Int) * (delta : Int)) * ((15 : Nat) : Int)) =
      ((locked * delta * 15 : Nat) : Int) := by
    rcases Nat.eq_zero_or_pos delta with hd | hd
    · subst hd
      simp [i64]
    · have hl : locked ≤ locked * delta := Nat.le_mul_of_pos_right _ hd
      have hm : (locked : Int) * (delta : Int) = ((locked * delta : Nat) : Int) := by
        push_cast; rfl
      rw [i64_of_range (z := (locked : Int)) (by omega) (by omega), hm]
      generalize locked * delta = m at *
      rw [i64_of_range (z := (m : Int)) (by omega) (by omega)]
      have hm2 : (m : Int) * ((15 : Nat) : Int) = ((m * 15 : Nat) : Int) := by push_cast; rfl
      rw [hm2]
      generalize m * 15 = n at *
      rw [i64_of_range (z := (n : Int)) (by omega) (by omega)]
  rw [hprod, i64_of_range (z := (fee : Int)) (by omega) (by omega)]
  generalize locked * delta * 15 = n at *
  rw [Int.tdiv_eq_ediv_of_nonneg (by omega)]
  rw [i64_of_range (by omega) (by omega)]
  omega

theorem relFee_lt (e : UEdge) (x y : Entry) : relFee e x y < 2 ^ 63 := by
  unfold relFee
  dsimp only
  have := i64_range (cappedIn e.inBase e.inRate x.recv x.outFee + i64 y.outFee)
  split <;> omega

/-- With `weightFits` the accumulated weight does not decrease. -/
theorem weight_mono {pw : Int} {locked fee delta : Nat} (hpw : 0 ≤ pw) (hfee : fee < 2 ^ 63)
    (h : weightFits pw locked fee delta = true) :
    pw ≤ i64 (pw + edgeWeight locked fee delta) := by
  unfold weightFits at h
  simp only [Bool.and_eq_true, decide_eq_true_eq] at h
  have h2 : edgeWeightI locked fee delta < 2 ^ 63 := by omega
  rw [edgeWeight_eq hfee h.1 h2, i64_of_range (by omega) (by omega)]
  omega

/-! ### the distance map -/

theorem getD_cons_self {P : Type} (D : List (Nat × NodeEnt P)) (u : Nat) (c : NodeEnt P) :
    getD ((u, c) :: D) u = some c := by simp [getD]

theorem getD_cons_ne {P : Type} (D : List (Nat × NodeEnt P)) {u z : Nat} (c : NodeEnt P)
    (h : z ≠ u) : getD ((u, c) :: D) z = getD D z := by
  have : (u == z) = false := by simp; exact fun h' => h h'.symm
  simp [getD, this]

/-! ### heap order -/

/-- `k` is at least as good as `k'` in the heap order. -/
def keyLE (A : ProbAlg) (k k' : Int × A.P) : Prop :=
  k.1 < k'.1 ∨ (k.1 = k'.1 ∧ A.le k'.2 k.2 = true)

theorem keyLE_refl {A : ProbAlg} (hA : A.Lawful) (k : Int × A.P) : keyLE A k k :=
  Or.inr ⟨rfl, by rcases hA.le_total k.2 k.2 with h | h <;> exact h⟩

theorem keyLE_trans {A : ProbAlg} (hA : A.Lawful) {a b c : Int × A.P} (h1 : keyLE A a b)
    (h2 : keyLE A b c) : keyLE A a c := by
  rcases h1 with h1 | ⟨h1, h1'⟩ <;> rcases h2 with h2 | ⟨h2, h2'⟩
  · left; omega
  · left; omega
  · left; omega
  · right; exact ⟨by omega, hA.le_trans _ _ _ h2' h1'⟩

theorem better_false_of_keyLE {A : ProbAlg} {k k' : Int × A.P} (h : keyLE A k k') :
    better A k' k = false := by
  unfold better
  rcases h with h | ⟨h, h'⟩
  · have h1 : decide (k'.1 < k.1) = false := by simp; omega
    have h2 : (k'.1 == k.1) = false := by simp; omega
    simp [h1, h2]
  · have h1 : decide (k'.1 < k.1) = false := by simp; omega
    simp [h1, h']

theorem keyLE_of_better_false {A : ProbAlg} {k k' : Int × A.P} (h : better A k' k = false) :
    keyLE A k k' := by
  unfold better at h
  simp only [Bool.or_eq_false_iff, decide_eq_false_iff_not, Bool.and_eq_false_iff, beq_eq_false_iff_ne,
    Bool.not_eq_false'] at h
  obtain ⟨h1, h2⟩ := h
  by_cases heq : k.1 = k'.1
  · right
    refine ⟨heq, ?_⟩
    rcases h2 with h2 | h2
    · exact absurd heq.symm h2
    · exact h2
  · left; omega

/-! ### pointer chains -/

/-- `Link g r D opn v x E`: `distance[v] = x`, and following `nextHop` from `v`
    visits exactly the edges `E` up to the target; every entry on the way is
    what `getEdge` + `processEdge` produce from the entry CURRENTLY stored for
    the next node (the initial `partialPath` for the target), and every
    intermediate node is expanded (in the map, not on the heap), is neither the
    source nor the target. -/
inductive Link {P : Type} (g : Graph) (r : Req) (D : List (Nat × NodeEnt P)) (opn : List Nat) :
    Nat → NodeEnt P → List UEdge → Prop
  | last {v : Nat} {x : NodeEnt P} :
      getD D v = some x → x.next.frm = v → x.next.to = r.target →
      (∀ l, r.lastHop = some l → v = l) →
      getEdge g r v r.target true r.initEntry = some x.next →
      processEdge r x.next r.initEntry = some x.ent →
      Link g r D opn v x [x.next]
  | cons {v w : Nat} {x y : NodeEnt P} {E : List UEdge} :
      getD D v = some x → x.next.frm = v → x.next.to = w →
      w ≠ r.target → w ≠ r.source → getD D w = some y → w ∉ opn →
      Link g r D opn w y E →
      getEdge g r v w false y.ent = some x.next →
      processEdge r x.next y.ent = some x.ent →
      Link g r D opn v x (x.next :: E)

section
variable {P : Type} {g : Graph} {r : Req} {D D' : List (Nat × NodeEnt P)} {opn opn' : List Nat}

theorem link_head {v : Nat} {x : NodeEnt P} {E : List UEdge} (h : Link g r D opn v x E) :
    ∃ E', E = x.next :: E' ∧ x.next.frm = v ∧ getD D v = some x := by
  cases h with
  | last h1 h2 => exact ⟨[], rfl, h2, h1⟩
  | cons h1 h2 => exact ⟨_, rfl, h2, h1⟩

/-- a pointer chain is a run of the relaxation system in the sense of `Reach`. -/
theorem link_reach {v : Nat} {x : NodeEnt P} {E : List UEdge} (h : Link g r D opn v x E) :
    Reach g r v x.ent E := by
  induction h with
  | last h1 h2 h3 h4 h5 h6 => exact Reach.step (path := []) Reach.start (fun _ => h4) h5 h6
  | cons h1 h2 h3 h4 h5 h6 h7 hl h8 h9 ih =>
    obtain ⟨E', hE, _⟩ := link_head hl
    subst hE
    exact Reach.step ih (fun h => by cases h) h8 h9

theorem link_tail_src {v : Nat} {x : NodeEnt P} {E : List UEdge} (h : Link g r D opn v x E) :
    ∀ e ∈ E.tail, e.frm ≠ r.source := by
  induction h with
  | last => intro e he; simp at he
  | cons h1 h2 h3 h4 h5 h6 h7 hl h8 h9 ih =>
    obtain ⟨E', hE, hfrm, _⟩ := link_head hl
    intro e he
    simp only [List.tail_cons] at he
    rw [hE] at he ih
    rcases List.mem_cons.mp he with rfl | he'
    · rw [hfrm]; exact h5
    · exact ih e (by simpa using he')

/-- the reconstruction loop returns exactly the chain. -/
theorem link_walk {v : Nat} {x : NodeEnt P} {E : List UEdge} (h : Link g r D opn v x E) :
    ∀ (fuel : Nat) (E0 : List UEdge), walk D r.target fuel v = some E0 → E0 = E := by
  induction h with
  | last h1 h2 h3 =>
    intro fuel E0 hw
    cases fuel with
    | zero => simp [walk] at hw
    | succ n => simp [walk, h1, h3] at hw; exact hw.symm
  | cons h1 h2 h3 h4 h5 h6 h7 hl h8 h9 ih =>
    intro fuel E0 hw
    cases fuel with
    | zero => simp [walk] at hw
    | succ n =>
      have hne : (_ == r.target) = false := beq_eq_false_iff_ne.mpr (h3 ▸ h4)
      simp only [walk, h1, hne, Bool.false_eq_true, if_false, Option.map_eq_some_iff] at hw
      obtain ⟨E1, hw1, rfl⟩ := hw
      rw [h3] at hw1
      rw [ih n E1 hw1]

/-- … and it terminates. -/
theorem link_walk_total {v : Nat} {x : NodeEnt P} {E : List UEdge} (h : Link g r D opn v x E) :
    walk D r.target E.length v = some E := by
  induction h with
  | last h1 h2 h3 => simp [walk, h1, h3]
  | cons h1 h2 h3 h4 h5 h6 h7 hl h8 h9 ih =>
    have hne : (_ == r.target) = false := beq_eq_false_iff_ne.mpr (h3 ▸ h4)
    simp only [List.length_cons, walk, h1, hne, Bool.false_eq_true, if_false]
    rw [h3, ih]
    rfl

/-- Updating the entry of a node that is not expanded leaves every chain that
    does not start at it intact. -/
theorem link_frame {u : Nat} (hD : ∀ z, z ≠ u → getD D' z = getD D z)
    (ho : ∀ z, z ≠ u → z ∉ opn → z ∉ opn') (hu : ∀ y, getD D u = some y → u ∈ opn)
    {v : Nat} {x : NodeEnt P} {E : List UEdge} (h : Link g r D opn v x E) :
    v ≠ u → Link g r D' opn' v x E := by
  induction h with
  | last h1 h2 h3 h4 h5 h6 =>
    intro hv
    exact Link.last (by rw [hD _ hv]; exact h1) h2 h3 h4 h5 h6
  | @cons v w x y E h1 h2 h3 h4 h5 h6 h7 hl h8 h9 ih =>
    intro hv
    have hw : w ≠ u := by
      intro h
      subst h
      exact h7 (hu _ h6)
    exact Link.cons (by rw [hD _ hv]; exact h1) h2 h3 h4 h5 (by rw [hD _ hw]; exact h6)
      (ho _ hw h7) (ih hw) h8 h9

theorem link_opn (ho : ∀ z, z ∉ opn → z ∉ opn')
    {v : Nat} {x : NodeEnt P} {E : List UEdge} (h : Link g r D opn v x E) :
    Link g r D opn' v x E := by
  induction h with
  | last h1 h2 h3 h4 h5 h6 => exact Link.last h1 h2 h3 h4 h5 h6
  | cons h1 h2 h3 h4 h5 h6 h7 hl h8 h9 ih =>
    exact Link.cons h1 h2 h3 h4 h5 h6 (ho _ h7) ih h8 h9
end

/-! ### the invariant of the main loop -/

structure Inv (A : ProbAlg) (g : Graph) (r : Req) (s : SState A.P) : Prop where
  /-- pointer-chain consistency of every entry of the distance map. -/
  link : ∀ v x, getD s.D v = some x → ∃ E, Link g r s.D s.opn v x E
  opnD : ∀ v, v ∈ s.opn → ∃ x, getD s.D v = some x
  /-- heap elements are not better than the pivot … -/
  keyOpen : ∀ v x, getD s.D v = some x → v ∈ s.opn →
    keyLE A (s.pv.dist, s.pv.prob) (x.dist, x.prob)
  /-- … expanded nodes are not worse. -/
  keyClosed : ∀ v x, getD s.D v = some x → v ∉ s.opn →
    keyLE A (x.dist, x.prob) (s.pv.dist, s.pv.prob)
  pvExit : s.pv.exit = true → s.pv.node = r.target ∧ s.pv.ent = r.initEntry ∧ s.pv.weight = 0 ∧
    s.pv.dist = 0 ∧ s.pv.prob = A.one ∧ s.done = false ∧ ∀ v x, getD s.D v = some x → v ∈ s.opn
  pvIn : s.pv.exit = false → ∃ x, getD s.D s.pv.node = some x ∧ x.ent = s.pv.ent ∧
    x.weight = s.pv.weight ∧ x.dist = s.pv.dist ∧ x.prob = s.pv.prob ∧ s.pv.node ∉ s.opn ∧
    (s.done = false → s.pv.node ≠ r.target ∧ s.pv.node ≠ r.source)
  wd : ∀ v x, getD s.D v = some x → 0 ≤ x.weight ∧ x.dist = A.dist x.weight x.prob
  tgt : ∀ v x, getD s.D v = some x → v = r.target → r.source = r.target

theorem inv_init (A : ProbAlg) (g : Graph) (r : Req) (c : SCfg) :
    Inv A g r (SState.init A.one r c) := by
  refine ⟨?_, ?_, ?_, ?_, ?_, ?_, ?_, ?_⟩ <;> simp [SState.init, getD]

theorem relaxDecide_spec (A : ProbAlg) (c : SCfg) (s : SState A.P) (u : Nat) (n : NodeEnt A.P)
    (fits : Bool) :
    relaxDecide A c s u n fits = s ∨
      (skipTest A s.D u n = false ∧ relaxDecide A c s u n fits = storeState s u n fits) := by
  unfold relaxDecide
  split
  · left; rfl
  · split
    · left; rfl
    · rename_i h2
      split
      · left; rfl
      · right
        exact ⟨by cases h : skipTest A s.D u n <;> simp_all, rfl⟩

theorem relaxWith_spec (A : ProbAlg) (r : Req) (c : SCfg) (s : SState A.P) (u : Nat)
    (ep : A.P) (e : UEdge) (o : Option Entry) :
    relaxWith A r c s u ep e o = s ∨
    ∃ y, o = some y ∧ skipTest A s.D u (relaxCand A r s u e y ep) = false ∧
      relaxWith A r c s u ep e o = storeState s u (relaxCand A r s u e y ep)
        (weightFits s.pv.weight (sendAmt e s.pv.ent) (relFee e s.pv.ent y) (r.dlOf e)) := by
  cases o with
  | none => left; rfl
  | some y =>
    rcases relaxDecide_spec A c s u (relaxCand A r s u e y ep)
      (weightFits s.pv.weight (sendAmt e s.pv.ent) (relFee e s.pv.ent y) (r.dlOf e)) with h | ⟨h1, h2⟩
    · left; exact h
    · right; exact ⟨y, rfl, h1, h2⟩

theorem relaxOver_spec (A : ProbAlg) (r : Req) (c : SCfg) (s : SState A.P) (u : Nat)
    (ep : A.P) (oe : Option UEdge) :
    relaxOver A r c s u ep oe = s ∨
    ∃ e y, oe = some e ∧ processEdge r e s.pv.ent = some y ∧
      skipTest A s.D u (relaxCand A r s u e y ep) = false ∧
      relaxOver A r c s u ep oe = storeState s u (relaxCand A r s u e y ep)
        (weightFits s.pv.weight (sendAmt e s.pv.ent) (relFee e s.pv.ent y) (r.dlOf e)) := by
  cases oe with
  | none => left; rfl
  | some e =>
    rcases relaxWith_spec A r c s u ep e (processEdge r e s.pv.ent) with h | ⟨y, h0, h1, h2⟩
    · left; exact h
    · right; exact ⟨e, y, rfl, h0, h1, h2⟩

/-- `relaxStep` either leaves the state alone or stores a new entry. -/
theorem relaxStep_spec (A : ProbAlg) (g : Graph) (r : Req) (c : SCfg) (s : SState A.P) (u : Nat)
    (ep : A.P) :
    relaxStep A g r c s u ep = s ∨
    ∃ e y, relaxEdge g r s u = some e ∧ processEdge r e s.pv.ent = some y ∧
      skipTest A s.D u (relaxCand A r s u e y ep) = false ∧
      relaxStep A g r c s u ep = storeState s u (relaxCand A r s u e y ep)
        (weightFits s.pv.weight (sendAmt e s.pv.ent) (relFee e s.pv.ent y) (r.dlOf e)) :=
  relaxOver_spec A r c s u ep (relaxEdge g r s u)
theorem storeState_D {P : Type} (s : SState P) (u : Nat) (n : NodeEnt P) (f : Bool) :
    (storeState s u n f).D = (u, n) :: s.D := rfl
theorem storeState_pv {P : Type} (s : SState P) (u : Nat) (n : NodeEnt P) (f : Bool) :
    (storeState s u n f).pv = s.pv := rfl
theorem storeState_done {P : Type} (s : SState P) (u : Nat) (n : NodeEnt P) (f : Bool) :
    (storeState s u n f).done = s.done := rfl
theorem storeState_mem {P : Type} (s : SState P) (u : Nat) (n : NodeEnt P) (f : Bool) (z : Nat) :
    z ∈ (storeState s u n f).opn ↔ z = u ∨ z ∈ s.opn := by
  unfold storeState
  dsimp only
  split
  · rename_i h
    have : u ∈ s.opn := by simpa using h
    constructor
    · exact Or.inr
    · rintro (rfl | h') <;> assumption
  · simp

/-- Facts about a relaxation that is about to be stored: the guards passed, the
    candidate's key is not better than the pivot's, and (finality) the node it
    is stored for is not an expanded one. -/
theorem relax_facts {A : ProbAlg} (hA : A.Lawful) {g : Graph} {r : Req}
    {s : SState A.P} (hI : Inv A g r s) {u : Nat} {e : UEdge} {y : Entry} {ep : A.P}
    (hedge : relaxEdge g r s u = some e)
    (hep : A.valid ep = true)
    (hfit : weightFits s.pv.weight (sendAmt e s.pv.ent) (relFee e s.pv.ent y) (r.dlOf e) = true)
    (hskip : skipTest A s.D u (relaxCand A r s u e y ep) = false) :
    s.done = false ∧ ¬ ((r.source != r.target && u == r.target) = true) ∧
    ¬ ((r.lastHop.isSome && s.pv.node == r.target && r.lastHop != some u) = true) ∧
    getEdge g r u s.pv.node s.pv.exit s.pv.ent = some e ∧
    0 ≤ s.pv.weight ∧ s.pv.weight ≤ (relaxCand A r s u e y ep).weight ∧
    keyLE A (s.pv.dist, s.pv.prob) ((relaxCand A r s u e y ep).dist, (relaxCand A r s u e y ep).prob) ∧
    (∀ cur, getD s.D u = some cur → u ∈ s.opn) := by
  generalize hn : relaxCand A r s u e y ep = n at *
  have hn1 : n.ent = y := by rw [← hn]; rfl
  have hn2 : n.weight = i64 (s.pv.weight + edgeWeight (sendAmt e s.pv.ent) (relFee e s.pv.ent y)
    (r.dlOf e)) := by rw [← hn]; rfl
  have hn3 : n.dist = A.dist n.weight n.prob := by rw [← hn]; rfl
  have hn4 : n.prob = A.mul s.pv.prob ep := by rw [← hn]; rfl
  have hn5 : n.next = e := by rw [← hn]; rfl
  clear hn
  have hb : ∀ cur, getD s.D u = some cur →
      better A (n.dist, n.prob) (cur.dist, cur.prob) = true := by
    intro cur hcur
    unfold skipTest at hskip
    rw [hcur] at hskip
    simpa using hskip
  -- the guards
  unfold relaxEdge at hedge
  split at hedge
  · cases hedge
  rename_i hdone
  split at hedge
  · cases hedge
  rename_i hg1
  split at hedge
  · cases hedge
  rename_i hg2
  have hdone : s.done = false := by simpa using hdone
  -- weights
  have hpw : 0 ≤ s.pv.weight := by
    cases hx : s.pv.exit with
    | true => rw [(hI.pvExit hx).2.2.1]; exact Int.le_refl 0
    | false =>
      obtain ⟨x, hx1, _, hx3, _⟩ := hI.pvIn hx
      rw [← hx3]; exact (hI.wd _ _ hx1).1
  have hmono : s.pv.weight ≤ n.weight := by
    rw [hn2]; exact weight_mono hpw (relFee_lt ..) hfit
  have hle : A.le n.prob s.pv.prob = true := by rw [hn4]; exact hA.mul_le _ _ hep
  have hkey : keyLE A (s.pv.dist, s.pv.prob) (n.dist, n.prob) := by
    rw [hn3]
    cases hx : s.pv.exit with
    | true =>
      obtain ⟨_, _, _, hd, _⟩ := hI.pvExit hx
      have := hA.dist_nonneg n.weight n.prob (Int.le_trans hpw hmono)
      unfold keyLE
      simp only [hd]
      by_cases h0 : 0 < A.dist n.weight n.prob
      · exact Or.inl h0
      · exact Or.inr ⟨by omega, hle⟩
    | false =>
      obtain ⟨x, hx1, _, hx3, hx4, hx5, _⟩ := hI.pvIn hx
      have hd := (hI.wd _ _ hx1).2
      rw [hx3, hx4, hx5] at hd
      have := hA.dist_mono s.pv.weight n.weight s.pv.prob n.prob hmono hle
      unfold keyLE
      simp only
      by_cases h0 : s.pv.dist < A.dist n.weight n.prob
      · exact Or.inl h0
      · exact Or.inr ⟨by omega, hle⟩
  -- finality: `u` is not an expanded node
  have hopen : ∀ cur, getD s.D u = some cur → u ∈ s.opn := by
    intro cur hcur
    apply Classical.byContradiction
    intro hno
    have h1 := hI.keyClosed u cur hcur hno
    have h2 := better_false_of_keyLE (keyLE_trans hA h1 hkey)
    rw [hb cur hcur] at h2
    cases h2
  exact ⟨hdone, hg1, hg2, hedge, hpw, hmono, hkey, hopen⟩

/-- Storing a relaxed entry preserves the invariant; in particular the node is
    not an expanded one (finality). -/
theorem inv_store {A : ProbAlg} (hA : A.Lawful) {g : Graph} {r : Req} (hg : GraphOK g)
    {s : SState A.P} (hI : Inv A g r s) {u : Nat} {e : UEdge} {y : Entry} {ep : A.P}
    (fits : Bool)
    (hedge : relaxEdge g r s u = some e) (hproc : processEdge r e s.pv.ent = some y)
    (hep : A.valid ep = true)
    (hfit : weightFits s.pv.weight (sendAmt e s.pv.ent) (relFee e s.pv.ent y) (r.dlOf e) = true)
    (hskip : skipTest A s.D u (relaxCand A r s u e y ep) = false) :
    Inv A g r (storeState s u (relaxCand A r s u e y ep) fits) := by
  obtain ⟨hdone, hg1, hg2, hedge, hpw, hmono, hkey, hopen⟩ :=
    relax_facts hA hI hedge hep hfit hskip
  generalize hn : relaxCand A r s u e y ep = n at *
  have hn1 : n.ent = y := by rw [← hn]; rfl
  have hn3 : n.dist = A.dist n.weight n.prob := by rw [← hn]; rfl
  have hn5 : n.next = e := by rw [← hn]; rfl
  clear hn
  obtain ⟨_, _, _, hefrm, heto, _⟩ := getEdge_sound hg hedge
  have hupiv : s.pv.exit = false → s.pv.node ≠ u := by
    intro hx hne
    obtain ⟨x, hx1, _, _, _, _, hx6, _⟩ := hI.pvIn hx
    rw [hne] at hx1 hx6
    exact hx6 (hopen x hx1)
  have hD : ∀ z, z ≠ u → getD ((u, n) :: s.D) z = getD s.D z := fun z hz => getD_cons_ne _ _ hz
  have hmemS := storeState_mem s u n fits
  have hoS : ∀ z, z ≠ u → z ∉ s.opn → z ∉ (storeState s u n fits).opn := by
    intro z hz hzo hmem
    rcases (hmemS z).mp hmem with h | h
    · exact hz h
    · exact hzo h
  refine ⟨?_, ?_, ?_, ?_, ?_, ?_, ?_, ?_⟩
  · -- link
    intro v x hv
    rw [storeState_D] at hv ⊢
    by_cases hvu : v = u
    · subst hvu
      rw [getD_cons_self] at hv
      cases hv
      cases hx : s.pv.exit with
      | true =>
        obtain ⟨hnd, hent, _⟩ := hI.pvExit hx
        rw [hx, hnd, hent, ← hn5] at hedge
        rw [hent, ← hn5, ← hn1] at hproc
        rw [← hn5] at hefrm heto
        refine ⟨_, Link.last (getD_cons_self ..) hefrm (by rw [heto]; exact hnd) ?_ hedge hproc⟩
        intro l hl
        rw [hnd, hl] at hg2
        simp at hg2
        exact hg2.symm
      | false =>
        obtain ⟨xp, hx1, hx2, _, _, _, hx6, hx7⟩ := hI.pvIn hx
        obtain ⟨hnt, hns⟩ := hx7 hdone
        obtain ⟨E, hl⟩ := hI.link _ _ hx1
        have hne := hupiv hx
        rw [hx, ← hx2, ← hn5] at hedge
        rw [← hx2, ← hn5, ← hn1] at hproc
        rw [← hn5] at hefrm heto
        exact ⟨_, Link.cons (w := s.pv.node) (y := xp) (getD_cons_self ..) hefrm heto hnt hns
          (by rw [hD _ hne]; exact hx1) (hoS _ hne hx6) (link_frame hD hoS hopen hl hne)
          hedge hproc⟩
    · rw [hD _ hvu] at hv
      obtain ⟨E, hl⟩ := hI.link _ _ hv
      exact ⟨E, link_frame hD hoS hopen hl hvu⟩
  · -- opnD
    intro v hv
    rw [storeState_D]
    by_cases hvu : v = u
    · subst hvu; exact ⟨_, getD_cons_self ..⟩
    · rw [hD _ hvu]
      rcases (hmemS v).mp hv with h | h
      · exact absurd h hvu
      · exact hI.opnD v h
  · -- keyOpen
    intro v x hv hvo
    rw [storeState_D] at hv
    rw [storeState_pv]
    by_cases hvu : v = u
    · subst hvu
      rw [getD_cons_self] at hv
      cases hv
      exact hkey
    · rw [hD _ hvu] at hv
      rcases (hmemS v).mp hvo with h | h
      · exact absurd h hvu
      · exact hI.keyOpen v x hv h
  · -- keyClosed
    intro v x hv hvo
    rw [storeState_D] at hv
    rw [storeState_pv]
    have hvu : v ≠ u := fun h => hvo ((hmemS v).mpr (Or.inl h))
    rw [hD _ hvu] at hv
    exact hI.keyClosed v x hv (fun h => hvo ((hmemS v).mpr (Or.inr h)))
  · -- pvExit
    intro hx
    rw [storeState_pv] at hx ⊢
    obtain ⟨a1, a2, a3, a4, a5, a6, a7⟩ := hI.pvExit hx
    refine ⟨a1, a2, a3, a4, a5, a6, ?_⟩
    intro v x hv
    rw [storeState_D] at hv
    by_cases hvu : v = u
    · exact (hmemS v).mpr (Or.inl hvu)
    · rw [hD _ hvu] at hv
      exact (hmemS v).mpr (Or.inr (a7 v x hv))
  · -- pvIn
    intro hx
    rw [storeState_pv] at hx ⊢
    obtain ⟨xp, b1, b2, b3, b4, b5, b6, b7⟩ := hI.pvIn hx
    have hne := hupiv hx
    exact ⟨xp, by rw [storeState_D, hD _ hne]; exact b1, b2, b3, b4, b5, hoS _ hne b6, b7⟩
  · -- wd
    intro v x hv
    rw [storeState_D] at hv
    by_cases hvu : v = u
    · subst hvu
      rw [getD_cons_self] at hv
      cases hv
      exact ⟨Int.le_trans hpw hmono, hn3⟩
    · rw [hD _ hvu] at hv
      exact hI.wd v x hv
  · -- tgt
    intro v x hv hvt
    rw [storeState_D] at hv
    by_cases hvu : v = u
    · subst hvu
      apply Classical.byContradiction
      intro hne
      apply hg1
      simp [hvt]
      exact hne
    · rw [hD _ hvu] at hv
      exact hI.tgt v x hv hvt

theorem popStep_wrapped {P : Type} (r : Req) (s : SState P) (w : Nat) :
    (popStep r s w).wrapped = s.wrapped := by
  unfold popStep; split <;> rfl

/-- `heap.Pop` preserves the invariant: pops are monotone in the heap order. -/
theorem inv_pop {A : ProbAlg} (hA : A.Lawful) {g : Graph} {r : Req} {s : SState A.P}
    (hI : Inv A g r s) {w : Nat} (hmin : isMin A s w = true) :
    Inv A g r (popStep r s w) := by
  unfold isMin at hmin
  cases hw : getD s.D w with
  | none => simp [hw] at hmin
  | some x =>
    simp only [hw, Bool.and_eq_true, List.contains_eq_mem, decide_eq_true_eq, List.all_eq_true] at hmin
    obtain ⟨hwo, hall⟩ := hmin
    unfold popStep
    simp only [hw]
    have hmem : ∀ z, z ∈ s.opn.filter (· != w) ↔ z ∈ s.opn ∧ z ≠ w := by
      intro z; simp
    have hlast := hI.keyOpen w x hw hwo
    refine ⟨?_, ?_, ?_, ?_, ?_, ?_, hI.wd, hI.tgt⟩
    · intro v xv hv
      obtain ⟨E, hl⟩ := hI.link v xv hv
      exact ⟨E, link_opn (fun z hz hz' => hz ((hmem z).mp hz').1) hl⟩
    · intro v hv
      exact hI.opnD v ((hmem v).mp hv).1
    · intro v xv hv hvo
      obtain ⟨hvo1, hvw⟩ := (hmem v).mp hvo
      have := hall v hvo1
      rw [hv] at this
      exact keyLE_of_better_false (by simpa using this)
    · intro v xv hv hvo
      by_cases hvw : v = w
      · subst hvw
        rw [hw] at hv
        cases hv
        exact keyLE_refl hA _
      · have hvo1 : v ∉ s.opn := fun h => hvo ((hmem v).mpr ⟨h, hvw⟩)
        exact keyLE_trans hA (hI.keyClosed v xv hv hvo1) hlast
    · intro hx
      cases hx
    · intro _
      refine ⟨x, hw, rfl, rfl, rfl, rfl, ?_, ?_⟩
      · intro h
        exact ((hmem w).mp h).2 rfl
      · intro hd
        have hws : w ≠ r.source := by simpa using hd
        refine ⟨?_, hws⟩
        intro hwt
        have := hI.tgt w x hw hwt
        exact hws (hwt.trans this.symm)

/-- The invariant holds in every reachable state of the main loop in which no
    stored entry was computed with an overflowing weight. -/
theorem run_inv {A : ProbAlg} (hA : A.Lawful) {g : Graph} {r : Req} {c : SCfg} (hg : GraphOK g)
    {s : SState A.P} (hrun : Run A g r c s) : s.wrapped = false → Inv A g r s := by
  induction hrun with
  | init => intro _; exact inv_init A g r c
  | @relax s u ep hrun hep ih =>
    intro hw
    rcases relaxStep_spec A g r c s u ep with h | ⟨e, y, he, hy, hb, heq⟩
    · rw [h] at hw ⊢; exact ih hw
    · rw [heq] at hw ⊢
      have hw' : (s.wrapped || !weightFits s.pv.weight (sendAmt e s.pv.ent) (relFee e s.pv.ent y)
          (r.dlOf e)) = false := hw
      simp only [Bool.or_eq_false_iff, Bool.not_eq_false'] at hw'
      exact inv_store hA hg (ih hw'.1) _ he hy hep hw'.2 hb
  | @pop s w hrun hdone hmin ih =>
    intro hw
    rw [popStep_wrapped] at hw
    exact inv_pop hA (ih hw) hmin

end LndModel.C19
