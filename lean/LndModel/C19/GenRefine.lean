/-
C19 — refinement of the regenerated routing fee arithmetic (LndModel.Gen.C19, produced by
tools/go2lean from routing/pathfind.go `edgeWeight`, graph/db/models `CachedEdgePolicy.ComputeFee`
/ `ChannelEdgePolicy.ComputeFee` and routing/route/route.go `Route.HopFee`) to the hand-written
model `LndModel.C19`, for ALL uint64 amounts / uint16 deltas.

Bound in the spec (trusted), `HopFee` only: `r.Hops[hopIndex-1].AmtToForward`,
`r.Hops[hopIndex].AmtToForward` and `r.ReceiverAmt()` are parameters.
-/
import LndModel.Gen.C19
import LndModel.C19.Search

namespace LndModel.C19.GenRefine
open LndModel.Gen LndModel.Gen.GoInt

theorem consts_refine : Gen.C19.RiskFactorBillionths = (C19.riskFactorBillionths : Nat) ∧
    Gen.C19.feeRateParts = (C19.feeRateParts : Nat) := by decide

theorem i64_eq (z : Int) : C19.i64 z = wrapI64 z := by
  simp only [C19.i64, wrapI64]; rfl

/-- `ComputeFee` of both policy types (uint64): the model's `computeFee`, for all inputs. -/
theorem CachedEdgePolicy_ComputeFee_refines (base rate amt : Nat) :
    Gen.C19.CachedEdgePolicy_ComputeFee base rate amt = (C19.computeFee base rate amt : Nat) := by
  have e : (2 : Nat) ^ 64 = 18446744073709551616 := by decide
  simp only [Gen.C19.CachedEdgePolicy_ComputeFee, C19.computeFee, C19.u64, C19.feeRateParts, wrapU64, e]
  first
  | omega
  | (simp only [Int.mul_comm (rate : Int) (amt : Int)]; omega)

theorem ChannelEdgePolicy_ComputeFee_refines (base rate amt : Nat) :
    Gen.C19.ChannelEdgePolicy_ComputeFee base rate amt = (C19.computeFee base rate amt : Nat) := by
  have e : (2 : Nat) ^ 64 = 18446744073709551616 := by decide
  simp only [Gen.C19.ChannelEdgePolicy_ComputeFee, C19.computeFee, C19.u64, C19.feeRateParts, wrapU64, e]
  first
  | omega
  | (simp only [Int.mul_comm (rate : Int) (amt : Int)]; omega)

/-- `edgeWeight` (int64, left-associated product, truncating division): the model's, for all
    inputs. -/
theorem edgeWeight_refines (locked fee delta : Nat) :
    Gen.C19.edgeWeight locked fee delta = C19.edgeWeight locked fee delta := by
  simp only [Gen.C19.edgeWeight, C19.edgeWeight, i64_eq, C19.riskFactorBillionths]
  rfl

theorem hopFee_core (i o r : Nat) (hi : i < 18446744073709551616)
    (ho : o < 18446744073709551616) (hr : r < 18446744073709551616) :
    (if ((i : Int) ≠ 0) ∧ ((o : Int) ≠ 0) then wrapU64 ((i : Int) - o)
      else if (i : Int) = 0 then 0 else wrapU64 ((i : Int) - r)) = (C19.hopFeeGo r i o : Nat) := by
  have e : (2 : Nat) ^ 64 = 18446744073709551616 := by decide
  by_cases h1 : i = 0
  · subst h1; simp [C19.hopFeeGo]
  · have h1' : (i : Int) ≠ 0 := by omega
    by_cases h2 : o = 0
    · subst h2
      simp only [C19.hopFeeGo, C19.u64, wrapU64, e, h1, h1', ne_eq, not_true_eq_false, and_false,
        if_false, bne_self_eq_false, Bool.and_false, Bool.false_eq_true, beq_iff_eq,
        Int.natCast_zero]
      omega
    · have h2' : (o : Int) ≠ 0 := by omega
      have hb : (i != 0 && o != 0) = true := by simp [h1, h2]
      simp only [C19.hopFeeGo, C19.u64, wrapU64, e, h1', h2', ne_eq, not_false_eq_true, and_self,
        if_true, hb]
      omega

/-- `Route.HopFee`: with the incoming amount selected as in the code (total amount for hop 0,
    previous hop's amount otherwise) the regenerated function is the model's `hopFeeGo`. -/
theorem HopFee_refines (total : Nat) (hopIndex : Int) (prev out recv : Nat)
    (ht : total < 18446744073709551616) (hp : prev < 18446744073709551616)
    (ho : out < 18446744073709551616) (hr : recv < 18446744073709551616) :
    Gen.C19.Route_HopFee total hopIndex prev out recv
      = (C19.hopFeeGo recv (if hopIndex = 0 then total else prev) out : Nat) := by
  by_cases h0 : hopIndex = 0
  · simp only [Gen.C19.Route_HopFee, h0, if_true]
    exact hopFee_core total out recv ht ho hr
  · simp only [Gen.C19.Route_HopFee, h0, if_false]
    exact hopFee_core prev out recv hp ho hr

example : Gen.C19.edgeWeight 1000000000 1500 144 = 3660 := by decide
example : Gen.C19.CachedEdgePolicy_ComputeFee 1000 100 5000000 = 1500 := by decide
example := HopFee_refines 105000 1 103000 100000 100000 (by decide) (by decide) (by decide) (by decide)
example : Gen.C19.Route_HopFee 105000 1 103000 100000 100000 = 3000 := by decide

end LndModel.C19.GenRefine
