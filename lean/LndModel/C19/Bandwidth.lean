/-
C19 model of the bandwidth manager (`routing/bandwidth.go`): how the state of
the switch's links becomes the bandwidth hints that `getEdgeLocal` and
`getOutgoingBalance` consult (`Req.bw`).  Core Lean only.

`newBandwidthManager` collects the channel ids of the source node
(`localChans`); `availableChanBandwidth(id, amt)` returns `(0, false)` for any
other id (no hint: `getEdgeLocal` then assumes the maximum), and for an own
channel `(getBandwidth …, true)` where every failure — no link in the switch,
link not eligible to forward, `MayAddOutgoingHtlc` refusing — is reported as
bandwidth ZERO with `found = true` (the channel is unusable, not unknown).
No external traffic shaper (aux channels are outside the model).
-/
import LndModel.C19.Model
import LndModel.C19.Spec
namespace LndModel.C19

/-- what `getLink` / the link report for an own channel. -/
inductive LinkSt
  | up          -- found, eligible, `MayAddOutgoingHtlc` succeeds
  | ineligible  -- `!link.EligibleToForward()`
  | cannotAdd   -- `link.MayAddOutgoingHtlc(amt)` returns an error
  | noLink      -- `getLink` returns an error
deriving Repr, DecidableEq, Inhabited

structure LinkInfo where
  st : LinkSt
  /-- `link.Bandwidth()` -/
  bandwidth : Nat
deriving Repr, Inhabited

/-- `bandwidthManager.getBandwidth`, errors mapped to zero as
    `availableChanBandwidth` does. -/
def linkHint (l : LinkInfo) : Nat :=
  match l.st with
  | .up => l.bandwidth
  | _ => 0

/-- `localChans`: the channels of `self` in the graph (`ForEachNodeDirectedChannel`);
    additional edges (hints) are not part of the graph. -/
def localChans (g : Graph) (hintIds : List Nat) (self : Nat) : List Nat :=
  (g.filter fun c => (c.n1 == self || c.n2 == self) && !hintIds.contains c.id).map (·.id)

/-- The hints the bandwidth manager serves: one per own channel; an own channel
    the switch does not know is unusable (zero). -/
def managerHints (locals : List Nat) (links : List (Nat × LinkInfo)) : List (Nat × Nat) :=
  locals.map fun id =>
    (id, match links.find? (fun p => p.1 == id) with
         | some p => linkHint p.2
         | none => 0)

theorem linkHint_le (l : LinkInfo) : linkHint l ≤ l.bandwidth := by
  unfold linkHint; split <;> simp

theorem linkHint_down {l : LinkInfo} (h : l.st ≠ .up) : linkHint l = 0 := by
  unfold linkHint; split
  · rename_i h'; exact absurd h' h
  · rfl

/-- the hint served for an own channel with a link is `linkHint` of that link
    (first entry for the id). -/
theorem managerHints_bwOf (r : Req) (locals : List Nat) (links : List (Nat × LinkInfo)) (id : Nat)
    (l : LinkInfo) (hloc : id ∈ locals) (hl : links.find? (fun p => p.1 == id) = some (id, l))
    (hr : r.bw = managerHints locals links) : r.bwOf id = some (linkHint l) := by
  unfold Req.bwOf
  rw [hr]
  clear hr
  induction locals with
  | nil => cases hloc
  | cons a rest ih =>
    simp only [managerHints, List.map_cons, List.find?_cons]
    by_cases ha : a = id
    · subst ha; simp [hl]
    · have : (a == id) = false := by simpa using ha
      simp only [this]
      rcases List.mem_cons.mp hloc with h | h
      · exact absurd h.symm ha
      · exact ih h

/-- **A valid route respects the links.**  If the hints of the request are the
    ones the bandwidth manager derives from the links, the first hop of a
    `RouteValid` route that leaves our own node over channel `h.chan` with link
    `l` carries at most `l.Bandwidth()`, and carries NOTHING when the link is
    down in any of the three ways (not in the switch, not eligible,
    `MayAddOutgoingHtlc` refuses).  With `search_sound` this holds for every
    route the search returns. -/
theorem route_respects_links (g : Graph) (r : Req) (rt : Route) (H : RouteValid g r rt)
    (hself : r.source = r.self) (h : Hop) (rest : List Hop) (hh : rt.hops = h :: rest)
    (l : LinkInfo) (hb : r.bwOf h.chan = some (linkHint l)) :
    rt.totalAmt ≤ l.bandwidth ∧ (l.st ≠ .up → rt.totalAmt = 0) := by
  have hv : HopValid g r rest.isEmpty r.source rt.totalAmt h := by
    have := H.hops
    rw [hh] at this
    cases rest with
    | nil => exact this.1
    | cons h' t => exact this.1
  obtain ⟨_, _, _, _, _, _, _, hbw, _⟩ := hv
  have hle := hbw hself _ hb
  refine ⟨Nat.le_trans hle (linkHint_le l), fun hd => ?_⟩
  rw [linkHint_down hd] at hle
  omega

/-! ### Non-vacuity -/

def bwGraph : Graph :=
  [⟨1, 0, 1, 100000, some ⟨1, 0, false, 0, 0, 144, false, 0, 0⟩, none⟩,
   ⟨2, 0, 1, 100000, some ⟨1, 0, false, 0, 0, 144, false, 0, 0⟩, none⟩]

def bwReq (links : List (Nat × LinkInfo)) : Req :=
  { self := 0, source := 0, target := 1, amt := 5000, feeLimit := 0, cltvLimit := 0,
    height := 100, finalDelta := 40, lastHop := none, outChans := [], ignNodes := [],
    ignPairs := [], bw := managerHints (localChans bwGraph [] 0) links }

/-- both channels of the source are local; channel 1's link is up with exactly the amount,
    channel 2's link refuses new HTLCs: the route over 1 is accepted, the same route over 2 is
    not, nor is the route over 1 when its link has one msat less, is ineligible, or is unknown
    to the switch. -/
example : localChans bwGraph [] 0 = [1, 2] ∧
    routeOK bwGraph (bwReq [(1, ⟨.up, 5000⟩), (2, ⟨.cannotAdd, 9000⟩)]) ⟨0, 5000, 140, [⟨1, 1, 5000, 140⟩]⟩ = true ∧
    routeOK bwGraph (bwReq [(1, ⟨.up, 5000⟩), (2, ⟨.cannotAdd, 9000⟩)]) ⟨0, 5000, 140, [⟨2, 1, 5000, 140⟩]⟩ = false ∧
    routeOK bwGraph (bwReq [(1, ⟨.up, 4999⟩)]) ⟨0, 5000, 140, [⟨1, 1, 5000, 140⟩]⟩ = false ∧
    routeOK bwGraph (bwReq [(1, ⟨.ineligible, 9000⟩)]) ⟨0, 5000, 140, [⟨1, 1, 5000, 140⟩]⟩ = false ∧
    routeOK bwGraph (bwReq []) ⟨0, 5000, 140, [⟨1, 1, 5000, 140⟩]⟩ = false := by decide

/-- the hypotheses of `route_respects_links` / `managerHints_bwOf` are satisfiable. -/
example : (bwReq [(1, ⟨.up, 5000⟩)]).bwOf 1 = some (linkHint ⟨.up, 5000⟩) :=
  managerHints_bwOf _ [1, 2] [(1, ⟨.up, 5000⟩)] 1 _ (by decide) rfl (by decide)

end LndModel.C19
