/-
C19 × C09: every forwarding node of a route that satisfies C19's `RouteValid`
(equivalently: that the monitor `routeOK` accepts) is given an HTLC that passes
C09's forwarding decision `CheckHtlcForward` evaluated with that node's own
policy — fee (outbound + inbound, C09's `requiredFee`), time-lock delta,
min/max HTLC of the outgoing channel.  The remaining rules of C09 depend on the
forwarding node's run-time state (current height vs. reject delta / maximum
CLTV, the outgoing link's bandwidth) and are hypotheses.

Imports only C09's model (read-only).
-/
import LndModel.C19.Lemmas
import LndModel.C09.Model

namespace LndModel.C19

/-- the forwarding policy C09 evaluates, read from the graph policy of the
    outgoing channel direction (`MaxHTLC = 0` means "no limit" in C09). -/
def toC09Policy (p : Policy) : C09.Policy :=
  ⟨p.minHtlc, if p.hasMax then p.maxHtlc else 0, p.base, p.rate, p.delta⟩

/-- the arguments of `CheckHtlcForward` at the node that received
    `amtIn`/`tlIn` and forwards `out`/`tlOut`, charging the inbound fee `inb`. -/
def toC09Inputs (amtIn out tlIn tlOut height : Nat) (inb : Int × Int) : C09.Inputs :=
  ⟨amtIn, out, tlIn, tlOut, height, inb.1, inb.2⟩

theorem clampRate_eq_C09 (r : Int) : clampRate r = C09.clampRate r := by
  unfold clampRate C09.clampRate maxFeeRate
  rfl

/-- C19's `requiredFee` is C09's `requiredFee` floored at zero: the two
    properties use the same fee formula. -/
theorem requiredFee_eq_C09 (p : Policy) (inb : Int × Int) (amtIn out tlIn tlOut height : Nat) :
    (requiredFee p inb out : Int) =
      max 0 (C09.Spec.requiredFee (toC09Policy p) (toC09Inputs amtIn out tlIn tlOut height inb)) := by
  unfold requiredFee C09.Spec.requiredFee C09.Spec.inFee C09.Spec.outFee calcInFeeI computeFeeI
    toC09Policy toC09Inputs feeRateParts
  simp only [clampRate_eq_C09]
  omega

/-- The forwarding decision of C09 (exact-integer form `C09.Spec`) at the node
    between `hIn` and `hOut`, for every run-time configuration `c` / height under
    which the time-based and bandwidth rules hold. -/
def FwdPassesC09 (g : Graph) (prev : Nat) (hIn hOut : Hop) (amtIn tlIn : Nat) : Prop :=
  ∃ p cap, g.dirPol hOut.chan hIn.to hOut.to = some (p, cap) ∧
    ∀ (c : C09.Cfg) (height : Nat),
      C09.Spec.NotTooSoon c hIn.tl height → C09.Spec.NotTooFar c hIn.tl height →
      C09.Spec.BwOk c hIn.amt → tlIn - hIn.tl ≤ c.maxCltv →
      C09.Spec.checkHtlcForward (toC09Policy p) c
        (toC09Inputs amtIn hIn.amt tlIn hIn.tl height (g.inboundOf hIn.chan prev hIn.to)) = .accept

/-- … at every forwarding node of a route. -/
def AllFwdPassC09 (g : Graph) : (cur amtIn tlIn : Nat) → List Hop → Prop
  | _, _, _, [] => True
  | _, _, _, [_] => True
  | cur, amtIn, tlIn, h :: h' :: rest =>
    FwdPassesC09 g cur h h' amtIn tlIn ∧ AllFwdPassC09 g h.to h.amt h.tl (h' :: rest)

theorem fwd_passes_C09 {g : Graph} {r : Req} {last : Bool} {prev : Nat} {hIn hOut : Hop}
    {amtIn tlIn : Nat} (hf : FwdValid g prev hIn hOut amtIn tlIn)
    (hv : HopValid g r last hIn.to hIn.amt hOut) : FwdPassesC09 g prev hIn hOut amtIn tlIn := by
  obtain ⟨p, cap, hdp, hfee, htl⟩ := hf
  obtain ⟨p', cap', hdp', _, hmin, hmax, _⟩ := hv
  rw [hdp] at hdp'
  cases hdp'
  refine ⟨p, cap, hdp, ?_⟩
  intro c height hsoon hfar hbw hdm
  have hreq := requiredFee_eq_C09 p (g.inboundOf hIn.chan prev hIn.to) amtIn hIn.amt tlIn hIn.tl height
  have hFee : C09.Spec.FeeOk (toC09Policy p)
      (toC09Inputs amtIn hIn.amt tlIn hIn.tl height (g.inboundOf hIn.chan prev hIn.to)) := by
    unfold C09.Spec.FeeOk
    generalize C09.Spec.requiredFee _ _ = q at hreq ⊢
    simp only [toC09Inputs]
    omega
  have hMin : C09.Spec.MinOk (toC09Policy p) hIn.amt := by
    simp only [C09.Spec.MinOk, toC09Policy]; exact hmin
  have hMax : C09.Spec.MaxOk (toC09Policy p) hIn.amt := by
    simp only [C09.Spec.MaxOk, toC09Policy]
    cases hm : p.hasMax with
    | false => left; simp
    | true => right; simpa using hmax hm
  have hDelta : C09.Spec.DeltaOk (toC09Policy p)
      (toC09Inputs amtIn hIn.amt tlIn hIn.tl height (g.inboundOf hIn.chan prev hIn.to)) := by
    simp only [C09.Spec.DeltaOk, toC09Policy, toC09Inputs]; omega
  have hDM : C09.Spec.DeltaMaxOk c
      (toC09Inputs amtIn hIn.amt tlIn hIn.tl height (g.inboundOf hIn.chan prev hIn.to)) := by
    simp only [C09.Spec.DeltaMaxOk, toC09Inputs]; omega
  have hT : C09.Spec.checkHtlcTransit (toC09Policy p) c hIn.amt hIn.tl height = .accept := by
    unfold C09.Spec.checkHtlcTransit
    simp [hMin, hMax, hsoon, hfar, hbw]
  unfold C09.Spec.checkHtlcForward
  have e1 : (toC09Inputs amtIn hIn.amt tlIn hIn.tl height (g.inboundOf hIn.chan prev hIn.to)).outgoing =
      hIn.amt := rfl
  have e2 : (toC09Inputs amtIn hIn.amt tlIn hIn.tl height (g.inboundOf hIn.chan prev hIn.to)).expOut =
      hIn.tl := rfl
  have e3 : (toC09Inputs amtIn hIn.amt tlIn hIn.tl height (g.inboundOf hIn.chan prev hIn.to)).height =
      height := rfl
  rw [e1, e2, e3, hT]
  simp [hFee, hDelta, hDM]

theorem chain_passes_C09 {g : Graph} {r : Req} {amt ftl : Nat} :
    ∀ {hops : List Hop} {cur amtIn tlIn : Nat}, HopsValid g r cur amtIn hops →
      FeesValid g amt ftl cur amtIn tlIn hops → AllFwdPassC09 g cur amtIn tlIn hops
  | [], _, _, _, _, _ => trivial
  | [_], _, _, _, _, _ => trivial
  | h :: h' :: [], _, _, _, hv, hf => by
    simp only [HopsValid] at hv
    simp only [FeesValid] at hf
    exact ⟨fwd_passes_C09 hf.1 hv.2.1, trivial⟩
  | h :: h' :: h'' :: rest, _, _, _, hv, hf => by
    simp only [HopsValid] at hv
    simp only [FeesValid] at hf
    refine ⟨fwd_passes_C09 hf.1 hv.2.1, ?_⟩
    exact chain_passes_C09 (hops := h' :: h'' :: rest) (by simp only [HopsValid]; exact hv.2)
      (by simp only [FeesValid]; exact hf.2)

end LndModel.C19
