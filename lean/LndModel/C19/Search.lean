/-
C19 model of `findPath`'s main loop (`routing/pathfind.go`): the distance map
(`distance[node] = nodeWithDist{…}`), the open set (`distanceHeap`), the pivot
(`partialPath`), `processEdge` with its replace rule, `heap.Pop` (a minimal
element w.r.t. `distanceHeap.Less`) and the final reconstruction that walks the
`nextHop` pointers from the source.  Core Lean only.

Probabilities are `float64` in the code.  The model is parametric in a
"probability algebra" (`ProbAlg`): carrier, order, product, the distance
function `getProbabilityBasedDist` (attempt cost baked in) and the
`MinProbability` filter.  The driver instantiates it with IEEE doubles
(`Float`), the theorems hold for every algebra satisfying `ProbAlg.Lawful`
(order is total and transitive, multiplying by an edge probability does not
increase a probability, the distance is monotone).
-/
import LndModel.C19.Model
namespace LndModel.C19

/-! ## Probability algebra -/

structure ProbAlg where
  P : Type
  /-- `p ≤ q` -/
  le : P → P → Bool
  mul : P → P → P
  one : P
  /-- `getProbabilityBasedDist weight probability absoluteAttemptCost`. -/
  dist : Int → P → Int
  /-- an edge probability the search continues with: non-zero, at most one. -/
  valid : P → Bool
  /-- `!(probability < cfg.MinProbability)`. -/
  minOk : P → Bool

/-- The laws the finality argument needs; they hold for IEEE doubles in `(0,1]`
    with a non-negative attempt cost (correctly rounded `*`, `/`, `+`, the
    conversions `float64(int64)` and `int64(float64)` are monotone). -/
structure ProbAlg.Lawful (A : ProbAlg) : Prop where
  le_total : ∀ p q, A.le p q = true ∨ A.le q p = true
  le_trans : ∀ p q s, A.le p q = true → A.le q s = true → A.le p s = true
  mul_le : ∀ p q, A.valid q = true → A.le (A.mul p q) p = true
  dist_mono : ∀ w w' p p', w ≤ w' → A.le p' p = true → A.dist w p ≤ A.dist w' p'
  dist_nonneg : ∀ w p, 0 ≤ w → 0 ≤ A.dist w p

/-- `distanceHeap.Less` on `(dist, probability)` keys; also the negation of
    `processEdge`'s skip rule (`tempDist > current.dist` or equal distance and
    `probability <= current.probability`). -/
def better (A : ProbAlg) (k k' : Int × A.P) : Bool :=
  decide (k.1 < k'.1) || (k.1 == k'.1 && !A.le k.2 k'.2)

/-! ## Search state -/

/-- `nodeWithDist` as stored in the distance map. -/
structure NodeEnt (P : Type) where
  /-- `netAmountReceived`, `outboundFee`, `incomingCltv` -/
  ent : Entry
  weight : Int
  dist : Int
  prob : P
  /-- `nextHop` -/
  next : UEdge
  /-- `routingInfoSize` -/
  pay : Nat

/-- `partialPath`: the node being expanded. `exit` is `nextHop == nil`. -/
structure Pivot (P : Type) where
  node : Nat
  ent : Entry
  weight : Int
  dist : Int
  prob : P
  pay : Nat
  exit : Bool

structure SState (P : Type) where
  /-- the distance map, newest binding first. -/
  D : List (Nat × NodeEnt P)
  /-- nodes on the heap. -/
  opn : List Nat
  pv : Pivot P
  /-- the source was popped: the main loop has ended. -/
  done : Bool
  /-- ghost: some stored entry was computed with a wrapped `edgeWeight` /
      accumulated weight (int64 overflow). -/
  wrapped : Bool

def getD {P : Type} (D : List (Nat × NodeEnt P)) (v : Nat) : Option (NodeEnt P) :=
  match D with
  | [] => none
  | (k, x) :: rest => if k == v then some x else getD rest v

/-- Per-search constants besides the request: payload size of the final hop
    (`lastHopPayloadSize`) and `sphinx.MaxRoutingPayloadSize`. -/
structure SCfg where
  lastPay : Nat
  maxPay : Nat

def SState.init {P : Type} (one : P) (r : Req) (c : SCfg) : SState P :=
  { D := [], opn := [],
    pv := ⟨r.target, r.initEntry, 0, 0, one, c.lastPay, true⟩,
    done := false, wrapped := false }

/-! ## `processEdge` -/

/-- `edgeWeight` (int64, left-associated product, truncating division). -/
def edgeWeight (locked fee delta : Nat) : Int :=
  i64 (i64 fee + Int.tdiv (i64 (i64 (i64 locked * delta) * riskFactorBillionths)) 1000000000)

def edgeWeightI (locked fee delta : Nat) : Nat :=
  fee + locked * delta * riskFactorBillionths / 1000000000

/-- number of bytes of a truncated big-endian integer (`tlv.SizeTUint64`). -/
def tuSize (n : Nat) : Nat :=
  if n = 0 then 0 else if n < 2 ^ 8 then 1 else if n < 2 ^ 16 then 2 else if n < 2 ^ 24 then 3
  else if n < 2 ^ 32 then 4 else if n < 2 ^ 40 then 5 else if n < 2 ^ 48 then 6
  else if n < 2 ^ 56 then 7 else 8

/-- `route.Hop.PayloadSize` of an intermediate hop with only amount, expiry and
    next channel id (what `defaultHopPayloadSize` / `PrivateEdge` compute). -/
def hopPayload (amt expiry chan : Nat) : Nat :=
  let body := (if amt = 0 then 0 else 2 + tuSize amt) + (if expiry = 0 then 0 else 2 + tuSize expiry) +
    (if chan = 0 then 0 else 10)
  body + 1 + 32

/-- The guards of the expansion loop before `getEdge`, the edge `getEdge`
    yields and the amount `processEdge` would send over it. -/
def relaxEdge {P : Type} (g : Graph) (r : Req) (s : SState P) (u : Nat) : Option UEdge :=
  if s.done then none else
  if r.source != r.target && u == r.target then none else
  if r.lastHop.isSome && s.pv.node == r.target && r.lastHop != some u then none else
  getEdge g r u s.pv.node s.pv.exit s.pv.ent

def sendAmt (e : UEdge) (x : Entry) : Nat :=
  u64 (x.recv + u64OfInt (cappedIn e.inBase e.inRate x.recv x.outFee))

/-- the relaxation reaches the probability source (fee limit passed). -/
def reachesProb (r : Req) (e : UEdge) (x : Entry) : Bool :=
  let totalFee := i64 (i64 (sendAmt e x) - i64 r.amt)
  !(totalFee > 0 && u64OfInt totalFee > r.feeLimit)

/-- no int64 overflow in `edgeWeight` and in the accumulated weight. -/
def weightFits (pw : Int) (locked fee delta : Nat) : Bool :=
  decide (locked * delta * riskFactorBillionths < 2 ^ 63) &&
  decide (pw + edgeWeightI locked fee delta < 2 ^ 63)

/-- `fee` of `processEdge`: `inboundFee + outboundFee`, floored at zero. -/
def relFee (e : UEdge) (x y : Entry) : Nat :=
  let signedFee := i64 (cappedIn e.inBase e.inRate x.recv x.outFee + i64 y.outFee)
  if signedFee > 0 then signedFee.toNat else 0

/-- `distance[u] = withDist; nodeHeap.PushOrFix(withDist)`. -/
def storeState {P : Type} (s : SState P) (u : Nat) (n : NodeEnt P) (fits : Bool) : SState P :=
  { s with D := (u, n) :: s.D,
           opn := if s.opn.contains u then s.opn else u :: s.opn,
           wrapped := s.wrapped || !fits }

/-- The `nodeWithDist` that `processEdge` builds for `u` over edge `e` when the
    integer admissibility part produced `y` and the probability source `ep`. -/
def relaxCand (A : ProbAlg) (r : Req) (s : SState A.P) (u : Nat) (e : UEdge) (y : Entry)
    (ep : A.P) : NodeEnt A.P :=
  let send := sendAmt e s.pv.ent
  let fee := relFee e s.pv.ent y
  let prob := A.mul s.pv.prob ep
  let tw := i64 (s.pv.weight + edgeWeight send fee (r.dlOf e))
  { ent := y, weight := tw, dist := A.dist tw prob, prob := prob, next := e,
    pay := s.pv.pay +
      (if u == r.source then 0 else hopPayload send (u64OfInt s.pv.ent.cltv % 2 ^ 32) e.chan) }

/-- `processEdge`'s comparison with the entry already stored for `u`:
    `tempDist > current.dist`, or equal distance and `probability <=
    current.probability`. -/
def skipTest (A : ProbAlg) (D : List (Nat × NodeEnt A.P)) (u : Nat) (n : NodeEnt A.P) : Bool :=
  match getD D u with
  | some cur => !better A (n.dist, n.prob) (cur.dist, cur.prob)
  | none => false

/-- The tail of `processEdge` once the candidate entry `n` is computed:
    `MinProbability`, comparison with the stored entry, payload limit, store. -/
def relaxDecide (A : ProbAlg) (c : SCfg) (s : SState A.P) (u : Nat) (n : NodeEnt A.P)
    (fits : Bool) : SState A.P :=
  if !A.minOk n.prob then s else
  if skipTest A s.D u n then s else
  if n.pay > c.maxPay then s else
  storeState s u n fits

def relaxWith (A : ProbAlg) (r : Req) (c : SCfg) (s : SState A.P) (u : Nat) (ep : A.P)
    (e : UEdge) : Option Entry → SState A.P
  | none => s
  | some y =>
    relaxDecide A c s u (relaxCand A r s u e y ep)
      (weightFits s.pv.weight (sendAmt e s.pv.ent) (relFee e s.pv.ent y) (r.dlOf e))

def relaxOver (A : ProbAlg) (r : Req) (c : SCfg) (s : SState A.P) (u : Nat) (ep : A.P) :
    Option UEdge → SState A.P
  | none => s
  | some e => relaxWith A r c s u ep e (processEdge r e s.pv.ent)

/-- One call of `processEdge(fromVertex = u, edge, toNodeDist = pivot)` with the
    probability `ep` returned by the probability source, preceded by the guards
    of the expansion loop.  Returns the state unchanged when the edge is
    skipped. -/
def relaxStep (A : ProbAlg) (g : Graph) (r : Req) (c : SCfg) (s : SState A.P) (u : Nat)
    (ep : A.P) : SState A.P :=
  relaxOver A r c s u ep (relaxEdge g r s u)

/-- `w` may be returned by `heap.Pop`: it is on the heap and no heap element is
    `Less` than it. -/
def isMin (A : ProbAlg) (s : SState A.P) (w : Nat) : Bool :=
  match getD s.D w with
  | none => false
  | some x =>
    s.opn.contains w && s.opn.all fun w' =>
      match getD s.D w' with
      | none => true
      | some x' => !better A (x'.dist, x'.prob) (x.dist, x.prob)

/-- `partialPath = heap.Pop(&nodeHeap)`; the loop ends when it is the source. -/
def popStep {P : Type} (r : Req) (s : SState P) (w : Nat) : SState P :=
  match getD s.D w with
  | none => s
  | some x =>
    { s with opn := s.opn.filter (· != w),
             pv := ⟨w, x.ent, x.weight, x.dist, x.prob, x.pay, false⟩,
             done := w == r.source }

/-- The reachable states of the main loop.  Over-approximates the code: every
    guard / `getEdge` / `processEdge` decision is the code's, but any node may be
    offered as `fromNode` any number of times, edge probabilities are arbitrary
    valid values (any probability source), and the next pop may come before all
    incoming edges of the pivot were processed. -/
inductive Run (A : ProbAlg) (g : Graph) (r : Req) (c : SCfg) : SState A.P → Prop
  | init : Run A g r c (SState.init A.one r c)
  | relax {s : SState A.P} (u : Nat) (ep : A.P) :
      Run A g r c s → A.valid ep = true → Run A g r c (relaxStep A g r c s u ep)
  | pop {s : SState A.P} (w : Nat) :
      Run A g r c s → s.done = false → isMin A s w = true → Run A g r c (popStep r s w)

/-- The reconstruction loop: follow `nextHop` from `v` until the target. -/
def walk {P : Type} (D : List (Nat × NodeEnt P)) (tgt : Nat) : Nat → Nat → Option (List UEdge)
  | 0, _ => none
  | fuel + 1, v =>
    match getD D v with
    | none => none
    | some x =>
      if x.next.to == tgt then some [x.next]
      else (walk D tgt fuel x.next.to).map (x.next :: ·)

end LndModel.C19
