/-
C19 helper lemmas for `search_sound_partial`: wrap-free arithmetic of
`processEdge` along a chain and the invariant linking search entries with the
route rebuilt by `newRoute`.
-/
import LndModel.C19.SearchLemmas
namespace LndModel.C19

theorem u64_add_ofInt {n : Nat} {z : Int} (h1 : 0 ≤ (n : Int) + z) (h2 : (n : Int) + z < 2 ^ 64)
    (hz1 : -(2 ^ 64) < z) (hz2 : z < 2 ^ 64) : u64 (n + u64OfInt z) = ((n : Int) + z).toNat := by
  unfold u64 u64OfInt
  omega

theorem calcInFee_zero (n : Nat) : calcInFee 0 0 n = 0 := by
  simp [calcInFee, clampRate, maxFeeRate, i64]

theorem sendOf_exit {r : Req} {e : UEdge} (h0 : e.inBase = 0 ∧ e.inRate = 0) (ha : r.amt < 2 ^ 61) :
    sendOf e r.initEntry = r.amt := by
  unfold sendOf Req.initEntry cappedIn
  rw [h0.1, h0.2, calcInFee_zero]
  simp [i64, u64OfInt]
  exact u64_of_lt (by omega)

theorem sendOf_mid {e e' : UEdge} {x : Entry} {a : Nat} (hs : StepFits e e' a)
    (ho : x.outFee = computeFee e'.base e'.rate a) (hr : x.recv = u64 (a + x.outFee)) :
    sendOf e x = a + feeStepI e e' a := by
  obtain ⟨h1, h2, h3, h4, h5⟩ := hs
  have hc : computeFee e'.base e'.rate a = computeFeeI e'.base e'.rate a := by
    apply computeFee_eq h1
    unfold computeFeeI feeRateParts at h2; omega
  rw [hc] at ho
  unfold sendOf cappedIn feeStepI
  dsimp only
  generalize computeFeeI e'.base e'.rate a = o at *
  rw [ho] at hr
  rw [u64_of_lt (by omega)] at hr
  rw [hr, ho]
  obtain ⟨hi, hi1, hi2⟩ := calcInFee_eq (ib := e.inBase) (ir := e.inRate) (n := a + o) h2 h3 h4 h5
  rw [hi]
  generalize calcInFeeI e.inBase e.inRate (a + o) = f at *
  rw [i64_of_range (z := (o : Int)) (by omega) (by omega)]
  split
  · rw [u64_add_ofInt (by omega) (by omega) (by omega) (by omega)]
    omega
  · rw [u64_add_ofInt (by omega) (by omega) (by omega) (by omega)]
    omega



theorem processEdge_some {r : Req} {e : UEdge} {x y : Entry} (h : processEdge r e x = some y) :
    ¬ (i64 (i64 (sendOf e x) - i64 r.amt) > 0 ∧
        u64OfInt (i64 (i64 (sendOf e x) - i64 r.amt)) > r.feeLimit) ∧
    r.ignored e.frm e.to = false ∧
    y.outFee = r.outOf e (sendOf e x) ∧
    y.recv = u64 (sendOf e x + y.outFee) ∧
    y.cltv = i32 (x.cltv + (r.dlOf e : Nat)) ∧
    ¬ (u64OfInt y.cltv > r.cltvLimit + u64OfInt (i32 (r.height + r.finalDelta))) := by
  unfold processEdge at h
  dsimp only at h
  split at h
  · simp at h
  · rename_i hfee
    split at h
    · simp at h
    · rename_i hign
      split at h
      · simp at h
      · rename_i hcl
        simp only [Option.some.injEq] at h
        subst h
        refine ⟨?_, by simpa using hign, rfl, rfl, rfl, hcl⟩
        simpa [sendOf] using hfee



theorem amtInRange_spec {p : Policy} {cap A : Nat} (h : amtInRange p cap A = true) :
    p.minHtlc ≤ A ∧ (p.hasMax = true → A ≤ p.maxHtlc) ∧ (cap ≠ 0 → A ≤ cap * 1000) := by
  unfold amtInRange at h
  simp only [Bool.and_eq_true, Bool.not_eq_true', Bool.and_eq_false_iff, decide_eq_false_iff_not] at h
  obtain ⟨⟨h1, h2⟩, h3⟩ := h
  refine ⟨by omega, ?_, ?_⟩
  · intro hm
    rcases h2 with h2 | h2
    · simp [hm] at h2
    · omega
  · intro hc
    rcases h1 with h1 | h1
    · omega
    · have : u64 (cap * 1000) ≤ cap * 1000 := Nat.mod_le _ _
      omega

theorem feeStepI_bound {e e' : UEdge} {a : Nat} (h : StepFits e e' a) :
    a + feeStepI e e' a < 2 ^ 63 := by
  obtain ⟨h1, h2, h3, h4, h5⟩ := h
  unfold feeStepI
  dsimp only
  generalize computeFeeI e'.base e'.rate a = o at *
  obtain ⟨_, hi1, hi2⟩ := calcInFee_eq (ib := e.inBase) (ir := e.inRate) (n := a + o) h2 h3 h4 h5
  generalize calcInFeeI e.inBase e.inRate (a + o) = f at *
  omega

theorem fits_base : ∀ {es : List UEdge} {h amt fd : Nat}, es ≠ [] → Fits h amt fd es →
    amt < 2 ^ 61 ∧ h + fd < 2 ^ 31
  | [], _, _, _, hne, _ => absurd rfl hne
  | [_], _, _, _, _, hf => hf
  | _ :: e' :: rest, _, _, _, _, hf => fits_base (es := e' :: rest) (by simp) hf.1

theorem fits_top : ∀ {es : List UEdge} {h amt fd : Nat}, es ≠ [] → Fits h amt fd es →
    (buildI h amt fd es).2.1 < 2 ^ 63 ∧ (buildI h amt fd es).2.2 < 2 ^ 31
  | [], _, _, _, hne, _ => absurd rfl hne
  | [_], _, _, _, _, hf => by
    obtain ⟨h1, h2⟩ := hf
    simp only [buildI]; omega
  | e :: e' :: rest, _, _, _, _, hf => by
    simp only [buildI]
    exact ⟨feeStepI_bound hf.2.1, hf.2.2⟩

/-- Invariant linking the entry the search stores for `v` with the route that
    `newRoute` later rebuilds from the same chain of edges. -/
structure ReachInv (g : Graph) (r : Req) (v : Nat) (y : Entry) (e : UEdge) (path : List UEdge) :
    Prop where
  pathIn : PathIn g v (e :: path)
  hops : HopsValid g r v (buildI r.height r.amt r.finalDelta (e :: path)).2.1
    (buildI r.height r.amt r.finalDelta (e :: path)).1
  out : y.outFee = r.outOf e (buildI r.height r.amt r.finalDelta (e :: path)).2.1
  recv : y.recv = u64 ((buildI r.height r.amt r.finalDelta (e :: path)).2.1 + y.outFee)
  cltv : y.cltv = i32 (((buildI r.height r.amt r.finalDelta (e :: path)).2.2 : Nat) + (r.dlOf e : Nat))
  feeLim : (buildI r.height r.amt r.finalDelta (e :: path)).2.1 ≤ r.amt + r.feeLimit
  cltvLim : u64OfInt y.cltv ≤ r.cltvLimit + u64OfInt (i32 (r.height + r.finalDelta))

theorem hopValid_of {g : Graph} {r : Req} {frm to : Nat} {x : Entry} {e : UEdge} {last : Bool}
    {A a tl : Nat} {p : Policy} {cap : Nat}
    (hdp : g.dirPol e.chan frm to = some (p, cap)) (heto : e.to = to)
    (hrange : amtInRange p cap (sendOf e x) = true) (hsend : sendOf e x = A)
    (hdis : frm ≠ r.self → p.disabled = false)
    (hbw : frm = r.self → ∀ b, r.bwOf e.chan = some b → sendOf e x ≤ b)
    (hout : frm = r.self → r.outChans ≠ [] → e.chan ∈ r.outChans)
    (hlast : last = true → ∀ l, r.lastHop = some l → frm = l)
    (hign : r.ignored frm to = false) :
    HopValid g r last frm A ⟨e.chan, e.to, a, tl⟩ := by
  rw [hsend] at hrange hbw
  obtain ⟨r1, r2, r3⟩ := amtInRange_spec hrange
  simp only [Req.ignored, Bool.or_eq_false_iff] at hign
  refine ⟨p, cap, by simpa [heto] using hdp, hdis, r1, r2, r3, hbw, hout, hlast, ?_, ?_⟩
  · simpa using hign.1
  · simpa [heto] using hign.2



theorem reach_inv {g : Graph} {r : Req} (hg : GraphOK g) : ∀ {v : Nat} {y : Entry} {E : List UEdge},
    Reach g r v y E → ∀ (e : UEdge) (path : List UEdge), E = e :: path →
    (∀ e' ∈ path, e'.frm ≠ r.source) → Fits r.height r.amt r.finalDelta E →
    ReachInv g r v y e path := by
  intro v y E hR
  induction hR with
  | start => intro e path h; cases h
  | @step to frm x y path e hprev hlast hget hproc ih =>
    intro e0 path0 heq hsrc hf
    cases heq
    obtain ⟨p, cap, hdp, hefrm, heto, hbase, hrate, hdelta, hinb, hexit, hrange, hdis, hbw, hout⟩ :=
      getEdge_sound hg hget
    obtain ⟨pfee, pign, pout, precv, pcltv, pclim⟩ := processEdge_some hproc
    rw [hefrm, heto] at pign
    have hedge : EdgeIn g e := ⟨p, cap, by rw [hefrm, heto]; exact hdp, hbase, hrate, hdelta⟩
    cases path with
    | nil =>
      cases hprev
      obtain ⟨hamt, hhf⟩ := hf
      have hsend : sendOf e r.initEntry = r.amt := sendOf_exit (hexit rfl) hamt
      rw [hsend] at pout precv pfee
      have hx : r.initEntry.cltv = ((r.height + r.finalDelta : Nat) : Int) := by
        simp only [Req.initEntry]
        rw [i32_of_range (by omega) (by omega)]
        omega
      refine ⟨⟨hedge, hefrm⟩, ?_, pout, precv, ?_, by simp only [buildI]; omega, by omega⟩
      · simp only [buildI, HopsValid]
        exact ⟨hopValid_of hdp heto hrange hsend hdis hbw hout (fun _ => hlast rfl) pign, heto⟩
      · simp only [buildI]
        rw [pcltv, hx]
    | cons e' rest =>
      obtain ⟨hf', hs, httl⟩ := hf
      have he'src : e'.frm ≠ r.source := hsrc e' (List.mem_cons_self ..)
      have hi := ih e' rest rfl (fun e'' he'' => hsrc e'' (List.mem_cons_of_mem _ he'')) hf'
      have hout' : r.outOf e' (buildI r.height r.amt r.finalDelta (e' :: rest)).2.1 =
          computeFee e'.base e'.rate (buildI r.height r.amt r.finalDelta (e' :: rest)).2.1 := by
        simp [Req.outOf, he'src]
      have hdl' : r.dlOf e' = e'.delta := by simp [Req.dlOf, he'src]
      have hsend := sendOf_mid hs (hi.out.trans hout') hi.recv
      have hA := feeStepI_bound hs
      obtain ⟨hamt, hhf⟩ := fits_base (es := e' :: rest) (by simp) hf'
      rw [hsend] at pout precv pfee
      have hx : x.cltv = (((buildI r.height r.amt r.finalDelta (e' :: rest)).2.2 + e'.delta : Nat) : Int) := by
        rw [hi.cltv, hdl', i32_of_range (by omega) (by omega)]
        omega
      obtain ⟨hd, tl, hhd, _, _⟩ := buildI_head r.height r.amt r.finalDelta e' rest
      have hpath' := hi.pathIn
      refine ⟨⟨hedge, ?_, hefrm, by rw [heto]; exact hpath'⟩, ?_, ?_, ?_, ?_, ?_, by omega⟩
      · unfold InbIn; rw [hefrm, heto]; exact hinb rfl
      · simp only [buildI]
        have hh := hi.hops
        rw [hhd] at hh ⊢
        simp only [HopsValid]
        refine ⟨hopValid_of hdp heto hrange hsend hdis hbw hout (fun h => by cases h) pign, ?_⟩
        rw [heto]; exact hh
      · simp only [buildI]; exact pout
      · simp only [buildI]; exact precv
      · simp only [buildI]
        rw [pcltv, hx]
      · simp only [buildI]
        generalize (buildI r.height r.amt r.finalDelta (e' :: rest)).2.1 +
          feeStepI e e' (buildI r.height r.amt r.finalDelta (e' :: rest)).2.1 = A at *
        rw [i64_of_range (z := (A : Int)) (by omega) (by omega),
          i64_of_range (z := (r.amt : Int)) (by omega) (by omega),
          i64_of_range (by omega) (by omega)] at pfee
        unfold u64OfInt at pfee
        omega

end LndModel.C19
